(* C05 proofs, part 4: every step of the instrumented machine preserves the
   invariant of CondInv.v (glue between the phases of CondPhase.v and the
   effect lemmas). *)
From Coq Require Import List ZArith Lia Bool Arith.
From LF Require Import Conc T1K Cond CondPhase CondProofs CondInv.
Import ListNotations.
Local Open Scope Z_scope.

(* the ghost updates of a wake position *)
Definition gk_wake (m : kmem) (t q : nat) (kp : wakepos) (g : gk) : gk :=
  match kp with
  | KPSetHead h nx =>
      set_nown (set_hand (set_gq g q (tl (gq g q))) q (option_map fst (hd_error (gq g q)))) h (OPop t)
  | KPOut h => set_nown g h (OThread (tid_of_name (ndata m h)))
  | _ => match sched_of m kp with Some f => sched_g g q f | None => g end
  end.

Definition gc_wake (m : kmem) (t q : nat) (kp : wakepos) (c : gc) : gc :=
  match sched_of m kp with
  | Some f =>
      if (q =? COND)%nat
      then {| g_reg := g_reg c; g_claimed := g_claimed c; g_rel := g_rel c + 1; g_trans := g_trans c;
              gwl := remove_nat f (gwl c); myclaim := myclaim c; myrel := upd (myrel c) t (myrel c t + 1) |}
      else c
  | None => c
  end.

Definition res_pos (res : wres) : vwpos := match res with WCont _ kp' => VP kp' | _ => VDone end.

Lemma h1_unique m V g t u : KInv m V g -> v_h1 (V t) = true -> u <> t -> v_h1 (V u) = false.
Proof.
  intros I Ht Hu. destruct (v_h1 (V u)) eqn:E; auto. exfalso.
  pose proof (tk_hold _ _ _ I t 1%nat Ht) as A. pose proof (tk_hold _ _ _ I u 1%nat E) as B. congruence.
Qed.

Lemma wake_cnt_pos m V g c t q cnt wc kp :
  Inv1 m V g c -> v_wake (V t) = Some (q, cnt, wc, VP kp) -> wc < cnt /\ 0 <= wc.
Proof.
  intros [I C] Hw. destruct (w_wake _ (l_wf _ _ _ I t) _ _ _ _ Hw) as (Hq & _ & Hm).
  destruct Hq as [->|[->| ->]].
  - destruct (tk_pass _ _ _ I t _ _ _ _ Hw eq_refl) as [_ ->]. rewrite (Hm eq_refl). lia.
  - destruct (tk_pass _ _ _ I t _ _ _ _ Hw eq_refl) as [_ ->]. rewrite (Hm eq_refl). lia.
  - destruct (cn_wc _ _ _ C t _ _ _ Hw) as (A & B & _). lia.
Qed.

(* the old stub, owned by the consumer, receives the popped data *)
Lemma k_copy m V g t q cnt wc h d :
  KInv m V g -> v_wake (V t) = Some (q, cnt, wc, VP (KPCopy h d)) ->
  KInv (set_ndata m h d) (upd V t (set_vwake (V t) (Some (q, cnt, wc, VP (KPOut h))))) g.
Proof.
  intros I Hw. pose proof (l_wf _ _ _ I t) as Wt.
  destruct (l_pop _ _ _ I t _ _ _ _ Hw) as (Lo & Lh & e & Le & Ld).
  assert (P : mpriv t g m (set_ndata m h d)).
  { constructor; auto. intros n A B. cbn. rewrite upd_other; auto. intros ->. contradiction. }
  apply (inv_private m _ V g t _ I P).
  - eapply vwf_set_wake; eauto.
  - left; reflexivity.
  - left; reflexivity.
  - intros Hf. apply (l_own _ _ _ I t Hf).
  - intros q0. exact (tk_hold _ _ _ I t q0).
  - intros q0 wp. exact (tk_got _ _ _ I t q0 wp).
  - cbn. intros q0 cnt0 wc0 kp0 E M. inversion E; subst. eapply (tk_pass _ _ _ I t); eauto.
  - intros q0 a b A. cbn. exact A.
  - intros q0 wp A B C. cbn. eauto.
  - intros q0 cnt0 wc0 w0 A B. rewrite Hw in A. inversion A; subst. cbn. eauto.
  - cbn. intros q0 cnt0 wc0 w0 E. inversion E; subst. cbn. rewrite upd_same. repeat split; auto. exists e. auto.
  - intros q0 wp Hwt. cbn in Hwt.
    assert (wp = WPYield (YPMaint UMUTEX IPAdd)) by (eapply (w_maint _ Wt); eauto; right; congruence).
    subst wp. exact Logic.I.
  - exact (l_acct _ _ _ I t).
  - exact (l_stat _ _ _ I t).
  - exact (l_node _ _ _ I t).
  - exact (l_slot _ _ _ I t).
  - exact (l_maint _ _ _ I t).
Qed.

Definition gc_sched (c : gc) (t q f : nat) : gc :=
  if (q =? COND)%nat
  then {| g_reg := g_reg c; g_claimed := g_claimed c; g_rel := g_rel c + 1; g_trans := g_trans c;
          gwl := remove_nat f (gwl c); myclaim := myclaim c; myrel := upd (myrel c) t (myrel c t + 1) |}
  else c.

Lemma sched_inv m V g c t q cnt wc f (rd : bool) :
  Inv1 m V g c -> v_wake (V t) = Some (q, cnt, wc, VP (if rd then KPReady f else KPState f)) ->
  wc < cnt -> 0 <= wc ->
  Inv1 (wake (if rd then set_fstate m f ST_READY else m) f)
       (upd V t (set_vwake (V t) (Some (q, cnt, wc + 1, res_pos (wloop cnt (wc + 1))))))
       (sched_g g q f) (gc_sched c t q f).
Proof.
  intros [I C] Hw Hlt Hge.
  pose proof (l_wf _ _ _ I t) as Wt.
  destruct (w_wake _ Wt _ _ _ _ Hw) as (Hq & Hcq & Hmq).
  assert (Lh : hand g q = Some f).
  { pose proof (l_pop _ _ _ I t _ _ _ _ Hw) as L. destruct rd; cbn in L; tauto. }
  destruct (q_hand _ _ _ I q f Hq Lh) as (Fg & _ & (fwp & Fw & Fa) & _).
  assert (Hft : f <> t) by (eapply wake_not_wait_same; eauto).
  destruct (w_wait _ (l_wf _ _ _ I f) _ _ Fw) as (_ & _ & FL1 & FL2 & _).
  assert (Wl : res_pos (wloop cnt (wc + 1)) = VP KPHead /\ wc + 1 < cnt \/
               res_pos (wloop cnt (wc + 1)) = VDone /\ wc + 1 = cnt).
  { unfold wloop. destruct (wc + 1 <? cnt) eqn:L; cbn; [left|right]; split; auto.
    - now apply Z.ltb_lt. - apply Z.ltb_ge in L. lia. }
  split.
  - apply k_sched; auto.
    + destruct Wl as [[-> _]|[-> _]]; auto.
    + intros Mq. rewrite (Hmq Mq) in *. destruct (tk_pass _ _ _ I t _ _ _ _ Hw Mq) as [_ ->].
      destruct Wl as [[_ L]|[-> _]]; auto; try lia.
  - unfold gc_sched. destruct (Nat.eqb_spec q COND) as [->|Hn].
    + destruct (Hcq eq_refl) as [Hh1 _].
      assert (Fc : v_cw3 (V f) = true).
      { destruct (v_lockw (V f)) eqn:El; [destruct (FL1 eq_refl) as [Q _]; discriminate Q|destruct (FL2 eq_refl); auto]. }
      eapply c_sched_cond; eauto.
      * intros u Hu. eapply h1_unique; eauto.
      * destruct Wl as [[-> L]|[-> L]]; auto.
    + assert (Mq : is_mutex q = true) by (destruct Hq as [->|[->| ->]]; auto; contradiction).
      assert (Fc : v_cw3 (V f) = false).
      { destruct (v_lockw (V f)) eqn:El; [destruct (FL1 eq_refl); auto|destruct (FL2 eq_refl) as [Q _]; contradiction]. }
      apply c_sched_mutex; auto.
      * unfold vout. cbn. rewrite Hw. destruct Hq as [->|[->| ->]]; auto. contradiction.
      * cbn. intros cnt0 wc0 w0 Q. inversion Q; subst. contradiction.
Qed.

Lemma wake_inv m V g c t q cnt wc kp inm m1 res :
  Inv1 m V g c -> v_wake (V t) = Some (q, cnt, wc, VP kp) ->
  wake_step m t q cnt wc kp inm = (m1, res) -> res <> WJunk ->
  Inv1 m1 (upd V t (set_vwake (V t) (Some (q, cnt, wc_of res 0, res_pos res))))
       (gk_wake m t q kp g) (gc_wake m t q kp c).
Proof.
  intros [I C] Hw E NJ.
  destruct (wake_cnt_pos _ _ _ _ _ _ _ _ _ (conj I C) Hw) as [Hlt Hge].
  pose proof (l_wf _ _ _ I t) as Wt.
  destruct (w_wake _ Wt _ _ _ _ Hw) as (Hq & Hcq & Hmq).
  pose proof (l_pop _ _ _ I t _ _ _ _ Hw) as LP.
  assert (SIL : forall w', inhand w' = inhand (VP kp) -> pop_local m g t q w' ->
                (q = COND -> match w' with VP _ => True | VDone => wc = cnt end) ->
                Inv1 m (upd V t (set_vwake (V t) (Some (q, cnt, wc, w')))) g c).
  { intros w' A B D. split; [eapply k_wake_silent; eauto|].
    eapply cinv_wake_same; eauto. }
  assert (LOOP : wloop cnt wc = WCont wc KPHead).
  { unfold wloop. destruct (wc <? cnt) eqn:L; auto. apply Z.ltb_ge in L. lia. }
  destruct kp as [|h|h nx|h nx|h d|h|f|f|sp]; cbn [wake_step] in E.
  - inversion E; subst. cbn. apply SIL; cbn; auto.
  - cbn in LP. destruct LP as [-> LP].
    destruct (nnext m (qhead m q)) eqn:En.
    + assert (Hc : (0 <? cnt) = true) by (apply Z.ltb_lt; lia). rewrite Hc in E.
      destruct inm; [rewrite LOOP in E|]; inversion E; subst; cbn; apply SIL; cbn; auto.
    + inversion E; subst. cbn. apply SIL; cbn; auto; try (repeat split; auto; rewrite ?En; discriminate).
  - inversion E; subst. cbn [wc_of res_pos gk_wake gc_wake sched_of].
    destruct (k_sethead _ _ _ _ _ _ _ _ _ I Hw) as (e & rest & Eg & K). rewrite Eg. cbn [tl hd_error option_map fst].
    split; [exact K|]. eapply cinv_wake_same in C; eauto.
    + destruct C as [C1 C2 C3 C4 C5 C6]. constructor; auto.
    + intros _. exact Logic.I.
  - inversion E; subst. cbn. apply SIL; cbn; auto.
    cbn in LP. destruct LP as (L1 & L2 & L3 & e & L4 & L5). repeat split; auto. exists e. auto.
  - inversion E; subst. cbn [wc_of res_pos gk_wake gc_wake sched_of].
    split; [eapply k_copy; eauto|]. eapply cinv_wake_same; eauto. intros _. exact Logic.I.
  - inversion E; subst. cbn [wc_of res_pos gk_wake gc_wake sched_of].
    split; [exact (k_out _ _ _ _ _ _ _ _ I Hw)|].
    pose proof (cinv_wake_same V g c t q cnt wc (VP (KPOut h)) (VP (KPState (tid_of_name (ndata m h)))) C Hw (fun _ => Logic.I)) as C'.
    destruct C' as [C1 C2 C3 C4 C5 C6]. constructor; auto.
  - cbn in LP. destruct LP as (Lh & Lf).
    destruct (fstate m f =? ST_WAITING) eqn:Ef.
    + inversion E; subst. unfold gk_wake, gc_wake. cbn [sched_of]. rewrite Ef. cbn [wc_of res_pos].
      apply SIL; cbn; auto. repeat split; auto. now apply Z.eqb_eq.
    + unfold gk_wake, gc_wake. cbn [sched_of]. rewrite Ef. inversion E; subst.
      pose proof (sched_inv m V g c t q cnt wc f false (conj I C) Hw Hlt Hge) as S. cbn in S.
      assert (W1 : wc_of (wloop cnt (wc + 1)) 0 = wc + 1) by (unfold wloop; destruct (wc + 1 <? cnt); reflexivity).
      rewrite W1. exact S.
  - unfold gk_wake, gc_wake. cbn [sched_of]. inversion E; subst.
    pose proof (sched_inv m V g c t q cnt wc f true (conj I C) Hw Hlt Hge) as S. cbn in S.
    assert (W1 : wc_of (wloop cnt (wc + 1)) 0 = wc + 1) by (unfold wloop; destruct (wc + 1 <? cnt); reflexivity).
    rewrite W1. exact S.
  - destruct sp as [|st].
    + inversion E; subst. cbn. apply SIL; cbn; auto.
    + destruct (waitingish st); inversion E; subst; [congruence|]. rewrite LOOP. cbn. apply SIL; cbn; auto.
Qed.

(* ------------------------------------------------------------------ *)
(* the invariant only reads the views pointwise *)
Lemma KInv_ext m V V' g : (forall u, V u = V' u) -> KInv m V g -> KInv m V' g.
Proof.
  intros E I. constructor.
  - intros t q. rewrite <- (E t). apply I.
  - intros t q wp. rewrite <- (E t). apply I.
  - intros t q cnt wc kp. rewrite <- (E t). apply I.
  - apply I.
  - apply I.
  - apply I.
  - apply I.
  - intros q a b Hq Hc. destruct (q_link _ _ _ I q a b Hq Hc) as [A|[A [u B]]]; auto.
    right. split; auto. exists u. now rewrite <- (E u).
  - apply I.
  - intros q e n Hq Hin. destruct (q_ent _ _ _ I q e n Hq Hin) as (A & B & wp & C & D).
    repeat split; auto. exists wp. now rewrite <- (E e).
  - apply I.
  - intros q e Hq Hh. destruct (q_hand _ _ _ I q e Hq Hh) as (A & B & (wp & C & D) & (u & cnt & wc & w & F & G)).
    repeat split; auto; [exists wp; now rewrite <- (E e)|exists u, cnt, wc, w; now rewrite <- (E u)].
  - intros u q cnt wc w. rewrite <- (E u). apply I.
  - intros t q wp. rewrite <- (E t). apply I.
  - intros t. rewrite <- (E t). apply I.
  - intros t. rewrite <- (E t). apply I.
  - apply I.
  - intros t. rewrite <- (E t). apply I.
  - intros t q. rewrite <- (E t). apply I.
  - intros t q q' ip. rewrite <- (E t). apply I.
  - intros t. rewrite <- (E t). apply I.
Qed.

Lemma CInv_ext V V' g c : (forall u, V u = V' u) -> CInv V g c -> CInv V' g c.
Proof.
  intros E I. constructor.
  - intros t. rewrite <- (E t). apply I.
  - intros F. apply (cn_free _ _ _ I). intros u. rewrite (E u). auto.
  - intros t cnt wc w. rewrite <- (E t). apply I.
  - apply I.
  - apply I.
  - intros t. rewrite <- (E t). apply I.
Qed.

Lemma Inv1_ext m V V' g c : (forall u, V u = V' u) -> Inv1 m V g c -> Inv1 m V' g c.
Proof. intros E [A B]. split; [eapply KInv_ext|eapply CInv_ext]; eauto. Qed.

(* ------------------------------------------------------------------ *)
(* a fiber that is not waiting moves to another view in which it is not waiting
   either and pops nothing (between the calls of its program) *)
Lemma nowait_nocw3 v : vwf v -> v_wait v = None -> v_cw3 v = false.
Proof.
  intros W H. destruct (v_cw3 v) eqn:E; auto. destruct (w_cw3 _ W E) as (wp & A & _). congruence.
Qed.

Lemma jump_inv m m' V g c t v' :
  Inv1 m V g c -> mpriv t g m m' -> vwf v' ->
  (fstate m' t = fstate m t \/ forall q, isq q -> hand g q <> Some t) ->
  fnode m' t = fnode m t -> pend m' t = pend m t -> blocked m' t = blocked m t ->
  v_wait (V t) = None -> v_wait v' = None -> v_wake v' = None ->
  (v_wake (V t) = None \/ exists q cnt wc, v_wake (V t) = Some (q, cnt, wc, VDone)) ->
  (forall q, vholds q v' = true -> tok g q = THeld t) ->
  (forall q, slot_mutex m' t = Some q -> False) ->
  (v_h1 v' = true -> g_trans c = (if v_trans v' then 1 else 0) /\ g_claimed c - g_rel c = 0) ->
  (v_h1 v' = false -> v_h1 (V t) = true -> g_trans c = 0 /\ g_claimed c = g_rel c) ->
  Inv1 m' (upd V t v') g c.
Proof.
  intros [I C] P W Hst Hfn Hpd Hbl Hw Hw' Hk' Hk Hh Hs Hc1 Hc2.
  pose proof (l_wf _ _ _ I t) as Wt.
  split.
  - apply (inv_private m m' V g t _ I P); auto.
    + destruct Hst as [A|A]; auto.
    + rewrite Hfn. apply (l_own _ _ _ I t).
    + intros q wp A. congruence.
    + intros q cnt wc kp A. congruence.
    + intros q a b A. congruence.
    + intros q wp A. congruence.
    + intros q cnt wc w A B. destruct Hk as [Q|(q0 & cnt0 & wc0 & Q)]; rewrite Q in A; [discriminate|].
      inversion A; subst. discriminate B.
    + intros q cnt wc w A. congruence.
    + intros q wp A. congruence.
    + rewrite Hw'. pose proof (l_acct _ _ _ I t) as A. rewrite Hw in A. cbn in *. rewrite Hpd, Hbl. exact A.
    + rewrite Hw'. exact Logic.I.
    + intros _. rewrite Hfn. apply (l_node _ _ _ I t). rewrite Hw. exact Logic.I.
    + intros q Q. destruct (Hs q Q).
    + intros q q' ip A. congruence.
  - apply cinv_view; auto.
    + intros H. destruct (Hc1 H) as [A B]. split; auto. unfold vout. rewrite Hk'. exact B.
    + intros cnt wc w A. congruence.
    + rewrite (nowait_nocw3 _ W Hw'), (nowait_nocw3 _ Wt Hw). tauto.
Qed.

(* ------------------------------------------------------------------ *)
(* glue: one lemma per kind of kernel position *)
Definition IX (x : ist) : Prop :=
  Inv1 (mem (base x)) (fun u => view_of (ph x u)) (kg x) (cg x).

Lemma start_ok p k : phase_ok (phase_of_start (start p k)) /\ maint_cw3 (phase_of_start (start p k)) /\
  v_wait (view_of (phase_of_start (start p k))) = None /\ v_wake (view_of (phase_of_start (start p k))) = None /\
  v_h0 (view_of (phase_of_start (start p k))) = false /\ v_h1 (view_of (phase_of_start (start p k))) = false /\
  v_trans (view_of (phase_of_start (start p k))) = false.
Proof.
  destruct p as [|o p']; [cbn; repeat split; auto; intros ? ? Q; discriminate Q|].
  destruct o; cbn; repeat split; auto; intros ? ? Q; inversion Q; subst; discriminate.
Qed.

Lemma noslot m V g t : KInv m V g -> v_cw3 (V t) = false -> forall q, slot_mutex m t = Some q -> False.
Proof. intros I H q Q. destruct (l_slot _ _ _ I t q Q) as (_ & A & _). congruence. Qed.

Lemma nohand m V g t : KInv m V g -> v_wait (V t) = None -> forall q, isq q -> hand g q <> Some t.
Proof.
  intros I H q Hq Q. destruct (q_hand _ _ _ I q t Hq Q) as (_ & _ & (wp & A & _) & _). congruence.
Qed.

(* leaving the kernel towards the start of the next call of the program *)
Lemma to_start m m' V g c t p k :
  Inv1 m V g c -> mpriv t g m m' ->
  (fstate m' t = fstate m t \/ forall q, isq q -> hand g q <> Some t) ->
  fnode m' t = fnode m t -> pend m' t = pend m t -> blocked m' t = blocked m t ->
  slot_mutex m' t = slot_mutex m t ->
  v_wait (V t) = None ->
  (v_wake (V t) = None \/ exists q cnt wc, v_wake (V t) = Some (q, cnt, wc, VDone)) ->
  (v_h1 (V t) = true -> g_trans c = 0 /\ g_claimed c = g_rel c) ->
  Inv1 m' (upd V t (view_of (phase_of_start (start p k)))) g c.
Proof.
  intros I P Hst Hfn Hpd Hbl Hsl Hw Hk Hc.
  destruct (start_ok p k) as (A1 & A2 & A3 & A4 & A5 & A6 & A7).
  destruct I as [I C].
  apply (jump_inv m m' V g c t); auto.
  - split; auto.
  - apply view_wf; auto.
  - intros [|[|q]] Q; cbn [vholds] in Q; rewrite ?A5, ?A6 in Q; discriminate Q.
  - rewrite Hsl. eapply noslot; eauto. apply nowait_nocw3; auto. apply I.
  - intros Q. congruence.
Qed.

Definition step1_goal (m : kmem) (V : nat -> view) (g : gk) (c : gc) (t : nat) (p : phase) (m' : kmem) (p' : phase) : Prop :=
  Inv1 m' (upd V t (view_of p')) (gk_step m t p g) (gc_step m t p c).

Lemma mpriv_fstate t g m v : mpriv t g m (set_fstate m t v).
Proof. constructor; auto. intros u Hu. cbn. now rewrite upd_other. Qed.
Lemma mpriv_cell t g m i v : mpriv t g m (set_cell m i v).
Proof. constructor; auto. Qed.
Lemma mpriv_wordc t g m v : mpriv t g m (set_word m COND v).
Proof. constructor; auto. intros q Hq. cbn. rewrite upd_other; auto. intros ->. discriminate Hq. Qed.

Lemma step1_start m V g c t c0 m' p' :
  Inv1 m V g c -> V t = view_of (PRun c0 KStart) -> linv0 m c t (PRun c0 KStart) ->
  pstep m t (PRun c0 KStart) = (m', p') ->
  step1_goal m V g c t (PRun c0 KStart) m' p'.
Proof.
  intros I HV [[Hc Hk] B H1 H2 H3 H4 H5] E. unfold step1_goal.
  destruct c0; try discriminate Hc. cbn in E. inversion E; subst.
  assert (G1 : gk_step m t (PRun (CNext p k) KStart) g = g) by reflexivity.
  assert (G2 : gc_step m t (PRun (CNext p k) KStart) c = c) by reflexivity.
  rewrite G1, G2. cbn in HV.
  apply (to_start m); auto.
  - apply mpriv_fstate.
  - right. eapply nohand; [apply I|]. now rewrite HV.
  - now rewrite HV.
  - left. now rewrite HV.
  - rewrite HV. discriminate.
Qed.

Lemma maint_cw3_nowait p : v_wait (view_of p) = None -> maint_cw3 p.
Proof. intros H q wp Q. unfold view_of in H. cbn in H. rewrite Q in H. discriminate. Qed.

(* between two calls, keeping the mutexes held *)
Lemma jump_hold m m' V g c t p' :
  Inv1 m V g c -> mpriv t g m m' ->
  fstate m' t = fstate m t -> fnode m' t = fnode m t -> pend m' t = pend m t -> blocked m' t = blocked m t ->
  slot_mutex m' t = slot_mutex m t ->
  phase_ok p' ->
  v_wait (V t) = None -> v_wake (V t) = None -> v_trans (V t) = false ->
  v_wait (view_of p') = None -> v_wake (view_of p') = None -> v_trans (view_of p') = false ->
  v_h0 (view_of p') = v_h0 (V t) -> v_h1 (view_of p') = v_h1 (V t) ->
  Inv1 m' (upd V t (view_of p')) g c.
Proof.
  intros I P Hst Hfn Hpd Hbl Hsl Hok Hw Hk Ht Hw' Hk' Ht' Eh0 Eh1.
  pose proof I as [K C].
  assert (HO : v_h1 (V t) = true -> g_trans c = 0 /\ g_claimed c - g_rel c = 0).
  { intros H. destruct (cn_hold _ _ _ C t H) as [A B]. rewrite Ht in A. unfold vout in B. rewrite Hk in B. auto. }
  apply (jump_inv m m' V g c t); auto.
  - apply view_wf; auto. now apply maint_cw3_nowait.
  - intros [|[|q]] Q; cbn [vholds] in Q; try discriminate Q.
    + apply (tk_hold _ _ _ K t 0%nat). cbn. congruence.
    + apply (tk_hold _ _ _ K t 1%nat). cbn. congruence.
  - rewrite Hsl. eapply noslot; eauto. apply nowait_nocw3; auto. apply K.
  - rewrite Ht', Eh1. exact HO.
  - intros A B. destruct (HO B). split; auto. lia.
Qed.

Ltac plain_jump m HV :=
  apply (jump_hold m); auto;
  try apply mpriv_cell; try apply mpriv_refl; try apply mpriv_wordc;
  try (cbn; repeat split; auto; fail); try (rewrite HV; reflexivity).

Lemma step1_acc_plain m V g c t c0 a m' p' :
  Inv1 m V g c -> V t = view_of (PRun c0 (KAcc a)) -> linv0 m c t (PRun c0 (KAcc a)) ->
  pstep m t (PRun c0 (KAcc a)) = (m', p') -> plain_client c0 = true ->
  step1_goal m V g c t (PRun c0 (KAcc a)) m' p'.
Proof.
  intros I HV [[Hc Hk] B H1 H2 H3 H4 H5] E P. unfold step1_goal.
  assert (G1 : gk_step m t (PRun c0 (KAcc a)) g = g) by reflexivity.
  assert (G2 : gc_step m t (PRun c0 (KAcc a)) c = c) by (destruct c0; try discriminate P; reflexivity).
  rewrite G1, G2.
  destruct c0; try discriminate P; destruct a as [i v|i|q d mo|q d mo|q v mo|q mo]; try discriminate Hc;
    cbn in E; cbn in HV.
  - (* CIn *) destruct o; try discriminate Hc; cbn in E; injection E as <- <-; plain_jump m HV.
  - (* CFlag *) unfold creturn in E; cbn in E. destruct (cell m i =? 0); injection E as <- <-; plain_jump m HV.
  - (* CW1 *) injection E as <- <-; plain_jump m HV.
  - (* CUnl *) injection E as <- <-; plain_jump m HV.
  - (* CRb *) injection E as <- <-; plain_jump m HV.
  - (* CRd *) injection E as <- <-. apply (to_start m); auto; try (apply mpriv_refl); rewrite HV; cbn; auto. discriminate.
Qed.

Lemma hand_none_cond m V g t : KInv m V g -> v_h1 (V t) = true -> v_wake (V t) = None -> hand g COND = None.
Proof.
  intros I H1 Hk. destruct (hand g COND) as [e|] eqn:E; auto. exfalso.
  destruct (q_hand _ _ _ I COND e (or_intror (or_intror eq_refl)) E) as (_ & _ & _ & (u & cnt & wc & w & A & B)).
  destruct (w_wake _ (l_wf _ _ _ I u) _ _ _ _ A) as (_ & Hc & _). destruct (Hc eq_refl) as [Hu _].
  destruct (Nat.eq_dec u t) as [->|Hne]; [congruence|].
  rewrite (h1_unique _ _ _ _ _ I H1 Hne) in Hu. discriminate.
Qed.

(* CW2: the waiter registers, and starts wait_in_mpsc_queue_and_unlock *)
Lemma step1_reg m V g c t p k m' p' :
  Inv1 m V g c -> V t = view_of (PRun (CW2 p k) (KAcc (AWFAdd COND 1 3))) ->
  pstep m t (PRun (CW2 p k) (KAcc (AWFAdd COND 1 3))) = (m', p') ->
  step1_goal m V g c t (PRun (CW2 p k) (KAcc (AWFAdd COND 1 3))) m' p'.
Proof.
  intros [I C] HV E. unfold step1_goal. cbn in E. injection E as <- <-. cbn in HV.
  assert (G1 : gk_step m t (PRun (CW2 p k) (KAcc (AWFAdd COND 1 3))) g = g) by reflexivity.
  rewrite G1. cbn [gc_step].
  set (m' := set_slot_mutex (set_word m COND (word m COND + 1)) t (Some UMUTEX)).
  set (v' := view_of (PRun (CW3 p k) (KWait COND WPSaving))).
  pose proof (l_acct _ _ _ I t) as At. rewrite HV in At. cbn in At. destruct At as (Ag & Ap & Ab).
  assert (P : mpriv t g m m').
  { constructor; auto.
    - intros u Hu. cbn. now rewrite upd_other.
    - intros q Hq. cbn. rewrite upd_other; auto. intros ->. discriminate Hq. }
  assert (W' : vwf v') by (apply view_wf; [cbn; auto|intros q wp Q; inversion Q; subst; discriminate]).
  split.
  - apply (inv_private m m' V g t v' I P W').
    + left; reflexivity.
    + left; reflexivity.
    + apply (l_own _ _ _ I t).
    + intros [|[|q]] Q; cbn in Q; try discriminate Q. apply (tk_hold _ _ _ I t 0%nat). rewrite HV. reflexivity.
    + intros q wp _ Q. discriminate Q.
    + intros q cnt wc kp Q. discriminate Q.
    + intros q a b Q. rewrite HV in Q. discriminate Q.
    + intros q wp Q. rewrite HV in Q. discriminate Q.
    + intros q cnt wc w Q. rewrite HV in Q. discriminate Q.
    + intros q cnt wc w Q. discriminate Q.
    + intros q wp Q. inversion Q; subst. exact Logic.I.
    + cbn. auto.
    + exact Logic.I.
    + intros _. apply (l_node _ _ _ I t). rewrite HV. exact Logic.I.
    + intros q Q. cbn in Q. rewrite upd_same in Q. inversion Q; subst. repeat split; auto. exists WPSaving. auto.
    + intros q q' ip Q. discriminate Q.
  - constructor; cbn [g_reg g_claimed g_rel g_trans gwl myclaim myrel].
    + intros u. vcase u t; [cbn; discriminate|apply C].
    + intros F. apply (cn_free _ _ _ C). intros u. specialize (F u). vcase u t; [rewrite HV; reflexivity|exact F].
    + intros u cnt wc w. vcase u t; [cbn; discriminate|apply C].
    + cbn [length]. pose proof (cn_len _ _ _ C). lia.
    + constructor; [|apply C]. intros Q. apply (cn_wl _ _ _ C t) in Q. rewrite HV in Q. destruct Q as [Q _]. discriminate Q.
    + intros u. cbn [In]. vcase u t.
      * cbn. split; auto.
      * rewrite <- (cn_wl _ _ _ C u). split; [intros [Q|Q]; [congruence|auto]|auto].
Qed.

(* kernel part of a view change between two non-waiting views *)
Lemma k_nowait m m' V g t v' :
  KInv m V g -> mpriv t g m m' -> vwf v' ->
  (fstate m' t = fstate m t \/ forall q, isq q -> hand g q <> Some t) ->
  fnode m' t = fnode m t -> pend m' t = pend m t -> blocked m' t = blocked m t ->
  v_wait (V t) = None -> v_wait v' = None ->
  (v_wake (V t) = None \/ exists q cnt wc, v_wake (V t) = Some (q, cnt, wc, VDone)) ->
  (forall q, vholds q v' = true -> tok g q = THeld t) ->
  (forall q cnt wc kp, v_wake v' = Some (q, cnt, wc, VP kp) -> is_mutex q = true -> tok g q = TPass t /\ wc = 0) ->
  (forall q cnt wc w, v_wake v' = Some (q, cnt, wc, w) -> pop_local m' g t q w) ->
  (forall q, slot_mutex m' t = Some q -> False) ->
  KInv m' (upd V t v') g.
Proof.
  intros I P W Hst Hfn Hpd Hbl Hw Hw' Hk Hh Hp Hl Hs.
  apply (inv_private m m' V g t _ I P); auto.
  - destruct Hst as [A|A]; auto.
  - rewrite Hfn. apply (l_own _ _ _ I t).
  - intros q wp A. congruence.
  - intros q a b A. congruence.
  - intros q wp A. congruence.
  - intros q cnt wc w A B. destruct Hk as [Q|(q0 & cnt0 & wc0 & Q)]; rewrite Q in A; [discriminate|].
    inversion A; subst. discriminate B.
  - intros q wp A. congruence.
  - rewrite Hw'. pose proof (l_acct _ _ _ I t) as A. rewrite Hw in A. cbn in *. rewrite Hpd, Hbl. exact A.
  - rewrite Hw'. exact Logic.I.
  - intros _. rewrite Hfn. apply (l_node _ _ _ I t). rewrite Hw. exact Logic.I.
  - intros q Q. destruct (Hs q Q).
  - intros q q' ip A. congruence.
Qed.

Lemma holds_from m V g t v' : KInv m V g ->
  (v_h0 v' = true -> v_h0 (V t) = true) -> (v_h1 v' = true -> v_h1 (V t) = true) ->
  forall q, vholds q v' = true -> tok g q = THeld t.
Proof.
  intros I A B [|[|q]] Q; cbn [vholds] in Q; try discriminate Q.
  - apply (tk_hold _ _ _ I t 0%nat). cbn. auto.
  - apply (tk_hold _ _ _ I t 1%nat). cbn. auto.
Qed.

(* CS2: the fetch_sub of a signal: claim one waiter or go transient *)
Lemma step1_sig m V g c t um p k m' p' :
  Inv1 m V g c -> V t = view_of (PRun (CS2 um p k) (KAcc (AWFSub COND 1 5))) ->
  pstep m t (PRun (CS2 um p k) (KAcc (AWFSub COND 1 5))) = (m', p') ->
  step1_goal m V g c t (PRun (CS2 um p k) (KAcc (AWFSub COND 1 5))) m' p'.
Proof.
  intros [I C] HV E. unfold step1_goal. cbn [pstep] in E. unfold creturn in E. cbn [cret] in E.
  assert (G1 : gk_step m t (PRun (CS2 um p k) (KAcc (AWFSub COND 1 5))) g = g) by reflexivity.
  rewrite G1. cbn [gc_step]. cbn in HV.
  assert (Hh1 : v_h1 (V t) = true) by (rewrite HV; reflexivity).
  destruct (cn_hold _ _ _ C t Hh1) as [T O]. rewrite HV in T, O. cbn in T, O.
  assert (UQ : forall u, u <> t -> v_h1 (V u) = false) by (intros; eapply h1_unique; eauto).
  assert (HN : hand g COND = None) by (eapply hand_none_cond; eauto; rewrite HV; reflexivity).
  assert (P : mpriv t g m (set_word m COND (word m COND - 1))) by apply mpriv_wordc.
  assert (NS : forall q, slot_mutex (set_word m COND (word m COND - 1)) t = Some q -> False).
  { cbn. eapply noslot; eauto. rewrite HV. reflexivity. }
  assert (EQ : (0 <=? word m COND - 1) = (1 <=? word m COND)).
  { destruct (0 <=? word m COND - 1) eqn:A; destruct (1 <=? word m COND) eqn:B; auto;
      [apply Z.leb_le in A; apply Z.leb_gt in B|apply Z.leb_gt in A; apply Z.leb_le in B]; lia. }
  rewrite EQ in E. destruct (1 <=? word m COND) eqn:Ew; cbn in E; injection E as <- <-.
  - (* claim *)
    set (v' := view_of (PRun (CS3 um p k) (KWake COND 1 0 KPHead))).
    assert (W' : vwf v') by (apply view_wf; [cbn; auto|apply maint_cw3_nowait; reflexivity]).
    split.
    + apply (k_nowait m _ V g t v' I P W'); auto.
      * now rewrite HV.
      * left. now rewrite HV.
      * apply (holds_from _ _ _ _ _ I); rewrite HV; cbn; auto.
      * intros q cnt wc kp Q M. inversion Q; subst. discriminate M.
      * intros q cnt wc w Q. inversion Q; subst. exact HN.
    + unfold set_myclaim. apply (cinv_gc V g c _ t v' C UQ); cbn [g_reg g_claimed g_rel g_trans gwl myclaim myrel].
      * intros _. split; [exact T|]. cbn. lia.
      * intros Q. discriminate Q.
      * intros cnt wc w Q. inversion Q; subst. rewrite !upd_same. repeat split; lia.
      * intros u Hu. rewrite !upd_other by auto. auto.
      * apply C.
      * apply C.
      * tauto.
      * rewrite (cn_wl _ _ _ C t), HV. cbn. tauto.
  - (* nobody registered: transient *)
    set (v' := view_of (PRun (CS3 um p k) (KAcc (AWFAdd COND 1 5)))).
    assert (W' : vwf v') by (apply view_wf; [cbn; auto|apply maint_cw3_nowait; reflexivity]).
    split.
    + apply (k_nowait m _ V g t v' I P W'); auto.
      * now rewrite HV.
      * left. now rewrite HV.
      * apply (holds_from _ _ _ _ _ I); rewrite HV; cbn; auto.
      * intros q cnt wc kp Q. discriminate Q.
      * intros q cnt wc w Q. discriminate Q.
    + unfold set_myclaim. apply (cinv_gc V g c _ t v' C UQ); cbn [g_reg g_claimed g_rel g_trans gwl myclaim myrel].
      * intros _. cbn. split; lia.
      * intros Q. discriminate Q.
      * intros cnt wc w Q. discriminate Q.
      * intros u Hu. rewrite !upd_other by auto. auto.
      * apply C.
      * apply C.
      * tauto.
      * rewrite (cn_wl _ _ _ C t), HV. cbn. tauto.
Qed.

(* CB2: the exchange of a broadcast claims every registered waiter *)
Lemma step1_bc m V g c t um p k m' p' :
  Inv1 m V g c -> V t = view_of (PRun (CB2 um p k) (KAcc (AWXchg COND 0 2))) ->
  word m COND = g_reg c - g_claimed c - g_trans c ->
  pstep m t (PRun (CB2 um p k) (KAcc (AWXchg COND 0 2))) = (m', p') ->
  step1_goal m V g c t (PRun (CB2 um p k) (KAcc (AWXchg COND 0 2))) m' p'.
Proof.
  intros [I C] HV Hcnt E. unfold step1_goal. cbn [pstep] in E. unfold creturn in E. cbn [cret] in E.
  assert (G1 : gk_step m t (PRun (CB2 um p k) (KAcc (AWXchg COND 0 2))) g = g) by reflexivity.
  rewrite G1. cbn [gc_step]. cbn in HV.
  assert (Hh1 : v_h1 (V t) = true) by (rewrite HV; reflexivity).
  destruct (cn_hold _ _ _ C t Hh1) as [T O]. rewrite HV in T, O. cbn in T, O.
  assert (UQ : forall u, u <> t -> v_h1 (V u) = false) by (intros; eapply h1_unique; eauto).
  assert (HN : hand g COND = None) by (eapply hand_none_cond; eauto; rewrite HV; reflexivity).
  assert (P : mpriv t g m (set_word m COND 0)) by apply mpriv_wordc.
  assert (NS : forall q, slot_mutex (set_word m COND 0) t = Some q -> False).
  { cbn. eapply noslot; eauto. rewrite HV. reflexivity. }
  assert (Hv : 0 <= word m COND) by (pose proof (cn_len _ _ _ C); lia).
  destruct (word m COND =? 0) eqn:Ew; cbn in E; injection E as <- <-.
  - apply Z.eqb_eq in Ew.
    set (v' := view_of (PRun (CS4 um p k) (KUnlock IMUTEX UPAdd))).
    assert (W' : vwf v') by (apply view_wf; [cbn; auto|apply maint_cw3_nowait; reflexivity]).
    split.
    + apply (k_nowait m _ V g t v' I P W'); auto.
      * now rewrite HV.
      * left. now rewrite HV.
      * apply (holds_from _ _ _ _ _ I); rewrite HV; cbn; auto.
      * intros q cnt wc kp Q. discriminate Q.
      * intros q cnt wc w Q. discriminate Q.
    + unfold set_myclaim. apply (cinv_gc V g c _ t v' C UQ); cbn [g_reg g_claimed g_rel g_trans gwl myclaim myrel].
      * intros _. cbn. split; lia.
      * intros Q. discriminate Q.
      * intros cnt wc w Q. discriminate Q.
      * intros u Hu. rewrite !upd_other by auto. auto.
      * apply C.
      * apply C.
      * tauto.
      * rewrite (cn_wl _ _ _ C t), HV. cbn. tauto.
  - apply Z.eqb_neq in Ew.
    set (v' := view_of (PRun (CS3 um p k) (KWake COND (word m COND) 0 KPHead))).
    assert (W' : vwf v') by (apply view_wf; [cbn; auto|apply maint_cw3_nowait; reflexivity]).
    split.
    + apply (k_nowait m _ V g t v' I P W'); auto.
      * now rewrite HV.
      * left. now rewrite HV.
      * apply (holds_from _ _ _ _ _ I); rewrite HV; cbn; auto.
      * intros q cnt wc kp Q M. inversion Q; subst. discriminate M.
      * intros q cnt wc w Q. inversion Q; subst. exact HN.
    + unfold set_myclaim. apply (cinv_gc V g c _ t v' C UQ); cbn [g_reg g_claimed g_rel g_trans gwl myclaim myrel].
      * intros _. split; [exact T|]. cbn. lia.
      * intros Q. discriminate Q.
      * intros cnt wc w Q. inversion Q; subst. rewrite !upd_same. repeat split; lia.
      * intros u Hu. rewrite !upd_other by auto. auto.
      * apply C.
      * apply C.
      * tauto.
      * rewrite (cn_wl _ _ _ C t), HV. cbn. tauto.
Qed.

(* CS3: the fetch_add that undoes the fetch_sub of a signal that found nobody *)
Lemma step1_untrans m V g c t um p k m' p' :
  Inv1 m V g c -> V t = view_of (PRun (CS3 um p k) (KAcc (AWFAdd COND 1 5))) ->
  pstep m t (PRun (CS3 um p k) (KAcc (AWFAdd COND 1 5))) = (m', p') ->
  step1_goal m V g c t (PRun (CS3 um p k) (KAcc (AWFAdd COND 1 5))) m' p'.
Proof.
  intros [I C] HV E. unfold step1_goal. cbn in E. injection E as <- <-.
  assert (G1 : gk_step m t (PRun (CS3 um p k) (KAcc (AWFAdd COND 1 5))) g = g) by reflexivity.
  rewrite G1. cbn [gc_step]. cbn in HV.
  assert (Hh1 : v_h1 (V t) = true) by (rewrite HV; reflexivity).
  destruct (cn_hold _ _ _ C t Hh1) as [T O]. rewrite HV in T, O. cbn in T, O.
  assert (UQ : forall u, u <> t -> v_h1 (V u) = false) by (intros; eapply h1_unique; eauto).
  assert (P : mpriv t g m (set_word m COND (word m COND + 1))) by apply mpriv_wordc.
  assert (NS : forall q, slot_mutex (set_word m COND (word m COND + 1)) t = Some q -> False).
  { cbn. eapply noslot; eauto. rewrite HV. reflexivity. }
  set (v' := view_of (PRun (CS4 um p k) (KUnlock IMUTEX UPAdd))).
  assert (W' : vwf v') by (apply view_wf; [cbn; auto|apply maint_cw3_nowait; reflexivity]).
  split.
  - apply (k_nowait m _ V g t v' I P W'); auto.
    + now rewrite HV.
    + left. now rewrite HV.
    + apply (holds_from _ _ _ _ _ I); rewrite HV; cbn; auto.
    + intros q cnt wc kp Q. discriminate Q.
    + intros q cnt wc w Q. discriminate Q.
  - apply (cinv_gc V g c _ t v' C UQ); cbn [g_reg g_claimed g_rel g_trans gwl myclaim myrel].
    + intros _. cbn. split; lia.
    + intros Q. discriminate Q.
    + intros cnt wc w Q. discriminate Q.
    + intros u Hu. auto.
    + apply C.
    + apply C.
    + tauto.
    + rewrite (cn_wl _ _ _ C t), HV. cbn. tauto.
Qed.

(* ------------------------------------------------------------------ *)
(* ghost records that agree on what the invariant reads *)
Lemma KInv_gext m V g g' :
  (forall q, tok g' q = tok g q) -> (forall q, gw g' q = gw g q) ->
  gq g' = gq g -> hand g' = hand g -> nown g' = nown g -> got g' = got g ->
  KInv m V g -> KInv m V g'.
Proof.
  intros E1 E2 E3 E4 E5 E6 I.
  assert (CH : forall q, chain m g' q = chain m g q) by (intros; unfold chain; now rewrite E3).
  constructor; intros; rewrite ?CH, ?E1, ?E2, ?E3, ?E4, ?E5, ?E6 in *.
  - eapply (tk_hold _ _ _ I); eauto.
  - eapply (tk_got _ _ _ I); eauto.
  - eapply (tk_pass _ _ _ I); eauto.
  - destruct (tk_count _ _ _ I q H) as (A & B & C). repeat split; auto.
  - eapply (q_nodup _ _ _ I); eauto.
  - eapply (q_nodes _ _ _ I); eauto.
  - eapply (q_tail _ _ _ I); eauto.
  - eapply (q_link _ _ _ I); eauto.
  - eapply (q_last _ _ _ I); eauto.
  - eapply (q_ent _ _ _ I); eauto.
  - eapply (q_uniq _ _ _ I); eauto.
  - eapply (q_hand _ _ _ I); eauto.
  - pose proof (l_pop _ _ _ I u q cnt wc w H) as L. destruct w as [[]|]; cbn in *; rewrite ?E4, ?E5; exact L.
  - pose proof (l_push _ _ _ I t q wp H) as L. destruct wp; cbn in *; rewrite ?CH, ?E3, ?E5; exact L.
  - pose proof (l_acct _ _ _ I t) as L. unfold acct_local in *. rewrite E6. exact L.
  - eapply (l_stat _ _ _ I); eauto.
  - eapply (l_own _ _ _ I); eauto.
  - apply (l_node _ _ _ I t). unfold has_node in *. rewrite E6 in H. exact H.
  - eapply (l_slot _ _ _ I); eauto.
  - eapply (l_maint _ _ _ I); eauto.
  - eapply (l_wf _ _ _ I); eauto.
Qed.

Lemma CInv_gext V g g' c : got g' = got g -> CInv V g c -> CInv V g' c.
Proof.
  intros E I. constructor; try apply I. intros t. rewrite E. apply I.
Qed.

(* ------------------------------------------------------------------ *)
(* the fetch_sub of fiber_mutex_lock and the fetch_add of unlock_internal *)
Lemma lsub_succ_inv m V g c t q :
  Inv1 m V g c -> is_mutex q = true -> word m q - 1 = 0 ->
  Inv1 (set_word m q (word m q - 1)) V (set_tok g q (THeld t)) c.
Proof.
  intros [I C] Hq Hw.
  destruct (tk_count _ _ _ I q Hq) as (C1 & C2 & C3).
  assert (Hhv : hv (tok g q) = 0 /\ gw g q = 0) by (destruct (tok g q); cbn in *; lia).
  destruct Hhv as [Hhv Hgw].
  assert (NT : forall u, tok g q <> THeld u) by (intros u Q; rewrite Q in Hhv; discriminate).
  assert (NP : forall u, tok g q <> TPass u) by (intros u Q; specialize (C3 u Q); lia).
  split.
  - apply (KInv_gext _ _ (set_gw (set_tok g q (THeld t)) q (gw g q))); auto.
    { intros q0. cbn. unfold upd. destruct (q0 =? q)%nat eqn:Eq; auto. apply Nat.eqb_eq in Eq. now subst. }
    apply k_tok; auto.
    + cbn. repeat split; try lia. intros u Q. discriminate Q.
    + intros u H. exfalso. eapply NT. eapply (tk_hold _ _ _ I); eauto.
    + intros u wp A B D. exfalso. eapply NT. eapply (tk_got _ _ _ I); eauto.
    + intros u cnt wc kp A. exfalso. eapply NP. eapply (tk_pass _ _ _ I); eauto.
  - eapply CInv_gext; [|exact C]. reflexivity.
Qed.

Lemma lsub_fail_inv m V g c q :
  Inv1 m V g c -> is_mutex q = true ->
  Inv1 (set_word m q (word m q - 1)) V (set_gw g q (gw g q + 1)) c.
Proof.
  intros [I C] Hq.
  destruct (tk_count _ _ _ I q Hq) as (C1 & C2 & C3).
  split.
  - apply (KInv_gext _ _ (set_gw (set_tok g q (tok g q)) q (gw g q + 1))); auto.
    { intros q0. cbn. unfold upd. destruct (q0 =? q)%nat eqn:Eq; auto. apply Nat.eqb_eq in Eq. now subst. }
    apply k_tok; auto.
    + repeat split; try lia; intros u Q; specialize (C3 u Q); lia.
    + intros u H. eapply (tk_hold _ _ _ I); eauto.
    + intros u wp A B D. eapply (tk_got _ _ _ I); eauto.
    + intros u cnt wc kp A. eapply (tk_pass _ _ _ I); eauto.
  - eapply CInv_gext; [|exact C]. reflexivity.
Qed.

Lemma uadd_inv m V g c t q :
  Inv1 m V g c -> is_mutex q = true -> tok g q = THeld t ->
  vholds q (V t) = false ->
  (forall wp, v_wait (V t) = Some (q, wp) -> v_lockw (V t) = true -> got g t = false) ->
  Inv1 (set_word m q (word m q + 1)) V
       (set_tok g q (if word m q + 1 =? 1 then TFree else TPass t)) c.
Proof.
  intros [I C] Hq Ht Hh Hl.
  destruct (tk_count _ _ _ I q Hq) as (C1 & C2 & C3). rewrite Ht in C1. cbn in C1.
  set (k' := if word m q + 1 =? 1 then TFree else TPass t).
  split.
  - apply (KInv_gext _ _ (set_gw (set_tok g q k') q (gw g q))); auto.
    { intros q0. cbn. unfold upd. destruct (q0 =? q)%nat eqn:Eq; auto. apply Nat.eqb_eq in Eq. now subst. }
    apply k_tok; auto.
    + unfold k'. destruct (word m q + 1 =? 1) eqn:E; cbn.
      * apply Z.eqb_eq in E. repeat split; try lia. intros u Q. discriminate Q.
      * apply Z.eqb_neq in E. repeat split; try lia.
    + intros u H. exfalso. pose proof (tk_hold _ _ _ I u q H) as Q. rewrite Ht in Q. inversion Q; subst. congruence.
    + intros u wp A B D. exfalso. pose proof (tk_got _ _ _ I u q wp A B D) as Q. rewrite Ht in Q. inversion Q; subst.
      rewrite (Hl wp A B) in D. discriminate.
    + intros u cnt wc kp A. exfalso. destruct (tk_pass _ _ _ I u _ _ _ _ A Hq) as [Q _]. congruence.
  - eapply CInv_gext; [|exact C]. reflexivity.
Qed.

(* ------------------------------------------------------------------ *)
(* a waiting fiber moves to another position of its wait *)
Lemma k_waitpos m m' V g t q wp wp' :
  KInv m V g -> mpriv t g m m' ->
  v_wait (V t) = Some (q, wp) -> v_wake (V t) = None -> v_uadd (V t) = None -> norm_wp wp' = wp' ->
  (fstate m' t = fstate m t \/ fstate m' t = ST_WAITING \/ forall q, isq q -> hand g q <> Some t) ->
  (fnode m' t = fnode m t \/ forall q, isq q -> hand g q <> Some t) ->
  (fnode m' t <> O -> nown g (fnode m' t) = OThread t) ->
  (forall a b, wp <> WPLink a b) ->
  (afterx wp = true -> afterx wp' = true) ->
  push_local m' g t q wp' ->
  acct_local m' g t (Some (q, wp')) -> stat_local m' t (Some (q, wp')) ->
  (has_node g t (Some (q, wp')) -> fnode m' t <> O) ->
  (forall q0, slot_mutex m' t = Some q0 -> slot_mutex m t = Some q0 /\ (premaint wp = true -> premaint wp' = true)) ->
  (forall q' ip, wp' <> WPYield (YPMaint q' ip)) ->
  KInv m' (upd V t (set_vwait (V t) (Some (q, wp')))) g.
Proof.
  intros I P Hw Hk Hu Hn Hst Hfn Hown Hnl Hax Hpush Hacct Hstat Hnode Hslot Hnm.
  pose proof (l_wf _ _ _ I t) as Wt.
  apply (inv_private m m' V g t _ I P); auto.
  - eapply vwf_set_wait; eauto.
  - intros q0. exact (tk_hold _ _ _ I t q0).
  - cbn. intros q0 wp0 A B D. inversion A; subst. eapply (tk_got _ _ _ I t); eauto.
  - cbn. intros q0 cnt wc kp A. congruence.
  - intros q0 a b A. rewrite Hw in A. inversion A; subst. destruct (Hnl a b eq_refl).
  - intros q0 wp0 A B D. rewrite Hw in A. inversion A; subst. cbn. eauto.
  - intros q0 cnt wc w A. congruence.
  - cbn. intros q0 cnt wc w A. congruence.
  - cbn. intros q0 wp0 A. inversion A; subst. exact Hpush.
  - cbn. intros q0 Q. destruct (Hslot q0 Q) as [Q' Hp].
    destruct (l_slot _ _ _ I t q0 Q') as (A & B & wp0 & D & F). rewrite Hw in D. inversion D; subst.
    repeat split; auto. exists wp'. split; auto.
  - cbn. intros q0 q' ip A. inversion A; subst. destruct (Hnm q' ip eq_refl).
Qed.

Lemma cinv_waitpos V g c t q wp wp' :
  CInv V g c -> v_wait (V t) = Some (q, wp) -> vwf (V t) ->
  CInv (upd V t (set_vwait (V t) (Some (q, wp')))) g c.
Proof.
  intros C Hw W. destruct (w_wait _ W _ _ Hw) as (_ & _ & _ & _ & H1 & Tr).
  apply cinv_view; auto; cbn.
  - intros Q. congruence.
  - intros _ Q. congruence.
  - intros cnt wc w Q. apply (cn_wc _ _ _ C t); auto.
  - tauto.
Qed.

Definition gk_wait (t q : nat) (wp : waitpos) (g : gk) : gk :=
  match wp with
  | WPXchg n => set_nown (set_gq g q (gq g q ++ [(t, n)])) n (OList q)
  | _ => g
  end.

Definition simple_wp (wp : waitpos) : bool :=
  match wp with
  | WPYield YPMFlip | WPYield (YPMaint _ _) => false
  | _ => true
  end.

Lemma nohand_notafter m V g t q wp : KInv m V g -> v_wait (V t) = Some (q, wp) ->
  (afterx wp = false \/ got g t = true) -> forall q0, isq q0 -> hand g q0 <> Some t.
Proof.
  intros I Hw H q0 Hq0 Q. destruct (q_hand _ _ _ I q0 t Hq0 Q) as (G & _ & (wp0 & A & B) & _).
  rewrite Hw in A. inversion A; subst. destruct H; congruence.
Qed.

Ltac kw I Hw Hk Hu P :=
  apply (k_waitpos _ _ _ _ _ _ _ _ I P Hw Hk Hu); auto; try discriminate; try exact Logic.I;
  try (apply (l_own _ _ _ I _)); try (cbn; tauto).

Lemma wait_simple m V g c t q wp m1 wp' :
  Inv1 m V g c -> v_wait (V t) = Some (q, wp) -> v_wake (V t) = None -> v_uadd (V t) = None ->
  wait_step m t q wp = (m1, TCont wp') -> simple_wp wp = true ->
  (wp = WPYield YPAsleep -> blocked m t = false) ->
  (forall st, wp = WPYield (YPNext true st) -> waitingish st = false) ->
  Inv1 m1 (upd V t (set_vwait (V t) (Some (q, wp')))) (gk_wait t q wp g) c.
Proof.
  intros [I C] Hw Hk Hu E Hs Hb Hnt.
  pose proof (l_wf _ _ _ I t) as Wt.
  pose proof (l_push _ _ _ I t q wp Hw) as Lp.
  pose proof (l_acct _ _ _ I t) as La. rewrite Hw in La.
  pose proof (l_stat _ _ _ I t) as Ls. rewrite Hw in Ls.
  pose proof (l_node _ _ _ I t) as Ln. rewrite Hw in Ln.
  assert (CV : forall wp0, CInv (upd V t (set_vwait (V t) (Some (q, wp0)))) g c) by (intros; eapply cinv_waitpos; eauto).
  assert (SL : forall m0 wp0, slot_mutex m0 t = slot_mutex m t -> (premaint wp = true -> premaint wp0 = true) ->
               forall q0, slot_mutex m0 t = Some q0 -> slot_mutex m t = Some q0 /\ (premaint wp = true -> premaint wp0 = true)).
  { intros m0 wp0 A B q0 Q. rewrite A in Q. auto. }
  destruct wp as [| |n|n|a b|yp]; cbn [wait_step] in E.
  - (* WPSaving *) injection E as <- <-. cbn [gk_wait]. split; [|apply CV].
    cbn in La, Ln. destruct La as (Ag & Ap & Ab).
    assert (NH : forall q0, isq q0 -> hand g q0 <> Some t) by (eapply nohand_notafter; eauto).
    assert (A1 : acct_local (set_fstate m t ST_SAVING) g t (Some (q, WPData))) by (cbn; auto).
    assert (A2 : stat_local (set_fstate m t ST_SAVING) t (Some (q, WPData))) by (cbn; now rewrite upd_same).
    assert (A3 : has_node g t (Some (q, WPData)) -> fnode (set_fstate m t ST_SAVING) t <> O) by (intros _; apply Ln; left; reflexivity).
    pose proof (SL (set_fstate m t ST_SAVING) WPData eq_refl (fun _ => eq_refl)) as A4.
    kw I Hw Hk Hu (mpriv_fstate t g m ST_SAVING).
  - (* WPData *) injection E as <- <-. cbn [gk_wait]. split; [|apply CV].
    cbn in La, Ln, Ls. destruct La as (Ag & Ap & Ab).
    assert (Hn : fnode m t <> O) by (apply Ln; left; reflexivity).
    pose proof (l_own _ _ _ I t Hn) as Ho.
    set (m1 := set_fnode (set_ndata m (fnode m t) (fname t)) t 0%nat).
    assert (P : mpriv t g m m1).
    { constructor; auto.
      - intros n A B. cbn. rewrite upd_other; auto. intros ->. contradiction.
      - intros u Hu'. cbn. now rewrite upd_other. }
    assert (NH : forall q0, isq q0 -> hand g q0 <> Some t) by (eapply nohand_notafter; eauto).
    assert (A0 : fnode m1 t <> O -> nown g (fnode m1 t) = OThread t) by (cbn; rewrite upd_same; intros Q; congruence).
    assert (A1 : acct_local m1 g t (Some (q, WPNext (fnode m t)))) by (cbn; auto).
    assert (A2 : stat_local m1 t (Some (q, WPNext (fnode m t)))) by (cbn; auto).
    assert (A3 : has_node g t (Some (q, WPNext (fnode m t))) -> fnode m1 t <> O) by (cbn; intros [Q|Q]; [discriminate Q|congruence]).
    assert (A5 : push_local m1 g t q (WPNext (fnode m t))) by (cbn; rewrite !upd_same; auto).
    pose proof (SL m1 (WPNext (fnode m t)) eq_refl (fun _ => eq_refl)) as A4.
    kw I Hw Hk Hu P.
  - (* WPNext *) injection E as <- <-. cbn [gk_wait]. split; [|apply CV].
    cbn in La, Ln, Ls, Lp. destruct La as (Ag & Ap & Ab). destruct Lp as (P1 & P2 & P3 & P4).
    set (m1 := set_nnext m n 0%nat).
    assert (P : mpriv t g m m1).
    { constructor; auto. intros n0 A B. cbn. rewrite upd_other; auto. intros ->. contradiction. }
    assert (A1 : acct_local m1 g t (Some (q, WPXchg n))) by (cbn; auto).
    assert (A2 : stat_local m1 t (Some (q, WPXchg n))) by (cbn; auto).
    assert (A3 : has_node g t (Some (q, WPXchg n)) -> fnode m1 t <> O) by (cbn; intros [Q|Q]; [discriminate Q|congruence]).
    assert (A5 : push_local m1 g t q (WPXchg n)) by (cbn; rewrite upd_same; auto).
    pose proof (SL m1 (WPXchg n) eq_refl (fun _ => eq_refl)) as A4.
    kw I Hw Hk Hu P.
  - (* WPXchg *) injection E as <- <-. cbn [gk_wait]. split.
    + exact (k_wxchg _ _ _ _ _ _ I Hw).
    + eapply CInv_gext; [|apply CV]. reflexivity.
  - (* WPLink *) injection E as <- <-. cbn [gk_wait]. split; [|apply CV].
    exact (k_wlink _ _ _ _ _ _ _ I Hw).
  - destruct yp as [b|b st| | | | |q' ip| |]; cbn [yield_step] in E; try discriminate Hs.
    + (* YPRead *) injection E as <- <-. cbn [gk_wait]. split; [|apply CV].
      assert (A1 : acct_local m g t (Some (q, WPYield (YPNext b (fstate m t))))) by (destruct b; exact La).
      assert (A2 : stat_local m t (Some (q, WPYield (YPNext b (fstate m t))))) by (destruct b; cbn in *; auto).
      assert (A3 : has_node g t (Some (q, WPYield (YPNext b (fstate m t)))) -> fnode m t <> O) by exact Ln.
      assert (A4 := SL m (WPYield (YPNext b (fstate m t))) eq_refl).
      assert (A5 : premaint (WPYield (YPRead b)) = true -> premaint (WPYield (YPNext b (fstate m t))) = true) by (destruct b; auto).
      specialize (A4 A5).
      kw I Hw Hk Hu (mpriv_refl t g m).
    + (* YPNext *) destruct (waitingish st) eqn:Ews; [|discriminate E]. injection E as <- <-. cbn [gk_wait]. split; [|apply CV].
      destruct b.
      { rewrite (Hnt st eq_refl) in Ews. discriminate Ews. }
      assert (A1 : acct_local m g t (Some (q, WPYield YPSwRead))) by exact La.
      assert (A2 : stat_local m t (Some (q, WPYield YPSwRead))) by (cbn in *; tauto).
      assert (A3 : has_node g t (Some (q, WPYield YPSwRead)) -> fnode m t <> O) by exact Ln.
      assert (A4 := SL m (WPYield YPSwRead) eq_refl (fun _ => eq_refl)).
      kw I Hw Hk Hu (mpriv_refl t g m).
    + (* YPSwRead *) destruct (fstate m t =? ST_RUNNING); [discriminate E|]. injection E as <- <-. cbn [gk_wait]. split; [|apply CV].
      assert (A1 : acct_local m g t (Some (q, WPYield YPSwDone))) by exact La.
      assert (A2 : stat_local m t (Some (q, WPYield YPSwDone))) by exact Ls.
      assert (A3 : has_node g t (Some (q, WPYield YPSwDone)) -> fnode m t <> O) by exact Ln.
      assert (A4 := SL m (WPYield YPSwDone) eq_refl (fun _ => eq_refl)).
      kw I Hw Hk Hu (mpriv_refl t g m).
    + (* YPSwDone *) injection E as <- <-. cbn [gk_wait]. split; [|apply CV].
      assert (A1 : acct_local m g t (Some (q, WPYield YPMRead))) by exact La.
      assert (A2 : stat_local m t (Some (q, WPYield YPMRead))) by exact Ls.
      assert (A3 : has_node g t (Some (q, WPYield YPMRead)) -> fnode m t <> O) by exact Ln.
      assert (A4 := SL m (WPYield YPMRead) eq_refl (fun _ => eq_refl)).
      kw I Hw Hk Hu (mpriv_refl t g m).
    + (* YPMRead *) cbn in Ls. rewrite Ls in E. cbn in E. injection E as <- <-. cbn [gk_wait]. split; [|apply CV].
      assert (A1 : acct_local m g t (Some (q, WPYield YPMFlip))) by exact La.
      assert (A2 : stat_local m t (Some (q, WPYield YPMFlip))) by exact Ls.
      assert (A3 : has_node g t (Some (q, WPYield YPMFlip)) -> fnode m t <> O) by exact Ln.
      assert (A4 := SL m (WPYield YPMFlip) eq_refl (fun _ => eq_refl)).
      kw I Hw Hk Hu (mpriv_refl t g m).
    + (* YPAsleep *) injection E as <- <-. cbn [gk_wait]. split; [|apply CV].
      cbn in La. destruct La as (Ap & Ab). rewrite (Hb eq_refl) in Ab.
      assert (Ag : got g t = true) by (destruct (got g t); auto; discriminate Ab).
      assert (A1 : acct_local m g t (Some (q, WPYield YPResume))) by (cbn; rewrite (Hb eq_refl); auto).
      assert (A2 : stat_local m t (Some (q, WPYield YPResume))) by exact Logic.I.
      assert (A3 : has_node g t (Some (q, WPYield YPResume)) -> fnode m t <> O) by exact Ln.
      assert (A4 := SL m (WPYield YPResume) eq_refl ltac:(cbn; intros Q; discriminate Q)).
      kw I Hw Hk Hu (mpriv_refl t g m).
    + (* YPResume *) injection E as <- <-. cbn [gk_wait]. split; [|apply CV].
      cbn in La. destruct La as (Ag & Ap & Ab).
      assert (NH : forall q0, isq q0 -> hand g q0 <> Some t) by (eapply nohand_notafter; eauto).
      assert (A1 : acct_local (set_fstate m t ST_RUNNING) g t (Some (q, WPYield (YPRead true)))) by (cbn; auto).
      assert (A2 : stat_local (set_fstate m t ST_RUNNING) t (Some (q, WPYield (YPRead true)))) by exact Logic.I.
      assert (A3 : has_node g t (Some (q, WPYield (YPRead true))) -> fnode (set_fstate m t ST_RUNNING) t <> O) by exact Ln.
      assert (A4 := SL (set_fstate m t ST_RUNNING) (WPYield (YPRead true)) eq_refl ltac:(cbn; intros Q; discriminate Q)).
      kw I Hw Hk Hu (mpriv_fstate t g m ST_RUNNING).
Qed.

(* ------------------------------------------------------------------ *)
(* going to sleep at the end of do_maintenance (or resuming at once when the
   wake-up has already arrived) *)
Definition sleep_mem (m0 : kmem) (t : nat) : kmem * waitpos :=
  match pend m0 t with
  | S k => (set_pend m0 t k, WPYield YPResume)
  | O => (set_blocked m0 t true, WPYield YPAsleep)
  end.

Lemma to_sleep m m0 V g c t q wp v' :
  Inv1 m V g c -> v_wait (V t) = Some (q, wp) -> presleep wp = true -> (forall a b, wp <> WPLink a b) ->
  (forall cnt wc w q0, v_wake (V t) = Some (q0, cnt, wc, w) -> inhand w = false /\ q0 <> COND) ->
  mpriv t g m m0 -> (fstate m0 t = fstate m t \/ fstate m0 t = ST_WAITING) ->
  fnode m0 t = fnode m t -> pend m0 t = pend m t -> blocked m0 t = blocked m t -> slot_mutex m0 t = None ->
  vwf v' -> v_wait v' = Some (q, snd (sleep_mem m0 t)) -> v_lockw v' = v_lockw (V t) -> v_cw3 v' = v_cw3 (V t) ->
  v_wake v' = None -> v_uadd v' = None -> (v_h0 v' = true -> v_h0 (V t) = true) ->
  Inv1 (fst (sleep_mem m0 t)) (upd V t v') g c.
Proof.
  intros [I C] Hw Hps Hnl Hnw P Hst Hfn Hpd Hbl Hsl W' Hw' Hl' Hc' Hk' Hu' Hh'.
  pose proof (l_wf _ _ _ I t) as Wt.
  destruct (w_wait _ Wt _ _ Hw) as (Hq & _ & _ & _ & H1 & Tr).
  destruct (w_wait _ W' _ _ Hw') as (_ & _ & _ & _ & H1' & Tr').
  pose proof (l_acct _ _ _ I t) as La. rewrite Hw in La. cbn in La. rewrite Hps in La. destruct La as [Ab Ap].
  set (m1 := fst (sleep_mem m0 t)). set (wp' := snd (sleep_mem m0 t)).
  assert (P1 : mpriv t g m m1).
  { unfold m1, sleep_mem. destruct (pend m0 t); cbn; constructor; try apply P; cbn; intros; rewrite ?upd_other by auto; apply P; auto. }
  assert (M1 : fstate m1 = fstate m0 /\ fnode m1 = fnode m0 /\ slot_mutex m1 = slot_mutex m0).
  { unfold m1, sleep_mem. destruct (pend m0 t); cbn; auto. }
  destruct M1 as (M1s & M1f & M1l).
  assert (AX : afterx wp = true /\ afterx wp' = true).
  { split; [destruct wp as [| | | | |yp]; try discriminate Hps; auto|].
    unfold wp', sleep_mem. destruct (pend m0 t); reflexivity. }
  destruct AX as [Ax Ax'].
  assert (ACC : acct_local m1 g t (Some (q, wp'))).
  { unfold m1, wp', sleep_mem. rewrite Hpd. destruct (pend m t) eqn:Ep; cbn.
    - rewrite upd_same. split; auto. destruct (got g t); [discriminate Ap|reflexivity].
    - rewrite upd_same. destruct (got g t); [|discriminate Ap]. inversion Ap; subst. rewrite Hbl. auto. }
  split.
  - apply (inv_private m m1 V g t v' I P1 W').
    + rewrite M1s. destruct Hst as [A|A]; auto.
    + left. rewrite M1f. exact Hfn.
    + rewrite M1f, Hfn. apply (l_own _ _ _ I t).
    + apply (holds_from _ _ _ _ _ I); auto. intros Q. congruence.
    + intros q0 wp0 A B D. rewrite Hw' in A. inversion A; subst. eapply (tk_got _ _ _ I t); eauto; congruence.
    + intros q0 cnt wc kp A. congruence.
    + intros q0 a b A. rewrite Hw in A. inversion A; subst. destruct (Hnl a b eq_refl).
    + intros q0 wp0 A B D. rewrite Hw in A. inversion A; subst. eauto.
    + intros q0 cnt wc w A B. destruct (Hnw _ _ _ _ A). congruence.
    + intros q0 cnt wc w A. congruence.
    + intros q0 wp0 A. rewrite Hw' in A. inversion A; subst. fold wp'.
      unfold wp', sleep_mem. destruct (pend m0 t); exact Logic.I.
    + rewrite Hw'. exact ACC.
    + rewrite Hw'. fold wp'. unfold wp', sleep_mem. destruct (pend m0 t); exact Logic.I.
    + rewrite Hw'. intros H. rewrite M1f, Hfn. apply (l_node _ _ _ I t). rewrite Hw. fold wp' in H.
      destruct H as [H|H]; [|right; exact H].
      unfold wp', sleep_mem in H. destruct (pend m0 t); discriminate H.
    + intros q0 Q. rewrite M1l, Hsl in Q. discriminate Q.
    + intros q0 q' ip A. rewrite Hw' in A. fold wp' in A. unfold wp', sleep_mem in A. destruct (pend m0 t); discriminate A.
  - apply cinv_view; auto.
    + intros Q. congruence.
    + intros _ Q. congruence.
    + intros cnt wc w Q. congruence.
    + rewrite Hc'. tauto.
Qed.

(* ------------------------------------------------------------------ *)
(* a granted wait returns to the client *)
Lemma wait_return m V g c t q st v' :
  Inv1 m V g c -> v_wait (V t) = Some (q, WPYield (YPNext true st)) ->
  vwf v' -> v_wait v' = None -> v_wake v' = None -> v_trans v' = false ->
  (forall q0, vholds q0 v' = true -> vholds q0 (V t) = true \/ (q0 = q /\ v_lockw (V t) = true)) ->
  Inv1 m (upd V t v') (set_got g t false) c.
Proof.
  intros [I C] Hw W' Hw' Hk' Ht' Hh.
  pose proof (l_wf _ _ _ I t) as Wt.
  destruct (w_wait _ Wt _ _ Hw) as (Hq & _ & _ & _ & H1 & Tr).
  destruct (nowake_in_wait _ _ _ _ _ _ I Hw ltac:(discriminate)) as [Nw Nu].
  pose proof (l_acct _ _ _ I t) as La. rewrite Hw in La. cbn in La. destruct La as (Ag & Ap & Ab).
  assert (TK : forall q0, vholds q0 v' = true -> tok g q0 = THeld t).
  { intros q0 Q. destruct (Hh q0 Q) as [A|[-> A]]; [apply (tk_hold _ _ _ I t q0 A)|eapply (tk_got _ _ _ I t); eauto]. }
  split.
  - apply k_got; auto.
    intros q0 Q. destruct (l_slot _ _ _ I t q0 Q) as (_ & _ & wp & A & B). rewrite Hw in A. inversion A; subst. discriminate B.
  - apply cinv_got; auto.
    + apply nowait_nocw3; auto.
    + intros Q. rewrite Ht'. unfold vout. rewrite Hk'.
      assert (F : forall u, v_h1 (V u) = false).
      { intros u. destruct (Nat.eq_dec u t) as [->|Hu]; auto.
        destruct (v_h1 (V u)) eqn:E; auto. exfalso.
        pose proof (tk_hold _ _ _ I u 1%nat E) as A. pose proof (TK 1%nat Q) as B. congruence. }
      destruct (cn_free _ _ _ C F). split; auto. lia.
    + intros _ Q. congruence.
Qed.

(* ------------------------------------------------------------------ *)
(* fiber_mutex_lock *)
Lemma lock_ret_view c0 q m t m' p' :
  cphase_okb c0 (KLock q LPSub) = true -> creturn m t c0 1 = (m', p') ->
  m' = m /\ phase_ok p' /\ v_wait (view_of p') = None /\ v_wake (view_of p') = None /\ v_trans (view_of p') = false /\
  (forall lp q0, vholds q0 (view_of p') = true -> vholds q0 (view_of (PRun c0 (KLock q lp))) = true \/ q0 = q).
Proof.
  intros Hc E. destruct c0; try discriminate Hc; destruct q as [|[|q]]; try discriminate Hc;
    cbn in E; injection E as <- <-; cbn; repeat split; auto;
    intros lp [|[|q0]] Q; cbn in *; auto; try discriminate Q.
Qed.

Lemma norm_nomaint wp : ismaintw wp = false -> norm_wp wp = wp.
Proof. destruct wp as [| | | | |[]]; cbn; auto; discriminate. Qed.

Lemma lockwait_view c0 q wp wp' :
  cphase_okb c0 (KLock q LPSub) = true -> ismaintw wp = false -> ismaintw wp' = false ->
  view_of (PRun c0 (KLock q (LPWait wp'))) = set_vwait (view_of (PRun c0 (KLock q (LPWait wp)))) (Some (q, wp')).
Proof.
  intros Hc Hn Hn'. destruct c0; try discriminate Hc; unfold view_of, set_vwait; cbn;
    rewrite (norm_nomaint _ Hn');
    destruct wp as [| | | | |[| | | | | |q0 ip0| |]]; try discriminate Hn;
    destruct wp' as [| | | | |[| | | | | |q' ip| |]]; try discriminate Hn'; reflexivity.
Qed.

Lemma mutex_of_lock c0 q lp : cphase_okb c0 (KLock q lp) = true -> is_mutex q = true /\ isq q.
Proof.
  destruct c0; cbn; try discriminate; destruct q as [|[|q]]; try discriminate; intros _; split; auto;
    unfold isq, UMUTEX, IMUTEX; auto.
Qed.

Lemma lock_view_facts c0 q lp : cphase_okb c0 (KLock q lp) = true ->
  v_h1 (view_of (PRun c0 (KLock q lp))) = false /\ v_cw3 (view_of (PRun c0 (KLock q lp))) = false /\
  v_trans (view_of (PRun c0 (KLock q lp))) = false /\ vholds q (view_of (PRun c0 (KLock q lp))) = false.
Proof.
  destruct c0; cbn; try discriminate; destruct q as [|[|q]]; try discriminate; intros _; destruct lp; cbn; auto.
Qed.

Lemma step1_lsub m V g c t c0 q m' p' :
  Inv1 m V g c -> V t = view_of (PRun c0 (KLock q LPSub)) -> linv0 m c t (PRun c0 (KLock q LPSub)) ->
  pstep m t (PRun c0 (KLock q LPSub)) = (m', p') ->
  step1_goal m V g c t (PRun c0 (KLock q LPSub)) m' p'.
Proof.
  intros I HV [[Hc Hk] B H1 H2 H3 H4 H5] E. unfold step1_goal.
  destruct (mutex_of_lock _ _ _ Hc) as [Mq Hq].
  destruct (lock_view_facts _ _ LPSub Hc) as (F1 & F2 & F3 & F4).
  assert (G2 : gc_step m t (PRun c0 (KLock q LPSub)) c = c).
  { apply gc_nosched; [reflexivity|]. intros c1 kp1 Q. inversion Q; subst. destruct c1; try discriminate Hc; reflexivity. }
  rewrite G2. cbn [pstep gk_step] in *.
  assert (HVw : v_wait (V t) = None /\ v_wake (V t) = None) by (rewrite HV; destruct c0; try discriminate Hc; auto).
  destruct HVw as [HVw HVk].
  destruct (word m q - 1 =? 0) eqn:Ew.
  - (* acquired *)
    apply Z.eqb_eq in Ew.
    destruct (lock_ret_view _ _ _ _ _ _ Hc E) as (-> & Pok & Pw & Pk & Pt & Ph).
    pose proof (lsub_succ_inv m V g c t q I Mq Ew) as [I1 C1].
    set (m0 := set_word m q (word m q - 1)) in *. set (g' := set_tok g q (THeld t)) in *.
    assert (TK : forall q0, vholds q0 (view_of p') = true -> tok g' q0 = THeld t).
    { intros q0 Q. destruct (Ph LPSub q0 Q) as [A| ->].
      - apply (tk_hold _ _ _ I1 t q0). now rewrite HV.
      - unfold g'. cbn. now rewrite upd_same. }
    apply (jump_inv m0 m0 V g' c t); auto.
    + split; auto.
    + apply mpriv_refl.
    + apply view_wf; auto. now apply maint_cw3_nowait.
    + eapply noslot; eauto. now rewrite HV.
    + intros Q. rewrite Pt.
      assert (F : forall u, v_h1 (V u) = false).
      { intros u. destruct (Nat.eq_dec u t) as [->|Hu]; [now rewrite HV|].
        destruct (v_h1 (V u)) eqn:Eu; auto. exfalso.
        pose proof (tk_hold _ _ _ I1 u 1%nat Eu) as A. pose proof (TK 1%nat Q) as A'. congruence. }
      destruct (cn_free _ _ _ C1 F). split; auto. lia.
    + intros _ Q. rewrite HV in Q. congruence.
  - (* contended: announce and wait *)
    injection E as <- <-.
    pose proof (lsub_fail_inv m V g c q I Mq) as [I1 C1].
    set (m0 := set_word m q (word m q - 1)) in *. set (g' := set_gw g q (gw g q + 1)) in *.
    set (v' := view_of (PRun c0 (KLock q (LPWait WPSaving)))).
    assert (Vw : v_wait v' = Some (q, WPSaving) /\ v_lockw v' = true /\ v_wake v' = None /\ v_uadd v' = None /\
                 v_h0 v' = v_h0 (V t) /\ v_h1 v' = false /\ v_cw3 v' = false /\ v_trans v' = false).
    { rewrite HV. destruct c0; try discriminate Hc; cbn; auto 10. }
    destruct Vw as (V1 & V2 & V3 & V4 & V5 & V6 & V7 & V8).
    assert (W' : vwf v').
    { apply view_wf; [split; auto; exact Logic.I|]. intros q0 wp Q. inversion Q; subst. discriminate. }
    pose proof (l_acct _ _ _ I1 t) as La. rewrite HVw in La. cbn in La. destruct La as (Ag & Ap & Ab).
    split.
    + apply (inv_private m0 m0 V g' t v' I1 (mpriv_refl _ _ _) W').
      * left; reflexivity.
      * left; reflexivity.
      * apply (l_own _ _ _ I1 t).
      * apply (holds_from _ _ _ _ _ I1); congruence.
      * intros q0 wp A _ D. unfold g' in D. cbn in D. congruence.
      * intros q0 cnt wc kp A. congruence.
      * intros q0 a b A. congruence.
      * intros q0 wp A. congruence.
      * intros q0 cnt wc w A. congruence.
      * intros q0 cnt wc w A. congruence.
      * intros q0 wp A. rewrite V1 in A. inversion A; subst. exact Logic.I.
      * rewrite V1. cbn. auto.
      * rewrite V1. exact Logic.I.
      * intros _. apply (l_node _ _ _ I1 t). rewrite HVw. exact Logic.I.
      * intros q0 Q. exfalso. eapply (noslot _ _ _ _ I1); eauto. now rewrite HV.
      * intros q0 q' ip A. rewrite V1 in A. discriminate A.
    + apply cinv_view; auto.
      * intros Q. congruence.
      * intros _ Q. rewrite HV in Q. congruence.
      * intros cnt wc w Q. congruence.
      * rewrite V7, HV, F2. tauto.
Qed.

Lemma wait_cont_nomaint m t q wp m1 wp' :
  wait_step m t q wp = (m1, TCont wp') -> ismaintw wp = false -> wp <> WPYield YPMFlip ->
  (wp = WPYield YPMRead -> fstate m t = ST_SAVING) -> ismaintw wp' = false.
Proof.
  intros E Hn Hf Hs. destruct wp as [| | | | |yp]; cbn in E; try (injection E as <- <-; reflexivity).
  destruct yp as [b|b st| | | | |q' ip| |]; cbn in E; try discriminate Hn; try (injection E as <- <-; reflexivity).
  - destruct (waitingish st); [injection E as <- <-; reflexivity|discriminate E].
  - destruct (fstate m t =? ST_RUNNING); [discriminate E|injection E as <- <-; reflexivity].
  - rewrite (Hs eq_refl) in E. cbn in E. injection E as <- <-; reflexivity.
  - congruence.
Qed.

Lemma waitpos_eq_flip wp : wp = WPYield YPMFlip \/ wp <> WPYield YPMFlip.
Proof. destruct wp as [| | | | |[]]; try (right; discriminate). left; reflexivity. Qed.

Lemma step1_lockwait m V g c t c0 q wp m' p' :
  Inv1 m V g c -> V t = view_of (PRun c0 (KLock q (LPWait wp))) -> linv0 m c t (PRun c0 (KLock q (LPWait wp))) ->
  pstep m t (PRun c0 (KLock q (LPWait wp))) = (m', p') ->
  (wp = WPYield YPAsleep -> blocked m t = false) ->
  step1_goal m V g c t (PRun c0 (KLock q (LPWait wp))) m' p'.
Proof.
  intros I HV [[Hc Hk] B H1 H2 H3 H4 H5] E Hbl. unfold step1_goal.
  pose proof I as [K C].
  assert (Hc' : cphase_okb c0 (KLock q LPSub) = true) by (destruct c0; try discriminate Hc; exact Hc).
  destruct (mutex_of_lock _ _ _ Hc) as [Mq Hq].
  destruct (lock_view_facts _ _ (LPWait wp) Hc) as (F1 & F2 & F3 & F4).
  assert (HVw : v_wait (V t) = Some (q, norm_wp wp)) by (rewrite HV; reflexivity).
  (* no maintenance inside the wait of a lock: the deferred unlock belongs to cond_wait *)
  assert (NM : ismaintw wp = false).
  { destruct wp as [| | | | |[| | | | | |q' ip| |]]; auto. exfalso.
    pose proof (l_maint _ _ _ K t _ _ _ HVw) as Q. rewrite HV, F2 in Q. discriminate Q. }
  rewrite (norm_nomaint _ NM) in HVw.
  destruct (nowake_in_wait _ _ _ _ _ _ K HVw) as [Nw Nu].
  { intros q' Q. rewrite Q in NM. discriminate NM. }
  assert (NS : slot_mutex m t = None).
  { destruct (slot_mutex m t) eqn:Es; auto. exfalso. destruct (l_slot _ _ _ K t _ Es) as (_ & Q & _). rewrite HV, F2 in Q. discriminate Q. }
  assert (G2 : gc_step m t (PRun c0 (KLock q (LPWait wp))) c = c).
  { eapply gc_wait; eauto. destruct c0; try discriminate Hc; reflexivity. }
  rewrite G2. cbn [pstep] in E. cbn in Hk. unfold pstate in B. cbn in B.
  pose proof (l_stat _ _ _ K t) as Ls. rewrite HVw in Ls.
  destruct (wait_step m t q wp) as [m1 r] eqn:Ws.
  destruct (wait_step0 _ _ _ _ _ _ Ws H1 H2 H3 H4 Hk B) as (_ & _ & R).
  destruct r as [wp'| |]; [| |destruct R].
  - (* the wait goes on *)
    injection E as <- <-.
    destruct (waitpos_eq_flip wp) as [->|Hnf].
    + (* the state flip, then sleep *)
      cbn in Ws. unfold slots_p in Ws. cbn in Ws. rewrite H1, H2, NS, H3 in Ws.
      assert (G1 : gk_step m t (PRun c0 (KLock q (LPWait (WPYield YPMFlip)))) g = g) by reflexivity.
      rewrite G1.
      set (m0 := set_fstate m t ST_WAITING) in *.
      assert (SM : sleep_p m0 t = (fst (sleep_mem m0 t), YCont (match snd (sleep_mem m0 t) with WPYield yp => yp | _ => YPAsleep end))).
      { unfold sleep_p, sleep_mem. destruct (pend m0 t); reflexivity. }
      rewrite SM in Ws. injection Ws as <- <-.
      assert (Ewp : WPYield (match snd (sleep_mem m0 t) with WPYield yp => yp | _ => YPAsleep end) = snd (sleep_mem m0 t)).
      { unfold sleep_mem. destruct (pend m0 t); reflexivity. }
      rewrite Ewp.
      assert (NMs : ismaintw (snd (sleep_mem m0 t)) = false) by (unfold sleep_mem; destruct (pend m0 t); reflexivity).
      apply (to_sleep m m0 V g c t q (WPYield YPMFlip)); auto; try discriminate.
      * intros cnt wc w q0 Q. congruence.
      * apply mpriv_fstate.
      * right. unfold m0. cbn. now rewrite upd_same.
      * apply view_wf.
        -- split; [exact Hc|]. cbn. unfold sleep_mem. destruct (pend m0 t); exact Logic.I.
        -- intros q0 wp0 Q. inversion Q; subst. congruence.
      * cbn. now rewrite (norm_nomaint _ NMs).
      * rewrite HV. reflexivity.
      * rewrite HV. reflexivity.
      * cbn. unfold sleep_mem. destruct (pend m0 t); reflexivity.
      * cbn. unfold sleep_mem. destruct (pend m0 t); reflexivity.
      * rewrite HV. destruct c0; try discriminate Hc; cbn; auto.
    + (* simple positions *)
      assert (NM' : ismaintw wp' = false).
      { eapply wait_cont_nomaint; eauto. intros ->. exact Ls. }
      assert (G1 : gk_step m t (PRun c0 (KLock q (LPWait wp))) g = gk_wait t q wp g).
      { destruct wp as [| | | | |[b|b st| | | | |q' ip| |]]; try reflexivity; try discriminate NM.
        cbn in Ws. cbn. destruct (waitingish st); [reflexivity|discriminate Ws]. }
      rewrite G1, (lockwait_view c0 q wp wp' Hc' NM NM'), <- HV.
      apply (wait_simple m); auto.
      * destruct wp as [| | | | |[| | | | | |q' ip| |]]; auto; congruence.
      * intros st ->. cbn in Hk. now apply st12_nw.
  - (* the wait returns: the lock is ours *)
    destruct wp as [| | | | |[b|b st| | | | |q' ip| |]]; try discriminate NM; cbn in Ws; try discriminate Ws;
      try (destruct (fstate m t =? ST_RUNNING); discriminate Ws);
      try (destruct (fstate m t =? ST_SAVING); [discriminate Ws|]; unfold slots_p in Ws; rewrite H1, H2, NS, H3 in Ws; unfold sleep_p in Ws; destruct (pend m t); discriminate Ws);
      try (unfold slots_p in Ws; cbn in Ws; rewrite H1, H2, NS, H3 in Ws; unfold sleep_p in Ws; cbn in Ws; destruct (pend m t); discriminate Ws).
    destruct (waitingish st) eqn:Ews; [discriminate Ws|]. injection Ws as <-.
    destruct b.
    2:{ exfalso. cbn in Ls. destruct Ls as [_ ->]. discriminate Ews. }
    assert (G1 : gk_step m t (PRun c0 (KLock q (LPWait (WPYield (YPNext true st))))) g = set_got g t false).
    { cbn. now rewrite Ews. }
    rewrite G1.
    destruct (lock_ret_view _ _ _ _ _ _ Hc' E) as (-> & Pok & Pw & Pk & Pt & Ph).
    apply (wait_return m V g c t q st); auto.
    + apply view_wf; auto. now apply maint_cw3_nowait.
    + intros q0 Q. destruct (Ph (LPWait (WPYield (YPNext true st))) q0 Q) as [A| ->].
      * left. now rewrite HV.
      * right. split; auto. rewrite HV. reflexivity.
Qed.

(* ------------------------------------------------------------------ *)
(* fiber_mutex_unlock *)
Lemma upd_id {A} (f : nat -> A) t u : upd f t (f t) u = f u.
Proof. unfold upd. destruct (Nat.eqb_spec u t); congruence. Qed.

Lemma unlock_ret_view c0 q up m t m' p' :
  cphase_okb c0 (KUnlock q up) = true -> creturn m t c0 1 = (m', p') ->
  m' = m /\ phase_ok p' /\ v_wait (view_of p') = None /\ v_wake (view_of p') = None /\ v_trans (view_of p') = false /\
  v_h1 (view_of p') = false /\
  (v_h0 (view_of p') = true -> v_h0 (view_of (PRun c0 (KUnlock q (UPYield SPRead)))) = true).
Proof.
  intros Hc E. destruct c0; try discriminate Hc; cbn in E.
  - destruct um; injection E as <- <-.
    + cbn. repeat split; auto.
    + destruct (start_ok p (S k)) as (A1 & A2 & A3 & A4 & A5 & A6 & A7). repeat split; auto. intros Q. congruence.
  - injection E as <- <-. destruct (start_ok p (S k)) as (A1 & A2 & A3 & A4 & A5 & A6 & A7). repeat split; auto. intros Q. congruence.
Qed.

Lemma unlock_view_facts c0 q up : cphase_okb c0 (KUnlock q up) = true ->
  is_mutex q = true /\ isq q /\
  v_wait (view_of (PRun c0 (KUnlock q up))) = None /\ v_trans (view_of (PRun c0 (KUnlock q up))) = false /\
  v_cw3 (view_of (PRun c0 (KUnlock q up))) = false /\
  vholds q (view_of (PRun c0 (KUnlock q up))) = is_upadd up /\
  (forall q0, q0 <> q -> vholds q0 (view_of (PRun c0 (KUnlock q up))) = vholds q0 (view_of (PRun c0 (KUnlock q (UPYield SPRead))))) /\
  vholds q (view_of (PRun c0 (KUnlock q (UPYield SPRead)))) = false.
Proof.
  destruct c0; cbn; try discriminate; destruct q as [|[|q]]; try discriminate; intros _;
    unfold isq, UMUTEX, IMUTEX; repeat split; auto; intros [|[|q0]] Q; cbn; auto; congruence.
Qed.

Lemma gk_step_wake_unlock m t c0 q wc kp g :
  gk_step m t (PRun c0 (KUnlock q (UPWake wc kp))) g = gk_wake m t q kp g.
Proof. destruct kp; reflexivity. Qed.

Lemma gc_wake_mutex m t q kp c : q <> COND -> gc_wake m t q kp c = c.
Proof.
  intros H. unfold gc_wake. destruct (sched_of m kp); auto. destruct (Nat.eqb_spec q COND); [contradiction|reflexivity].
Qed.

Lemma upd_upd {A} (f : nat -> A) t x y u : upd (upd f t x) t y u = upd f t y u.
Proof. unfold upd. destruct (u =? t)%nat; reflexivity. Qed.

Lemma hand_none_pass m V g t q : KInv m V g -> is_mutex q = true -> isq q -> tok g q = TPass t -> v_wake (V t) = None ->
  hand g q = None.
Proof.
  intros I Mq Hq Ht Hk. destruct (hand g q) as [e|] eqn:E; auto. exfalso.
  destruct (q_hand _ _ _ I q e Hq E) as (_ & _ & _ & (u & cnt & wc & w & A & B)).
  destruct w as [kp|]; [|discriminate B].
  destruct (tk_pass _ _ _ I u _ _ _ _ A Mq) as [P _]. rewrite Ht in P. inversion P; subst. congruence.
Qed.

Lemma step1_unlock m V g c t c0 q up m' p' :
  Inv1 m V g c -> V t = view_of (PRun c0 (KUnlock q up)) -> linv0 m c t (PRun c0 (KUnlock q up)) ->
  pstep m t (PRun c0 (KUnlock q up)) = (m', p') ->
  step1_goal m V g c t (PRun c0 (KUnlock q up)) m' p'.
Proof.
  intros I HV [[Hc Hk] B H1 H2 H3 H4 H5] E. unfold step1_goal.
  pose proof I as [K C].
  destruct (unlock_view_facts _ _ _ Hc) as (Mq & Hq & Fw & Ft & Fc & Fh & Fo & Fn).
  set (vI := view_of (PRun c0 (KUnlock q (UPYield SPRead)))) in *.
  assert (VI : v_wait vI = None /\ v_wake vI = None /\ v_trans vI = false /\ v_h1 vI = false /\ v_uadd vI = None /\ v_cw3 vI = false).
  { unfold vI. destruct c0; try discriminate Hc; cbn; auto 10. }
  destruct VI as (I1 & I2 & I3 & I4 & I5 & I6).
  assert (WI : vwf vI).
  { apply view_wf; [split; [destruct c0; try discriminate Hc; exact Hc|exact Logic.I]|now apply maint_cw3_nowait]. }
  assert (HVw : v_wait (V t) = None) by (rewrite HV; exact Fw).
  assert (NSl : forall q0, slot_mutex m t = Some q0 -> False) by (eapply noslot; eauto; rewrite HV; exact Fc).
  assert (PC : plain_client c0 = true) by (destruct c0; try discriminate Hc; reflexivity).
  assert (Hqc : q <> COND) by (intros ->; discriminate Mq).
  (* dropping the mutex in the view *)
  assert (DROP : (v_wake (V t) = None \/ exists q0 cnt wc, v_wake (V t) = Some (q0, cnt, wc, VDone)) ->
                 (v_h1 (V t) = true -> g_trans c = 0 /\ g_claimed c = g_rel c) ->
                 forall m0 g0, Inv1 m0 V g0 c -> slot_mutex m0 t = slot_mutex m t -> Inv1 m0 (upd V t vI) g0 c).
  { intros Hkk Hcc m0 g0 [K0 C0] Hs0. apply (jump_inv m0 m0 V g0 c t); auto.
    - split; auto.
    - apply mpriv_refl.
    - intros [|[|q0]] Q; cbn [vholds] in Q; try discriminate Q.
      + destruct (Nat.eq_dec 0%nat q) as [<-|Hn]; [change (v_h0 vI = false) in Fn; congruence|].
        apply (tk_hold _ _ _ K0 t 0%nat). rewrite HV. rewrite (Fo 0%nat Hn). exact Q.
      + congruence.
    - intros q0. rewrite Hs0. apply NSl.
    - intros Q. congruence. }
  destruct up as [|wc kp|sp].
  - (* the fetch_add *)
    assert (G2 : gc_step m t (PRun c0 (KUnlock q UPAdd)) c = c).
    { apply gc_nosched; [reflexivity|]. intros c1 kp1 Q. inversion Q; subst; auto. }
    rewrite G2. cbn [pstep gk_step uadd_ctx] in *.
    assert (Tk : tok g q = THeld t) by (apply (tk_hold _ _ _ K t q); rewrite HV, Fh; reflexivity).
    assert (HVk : v_wake (V t) = None) by (rewrite HV; destruct c0; try discriminate Hc; reflexivity).
    assert (Hcc : v_h1 (V t) = true -> g_trans c = 0 /\ g_claimed c = g_rel c).
    { intros Q. destruct (cn_hold _ _ _ C t Q) as [A A']. rewrite HV, Ft in A. unfold vout in A'. rewrite HVk in A'. split; auto. lia. }
    pose proof (DROP (or_introl HVk) Hcc m g I eq_refl) as IA.
    assert (IB := uadd_inv m (upd V t vI) g c t q IA Mq Tk).
    rewrite upd_same in IB. specialize (IB Fn). 
    assert (IB' := IB ltac:(intros wp Q; congruence)). clear IB.
    set (m0 := set_word m q (word m q + 1)) in *.
    destruct (word m q + 1 =? 1) eqn:Ew.
    + (* nobody waits: return to the client *)
      destruct (unlock_ret_view _ _ _ _ _ _ _ Hc E) as (-> & Pok & Pw & Pk & Pt & Ph1 & Ph0).
      destruct IB' as [KB CB].
      eapply Inv1_ext; [intros u; apply upd_upd|].
      refine (jump_inv m0 m0 (upd V t vI) _ c t _ (conj KB CB) (mpriv_refl _ _ _) _ (or_introl eq_refl) eq_refl eq_refl eq_refl _ Pw Pk _ _ _ _ _).
      * apply view_wf; auto. now apply maint_cw3_nowait.
      * now rewrite upd_same.
      * left. now rewrite upd_same.
      * intros [|[|q0]] Q; cbn [vholds] in Q; try discriminate Q; [|congruence].
        apply (tk_hold _ _ _ KB t 0%nat). rewrite upd_same. cbn [vholds]. fold vI in Ph0. auto.
      * intros q0. cbn. apply NSl.
      * intros Q. congruence.
      * intros _ Q. rewrite upd_same in Q. congruence.
    + (* hand the mutex over: start waking *)
      injection E as <- <-. destruct IB' as [KB CB].
      set (v2 := view_of (PRun c0 (KUnlock q (UPWake 0 KPHead)))).
      assert (V2 : v2 = set_vwake vI (Some (q, 1, 0, VP KPHead))) by (unfold v2, vI; destruct c0; try discriminate Hc; reflexivity).
      assert (W2 : vwf v2) by (apply view_wf; [split; [exact Hc|exact Logic.I]|apply maint_cw3_nowait; change (v_wait v2 = None); rewrite V2; exact I1]).
      eapply Inv1_ext; [intros u; apply upd_upd|].
      assert (TP : tok (set_tok g q (TPass t)) q = TPass t) by (cbn; now rewrite upd_same).
      split.
      * refine (k_nowait m0 m0 (upd V t vI) _ t v2 KB (mpriv_refl _ _ _) W2 (or_introl eq_refl) eq_refl eq_refl eq_refl _ _ _ _ _ _ _).
        -- now rewrite upd_same.
        -- rewrite V2. exact I1.
        -- left. now rewrite upd_same.
        -- intros [|[|q0]] Q; rewrite V2 in Q; cbn [vholds set_vwake v_h0 v_h1] in Q; try discriminate Q; [|congruence].
           apply (tk_hold _ _ _ KB t 0%nat). rewrite upd_same. exact Q.
        -- rewrite V2. cbn. intros q0 cnt wc kp Q _. injection Q as <- <- <- <-. auto.
        -- rewrite V2. cbn. intros q0 cnt wc w Q. injection Q as <- <- <- <-. cbn.
           eapply (hand_none_pass _ _ _ t q KB); auto. now rewrite upd_same.
        -- intros q0. cbn. apply NSl.
      * refine (cinv_view (upd V t vI) _ c t v2 CB _ _ _ _); rewrite ?upd_same; rewrite V2;
          cbn [set_vwake v_h1 v_trans v_wake v_cw3].
        -- intros Q. congruence.
        -- intros _ Q. congruence.
        -- intros cnt wc w Q. exfalso. injection Q as Q1 _ _ _. contradiction.
        -- tauto.
  - (* waking the waiter *)
    cbn [pstep] in E. cbn in Hk. unfold pstate in B. cbn in B.
    destruct (wake_step m t q 1 wc kp false) as [m1 r] eqn:Ws.
    destruct (wake_step0 _ _ _ _ _ _ _ _ _ Ws (fun _ => B) Hk) as (_ & R).
    assert (NJ : r <> WJunk) by (intros ->; exact R).
    assert (HVk : v_wake (V t) = Some (q, 1, wc, VP kp)) by (rewrite HV; destruct c0; try discriminate Hc; reflexivity).
    pose proof (wake_inv m V g c t q 1 wc kp false m1 r I HVk Ws NJ) as IW.
    rewrite gk_step_wake_unlock.
    assert (G2 : gc_step m t (PRun c0 (KUnlock q (UPWake wc kp))) c = c).
    { destruct (sched_now m (PRun c0 (KUnlock q (UPWake wc kp)))) as [[q1 f]|] eqn:S.
      - eapply gc_sched_mutex; eauto.
        + unfold sched_now in S. cbn in S. destruct (sched_of m kp); inversion S; subst; auto.
        + intros c1 kp1 Q. inversion Q; subst; auto.
      - apply gc_nosched; auto. intros c1 kp1 Q. inversion Q; subst; auto. }
    rewrite G2. rewrite gc_wake_mutex in IW by auto.
    destruct r as [wc' kp'|v|]; [| |destruct R].
    + injection E as <- <-. cbn [wc_of res_pos] in IW.
      eapply Inv1_ext; [|exact IW]. intros u. unfold upd. destruct (u =? t)%nat; auto.
      rewrite HV. destruct c0; try discriminate Hc; reflexivity.
    + injection E as <- <-. cbn [wc_of res_pos] in IW.
      eapply Inv1_ext; [intros u; apply upd_upd|].
      assert (Hcc : v_h1 (V t) = true -> g_trans c = 0 /\ g_claimed c = g_rel c).
      { intros Q. rewrite HV in Q. destruct c0; try discriminate Hc; discriminate Q. }
      destruct IW as [KW CW].
      refine (jump_inv m1 m1 _ _ c t vI (conj KW CW) (mpriv_refl _ _ _) WI (or_introl eq_refl) eq_refl eq_refl eq_refl _ I1 I2 _ _ _ _ _).
      * rewrite upd_same. exact HVw.
      * right. rewrite upd_same. cbn. eauto.
      * intros [|[|q0]] Q; cbn [vholds] in Q; try discriminate Q; [|congruence].
        apply (tk_hold _ _ _ KW t 0%nat). rewrite upd_same. cbn [vholds set_vwake v_h0]. rewrite HV.
        destruct (Nat.eq_dec 0%nat q) as [<-|Hn]; [change (v_h0 vI = false) in Fn; congruence|].
        exact (eq_trans (Fo 0%nat Hn) Q).
      * intros q0 Q. destruct (l_slot _ _ _ KW t q0 Q) as (_ & A & _). rewrite upd_same in A. cbn in A.
        rewrite HV, Fc in A. discriminate A.
      * intros Q. congruence.
      * intros _ Q. rewrite upd_same in Q. cbn in Q. exfalso. rewrite HV in Q. destruct c0; try discriminate Hc; discriminate Q.
  - assert (G1 : gk_step m t (PRun c0 (KUnlock q (UPYield sp))) g = g) by (destruct sp; reflexivity).
    assert (G2 : gc_step m t (PRun c0 (KUnlock q (UPYield sp))) c = c).
    { apply gc_nosched; [destruct sp; reflexivity|]. intros c1 kp1 Q. inversion Q; subst; auto. }
    rewrite G1, G2. destruct sp as [|st]; cbn [pstep] in E.
    + injection E as <- <-. eapply Inv1_ext; [|exact I]. intros u.
      change (view_of (PRun c0 (KUnlock q (UPYield (SPNext (fstate m t)))))) with vI.
      unfold upd. destruct (Nat.eqb_spec u t) as [->|]; auto.
    + cbn in Hk. rewrite (st12_nw _ Hk) in E.
      destruct (unlock_ret_view _ _ _ _ _ _ _ Hc E) as (-> & Pok & Pw & Pk & Pt & Ph1 & Ph0).
      assert (HVk : v_wake (V t) = None) by (rewrite HV; destruct c0; try discriminate Hc; reflexivity).
      apply (jump_inv m m V g c t); auto.
      * apply mpriv_refl.
      * apply view_wf; auto. now apply maint_cw3_nowait.
      * intros [|[|q0]] Q; cbn [vholds] in Q; try discriminate Q; [|congruence].
        apply (tk_hold _ _ _ K t 0%nat). rewrite HV. cbn. fold vI. auto.
      * intros Q. congruence.
      * intros _ Q. rewrite HV in Q. change (v_h1 vI = true) in Q. congruence.
Qed.

(* ------------------------------------------------------------------ *)
(* the wake on the cond list, inside fiber_cond_signal / broadcast *)
Lemma step1_wake m V g c t c0 q cnt wc kp m' p' :
  Inv1 m V g c -> V t = view_of (PRun c0 (KWake q cnt wc kp)) -> linv0 m c t (PRun c0 (KWake q cnt wc kp)) ->
  pstep m t (PRun c0 (KWake q cnt wc kp)) = (m', p') ->
  step1_goal m V g c t (PRun c0 (KWake q cnt wc kp)) m' p'.
Proof.
  intros I HV [[Hc Hk] B H1 H2 H3 H4 H5] E. unfold step1_goal.
  destruct c0; try discriminate Hc. destruct q as [|[|[|q]]]; try discriminate Hc.
  cbn [pstep] in E. cbn in Hk. unfold pstate in B. cbn in B.
  destruct (wake_step m t 2 cnt wc kp false) as [m1 r] eqn:Ws.
  destruct (wake_step0 _ _ _ _ _ _ _ _ _ Ws (fun _ => B) Hk) as (_ & R).
  assert (NJ : r <> WJunk) by (intros ->; exact R).
  assert (HVk : v_wake (V t) = Some (COND, cnt, wc, VP kp)) by (rewrite HV; reflexivity).
  pose proof (wake_inv m V g c t COND cnt wc kp false m1 r I HVk Ws NJ) as IW.
  assert (G1 : gk_step m t (PRun (CS3 um p k) (KWake 2 cnt wc kp)) g = gk_wake m t COND kp g) by (destruct kp; reflexivity).
  assert (G2 : gc_step m t (PRun (CS3 um p k) (KWake 2 cnt wc kp)) c = gc_wake m t COND kp c).
  { unfold gc_step, gc_wake, sched_now. cbn [wake_ctx]. destruct (sched_of m kp); reflexivity. }
  rewrite G1, G2.
  destruct r as [wc' kp'|v|]; [| |destruct R].
  - injection E as <- <-. cbn [wc_of res_pos] in IW.
    eapply Inv1_ext; [|exact IW]. intros u. unfold upd. destruct (u =? t)%nat; auto. rewrite HV. reflexivity.
  - cbn in E. injection E as <- <-. cbn [wc_of res_pos] in IW.
    eapply Inv1_ext; [intros u; apply upd_upd|].
    destruct IW as [KW CW].
    set (V1 := upd V t (set_vwake (V t) (Some (COND, cnt, v, VDone)))) in *.
    set (v' := view_of (PRun (CS4 um p k) (KUnlock IMUTEX UPAdd))).
    assert (W' : vwf v') by (apply view_wf; [cbn; auto|apply maint_cw3_nowait; reflexivity]).
    assert (V1t : V1 t = set_vwake (V t) (Some (COND, cnt, v, VDone))) by (unfold V1; now rewrite upd_same).
    assert (Hh1 : v_h1 (V1 t) = true) by (rewrite V1t; cbn; rewrite HV; reflexivity).
    destruct (cn_hold _ _ _ CW t Hh1) as [T O]. rewrite V1t in T, O. cbn in T. unfold vout in O. cbn in O.
    destruct (cn_wc _ _ _ CW t cnt v VDone) as (_ & Wd & _); [rewrite V1t; reflexivity|].
    rewrite HV in T. cbn in T.
    refine (jump_inv m1 m1 V1 _ _ t v' (conj KW CW) (mpriv_refl _ _ _) W' (or_introl eq_refl) eq_refl eq_refl eq_refl _ eq_refl eq_refl _ _ _ _ _).
    + rewrite V1t. cbn. rewrite HV. reflexivity.
    + right. rewrite V1t. cbn. eauto.
    + intros [|[|q0]] Q; cbn in Q; try discriminate Q.
      * apply (tk_hold _ _ _ KW t 0%nat). rewrite V1t. cbn. rewrite HV. exact Q.
      * apply (tk_hold _ _ _ KW t 1%nat). exact Hh1.
    + intros q0 Q. destruct (l_slot _ _ _ KW t q0 Q) as (_ & A & _). rewrite V1t in A. cbn in A. rewrite HV in A. discriminate A.
    + intros _. cbn. split; auto. lia.
    + intros Q. discriminate Q.
Qed.

(* ------------------------------------------------------------------ *)
(* the wait of fiber_cond_wait: state flip, deferred unlock of the user mutex, sleep *)
Definition cwv (p : list cop) (k : nat) (wp : waitpos) : view := view_of (PRun (CW3 p k) (KWait COND wp)).

Lemma cwv_fields p k wp :
  v_wait (cwv p k wp) = Some (COND, norm_wp wp) /\ v_lockw (cwv p k wp) = false /\ v_cw3 (cwv p k wp) = true /\
  v_h1 (cwv p k wp) = false /\ v_trans (cwv p k wp) = false /\ v_h0 (cwv p k wp) = pre_unlock wp.
Proof. unfold cwv. cbn. auto 10. Qed.

Lemma cwv_nomaint p k wp : ismaintw wp = false -> v_wake (cwv p k wp) = None /\ v_uadd (cwv p k wp) = None.
Proof. destruct wp as [| | | | |[]]; cbn; auto; discriminate. Qed.

Lemma cwv_wf p k wp : wait_ok wp -> vwf (cwv p k wp).
Proof.
  intros H. apply view_wf; [split; auto|]. intros q wp0 Q _. reflexivity.
Qed.

Lemma sleep_p_mem m0 t : sleep_p m0 t = (fst (sleep_mem m0 t), YCont (match snd (sleep_mem m0 t) with WPYield yp => yp | _ => YPAsleep end)).
Proof. unfold sleep_p, sleep_mem. destruct (pend m0 t); reflexivity. Qed.

Lemma sleep_wp m0 t : WPYield (match snd (sleep_mem m0 t) with WPYield yp => yp | _ => YPAsleep end) = snd (sleep_mem m0 t) /\
  ismaintw (snd (sleep_mem m0 t)) = false /\ wait_ok (snd (sleep_mem m0 t)) /\ pre_unlock (snd (sleep_mem m0 t)) = false.
Proof. unfold sleep_mem. destruct (pend m0 t); cbn; auto. Qed.

(* go to sleep in the cond wait, from a (possibly virtual) view v0 of the wait *)
Lemma cw_sleep m V g c t p k wp :
  Inv1 m V g c -> v_wait (V t) = Some (COND, wp) -> presleep wp = true -> (forall a b, wp <> WPLink a b) ->
  v_lockw (V t) = false -> v_cw3 (V t) = true ->
  (forall cnt wc w q0, v_wake (V t) = Some (q0, cnt, wc, w) -> inhand w = false /\ q0 <> COND) ->
  slot_mutex m t = None ->
  Inv1 (fst (sleep_mem m t)) (upd V t (cwv p k (snd (sleep_mem m t)))) g c.
Proof.
  intros I Hw Hp Hnl Hl Hc Hk Hs.
  destruct (sleep_wp m t) as (_ & S2 & S3 & S4).
  destruct (cwv_fields p k (snd (sleep_mem m t))) as (F1 & F2 & F3 & F4 & F5 & F6).
  destruct (cwv_nomaint p k _ S2) as [F7 F8].
  refine (to_sleep m m V g c t COND wp _ I Hw Hp Hnl Hk (mpriv_refl _ _ _) (or_introl eq_refl) eq_refl eq_refl eq_refl Hs
            (cwv_wf p k _ S3) _ _ _ F7 F8 _).
  - rewrite F1. now rewrite (norm_nomaint _ S2).
  - congruence.
  - congruence.
  - rewrite F6, S4. discriminate.
Qed.

Lemma cw_flip m V g c t p k m1 r :
  Inv1 m V g c -> V t = cwv p k (WPYield YPMFlip) ->
  slot_sched m t = false -> slot_mpmc m t = None -> slot_wait m t = None ->
  yield_step m t YPMFlip = (m1, r) ->
  exists yp', r = YCont yp' /\ Inv1 m1 (upd V t (cwv p k (WPYield yp'))) g c.
Proof.
  intros [I C] HV S1 S2 S3 E. cbn in E. unfold slots_p in E. cbn in E. rewrite S1, S2, S3 in E.
  destruct (cwv_fields p k (WPYield YPMFlip)) as (F1 & F2 & F3 & F4 & F5 & F6).
  destruct (cwv_nomaint p k (WPYield YPMFlip) eq_refl) as [F7 F8].
  rewrite <- HV in F1, F2, F3, F4, F5, F6, F7, F8. cbn in F1, F6.
  set (m0 := set_fstate m t ST_WAITING) in *.
  pose proof (l_acct _ _ _ I t) as La. rewrite F1 in La. cbn in La. destruct La as [Ab Ap].
  destruct (slot_mutex m t) as [q0|] eqn:Es.
  - (* the deferred unlock *)
    destruct (l_slot _ _ _ I t q0 Es) as (-> & _).
    injection E as <- <-. exists (YPMaint UMUTEX IPAdd). split; [reflexivity|].
    set (m1 := set_slot_mutex m0 t None). set (v' := cwv p k (WPYield (YPMaint UMUTEX IPAdd))).
    assert (P : mpriv t g m m1).
    { constructor; auto; intros u Hu; cbn; now rewrite upd_other. }
    assert (W' : vwf v') by (apply cwv_wf; cbn; auto).
    split.
    + apply (inv_private m m1 V g t v' I P W').
      * right; left. cbn. now rewrite upd_same.
      * left; reflexivity.
      * apply (l_own _ _ _ I t).
      * apply (holds_from _ _ _ _ _ I); [intros _; exact F6|intros Q; discriminate Q].
      * intros q0 wp _ Q. discriminate Q.
      * intros q0 cnt wc kp Q. discriminate Q.
      * intros q0 a b Q. rewrite F1 in Q. discriminate Q.
      * intros q0 wp Q _ _. rewrite F1 in Q. injection Q as <- <-. cbn. eauto.
      * intros q0 cnt wc w Q. congruence.
      * intros q0 cnt wc w Q. discriminate Q.
      * intros q0 wp Q. injection Q as <- <-. exact Logic.I.
      * cbn. auto.
      * exact Logic.I.
      * cbn. intros H. apply (l_node _ _ _ I t). rewrite F1. exact H.
      * cbn. rewrite upd_same. intros q0 Q. discriminate Q.
      * intros q0 q' ip _. reflexivity.
    + apply cinv_view; auto; cbn.
      * intros Q. discriminate Q.
      * intros _ Q. congruence.
      * intros cnt wc w Q. discriminate Q.
      * rewrite F3. tauto.
  - (* nothing deferred: sleep *)
    rewrite (sleep_p_mem m0 t) in E. injection E as <- <-.
    destruct (sleep_wp m0 t) as (W1 & W2 & W3 & W4).
    eexists. split; [reflexivity|]. rewrite W1.
    destruct (cwv_fields p k (snd (sleep_mem m0 t))) as (G1 & G2 & G3 & G4 & G5 & G6).
    destruct (cwv_nomaint p k _ W2) as [G7 G8].
    refine (to_sleep m m0 V g c t COND (WPYield YPMFlip) _ (conj I C) F1 eq_refl _ _ (mpriv_fstate _ _ _ _) _ eq_refl eq_refl eq_refl Es
              (cwv_wf p k _ W3) _ _ _ G7 G8 _).
    + intros a b Q. discriminate Q.
    + intros cnt wc w q0 Q. congruence.
    + right. cbn. now rewrite upd_same.
    + rewrite G1. now rewrite (norm_nomaint _ W2).
    + congruence.
    + congruence.
    + rewrite G6, W4. discriminate.
Qed.

Definition maint0 : waitpos := WPYield (YPMaint UMUTEX IPAdd).

(* the virtual view between the fetch_add of the deferred unlock and what follows *)
Definition cw_mid (p : list cop) (k : nat) : view :=
  set_vh0 (set_vuadd (cwv p k maint0) None) false.

Lemma cw_mid_wf p k : vwf (cw_mid p k).
Proof.
  constructor; cbn; intros; try discriminate; auto.
  - inversion H; subst. unfold isq, COND. repeat split; auto; discriminate.
  - eexists. split; reflexivity.
  - destruct H0 as [Q|Q]; exfalso; apply Q; reflexivity.
Qed.

Lemma cw_drop m V g c t p k :
  Inv1 m V g c -> V t = cwv p k maint0 -> Inv1 m (upd V t (cw_mid p k)) g c.
Proof.
  intros [I C] HV.
  assert (F1 : v_wait (V t) = Some (COND, maint0)) by (rewrite HV; reflexivity).
  split.
  - apply (inv_private m m V g t _ I (mpriv_refl _ _ _) (cw_mid_wf p k)).
    + left; reflexivity.
    + left; reflexivity.
    + apply (l_own _ _ _ I t).
    + intros [|[|q]] Q; discriminate Q.
    + intros q wp _ Q. discriminate Q.
    + intros q cnt wc kp Q. discriminate Q.
    + intros q a b Q. rewrite F1 in Q. discriminate Q.
    + intros q wp Q _ _. rewrite F1 in Q. injection Q as <- <-. cbn. eauto.
    + intros q cnt wc w Q. rewrite HV in Q. discriminate Q.
    + intros q cnt wc w Q. discriminate Q.
    + intros q wp Q. injection Q as <- <-. exact Logic.I.
    + pose proof (l_acct _ _ _ I t) as A. rewrite F1 in A. exact A.
    + exact Logic.I.
    + pose proof (l_node _ _ _ I t) as A. rewrite F1 in A. exact A.
    + intros q Q. destruct (l_slot _ _ _ I t q Q) as (_ & _ & wp & A & B). rewrite F1 in A. injection A as <-. discriminate B.
    + intros q q' ip _. reflexivity.
  - apply cinv_view; auto; cbn.
    + intros Q. discriminate Q.
    + intros _ Q. rewrite HV in Q. discriminate Q.
    + intros cnt wc w Q. discriminate Q.
    + rewrite HV. cbn. tauto.
Qed.

Lemma cw_uadd m V g c t p k m1 r :
  Inv1 m V g c -> V t = cwv p k maint0 ->
  slot_sched m t = false -> slot_mpmc m t = None -> slot_wait m t = None ->
  yield_step m t (YPMaint UMUTEX IPAdd) = (m1, r) ->
  exists yp', r = YCont yp' /\
    Inv1 m1 (upd V t (cwv p k (WPYield yp'))) (set_tok g UMUTEX (if word m UMUTEX + 1 =? 1 then TFree else TPass t)) c.
Proof.
  intros I HV S1 S2 S3 E. pose proof I as [K C].
  assert (Tk : tok g UMUTEX = THeld t) by (apply (tk_hold _ _ _ K t 0%nat); rewrite HV; reflexivity).
  assert (NS : slot_mutex m t = None).
  { destruct (slot_mutex m t) eqn:Es; auto. exfalso. destruct (l_slot _ _ _ K t _ Es) as (_ & _ & wp & A & B).
    rewrite HV in A. injection A as <-. discriminate B. }
  pose proof (cw_drop m V g c t p k I HV) as IA.
  assert (IB := uadd_inv m (upd V t (cw_mid p k)) g c t UMUTEX IA eq_refl Tk).
  rewrite upd_same in IB. specialize (IB eq_refl ltac:(intros wp Q; discriminate Q)).
  cbn [yield_step unlki_step] in E. set (m0 := set_word m UMUTEX (word m UMUTEX + 1)) in *.
  destruct (word m UMUTEX + 1 =? 1) eqn:Ew.
  - (* nobody waits for the user mutex: sleep *)
    unfold slots_p in E. cbn in E. rewrite S1, S2, NS, S3 in E.
    change (sleep_p m0 t = (m1, r)) in E. rewrite (sleep_p_mem m0 t) in E. injection E as <- <-.
    destruct (sleep_wp m0 t) as (W1 & W2 & W3 & W4).
    eexists. split; [reflexivity|]. rewrite W1.
    eapply Inv1_ext; [intros u; apply upd_upd|].
    apply (cw_sleep m0 _ _ c t p k maint0 IB); rewrite ?upd_same; auto.
    + intros a b Q. discriminate Q.
    + intros cnt wc w q0 Q. discriminate Q.
  - (* hand the user mutex over *)
    injection E as <- <-. eexists. split; [reflexivity|].
    destruct IB as [KB CB].
    set (v2 := cwv p k (WPYield (YPMaint UMUTEX (IPWake 0 KPHead)))).
    assert (V2 : v2 = set_vwake (cw_mid p k) (Some (UMUTEX, 1, 0, VP KPHead))) by reflexivity.
    eapply Inv1_ext; [intros u; apply upd_upd|].
    set (g' := set_tok g UMUTEX (TPass t)) in *.
    assert (TP : tok g' UMUTEX = TPass t) by reflexivity.
    split.
    + apply (inv_private m0 m0 (upd V t (cw_mid p k)) g' t v2 KB (mpriv_refl _ _ _)); rewrite ?upd_same.
      * apply cwv_wf. cbn. auto.
      * left; reflexivity.
      * left; reflexivity.
      * apply (l_own _ _ _ KB t).
      * intros [|[|q]] Q; discriminate Q.
      * intros q wp _ Q. discriminate Q.
      * intros q cnt wc kp Q _. injection Q as <- <- <- <-. auto.
      * intros q a b Q. discriminate Q.
      * intros q wp Q _ _. injection Q as <- <-. cbn. eauto.
      * intros q cnt wc w Q. discriminate Q.
      * intros q cnt wc w Q. injection Q as <- <- <- <-. cbn.
        apply (hand_none_pass _ _ _ t UMUTEX KB); auto; [left; reflexivity|now rewrite upd_same].
      * intros q wp Q. injection Q as <- <-. exact Logic.I.
      * pose proof (l_acct _ _ _ KB t) as A. rewrite upd_same in A. exact A.
      * exact Logic.I.
      * pose proof (l_node _ _ _ KB t) as A. rewrite upd_same in A. exact A.
      * intros q Q. cbn in Q. rewrite NS in Q. discriminate Q.
      * intros q q' ip _. reflexivity.
    + refine (cinv_view _ _ c t v2 CB _ _ _ _); rewrite ?upd_same; cbn.
      * intros Q. discriminate Q.
      * intros _ Q. discriminate Q.
      * intros cnt wc w Q. discriminate Q.
      * tauto.
Qed.

Lemma cw_wake m V g c t p k wc kp m2 r :
  Inv1 m V g c -> V t = cwv p k (WPYield (YPMaint UMUTEX (IPWake wc kp))) ->
  slot_sched m t = false -> slot_mpmc m t = None -> slot_wait m t = None -> wake_ok kp true ->
  yield_step m t (YPMaint UMUTEX (IPWake wc kp)) = (m2, r) ->
  exists yp', r = YCont yp' /\ Inv1 m2 (upd V t (cwv p k (WPYield yp'))) (gk_wake m t UMUTEX kp g) c.
Proof.
  intros I HV S1 S2 S3 Hk E. pose proof I as [K C].
  assert (HVk : v_wake (V t) = Some (UMUTEX, 1, wc, VP kp)) by (rewrite HV; reflexivity).
  assert (HVw : v_wait (V t) = Some (COND, maint0)) by (rewrite HV; reflexivity).
  assert (NS : slot_mutex m t = None).
  { destruct (slot_mutex m t) eqn:Es; auto. exfalso. destruct (l_slot _ _ _ K t _ Es) as (_ & _ & wp & A & B).
    rewrite HVw in A. injection A as <-. discriminate B. }
  cbn [yield_step unlki_step] in E.
  destruct (wake_step m t UMUTEX 1 wc kp true) as [m1 res] eqn:Ws.
  destruct (wake_step0 _ _ _ _ _ _ _ _ _ Ws ltac:(discriminate) Hk) as (F0 & R).
  assert (NJ : res <> WJunk) by (intros ->; exact R).
  pose proof (wake_inv m V g c t UMUTEX 1 wc kp true m1 res I HVk Ws NJ) as IW.
  rewrite gc_wake_mutex in IW by discriminate.
  destruct res as [wc' kp'|v|]; [| |destruct R].
  - injection E as <- <-. eexists. split; [reflexivity|]. cbn [wc_of res_pos] in IW.
    eapply Inv1_ext; [|exact IW]. intros u. unfold upd. destruct (u =? t)%nat; auto. rewrite HV. reflexivity.
  - cbn [wc_of res_pos] in IW.
    assert (NS1 : slot_mutex m1 t = None).
    { destruct F0 as (_ & _ & _ & _ & Q & _). now rewrite Q. }
    assert (S1' : slot_sched m1 t = false) by (destruct F0 as (_ & Q & _); now rewrite Q).
    assert (S2' : slot_mpmc m1 t = None) by (destruct F0 as (_ & _ & Q & _); now rewrite Q).
    assert (S3' : slot_wait m1 t = None) by (destruct F0 as (_ & _ & _ & Q & _); now rewrite Q).
    unfold slots_p in E. rewrite S1', S2', NS1, S3' in E.
    rewrite (sleep_p_mem m1 t) in E. injection E as <- <-.
    destruct (sleep_wp m1 t) as (W1 & W2 & W3 & W4).
    eexists. split; [reflexivity|]. rewrite W1.
    eapply Inv1_ext; [intros u; apply upd_upd|].
    apply (cw_sleep m1 _ _ c t p k maint0 IW); rewrite ?upd_same; cbn [set_vwake v_wait v_lockw v_cw3 v_wake]; auto.
    + intros a b Q. discriminate Q.
    + rewrite HV. reflexivity.
    + rewrite HV. reflexivity.
    + intros cnt wc0 w q0 Q. injection Q as <- <- <- <-. split; [reflexivity|discriminate].
Qed.

Lemma condwait_view p k wp wp' :
  ismaintw wp = false -> ismaintw wp' = false -> pre_unlock wp' = pre_unlock wp ->
  cwv p k wp' = set_vwait (cwv p k wp) (Some (COND, wp')).
Proof.
  intros Hn Hn' Hp. unfold cwv, view_of, set_vwait. cbn. rewrite (norm_nomaint _ Hn'), Hp.
  destruct wp as [| | | | |[| | | | | |q0 ip0| |]]; try discriminate Hn;
  destruct wp' as [| | | | |[| | | | | |q' ip| |]]; try discriminate Hn'; reflexivity.
Qed.

Lemma wait_simple_preunlock m t q wp m1 wp' :
  wait_step m t q wp = (m1, TCont wp') -> ismaintw wp = false -> wp <> WPYield YPMFlip ->
  (wp = WPYield YPMRead -> fstate m t = ST_SAVING) ->
  (forall st, wp = WPYield (YPNext true st) -> waitingish st = false) ->
  pre_unlock wp' = pre_unlock wp.
Proof.
  intros E Hn Hf Hs Hnt. destruct wp as [| | | | |yp]; cbn in E; try (injection E as <- <-; reflexivity).
  destruct yp as [b|b st| | | | |q' ip| |]; cbn in E; try discriminate Hn; try (injection E as <- <-; reflexivity).
  - destruct (waitingish st) eqn:W; [|discriminate E]. injection E as <- <-.
    destruct b; [rewrite (Hnt st eq_refl) in W; discriminate W|reflexivity].
  - destruct (fstate m t =? ST_RUNNING); [discriminate E|injection E as <- <-; reflexivity].
  - rewrite (Hs eq_refl) in E. cbn in E. injection E as <- <-; reflexivity.
  - congruence.
Qed.

Lemma slots_p_noret m t m' : slots_p m t <> (m', YRet).
Proof.
  unfold slots_p, sleep_p. destruct (slot_sched m t); [discriminate|]. destruct (slot_mpmc m t); [discriminate|].
  destruct (slot_mutex m t); [discriminate|]. destruct (slot_wait m t); [discriminate|]. destruct (pend m t); discriminate.
Qed.

Lemma step1_condwait m V g c t c0 q wp m' p' :
  Inv1 m V g c -> V t = view_of (PRun c0 (KWait q wp)) -> linv0 m c t (PRun c0 (KWait q wp)) ->
  pstep m t (PRun c0 (KWait q wp)) = (m', p') ->
  (wp = WPYield YPAsleep -> blocked m t = false) ->
  step1_goal m V g c t (PRun c0 (KWait q wp)) m' p'.
Proof.
  intros I HV [[Hc Hk] B H1 H2 H3 H4 H5] E Hbl. unfold step1_goal.
  destruct c0; try discriminate Hc. destruct q as [|[|[|q]]]; try discriminate Hc.
  change (V t = cwv p k wp) in HV. pose proof I as [K C].
  destruct (cwv_fields p k wp) as (F1 & F2 & F3 & F4 & F5 & F6). rewrite <- HV in F1, F2, F3, F4, F5, F6.
  cbn in Hk.
  assert (G2 : gc_step m t (PRun (CW3 p k) (KWait 2 wp)) c = c) by (apply (gc_wait m t (CW3 p k) 2%nat wp c _ Hk eq_refl); right; reflexivity).
  rewrite G2. cbn [pstep] in E. unfold pstate in B. cbn in B.
  pose proof (l_stat _ _ _ K t) as Ls. rewrite F1 in Ls.
  destruct (wait_step m t 2 wp) as [m1 r] eqn:Ws.
  destruct (wait_step0 _ _ _ _ _ _ Ws H1 H2 H3 H4 Hk B) as (_ & _ & R).
  destruct r as [wp'| |]; [| |destruct R].
  - injection E as <- <-.
    destruct (ismaintw wp) eqn:NM.
    + (* inside do_maintenance *)
      destruct wp as [| | | | |[b|b st| | | | |q' ip| |]]; try discriminate NM.
      cbn in Hk. destruct Hk as [-> Hk]. cbn [wait_step] in Ws.
      destruct (yield_step m t (YPMaint UMUTEX ip)) as [m2 r2] eqn:Ys.
      destruct ip as [|wc kp].
      * destruct (cw_uadd m V g c t p k m2 r2 I HV H1 H2 H3 Ys) as (yp' & -> & IF).
        injection Ws as <- <-.
        assert (G1 : gk_step m t (PRun (CW3 p k) (KWait 2 (WPYield (YPMaint UMUTEX IPAdd)))) g
                     = set_tok g UMUTEX (if word m UMUTEX + 1 =? 1 then TFree else TPass t)).
        { cbn. destruct (word m UMUTEX + 1 =? 1); reflexivity. }
        rewrite G1. exact IF.
      * destruct (cw_wake m V g c t p k wc kp m2 r2 I HV H1 H2 H3 Hk Ys) as (yp' & -> & IF).
        injection Ws as <- <-.
        assert (G1 : gk_step m t (PRun (CW3 p k) (KWait 2 (WPYield (YPMaint UMUTEX (IPWake wc kp))))) g
                     = gk_wake m t UMUTEX kp g) by (destruct kp; reflexivity).
        rewrite G1. exact IF.
    + destruct (waitpos_eq_flip wp) as [->|NF].
      * (* the state flip *)
        cbn [wait_step] in Ws. destruct (yield_step m t YPMFlip) as [m2 r2] eqn:Ys.
        destruct (cw_flip m V g c t p k m2 r2 I HV H1 H2 H3 Ys) as (yp' & -> & IF).
        injection Ws as <- <-. exact IF.
      * assert (HS : wp = WPYield YPMRead -> fstate m t = ST_SAVING) by (intros ->; exact Ls).
        assert (HN : forall st, wp = WPYield (YPNext true st) -> waitingish st = false)
          by (intros st ->; cbn in Hk; now apply st12_nw).
        pose proof (wait_cont_nomaint _ _ _ _ _ _ Ws NM NF HS) as NM'.
        pose proof (wait_simple_preunlock _ _ _ _ _ _ Ws NM NF HS HN) as PU.
        rewrite (norm_nomaint _ NM) in F1.
        destruct (cwv_nomaint p k wp NM) as [F7 F8]. rewrite <- HV in F7, F8.
        change (view_of (PRun (CW3 p k) (KWait 2 wp'))) with (cwv p k wp').
        rewrite (condwait_view p k wp wp' NM NM' PU), <- HV.
        assert (G1 : gk_step m t (PRun (CW3 p k) (KWait 2 wp)) g = gk_wait t 2 wp g).
        { destruct wp as [| | | | |[b|b st| | | | |q' ip| |]]; try reflexivity; try discriminate NM.
          cbn in Ws. cbn. destruct (waitingish st); [reflexivity|discriminate Ws]. }
        rewrite G1. apply (wait_simple m); auto.
        destruct wp as [| | | | |[| | | | | |q' ip| |]]; auto; congruence.
  - (* the wait returns: lock the user mutex again *)
    destruct wp as [| | | | |[b|b st| | | | |q' ip| |]]; cbn in Ws; try discriminate Ws.
    + destruct (waitingish st) eqn:Ews; [discriminate Ws|]. injection Ws as <-.
      destruct b.
      2:{ exfalso. cbn in Ls. destruct Ls as [_ ->]. discriminate Ews. }
      assert (G1 : gk_step m t (PRun (CW3 p k) (KWait 2 (WPYield (YPNext true st)))) g = set_got g t false).
      { cbn. now rewrite Ews. }
      rewrite G1. cbn in E. injection E as <- <-.
      apply (wait_return m V g c t COND st); auto.
      * apply view_wf; [cbn; auto|apply maint_cw3_nowait; reflexivity].
      * intros [|[|q0]] Q; discriminate Q.
    + destruct (fstate m t =? ST_RUNNING); discriminate Ws.
    + cbn in Ls. rewrite Ls in Ws. cbn in Ws. discriminate Ws.
    + destruct (slots_p (set_fstate m t ST_WAITING) t) as [mm [yy| |]] eqn:Sp; try discriminate Ws.
      exfalso. eapply slots_p_noret; eauto.
    + destruct (unlki_step m t q' ip true) as [m3 [ip'|v|]]; try discriminate Ws.
      destruct (slots_p m3 t) as [mm [yy| |]] eqn:Sp; try discriminate Ws.
      exfalso. eapply slots_p_noret; eauto.
Qed.

(* ------------------------------------------------------------------ *)
(* assembly *)
Ltac okb_solve H :=
  cbn in H;
  repeat match type of H with
  | context [match ?x with _ => _ end] => destruct x; try discriminate H
  end; auto.

Lemma okb_cw2 p k q d mo : cphase_okb (CW2 p k) (KAcc (AWFAdd q d mo)) = true -> q = COND /\ d = 1 /\ mo = 3.
Proof. intros H. okb_solve H. Qed.
Lemma okb_cs2 um p k q d mo : cphase_okb (CS2 um p k) (KAcc (AWFSub q d mo)) = true -> q = COND /\ d = 1 /\ mo = 5.
Proof. intros H. okb_solve H. Qed.
Lemma okb_cs3 um p k q d mo : cphase_okb (CS3 um p k) (KAcc (AWFAdd q d mo)) = true -> q = COND /\ d = 1 /\ mo = 5.
Proof. intros H. okb_solve H. Qed.
Lemma okb_cb2 um p k q v mo : cphase_okb (CB2 um p k) (KAcc (AWXchg q v mo)) = true -> q = COND /\ v = 0 /\ mo = 2.
Proof. intros H. okb_solve H. Qed.

Lemma step1 m V g c t p m' p' :
  Inv1 m V g c -> V t = view_of p -> linv0 m c t p ->
  word m COND = g_reg c - g_claimed c - g_trans c ->
  pstep m t p = (m', p') ->
  (forall q, wait_ctx p = Some (q, WPYield YPAsleep) -> blocked m t = false) ->
  step1_goal m V g c t p m' p'.
Proof.
  intros I HV L Hcnt E Hb.
  destruct p as [| s | c0 kp].
  - cbn in E. injection E as <- <-. unfold step1_goal.
    eapply Inv1_ext; [|exact I]. intros u. unfold upd. destruct (Nat.eqb_spec u t) as [->|]; auto.
  - destruct L as [[] _ _ _ _ _ _].
  - destruct kp as [| a | q lp | q wp | q up | q cnt wc kp].
    + eapply step1_start; eauto.
    + destruct (plain_client c0) eqn:P; [eapply step1_acc_plain; eauto|].
      pose proof (l0_shape _ _ _ _ L) as [Hc _].
      destruct c0; try discriminate P; destruct a as [i v|i|q d mo|q d mo|q v mo|q mo]; try discriminate Hc.
      * destruct (okb_cw2 _ _ _ _ _ Hc) as (-> & -> & ->). eapply step1_reg; eauto.
      * destruct (okb_cs2 _ _ _ _ _ _ Hc) as (-> & -> & ->). eapply step1_sig; eauto.
      * destruct (okb_cb2 _ _ _ _ _ _ Hc) as (-> & -> & ->). eapply step1_bc; eauto.
      * destruct (okb_cs3 _ _ _ _ _ _ Hc) as (-> & -> & ->). eapply step1_untrans; eauto.
    + destruct lp as [|wp].
      * eapply step1_lsub; eauto.
      * eapply step1_lockwait; eauto. intros ->. eapply Hb. reflexivity.
    + eapply step1_condwait; eauto. intros ->. eapply Hb. reflexivity.
    + eapply step1_unlock; eauto.
    + eapply step1_wake; eauto.
Qed.

Lemma ready_asleep x t q : sim x -> status_of (base x) t = SReady ->
  wait_ctx (ph x t) = Some (q, WPYield YPAsleep) -> blocked (mem (base x)) t = false.
Proof.
  intros S R W. unfold status_of in R. destruct (t <? nthr (base x))%nat; [|discriminate R].
  rewrite (S t) in R. destruct (ph x t) as [| s |c0 kp]; try discriminate W.
  destruct kp as [| a | q0 lp | q0 wp0 | q0 up | q0 cnt wc kp]; try discriminate W.
  - destruct lp as [|wp0]; try discriminate W. cbn in W. injection W as -> ->.
    cbn in R. destruct (blocked (mem (base x)) t); [discriminate R|reflexivity].
  - cbn in W. injection W as -> ->.
    cbn in R. destruct (blocked (mem (base x)) t); [discriminate R|reflexivity].
Qed.

Lemma ix_init progs : IX (iinit progs).
Proof.
  unfold IX. cbn [iinit base ph kg cg mem init].
  split.
  - constructor.
    + intros t q H. destruct q as [|[|q]]; discriminate H.
    + intros t q wp H. discriminate H.
    + intros t q cnt wc kp H. discriminate H.
    + intros q Hq. destruct q as [|[|q]]; try discriminate Hq; cbn; repeat split; try lia; intros u Q; discriminate Q.
    + intros q Hq. unfold chain. cbn. constructor; [intros []|constructor].
    + intros q n Hq. unfold chain. cbn. intros [<-|[]]. destruct Hq as [->|[->| ->]]; cbn; split; auto; discriminate.
    + intros q Hq. reflexivity.
    + intros q a b Hq [l1 [l2 E]]. unfold chain in E. cbn in E. destruct l1 as [|? [|? ?]]; discriminate E.
    + intros q Hq. reflexivity.
    + intros q e n Hq [].
    + intros q Hq. constructor.
    + intros q e Hq H. discriminate H.
    + intros u q cnt wc w H. discriminate H.
    + intros t q wp H. discriminate H.
    + intros t. cbn. auto.
    + intros t. exact Logic.I.
    + intros t Hf. cbn. replace (3 + 1 + t)%nat with (S (S (S (S t)))) by lia. reflexivity.
    + intros t _. cbn. lia.
    + intros t q H. discriminate H.
    + intros t q q' ip H. discriminate H.
    + intros t. constructor; cbn; intros; try discriminate; auto.
  - constructor; cbn.
    + intros t H. discriminate H.
    + intros _. auto.
    + intros t cnt wc w H. discriminate H.
    + reflexivity.
    + constructor.
    + intros t. split; [intros []|intros [Q _]; discriminate Q].
Qed.

Lemma ix_step x t : Inv0 x -> IX x -> status_of (base x) t = SReady -> IX (lstep x t).
Proof.
  intros I0 I R. unfold IX in *.
  pose proof (i0_sim _ I0) as S.
  rewrite (lstep_mem x t S). cbn [lstep ph kg cg].
  destruct (pstep (mem (base x)) t (ph x t)) as [m' p'] eqn:E. cbn [fst snd].
  eapply Inv1_ext.
  2:{ apply (step1 (mem (base x)) (fun u => view_of (ph x u)) (kg x) (cg x) t (ph x t) m' p'); auto.
      - apply (i0_loc _ I0 t).
      - apply (i0_count _ I0).
      - intros q W. eapply ready_asleep; eauto. }
  intros u. unfold upd. destruct (u =? t)%nat; reflexivity.
Qed.

Theorem inv_reach progs x : ireach progs x -> Inv0 x /\ IX x.
Proof.
  induction 1 as [|x t R [I0 I] St].
  - split; [apply inv0_init|apply ix_init].
  - split; [apply inv0_step; auto|apply ix_step; auto].
Qed.
Print Assumptions inv_reach.
