(* C05 proofs, part 4: every step of the instrumented machine preserves the
   invariant of CondInv.v (glue between the phases of CondPhase.v and the
   effect lemmas). *)
From Coq Require Import List ZArith Lia Bool Arith.
From LF Require Import Conc T1K Cond CondPhase CondProofs CondInv.
Import ListNotations.
Local Open Scope Z_scope.

(* the ghost updates of a wake position *)
Definition gk_wake (m : kmem) (t q : nat) (kp : wakepos) (g : gk) : gk :=
  match kp with
  | KPSetHead h nx =>
      set_nown (set_hand (set_gq g q (tl (gq g q))) q (option_map fst (hd_error (gq g q)))) h (OPop t)
  | KPOut h => set_nown g h (OThread (tid_of_name (ndata m h)))
  | _ => match sched_of m kp with Some f => sched_g g q f | None => g end
  end.

Definition gc_wake (m : kmem) (t q : nat) (kp : wakepos) (c : gc) : gc :=
  match sched_of m kp with
  | Some f =>
      if (q =? COND)%nat
      then {| g_reg := g_reg c; g_claimed := g_claimed c; g_rel := g_rel c + 1; g_trans := g_trans c;
              gwl := remove_nat f (gwl c); myclaim := myclaim c; myrel := upd (myrel c) t (myrel c t + 1) |}
      else c
  | None => c
  end.

Definition res_pos (res : wres) : vwpos := match res with WCont _ kp' => VP kp' | _ => VDone end.

Lemma h1_unique m V g t u : KInv m V g -> v_h1 (V t) = true -> u <> t -> v_h1 (V u) = false.
Proof.
  intros I Ht Hu. destruct (v_h1 (V u)) eqn:E; auto. exfalso.
  pose proof (tk_hold _ _ _ I t 1%nat Ht) as A. pose proof (tk_hold _ _ _ I u 1%nat E) as B. congruence.
Qed.

Lemma wake_cnt_pos m V g c t q cnt wc kp :
  Inv1 m V g c -> v_wake (V t) = Some (q, cnt, wc, VP kp) -> wc < cnt /\ 0 <= wc.
Proof.
  intros [I C] Hw. destruct (w_wake _ (l_wf _ _ _ I t) _ _ _ _ Hw) as (Hq & _ & Hm).
  destruct Hq as [->|[->| ->]].
  - destruct (tk_pass _ _ _ I t _ _ _ _ Hw eq_refl) as [_ ->]. rewrite (Hm eq_refl). lia.
  - destruct (tk_pass _ _ _ I t _ _ _ _ Hw eq_refl) as [_ ->]. rewrite (Hm eq_refl). lia.
  - destruct (cn_wc _ _ _ C t _ _ _ Hw) as (A & B & _). lia.
Qed.

(* the old stub, owned by the consumer, receives the popped data *)
Lemma k_copy m V g t q cnt wc h d :
  KInv m V g -> v_wake (V t) = Some (q, cnt, wc, VP (KPCopy h d)) ->
  KInv (set_ndata m h d) (upd V t (set_vwake (V t) (Some (q, cnt, wc, VP (KPOut h))))) g.
Proof.
  intros I Hw. pose proof (l_wf _ _ _ I t) as Wt.
  destruct (l_pop _ _ _ I t _ _ _ _ Hw) as (Lo & Lh & e & Le & Ld).
  assert (P : mpriv t g m (set_ndata m h d)).
  { constructor; auto. intros n A B. cbn. rewrite upd_other; auto. intros ->. contradiction. }
  apply (inv_private m _ V g t _ I P).
  - eapply vwf_set_wake; eauto.
  - left; reflexivity.
  - left; reflexivity.
  - intros Hf. apply (l_own _ _ _ I t Hf).
  - intros q0. exact (tk_hold _ _ _ I t q0).
  - intros q0 wp. exact (tk_got _ _ _ I t q0 wp).
  - cbn. intros q0 cnt0 wc0 kp0 E M. inversion E; subst. eapply (tk_pass _ _ _ I t); eauto.
  - intros q0 a b A. cbn. exact A.
  - intros q0 wp A B C. cbn. eauto.
  - intros q0 cnt0 wc0 w0 A B. rewrite Hw in A. inversion A; subst. cbn. eauto.
  - cbn. intros q0 cnt0 wc0 w0 E. inversion E; subst. cbn. rewrite upd_same. repeat split; auto. exists e. auto.
  - intros q0 wp Hwt. cbn in Hwt.
    assert (wp = WPYield (YPMaint UMUTEX IPAdd)) by (eapply (w_maint _ Wt); eauto; right; congruence).
    subst wp. exact Logic.I.
  - exact (l_acct _ _ _ I t).
  - exact (l_stat _ _ _ I t).
  - exact (l_node _ _ _ I t).
  - exact (l_slot _ _ _ I t).
  - exact (l_maint _ _ _ I t).
Qed.

Definition gc_sched (c : gc) (t q f : nat) : gc :=
  if (q =? COND)%nat
  then {| g_reg := g_reg c; g_claimed := g_claimed c; g_rel := g_rel c + 1; g_trans := g_trans c;
          gwl := remove_nat f (gwl c); myclaim := myclaim c; myrel := upd (myrel c) t (myrel c t + 1) |}
  else c.

Lemma sched_inv m V g c t q cnt wc f (rd : bool) :
  Inv1 m V g c -> v_wake (V t) = Some (q, cnt, wc, VP (if rd then KPReady f else KPState f)) ->
  wc < cnt -> 0 <= wc ->
  Inv1 (wake (if rd then set_fstate m f ST_READY else m) f)
       (upd V t (set_vwake (V t) (Some (q, cnt, wc + 1, res_pos (wloop cnt (wc + 1))))))
       (sched_g g q f) (gc_sched c t q f).
Proof.
  intros [I C] Hw Hlt Hge.
  pose proof (l_wf _ _ _ I t) as Wt.
  destruct (w_wake _ Wt _ _ _ _ Hw) as (Hq & Hcq & Hmq).
  assert (Lh : hand g q = Some f).
  { pose proof (l_pop _ _ _ I t _ _ _ _ Hw) as L. destruct rd; cbn in L; tauto. }
  destruct (q_hand _ _ _ I q f Hq Lh) as (Fg & _ & (fwp & Fw & Fa) & _).
  assert (Hft : f <> t) by (eapply wake_not_wait_same; eauto).
  destruct (w_wait _ (l_wf _ _ _ I f) _ _ Fw) as (_ & _ & FL1 & FL2 & _).
  assert (Wl : res_pos (wloop cnt (wc + 1)) = VP KPHead /\ wc + 1 < cnt \/
               res_pos (wloop cnt (wc + 1)) = VDone /\ wc + 1 = cnt).
  { unfold wloop. destruct (wc + 1 <? cnt) eqn:L; cbn; [left|right]; split; auto.
    - now apply Z.ltb_lt. - apply Z.ltb_ge in L. lia. }
  split.
  - apply k_sched; auto.
    + destruct Wl as [[-> _]|[-> _]]; auto.
    + intros Mq. rewrite (Hmq Mq) in *. destruct (tk_pass _ _ _ I t _ _ _ _ Hw Mq) as [_ ->].
      destruct Wl as [[_ L]|[-> _]]; auto; try lia.
  - unfold gc_sched. destruct (Nat.eqb_spec q COND) as [->|Hn].
    + destruct (Hcq eq_refl) as [Hh1 _].
      assert (Fc : v_cw3 (V f) = true).
      { destruct (v_lockw (V f)) eqn:El; [destruct (FL1 eq_refl) as [Q _]; discriminate Q|destruct (FL2 eq_refl); auto]. }
      eapply c_sched_cond; eauto.
      * intros u Hu. eapply h1_unique; eauto.
      * destruct Wl as [[-> L]|[-> L]]; auto.
    + assert (Mq : is_mutex q = true) by (destruct Hq as [->|[->| ->]]; auto; contradiction).
      assert (Fc : v_cw3 (V f) = false).
      { destruct (v_lockw (V f)) eqn:El; [destruct (FL1 eq_refl); auto|destruct (FL2 eq_refl) as [Q _]; contradiction]. }
      apply c_sched_mutex; auto.
      * unfold vout. cbn. rewrite Hw. destruct Hq as [->|[->| ->]]; auto. contradiction.
      * cbn. intros cnt0 wc0 w0 Q. inversion Q; subst. contradiction.
Qed.

Lemma wake_inv m V g c t q cnt wc kp inm m1 res :
  Inv1 m V g c -> v_wake (V t) = Some (q, cnt, wc, VP kp) ->
  wake_step m t q cnt wc kp inm = (m1, res) -> res <> WJunk ->
  Inv1 m1 (upd V t (set_vwake (V t) (Some (q, cnt, wc_of res 0, res_pos res))))
       (gk_wake m t q kp g) (gc_wake m t q kp c).
Proof.
  intros [I C] Hw E NJ.
  destruct (wake_cnt_pos _ _ _ _ _ _ _ _ _ (conj I C) Hw) as [Hlt Hge].
  pose proof (l_wf _ _ _ I t) as Wt.
  destruct (w_wake _ Wt _ _ _ _ Hw) as (Hq & Hcq & Hmq).
  pose proof (l_pop _ _ _ I t _ _ _ _ Hw) as LP.
  assert (SIL : forall w', inhand w' = inhand (VP kp) -> pop_local m g t q w' ->
                (q = COND -> match w' with VP _ => True | VDone => wc = cnt end) ->
                Inv1 m (upd V t (set_vwake (V t) (Some (q, cnt, wc, w')))) g c).
  { intros w' A B D. split; [eapply k_wake_silent; eauto|].
    eapply cinv_wake_same; eauto. }
  assert (LOOP : wloop cnt wc = WCont wc KPHead).
  { unfold wloop. destruct (wc <? cnt) eqn:L; auto. apply Z.ltb_ge in L. lia. }
  destruct kp as [|h|h nx|h nx|h d|h|f|f|sp]; cbn [wake_step] in E.
  - inversion E; subst. cbn. apply SIL; cbn; auto.
  - cbn in LP. destruct LP as [-> LP].
    destruct (nnext m (qhead m q)) eqn:En.
    + assert (Hc : (0 <? cnt) = true) by (apply Z.ltb_lt; lia). rewrite Hc in E.
      inversion E; subst. cbn. apply SIL; cbn; auto.
    + inversion E; subst. cbn. apply SIL; cbn; auto; try (repeat split; auto; rewrite ?En; discriminate).
  - inversion E; subst. cbn [wc_of res_pos gk_wake gc_wake sched_of].
    destruct (k_sethead _ _ _ _ _ _ _ _ _ I Hw) as (e & rest & Eg & K). rewrite Eg. cbn [tl hd_error option_map fst].
    split; [exact K|]. eapply cinv_wake_same in C; eauto.
    + destruct C as [C1 C2 C3 C4 C5 C6]. constructor; auto.
    + intros _. exact Logic.I.
  - inversion E; subst. cbn. apply SIL; cbn; auto.
    cbn in LP. destruct LP as (L1 & L2 & L3 & e & L4 & L5). repeat split; auto. exists e. auto.
  - inversion E; subst. cbn [wc_of res_pos gk_wake gc_wake sched_of].
    split; [eapply k_copy; eauto|]. eapply cinv_wake_same; eauto. intros _. exact Logic.I.
  - inversion E; subst. cbn [wc_of res_pos gk_wake gc_wake sched_of].
    split; [exact (k_out _ _ _ _ _ _ _ _ I Hw)|].
    pose proof (cinv_wake_same V g c t q cnt wc (VP (KPOut h)) (VP (KPState (tid_of_name (ndata m h)))) C Hw (fun _ => Logic.I)) as C'.
    destruct C' as [C1 C2 C3 C4 C5 C6]. constructor; auto.
  - cbn in LP. destruct LP as (Lh & Lf).
    destruct (fstate m f =? ST_WAITING) eqn:Ef.
    + inversion E; subst. unfold gk_wake, gc_wake. cbn [sched_of]. rewrite Ef. cbn [wc_of res_pos].
      apply SIL; cbn; auto. repeat split; auto. now apply Z.eqb_eq.
    + unfold gk_wake, gc_wake. cbn [sched_of]. rewrite Ef. inversion E; subst.
      pose proof (sched_inv m V g c t q cnt wc f false (conj I C) Hw Hlt Hge) as S. cbn in S.
      assert (W1 : wc_of (wloop cnt (wc + 1)) 0 = wc + 1) by (unfold wloop; destruct (wc + 1 <? cnt); reflexivity).
      rewrite W1. exact S.
  - unfold gk_wake, gc_wake. cbn [sched_of]. inversion E; subst.
    pose proof (sched_inv m V g c t q cnt wc f true (conj I C) Hw Hlt Hge) as S. cbn in S.
    assert (W1 : wc_of (wloop cnt (wc + 1)) 0 = wc + 1) by (unfold wloop; destruct (wc + 1 <? cnt); reflexivity).
    rewrite W1. exact S.
  - destruct sp as [|st].
    + inversion E; subst. cbn. apply SIL; cbn; auto.
    + destruct (waitingish st); inversion E; subst; [congruence|]. rewrite LOOP. cbn. apply SIL; cbn; auto.
Qed.

(* ------------------------------------------------------------------ *)
(* the invariant only reads the views pointwise *)
Lemma KInv_ext m V V' g : (forall u, V u = V' u) -> KInv m V g -> KInv m V' g.
Proof.
  intros E I. constructor.
  - intros t q. rewrite <- (E t). apply I.
  - intros t q wp. rewrite <- (E t). apply I.
  - intros t q cnt wc kp. rewrite <- (E t). apply I.
  - apply I.
  - apply I.
  - apply I.
  - apply I.
  - intros q a b Hq Hc. destruct (q_link _ _ _ I q a b Hq Hc) as [A|[A [u B]]]; auto.
    right. split; auto. exists u. now rewrite <- (E u).
  - apply I.
  - intros q e n Hq Hin. destruct (q_ent _ _ _ I q e n Hq Hin) as (A & B & wp & C & D).
    repeat split; auto. exists wp. now rewrite <- (E e).
  - apply I.
  - intros q e Hq Hh. destruct (q_hand _ _ _ I q e Hq Hh) as (A & B & (wp & C & D) & (u & cnt & wc & w & F & G)).
    repeat split; auto; [exists wp; now rewrite <- (E e)|exists u, cnt, wc, w; now rewrite <- (E u)].
  - intros u q cnt wc w. rewrite <- (E u). apply I.
  - intros t q wp. rewrite <- (E t). apply I.
  - intros t. rewrite <- (E t). apply I.
  - intros t. rewrite <- (E t). apply I.
  - apply I.
  - intros t. rewrite <- (E t). apply I.
  - intros t q. rewrite <- (E t). apply I.
  - intros t q q' ip. rewrite <- (E t). apply I.
  - intros t. rewrite <- (E t). apply I.
Qed.

Lemma CInv_ext V V' g c : (forall u, V u = V' u) -> CInv V g c -> CInv V' g c.
Proof.
  intros E I. constructor.
  - intros t. rewrite <- (E t). apply I.
  - intros F. apply (cn_free _ _ _ I). intros u. rewrite (E u). auto.
  - intros t cnt wc w. rewrite <- (E t). apply I.
  - apply I.
  - apply I.
  - intros t. rewrite <- (E t). apply I.
Qed.

Lemma Inv1_ext m V V' g c : (forall u, V u = V' u) -> Inv1 m V g c -> Inv1 m V' g c.
Proof. intros E [A B]. split; [eapply KInv_ext|eapply CInv_ext]; eauto. Qed.

(* ------------------------------------------------------------------ *)
(* a fiber that is not waiting moves to another view in which it is not waiting
   either and pops nothing (between the calls of its program) *)
Lemma nowait_nocw3 v : vwf v -> v_wait v = None -> v_cw3 v = false.
Proof.
  intros W H. destruct (v_cw3 v) eqn:E; auto. destruct (w_cw3 _ W E) as (wp & A & _). congruence.
Qed.

Lemma jump_inv m m' V g c t v' :
  Inv1 m V g c -> mpriv t g m m' -> vwf v' ->
  (fstate m' t = fstate m t \/ forall q, isq q -> hand g q <> Some t) ->
  fnode m' t = fnode m t -> pend m' t = pend m t -> blocked m' t = blocked m t ->
  v_wait (V t) = None -> v_wait v' = None -> v_wake v' = None ->
  (v_wake (V t) = None \/ exists q cnt wc, v_wake (V t) = Some (q, cnt, wc, VDone)) ->
  (forall q, vholds q v' = true -> tok g q = THeld t) ->
  (forall q, slot_mutex m' t = Some q -> False) ->
  (v_h1 v' = true -> g_trans c = (if v_trans v' then 1 else 0) /\ g_claimed c - g_rel c = 0) ->
  (v_h1 v' = false -> v_h1 (V t) = true -> g_trans c = 0 /\ g_claimed c = g_rel c) ->
  Inv1 m' (upd V t v') g c.
Proof.
  intros [I C] P W Hst Hfn Hpd Hbl Hw Hw' Hk' Hk Hh Hs Hc1 Hc2.
  pose proof (l_wf _ _ _ I t) as Wt.
  split.
  - apply (inv_private m m' V g t _ I P); auto.
    + destruct Hst as [A|A]; auto.
    + rewrite Hfn. apply (l_own _ _ _ I t).
    + intros q wp A. congruence.
    + intros q cnt wc kp A. congruence.
    + intros q a b A. congruence.
    + intros q wp A. congruence.
    + intros q cnt wc w A B. destruct Hk as [Q|(q0 & cnt0 & wc0 & Q)]; rewrite Q in A; [discriminate|].
      inversion A; subst. discriminate B.
    + intros q cnt wc w A. congruence.
    + intros q wp A. congruence.
    + rewrite Hw'. pose proof (l_acct _ _ _ I t) as A. rewrite Hw in A. cbn in *. rewrite Hpd, Hbl. exact A.
    + rewrite Hw'. exact Logic.I.
    + intros _. rewrite Hfn. apply (l_node _ _ _ I t). rewrite Hw. exact Logic.I.
    + intros q Q. destruct (Hs q Q).
    + intros q q' ip A. congruence.
  - apply cinv_view; auto.
    + intros H. destruct (Hc1 H) as [A B]. split; auto. unfold vout. rewrite Hk'. exact B.
    + intros cnt wc w A. congruence.
    + rewrite (nowait_nocw3 _ W Hw'), (nowait_nocw3 _ Wt Hw). tauto.
Qed.

(* ------------------------------------------------------------------ *)
(* glue: one lemma per kind of kernel position *)
Definition IX (x : ist) : Prop :=
  Inv1 (mem (base x)) (fun u => view_of (ph x u)) (kg x) (cg x).

Lemma start_ok p k : phase_ok (phase_of_start (start p k)) /\ maint_cw3 (phase_of_start (start p k)) /\
  v_wait (view_of (phase_of_start (start p k))) = None /\ v_wake (view_of (phase_of_start (start p k))) = None /\
  v_h0 (view_of (phase_of_start (start p k))) = false /\ v_h1 (view_of (phase_of_start (start p k))) = false /\
  v_trans (view_of (phase_of_start (start p k))) = false.
Proof.
  destruct p as [|o p']; [cbn; repeat split; auto; intros ? ? Q; discriminate Q|].
  destruct o; cbn; repeat split; auto; intros ? ? Q; inversion Q; subst; discriminate.
Qed.

Lemma noslot m V g t : KInv m V g -> v_cw3 (V t) = false -> forall q, slot_mutex m t = Some q -> False.
Proof. intros I H q Q. destruct (l_slot _ _ _ I t q Q) as (_ & A & _). congruence. Qed.

Lemma nohand m V g t : KInv m V g -> v_wait (V t) = None -> forall q, isq q -> hand g q <> Some t.
Proof.
  intros I H q Hq Q. destruct (q_hand _ _ _ I q t Hq Q) as (_ & _ & (wp & A & _) & _). congruence.
Qed.

(* leaving the kernel towards the start of the next call of the program *)
Lemma to_start m m' V g c t p k :
  Inv1 m V g c -> mpriv t g m m' ->
  (fstate m' t = fstate m t \/ forall q, isq q -> hand g q <> Some t) ->
  fnode m' t = fnode m t -> pend m' t = pend m t -> blocked m' t = blocked m t ->
  slot_mutex m' t = slot_mutex m t ->
  v_wait (V t) = None ->
  (v_wake (V t) = None \/ exists q cnt wc, v_wake (V t) = Some (q, cnt, wc, VDone)) ->
  (v_h1 (V t) = true -> g_trans c = 0 /\ g_claimed c = g_rel c) ->
  Inv1 m' (upd V t (view_of (phase_of_start (start p k)))) g c.
Proof.
  intros I P Hst Hfn Hpd Hbl Hsl Hw Hk Hc.
  destruct (start_ok p k) as (A1 & A2 & A3 & A4 & A5 & A6 & A7).
  destruct I as [I C].
  apply (jump_inv m m' V g c t); auto.
  - split; auto.
  - apply view_wf; auto.
  - intros [|[|q]] Q; cbn [vholds] in Q; rewrite ?A5, ?A6 in Q; discriminate Q.
  - rewrite Hsl. eapply noslot; eauto. apply nowait_nocw3; auto. apply I.
  - intros Q. congruence.
Qed.

Definition step1_goal (m : kmem) (V : nat -> view) (g : gk) (c : gc) (t : nat) (p : phase) (m' : kmem) (p' : phase) : Prop :=
  Inv1 m' (upd V t (view_of p')) (gk_step m t p g) (gc_step m t p c).

Lemma mpriv_fstate t g m v : mpriv t g m (set_fstate m t v).
Proof. constructor; auto. intros u Hu. cbn. now rewrite upd_other. Qed.
Lemma mpriv_cell t g m i v : mpriv t g m (set_cell m i v).
Proof. constructor; auto. Qed.
Lemma mpriv_wordc t g m v : mpriv t g m (set_word m COND v).
Proof. constructor; auto. intros q Hq. cbn. rewrite upd_other; auto. intros ->. discriminate Hq. Qed.

Lemma step1_start m V g c t c0 m' p' :
  Inv1 m V g c -> V t = view_of (PRun c0 KStart) -> linv0 m c t (PRun c0 KStart) ->
  pstep m t (PRun c0 KStart) = (m', p') ->
  step1_goal m V g c t (PRun c0 KStart) m' p'.
Proof.
  intros I HV [[Hc Hk] B H1 H2 H3 H4 H5] E. unfold step1_goal.
  destruct c0; try discriminate Hc. cbn in E. inversion E; subst.
  assert (G1 : gk_step m t (PRun (CNext p k) KStart) g = g) by reflexivity.
  assert (G2 : gc_step m t (PRun (CNext p k) KStart) c = c) by reflexivity.
  rewrite G1, G2. cbn in HV.
  apply (to_start m); auto.
  - apply mpriv_fstate.
  - right. eapply nohand; [apply I|]. now rewrite HV.
  - now rewrite HV.
  - left. now rewrite HV.
  - rewrite HV. discriminate.
Qed.

Lemma maint_cw3_nowait p : v_wait (view_of p) = None -> maint_cw3 p.
Proof. intros H q wp Q. unfold view_of in H. cbn in H. rewrite Q in H. discriminate. Qed.

(* between two calls, keeping the mutexes held *)
Lemma jump_hold m m' V g c t p' :
  Inv1 m V g c -> mpriv t g m m' ->
  fstate m' t = fstate m t -> fnode m' t = fnode m t -> pend m' t = pend m t -> blocked m' t = blocked m t ->
  slot_mutex m' t = slot_mutex m t ->
  phase_ok p' ->
  v_wait (V t) = None -> v_wake (V t) = None -> v_trans (V t) = false ->
  v_wait (view_of p') = None -> v_wake (view_of p') = None -> v_trans (view_of p') = false ->
  v_h0 (view_of p') = v_h0 (V t) -> v_h1 (view_of p') = v_h1 (V t) ->
  Inv1 m' (upd V t (view_of p')) g c.
Proof.
  intros I P Hst Hfn Hpd Hbl Hsl Hok Hw Hk Ht Hw' Hk' Ht' Eh0 Eh1.
  pose proof I as [K C].
  assert (HO : v_h1 (V t) = true -> g_trans c = 0 /\ g_claimed c - g_rel c = 0).
  { intros H. destruct (cn_hold _ _ _ C t H) as [A B]. rewrite Ht in A. unfold vout in B. rewrite Hk in B. auto. }
  apply (jump_inv m m' V g c t); auto.
  - apply view_wf; auto. now apply maint_cw3_nowait.
  - intros [|[|q]] Q; cbn [vholds] in Q; try discriminate Q.
    + apply (tk_hold _ _ _ K t 0%nat). cbn. congruence.
    + apply (tk_hold _ _ _ K t 1%nat). cbn. congruence.
  - rewrite Hsl. eapply noslot; eauto. apply nowait_nocw3; auto. apply K.
  - rewrite Ht', Eh1. exact HO.
  - intros A B. destruct (HO B). split; auto. lia.
Qed.

Ltac plain_jump m HV :=
  apply (jump_hold m); auto;
  try apply mpriv_cell; try apply mpriv_refl; try apply mpriv_wordc;
  try (cbn; repeat split; auto; fail); try (rewrite HV; reflexivity).

Lemma step1_acc_plain m V g c t c0 a m' p' :
  Inv1 m V g c -> V t = view_of (PRun c0 (KAcc a)) -> linv0 m c t (PRun c0 (KAcc a)) ->
  pstep m t (PRun c0 (KAcc a)) = (m', p') -> plain_client c0 = true ->
  step1_goal m V g c t (PRun c0 (KAcc a)) m' p'.
Proof.
  intros I HV [[Hc Hk] B H1 H2 H3 H4 H5] E P. unfold step1_goal.
  assert (G1 : gk_step m t (PRun c0 (KAcc a)) g = g) by reflexivity.
  assert (G2 : gc_step m t (PRun c0 (KAcc a)) c = c) by (destruct c0; try discriminate P; reflexivity).
  rewrite G1, G2.
  destruct c0; try discriminate P; destruct a as [i v|i|q d mo|q d mo|q v mo|q mo]; try discriminate Hc;
    cbn in E; cbn in HV.
  - (* CIn *) destruct o; try discriminate Hc; cbn in E; injection E as <- <-; plain_jump m HV.
  - (* CFlag *) unfold creturn in E; cbn in E. destruct (cell m i =? 0); injection E as <- <-; plain_jump m HV.
  - (* CW1 *) injection E as <- <-; plain_jump m HV.
  - (* CUnl *) injection E as <- <-; plain_jump m HV.
  - (* CRb *) injection E as <- <-; plain_jump m HV.
  - (* CRd *) injection E as <- <-. apply (to_start m); auto; try (apply mpriv_refl); rewrite HV; cbn; auto. discriminate.
Qed.

Lemma hand_none_cond m V g t : KInv m V g -> v_h1 (V t) = true -> v_wake (V t) = None -> hand g COND = None.
Proof.
  intros I H1 Hk. destruct (hand g COND) as [e|] eqn:E; auto. exfalso.
  destruct (q_hand _ _ _ I COND e (or_intror (or_intror eq_refl)) E) as (_ & _ & _ & (u & cnt & wc & w & A & B)).
  destruct (w_wake _ (l_wf _ _ _ I u) _ _ _ _ A) as (_ & Hc & _). destruct (Hc eq_refl) as [Hu _].
  destruct (Nat.eq_dec u t) as [->|Hne]; [congruence|].
  rewrite (h1_unique _ _ _ _ _ I H1 Hne) in Hu. discriminate.
Qed.

(* CW2: the waiter registers, and starts wait_in_mpsc_queue_and_unlock *)
Lemma step1_reg m V g c t p k m' p' :
  Inv1 m V g c -> V t = view_of (PRun (CW2 p k) (KAcc (AWFAdd COND 1 3))) ->
  pstep m t (PRun (CW2 p k) (KAcc (AWFAdd COND 1 3))) = (m', p') ->
  step1_goal m V g c t (PRun (CW2 p k) (KAcc (AWFAdd COND 1 3))) m' p'.
Proof.
  intros [I C] HV E. unfold step1_goal. cbn in E. injection E as <- <-. cbn in HV.
  assert (G1 : gk_step m t (PRun (CW2 p k) (KAcc (AWFAdd COND 1 3))) g = g) by reflexivity.
  rewrite G1. cbn [gc_step].
  set (m' := set_slot_mutex (set_word m COND (word m COND + 1)) t (Some UMUTEX)).
  set (v' := view_of (PRun (CW3 p k) (KWait COND WPSaving))).
  pose proof (l_acct _ _ _ I t) as At. rewrite HV in At. cbn in At. destruct At as (Ag & Ap & Ab).
  assert (P : mpriv t g m m').
  { constructor; auto.
    - intros u Hu. cbn. now rewrite upd_other.
    - intros q Hq. cbn. rewrite upd_other; auto. intros ->. discriminate Hq. }
  assert (W' : vwf v') by (apply view_wf; [cbn; auto|intros q wp Q; inversion Q; subst; discriminate]).
  split.
  - apply (inv_private m m' V g t v' I P W').
    + left; reflexivity.
    + left; reflexivity.
    + apply (l_own _ _ _ I t).
    + intros [|[|q]] Q; cbn in Q; try discriminate Q. apply (tk_hold _ _ _ I t 0%nat). rewrite HV. reflexivity.
    + intros q wp _ Q. discriminate Q.
    + intros q cnt wc kp Q. discriminate Q.
    + intros q a b Q. rewrite HV in Q. discriminate Q.
    + intros q wp Q. rewrite HV in Q. discriminate Q.
    + intros q cnt wc w Q. rewrite HV in Q. discriminate Q.
    + intros q cnt wc w Q. discriminate Q.
    + intros q wp Q. inversion Q; subst. exact Logic.I.
    + cbn. auto.
    + exact Logic.I.
    + intros _. apply (l_node _ _ _ I t). rewrite HV. exact Logic.I.
    + intros q Q. cbn in Q. rewrite upd_same in Q. inversion Q; subst. repeat split; auto. exists WPSaving. auto.
    + intros q q' ip Q. discriminate Q.
  - constructor; cbn [g_reg g_claimed g_rel g_trans gwl myclaim myrel].
    + intros u. vcase u t; [cbn; discriminate|apply C].
    + intros F. apply (cn_free _ _ _ C). intros u. specialize (F u). vcase u t; [rewrite HV; reflexivity|exact F].
    + intros u cnt wc w. vcase u t; [cbn; discriminate|apply C].
    + cbn [length]. pose proof (cn_len _ _ _ C). lia.
    + constructor; [|apply C]. intros Q. apply (cn_wl _ _ _ C t) in Q. rewrite HV in Q. destruct Q as [Q _]. discriminate Q.
    + intros u. cbn [In]. vcase u t.
      * cbn. split; auto.
      * rewrite <- (cn_wl _ _ _ C u). split; [intros [Q|Q]; [congruence|auto]|auto].
Qed.

(* kernel part of a view change between two non-waiting views *)
Lemma k_nowait m m' V g t v' :
  KInv m V g -> mpriv t g m m' -> vwf v' ->
  (fstate m' t = fstate m t \/ forall q, isq q -> hand g q <> Some t) ->
  fnode m' t = fnode m t -> pend m' t = pend m t -> blocked m' t = blocked m t ->
  v_wait (V t) = None -> v_wait v' = None ->
  (v_wake (V t) = None \/ exists q cnt wc, v_wake (V t) = Some (q, cnt, wc, VDone)) ->
  (forall q, vholds q v' = true -> tok g q = THeld t) ->
  (forall q cnt wc kp, v_wake v' = Some (q, cnt, wc, VP kp) -> is_mutex q = true -> tok g q = TPass t /\ wc = 0) ->
  (forall q cnt wc w, v_wake v' = Some (q, cnt, wc, w) -> pop_local m' g t q w) ->
  (forall q, slot_mutex m' t = Some q -> False) ->
  KInv m' (upd V t v') g.
Proof.
  intros I P W Hst Hfn Hpd Hbl Hw Hw' Hk Hh Hp Hl Hs.
  apply (inv_private m m' V g t _ I P); auto.
  - destruct Hst as [A|A]; auto.
  - rewrite Hfn. apply (l_own _ _ _ I t).
  - intros q wp A. congruence.
  - intros q a b A. congruence.
  - intros q wp A. congruence.
  - intros q cnt wc w A B. destruct Hk as [Q|(q0 & cnt0 & wc0 & Q)]; rewrite Q in A; [discriminate|].
    inversion A; subst. discriminate B.
  - intros q wp A. congruence.
  - rewrite Hw'. pose proof (l_acct _ _ _ I t) as A. rewrite Hw in A. cbn in *. rewrite Hpd, Hbl. exact A.
  - rewrite Hw'. exact Logic.I.
  - intros _. rewrite Hfn. apply (l_node _ _ _ I t). rewrite Hw. exact Logic.I.
  - intros q Q. destruct (Hs q Q).
  - intros q q' ip A. congruence.
Qed.

Lemma holds_from m V g t v' : KInv m V g ->
  (v_h0 v' = true -> v_h0 (V t) = true) -> (v_h1 v' = true -> v_h1 (V t) = true) ->
  forall q, vholds q v' = true -> tok g q = THeld t.
Proof.
  intros I A B [|[|q]] Q; cbn [vholds] in Q; try discriminate Q.
  - apply (tk_hold _ _ _ I t 0%nat). cbn. auto.
  - apply (tk_hold _ _ _ I t 1%nat). cbn. auto.
Qed.

(* CS2: the fetch_sub of a signal: claim one waiter or go transient *)
Lemma step1_sig m V g c t um p k m' p' :
  Inv1 m V g c -> V t = view_of (PRun (CS2 um p k) (KAcc (AWFSub COND 1 5))) ->
  pstep m t (PRun (CS2 um p k) (KAcc (AWFSub COND 1 5))) = (m', p') ->
  step1_goal m V g c t (PRun (CS2 um p k) (KAcc (AWFSub COND 1 5))) m' p'.
Proof.
  intros [I C] HV E. unfold step1_goal. cbn [pstep] in E. unfold creturn in E. cbn [cret] in E.
  assert (G1 : gk_step m t (PRun (CS2 um p k) (KAcc (AWFSub COND 1 5))) g = g) by reflexivity.
  rewrite G1. cbn [gc_step]. cbn in HV.
  assert (Hh1 : v_h1 (V t) = true) by (rewrite HV; reflexivity).
  destruct (cn_hold _ _ _ C t Hh1) as [T O]. rewrite HV in T, O. cbn in T, O.
  assert (UQ : forall u, u <> t -> v_h1 (V u) = false) by (intros; eapply h1_unique; eauto).
  assert (HN : hand g COND = None) by (eapply hand_none_cond; eauto; rewrite HV; reflexivity).
  assert (P : mpriv t g m (set_word m COND (word m COND - 1))) by apply mpriv_wordc.
  assert (NS : forall q, slot_mutex (set_word m COND (word m COND - 1)) t = Some q -> False).
  { cbn. eapply noslot; eauto. rewrite HV. reflexivity. }
  assert (EQ : (0 <=? word m COND - 1) = (1 <=? word m COND)).
  { destruct (0 <=? word m COND - 1) eqn:A; destruct (1 <=? word m COND) eqn:B; auto;
      [apply Z.leb_le in A; apply Z.leb_gt in B|apply Z.leb_gt in A; apply Z.leb_le in B]; lia. }
  rewrite EQ in E. destruct (1 <=? word m COND) eqn:Ew; cbn in E; injection E as <- <-.
  - (* claim *)
    set (v' := view_of (PRun (CS3 um p k) (KWake COND 1 0 KPHead))).
    assert (W' : vwf v') by (apply view_wf; [cbn; auto|apply maint_cw3_nowait; reflexivity]).
    split.
    + apply (k_nowait m _ V g t v' I P W'); auto.
      * now rewrite HV.
      * left. now rewrite HV.
      * apply (holds_from _ _ _ _ _ I); rewrite HV; cbn; auto.
      * intros q cnt wc kp Q M. inversion Q; subst. discriminate M.
      * intros q cnt wc w Q. inversion Q; subst. exact HN.
    + unfold set_myclaim. apply (cinv_gc V g c _ t v' C UQ); cbn [g_reg g_claimed g_rel g_trans gwl myclaim myrel].
      * intros _. split; [exact T|]. cbn. lia.
      * intros Q. discriminate Q.
      * intros cnt wc w Q. inversion Q; subst. rewrite !upd_same. repeat split; lia.
      * intros u Hu. rewrite !upd_other by auto. auto.
      * apply C.
      * apply C.
      * tauto.
      * rewrite (cn_wl _ _ _ C t), HV. cbn. tauto.
  - (* nobody registered: transient *)
    set (v' := view_of (PRun (CS3 um p k) (KAcc (AWFAdd COND 1 5)))).
    assert (W' : vwf v') by (apply view_wf; [cbn; auto|apply maint_cw3_nowait; reflexivity]).
    split.
    + apply (k_nowait m _ V g t v' I P W'); auto.
      * now rewrite HV.
      * left. now rewrite HV.
      * apply (holds_from _ _ _ _ _ I); rewrite HV; cbn; auto.
      * intros q cnt wc kp Q. discriminate Q.
      * intros q cnt wc w Q. discriminate Q.
    + unfold set_myclaim. apply (cinv_gc V g c _ t v' C UQ); cbn [g_reg g_claimed g_rel g_trans gwl myclaim myrel].
      * intros _. cbn. split; lia.
      * intros Q. discriminate Q.
      * intros cnt wc w Q. discriminate Q.
      * intros u Hu. rewrite !upd_other by auto. auto.
      * apply C.
      * apply C.
      * tauto.
      * rewrite (cn_wl _ _ _ C t), HV. cbn. tauto.
Qed.

(* CB2: the exchange of a broadcast claims every registered waiter *)
Lemma step1_bc m V g c t um p k m' p' :
  Inv1 m V g c -> V t = view_of (PRun (CB2 um p k) (KAcc (AWXchg COND 0 2))) ->
  word m COND = g_reg c - g_claimed c - g_trans c ->
  pstep m t (PRun (CB2 um p k) (KAcc (AWXchg COND 0 2))) = (m', p') ->
  step1_goal m V g c t (PRun (CB2 um p k) (KAcc (AWXchg COND 0 2))) m' p'.
Proof.
  intros [I C] HV Hcnt E. unfold step1_goal. cbn [pstep] in E. unfold creturn in E. cbn [cret] in E.
  assert (G1 : gk_step m t (PRun (CB2 um p k) (KAcc (AWXchg COND 0 2))) g = g) by reflexivity.
  rewrite G1. cbn [gc_step]. cbn in HV.
  assert (Hh1 : v_h1 (V t) = true) by (rewrite HV; reflexivity).
  destruct (cn_hold _ _ _ C t Hh1) as [T O]. rewrite HV in T, O. cbn in T, O.
  assert (UQ : forall u, u <> t -> v_h1 (V u) = false) by (intros; eapply h1_unique; eauto).
  assert (HN : hand g COND = None) by (eapply hand_none_cond; eauto; rewrite HV; reflexivity).
  assert (P : mpriv t g m (set_word m COND 0)) by apply mpriv_wordc.
  assert (NS : forall q, slot_mutex (set_word m COND 0) t = Some q -> False).
  { cbn. eapply noslot; eauto. rewrite HV. reflexivity. }
  assert (Hv : 0 <= word m COND) by (pose proof (cn_len _ _ _ C); lia).
  destruct (word m COND =? 0) eqn:Ew; cbn in E; injection E as <- <-.
  - apply Z.eqb_eq in Ew.
    set (v' := view_of (PRun (CS4 um p k) (KUnlock IMUTEX UPAdd))).
    assert (W' : vwf v') by (apply view_wf; [cbn; auto|apply maint_cw3_nowait; reflexivity]).
    split.
    + apply (k_nowait m _ V g t v' I P W'); auto.
      * now rewrite HV.
      * left. now rewrite HV.
      * apply (holds_from _ _ _ _ _ I); rewrite HV; cbn; auto.
      * intros q cnt wc kp Q. discriminate Q.
      * intros q cnt wc w Q. discriminate Q.
    + unfold set_myclaim. apply (cinv_gc V g c _ t v' C UQ); cbn [g_reg g_claimed g_rel g_trans gwl myclaim myrel].
      * intros _. cbn. split; lia.
      * intros Q. discriminate Q.
      * intros cnt wc w Q. discriminate Q.
      * intros u Hu. rewrite !upd_other by auto. auto.
      * apply C.
      * apply C.
      * tauto.
      * rewrite (cn_wl _ _ _ C t), HV. cbn. tauto.
  - apply Z.eqb_neq in Ew.
    set (v' := view_of (PRun (CS3 um p k) (KWake COND (word m COND) 0 KPHead))).
    assert (W' : vwf v') by (apply view_wf; [cbn; auto|apply maint_cw3_nowait; reflexivity]).
    split.
    + apply (k_nowait m _ V g t v' I P W'); auto.
      * now rewrite HV.
      * left. now rewrite HV.
      * apply (holds_from _ _ _ _ _ I); rewrite HV; cbn; auto.
      * intros q cnt wc kp Q M. inversion Q; subst. discriminate M.
      * intros q cnt wc w Q. inversion Q; subst. exact HN.
    + unfold set_myclaim. apply (cinv_gc V g c _ t v' C UQ); cbn [g_reg g_claimed g_rel g_trans gwl myclaim myrel].
      * intros _. split; [exact T|]. cbn. lia.
      * intros Q. discriminate Q.
      * intros cnt wc w Q. inversion Q; subst. rewrite !upd_same. repeat split; lia.
      * intros u Hu. rewrite !upd_other by auto. auto.
      * apply C.
      * apply C.
      * tauto.
      * rewrite (cn_wl _ _ _ C t), HV. cbn. tauto.
Qed.

(* CS3: the fetch_add that undoes the fetch_sub of a signal that found nobody *)
Lemma step1_untrans m V g c t um p k m' p' :
  Inv1 m V g c -> V t = view_of (PRun (CS3 um p k) (KAcc (AWFAdd COND 1 5))) ->
  pstep m t (PRun (CS3 um p k) (KAcc (AWFAdd COND 1 5))) = (m', p') ->
  step1_goal m V g c t (PRun (CS3 um p k) (KAcc (AWFAdd COND 1 5))) m' p'.
Proof.
  intros [I C] HV E. unfold step1_goal. cbn in E. injection E as <- <-.
  assert (G1 : gk_step m t (PRun (CS3 um p k) (KAcc (AWFAdd COND 1 5))) g = g) by reflexivity.
  rewrite G1. cbn [gc_step]. cbn in HV.
  assert (Hh1 : v_h1 (V t) = true) by (rewrite HV; reflexivity).
  destruct (cn_hold _ _ _ C t Hh1) as [T O]. rewrite HV in T, O. cbn in T, O.
  assert (UQ : forall u, u <> t -> v_h1 (V u) = false) by (intros; eapply h1_unique; eauto).
  assert (P : mpriv t g m (set_word m COND (word m COND + 1))) by apply mpriv_wordc.
  assert (NS : forall q, slot_mutex (set_word m COND (word m COND + 1)) t = Some q -> False).
  { cbn. eapply noslot; eauto. rewrite HV. reflexivity. }
  set (v' := view_of (PRun (CS4 um p k) (KUnlock IMUTEX UPAdd))).
  assert (W' : vwf v') by (apply view_wf; [cbn; auto|apply maint_cw3_nowait; reflexivity]).
  split.
  - apply (k_nowait m _ V g t v' I P W'); auto.
    + now rewrite HV.
    + left. now rewrite HV.
    + apply (holds_from _ _ _ _ _ I); rewrite HV; cbn; auto.
    + intros q cnt wc kp Q. discriminate Q.
    + intros q cnt wc w Q. discriminate Q.
  - apply (cinv_gc V g c _ t v' C UQ); cbn [g_reg g_claimed g_rel g_trans gwl myclaim myrel].
    + intros _. cbn. split; lia.
    + intros Q. discriminate Q.
    + intros cnt wc w Q. discriminate Q.
    + intros u Hu. auto.
    + apply C.
    + apply C.
    + tauto.
    + rewrite (cn_wl _ _ _ C t), HV. cbn. tauto.
Qed.

(* ------------------------------------------------------------------ *)
(* ghost records that agree on what the invariant reads *)
Lemma KInv_gext m V g g' :
  (forall q, tok g' q = tok g q) -> (forall q, gw g' q = gw g q) ->
  gq g' = gq g -> hand g' = hand g -> nown g' = nown g -> got g' = got g ->
  KInv m V g -> KInv m V g'.
Proof.
  intros E1 E2 E3 E4 E5 E6 I.
  assert (CH : forall q, chain m g' q = chain m g q) by (intros; unfold chain; now rewrite E3).
  constructor; intros; rewrite ?CH, ?E1, ?E2, ?E3, ?E4, ?E5, ?E6 in *.
  - eapply (tk_hold _ _ _ I); eauto.
  - eapply (tk_got _ _ _ I); eauto.
  - eapply (tk_pass _ _ _ I); eauto.
  - destruct (tk_count _ _ _ I q H) as (A & B & C). repeat split; auto.
  - eapply (q_nodup _ _ _ I); eauto.
  - eapply (q_nodes _ _ _ I); eauto.
  - eapply (q_tail _ _ _ I); eauto.
  - eapply (q_link _ _ _ I); eauto.
  - eapply (q_last _ _ _ I); eauto.
  - eapply (q_ent _ _ _ I); eauto.
  - eapply (q_uniq _ _ _ I); eauto.
  - eapply (q_hand _ _ _ I); eauto.
  - pose proof (l_pop _ _ _ I u q cnt wc w H) as L. destruct w as [[]|]; cbn in *; rewrite ?E4, ?E5; exact L.
  - pose proof (l_push _ _ _ I t q wp H) as L. destruct wp; cbn in *; rewrite ?CH, ?E3, ?E5; exact L.
  - pose proof (l_acct _ _ _ I t) as L. unfold acct_local in *. rewrite E6. exact L.
  - eapply (l_stat _ _ _ I); eauto.
  - eapply (l_own _ _ _ I); eauto.
  - apply (l_node _ _ _ I t). unfold has_node in *. rewrite E6 in H. exact H.
  - eapply (l_slot _ _ _ I); eauto.
  - eapply (l_maint _ _ _ I); eauto.
  - eapply (l_wf _ _ _ I); eauto.
Qed.

Lemma CInv_gext V g g' c : got g' = got g -> CInv V g c -> CInv V g' c.
Proof.
  intros E I. constructor; try apply I. intros t. rewrite E. apply I.
Qed.

(* ------------------------------------------------------------------ *)
(* the fetch_sub of fiber_mutex_lock and the fetch_add of unlock_internal *)
Lemma lsub_succ_inv m V g c t q :
  Inv1 m V g c -> is_mutex q = true -> word m q - 1 = 0 ->
  Inv1 (set_word m q (word m q - 1)) V (set_tok g q (THeld t)) c.
Proof.
  intros [I C] Hq Hw.
  destruct (tk_count _ _ _ I q Hq) as (C1 & C2 & C3).
  assert (Hhv : hv (tok g q) = 0 /\ gw g q = 0) by (destruct (tok g q); cbn in *; lia).
  destruct Hhv as [Hhv Hgw].
  assert (NT : forall u, tok g q <> THeld u) by (intros u Q; rewrite Q in Hhv; discriminate).
  assert (NP : forall u, tok g q <> TPass u) by (intros u Q; specialize (C3 u Q); lia).
  split.
  - apply (KInv_gext _ _ (set_gw (set_tok g q (THeld t)) q (gw g q))); auto.
    { intros q0. cbn. unfold upd. destruct (q0 =? q)%nat eqn:Eq; auto. apply Nat.eqb_eq in Eq. now subst. }
    apply k_tok; auto.
    + cbn. repeat split; try lia. intros u Q. discriminate Q.
    + intros u H. exfalso. eapply NT. eapply (tk_hold _ _ _ I); eauto.
    + intros u wp A B D. exfalso. eapply NT. eapply (tk_got _ _ _ I); eauto.
    + intros u cnt wc kp A. exfalso. eapply NP. eapply (tk_pass _ _ _ I); eauto.
  - eapply CInv_gext; [|exact C]. reflexivity.
Qed.

Lemma lsub_fail_inv m V g c q :
  Inv1 m V g c -> is_mutex q = true ->
  Inv1 (set_word m q (word m q - 1)) V (set_gw g q (gw g q + 1)) c.
Proof.
  intros [I C] Hq.
  destruct (tk_count _ _ _ I q Hq) as (C1 & C2 & C3).
  split.
  - apply (KInv_gext _ _ (set_gw (set_tok g q (tok g q)) q (gw g q + 1))); auto.
    { intros q0. cbn. unfold upd. destruct (q0 =? q)%nat eqn:Eq; auto. apply Nat.eqb_eq in Eq. now subst. }
    apply k_tok; auto.
    + repeat split; try lia; intros u Q; specialize (C3 u Q); lia.
    + intros u H. eapply (tk_hold _ _ _ I); eauto.
    + intros u wp A B D. eapply (tk_got _ _ _ I); eauto.
    + intros u cnt wc kp A. eapply (tk_pass _ _ _ I); eauto.
  - eapply CInv_gext; [|exact C]. reflexivity.
Qed.

Lemma uadd_inv m V g c t q :
  Inv1 m V g c -> is_mutex q = true -> tok g q = THeld t ->
  vholds q (V t) = false ->
  (forall wp, v_wait (V t) = Some (q, wp) -> v_lockw (V t) = true -> got g t = false) ->
  Inv1 (set_word m q (word m q + 1)) V
       (set_tok g q (if word m q + 1 =? 1 then TFree else TPass t)) c.
Proof.
  intros [I C] Hq Ht Hh Hl.
  destruct (tk_count _ _ _ I q Hq) as (C1 & C2 & C3). rewrite Ht in C1. cbn in C1.
  set (k' := if word m q + 1 =? 1 then TFree else TPass t).
  split.
  - apply (KInv_gext _ _ (set_gw (set_tok g q k') q (gw g q))); auto.
    { intros q0. cbn. unfold upd. destruct (q0 =? q)%nat eqn:Eq; auto. apply Nat.eqb_eq in Eq. now subst. }
    apply k_tok; auto.
    + unfold k'. destruct (word m q + 1 =? 1) eqn:E; cbn.
      * apply Z.eqb_eq in E. repeat split; try lia. intros u Q. discriminate Q.
      * apply Z.eqb_neq in E. repeat split; try lia.
    + intros u H. exfalso. pose proof (tk_hold _ _ _ I u q H) as Q. rewrite Ht in Q. inversion Q; subst. congruence.
    + intros u wp A B D. exfalso. pose proof (tk_got _ _ _ I u q wp A B D) as Q. rewrite Ht in Q. inversion Q; subst.
      rewrite (Hl wp A B) in D. discriminate.
    + intros u cnt wc kp A. exfalso. destruct (tk_pass _ _ _ I u _ _ _ _ A Hq) as [Q _]. congruence.
  - eapply CInv_gext; [|exact C]. reflexivity.
Qed.

(* ------------------------------------------------------------------ *)
(* a waiting fiber moves to another position of its wait *)
Lemma k_waitpos m m' V g t q wp wp' :
  KInv m V g -> mpriv t g m m' ->
  v_wait (V t) = Some (q, wp) -> v_wake (V t) = None -> v_uadd (V t) = None -> norm_wp wp' = wp' ->
  (fstate m' t = fstate m t \/ fstate m' t = ST_WAITING \/ forall q, isq q -> hand g q <> Some t) ->
  (fnode m' t = fnode m t \/ forall q, isq q -> hand g q <> Some t) ->
  (fnode m' t <> O -> nown g (fnode m' t) = OThread t) ->
  (forall a b, wp <> WPLink a b) ->
  (afterx wp = true -> afterx wp' = true) ->
  push_local m' g t q wp' ->
  acct_local m' g t (Some (q, wp')) -> stat_local m' t (Some (q, wp')) ->
  (has_node g t (Some (q, wp')) -> fnode m' t <> O) ->
  (forall q0, slot_mutex m' t = Some q0 -> slot_mutex m t = Some q0 /\ (premaint wp = true -> premaint wp' = true)) ->
  (forall q' ip, wp' <> WPYield (YPMaint q' ip)) ->
  KInv m' (upd V t (set_vwait (V t) (Some (q, wp')))) g.
Proof.
  intros I P Hw Hk Hu Hn Hst Hfn Hown Hnl Hax Hpush Hacct Hstat Hnode Hslot Hnm.
  pose proof (l_wf _ _ _ I t) as Wt.
  apply (inv_private m m' V g t _ I P); auto.
  - eapply vwf_set_wait; eauto.
  - intros q0. exact (tk_hold _ _ _ I t q0).
  - cbn. intros q0 wp0 A B D. inversion A; subst. eapply (tk_got _ _ _ I t); eauto.
  - cbn. intros q0 cnt wc kp A. congruence.
  - intros q0 a b A. rewrite Hw in A. inversion A; subst. destruct (Hnl a b eq_refl).
  - intros q0 wp0 A B D. rewrite Hw in A. inversion A; subst. cbn. eauto.
  - intros q0 cnt wc w A. congruence.
  - cbn. intros q0 cnt wc w A. congruence.
  - cbn. intros q0 wp0 A. inversion A; subst. exact Hpush.
  - cbn. intros q0 Q. destruct (Hslot q0 Q) as [Q' Hp].
    destruct (l_slot _ _ _ I t q0 Q') as (A & B & wp0 & D & F). rewrite Hw in D. inversion D; subst.
    repeat split; auto. exists wp'. split; auto.
  - cbn. intros q0 q' ip A. inversion A; subst. destruct (Hnm q' ip eq_refl).
Qed.

Lemma cinv_waitpos V g c t q wp wp' :
  CInv V g c -> v_wait (V t) = Some (q, wp) -> vwf (V t) ->
  CInv (upd V t (set_vwait (V t) (Some (q, wp')))) g c.
Proof.
  intros C Hw W. destruct (w_wait _ W _ _ Hw) as (_ & _ & _ & _ & H1 & Tr).
  apply cinv_view; auto; cbn.
  - intros Q. congruence.
  - intros _ Q. congruence.
  - intros cnt wc w Q. apply (cn_wc _ _ _ C t); auto.
  - tauto.
Qed.

Definition gk_wait (t q : nat) (wp : waitpos) (g : gk) : gk :=
  match wp with
  | WPXchg n => set_nown (set_gq g q (gq g q ++ [(t, n)])) n (OList q)
  | _ => g
  end.

Definition simple_wp (wp : waitpos) : bool :=
  match wp with
  | WPYield YPMFlip | WPYield (YPMaint _ _) => false
  | _ => true
  end.

Lemma nohand_notafter m V g t q wp : KInv m V g -> v_wait (V t) = Some (q, wp) ->
  (afterx wp = false \/ got g t = true) -> forall q0, isq q0 -> hand g q0 <> Some t.
Proof.
  intros I Hw H q0 Hq0 Q. destruct (q_hand _ _ _ I q0 t Hq0 Q) as (G & _ & (wp0 & A & B) & _).
  rewrite Hw in A. inversion A; subst. destruct H; congruence.
Qed.

Ltac kw I Hw Hk Hu P :=
  apply (k_waitpos _ _ _ _ _ _ _ _ I P Hw Hk Hu); auto; try discriminate; try exact Logic.I;
  try (apply (l_own _ _ _ I _)); try (cbn; tauto).

Lemma wait_simple m V g c t q wp m1 wp' :
  Inv1 m V g c -> v_wait (V t) = Some (q, wp) -> v_wake (V t) = None -> v_uadd (V t) = None ->
  wait_step m t q wp = (m1, TCont wp') -> simple_wp wp = true ->
  (wp = WPYield YPAsleep -> blocked m t = false) ->
  (forall st, wp = WPYield (YPNext true st) -> waitingish st = false) ->
  Inv1 m1 (upd V t (set_vwait (V t) (Some (q, wp')))) (gk_wait t q wp g) c.
Proof.
  intros [I C] Hw Hk Hu E Hs Hb Hnt.
  pose proof (l_wf _ _ _ I t) as Wt.
  pose proof (l_push _ _ _ I t q wp Hw) as Lp.
  pose proof (l_acct _ _ _ I t) as La. rewrite Hw in La.
  pose proof (l_stat _ _ _ I t) as Ls. rewrite Hw in Ls.
  pose proof (l_node _ _ _ I t) as Ln. rewrite Hw in Ln.
  assert (CV : forall wp0, CInv (upd V t (set_vwait (V t) (Some (q, wp0)))) g c) by (intros; eapply cinv_waitpos; eauto).
  assert (SL : forall m0 wp0, slot_mutex m0 t = slot_mutex m t -> (premaint wp = true -> premaint wp0 = true) ->
               forall q0, slot_mutex m0 t = Some q0 -> slot_mutex m t = Some q0 /\ (premaint wp = true -> premaint wp0 = true)).
  { intros m0 wp0 A B q0 Q. rewrite A in Q. auto. }
  destruct wp as [| |n|n|a b|yp]; cbn [wait_step] in E.
  - (* WPSaving *) injection E as <- <-. cbn [gk_wait]. split; [|apply CV].
    cbn in La, Ln. destruct La as (Ag & Ap & Ab).
    assert (NH : forall q0, isq q0 -> hand g q0 <> Some t) by (eapply nohand_notafter; eauto).
    assert (A1 : acct_local (set_fstate m t ST_SAVING) g t (Some (q, WPData))) by (cbn; auto).
    assert (A2 : stat_local (set_fstate m t ST_SAVING) t (Some (q, WPData))) by (cbn; now rewrite upd_same).
    assert (A3 : has_node g t (Some (q, WPData)) -> fnode (set_fstate m t ST_SAVING) t <> O) by (intros _; apply Ln; left; reflexivity).
    pose proof (SL (set_fstate m t ST_SAVING) WPData eq_refl (fun _ => eq_refl)) as A4.
    kw I Hw Hk Hu (mpriv_fstate t g m ST_SAVING).
  - (* WPData *) injection E as <- <-. cbn [gk_wait]. split; [|apply CV].
    cbn in La, Ln, Ls. destruct La as (Ag & Ap & Ab).
    assert (Hn : fnode m t <> O) by (apply Ln; left; reflexivity).
    pose proof (l_own _ _ _ I t Hn) as Ho.
    set (m1 := set_fnode (set_ndata m (fnode m t) (fname t)) t 0%nat).
    assert (P : mpriv t g m m1).
    { constructor; auto.
      - intros n A B. cbn. rewrite upd_other; auto. intros ->. contradiction.
      - intros u Hu'. cbn. now rewrite upd_other. }
    assert (NH : forall q0, isq q0 -> hand g q0 <> Some t) by (eapply nohand_notafter; eauto).
    assert (A0 : fnode m1 t <> O -> nown g (fnode m1 t) = OThread t) by (cbn; rewrite upd_same; intros Q; congruence).
    assert (A1 : acct_local m1 g t (Some (q, WPNext (fnode m t)))) by (cbn; auto).
    assert (A2 : stat_local m1 t (Some (q, WPNext (fnode m t)))) by (cbn; auto).
    assert (A3 : has_node g t (Some (q, WPNext (fnode m t))) -> fnode m1 t <> O) by (cbn; intros [Q|Q]; [discriminate Q|congruence]).
    assert (A5 : push_local m1 g t q (WPNext (fnode m t))) by (cbn; rewrite !upd_same; auto).
    pose proof (SL m1 (WPNext (fnode m t)) eq_refl (fun _ => eq_refl)) as A4.
    kw I Hw Hk Hu P.
  - (* WPNext *) injection E as <- <-. cbn [gk_wait]. split; [|apply CV].
    cbn in La, Ln, Ls, Lp. destruct La as (Ag & Ap & Ab). destruct Lp as (P1 & P2 & P3 & P4).
    set (m1 := set_nnext m n 0%nat).
    assert (P : mpriv t g m m1).
    { constructor; auto. intros n0 A B. cbn. rewrite upd_other; auto. intros ->. contradiction. }
    assert (A1 : acct_local m1 g t (Some (q, WPXchg n))) by (cbn; auto).
    assert (A2 : stat_local m1 t (Some (q, WPXchg n))) by (cbn; auto).
    assert (A3 : has_node g t (Some (q, WPXchg n)) -> fnode m1 t <> O) by (cbn; intros [Q|Q]; [discriminate Q|congruence]).
    assert (A5 : push_local m1 g t q (WPXchg n)) by (cbn; rewrite upd_same; auto).
    pose proof (SL m1 (WPXchg n) eq_refl (fun _ => eq_refl)) as A4.
    kw I Hw Hk Hu P.
  - (* WPXchg *) injection E as <- <-. cbn [gk_wait]. split.
    + exact (k_wxchg _ _ _ _ _ _ I Hw).
    + eapply CInv_gext; [|apply CV]. reflexivity.
  - (* WPLink *) injection E as <- <-. cbn [gk_wait]. split; [|apply CV].
    exact (k_wlink _ _ _ _ _ _ _ I Hw).
  - destruct yp as [b|b st| | | | |q' ip| |]; cbn [yield_step] in E; try discriminate Hs.
    + (* YPRead *) injection E as <- <-. cbn [gk_wait]. split; [|apply CV].
      assert (A1 : acct_local m g t (Some (q, WPYield (YPNext b (fstate m t))))) by (destruct b; exact La).
      assert (A2 : stat_local m t (Some (q, WPYield (YPNext b (fstate m t))))) by (destruct b; cbn in *; auto).
      assert (A3 : has_node g t (Some (q, WPYield (YPNext b (fstate m t)))) -> fnode m t <> O) by exact Ln.
      assert (A4 := SL m (WPYield (YPNext b (fstate m t))) eq_refl).
      assert (A5 : premaint (WPYield (YPRead b)) = true -> premaint (WPYield (YPNext b (fstate m t))) = true) by (destruct b; auto).
      specialize (A4 A5).
      kw I Hw Hk Hu (mpriv_refl t g m).
    + (* YPNext *) destruct (waitingish st) eqn:Ews; [|discriminate E]. injection E as <- <-. cbn [gk_wait]. split; [|apply CV].
      destruct b.
      { rewrite (Hnt st eq_refl) in Ews. discriminate Ews. }
      assert (A1 : acct_local m g t (Some (q, WPYield YPSwRead))) by exact La.
      assert (A2 : stat_local m t (Some (q, WPYield YPSwRead))) by (cbn in *; tauto).
      assert (A3 : has_node g t (Some (q, WPYield YPSwRead)) -> fnode m t <> O) by exact Ln.
      assert (A4 := SL m (WPYield YPSwRead) eq_refl (fun _ => eq_refl)).
      kw I Hw Hk Hu (mpriv_refl t g m).
    + (* YPSwRead *) destruct (fstate m t =? ST_RUNNING); [discriminate E|]. injection E as <- <-. cbn [gk_wait]. split; [|apply CV].
      assert (A1 : acct_local m g t (Some (q, WPYield YPSwDone))) by exact La.
      assert (A2 : stat_local m t (Some (q, WPYield YPSwDone))) by exact Ls.
      assert (A3 : has_node g t (Some (q, WPYield YPSwDone)) -> fnode m t <> O) by exact Ln.
      assert (A4 := SL m (WPYield YPSwDone) eq_refl (fun _ => eq_refl)).
      kw I Hw Hk Hu (mpriv_refl t g m).
    + (* YPSwDone *) injection E as <- <-. cbn [gk_wait]. split; [|apply CV].
      assert (A1 : acct_local m g t (Some (q, WPYield YPMRead))) by exact La.
      assert (A2 : stat_local m t (Some (q, WPYield YPMRead))) by exact Ls.
      assert (A3 : has_node g t (Some (q, WPYield YPMRead)) -> fnode m t <> O) by exact Ln.
      assert (A4 := SL m (WPYield YPMRead) eq_refl (fun _ => eq_refl)).
      kw I Hw Hk Hu (mpriv_refl t g m).
    + (* YPMRead *) cbn in Ls. rewrite Ls in E. cbn in E. injection E as <- <-. cbn [gk_wait]. split; [|apply CV].
      assert (A1 : acct_local m g t (Some (q, WPYield YPMFlip))) by exact La.
      assert (A2 : stat_local m t (Some (q, WPYield YPMFlip))) by exact Ls.
      assert (A3 : has_node g t (Some (q, WPYield YPMFlip)) -> fnode m t <> O) by exact Ln.
      assert (A4 := SL m (WPYield YPMFlip) eq_refl (fun _ => eq_refl)).
      kw I Hw Hk Hu (mpriv_refl t g m).
    + (* YPAsleep *) injection E as <- <-. cbn [gk_wait]. split; [|apply CV].
      cbn in La. destruct La as (Ap & Ab). rewrite (Hb eq_refl) in Ab.
      assert (Ag : got g t = true) by (destruct (got g t); auto; discriminate Ab).
      assert (A1 : acct_local m g t (Some (q, WPYield YPResume))) by (cbn; rewrite (Hb eq_refl); auto).
      assert (A2 : stat_local m t (Some (q, WPYield YPResume))) by exact Logic.I.
      assert (A3 : has_node g t (Some (q, WPYield YPResume)) -> fnode m t <> O) by exact Ln.
      assert (A4 := SL m (WPYield YPResume) eq_refl ltac:(cbn; intros Q; discriminate Q)).
      kw I Hw Hk Hu (mpriv_refl t g m).
    + (* YPResume *) injection E as <- <-. cbn [gk_wait]. split; [|apply CV].
      cbn in La. destruct La as (Ag & Ap & Ab).
      assert (NH : forall q0, isq q0 -> hand g q0 <> Some t) by (eapply nohand_notafter; eauto).
      assert (A1 : acct_local (set_fstate m t ST_RUNNING) g t (Some (q, WPYield (YPRead true)))) by (cbn; auto).
      assert (A2 : stat_local (set_fstate m t ST_RUNNING) t (Some (q, WPYield (YPRead true)))) by exact Logic.I.
      assert (A3 : has_node g t (Some (q, WPYield (YPRead true))) -> fnode (set_fstate m t ST_RUNNING) t <> O) by exact Ln.
      assert (A4 := SL (set_fstate m t ST_RUNNING) (WPYield (YPRead true)) eq_refl ltac:(cbn; intros Q; discriminate Q)).
      kw I Hw Hk Hu (mpriv_fstate t g m ST_RUNNING).
Qed.
