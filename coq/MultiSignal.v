(* Model of fiber_multi_signal_wait / _raise / _raise_strict (include/fiber_signal.h,
   C20) on a thread-with-sleep abstraction: thread t is fiber t+1 and owns wait
   node t+1 (the runtime stubs of rt/h_msignal.c: yield = perform the deferred
   "scratch = READY_TO_WAKE" write, then sleep; schedule = wake that thread).
   locs: 0 = counter, 1 = head (one 16-byte DCAS cell; head = 0 no waiter,
   -1 RAISED, n>0 first waiter node); node n: data at 98+2n, next at 99+2n;
   fiber f: scratch at 199+f (-1 = READY_TO_WAKE).
   wait : scratch=NULL; node->data=self; loop { c=aload counter; h=aload head;
            h==RAISED ? DCAS((c,h)->(c+1,NULL)) -> return
                      : node->next=h; DCAS((c,h)->(c+1,node)) -> yield; scratch=NULL; return }
   raise: loop { c; h; h==NULL||h==RAISED ? DCAS(->(c+1,RAISED)) -> return 0
                      : x=h->next; DCAS((c,h)->(c+1,x)) -> f=h->data;
                        spin until f->scratch==READY_TO_WAKE; schedule(f); return 1 }
   raise_strict: as raise, but with no waiter it just re-reads (spins).
   The DCAS is one step comparing both words, two trace lines (115 / 125).
   Harness events: (t, 11, 919, 0) fiber t goes to sleep; (t, 12, 919, f) fiber f
   is scheduled; (t, 0, 919, 1) a sleeping thread resumes.
   wk t = wake-ups delivered to thread t and not yet consumed (rt_wake).
   Counter: unbounded Z, no wrap (guard: fewer than 2^64 successful DCAS
   between a counter load and the DCAS of the same iteration). *)
From Coq Require Import List ZArith Lia Bool Arith.
From LF Require Import Conc.
Import ListNotations.

Inductive op := OWait | ORaise | OStrict.

Inductive pcT := W0 | W1 | WCtr | WHead | WCasC | WNext | WCasQ | WReady | WSleep | WClear
               | RCtr | RHead | RCasR | RNext | RCasP | RData | RSpin | Fin.

Record tst := { pc : pcT; sc : Z; shd : Z; sn : nat; tw : nat; strict : bool;
                prog : list op; opi : nat }.

Record st := { ctr : Z; head : Z; next : nat -> nat; data : nat -> nat; scr : nat -> Z;
               wk : nat -> nat; thr : nat -> tst; nthr : nat }.

Definition mk (p : pcT) (b : bool) (r : list op) (i : nat) : tst :=
  {| pc := p; sc := 0; shd := 0; sn := 0; tw := 0; strict := b; prog := r; opi := i |}.

Definition begin (p : list op) (i : nat) : tst :=
  match p with
  | [] => mk Fin false [] i
  | OWait :: r => mk W0 false r (S i)
  | ORaise :: r => mk RCtr false r (S i)
  | OStrict :: r => mk RCtr true r (S i)
  end.

Definition next_op (T : tst) : tst := begin (prog T) (opi T).

Definition with_pc (T : tst) (p : pcT) : tst :=
  {| pc := p; sc := sc T; shd := shd T; sn := sn T; tw := tw T; strict := strict T;
     prog := prog T; opi := opi T |}.

Definition set_thr (s : st) (t : nat) (x : tst) : st :=
  {| ctr := ctr s; head := head s; next := next s; data := data s; scr := scr s; wk := wk s;
     thr := upd (thr s) t x; nthr := nthr s |}.

Definition ev (t : nat) (loc kind v : Z) : list Z := [Z.of_nat t; loc; kind; v].
Definition retev (t i : nat) (v : Z) : list Z := [Z.of_nat t; Z.of_nat i; 909%Z; v].
Definition dloc (n : nat) : Z := (98 + 2 * Z.of_nat n)%Z.
Definition nloc (n : nat) : Z := (99 + 2 * Z.of_nat n)%Z.
Definition sloc (f : nat) : Z := (199 + Z.of_nat f)%Z.

Definition cas_ok (s : st) (T : tst) : bool := (ctr s =? sc T)%Z && (head s =? shd T)%Z.

Definition cas_fail (s : st) (t : nat) (T : tst) (p : pcT) : st * list Z :=
  (set_thr s t (with_pc T p), ev t 0 125 (ctr s) ++ ev t 1 125 (head s)).

(* the 16-byte cell becomes (ctr+1, h) *)
Definition cell_upd (s : st) (h : Z) (t : nat) (x : tst) : st :=
  {| ctr := (ctr s + 1)%Z; head := h; next := next s; data := data s; scr := scr s; wk := wk s;
     thr := upd (thr s) t x; nthr := nthr s |}.

Definition cas_evs (s : st) (t : nat) (h : Z) : list Z := ev t 0 115 (ctr s + 1)%Z ++ ev t 1 115 h.

Definition step (s : st) (t : nat) : st * list Z :=
  let T := thr s t in
  let me := S t in
  match pc T with
  | Fin => (s, [])
  | W0 => ({| ctr := ctr s; head := head s; next := next s; data := data s; scr := upd (scr s) t 0%Z;
              wk := wk s; thr := upd (thr s) t (with_pc T W1); nthr := nthr s |},
           ev t (sloc me) 19 0)
  | W1 => ({| ctr := ctr s; head := head s; next := next s; data := upd (data s) me me; scr := scr s;
              wk := wk s; thr := upd (thr s) t (with_pc T WCtr); nthr := nthr s |},
           ev t (dloc me) 19 (Z.of_nat me))
  | WCtr => (set_thr s t {| pc := WHead; sc := ctr s; shd := shd T; sn := sn T; tw := tw T; strict := strict T;
                            prog := prog T; opi := opi T |},
             ev t 0 22 (ctr s))
  | WHead => (set_thr s t {| pc := if (head s =? -1)%Z then WCasC else WNext; sc := sc T; shd := head s;
                             sn := sn T; tw := tw T; strict := strict T; prog := prog T; opi := opi T |},
              ev t 1 22 (head s))
  | WCasC => if cas_ok s T
             then (cell_upd s 0 t (next_op T), cas_evs s t 0 ++ retev t (opi T) 1)
             else cas_fail s t T WCtr
  | WNext => ({| ctr := ctr s; head := head s; next := upd (next s) me (Z.to_nat (shd T)); data := data s;
                 scr := scr s; wk := wk s; thr := upd (thr s) t (with_pc T WCasQ); nthr := nthr s |},
              ev t (nloc me) 19 (shd T))
  | WCasQ => if cas_ok s T
             then (cell_upd s (Z.of_nat me) t (with_pc T WReady),
                   cas_evs s t (Z.of_nat me) ++ ev t 11 919 0)
             else cas_fail s t T WCtr
  | WReady => match wk s t with
              | O => ({| ctr := ctr s; head := head s; next := next s; data := data s;
                         scr := upd (scr s) t (-1)%Z; wk := wk s;
                         thr := upd (thr s) t (with_pc T WSleep); nthr := nthr s |},
                      ev t (sloc me) 19 (-1))
              | S w => ({| ctr := ctr s; head := head s; next := next s; data := data s;
                           scr := upd (scr s) t (-1)%Z; wk := upd (wk s) t w;
                           thr := upd (thr s) t (with_pc T WClear); nthr := nthr s |},
                        ev t (sloc me) 19 (-1))
              end
  | WSleep => ({| ctr := ctr s; head := head s; next := next s; data := data s; scr := scr s;
                  wk := upd (wk s) t (pred (wk s t));
                  thr := upd (thr s) t (with_pc T WClear); nthr := nthr s |},
               ev t 0 919 1)
  | WClear => ({| ctr := ctr s; head := head s; next := next s; data := data s; scr := upd (scr s) t 0%Z;
                  wk := wk s; thr := upd (thr s) t (next_op T); nthr := nthr s |},
               ev t (sloc me) 19 0 ++ retev t (opi T) 1)
  | RCtr => (set_thr s t {| pc := RHead; sc := ctr s; shd := shd T; sn := sn T; tw := tw T; strict := strict T;
                            prog := prog T; opi := opi T |},
             ev t 0 22 (ctr s))
  | RHead =>
      let nowaiter := (head s =? 0)%Z || (head s =? -1)%Z in
      (set_thr s t {| pc := if nowaiter then (if strict T then RCtr else RCasR) else RNext;
                      sc := sc T; shd := head s; sn := sn T; tw := tw T; strict := strict T;
                      prog := prog T; opi := opi T |},
       ev t 1 22 (head s))
  | RCasR => if cas_ok s T
             then (cell_upd s (-1) t (next_op T), cas_evs s t (-1) ++ retev t (opi T) 0)
             else cas_fail s t T RCtr
  | RNext => (set_thr s t {| pc := RCasP; sc := sc T; shd := shd T; sn := next s (Z.to_nat (shd T)); tw := tw T;
                             strict := strict T; prog := prog T; opi := opi T |},
              ev t (nloc (Z.to_nat (shd T))) 9 (Z.of_nat (next s (Z.to_nat (shd T)))))
  | RCasP => if cas_ok s T
             then (cell_upd s (Z.of_nat (sn T)) t (with_pc T RData), cas_evs s t (Z.of_nat (sn T)))
             else cas_fail s t T RCtr
  | RData => (set_thr s t {| pc := RSpin; sc := sc T; shd := shd T; sn := sn T; tw := data s (Z.to_nat (shd T));
                             strict := strict T; prog := prog T; opi := opi T |},
              ev t (dloc (Z.to_nat (shd T))) 9 (Z.of_nat (data s (Z.to_nat (shd T)))))
  | RSpin =>
      let u := pred (tw T) in
      if (scr s u =? -1)%Z
      then ({| ctr := ctr s; head := head s; next := next s; data := data s; scr := scr s;
               wk := upd (wk s) u (S (wk s u)); thr := upd (thr s) t (next_op T); nthr := nthr s |},
            ev t (sloc (tw T)) 9 (-1) ++ ev t 12 919 (Z.of_nat (tw T)) ++ retev t (opi T) 1)
      else (s, ev t (sloc (tw T)) 9 (scr s u))
  end.

Definition status_of (s : st) (t : nat) : status :=
  if t <? nthr s
  then match pc (thr s t) with
       | Fin => SDone
       | WSleep => match wk s t with O => SBlocked | S _ => SReady end
       | _ => SReady
       end
  else SDone.

Definition init (start : Z) (progs : list (list op)) : st :=
  {| ctr := start; head := 0; next := fun _ => 0; data := fun _ => 0; scr := fun _ => 0%Z;
     wk := fun _ => 0; thr := fun t => begin (nth t progs []) 0; nthr := length progs |}.

Definition M : machine :=
  {| mstate := st; mstep := step; mstatus := status_of; mthreads := nthr |}.

Definition dec_op (p : Z * Z) : op :=
  match fst p with
  | 1%Z => OWait
  | 3%Z => OStrict
  | _ => ORaise
  end.

Definition run_case (l : list Z) : list Z :=
  match decode_case l with
  | Some c =>
      let start := nthZ (c_params c) 0 in
      let dmax := Z.to_nat (nthZ (c_params c) 1) in
      run_all M (init start (map (map dec_op) (c_progs c))) [] (c_sched c) dmax
  | None => [(-1)%Z]
  end.
