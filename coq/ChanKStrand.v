(* C11: the receiver of a single-receiver channel is never stranded.
   "Sender publishes first and raises second; receiver clears the signal first
   and re-checks second": if the receiver has decided to sleep (it saw the
   channel empty) and a message is available, then a raise is on its way — a
   thread is about to exchange the word, or the word already carries the raise.
   Built on the signal invariant J of ChanKProofs.v. *)
From Coq Require Import List ZArith Lia Bool Arith.
From LF Require Import Conc T1K ChanK ChanKBase ChanKProofs.
From LF Require UChanProofs BChanProofs.
Import ListNotations.
Local Open Scope Z_scope.

(* ---------- footprint of one step ---------- *)
(* the client cell the top frame may write *)
Definition writes (s : stack cc) : option nat :=
  match s with
  | CWrite c _ :: _ => Some c
  | CXchgC c _ _ :: _ => Some c
  | CCasC c _ _ _ :: _ => Some c
  | CStoreC c _ _ :: _ => Some c
  | MSetWait c _ :: _ => Some c
  | _ => None
  end.

Definition at_rx (s : stack cc) : bool :=
  match s with [CXchgC _ _ _; FC (KRX _ _)] => true | _ => false end.

Lemma wake_cell m f c : cell (wake m f) c = cell m c.
Proof. unfold wake. destruct (blocked m f); reflexivity. Qed.
Lemma wake_slot_wait m f u : slot_wait (wake m f) u = slot_wait m u.
Proof. unfold wake. destruct (blocked m f); reflexivity. Qed.

Lemma sleep_frame m t r :
  let '(m1, e1, s1) := sleep cc m t r in
  (forall c, cell m1 c = cell m c) /\ (forall u, slot_wait m1 u = slot_wait m u).
Proof. unfold sleep. destruct (pend m t); cbn; auto. Qed.

Lemma run_slots_frame m t r :
  slot_mutex m t = None ->
  let '(m1, e1, s1) := run_slots cc m t r in
  (forall c, cell m1 c = cell m c) /\ (forall u, u <> t -> slot_wait m1 u = slot_wait m u).
Proof.
  intros Nm. unfold run_slots.
  destruct (slot_sched m t).
  - set (m1 := wake (set_slot_sched m t false) t).
    assert (C1 : forall c, cell m1 c = cell m c) by (intros; unfold m1; rewrite wake_cell; reflexivity).
    assert (W1 : forall u, slot_wait m1 u = slot_wait m u) by (intros; unfold m1; rewrite wake_slot_wait; reflexivity).
    assert (M1 : slot_mutex m1 t = None) by (unfold m1, wake; destruct (blocked _ t); exact Nm).
    destruct (slot_mpmc m1 t); cbn [slot_mutex set_mq set_slot_mpmc slot_wait]; rewrite M1;
      (destruct (slot_wait m1 t) as [[c0 v0]|] eqn:Ew;
       [ cbn; split; [exact C1 | intros u Hu; rewrite upd_other by auto; apply W1]
       | match goal with |- context [sleep cc ?mm t r] =>
           pose proof (sleep_frame mm t r) as S; destruct (sleep cc mm t r) as [[m2 e2] s2] end;
         destruct S as [S1 S2]; split; [intros c; rewrite S1; apply C1 | intros u _; rewrite S2; apply W1] ]).
  - destruct (slot_mpmc m t); cbn [slot_mutex set_mq set_slot_mpmc slot_wait]; rewrite Nm;
      (destruct (slot_wait m t) as [[c0 v0]|] eqn:Ew;
       [ cbn; split; [reflexivity | intros u Hu; rewrite upd_other by auto; reflexivity]
       | match goal with |- context [sleep cc ?mm t r] =>
           pose proof (sleep_frame mm t r) as S; destruct (sleep cc mm t r) as [[m2 e2] s2] end;
         destruct S as [S1 S2]; split; [intros c; rewrite S1; reflexivity | intros u _; rewrite S2; reflexivity] ]).
Qed.

(* one step changes only the cell named by the top frame, and only the stepping thread's wait slot *)
Lemma step_frame s t :
  BInv s ->
  let m1 := mem (fst (step s t)) in
  (forall c, writes (stk s t) <> Some c -> cell m1 c = cell (mem s) c) /\
  (forall u, u <> t -> slot_wait m1 u = slot_wait (mem s) u).
Proof.
  intros B. pose proof (b_shape s B t) as Sh. pose proof (b_nomutex s B t) as Nm.
  unfold step. remember (stk s t) as S eqn:ES. destruct Sh.
  32: destruct y.
  all: cbn.
  all: try match goal with a : wk |- _ => destruct a end.
  all: repeat match goal with |- context [if ?b then _ else _] => destruct b eqn:? end.
  all: cbn.
  all: try (split; [intros c0 Hc; cbn in Hc; try reflexivity;
                    try (rewrite upd_other by congruence; reflexivity);
                    try (rewrite wake_cell; reflexivity)
                   | intros u Hu; cbn; try reflexivity;
                     try (rewrite upd_other by auto; reflexivity);
                     try (rewrite wake_slot_wait; reflexivity)]; fail).
  - (* YNext, the yield returns *)
    pose proof (ycont_ret_shape (csize s) (mem s) t c 0 H) as R.
    destruct (cret (csize s) (mem s) t c 0) as [[m1 e1] s1]. destruct R as [_ ->]. cbn. auto.
  - (* MRead -> maintenance *)
    pose proof (run_slots_frame (mem s) t [YLoop; FC c] Nm) as R.
    destruct (run_slots cc (mem s) t [YLoop; FC c]) as [[m1 e1] s1]. cbn. destruct R as [R1 R2]. auto.
  - (* MFlip -> maintenance *)
    pose proof (run_slots_frame (set_fstate (mem s) t ST_WAITING) t [YLoop; FC c] Nm) as R.
    destruct (run_slots cc (set_fstate (mem s) t ST_WAITING) t [YLoop; FC c]) as [[m1 e1] s1]. cbn.
    destruct R as [R1 R2]. split; [intros c0 _; rewrite R1; reflexivity | intros u Hu; rewrite R2 by auto; reflexivity].
  - (* MSetWait *)
    pose proof (sleep_frame (set_cell (mem s) c0 v) t [YLoop; FC c]) as R.
    destruct (sleep cc (set_cell (mem s) c0 v) t [YLoop; FC c]) as [[m1 e1] s1]. cbn.
    destruct R as [R1 R2]. split.
    + intros c1 Hc. rewrite R1. cbn. rewrite upd_other by congruence. reflexivity.
    + intros u Hu. rewrite R2. reflexivity.
Qed.

(* who writes the signal word *)
Lemma word_writers s t :
  BInv s -> writes (stk s t) = Some c_waiter ->
  (exists a p k, stk s t = [CCasC c_waiter NO_WAITER (fname t) 3; FC (KWCas a p k)]) \/
  (exists a p k, stk s t = [CStoreC c_waiter NO_WAITER 5; FC (KWEnd a p k)]) \/
  (exists p k, stk s t = [CXchgC c_waiter RAISED 3; FC (KRX p k)]) \/
  (exists f p k, stk s t = [CStoreC c_waiter NO_WAITER 5; FC (KRSt f p k)]) \/
  (exists v c, ycont c /\ stk s t = [MSetWait c_waiter v; YLoop; FC c]).
Proof.
  intros B H. pose proof (b_shape s B t) as Sh.
  remember (stk s t) as S eqn:ES. destruct Sh; cbn in H; try discriminate H;
    try (injection H as H; exfalso; cells).
  - left; eauto.
  - right; left; eauto.
  - right; right; left; eauto.
  - right; right; right; left; eauto.
  - destruct y; cbn in H; try discriminate H. injection H as ->.
    right; right; right; right. exists v, c. split; [assumption | reflexivity].
Qed.

Lemma at_rx_upd s t x r :
  at_rx (upd (stk s) t x r) = if Nat.eqb r t then at_rx x else at_rx (stk s r).
Proof. unfold upd. destruct (Nat.eqb r t); reflexivity. Qed.

(* a thread at a raise's exchange: after its step the word is RAISED *)
Lemma rx_step s t :
  BInv s -> at_rx (stk s t) = true -> cell (mem (fst (step s t))) c_waiter = RAISED.
Proof.
  intros B H. pose proof (b_shape s B t) as Sh. unfold step.
  remember (stk s t) as S eqn:ES. destruct Sh; cbn in H; try discriminate H.
  - cbn. destruct ((cell (mem s) c_waiter =? NO_WAITER) || (cell (mem s) c_waiter =? RAISED)); reflexivity.
  - destruct y; discriminate H.
Qed.

Section Evidence.
  Variable w : nat.

  (* the word carries a raise the waiter has not consumed *)
  Definition Wd (s : st) : Prop :=
    if in_reg (ph w s) then word s <> fname w else word s = RAISED.
  (* a raise is on its way, or the word carries one *)
  Definition Ev (s : st) : Prop := (exists r, at_rx (stk s r) = true) \/ Wd s.

  Lemma claims_same_w s t :
    J w s -> J w (fst (step s t)) -> t = w -> forall r, claims (stk (fst (step s t)) r) = claims (stk s r).
  Proof.
    intros Hj Hj' -> r. destruct (Nat.eq_dec r w) as [->|Hn].
    - destruct (claims (stk (fst (step s w)) w)) eqn:A.
      + destruct (j_claim_w w _ Hj' w n A) as [_ X]. congruence.
      + destruct (claims (stk s w)) eqn:A0; auto. destruct (j_claim_w w _ Hj w n A0) as [_ X]. congruence.
    - rewrite stk_step_other by auto. reflexivity.
  Qed.

  (* evidence persists as long as the waiter neither resumes nor performs its final clear *)
  Lemma Ev_step s t :
    J w s -> J w (fst (step s t)) ->
    ~ (t = w /\ ph w s = PhAsleep) -> ~ (t = w /\ ph w s = PhPost1) ->
    Ev s -> Ev (fst (step s t)).
  Proof.
    intros Hj Hj' H1 H2 E.
    pose proof (j_base w s Hj) as B.
    destruct (step_frame s t B) as [Fc Fs].
    set (s' := fst (step s t)) in *.
    (* the stepping thread is at an exchange *)
    destruct (at_rx (stk s t)) eqn:Ax.
    { right. pose proof (rx_step s t B Ax) as R. fold s' in R. unfold Wd, word. rewrite R.
      destruct (in_reg (ph w s')); [apply fname_ne_raised | reflexivity]. }
    destruct E as [[r Hr]|Hw].
    { left. exists r. assert (r <> t) by congruence. unfold s'. rewrite stk_step_other by auto. exact Hr. }
    right.
    (* phase of w in s' when another thread steps *)
    assert (Pother : t <> w -> ph w s' = ph w s).
    { intros Ht. apply ph_same; [unfold s'; apply stk_step_other; auto | apply Fs; auto]. }
    destruct (writes (stk s t)) as [c|] eqn:Ew.
    2: { (* no cell written *)
      assert (Ww : word s' = word s) by (apply Fc; congruence).
      destruct (Nat.eq_dec t w) as [->|Ht].
      - unfold Wd in *. rewrite Ww. destruct (in_reg (ph w s)) eqn:R.
        + assert (R' : in_reg (ph w s') = true).
          { destruct (in_reg (ph w s')) eqn:R'; auto. exfalso.
            destruct (J_unreg w s' Hj' R') as [Nc _].
            assert (Nc0 : no_claims s).
            { intros r. rewrite <- (claims_same_w s w Hj Hj' eq_refl r). apply Nc. }
            destruct (j_woken w s Hj R Hw Nc0) as [X _]. apply H1. auto. }
          rewrite R'. exact Hw.
        + destruct (in_reg (ph w s')); [rewrite Hw; apply fname_ne_raised | exact Hw].
      - unfold Wd in *. rewrite Ww, (Pother Ht). exact Hw. }
    destruct (Nat.eq_dec c c_waiter) as [->|Hc].
    2: { (* another cell *)
      assert (Ww : word s' = word s) by (apply Fc; congruence).
      destruct (Nat.eq_dec t w) as [->|Ht].
      - unfold Wd in *. rewrite Ww. destruct (in_reg (ph w s)) eqn:R.
        + assert (R' : in_reg (ph w s') = true).
          { destruct (in_reg (ph w s')) eqn:R'; auto. exfalso.
            destruct (J_unreg w s' Hj' R') as [Nc _].
            assert (Nc0 : no_claims s).
            { intros r. rewrite <- (claims_same_w s w Hj Hj' eq_refl r). apply Nc. }
            destruct (j_woken w s Hj R Hw Nc0) as [X _]. apply H1. auto. }
          rewrite R'. exact Hw.
        + destruct (in_reg (ph w s')); [rewrite Hw; apply fname_ne_raised | exact Hw].
      - unfold Wd in *. rewrite Ww, (Pother Ht). exact Hw. }
    (* the word itself is written *)
    destruct (word_writers s t B Ew) as [(a & p & k & Es)|[(a & p & k & Es)|[(p & k & Es)|[(f & p & k & Es)|(v & c0 & Hy & Es)]]]].
    - (* the registering CAS: by the waiter, not registered; the word is RAISED, the CAS fails *)
      assert (t = w).
      { destruct (Nat.eq_dec t w); auto. exfalso.
        destruct (j_others w s Hj t n) as [Ho _]. rewrite Es in Ho. discriminate Ho. }
      subst t.
      assert (Hp : ph w s = PhPre1) by (unfold ph; rewrite Es; reflexivity).
      unfold Wd in Hw. rewrite Hp in Hw. cbn in Hw.
      assert (Ww : word s' = RAISED /\ ph w s' = PhPost1).
      { unfold word in Hw. unfold s', word, ph, step. rewrite Es. cbn.
        destruct (Z.eqb_spec (cell (mem s) c_waiter) NO_WAITER) as [X|X]; [rewrite Hw in X; discriminate X|].
        cbn. rewrite upd_same. split; [exact Hw | reflexivity]. }
      destruct Ww as [Ww Pp]. unfold Wd. rewrite Pp, Ww. reflexivity.
    - (* the waiter's final clear: excluded *)
      assert (t = w).
      { destruct (Nat.eq_dec t w); auto. exfalso.
        destruct (j_others w s Hj t n) as [Ho _]. rewrite Es in Ho. discriminate Ho. }
      subst t. exfalso. apply H2. split; auto. unfold ph. rewrite Es. reflexivity.
    - rewrite Es in Ax. discriminate Ax.
    - (* the claim holder's clear: w is registered, the word becomes NO_WAITER <> w *)
      assert (Hcl : claims (stk s t) <> None) by (rewrite Es; discriminate).
      destruct (j_claimed w s Hj t Hcl) as [R _].
      assert (Ht : t <> w).
      { destruct (j_claim_w w s Hj t f) as [_ X]; [rewrite Es; reflexivity | exact X]. }
      assert (Ww : word s' = NO_WAITER).
      { unfold s', word, step. rewrite Es. reflexivity. }
      unfold Wd. rewrite (Pother Ht), R, Ww. apply fname_ne_nowaiter.
    - (* a marker write aimed at the word: impossible *)
      exfalso. destruct (Nat.eq_dec t w) as [->|Ht].
      + apply (ph_not_bad w s Hj). unfold ph. rewrite Es. destruct c0; try contradiction.
        * change (wph (mem s) w [MSetWait c_waiter v; YLoop; FC (KWSlept a p k)])
            with (if Nat.eqb c_waiter (c_scr w) && (v =? READY_TO_WAKE) then PhMSet else PhBad).
          destruct (Nat.eqb_spec c_waiter (c_scr w)); [exfalso; cells | reflexivity].
        * reflexivity.
      + destruct (j_others w s Hj t Ht) as [Ho _]. rewrite Es in Ho.
        unfold ostk_ok in Ho. apply andb_true_iff in Ho. destruct Ho as [_ Ho]. discriminate Ho.
  Qed.
End Evidence.

(* ---------- the waiter's wait, seen from the caller ---------- *)
Definition kind_c (c : cc) : option wk :=
  match c with
  | KWClr a _ _ | KWCas a _ _ | KWSlept a _ _ | KWClr2 a _ _ | KWEnd a _ _ => Some a
  | _ => None
  end.
Definition wkind (s : stack cc) : option wk :=
  match bottom s with Some c => kind_c c | None => None end.

(* has decided to sleep and has not been resumed *)
Definition sleepy (p : phase) : bool :=
  match p with PhPre0 | PhPre1 | PhReg0 | PhRegY _ | PhMSet | PhAsleep => true | _ => false end.

Lemma wkind_start t p k : wkind (start t p k) = None \/ wkind (start t p k) = Some WKRet.
Proof. destruct p as [|o r]; cbn; auto. destruct o; cbn; auto. Qed.

Lemma sleepy_in_reg p : in_reg p = true -> sleepy p = true.
Proof. destruct p; cbn; congruence. Qed.

(* How w can be sleepy with kind a after its own step: either it already was (and was not
   asleep: a sleeping fiber that is granted resumes), or it has just entered the wait —
   from an unbounded receive that read next = NULL (a = WKURecv), from a bounded receive
   (a = WKBRecv), or by calling fiber_signal_wait (a = WKRet). *)
Lemma w_sleepy_step w s a :
  J w s -> status_of s w = SReady ->
  let s' := fst (step s w) in
  wkind (stk s' w) = Some a -> sleepy (ph w s') = true ->
  (wkind (stk s w) = Some a /\ sleepy (ph w s) = true /\ ph w s <> PhAsleep) \/
  a = WKRet \/
  (a = WKURecv /\ mem s' = mem s /\
   exists hd p k, stk s w = [CRead (c_nxt hd); FC (KUNxt true hd p k)] /\ cell (mem s) (c_nxt hd) = 0) \/
  (a = WKBRecv /\ mem s' = mem s /\
   exists hi lo p k,
     stk s w = [CRead (c_buf (bidx (csize s) lo)); FC (KQSlot true hi lo p k)] /\
     ~ (cell (mem s) (c_buf (bidx (csize s) lo)) <> 0 /\ lo < hi)).
Proof.
  intros Hj Hst s'.
  pose proof (j_base w s Hj) as B. pose proof (b_shape s B w) as Sh.
  pose proof (j_loc w s Hj) as L. pose proof (ph_not_bad w s Hj) as Nb.
  pose proof (b_nomutex s B w) as Nm. pose proof (j_pend w s Hj) as Pd.
  unfold local_ok in L. unfold s', ph in *. unfold step.
  remember (stk s w) as S eqn:ES. symmetry in ES.
  destruct Sh.
  32: (destruct c; try contradiction; destruct y).
  all: cbn in L, Nb |- *.
  all: try match goal with a0 : wk |- _ => destruct a0 end.
  all: repeat match goal with |- context [if ?b then _ else _] => destruct b eqn:? end.
  all: cbn; rewrite ?upd_same, ?app_nil_r.
  all: try match goal with
           | |- wkind (start ?t ?p ?k) = _ -> _ =>
               let K := fresh "K" in let X := fresh "X" in
               intros K _; destruct (wkind_start t p k) as [X|X]; rewrite X in K;
               [discriminate K | injection K as <-; right; left; reflexivity]
           end.
  all: intros K Sl; cbn in K, Sl.
  all: try discriminate K.
  all: try discriminate Sl.
  all: try (injection K as <-; left; split; [reflexivity | split; [reflexivity | discriminate]]).
  all: try (right; left; reflexivity).
  all: try (right; right; left; split; [reflexivity|]; split; [reflexivity|];
            do 3 eexists; split; [reflexivity|];
            match goal with H : (_ =? 0) = true |- _ => apply Z.eqb_eq in H; exact H end).
  all: try (right; right; right; split; [reflexivity|]; split; [reflexivity|];
            do 4 eexists; split; [reflexivity|];
            match goal with H : negb (_ =? 0) && (_ <? _) = false |- _ =>
              intros [X1 X2]; apply andb_false_iff in H; destruct H as [H|H];
              [apply negb_false_iff in H; apply Z.eqb_eq in H; contradiction
              | apply Z.ltb_ge in H; lia] end).
  all: try (exfalso; apply Nb; reflexivity).
  all: repeat match type of Sl with context [if ?b then _ else _] => destruct b eqn:? end.
  all: cbn in Sl; try discriminate Sl.
  all: try (injection K as <-; left; split; [reflexivity | split; [reflexivity | discriminate]]).
  all: try (exfalso; congruence).
  all: try (match goal with H : (?x =? ST_RUNNING) = true |- _ => apply Z.eqb_eq in H; subst x end; discriminate).
  (* MRead: the maintenance arms the marker write *)
  all: try (destruct L as ((La1 & La2 & La3) & Lf & Lb & Ls & _);
            rewrite Lf in K, Sl; cbn in K, Sl; unfold run_slots in K, Sl;
            rewrite La2, La3, Nm, La1 in K, Sl; cbn in K, Sl; rewrite upd_same in K;
            cbn in K; injection K as <-; left; split; [reflexivity | split; [reflexivity | discriminate]]).
  (* MSetWait: goes to sleep *)
  all: try (unfold sleep in K; rewrite ?upd_same in K; cbn in K; rewrite Pd in K; cbn in K; rewrite ?upd_same in K; cbn in K;
            injection K as <-; left; split; [reflexivity | split; [reflexivity | discriminate]]).
  all: destruct L as ((Lq1 & _) & _); rewrite Lq1 in Heqb; discriminate Heqb.
Qed.

(* inside fiber_signal_wait the fiber writes only its own scratch and the word *)
Lemma wait_writes w s a :
  J w s -> wkind (stk s w) = Some a ->
  writes (stk s w) = None \/ writes (stk s w) = Some (c_scr w) \/ writes (stk s w) = Some c_waiter.
Proof.
  intros Hj K. pose proof (b_shape s (j_base w s Hj) w) as Sh. pose proof (ph_not_bad w s Hj) as Nb.
  unfold ph in Nb. remember (stk s w) as S eqn:ES. destruct Sh; cbn in K; try discriminate K; cbn; auto.
  destruct c; try contradiction; [|destruct y; cbn in K; discriminate K].
  destruct y; cbn; auto. cbn in Nb.
  destruct (Nat.eqb_spec c (c_scr w)) as [->|]; [auto | cbn in Nb; congruence].
Qed.

Lemma nxt_writers s t n :
  BInv s -> writes (stk s t) = Some (c_nxt n) ->
  (exists p k, stk s t = [CWrite (c_nxt n) 0; FC (KUNull n p k)]) \/
  (exists m p k, stk s t = [CWrite (c_nxt n) (Zn m); FC (KULink p k)]) \/
  (exists v c, ycont c /\ stk s t = [MSetWait (c_nxt n) v; YLoop; FC c]).
Proof.
  intros B H. pose proof (b_shape s B t) as Sh.
  remember (stk s t) as S eqn:ES. destruct Sh; cbn in H; try discriminate H;
    try (injection H as H; exfalso; cells).
  - injection H as H. assert (n0 = n) by cells. subst. left; eauto.
  - injection H as H. assert (pv = n) by cells. subst. right; left; eauto.
  - destruct y; cbn in H; try discriminate H. injection H as ->.
    right; right. exists v, c. split; [assumption | reflexivity].
Qed.

Lemma head_writers s t :
  BInv s -> writes (stk s t) = Some c_head ->
  (exists hd v p k, stk s t = [CWrite c_head v; FC (KUSetHead hd (Z.to_nat v) p k)]) \/
  (exists v c, ycont c /\ stk s t = [MSetWait c_head v; YLoop; FC c]).
Proof.
  intros B H. pose proof (b_shape s B t) as Sh.
  remember (stk s t) as S eqn:ES. destruct Sh; cbn in H; try discriminate H;
    try (injection H as H; exfalso; cells).
  - left; eauto.
  - destruct y; cbn in H; try discriminate H. injection H as ->.
    right. exists v, c. split; [assumption | reflexivity].
Qed.

(* a thread other than the waiter never has a marker write pending *)
Lemma other_no_mset w s t c v r :
  J w s -> t <> w -> stk s t = MSetWait c v :: r -> False.
Proof.
  intros Hj Ht E. destruct (j_others w s Hj t Ht) as [Ho _].
  pose proof (b_shape s (j_base w s Hj) t) as Sh. rewrite E in Sh, Ho.
  unfold ostk_ok in Ho. apply andb_true_iff in Ho. destruct Ho as [_ Ho].
  inversion Sh as [| | | | | | | | | | | | | | | | | | | | | | | | | | | | | | |y c0 Hy Ey].
  destruct y; cbn in Ey; try discriminate Ey. injection Ey as _ _ <-. discriminate Ho.
Qed.

(* ---------- unbounded channel ---------- *)
Definition uhead (s : st) : nat := Z.to_nat (cell (mem s) c_head).
(* the queue holds a linked message *)
Definition avail_u (s : st) : Prop := cell (mem s) (c_nxt (uhead s)) <> 0.

(* what the receiver knows (single receiver: UChanProofs.uchan_receiver_head) *)
Definition recv_ok (w : nat) (s : st) : Prop :=
  (forall t blk hd p k, stk s t = [CRead (c_nxt hd); FC (KUNxt blk hd p k)] ->
     t = w /\ cell (mem s) c_head = Zn hd) /\
  (forall t hd v p k, stk s t = [CWrite c_head v; FC (KUSetHead hd (Z.to_nat v) p k)] -> t = w).

Definition U_u (w : nat) (s : st) : Prop :=
  avail_u s -> wkind (stk s w) = Some WKURecv -> sleepy (ph w s) = true -> Ev w s.

Lemma Zn_to_nat n : Z.to_nat (Zn n) = n.
Proof. unfold Zn. apply Nat2Z.id. Qed.

Lemma U_u_step w s t :
  J w s -> J w (fst (step s t)) -> recv_ok w s -> status_of s t = SReady ->
  U_u w s -> U_u w (fst (step s t)).
Proof.
  intros Hj Hj' [Rk1 Rk2] Hst U Av' K' Sl'.
  pose proof (j_base w s Hj) as B.
  destruct (step_frame s t B) as [Fc Fs].
  set (s' := fst (step s t)) in *.
  destruct (Nat.eq_dec t w) as [->|Ht].
  - (* the receiver steps *)
    destruct (w_sleepy_step w s WKURecv Hj Hst K' Sl') as [(K & Sl & Na)|[X|[(_ & Me & hd & p & k & Es & Ez)|(X & _)]]];
      try discriminate X.
    + (* it was already on its way to sleep *)
      assert (Hsame : forall c, c = c_head \/ (exists n, c = c_nxt n) -> cell (mem s') c = cell (mem s) c).
      { intros c Hc. apply Fc. intros Ew.
        destruct (wait_writes w s WKURecv Hj K) as [X|[X|X]]; rewrite X in Ew; try discriminate Ew;
          injection Ew as <-; destruct Hc as [Hc|[n Hc]]; cells. }
      assert (Av : avail_u s).
      { unfold avail_u, uhead in *. rewrite (Hsame c_head) in Av' by auto.
        rewrite Hsame in Av' by eauto. exact Av'. }
      apply Ev_step; auto.
      * intros [_ X]. contradiction.
      * intros [_ X]. rewrite X in Sl. discriminate Sl.
    + (* it has just read next = NULL from the current head: nothing is linked *)
      exfalso. destruct (Rk1 w true hd p k Es) as [_ Eh].
      unfold avail_u, uhead in Av'. fold s' in Me. rewrite Me, Eh, Zn_to_nat in Av'. contradiction.
  - (* another thread steps *)
    assert (Sw : stk s' w = stk s w) by (unfold s'; apply stk_step_other; auto).
    assert (Pw : ph w s' = ph w s) by (apply ph_same; [exact Sw | apply Fs; auto]).
    rewrite Sw in K'. rewrite Pw in Sl'.
    destruct (Z.eq_dec (cell (mem s) (c_nxt (uhead s))) 0) as [Ez|Av].
    2: { apply Ev_step; auto; try (intros [X _]; contradiction). }
    (* the queue was empty for the receiver: the step linked a message *)
    assert (Hh : cell (mem s') c_head = cell (mem s) c_head).
    { apply Fc. intros Ew. destruct (head_writers s t B Ew) as [(hd & v & p & k & Es)|(v & c & _ & Es)].
      - apply Ht. eapply Rk2; eauto.
      - exact (other_no_mset w s t c_head v [YLoop; FC c] Hj Ht Es). }
    unfold avail_u, uhead in Av'. rewrite Hh in Av'. fold (uhead s) in Av'.
    destruct (writes (stk s t)) as [c|] eqn:Ew.
    2: { exfalso. apply Av'. rewrite Fc by congruence. exact Ez. }
    destruct (Nat.eq_dec c (c_nxt (uhead s))) as [->|Hc].
    2: { exfalso. apply Av'. rewrite Fc by congruence. exact Ez. }
    destruct (nxt_writers s t (uhead s) B Ew) as [(p & k & Es)|[(m & p & k & Es)|(v & c & _ & Es)]].
    + exfalso. apply Av'. unfold s', step. rewrite Es. cbn. apply upd_same.
    + left. exists t. unfold s', step. rewrite Es. cbn. rewrite upd_same. reflexivity.
    + exfalso. exact (other_no_mset w s t (c_nxt (uhead s)) v [YLoop; FC c] Hj Ht Es).
Qed.

Theorem uchan_J_U w size progs s :
  single_waiter w progs -> UChanProofs.uchan_progs_ok w progs ->
  reachable M (init size progs) s -> J w s /\ U_u w s.
Proof.
  intros Hs Hu R. induction R as [|s t R IH Hst].
  - split; [apply init_J; exact Hs|]. intros _ K. cbn in K. discriminate K.
  - destruct IH as [Hj U].
    assert (Hj' : J w (fst (step s t))) by (apply J_step; auto).
    split; [exact Hj'|]. apply U_u_step; auto.
    destruct (UChanProofs.uchan_receiver_head w size progs s Hu R) as (A & B0 & _).
    split; [exact A | exact B0].
Qed.

(* what the evidence means, using the signal theorem *)
Lemma Ev_meaning w s :
  J w s -> idle_beyond s -> Ev w s ->
  (exists r, at_rx (stk s r) = true) \/
  (registered w s /\ ((exists r, r <> w /\ committed s r w) \/ wake_delivered w s)) \/
  (~ registered w s /\ word s = RAISED).
Proof.
  intros Hj Hi [E|E]; [left; exact E|]. right. unfold Wd in E. unfold registered.
  destruct (in_reg (ph w s)) eqn:R.
  - left. split; [reflexivity|]. apply no_lost_raise; auto.
  - right. split; [congruence | exact E].
Qed.

Theorem uchan_receiver_not_stranded w size progs s :
  single_waiter w progs -> UChanProofs.uchan_progs_ok w progs ->
  reachable M (init size progs) s ->
  wkind (stk s w) = Some WKURecv -> sleepy (ph w s) = true -> avail_u s ->
  (exists r, at_rx (stk s r) = true) \/
  (registered w s /\ ((exists r, r <> w /\ committed s r w) \/ wake_delivered w s)) \/
  (~ registered w s /\ word s = RAISED).
Proof.
  intros Hs Hu R K Sl Av. destruct (uchan_J_U w size progs s Hs Hu R) as [Hj U].
  apply Ev_meaning; auto. eapply idle_beyond_reachable; eauto.
Qed.

(* ---------- bounded channel ---------- *)
Definition blow (s : st) : Z := cell (mem s) c_low.
(* the slot the receiver reads next holds a message *)
Definition avail_b (s : st) : Prop := cell (mem s) (c_buf (bidx (csize s) (blow s))) <> 0.

(* the receiver is on its way to sleep without having taken that message: it sleeps / is
   about to sleep in a blocking receive, or it is still reading but with a value of high
   that is too old for the message (hi <= low: its test "hi > lo" will fail) *)
Definition danger_b (w : nat) (s : st) : Prop :=
  (wkind (stk s w) = Some WKBRecv /\ sleepy (ph w s) = true) \/
  (exists hi p k, stk s w = [CLoadC c_low 2; FC (KQLow true hi p k)] /\ hi <= blow s) \/
  (exists hi lo p k, stk s w = [CRead (c_buf (bidx (csize s) lo)); FC (KQSlot true hi lo p k)] /\ hi <= lo).

Definition U_b (w : nat) (s : st) : Prop := avail_b s -> danger_b w s -> Ev w s.

(* what the ring invariant gives (BChanProofs) *)
Definition ring_ok (w : nat) (s : st) : Prop :=
  (cell (mem s) c_high <= blow s -> cell (mem s) (c_buf (bidx (csize s) (blow s))) = 0) /\
  (forall t blk hi lo p k, stk s t = [CRead (c_buf (bidx (csize s) lo)); FC (KQSlot blk hi lo p k)] ->
     t = w /\ lo = blow s) /\
  (forall t c v m l p k, stk s t = [CWrite c v; FC (KQClear m l p k)] -> t = w) /\
  (forall t c v mo m p k, stk s t = [CStoreC c v mo; FC (KQStore m p k)] -> t = w).

Lemma run_slots_three m t c :
  slot_mutex m t = None ->
  let '(m1, e1, s1) := run_slots cc m t [YLoop; FC c] in exists f, s1 = [f; YLoop; FC c].
Proof.
  intros Nm. unfold run_slots.
  assert (Sl : forall mm, let '(m1, e1, s1) := sleep cc mm t [YLoop; FC c] in exists f, s1 = [f; YLoop; FC c]).
  { intros mm. unfold sleep. destruct (pend mm t); eauto. }
  destruct (slot_sched m t).
  - set (m1 := wake (set_slot_sched m t false) t).
    assert (M1 : slot_mutex m1 t = None) by (unfold m1, wake; destruct (blocked _ t); exact Nm).
    destruct (slot_mpmc m1 t); cbn [slot_mutex set_mq set_slot_mpmc slot_wait]; rewrite M1;
      (destruct (slot_wait m1 t) as [[c0 v0]|]; [eauto |
       match goal with |- context [sleep cc ?mm t ?r] => pose proof (Sl mm) as S; destruct (sleep cc mm t r) as [[m2 e2] s2] end;
       exact S]).
  - destruct (slot_mpmc m t); cbn [slot_mutex set_mq set_slot_mpmc slot_wait]; rewrite Nm;
      (destruct (slot_wait m t) as [[c0 v0]|]; [eauto |
       match goal with |- context [sleep cc ?mm t ?r] => pose proof (Sl mm) as S; destruct (sleep cc mm t r) as [[m2 e2] s2] end;
       exact S]).
Qed.

Lemma start_not_qlow t p k blk hi p' k' : start t p k <> [CLoadC c_low 2; FC (KQLow blk hi p' k')].
Proof. destruct p as [|o r]; cbn; try discriminate. destruct o; discriminate. Qed.
Lemma start_not_qslot t p k c blk hi lo p' k' : start t p k <> [CRead c; FC (KQSlot blk hi lo p' k')].
Proof. destruct p as [|o r]; cbn; try discriminate. destruct o; discriminate. Qed.

(* the only way to reach the receive's load of low / read of the slot *)
Lemma to_qlow s t blk hi p k :
  BInv s -> stk (fst (step s t)) t = [CLoadC c_low 2; FC (KQLow blk hi p k)] ->
  stk s t = [CLoadC c_high 2; FC (KQHigh blk p k)] /\ hi = cell (mem s) c_high /\ mem (fst (step s t)) = mem s.
Proof.
  intros B. pose proof (b_shape s B t) as Sh. pose proof (b_nomutex s B t) as Nm. unfold step.
  remember (stk s t) as S eqn:ES. destruct Sh.
  32: destruct y.
  all: cbn.
  all: try match goal with a : wk |- _ => destruct a end.
  all: repeat match goal with |- context [if ?b then _ else _] => destruct b eqn:? end.
  all: cbn; rewrite ?upd_same, ?app_nil_r.
  all: try (intros E; discriminate E).
  all: try (intros E; exfalso; eapply start_not_qlow; exact E).
  - intros E. injection E as <- <- <- <-. auto.
  - destruct c; try contradiction; cbn; rewrite upd_same; intros E; discriminate E.
  - pose proof (run_slots_three (mem s) t c Nm) as R.
    destruct (run_slots cc (mem s) t [YLoop; FC c]) as [[m1 e1] s1]. destruct R as [f ->]. cbn. rewrite upd_same.
    intros E; discriminate E.
  - pose proof (run_slots_three (set_fstate (mem s) t ST_WAITING) t c Nm) as R.
    destruct (run_slots cc (set_fstate (mem s) t ST_WAITING) t [YLoop; FC c]) as [[m1 e1] s1].
    destruct R as [f ->]. cbn. rewrite upd_same. intros E; discriminate E.
  - unfold sleep. destruct (pend (set_cell (mem s) c0 v) t); cbn; rewrite upd_same; intros E; discriminate E.
Qed.

Lemma to_qslot s t c blk hi lo p k :
  BInv s -> stk (fst (step s t)) t = [CRead c; FC (KQSlot blk hi lo p k)] ->
  stk s t = [CLoadC c_low 2; FC (KQLow blk hi p k)] /\ lo = cell (mem s) c_low /\
  c = c_buf (bidx (csize s) lo) /\ mem (fst (step s t)) = mem s.
Proof.
  intros B. pose proof (b_shape s B t) as Sh. pose proof (b_nomutex s B t) as Nm. unfold step.
  remember (stk s t) as S eqn:ES. destruct Sh.
  32: destruct y.
  all: cbn.
  all: try match goal with a : wk |- _ => destruct a end.
  all: repeat match goal with |- context [if ?b then _ else _] => destruct b eqn:? end.
  all: cbn; rewrite ?upd_same, ?app_nil_r.
  all: try (intros E; discriminate E).
  all: try (intros E; exfalso; eapply start_not_qslot; exact E).
  - intros E. injection E as <- <- <- <- <- <-. auto.
  - destruct c0; try contradiction; cbn; rewrite upd_same; intros E; discriminate E.
  - pose proof (run_slots_three (mem s) t c0 Nm) as R.
    destruct (run_slots cc (mem s) t [YLoop; FC c0]) as [[m1 e1] s1]. destruct R as [f ->]. cbn. rewrite upd_same.
    intros E; discriminate E.
  - pose proof (run_slots_three (set_fstate (mem s) t ST_WAITING) t c0 Nm) as R.
    destruct (run_slots cc (set_fstate (mem s) t ST_WAITING) t [YLoop; FC c0]) as [[m1 e1] s1].
    destruct R as [f ->]. cbn. rewrite upd_same. intros E; discriminate E.
  - unfold sleep. destruct (pend (set_cell (mem s) c1 v) t); cbn; rewrite upd_same; intros E; discriminate E.
Qed.

Lemma buf_writers s t i :
  BInv s -> writes (stk s t) = Some (c_buf i) ->
  (exists x p k, stk s t = [CWrite (c_buf i) x; FC (KBWrite p k)]) \/
  (exists m lo p k, stk s t = [CWrite (c_buf i) 0; FC (KQClear m lo p k)]) \/
  (exists v c, ycont c /\ stk s t = [MSetWait (c_buf i) v; YLoop; FC c]).
Proof.
  intros B H. pose proof (b_shape s B t) as Sh.
  remember (stk s t) as S eqn:ES. destruct Sh; cbn in H; try discriminate H;
    try (injection H as H; exfalso; cells).
  - injection H as H. rewrite H. left; eauto.
  - injection H as H. rewrite H. right; left; eauto.
  - destruct y; cbn in H; try discriminate H. injection H as ->.
    right; right. exists v, c. split; [assumption | reflexivity].
Qed.

Lemma low_writers s t :
  BInv s -> writes (stk s t) = Some c_low ->
  (exists v m p k, stk s t = [CStoreC c_low v 3; FC (KQStore m p k)]) \/
  (exists v c, ycont c /\ stk s t = [MSetWait c_low v; YLoop; FC c]).
Proof.
  intros B H. pose proof (b_shape s B t) as Sh.
  remember (stk s t) as S eqn:ES. destruct Sh; cbn in H; try discriminate H;
    try (injection H as H; exfalso; cells).
  - left; eauto.
  - destruct y; cbn in H; try discriminate H. injection H as ->.
    right. exists v, c. split; [assumption | reflexivity].
Qed.

Lemma csize_step s t : csize (fst (step s t)) = csize s.
Proof. unfold step. destruct (kstep cc (cret (csize s)) (mem s) t (stk s t)) as [[m1 e1] s1]. reflexivity. Qed.

Lemma U_b_step w s t :
  J w s -> J w (fst (step s t)) -> ring_ok w s -> ring_ok w (fst (step s t)) -> status_of s t = SReady ->
  U_b w s -> U_b w (fst (step s t)).
Proof.
  intros Hj Hj' (Rz & Rs & Rc & Rst) (Rz' & Rs' & _) Hst U Av' Dg'.
  pose proof (j_base w s Hj) as B.
  destruct (step_frame s t B) as [Fc Fs].
  pose proof (csize_step s t) as Cs.
  set (s' := fst (step s t)) in *.
  destruct (Nat.eq_dec t w) as [->|Ht].
  - (* the receiver steps *)
    destruct Dg' as [[K' Sl']|[(hi & p & k & Es' & Hhi)|(hi & lo & p & k & Es' & Hhi)]].
    + destruct (w_sleepy_step w s WKBRecv Hj Hst K' Sl') as [(K & Sl & Na)|[X|[(X & _)|(_ & Me & hi & lo & p & k & Es & Hn)]]];
        try discriminate X.
      * (* already on its way to sleep: the wait does not touch the ring *)
        assert (Hsame : forall c, c = c_low \/ (exists i, c = c_buf i) -> cell (mem s') c = cell (mem s) c).
        { intros c Hc. apply Fc. intros Ew.
          destruct (wait_writes w s WKBRecv Hj K) as [X|[X|X]]; rewrite X in Ew; try discriminate Ew;
            injection Ew as <-; destruct Hc as [Hc|[n Hc]]; cells. }
        assert (Av : avail_b s).
        { unfold avail_b, blow in *. rewrite Cs in Av'. rewrite (Hsame c_low) in Av' by auto.
          rewrite Hsame in Av' by eauto. exact Av'. }
        apply Ev_step; auto.
        -- intros [_ X]. contradiction.
        -- intros [_ X]. rewrite X in Sl. discriminate Sl.
        -- apply U; auto. left. auto.
      * (* it has just read the slot and decided to wait *)
        fold s' in Me.
        destruct (Rs w true hi lo p k Es) as [_ El].
        assert (Av : avail_b s).
        { unfold avail_b, blow in *. rewrite Cs, Me in Av'. exact Av'. }
        assert (Hle : hi <= lo).
        { destruct (Z.lt_ge_cases lo hi); [|assumption]. exfalso. apply Hn. split; [|assumption].
          unfold avail_b in Av. rewrite <- El in Av. exact Av. }
        apply Ev_step; auto.
        -- intros [_ X]. unfold ph in X. rewrite Es in X. discriminate X.
        -- intros [_ X]. unfold ph in X. rewrite Es in X. discriminate X.
        -- apply U; auto. right; right. exists hi, lo, p, k. auto.
    + (* it has just loaded high: the message would be visible in that value *)
      exfalso. destruct (to_qlow s w true hi p k B Es') as (Es & Eh & Me). fold s' in Me.
      unfold avail_b, blow in *. rewrite Cs, Me in *. apply Av'. apply Rz. rewrite <- Eh. exact Hhi.
    + (* it has just loaded low *)
      destruct (to_qslot s w _ true hi lo p k B Es') as (Es & El & _ & Me). fold s' in Me.
      assert (Av : avail_b s).
      { unfold avail_b, blow in *. rewrite Cs, Me in Av'. exact Av'. }
      apply Ev_step; auto.
      * intros [_ X]. unfold ph in X. rewrite Es in X. discriminate X.
      * intros [_ X]. unfold ph in X. rewrite Es in X. discriminate X.
      * apply U; auto. right; left. exists hi, p, k. split; [exact Es|]. unfold blow. rewrite <- El. exact Hhi.
  - (* another thread steps *)
    assert (Sw : stk s' w = stk s w) by (unfold s'; apply stk_step_other; auto).
    assert (Pw : ph w s' = ph w s) by (apply ph_same; [exact Sw | apply Fs; auto]).
    assert (Hl : cell (mem s') c_low = cell (mem s) c_low).
    { apply Fc. intros Ew. destruct (low_writers s t B Ew) as [(v & m & p & k & Es)|(v & c & _ & Es)].
      - apply Ht. eapply Rst; eauto.
      - exact (other_no_mset w s t c_low v [YLoop; FC c] Hj Ht Es). }
    assert (Dg : danger_b w s).
    { unfold danger_b, blow in *. rewrite Sw, Pw, Hl, Cs in Dg'. exact Dg'. }
    destruct (Z.eq_dec (cell (mem s) (c_buf (bidx (csize s) (blow s)))) 0) as [Ez|Av].
    2: { apply Ev_step; auto; try (intros [X _]; contradiction). }
    (* the slot was empty: the step wrote the message *)
    unfold avail_b, blow in Av'. rewrite Cs, Hl in Av'. fold (blow s) in Av'.
    destruct (writes (stk s t)) as [c|] eqn:Ew.
    2: { exfalso. apply Av'. rewrite Fc by congruence. exact Ez. }
    destruct (Nat.eq_dec c (c_buf (bidx (csize s) (blow s)))) as [->|Hc].
    2: { exfalso. apply Av'. rewrite Fc by congruence. exact Ez. }
    destruct (buf_writers s t _ B Ew) as [(x & p & k & Es)|[(m & lo & p & k & Es)|(v & c & _ & Es)]].
    + left. exists t. unfold s', step. rewrite Es. cbn. rewrite upd_same. reflexivity.
    + exfalso. apply Ht. eapply Rc; eauto.
    + exfalso. exact (other_no_mset w s t _ v [YLoop; FC c] Hj Ht Es).
Qed.

Lemma ring_ok_reachable w size progs s :
  0 < size -> BChanProofs.bchan_progs_ok w progs -> reachable M (init size progs) s -> ring_ok w s.
Proof.
  intros Hz Hp R.
  assert (Cz : csize s = size).
  { clear Hz Hp. induction R as [|s t R IH _]; [reflexivity|]. cbn. rewrite csize_step. exact IH. }
  pose proof (BChanProofs.bchan_empty_slot_zero size w progs s Hz Hp R) as [E1 _].
  pose proof (BChanProofs.bchan_receiver_lo size w progs s Hz Hp R) as [L1 _].
  pose proof (BChanProofs.bchan_capacity size w progs s Hz Hp R) as (_ & _ & C3).
  destruct (BChanProofs.reachable_bireach size progs s R) as (x & IR & Ex).
  pose proof (BChanProofs.bchan_fifo size w progs x Hz Hp IR) as (_ & _ & _ & _ & _ & F6).
  cbn in E1, L1, C3, F6. rewrite Ex in F6. unfold ring_ok, blow. rewrite Cz.
  split; [exact E1|]. split; [|split].
  - intros t blk hi lo p k E. destruct (L1 t blk hi lo p k E) as (A & _ & C). auto.
  - intros t c v m l p k E. destruct (C3 t c v m l p k E) as (A & _). exact A.
  - intros t c v mo m p k E. destruct (F6 t c v mo m p k E) as (A & _). exact A.
Qed.

Theorem bchan_J_U w size progs s :
  0 < size -> single_waiter w progs -> BChanProofs.bchan_progs_ok w progs ->
  reachable M (init size progs) s -> J w s /\ U_b w s.
Proof.
  intros Hz Hs Hp R. induction R as [|s t R IH Hst].
  - split; [apply init_J; exact Hs|]. intros _ [[K _]|[(hi & p & k & E & _)|(hi & lo & p & k & E & _)]];
      cbn in K || cbn in E; discriminate.
  - destruct IH as [Hj U].
    assert (Hj' : J w (fst (step s t))) by (apply J_step; auto).
    split; [exact Hj'|]. apply U_b_step; auto.
    + eapply ring_ok_reachable; eauto.
    + eapply ring_ok_reachable; eauto. apply (reach_step M (init size progs) s t R Hst).
Qed.

Theorem bchan_receiver_not_stranded w size progs s :
  0 < size -> single_waiter w progs -> BChanProofs.bchan_progs_ok w progs ->
  reachable M (init size progs) s ->
  wkind (stk s w) = Some WKBRecv -> sleepy (ph w s) = true -> avail_b s ->
  (exists r, at_rx (stk s r) = true) \/
  (registered w s /\ ((exists r, r <> w /\ committed s r w) \/ wake_delivered w s)) \/
  (~ registered w s /\ word s = RAISED).
Proof.
  intros Hz Hs Hp R K Sl Av. destruct (bchan_J_U w size progs s Hz Hs Hp R) as [Hj U].
  apply Ev_meaning; auto.
  - eapply idle_beyond_reachable; eauto.
  - apply U; auto. left. auto.
Qed.
