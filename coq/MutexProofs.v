(* C03 proofs: inductive invariant of the fiber mutex (coq/Mutex.v on coq/T1K.v)
   over an instrumented machine (ghost roles, ghost waiter queue, hand-off log),
   for any number of fibers, any programs, any schedule. *)
From Coq Require Import List ZArith Lia Bool Arith.
From LF Require Import Conc T1K Mutex.
Import ListNotations.
Local Open Scope Z_scope.

(* ---------------- ghost state ---------------- *)
Inductive grole := Idle | Announced | Owner.
(* progress of the hand-off to a waiter: not popped / popped by u (node not yet
   given back) / node given back by u / wake-up delivered *)
Inductive hst := HNone | HPopped (u : nat) | HNode (u : nat) | HWoken.
Inductive gev := GPop (f : nat) | GWake (f : nat).

Record ist := mkI {
  base : st;
  role : nat -> grole;
  hand : nat -> hst;
  gq : list (nat * nat);        (* (waiter, its node), oldest first: pushed (tail swapped), not yet popped *)
  debt : option nat;            (* the unlocker that saw contention and has not popped yet *)
  ulog : nat -> list gev;       (* pops / wake-ups of thread t's current (last) unlock *)
  ucont : nat -> bool           (* did t's last UAdd see contention *)
}.

Definition gstep (x : ist) (t : nat) : ist :=
  let s := base x in
  let m := mem s in
  let s' := fst (step s t) in
  match stk s t with
  | LSub q :: _ =>
      mkI s' (upd (role x) t (if word m q - 1 =? 0 then Owner else Announced))
          (upd (hand x) t HNone) (gq x) (debt x) (ulog x) (ucont x)
  | TCas q :: _ =>
      if word m q =? 1
      then mkI s' (upd (role x) t Owner) (upd (hand x) t HNone) (gq x) (debt x) (ulog x) (ucont x)
      else mkI s' (role x) (hand x) (gq x) (debt x) (ulog x) (ucont x)
  | UAdd q :: _ =>
      mkI s' (upd (role x) t Idle) (hand x) (gq x)
          (if word m q + 1 =? 1 then debt x else Some t)
          (upd (ulog x) t []) (upd (ucont x) t (negb (word m q + 1 =? 1)))
  | WXchg q n :: _ =>
      mkI s' (role x) (hand x) (gq x ++ [(t, n)]) (debt x) (ulog x) (ucont x)
  | KSetHead q _ _ h nx :: _ =>
      let f := tid_of_name (ndata m nx) in
      mkI s' (upd (role x) f Owner) (upd (hand x) f (HPopped t)) (tl (gq x)) None
          (upd (ulog x) t (ulog x t ++ [GPop f])) (ucont x)
  | KOut q _ _ h :: _ =>
      let f := tid_of_name (ndata m h) in
      mkI s' (role x) (upd (hand x) f (HNode t)) (gq x) (debt x) (ulog x) (ucont x)
  | KState q _ _ f :: _ =>
      if fstate m f =? ST_WAITING
      then mkI s' (role x) (hand x) (gq x) (debt x) (ulog x) (ucont x)
      else mkI s' (role x) (upd (hand x) f HWoken) (gq x) (debt x)
               (upd (ulog x) t (ulog x t ++ [GWake f])) (ucont x)
  | KReady q _ _ f :: _ =>
      mkI s' (role x) (upd (hand x) f HWoken) (gq x) (debt x)
          (upd (ulog x) t (ulog x t ++ [GWake f])) (ucont x)
  | _ => mkI s' (role x) (hand x) (gq x) (debt x) (ulog x) (ucont x)
  end.

Lemma gstep_base x t : base (gstep x t) = fst (step (base x) t).
Proof.
  unfold gstep. destruct (stk (base x) t) as [|f r]; [reflexivity|].
  destruct f; try reflexivity.
  - destruct (fstate (mem (base x)) f =? ST_WAITING); reflexivity.
  - destruct (word (mem (base x)) q =? 1); reflexivity.
Qed.

Definition iinit (progs : list (list mop)) : ist :=
  mkI (init progs) (fun _ => Idle) (fun _ => HNone) [] None (fun _ => []) (fun _ => false).

Inductive ireach (progs : list (list mop)) : ist -> Prop :=
| ireach_init : ireach progs (iinit progs)
| ireach_step x t : ireach progs x -> status_of (base x) t = SReady -> ireach progs (gstep x t).

(* erasure: the ghosts do not influence the run *)
Lemma reachable_ireach progs s :
  reachable M (init progs) s -> exists x, ireach progs x /\ base x = s.
Proof.
  induction 1 as [|s t R [x [I E]] St].
  - exists (iinit progs). split; [constructor|reflexivity].
  - exists (gstep x t). split.
    + constructor; [exact I|]. rewrite E. exact St.
    + rewrite gstep_base, E. reflexivity.
Qed.

Lemma ireach_reachable progs x : ireach progs x -> reachable M (init progs) (base x).
Proof.
  induction 1.
  - constructor.
  - rewrite gstep_base. now apply (reach_step M (init progs) (base x) t).
Qed.

(* ---------------- phases: the reachable stack shapes ---------------- *)
Inductive wfr := WfSaving | WfData | WfNext (n : nat) | WfXchg (n : nat) | WfLink (a n : nat)
  | WfY | WfYN (st : Z) | WfSw | WfSd | WfMr | WfMf | WfAs | WfRe.
Inductive kfr := KfHead | KfNext (h : nat) | KfSet (h nx : nat) | KfSpY | KfSpN (st : Z)
  | KfData (h nx : nat) | KfCopy (h : nat) (d : Z) | KfOut (h : nat) | KfState (f : nat) | KfReady (f : nat).
Inductive ph :=
  | PInit (pr : list mop) | PDone
  | PLSub (p : list mop) (k : nat) | PTCas (p : list mop) (k : nat)
  | PCs (p : list mop) (k : nat) (r : Z) | PRd (p : list mop) (k : nat) | PUAdd (p : list mop) (k : nat)
  | PW (w : wfr) (p : list mop) (k : nat) | PK (kf : kfr) (p : list mop) (k : nat)
  | PUY (p : list mop) (k : nat) | PUYN (st : Z) (p : list mop) (k : nat).

Definition wframes (w : wfr) : stack mc :=
  match w with
  | WfSaving => [WSaving 0] | WfData => [WData 0] | WfNext n => [WNext 0 n] | WfXchg n => [WXchg 0 n]
  | WfLink a n => [WLink 0 a n] | WfY => [YRead] | WfYN st => [YNext st]
  | WfSw => [SwRead; YLoop] | WfSd => [SwDone; YLoop] | WfMr => [MRead; YLoop] | WfMf => [MFlip; YLoop]
  | WfAs => [Asleep; YLoop] | WfRe => [Resume; YLoop]
  end.
Definition kframes (kf : kfr) : stack mc :=
  match kf with
  | KfHead => [KHead 0 1 0] | KfNext h => [KNext 0 1 0 h] | KfSet h nx => [KSetHead 0 1 0 h nx]
  | KfSpY => [YRead; KSpin 0 1 0] | KfSpN st => [YNext st; KSpin 0 1 0]
  | KfData h nx => [KData 0 1 0 h nx] | KfCopy h d => [KCopy 0 1 0 h d] | KfOut h => [KOut 0 1 0 h]
  | KfState f => [KState 0 1 0 f] | KfReady f => [KReady 0 1 0 f]
  end.
Definition stk_of (t : nat) (p : ph) : stack mc :=
  match p with
  | PInit pr => [Start; FC (MNext pr 1 false)]
  | PDone => []
  | PLSub p k => [LSub 0; FC (MLocked p k 1)]
  | PTCas p k => [TCas 0; FC (MLocked p k 0)]
  | PCs p k r => [CWrite 0 (Zn t + 1); FC (MWrote p k r)]
  | PRd p k => [CRead 0; FC (MReadBack p k)]
  | PUAdd p k => [UAdd 0; UYield; FC (MUnlocked p k 1)]
  | PW w p k => wframes w ++ [LWaited; FC (MLocked p k 1)]
  | PK kf p k => kframes kf ++ [UWoke; UYield; FC (MUnlocked p k 1)]
  | PUY p k => [YRead; UDone; FC (MUnlocked p k 1)]
  | PUYN st p k => [YNext st; UDone; FC (MUnlocked p k 1)]
  end.

(* thread t's own scalars *)
Record view := mkV { vfs : Z; vfn : nat; vpd : nat; vbl : bool; vro : grole; vha : hst;
                     vul : list gev; vuc : bool; vinq : Prop }.
Definition view_of (x : ist) (t : nat) : view :=
  let m := mem (base x) in
  mkV (fstate m t) (fnode m t) (pend m t) (blocked m t) (role x t) (hand x t) (ulog x t) (ucont x t)
      (In t (map fst (gq x))).

Definition settled (h : hst) := h = HNone \/ h = HWoken.
Definition calm (v : view) := vpd v = O /\ vbl v = false /\ vfn v <> O /\ ~ vinq v /\ settled (vha v).
Definition done_log (v : view) :=
  (vuc v = false -> vul v = []) /\ (vuc v = true -> exists f, vul v = [GPop f; GWake f]).
(* a waiter that has linked its node: queued, or handed the lock *)
Definition wq (v : view) :=
  match vha v with
  | HNone => vro v = Announced /\ vinq v /\ vfn v = O /\ vpd v = O
  | HPopped _ => vro v = Owner /\ ~ vinq v /\ vfn v = O /\ vpd v = O
  | HNode _ => vro v = Owner /\ ~ vinq v /\ vfn v <> O /\ vpd v = O
  | HWoken => vro v = Owner /\ ~ vinq v /\ vfn v <> O
  end.
Definition preflip (v : view) :=
  wq v /\ vfs v = ST_SAVING /\ vbl v = false /\ (vha v = HWoken -> vpd v = 1%nat) .
Definition resumed (v : view) :=
  wq v /\ vha v = HWoken /\ vfs v = ST_RUNNING /\ vpd v = O /\ vbl v = false.
Definition prelink (v : view) :=
  vpd v = O /\ vbl v = false /\ vfn v = O /\ vha v = HNone /\ vro v = Announced /\ vfs v = ST_SAVING.

Definition kbase (v : view) := calm v /\ vro v = Idle /\ vfs v = ST_RUNNING /\ vuc v = true.

Definition Lw (v : view) (w : wfr) : Prop :=
  match w with
  | WfSaving => calm v /\ vha v = HNone /\ vro v = Announced /\ vfs v = ST_RUNNING
  | WfData => calm v /\ vha v = HNone /\ vro v = Announced /\ vfs v = ST_SAVING
  | WfNext _ | WfXchg _ => prelink v /\ ~ vinq v
  | WfLink _ _ => prelink v /\ vinq v
  | WfY => preflip v \/ resumed v
  | WfYN st => st = vfs v /\ (preflip v \/ resumed v)
  | WfSw | WfSd | WfMr | WfMf => preflip v
  | WfAs => wq v /\ ((vha v <> HWoken /\ vfs v = ST_WAITING /\ vbl v = true) \/
                     (vha v = HWoken /\ vbl v = false /\ vpd v = O))
  | WfRe => wq v /\ vha v = HWoken /\ vbl v = false /\ vpd v = O
  end.

Definition kpre (kf : kfr) : bool :=
  match kf with KfHead | KfNext _ | KfSet _ _ | KfSpY | KfSpN _ => true | _ => false end.

Definition Lk (v : view) (kf : kfr) : Prop :=
  kbase v /\ (kpre kf = true -> vul v = []) /\
  match kf with KfSpN st => st = vfs v | _ => True end.

Definition L (v : view) (p : ph) : Prop :=
  match p with
  | PInit _ => calm v /\ vro v = Idle /\ done_log v
  | PDone => calm v /\ (vro v = Idle \/ vro v = Owner) /\ done_log v
  | PLSub _ _ | PTCas _ _ => calm v /\ vro v = Idle /\ vfs v = ST_RUNNING /\ done_log v
  | PCs _ _ _ | PRd _ _ | PUAdd _ _ => calm v /\ vro v = Owner /\ vfs v = ST_RUNNING /\ done_log v
  | PW w _ _ => Lw v w /\ done_log v
  | PK kf _ _ => Lk v kf
  | PUY _ _ => kbase v /\ exists f, vul v = [GPop f; GWake f]
  | PUYN st _ _ => kbase v /\ st = vfs v /\ exists f, vul v = [GPop f; GWake f]
  end.

(* predecessor (in the chain head :: nodes of gq) of thread t's node *)
Fixpoint pred_of (a : nat) (l : list (nat * nat)) (t : nat) : option nat :=
  match l with
  | [] => None
  | (u, n) :: r => if Nat.eqb u t then Some a else pred_of n r t
  end.

Definition popping (x : ist) (t f : nat) (h : hst) : Prop :=
  hand x f = h /\ role x f = Owner /\ ulog x t = [GPop f].

Definition Xk (x : ist) (t : nat) (kf : kfr) : Prop :=
  let m := mem (base x) in
  match kf with
  | KfHead | KfSpY | KfSpN _ => debt x = Some t
  | KfNext h => debt x = Some t /\ h = qhead m 0
  | KfSet h nx => debt x = Some t /\ h = qhead m 0 /\ nnext m h = nx /\ nx <> O
  | KfData h nx => nx = qhead m 0 /\ exists f, ndata m nx = fname f /\ popping x t f (HPopped t)
  | KfCopy h d => exists f, d = fname f /\ popping x t f (HPopped t)
  | KfOut h => exists f, ndata m h = fname f /\ popping x t f (HPopped t)
  | KfState f => popping x t f (HNode t)
  | KfReady f => popping x t f (HNode t) /\ fstate m f = ST_WAITING
  end.

Definition X (x : ist) (t : nat) (p : ph) : Prop :=
  let m := mem (base x) in
  match p with
  | PRd _ _ => cell m 0 = Zn t + 1
  | PW (WfNext n) _ _ => ndata m n = fname t
  | PW (WfXchg n) _ _ => ndata m n = fname t /\ nnext m n = O
  | PW (WfLink a n) _ _ => pred_of (qhead m 0) (gq x) t = Some a /\ nnext m a = O /\ In (t, n) (gq x)
  | PK kf _ _ => Xk x t kf
  | _ => True
  end.

(* nodes privately owned by thread t *)
Definition extra (s : stack mc) : list nat :=
  match s with
  | WNext _ n :: _ | WXchg _ n :: _ => [n]
  | KData _ _ _ h _ :: _ | KCopy _ _ _ h _ :: _ | KOut _ _ _ h :: _ => [h]
  | _ => []
  end.
Definition priv (x : ist) (t : nat) : list nat :=
  (if Nat.eqb (fnode (mem (base x)) t) 0 then [] else [fnode (mem (base x)) t]) ++ extra (stk (base x) t).
Definition chain (x : ist) : list nat := qhead (mem (base x)) 0 :: map snd (gq x).

Fixpoint chain_ok (m : kmem) (a : nat) (l : list (nat * nat)) : Prop :=
  match l with
  | [] => nnext m a = O /\ qtail m 0 = a
  | (_, n) :: r => (nnext m a = n \/ nnext m a = O) /\ chain_ok m n r
  end.

Definition cnt (P : nat -> bool) (n : nat) : nat := length (filter P (seq 0 n)).
Definition is_owner (r : grole) := match r with Owner => true | _ => false end.
Definition is_ann (r : grole) := match r with Announced => true | _ => false end.
Definition nown (x : ist) := cnt (fun t => is_owner (role x t)) (nthr (base x)).
Definition nann (x : ist) := cnt (fun t => is_ann (role x t)) (nthr (base x)).

(* roles, debt and the counter *)
Record InvC (x : ist) : Prop := {
  I_role_lt : forall t, role x t <> Idle -> (t < nthr (base x))%nat;
  I_own1 : forall t u, role x t = Owner -> role x u = Owner -> t = u;
  I_debt_own : forall d t, debt x = Some d -> role x t <> Owner;
  I_debt_ann : forall d, debt x = Some d -> exists t, role x t = Announced;
  I_nodebt : debt x = None -> nown x = 1%nat \/ nann x = O;
  I_count : word (mem (base x)) 0 = 1 - Z.of_nat (nown x) - Z.of_nat (nann x);
  I_gq_role : forall t n, In (t, n) (gq x) -> role x t = Announced
}.
(* the waiter list of object 0 and node ownership *)
Record InvN (x : ist) : Prop := {
  I_gq_nd : NoDup (map fst (gq x));
  I_chain_nd : NoDup (chain x);
  I_chain_nz : forall n, In n (chain x) -> n <> O;
  I_chain : chain_ok (mem (base x)) (qhead (mem (base x)) 0) (gq x);
  I_gq_ent : forall t n, In (t, n) (gq x) -> ndata (mem (base x)) n = fname t;
  I_priv_nz : forall t n, In n (priv x t) -> n <> O;
  I_priv_nd : forall t, NoDup (priv x t);
  I_priv_disj : forall t u n, t <> u -> In n (priv x t) -> ~ In n (priv x u);
  I_priv_chain : forall t n, In n (priv x t) -> ~ In n (chain x)
}.
Definition thr_ok (x : ist) (t : nat) : Prop :=
  exists p, stk (base x) t = stk_of t p /\ L (view_of x t) p /\ X x t p.
Definition slots_ok (m : kmem) : Prop :=
  forall t, slot_mutex m t = None /\ slot_sched m t = false /\ slot_wait m t = None /\ slot_mpmc m t = None.
Record Inv (x : ist) : Prop := {
  I_thr : forall t, thr_ok x t;
  I_slots : slots_ok (mem (base x));
  I_debt_k : forall d, debt x = Some d ->
             exists kf p k, stk (base x) d = stk_of d (PK kf p k) /\ kpre kf = true;
  I_C : InvC x;
  I_N : InvN x
}.

(* ---------------- counting ---------------- *)
Lemma cnt_S P n : cnt P (S n) = (cnt P n + (if P n then 1 else 0))%nat.
Proof.
  unfold cnt. rewrite seq_S, filter_app, app_length. cbn.
  destruct (P n); reflexivity.
Qed.

Lemma cnt_ext P Q n : (forall t, (t < n)%nat -> P t = Q t) -> cnt P n = cnt Q n.
Proof.
  induction n as [|n IH]; intros H; [reflexivity|].
  rewrite !cnt_S, IH, (H n) by (intros; auto with arith). reflexivity.
Qed.

Lemma cnt_upd P Q n t : (t < n)%nat -> (forall u, u <> t -> P u = Q u) ->
  (cnt P n + (if Q t then 1 else 0) = cnt Q n + (if P t then 1 else 0))%nat.
Proof.
  induction n as [|n IH]; intros Ht H; [lia|].
  rewrite !cnt_S. destruct (Nat.eq_dec t n) as [->|N].
  - rewrite (cnt_ext P Q n) by (intros u Hu; apply H; lia). lia.
  - rewrite (H n) by congruence. assert (t < n)%nat by lia. specialize (IH H0 H). lia.
Qed.

Lemma cnt_pos P n t : (t < n)%nat -> P t = true -> (1 <= cnt P n)%nat.
Proof.
  induction n as [|n IH]; intros Ht H; [lia|]. rewrite cnt_S.
  destruct (Nat.eq_dec t n) as [->|N]; [rewrite H; lia|].
  assert (t < n)%nat by lia. specialize (IH H0 H). lia.
Qed.

Lemma cnt_zero P n : (forall t, (t < n)%nat -> P t = false) -> cnt P n = O.
Proof.
  induction n as [|n IH]; intros H; [reflexivity|].
  rewrite cnt_S, IH, (H n) by (intros; auto with arith). reflexivity.
Qed.

Lemma cnt_ex P n : (1 <= cnt P n)%nat -> exists t, (t < n)%nat /\ P t = true.
Proof.
  induction n as [|n IH]; intros H; [cbn in H; lia|]. rewrite cnt_S in H.
  destruct (P n) eqn:E; [exists n; auto|].
  destruct IH as [t [Ht Pt]]; [lia|]. exists t. auto.
Qed.

Lemma cnt_le1 P n : (forall t u, P t = true -> P u = true -> t = u) -> (cnt P n <= 1)%nat.
Proof.
  intros U. induction n as [|n IH]; [cbn; lia|]. rewrite cnt_S.
  destruct (P n) eqn:E; [|lia].
  rewrite cnt_zero; [lia|]. intros t Ht. destruct (P t) eqn:E2; [|reflexivity].
  specialize (U _ _ E E2). lia.
Qed.

(* ---------------- what [start] can produce ---------------- *)
Lemma start_false t p k :
  snd (start t p k false) = [] \/
  (exists p' k', snd (start t p k false) = stk_of t (PLSub p' k')) \/
  (exists p' k', snd (start t p k false) = stk_of t (PTCas p' k')).
Proof.
  revert k. induction p as [|o p IH]; intros k; [left; reflexivity|].
  destruct o; cbn.
  - right. left. eauto.
  - right. right. eauto.
  - specialize (IH (S k)). destruct (start t p (S k) false) as [e s]. exact IH.
Qed.

Lemma start_true t p k :
  snd (start t p k true) = [] \/ exists p' k', snd (start t p k true) = stk_of t (PRd p' k').
Proof.
  revert k. induction p as [|o p IH]; intros k; [left; reflexivity|].
  destruct o; cbn.
  - specialize (IH (S k)). destruct (start t p (S k) true) as [e s]. exact IH.
  - specialize (IH (S k)). destruct (start t p (S k) true) as [e s]. exact IH.
  - right. eauto.
Qed.

Lemma tid_of_fname f : tid_of_name (fname f) = f.
Proof. unfold tid_of_name, fname, Zn. replace (1000 + Z.of_nat f - 1000) with (Z.of_nat f) by lia. apply Nat2Z.id. Qed.

Lemma fname_inj t u : fname t = fname u -> t = u.
Proof. unfold fname, Zn. lia. Qed.

(* ---------------- the initial state ---------------- *)
Lemma inv_init progs : Inv (iinit progs).
Proof.
  assert (Z0 : forall n, cnt (fun _ => false) n = O) by (intros; apply cnt_zero; reflexivity).
  constructor; [| | |constructor|constructor]; unfold slots_ok, nown, nann, chain, priv;
  cbn [iinit base role hand gq debt ulog ucont init mem stk nthr kinit
    slot_mutex slot_sched slot_wait slot_mpmc word qhead qtail nnext ndata fnode map is_owner is_ann chain_ok];
    try discriminate; try tauto.
  - intros t. exists (PInit (nth t progs [])). split; [reflexivity|]. split; [|exact I].
    cbn. unfold calm, done_log, settled; cbn. intuition discriminate.
  - right. apply Z0.
  - rewrite !Z0. reflexivity.
  - intros t n [].
  - constructor.
  - constructor; [intros []|constructor].
  - intros n [<-|[]]. discriminate.
  - intros t n [].
  - cbn. intros t n [<-|[]]. lia.
  - cbn. intros t. constructor; [intros []|constructor].
  - cbn. intros t u n N [<-|[]] [E|[]]. lia.
  - cbn. intros t n [<-|[]] [E|[]]. lia.
Qed.

(* ---------------- frame lemmas ---------------- *)
Lemma chain_ok_ext m m' a l :
  nnext m' = nnext m -> qtail m' 0%nat = qtail m 0%nat -> chain_ok m a l -> chain_ok m' a l.
Proof.
  intros E1 E2. revert a. induction l as [|[u n] r IH]; intros a; cbn; rewrite E1; [rewrite E2; tauto|].
  intros [H1 H2]. split; [exact H1|]. apply IH. exact H2.
Qed.

Lemma invN_frame x x' :
  qhead (mem (base x')) = qhead (mem (base x)) -> qtail (mem (base x')) = qtail (mem (base x)) ->
  nnext (mem (base x')) = nnext (mem (base x)) -> ndata (mem (base x')) = ndata (mem (base x)) ->
  fnode (mem (base x')) = fnode (mem (base x)) -> gq x' = gq x ->
  (forall u, extra (stk (base x') u) = extra (stk (base x) u)) ->
  InvN x -> InvN x'.
Proof.
  intros Eh Et En Ed Ef Eq Ex N.
  assert (Ec : chain x' = chain x) by (unfold chain; rewrite Eh, Eq; reflexivity).
  assert (Ep : forall u, priv x' u = priv x u) by (intros u; unfold priv; rewrite Ef, Ex; reflexivity).
  destruct N. constructor; rewrite ?Ec, ?Eq, ?Eh, ?Ed; auto.
  - apply (chain_ok_ext (mem (base x))); auto. now rewrite Et.
  - intros t n. rewrite Ep. apply I_priv_nz0.
  - intros t. rewrite Ep. auto.
  - intros t u n. rewrite !Ep. apply I_priv_disj0.
  - intros t n. rewrite Ep. apply I_priv_chain0.
Qed.

Lemma invC_frame x x' :
  role x' = role x -> debt x' = debt x -> gq x' = gq x ->
  word (mem (base x')) 0%nat = word (mem (base x)) 0%nat -> nthr (base x') = nthr (base x) ->
  InvC x -> InvC x'.
Proof.
  intros Er Ed Eq Ew En C.
  assert (E1 : nown x' = nown x) by (unfold nown; rewrite Er, En; reflexivity).
  assert (E2 : nann x' = nann x) by (unfold nann; rewrite Er, En; reflexivity).
  destruct C. constructor; rewrite ?E1, ?E2, ?Er, ?Ed, ?Eq, ?Ew, ?En; auto.
Qed.

Definition view_eqv (v v' : view) : Prop :=
  vfs v' = vfs v /\ vfn v' = vfn v /\ vpd v' = vpd v /\ vbl v' = vbl v /\ vro v' = vro v /\
  vha v' = vha v /\ vul v' = vul v /\ vuc v' = vuc v /\ (vinq v' <-> vinq v).

Lemma L_eqv v v' p : view_eqv v v' -> L v p -> L v' p.
Proof.
  destruct v, v'. unfold view_eqv. cbn [vfs vfn vpd vbl vro vha vul vuc vinq].
  intros (-> & -> & -> & -> & -> & -> & -> & -> & Hq).
  destruct p as [| | | | | | |w ? ?|kf ? ?| |]; try destruct w; try destruct kf;
  unfold L, Lw, Lk, kbase, calm, done_log, preflip, resumed, prelink, wq, settled;
  cbn [vfs vfn vpd vbl vro vha vul vuc vinq]; try destruct vha0; tauto.
Qed.

Lemma X_frame x x' u p :
  cell (mem (base x')) = cell (mem (base x)) -> ndata (mem (base x')) = ndata (mem (base x)) ->
  nnext (mem (base x')) = nnext (mem (base x)) -> qhead (mem (base x')) = qhead (mem (base x)) ->
  gq x' = gq x -> debt x' = debt x -> hand x' = hand x -> role x' = role x -> ulog x' = ulog x ->
  (forall f pp k, p = PK (KfReady f) pp k -> popping x u f (HNode u) ->
     fstate (mem (base x)) f = ST_WAITING -> fstate (mem (base x')) f = ST_WAITING) ->
  X x u p -> X x' u p.
Proof.
  intros Ec Ed En Eh Eq Eb Ea Er El Hf.
  destruct p as [| | | | | | |w ? ?|kf pp k| |]; try destruct w; try destruct kf;
  unfold X, Xk, popping; rewrite ?Ec, ?Ed, ?En, ?Eh, ?Eq, ?Eb, ?Ea, ?Er, ?El; auto.
  intros [H1 H2]. split; [exact H1|]. eapply Hf; eauto.
Qed.

Definition mk (x : ist) (t : nat) (m' : kmem) (s' : stack mc) r h q d l c : ist :=
  mkI {| mem := m'; stk := upd (stk (base x)) t s'; nthr := nthr (base x) |} r h q d l c.

(* memory changed at most in thread t's own state / sleep bookkeeping *)
Definition loc_eq (m m' : kmem) (t : nat) : Prop :=
  ndata m' = ndata m /\ nnext m' = nnext m /\ word m' = word m /\ qhead m' = qhead m /\
  qtail m' = qtail m /\ fnode m' = fnode m /\ cell m' = cell m /\
  slot_mutex m' = slot_mutex m /\ slot_sched m' = slot_sched m /\ slot_wait m' = slot_wait m /\
  slot_mpmc m' = slot_mpmc m /\
  (forall u, u <> t -> fstate m' u = fstate m u /\ blocked m' u = blocked m u /\ pend m' u = pend m u).

Lemma stk_of_K_inj t p kf pp k : stk_of t p = stk_of t (PK kf pp k) -> p = PK kf pp k.
Proof.
  destruct p as [| | | | | | |w ? ?|kf' ? ?| |]; try destruct w; destruct kf; try destruct kf';
  cbn; intros E; try discriminate; injection E; intros; subst; reflexivity.
Qed.

Lemma inv_local x t m' s' p' :
  Inv x ->
  loc_eq (mem (base x)) m' t ->
  s' = stk_of t p' -> extra s' = extra (stk (base x) t) ->
  let x' := mk x t m' s' (role x) (hand x) (gq x) (debt x) (ulog x) (ucont x) in
  L (view_of x' t) p' -> X x' t p' ->
  (fstate m' t = fstate (mem (base x)) t \/ fstate (mem (base x)) t <> ST_WAITING \/
   forall u, hand x t <> HNode u) ->
  (debt x = Some t -> exists kf p k, p' = PK kf p k /\ kpre kf = true) ->
  Inv x'.
Proof.
  intros I (Ed & En & Ew & Eh & Et & Ef & Ec & S1 & S2 & S3 & S4 & Eo) Es Ee x' HL HX Hfs Hd.
  assert (Est : forall u, u <> t -> stk (base x') u = stk (base x) u)
    by (intros u Hu; cbn; apply upd_other; exact Hu).
  assert (Est' : stk (base x') t = s') by (cbn; apply upd_same).
  constructor.
  - intros u. destruct (Nat.eq_dec u t) as [->|N].
    + exists p'. rewrite Est'. auto.
    + destruct (I_thr x I u) as [p [P1 [P2 P3]]]. exists p. rewrite (Est u N). split; [exact P1|].
      destruct (Eo u N) as (F1 & F2 & F3). split.
      * eapply L_eqv; [|exact P2]. unfold view_eqv, view_of; cbn. rewrite F1, F2, F3, Ef. tauto.
      * eapply X_frame; [..|exact P3]; cbn; auto.
        intros f pp k -> Hp Hw. destruct (Nat.eq_dec f t) as [->|Nf].
        -- destruct Hfs as [E|[E|E]]; [congruence|contradiction|]. destruct Hp as [Hp _]. now apply E in Hp.
        -- destruct (Eo f Nf) as (G1 & _). congruence.
  - intros u. cbn. rewrite S1, S2, S3, S4. apply (I_slots x I).
  - intros d Hdd. cbn in Hdd. destruct (Nat.eq_dec d t) as [->|N].
    + destruct (Hd Hdd) as (kf & p & k & -> & K). exists kf, p, k. rewrite Est'. auto.
    + rewrite (Est d N). apply (I_debt_k x I). exact Hdd.
  - apply (invC_frame x); cbn; auto. now rewrite Ew. apply (I_C x I).
  - apply (invN_frame x); cbn; auto.
    + intros u. destruct (Nat.eq_dec u t) as [->|N]; [rewrite upd_same; exact Ee|now rewrite upd_other].
    + apply (I_N x I).
Qed.

(* ---------------- the steps ---------------- *)
Ltac gred Hs := unfold gstep, step; rewrite Hs; cbn [stk_of wframes kframes app].
Ltac loc_tac := unfold loc_eq; cbn; repeat split; try reflexivity; intros;
                rewrite ?upd_other by assumption; auto.
Ltac vw := unfold view_of; cbn [mk base mem stk nthr role hand gq debt ulog ucont];
           cbn [set_fstate set_pend set_blocked set_word set_cell set_ndata set_nnext set_qtail set_qhead set_fnode
                fstate fnode pend blocked word cell ndata nnext qhead qtail];
           rewrite ?upd_same.

Section Steps.
Variable x : ist.
Variable t : nat.
Hypothesis HI : Inv x.
Notation m := (mem (base x)).

Lemma no_debt p :
  stk (base x) t = stk_of t p -> (forall kf pp k, p <> PK kf pp k) -> debt x = Some t -> False.
Proof.
  intros Hs Hn Hd. destruct (I_debt_k x HI t Hd) as (kf & pp & k & E & _).
  rewrite Hs in E. apply stk_of_K_inj in E. destruct (Hn _ _ _ E).
Qed.

Lemma settled_not_node h u : settled h -> h <> HNode u.
Proof. intros [->| ->]; discriminate. Qed.

Lemma step_PInit pr :
  stk (base x) t = stk_of t (PInit pr) -> L (view_of x t) (PInit pr) -> Inv (gstep x t).
Proof.
  intros Hs HL. gred Hs. cbn.
  pose proof (start_false t pr 1) as Hst.
  destruct (start t pr 1 false) as [e s]. cbn [snd] in Hst. cbn. rewrite app_nil_r.
  destruct HL as (Hc & Hr & Hl).
  assert (Hnd : debt x = Some t -> False) by (apply (no_debt _ Hs); discriminate).
  assert (HH : forall u, hand x t <> HNode u).
  { intros u. apply settled_not_node. apply Hc. }
  destruct Hst as [->|[(p' & k' & ->)|(p' & k' & ->)]].
  - apply (inv_local x t _ _ PDone HI); [loc_tac|reflexivity|rewrite Hs; reflexivity| |exact I| |]; auto.
    + revert Hc Hr Hl. unfold L, calm, done_log. vw. cbn. tauto.
    + intros Hd. destruct (Hnd Hd).
  - apply (inv_local x t _ _ (PLSub p' k') HI); [loc_tac|reflexivity|rewrite Hs; reflexivity| |exact I| |]; auto.
    + revert Hc Hr Hl. unfold L, calm, done_log. vw. cbn. tauto.
    + intros Hd. destruct (Hnd Hd).
  - apply (inv_local x t _ _ (PTCas p' k') HI); [loc_tac|reflexivity|rewrite Hs; reflexivity| |exact I| |]; auto.
    + revert Hc Hr Hl. unfold L, calm, done_log. vw. cbn. tauto.
    + intros Hd. destruct (Hnd Hd).
Qed.

Ltac local p' Hs := apply (inv_local x t _ _ p' HI); [loc_tac | reflexivity | rewrite Hs; reflexivity | .. ].
Ltac nodebt Hs := let Hd := fresh in intros Hd; exfalso; revert Hd; apply (no_debt _ Hs); discriminate.

Lemma step_PRd p k :
  stk (base x) t = stk_of t (PRd p k) -> L (view_of x t) (PRd p k) -> X x t (PRd p k) -> Inv (gstep x t).
Proof.
  intros Hs HL HX. gred Hs. cbn in HX. cbn. rewrite HX, Z.eqb_refl. cbn.
  local (PUAdd p k) Hs; [exact HL|exact I|auto|nodebt Hs].
Qed.

Lemma step_WfSaving p k :
  stk (base x) t = stk_of t (PW WfSaving p k) -> L (view_of x t) (PW WfSaving p k) -> Inv (gstep x t).
Proof.
  intros Hs HL. gred Hs. cbn.
  local (PW WfData p k) Hs; [|exact I| |nodebt Hs].
  - revert HL. unfold L, Lw, calm, done_log. vw. cbn. tauto.
  - right. right. intros u. apply settled_not_node. apply HL.
Qed.

Lemma step_WfY p k :
  stk (base x) t = stk_of t (PW WfY p k) -> L (view_of x t) (PW WfY p k) -> Inv (gstep x t).
Proof.
  intros Hs HL. gred Hs. cbn.
  local (PW (WfYN (fstate m t)) p k) Hs; [|exact I|auto|nodebt Hs].
  revert HL. unfold L, Lw. cbn. tauto.
Qed.

Lemma step_WfYN st p k :
  stk (base x) t = stk_of t (PW (WfYN st) p k) -> L (view_of x t) (PW (WfYN st) p k) -> Inv (gstep x t).
Proof.
  intros Hs HL. destruct HL as [[Est HL] Hlog]. cbn [view_of vfs] in Est. subst st.
  gred Hs. destruct HL as [HL|HL].
  - assert (E : fstate m t = ST_SAVING) by apply HL. cbn in E. rewrite E. cbn.
    local (PW WfSw p k) Hs; [|exact I|auto|nodebt Hs].
    split; [exact HL|exact Hlog].
  - assert (E : fstate m t = ST_RUNNING) by apply HL. cbn in E. rewrite E. cbn.
    local (PCs p k 1) Hs; [|exact I|auto|nodebt Hs].
    revert HL Hlog. unfold L, resumed, wq, calm, done_log, settled. cbn.
    intros (W & H & R) Hl. rewrite H in W. tauto.
Qed.

Lemma step_WfSw p k :
  stk (base x) t = stk_of t (PW WfSw p k) -> L (view_of x t) (PW WfSw p k) -> Inv (gstep x t).
Proof.
  intros Hs HL. gred Hs. destruct HL as [HL Hlog].
  assert (E : fstate m t = ST_SAVING) by apply HL. cbn in E. cbn. rewrite E. cbn.
  local (PW WfSd p k) Hs; [|exact I|auto|nodebt Hs].
  split; [exact HL|exact Hlog].
Qed.

Lemma step_WfSd p k :
  stk (base x) t = stk_of t (PW WfSd p k) -> L (view_of x t) (PW WfSd p k) -> Inv (gstep x t).
Proof.
  intros Hs HL. gred Hs. cbn.
  local (PW WfMr p k) Hs; [exact HL|exact I|auto|nodebt Hs].
Qed.

Lemma step_WfMr p k :
  stk (base x) t = stk_of t (PW WfMr p k) -> L (view_of x t) (PW WfMr p k) -> Inv (gstep x t).
Proof.
  intros Hs HL. gred Hs. destruct HL as [HL Hlog].
  assert (E : fstate m t = ST_SAVING) by apply HL. cbn in E. cbn. rewrite E. cbn.
  local (PW WfMf p k) Hs; [|exact I|auto|nodebt Hs].
  split; [exact HL|exact Hlog].
Qed.

Lemma run_slots_none (mm : kmem) r :
  slots_ok mm -> run_slots mc mm t r = (let '(m2, e2, s2) := sleep mc mm t r in (m2, [] ++ e2, s2)).
Proof.
  intros S. destruct (S t) as (S1 & S2 & S3 & S4). unfold run_slots. rewrite S2, S4, S1, S3. reflexivity.
Qed.

Lemma step_WfMf p k :
  stk (base x) t = stk_of t (PW WfMf p k) -> L (view_of x t) (PW WfMf p k) -> Inv (gstep x t).
Proof.
  intros Hs HL. gred Hs. destruct HL as [HL Hlog].
  cbn -[run_slots]. rewrite run_slots_none by (intros u; apply (I_slots x HI)).
  unfold sleep. cbn [set_fstate pend].
  destruct HL as (W & Hf & Hb & Hp). cbn [view_of vfs vbl vha vpd] in Hf, Hb, Hp.
  assert (NW : fstate m t <> ST_WAITING) by (rewrite Hf; discriminate).
  destruct (hand x t) eqn:Hh.
  1-3: assert (E : pend m t = O) by (revert W; unfold wq; cbn; rewrite Hh; tauto); rewrite E; cbn;
       local (PW WfAs p k) Hs; [|exact I|auto|nodebt Hs];
       revert W Hlog; unfold L, Lw, wq, done_log; vw; cbn; rewrite Hh;
       intros W Hl; (split; [split; [tauto|left; repeat split; try reflexivity; discriminate]|exact Hl]).
  rewrite (Hp eq_refl). cbn.
  local (PW WfRe p k) Hs; [|exact I|auto|nodebt Hs].
  revert W Hlog. unfold L, Lw, wq, done_log. vw. cbn. rewrite Hh. tauto.
Qed.

Lemma step_WfAs p k :
  stk (base x) t = stk_of t (PW WfAs p k) -> L (view_of x t) (PW WfAs p k) ->
  blocked m t = false -> Inv (gstep x t).
Proof.
  intros Hs HL Hb. gred Hs. cbn.
  local (PW WfRe p k) Hs; [|exact I|auto|nodebt Hs].
  revert HL. unfold L, Lw. cbn. rewrite Hb. intuition discriminate.
Qed.

Lemma step_WfRe p k :
  stk (base x) t = stk_of t (PW WfRe p k) -> L (view_of x t) (PW WfRe p k) -> Inv (gstep x t).
Proof.
  intros Hs HL. gred Hs. cbn.
  local (PW WfY p k) Hs; [|exact I| |nodebt Hs].
  - destruct HL as [(W & Hh & Hb & Hp) Hlog]. cbn in Hh, Hb, Hp.
    revert W Hlog. unfold L, Lw, resumed, wq, done_log. vw. cbn. rewrite Hh. tauto.
  - right. right. intros u. destruct HL as [(_ & Hh & _) _]. cbn in Hh. congruence.
Qed.

(* a call returned with the mutex not held: the next call starts *)
Lemma to_start_false m' p0 k0 :
  loc_eq m m' t -> extra (stk (base x) t) = [] -> (debt x = Some t -> False) ->
  (fstate m' t = fstate m t \/ fstate m t <> ST_WAITING \/ forall u, hand x t <> HNode u) ->
  let s' := snd (start t p0 k0 false) in
  let v := view_of (mk x t m' s' (role x) (hand x) (gq x) (debt x) (ulog x) (ucont x)) t in
  calm v /\ vro v = Idle /\ vfs v = ST_RUNNING /\ done_log v ->
  Inv (mk x t m' s' (role x) (hand x) (gq x) (debt x) (ulog x) (ucont x)).
Proof.
  intros Hl He Hd Hf s' v Hv. subst s' v.
  destruct (start_false t p0 k0) as [E|[(p' & k' & E)|(p' & k' & E)]]; rewrite E in *.
  - apply (inv_local x t _ _ PDone HI); [exact Hl|reflexivity|rewrite He; reflexivity| |exact I|exact Hf|intros D; destruct (Hd D)].
    revert Hv. unfold L. tauto.
  - apply (inv_local x t _ _ (PLSub p' k') HI); [exact Hl|reflexivity|rewrite He; reflexivity| |exact I|exact Hf|intros D; destruct (Hd D)].
    revert Hv. unfold L. tauto.
  - apply (inv_local x t _ _ (PTCas p' k') HI); [exact Hl|reflexivity|rewrite He; reflexivity| |exact I|exact Hf|intros D; destruct (Hd D)].
    revert Hv. unfold L. tauto.
Qed.

Lemma step_KfHead p k :
  stk (base x) t = stk_of t (PK KfHead p k) -> L (view_of x t) (PK KfHead p k) ->
  X x t (PK KfHead p k) -> Inv (gstep x t).
Proof.
  intros Hs HL HX. gred Hs. cbn.
  local (PK (KfNext (qhead m 0)) p k) Hs; [exact HL| |auto|intros _; eauto].
  cbn in HX. cbn. auto.
Qed.

Lemma step_KfNext h p k :
  stk (base x) t = stk_of t (PK (KfNext h) p k) -> L (view_of x t) (PK (KfNext h) p k) ->
  X x t (PK (KfNext h) p k) -> Inv (gstep x t).
Proof.
  intros Hs HL HX. gred Hs. cbn. destruct HX as [HX1 HX2]. cbn in HX1, HX2.
  destruct (nnext m h) as [|nx] eqn:En; cbn.
  - local (PK KfSpY p k) Hs; [exact HL|exact HX1|auto|intros _; eauto].
  - local (PK (KfSet h (S nx)) p k) Hs; [exact HL| |auto|intros _; eauto].
    cbn. repeat split; auto.
Qed.

Lemma step_KfSpY p k :
  stk (base x) t = stk_of t (PK KfSpY p k) -> L (view_of x t) (PK KfSpY p k) ->
  X x t (PK KfSpY p k) -> Inv (gstep x t).
Proof.
  intros Hs HL HX. gred Hs. cbn.
  local (PK (KfSpN (fstate m t)) p k) Hs; [|exact HX|auto|intros _; eauto].
  revert HL. unfold L, Lk. cbn. tauto.
Qed.

Lemma step_KfSpN st p k :
  stk (base x) t = stk_of t (PK (KfSpN st) p k) -> L (view_of x t) (PK (KfSpN st) p k) ->
  X x t (PK (KfSpN st) p k) -> Inv (gstep x t).
Proof.
  intros Hs HL HX. destruct HL as (Hk & Hu & Est). cbn [view_of vfs] in Est. subst st.
  gred Hs. assert (E : fstate m t = ST_RUNNING) by apply Hk. cbn in E. rewrite E. cbn.
  local (PK KfHead p k) Hs; [|exact HX|auto|intros _; eauto].
  unfold L, Lk. auto.
Qed.

Lemma step_KfData h nx p k :
  stk (base x) t = stk_of t (PK (KfData h nx) p k) -> L (view_of x t) (PK (KfData h nx) p k) ->
  X x t (PK (KfData h nx) p k) -> Inv (gstep x t).
Proof.
  intros Hs HL HX. gred Hs. cbn.
  local (PK (KfCopy h (ndata m nx)) p k) Hs; [| |auto|].
  - revert HL. unfold L, Lk. cbn. tauto.
  - destruct HX as (_ & f & Hf & Hp). exists f. split; [exact Hf|exact Hp].
  - intros Hd. destruct HX as (_ & f & _ & _ & Ho & _).
    destruct (I_debt_own x (I_C x HI) t f Hd Ho).
Qed.

Lemma step_PUY p k :
  stk (base x) t = stk_of t (PUY p k) -> L (view_of x t) (PUY p k) -> Inv (gstep x t).
Proof.
  intros Hs HL. gred Hs. cbn.
  local (PUYN (fstate m t) p k) Hs; [|exact I|auto|nodebt Hs].
  revert HL. unfold L. cbn. tauto.
Qed.

Lemma step_PUYN st p k :
  stk (base x) t = stk_of t (PUYN st p k) -> L (view_of x t) (PUYN st p k) -> Inv (gstep x t).
Proof.
  intros Hs HL. destruct HL as (Hk & Est & Hu). cbn [view_of vfs] in Est. subst st.
  gred Hs. assert (E : fstate m t = ST_RUNNING) by apply Hk. cbn in E. rewrite E. cbn.
  pose proof (to_start_false m p (S k)) as T. cbn zeta in T.
  destruct (start t p (S k) false) as [e s]. cbn [snd] in T. cbn. rewrite app_nil_r.
  apply T; [loc_tac|rewrite Hs; reflexivity|apply (no_debt _ Hs); discriminate|auto|].
  revert Hk Hu. unfold kbase, calm, done_log. cbn. intros (Hc & Hr & Hf & Hc') Hu.
  repeat split; try tauto. congruence.
Qed.

(* ---- non-local steps: generic helpers ---- *)
Lemma others_ok x' :
  (forall u, u <> t -> stk (base x') u = stk (base x) u) ->
  (forall u, u <> t -> view_eqv (view_of x u) (view_of x' u)) ->
  (forall u p, u <> t -> stk (base x) u = stk_of u p -> L (view_of x u) p -> X x u p -> X x' u p) ->
  forall u, u <> t -> thr_ok x' u.
Proof.
  intros H1 H2 H3 u Hu. destruct (I_thr x HI u) as (p & P1 & P2 & P3).
  exists p. rewrite (H1 u Hu). split; [exact P1|]. split.
  - eapply L_eqv; [apply (H2 u Hu)|exact P2].
  - apply H3; auto.
Qed.

Lemma debt_k_frame x' :
  debt x' = debt x -> (forall u, u <> t -> stk (base x') u = stk (base x) u) ->
  (debt x = Some t -> exists kf p k, stk (base x') t = stk_of t (PK kf p k) /\ kpre kf = true) ->
  forall d, debt x' = Some d ->
  exists kf p k, stk (base x') d = stk_of d (PK kf p k) /\ kpre kf = true.
Proof.
  intros E H1 H2 d Hd. rewrite E in Hd. destruct (Nat.eq_dec d t) as [->|N]; [auto|].
  rewrite (H1 d N). apply (I_debt_k x HI d Hd).
Qed.

Ltac stk_other := let u := fresh "u" in let Hu := fresh "Hu" in
  intros u Hu; cbn; apply upd_other; exact Hu.
Ltac view_other := let u := fresh "u" in let Hu := fresh "Hu" in
  intros u Hu; unfold view_eqv, view_of; cbn; rewrite ?upd_other by exact Hu; tauto.
Ltac xcases p := destruct p as [| | | | | | |[] ? ?|[] ? ?| |].

Lemma step_PCs p k r :
  stk (base x) t = stk_of t (PCs p k r) -> L (view_of x t) (PCs p k r) -> Inv (gstep x t).
Proof.
  intros Hs HL. gred Hs. cbn.
  pose proof (start_true t p (S k)) as Hst.
  destruct (start t p (S k) true) as [e s]. cbn [snd] in Hst. cbn. rewrite app_nil_r.
  destruct HL as (Hc & Hr & Hf & Hl). cbn in Hr.
  constructor.
  - intros u. destruct (Nat.eq_dec u t) as [->|N].
    + destruct Hst as [->|(p' & k' & ->)].
      * exists PDone. cbn. rewrite upd_same. split; [reflexivity|]. split; [|exact I].
        revert Hc Hl. unfold L, calm, done_log. cbn. tauto.
      * exists (PRd p' k'). cbn. rewrite upd_same. split; [reflexivity|]. split; [|reflexivity].
        revert Hc Hf Hl. unfold L, calm, done_log. cbn. tauto.
    + revert u N. apply others_ok; [stk_other|view_other|].
      intros u q Hu Hq HLq HXq. xcases q; try exact HXq.
      exfalso. apply Hu. apply (I_own1 x (I_C x HI)); [apply HLq|exact Hr].
  - apply (I_slots x HI).
  - apply debt_k_frame; [reflexivity|stk_other|nodebt Hs].
  - apply (invC_frame x); try reflexivity. apply (I_C x HI).
  - apply (invN_frame x); try reflexivity; [|apply (I_N x HI)].
    intros u. cbn. destruct (Nat.eq_dec u t) as [->|N]; [|now rewrite upd_other].
    rewrite upd_same, Hs. destruct Hst as [->|(p' & k' & ->)]; reflexivity.
Qed.

(* ---- counting roles ---- *)
Definition b2n (b : bool) : nat := if b then 1%nat else O.

Lemma nown_upd x' r' :
  (t < nthr (base x))%nat -> nthr (base x') = nthr (base x) -> role x' = upd (role x) t r' ->
  (nown x' + b2n (is_owner (role x t)) = nown x + b2n (is_owner r'))%nat /\
  (nann x' + b2n (is_ann (role x t)) = nann x + b2n (is_ann r'))%nat.
Proof.
  intros Ht En Er. unfold nown, nann. rewrite En, Er. split.
  - pose proof (cnt_upd (fun u => is_owner (upd (role x) t r' u)) (fun u => is_owner (role x u))
                  (nthr (base x)) t Ht) as H. cbn beta in H. rewrite upd_same in H.
    unfold b2n. rewrite <- H; [lia|]. intros u Hu. now rewrite upd_other.
  - pose proof (cnt_upd (fun u => is_ann (upd (role x) t r' u)) (fun u => is_ann (role x u))
                  (nthr (base x)) t Ht) as H. cbn beta in H. rewrite upd_same in H.
    unfold b2n. rewrite <- H; [lia|]. intros u Hu. now rewrite upd_other.
Qed.

Lemma nown_le1 : (nown x <= 1)%nat.
Proof.
  apply cnt_le1. intros a b Ha Hb. apply (I_own1 x (I_C x HI)).
  - destruct (role x a); try discriminate; reflexivity.
  - destruct (role x b); try discriminate; reflexivity.
Qed.

Lemma owner_counted u : role x u = Owner -> (1 <= nown x)%nat.
Proof.
  intros H. apply (cnt_pos _ _ u); [|now rewrite H]. apply (I_role_lt x (I_C x HI)). congruence.
Qed.

Lemma ann_counted u : role x u = Announced -> (1 <= nann x)%nat.
Proof.
  intros H. apply (cnt_pos _ _ u); [|now rewrite H]. apply (I_role_lt x (I_C x HI)). congruence.
Qed.

Lemma nown0_no_owner u : nown x = O -> role x u <> Owner.
Proof. intros H E. pose proof (owner_counted u E). lia. Qed.

Lemma debt_facts d : debt x = Some d -> nown x = O /\ (1 <= nann x)%nat.
Proof.
  intros Hd. split.
  - destruct (Nat.eq_dec (nown x) 0) as [E|N]; [exact E|].
    destruct (cnt_ex (fun u => is_owner (role x u)) (nthr (base x))) as (u & _ & Hu); [unfold nown in N; lia|].
    exfalso. apply (I_debt_own x (I_C x HI) d u Hd). destruct (role x u); try discriminate; reflexivity.
  - destruct (I_debt_ann x (I_C x HI) d Hd) as (u & Hu). apply (ann_counted u Hu).
Qed.

(* popper facts about f survive a change of thread t's role/hand when t is not an owner *)
Lemma popping_not_t u f h : role x t <> Owner -> popping x u f h -> f <> t.
Proof. intros Hr (_ & Ho & _) ->. auto. Qed.

Lemma gq_fst_in u n : In (u, n) (gq x) -> In u (map fst (gq x)).
Proof. intros H. apply (in_map fst) in H. exact H. Qed.

(* acquiring with no contention: shared by LSub (1 -> 0) and a successful TCas *)
Lemma acquire_ok p k :
  (t < nthr (base x))%nat ->
  stk (base x) t = stk_of t (PLSub p k) \/ stk (base x) t = stk_of t (PTCas p k) ->
  L (view_of x t) (PLSub p k) -> word m 0 = 1 ->
  Inv (mk x t (set_word m 0 0) (stk_of t (PCs p k 1)) (upd (role x) t Owner) (upd (hand x) t HNone)
          (gq x) (debt x) (ulog x) (ucont x)).
Proof.
  intros Ht Hs HL Hw. destruct HL as (Hc & Hr & Hf & Hl). cbn in Hr.
  assert (Hrn : role x t <> Owner) by congruence.
  pose proof (I_count x (I_C x HI)) as Hcnt. rewrite Hw in Hcnt.
  assert (Hno : nown x = O) by lia. assert (Hna : nann x = O) by lia.
  assert (Hnd : debt x = None).
  { destruct (debt x) as [d|] eqn:Hd; [|reflexivity]. destruct (debt_facts d Hd). lia. }
  set (x' := mk x t _ _ _ _ _ _ _ _).
  destruct (nown_upd x' Owner Ht eq_refl eq_refl) as [N1 N2]. rewrite Hr in N1, N2. cbn [b2n is_owner is_ann] in N1, N2.
  constructor.
  - intros u. destruct (Nat.eq_dec u t) as [->|N].
    + exists (PCs p k 1). split; [cbn; apply upd_same|]. split; [|exact I].
      revert Hc Hf Hl. unfold L, calm, done_log, settled. subst x'. vw. cbn. tauto.
    + revert u N. apply others_ok; [stk_other|view_other|].
      intros u q Hu Hq HLq HXq. xcases q; try exact HXq; revert HXq; unfold X, Xk;
      try (intros (A & f & B & P); split; [exact A|]; exists f; split; [exact B|]; revert P);
      try (intros (f & B & P); exists f; split; [exact B|]; revert P);
      try (intros (P & B); split; [|exact B]; revert P);
      intros P; pose proof (popping_not_t _ _ _ Hrn P) as Nf; revert P; unfold popping; cbn;
      rewrite !upd_other by exact Nf; tauto.
  - apply (I_slots x HI).
  - intros d Hd. cbn in Hd. congruence.
  - constructor; cbn [x' mk base role debt gq mem nthr set_word word]; rewrite ?upd_same.
    + intros u Hu. destruct (Nat.eq_dec u t) as [->|N]; [exact Ht|].
      rewrite upd_other in Hu by exact N. apply (I_role_lt x (I_C x HI) u Hu).
    + intros a b. unfold upd. destruct (Nat.eqb_spec a t), (Nat.eqb_spec b t); try congruence;
      intros Ha Hb; exfalso; first [apply (nown0_no_owner b Hno Hb)|apply (nown0_no_owner a Hno Ha)].
    + congruence.
    + congruence.
    + intros _. left. fold x'. lia.
    + fold x'. lia.
    + intros u n Hu. rewrite upd_other; [apply (I_gq_role x (I_C x HI) u n Hu)|].
      intros ->. apply Hc. cbn. apply (gq_fst_in _ _ Hu).
  - apply (invN_frame x); try reflexivity; [|apply (I_N x HI)].
    intros u. cbn. destruct (Nat.eq_dec u t) as [->|N]; [|now rewrite upd_other].
    rewrite upd_same. destruct Hs as [-> | ->]; reflexivity.
Qed.

(* X of another thread survives a change of role/hand of t (t not a hand-off target) and of word *)
Lemma X_other_rh x' u q :
  role x t <> Owner \/ settled (hand x t) ->
  cell (mem (base x')) = cell m -> ndata (mem (base x')) = ndata m -> nnext (mem (base x')) = nnext m ->
  qhead (mem (base x')) = qhead m -> fstate (mem (base x')) = fstate m ->
  gq x' = gq x -> debt x = None \/ debt x' = debt x -> ulog x' u = ulog x u ->
  (forall f, f <> t -> hand x' f = hand x f /\ role x' f = role x f) ->
  X x u q -> X x' u q.
Proof.
  intros Hrn Ec Ed En Eh Ef Eq Eb El Ho.
  assert (P : forall f h, h = HPopped u \/ h = HNode u -> popping x u f h -> popping x' u f h).
  { intros f h Hh P. assert (Nf : f <> t).
    { intros ->. destruct P as (P1 & P2 & _). destruct Hrn as [A|A]; [auto|].
      apply (settled_not_node _ u) in A as A'. destruct A as [A| A], Hh as [-> | ->]; congruence. }
    destruct (Ho f Nf) as [A B]. revert P. unfold popping. rewrite A, B, El. tauto. }
  assert (D : forall w, debt x = Some w -> debt x' = Some w).
  { intros w Hw. destruct Eb as [Eb|Eb]; congruence. }
  xcases q; unfold X, Xk; rewrite ?Ec, ?Ed, ?En, ?Eh, ?Ef, ?Eq; auto.
  - intros (A & B). auto.
  - intros (A & B). auto.
  - intros (A & f & B & Q). split; [exact A|]. exists f. auto.
  - intros (f & B & Q). exists f. auto.
  - intros (f & B & Q). exists f. auto.
  - intros (Q & B). auto.
Qed.

Lemma step_PLSub p k :
  (t < nthr (base x))%nat ->
  stk (base x) t = stk_of t (PLSub p k) -> L (view_of x t) (PLSub p k) -> Inv (gstep x t).
Proof.
  intros Ht Hs HL. gred Hs. cbn -[Z.sub].
  destruct (word m 0 - 1 =? 0) eqn:E.
  { apply Z.eqb_eq in E. cbn -[Z.sub]. replace (word m 0 - 1) with 0 by lia.
    apply (acquire_ok p k Ht (or_introl Hs) HL). lia. }
  apply Z.eqb_neq in E. cbn -[Z.sub].
  destruct HL as (Hc & Hr & Hf & Hl). cbn in Hr.
  assert (Hrn : role x t <> Owner) by congruence.
  pose proof (I_count x (I_C x HI)) as Hcnt.
  set (x' := mkI _ _ _ _ _ _ _).
  destruct (nown_upd x' Announced Ht eq_refl eq_refl) as [N1 N2]. rewrite Hr in N1, N2.
  cbn [b2n is_owner is_ann] in N1, N2.
  constructor.
  - intros u. destruct (Nat.eq_dec u t) as [->|N].
    + exists (PW WfSaving p k). split; [cbn; apply upd_same|]. split; [|exact I].
      revert Hc Hf Hl. unfold L, Lw, calm, done_log, settled. subst x'. vw. cbn. tauto.
    + revert u N. apply others_ok; [stk_other|view_other|].
      intros u q Hu Hq HLq HXq. apply X_other_rh; auto.
      intros f Nf. cbn. now rewrite !upd_other.
  - apply (I_slots x HI).
  - apply debt_k_frame; [reflexivity|stk_other|nodebt Hs].
  - constructor; cbn [x' base role debt gq mem nthr set_word word]; rewrite ?upd_same.
    + intros u Hu. destruct (Nat.eq_dec u t) as [->|N]; [exact Ht|].
      rewrite upd_other in Hu by exact N. apply (I_role_lt x (I_C x HI) u Hu).
    + intros a b. unfold upd. destruct (Nat.eqb_spec a t), (Nat.eqb_spec b t); try discriminate.
      apply (I_own1 x (I_C x HI)).
    + intros d u Hd. unfold upd. destruct (Nat.eqb_spec u t); [discriminate|].
      apply (I_debt_own x (I_C x HI) d u Hd).
    + intros d Hd. exists t. apply upd_same.
    + intros Hd. fold x'. destruct (I_nodebt x (I_C x HI) Hd) as [A|A]; [left; lia|].
      pose proof nown_le1. left. lia.
    + fold x'. lia.
    + intros u n Hu. rewrite upd_other; [apply (I_gq_role x (I_C x HI) u n Hu)|].
      intros ->. apply Hc. cbn. apply (gq_fst_in _ _ Hu).
  - apply (invN_frame x); try reflexivity; [|apply (I_N x HI)].
    intros u. cbn. destruct (Nat.eq_dec u t) as [->|N]; [|now rewrite upd_other].
    rewrite upd_same, Hs. reflexivity.
Qed.

Lemma step_PTCas p k :
  (t < nthr (base x))%nat ->
  stk (base x) t = stk_of t (PTCas p k) -> L (view_of x t) (PTCas p k) -> Inv (gstep x t).
Proof.
  intros Ht Hs HL. gred Hs.
  destruct (word m 0 =? 1) eqn:E.
  { apply Z.eqb_eq in E. cbn. rewrite E. cbn.
    apply (acquire_ok p k Ht (or_intror Hs) HL E). }
  cbn. rewrite E. cbn.
  pose proof (to_start_false m p (S k)) as T. cbn zeta in T.
  destruct (start t p (S k) false) as [e s]. cbn [snd] in T. cbn. rewrite app_nil_r.
  apply T; [loc_tac|rewrite Hs; reflexivity|apply (no_debt _ Hs); discriminate|auto|].
  exact HL.
Qed.

Lemma step_PUAdd p k :
  (t < nthr (base x))%nat ->
  stk (base x) t = stk_of t (PUAdd p k) -> L (view_of x t) (PUAdd p k) -> Inv (gstep x t).
Proof.
  intros Ht Hs HL. gred Hs. cbn -[Z.add].
  destruct HL as (Hc & Hr & Hf & Hl). cbn in Hr.
  pose proof (I_count x (I_C x HI)) as Hcnt.
  pose proof (owner_counted t Hr) as Ho1. pose proof nown_le1 as Ho2.
  assert (Hnd : debt x = None).
  { destruct (debt x) as [d|] eqn:Hd; [|reflexivity]. destruct (debt_facts d Hd). lia. }
  assert (Hset : role x t <> Owner \/ settled (hand x t)) by (right; apply Hc).
  destruct (word m 0 + 1 =? 1) eqn:E.
  - apply Z.eqb_eq in E. cbn -[Z.add].
    pose proof (start_false t p (S k)) as Hst.
    destruct (start t p (S k) false) as [e s]. cbn [snd] in Hst. cbn -[Z.add]. rewrite app_nil_r.
    set (x' := mkI _ _ _ _ _ _ _).
    destruct (nown_upd x' Idle Ht eq_refl eq_refl) as [N1 N2]. rewrite Hr in N1, N2.
    cbn [b2n is_owner is_ann] in N1, N2.
    assert (HLn : calm (view_of x' t) /\ vro (view_of x' t) = Idle /\ vfs (view_of x' t) = ST_RUNNING /\
                  done_log (view_of x' t)).
    { revert Hc Hf. unfold calm, done_log. subst x'. vw. cbn. intuition discriminate. }
    constructor.
    + intros u. destruct (Nat.eq_dec u t) as [->|N].
      * destruct Hst as [->|[(p' & k' & ->)|(p' & k' & ->)]];
        [exists PDone|exists (PLSub p' k')|exists (PTCas p' k')];
        (split; [cbn; apply upd_same|]); (split; [|exact I]); revert HLn; unfold L; tauto.
      * revert u N. apply others_ok; [stk_other|view_other|].
        intros u q Hu Hq HLq HXq. apply X_other_rh; auto.
        -- cbn. now rewrite upd_other.
        -- intros f Nf. cbn. now rewrite !upd_other.
    + apply (I_slots x HI).
    + intros d Hd. cbn in Hd. congruence.
    + constructor; cbn [x' base role debt gq mem nthr set_word word]; rewrite ?upd_same.
      * intros u Hu. destruct (Nat.eq_dec u t) as [->|N]; [exact Ht|].
        rewrite upd_other in Hu by exact N. apply (I_role_lt x (I_C x HI) u Hu).
      * intros a b. unfold upd. destruct (Nat.eqb_spec a t), (Nat.eqb_spec b t); try discriminate.
        apply (I_own1 x (I_C x HI)).
      * congruence.
      * congruence.
      * intros _. right. fold x'. lia.
      * fold x'. lia.
      * intros u n Hu. rewrite upd_other; [apply (I_gq_role x (I_C x HI) u n Hu)|].
        intros ->. apply Hc. cbn. apply (gq_fst_in _ _ Hu).
    + apply (invN_frame x); try reflexivity; [|apply (I_N x HI)].
      intros u. cbn. destruct (Nat.eq_dec u t) as [->|N]; [|now rewrite upd_other].
      rewrite upd_same, Hs. destruct Hst as [->|[(p' & k' & ->)|(p' & k' & ->)]]; reflexivity.
  - apply Z.eqb_neq in E. cbn -[Z.add].
    set (x' := mkI _ _ _ _ _ _ _).
    destruct (nown_upd x' Idle Ht eq_refl eq_refl) as [N1 N2]. rewrite Hr in N1, N2.
    cbn [b2n is_owner is_ann] in N1, N2.
    constructor.
    + intros u. destruct (Nat.eq_dec u t) as [->|N].
      * exists (PK KfHead p k). split; [cbn; apply upd_same|]. split; [|reflexivity].
        revert Hc Hf. unfold L, Lk, kbase, calm. subst x'. vw. cbn. tauto.
      * revert u N. apply others_ok; [stk_other|view_other|].
        intros u q Hu Hq HLq HXq. apply X_other_rh; auto.
        -- cbn. now rewrite upd_other.
        -- intros f Nf. cbn. now rewrite !upd_other.
    + apply (I_slots x HI).
    + intros d Hd. cbn in Hd. injection Hd as <-. exists KfHead, p, k. cbn. rewrite upd_same. auto.
    + constructor; cbn [x' base role debt gq mem nthr set_word word]; rewrite ?upd_same.
      * intros u Hu. destruct (Nat.eq_dec u t) as [->|N]; [exact Ht|].
        rewrite upd_other in Hu by exact N. apply (I_role_lt x (I_C x HI) u Hu).
      * intros a b. unfold upd. destruct (Nat.eqb_spec a t), (Nat.eqb_spec b t); try discriminate.
        apply (I_own1 x (I_C x HI)).
      * intros d u _. unfold upd. destruct (Nat.eqb_spec u t); [discriminate|].
        intros Hu. apply n. apply (I_own1 x (I_C x HI)); assumption.
      * intros d _. destruct (cnt_ex (fun u => is_ann (role x u)) (nthr (base x))) as (u & _ & Hu).
        { fold (nann x). lia. }
        exists u. rewrite upd_other; [destruct (role x u); try discriminate; reflexivity|].
        intros ->. rewrite Hr in Hu. discriminate.
      * discriminate.
      * fold x'. lia.
      * intros u n Hu. rewrite upd_other; [apply (I_gq_role x (I_C x HI) u n Hu)|].
        intros ->. apply Hc. cbn. apply (gq_fst_in _ _ Hu).
    + apply (invN_frame x); try reflexivity; [|apply (I_N x HI)].
      intros u. cbn. destruct (Nat.eq_dec u t) as [->|N]; [|now rewrite upd_other].
      rewrite upd_same, Hs. reflexivity.
Qed.

Lemma chain_ok_ext2 (m1 m2 : kmem) a l :
  (forall n, n = a \/ In n (map snd l) -> nnext m2 n = nnext m1 n) ->
  qtail m2 0%nat = qtail m1 0%nat -> chain_ok m1 a l -> chain_ok m2 a l.
Proof.
  intros H E2. revert a H. induction l as [|[u n] r IH]; intros a H; cbn.
  - rewrite E2, (H a) by auto. tauto.
  - rewrite (H a) by auto. intros [H1 H2]. split; [exact H1|]. apply IH; [|exact H2].
    intros n' [->|Hn]; apply H; cbn; auto.
Qed.

Lemma invN_frame2 x' :
  qhead (mem (base x')) = qhead m -> qtail (mem (base x')) 0%nat = qtail m 0%nat -> gq x' = gq x ->
  (forall n, In n (chain x) -> nnext (mem (base x')) n = nnext m n /\ ndata (mem (base x')) n = ndata m n) ->
  (forall u, u <> t -> priv x' u = priv x u) ->
  (forall n, In n (priv x' t) <-> In n (priv x t)) -> NoDup (priv x' t) ->
  InvN x'.
Proof.
  intros Eh Et Eq Hc Hp Hpt Hnd. pose proof (I_N x HI) as N.
  assert (Ec : chain x' = chain x) by (unfold chain; rewrite Eh, Eq; reflexivity).
  assert (Hin : forall u n, In n (priv x' u) <-> In n (priv x u)).
  { intros u n. destruct (Nat.eq_dec u t) as [->|Nu]; [apply Hpt|rewrite (Hp u Nu); tauto]. }
  destruct N. constructor; rewrite ?Ec, ?Eq, ?Eh; auto.
  - apply (chain_ok_ext2 m); [|exact Et|exact I_chain0].
    intros n Hn. apply Hc. unfold chain. destruct Hn as [->|Hn]; cbn; auto.
  - intros u n Hu. destruct (Hc n) as [_ ->]; [|apply I_gq_ent0; exact Hu].
    unfold chain. right. apply (in_map snd) in Hu. exact Hu.
  - intros u n Hn. apply Hin in Hn. apply (I_priv_nz0 u n Hn).
  - intros u. destruct (Nat.eq_dec u t) as [->|Nu]; [exact Hnd|rewrite (Hp u Nu); auto].
  - intros a b n Hab Ha Hb. apply Hin in Ha. apply Hin in Hb. apply (I_priv_disj0 a b n Hab Ha Hb).
  - intros u n Hn. apply Hin in Hn. apply (I_priv_chain0 u n Hn).
Qed.

(* facts about private nodes *)
Lemma priv_fnode u : fnode m u <> O -> In (fnode m u) (priv x u).
Proof.
  intros H. unfold priv. destruct (Nat.eqb_spec (fnode m u) 0); [contradiction|]. cbn. auto.
Qed.
Lemma priv_extra u n : In n (extra (stk (base x) u)) -> In n (priv x u).
Proof. intros H. unfold priv. apply in_or_app. auto. Qed.
Lemma priv_other_ne u n n' : u <> t -> In n (priv x t) -> In n' (priv x u) -> n' <> n.
Proof. intros Hu H1 H2 ->. apply (I_priv_disj x (I_N x HI) t u n); auto. Qed.
Lemma priv_chain_ne n n' : In n (priv x t) -> In n' (chain x) -> n' <> n.
Proof. intros H1 H2 ->. apply (I_priv_chain x (I_N x HI) t n); auto. Qed.
Lemma qhead_in_chain : In (qhead m 0) (chain x).
Proof. unfold chain. cbn. auto. Qed.

Lemma step_WfData p k :
  stk (base x) t = stk_of t (PW WfData p k) -> L (view_of x t) (PW WfData p k) -> Inv (gstep x t).
Proof.
  intros Hs HL. gred Hs. cbn.
  destruct HL as ((Hc & Hh & Hr & Hf) & Hl). cbn in Hh, Hr, Hf.
  assert (Hfn : fnode m t <> O) by apply Hc.
  pose proof (priv_fnode t Hfn) as Hpn.
  set (n := fnode m t) in *.
  set (x' := mkI _ _ _ _ _ _ _).
  constructor.
  - intros u. destruct (Nat.eq_dec u t) as [->|N].
    + exists (PW (WfNext n) p k). split; [cbn; apply upd_same|]. split.
      * revert Hc Hl. unfold L, Lw, prelink, calm, done_log. subst x'. vw. cbn. tauto.
      * cbn. apply upd_same.
    + revert u N. apply others_ok; [stk_other|view_other|].
      intros u q Hu Hq HLq HXq.
      assert (Hex : forall n', In n' (extra (stk (base x) u)) -> n' <> n).
      { intros n' Hn'. apply (priv_other_ne u n n' Hu Hpn). apply priv_extra. exact Hn'. }
      xcases q; try exact HXq; revert HXq; unfold X, Xk; cbn [x' base mem set_fnode set_ndata ndata nnext qhead].
      * rewrite upd_other; [tauto|]. apply Hex. rewrite Hq. cbn. auto.
      * rewrite upd_other; [tauto|]. apply Hex. rewrite Hq. cbn. auto.
      * intros (A & B). split; [exact A|]. rewrite upd_other; [exact B|].
        apply (priv_chain_ne n _ Hpn). rewrite A. apply qhead_in_chain.
      * rewrite upd_other; [tauto|]. apply Hex. rewrite Hq. cbn. auto.
  - apply (I_slots x HI).
  - apply debt_k_frame; [reflexivity|stk_other|nodebt Hs].
  - apply (invC_frame x); try reflexivity. apply (I_C x HI).
  - apply invN_frame2; try reflexivity.
    + intros n' Hn'. cbn. split; [reflexivity|]. apply upd_other. apply (priv_chain_ne n n' Hpn Hn').
    + intros u Hu. unfold priv. cbn. rewrite !upd_other by exact Hu. reflexivity.
    + intros n'. unfold priv. cbn. rewrite !upd_same, Hs. cbn.
      fold n. destruct (Nat.eqb_spec n 0); [contradiction|]. cbn. tauto.
    + unfold priv. cbn. rewrite !upd_same. cbn. constructor; [intros []|constructor].
Qed.

Lemma pred_of_in a l u b : pred_of a l u = Some b -> b = a \/ In b (map snd l).
Proof.
  revert a. induction l as [|[w n] r IH]; intros a; cbn; [discriminate|].
  destruct (Nat.eqb w u); [intros [= ->]; auto|]. intros H. apply IH in H. destruct H as [->|H]; auto.
Qed.

Lemma pred_in_chain u b : pred_of (qhead m 0) (gq x) u = Some b -> In b (chain x).
Proof. intros H. apply pred_of_in in H. unfold chain. cbn. destruct H; auto. Qed.

Lemma step_WfNext n p k :
  stk (base x) t = stk_of t (PW (WfNext n) p k) -> L (view_of x t) (PW (WfNext n) p k) ->
  X x t (PW (WfNext n) p k) -> Inv (gstep x t).
Proof.
  intros Hs HL HX. gred Hs. cbn. cbn in HX.
  assert (Hpn : In n (priv x t)) by (apply priv_extra; rewrite Hs; cbn; auto).
  set (x' := mkI _ _ _ _ _ _ _).
  constructor.
  - intros u. destruct (Nat.eq_dec u t) as [->|N].
    + exists (PW (WfXchg n) p k). split; [cbn; apply upd_same|]. split; [exact HL|].
      cbn. rewrite upd_same. auto.
    + revert u N. apply others_ok; [stk_other|view_other|].
      intros u q Hu Hq HLq HXq.
      xcases q; try exact HXq; revert HXq; unfold X, Xk; cbn [x' base mem set_nnext ndata nnext qhead].
      * rewrite upd_other; [tauto|]. apply (priv_other_ne u n _ Hu Hpn). apply priv_extra.
        rewrite Hq. cbn. auto.
      * intros (A & B & C). rewrite upd_other; [tauto|]. apply (priv_chain_ne n _ Hpn).
        apply (pred_in_chain u). exact A.
      * intros (A & B & C). rewrite upd_other; [tauto|]. apply (priv_chain_ne n _ Hpn).
        rewrite B. apply qhead_in_chain.
  - apply (I_slots x HI).
  - apply debt_k_frame; [reflexivity|stk_other|nodebt Hs].
  - apply (invC_frame x); try reflexivity. apply (I_C x HI).
  - apply invN_frame2; try reflexivity.
    + intros n' Hn'. cbn. split; [|reflexivity]. apply upd_other. apply (priv_chain_ne n n' Hpn Hn').
    + intros u Hu. unfold priv. cbn. rewrite !upd_other by exact Hu. reflexivity.
    + intros n'. unfold priv. cbn. rewrite !upd_same, Hs. cbn. tauto.
    + unfold priv. cbn. rewrite !upd_same. cbn. pose proof (I_priv_nd x (I_N x HI) t) as ND.
      unfold priv in ND. rewrite Hs in ND. exact ND.
Qed.

Lemma pred_of_app a l l' u b : pred_of a l u = Some b -> pred_of a (l ++ l') u = Some b.
Proof.
  revert a. induction l as [|[w n] r IH]; intros a; cbn; [discriminate|].
  destruct (Nat.eqb w u); auto.
Qed.

Lemma pred_of_snoc (mm : kmem) a l u n :
  chain_ok mm a l -> ~ In u (map fst l) -> pred_of a (l ++ [(u, n)]) u = Some (qtail mm 0%nat).
Proof.
  revert a. induction l as [|[w n'] r IH]; intros a; cbn.
  - intros [_ ->] _. now rewrite Nat.eqb_refl.
  - intros [_ H] Hn. destruct (Nat.eqb_spec w u); [exfalso; auto|]. apply IH; auto.
Qed.

Lemma chain_ok_tail0 (mm : kmem) a l : chain_ok mm a l -> nnext mm (qtail mm 0%nat) = O.
Proof.
  revert a. induction l as [|[w n'] r IH]; intros a; cbn.
  - intros [H ->]. exact H.
  - intros [_ H]. eauto.
Qed.

Lemma chain_ok_snoc (mm : kmem) a l u n :
  chain_ok mm a l -> nnext mm n = O -> chain_ok (set_qtail mm 0 n) a (l ++ [(u, n)]).
Proof.
  intros H Hn. revert a H. induction l as [|[w n'] r IH]; intros a; cbn.
  - intros [H _]. rewrite ?upd_same. auto.
  - intros [H1 H2]. split; [exact H1|]. apply IH. exact H2.
Qed.

Lemma invC_frame_gq x' :
  role x' = role x -> debt x' = debt x ->
  (forall u n, In (u, n) (gq x') -> role x u = Announced) ->
  word (mem (base x')) 0%nat = word m 0%nat -> nthr (base x') = nthr (base x) ->
  InvC x'.
Proof.
  intros Er Ed Hq Ew En. pose proof (I_C x HI) as C.
  assert (E1 : nown x' = nown x) by (unfold nown; rewrite Er, En; reflexivity).
  assert (E2 : nann x' = nann x) by (unfold nann; rewrite Er, En; reflexivity).
  destruct C. constructor; rewrite ?E1, ?E2, ?Er, ?Ed, ?Ew, ?En; auto.
Qed.

Lemma NoDup_app_snoc {A} (l : list A) a : NoDup l -> ~ In a l -> NoDup (l ++ [a]).
Proof.
  induction l as [|b l IH]; cbn; intros H Hn; [constructor; [intros []|constructor]|].
  inversion H; subst. constructor.
  - rewrite in_app_iff. cbn. intuition.
  - apply IH; auto.
Qed.

Lemma step_WfXchg n p k :
  stk (base x) t = stk_of t (PW (WfXchg n) p k) -> L (view_of x t) (PW (WfXchg n) p k) ->
  X x t (PW (WfXchg n) p k) -> Inv (gstep x t).
Proof.
  intros Hs HL HX. gred Hs. cbn. destruct HX as [HX1 HX2]. cbn in HX1, HX2.
  destruct HL as ((Hpl & Hnq) & Hl). cbn in Hnq.
  assert (Hpn : In n (priv x t)) by (apply priv_extra; rewrite Hs; cbn; auto).
  pose proof (I_N x HI) as N. pose proof (I_chain x N) as Hch.
  assert (Hfn : fnode m t = O) by apply Hpl.
  set (x' := mkI _ _ _ _ _ _ _).
  assert (Hinq : forall u, In u (map fst (gq x ++ [(t, n)])) <-> (In u (map fst (gq x)) \/ u = t)).
  { intros u. rewrite map_app, in_app_iff. cbn. intuition. }
  constructor.
  - intros u. destruct (Nat.eq_dec u t) as [->|Nu].
    + exists (PW (WfLink (qtail m 0) n) p k). split; [cbn; apply upd_same|]. split.
      * split; [split; [exact Hpl|]|exact Hl]. cbn. apply Hinq. auto.
      * cbn. split; [|split].
        -- apply pred_of_snoc; auto.
        -- apply (chain_ok_tail0 m _ _ Hch).
        -- apply in_or_app. right. cbn. auto.
    + revert u Nu. apply others_ok; [stk_other| |].
      * intros u Hu. unfold view_eqv, view_of. cbn. rewrite Hinq. intuition.
      * intros u q Hu Hq HLq HXq.
        xcases q; try exact HXq; revert HXq; unfold X, Xk; cbn [x' base mem gq set_qtail ndata nnext qhead].
        intros (A & B & C). split; [apply pred_of_app; exact A|]. split; [exact B|].
        apply in_or_app. auto.
  - apply (I_slots x HI).
  - apply debt_k_frame; [reflexivity|stk_other|nodebt Hs].
  - apply invC_frame_gq; try reflexivity. cbn. intros u n' Hu. apply in_app_or in Hu.
    destruct Hu as [Hu|[[= <- <-]|[]]]; [apply (I_gq_role x (I_C x HI) u n' Hu)|apply Hpl].
  - assert (Hp' : forall u, u <> t -> priv x' u = priv x u).
    { intros u Hu. unfold priv. cbn. rewrite !upd_other by exact Hu. reflexivity. }
    assert (Hpt : priv x' t = []).
    { unfold priv. cbn. rewrite upd_same, Hfn. reflexivity. }
    assert (Hc' : chain x' = chain x ++ [n]).
    { unfold chain. cbn. rewrite map_app. reflexivity. }
    assert (Hprv : forall u n', In n' (priv x' u) -> In n' (priv x u) /\ u <> t).
    { intros u n' Hn'. destruct (Nat.eq_dec u t) as [->|Hu]; [rewrite Hpt in Hn'; destruct Hn'|].
      rewrite (Hp' u Hu) in Hn'. auto. }
    destruct N. constructor; rewrite ?Hc'.
    + cbn. rewrite map_app. cbn. apply NoDup_app_snoc; auto.
    + apply NoDup_app_snoc; auto. apply (I_priv_chain0 t n Hpn).
    + intros n' Hn'. apply in_app_or in Hn'. destruct Hn' as [Hn'|[<-|[]]]; [auto|].
      apply (I_priv_nz0 t n Hpn).
    + cbn. apply chain_ok_snoc; auto.
    + cbn [x' base mem gq set_qtail ndata]. intros u n' Hu. apply in_app_or in Hu.
      destruct Hu as [Hu|[[= <- <-]|[]]]; [auto|exact HX1].
    + intros u n' Hn'. apply Hprv in Hn'. apply (I_priv_nz0 u n'). tauto.
    + intros u. destruct (Nat.eq_dec u t) as [->|Hu]; [rewrite Hpt; constructor|rewrite (Hp' u Hu); auto].
    + intros a b n' Hab Ha Hb. apply Hprv in Ha. apply Hprv in Hb.
      apply (I_priv_disj0 a b n' Hab); tauto.
    + intros u n' Hn' Hin. apply Hprv in Hn'. destruct Hn' as [Hn' Hu].
      apply in_app_or in Hin. destruct Hin as [Hin|[<-|[]]]; [apply (I_priv_chain0 u n' Hn' Hin)|].
      apply (I_priv_disj0 t u n); auto.
Qed.

Lemma pred_of_inj a l u w b :
  NoDup (a :: map snd l) -> pred_of a l u = Some b -> pred_of a l w = Some b -> u = w.
Proof.
  revert a. induction l as [|[v n] r IH]; intros a ND; cbn; [discriminate|].
  cbn in ND. inversion ND as [|? ? Ha ND']; subst.
  destruct (Nat.eqb_spec v u), (Nat.eqb_spec v w); try congruence.
  - intros [= <-] H. apply pred_of_in in H. exfalso. apply Ha. cbn. destruct H; auto.
  - intros H [= <-]. apply pred_of_in in H. exfalso. apply Ha. cbn. destruct H; auto.
  - apply IH. exact ND'.
Qed.

Lemma chain_ok_link (mm : kmem) h l u a n :
  NoDup (h :: map snd l) -> NoDup (map fst l) ->
  chain_ok mm h l -> pred_of h l u = Some a -> In (u, n) l ->
  chain_ok (set_nnext mm a n) h l.
Proof.
  revert h. induction l as [|[v n'] r IH]; intros h ND1 ND2; cbn; [discriminate|].
  cbn in ND1, ND2. inversion ND1 as [|? ? Hh ND1']; inversion ND2 as [|? ? Hv ND2']; subst.
  intros [H1 H2] Hp Hin. destruct (Nat.eqb_spec v u) as [->|Nv].
  - injection Hp as <-. assert (n' = n) as ->.
    { destruct Hin as [[= ->]|Hin]; [reflexivity|]. exfalso. apply Hv. apply (in_map fst) in Hin. exact Hin. }
    rewrite upd_same. split; [auto|].
    apply (chain_ok_ext2 mm); [|reflexivity|exact H2].
    intros n' Hn'. cbn. apply upd_other. intros ->. apply Hh. cbn. destruct Hn'; auto.
  - assert (Ha : a <> h).
    { intros ->. apply pred_of_in in Hp. apply Hh. cbn. destruct Hp; auto. }
    rewrite upd_other by auto. split; [exact H1|].
    apply IH; auto. destruct Hin as [[= -> ->]|Hin]; [congruence|exact Hin].
Qed.

Lemma step_WfLink a n p k :
  stk (base x) t = stk_of t (PW (WfLink a n) p k) -> L (view_of x t) (PW (WfLink a n) p k) ->
  X x t (PW (WfLink a n) p k) -> Inv (gstep x t).
Proof.
  intros Hs HL HX. gred Hs. cbn. destruct HX as (HX1 & HX2 & HX3). cbn in HX1, HX2, HX3.
  destruct HL as ((Hpl & Hq) & Hl). cbn in Hq.
  pose proof (I_N x HI) as N.
  pose proof (pred_in_chain t a HX1) as Hac.
  set (x' := mkI _ _ _ _ _ _ _).
  constructor.
  - intros u. destruct (Nat.eq_dec u t) as [->|Nu].
    + exists (PW WfY p k). split; [cbn; apply upd_same|]. split; [|exact I].
      split; [|exact Hl]. left. destruct Hpl as (P1 & P2 & P3 & P4 & P5 & P6).
      unfold preflip, wq. cbn in *. rewrite P4. repeat split; auto. discriminate.
    + revert u Nu. apply others_ok; [stk_other|view_other|].
      intros u q Hu Hq' HLq HXq.
      xcases q; try exact HXq; revert HXq; unfold X, Xk; cbn [x' base mem gq set_nnext ndata nnext qhead].
      * intros (A & B). rewrite upd_other; [tauto|]. intros ->.
        apply (I_priv_chain x N u a); [apply priv_extra; rewrite Hq'; cbn; auto|exact Hac].
      * intros (A & B & C). rewrite upd_other; [tauto|]. intros ->. apply Hu.
        apply (pred_of_inj (qhead m 0) (gq x) u t a); auto. apply (I_chain_nd x N).
      * intros (A & B & C & D). rewrite upd_other; [tauto|]. intros ->. congruence.
  - apply (I_slots x HI).
  - apply debt_k_frame; [reflexivity|stk_other|nodebt Hs].
  - apply (invC_frame x); try reflexivity. apply (I_C x HI).
  - assert (Hp' : forall u, priv x' u = priv x u).
    { intros u. unfold priv. cbn. destruct (Nat.eq_dec u t) as [->|Hu];
      [rewrite upd_same, Hs; reflexivity|rewrite upd_other by exact Hu; reflexivity]. }
    destruct N. constructor; try assumption.
    + cbn. apply chain_ok_link with (u := t); auto.
    + intros u n'. rewrite Hp'. apply I_priv_nz0.
    + intros u. rewrite Hp'. apply I_priv_nd0.
    + intros u w n'. rewrite !Hp'. apply I_priv_disj0.
    + intros u n'. rewrite Hp'. apply I_priv_chain0.
Qed.

(* a queued waiter (not at WLink) is handed the lock by popper w *)
Lemma L_pop v p w :
  L v p -> vinq v -> (forall a n pp k, p <> PW (WfLink a n) pp k) ->
  L (mkV (vfs v) (vfn v) (vpd v) (vbl v) Owner (HPopped w) (vul v) (vuc v) False) p.
Proof.
  destruct v as [fs fn pd bl ro ha ul uc inq]. cbn [vfs vfn vpd vbl vul vuc vinq].
  intros HL Hq Hn.
  destruct p as [| | | | | | |[] ? ?|[] ? ?| |]; try (exfalso; eapply Hn; reflexivity);
  revert HL; unfold L, Lw, Lk, kbase, calm, done_log, preflip, resumed, prelink, wq, settled;
  cbn [vfs vfn vpd vbl vro vha vul vuc vinq]; try tauto;
  destruct ha; try tauto; intuition (try discriminate; try congruence).
Qed.

Lemma L_K_not_inq v kf pp k : L v (PK kf pp k) -> ~ vinq v.
Proof. intros (((_ & _ & _ & H & _) & _) & _). exact H. Qed.

Lemma step_KfSet h nx p k :
  (t < nthr (base x))%nat ->
  stk (base x) t = stk_of t (PK (KfSet h nx) p k) -> L (view_of x t) (PK (KfSet h nx) p k) ->
  X x t (PK (KfSet h nx) p k) -> Inv (gstep x t).
Proof.
  intros Ht Hs HL HX. destruct HX as (Hd & Hh & Hn & Hnz). cbn in Hd, Hh, Hn, Hnz. subst h.
  pose proof (I_N x HI) as N. pose proof (I_C x HI) as C.
  destruct (debt_facts t Hd) as [Hno Hna].
  destruct HL as (Hk & Hul & _). specialize (Hul eq_refl). cbn in Hul.
  assert (Hrt : role x t = Idle) by apply Hk.
  (* the queue is not empty and its first node is nx *)
  pose proof (I_chain x N) as Hch.
  destruct (gq x) as [|[f nx'] rest] eqn:Eq; cbn in Hch; [destruct Hch; congruence|].
  destruct Hch as [Hlk Hch]. assert (nx' = nx) by (destruct Hlk; congruence). subst nx'.
  assert (Hin : In (f, nx) (gq x)) by (rewrite Eq; cbn; auto).
  pose proof (I_gq_ent x N f nx Hin) as Hdat.
  pose proof (I_gq_role x C f nx Hin) as Hrf.
  assert (Hft : f <> t) by congruence.
  pose proof (I_gq_nd x N) as ND1. rewrite Eq in ND1. cbn in ND1. apply NoDup_cons_iff in ND1 as [Hfr ND1'].
  pose proof (I_chain_nd x N) as ND2. unfold chain in ND2. rewrite Eq in ND2. cbn in ND2.
  apply NoDup_cons_iff in ND2 as [Hhr ND2'].
  gred Hs. cbn -[tid_of_name]. rewrite Hdat, tid_of_fname, Eq, Hul. cbn [tl app].
  set (x' := mkI _ _ _ _ _ _ _).
  assert (Hst : forall u, u <> t -> stk (base x') u = stk (base x) u) by stk_other.
  constructor.
  - intros u. destruct (Nat.eq_dec u t) as [->|Nu]; [|destruct (Nat.eq_dec u f) as [->|Nf]].
    + exists (PK (KfData (qhead m 0) nx) p k). split; [cbn; apply upd_same|]. split.
      * revert Hk. unfold L, Lk, kbase, calm. subst x'. vw. cbn. rewrite !upd_other by auto.
        rewrite Eq. cbn. intuition discriminate.
      * cbn. split; [reflexivity|]. exists f. split; [exact Hdat|].
        unfold popping. cbn. rewrite !upd_same. auto.
    + destruct (I_thr x HI f) as (q & Q1 & Q2 & Q3). exists q. rewrite (Hst f Nu).
      split; [exact Q1|].
      assert (Hnl : forall a n pp kk, q <> PW (WfLink a n) pp kk).
      { intros a n pp kk ->. destruct Q3 as (A & B & _). rewrite Eq in A. cbn in A.
        rewrite Nat.eqb_refl in A. injection A as <-. congruence. }
      split.
      * eapply L_eqv; [|apply (L_pop _ q t Q2); [cbn; rewrite Eq; cbn; auto|exact Hnl]].
        unfold view_eqv, view_of. cbn. rewrite !upd_same, !upd_other by auto. tauto.
      * xcases q; try exact Q3; try (exfalso; eapply Hnl; reflexivity);
        exfalso; apply (L_K_not_inq _ _ _ _ Q2); cbn; rewrite Eq; cbn; auto.
    + assert (thr_ok x' u); [|assumption].
      revert u Nu Nf. intros u Nu Nf. destruct (I_thr x HI u) as (q & Q1 & Q2 & Q3). exists q.
      rewrite (Hst u Nu). split; [exact Q1|]. split.
      * eapply L_eqv; [|exact Q2]. unfold view_eqv, view_of. cbn. rewrite !upd_other by auto.
        rewrite Eq. cbn. intuition congruence.
      * assert (Hnp : forall g hh, popping x u g hh -> False).
        { intros g hh (_ & Po & _). apply (nown0_no_owner g Hno Po). }
        xcases q; try exact Q3; revert Q3; unfold X, Xk; cbn [x' base mem gq debt set_qhead ndata nnext qhead];
        rewrite ?upd_same;
        try (intros Q; exfalso; apply Nu; (congruence || (destruct Q as [Q ?]; congruence))).
        -- rewrite Eq. cbn. destruct (Nat.eqb_spec f u); [congruence|]. intros (A & B & [Cc|Cc]); [congruence|auto].
        -- intros (_ & g & _ & Q). destruct (Hnp _ _ Q).
        -- intros (g & _ & Q). destruct (Hnp _ _ Q).
        -- intros (g & _ & Q). destruct (Hnp _ _ Q).
        -- intros Q. destruct (Hnp _ _ Q).
        -- intros (Q & _). destruct (Hnp _ _ Q).
  - apply (I_slots x HI).
  - intros d Hdd. discriminate.
  - assert (Hf_lt : (f < nthr (base x))%nat) by (apply (I_role_lt x C); congruence).
    pose proof (cnt_upd (fun u => is_owner (upd (role x) f Owner u)) (fun u => is_owner (role x u))
                  (nthr (base x)) f Hf_lt) as N1. cbn beta in N1. rewrite upd_same, Hrf in N1.
    pose proof (cnt_upd (fun u => is_ann (upd (role x) f Owner u)) (fun u => is_ann (role x u))
                  (nthr (base x)) f Hf_lt) as N2. cbn beta in N2. rewrite upd_same, Hrf in N2.
    cbn [is_owner is_ann] in N1, N2.
    assert (N1' : (nown x' = nown x + 1)%nat).
    { unfold nown. cbn [x' base role nthr]. rewrite Nat.add_0_r in N1. apply N1.
      intros u Hu. now rewrite upd_other. }
    assert (N2' : (nann x' + 1 = nann x)%nat).
    { unfold nann. cbn [x' base role nthr]. rewrite Nat.add_0_r in N2. apply N2.
      intros u Hu. now rewrite upd_other. }
    constructor; cbn [x' base role debt gq mem nthr set_qhead word].
    + intros u Hu. destruct (Nat.eq_dec u f) as [->|Nf]; [exact Hf_lt|].
      rewrite upd_other in Hu by exact Nf. apply (I_role_lt x C u Hu).
    + intros a b. unfold upd. destruct (Nat.eqb_spec a f), (Nat.eqb_spec b f); try congruence;
      intros Ha Hb; exfalso; first [apply (nown0_no_owner b Hno Hb)|apply (nown0_no_owner a Hno Ha)].
    + discriminate.
    + discriminate.
    + intros _. left. lia.
    + rewrite (I_count x C). lia.
    + intros u n Hu. rewrite upd_other; [apply (I_gq_role x C u n); rewrite Eq; cbn; auto|].
      intros ->. apply Hfr. apply (in_map fst) in Hu. exact Hu.
  - assert (Hcx : chain x = qhead m 0 :: nx :: map snd rest) by (unfold chain; rewrite Eq; reflexivity).
    assert (Hcx' : chain x' = nx :: map snd rest) by reflexivity.
    assert (Hp' : forall u, u <> t -> priv x' u = priv x u).
    { intros u Hu. unfold priv. cbn. rewrite !upd_other by exact Hu. reflexivity. }
    assert (Hpt : priv x' t = priv x t ++ [qhead m 0]).
    { unfold priv. cbn. rewrite upd_same, Hs. cbn. rewrite app_nil_r. reflexivity. }
    assert (Hhp : forall u, ~ In (qhead m 0) (priv x u)).
    { intros u Hu. apply (I_priv_chain x N u _ Hu). apply qhead_in_chain. }
    assert (Hsub : forall n, In n (chain x') -> In n (chain x)).
    { intros n' Hn'. rewrite Hcx. right. exact Hn'. }
    assert (Hprv : forall u n', In n' (priv x' u) -> In n' (priv x u) \/ (u = t /\ n' = qhead m 0)).
    { intros u n' Hn'. destruct (Nat.eq_dec u t) as [->|Hu]; [|rewrite (Hp' u Hu) in Hn'; auto].
      rewrite Hpt in Hn'. apply in_app_or in Hn'. destruct Hn' as [Hn'|[<-|[]]]; auto. }
    constructor.
    + exact ND1'.
    + rewrite Hcx'. exact ND2'.
    + intros n' Hn'. apply (I_chain_nz x N). auto.
    + cbn. apply (chain_ok_ext m); auto.
    + cbn. intros u n' Hu. apply (I_gq_ent x N). rewrite Eq. cbn. auto.
    + intros u n' Hn'. destruct (Hprv u n' Hn') as [H|[_ ->]]; [apply (I_priv_nz x N u n' H)|].
      apply (I_chain_nz x N). apply qhead_in_chain.
    + intros u. destruct (Nat.eq_dec u t) as [->|Hu]; [|rewrite (Hp' u Hu); apply (I_priv_nd x N)].
      rewrite Hpt. apply NoDup_app_snoc; [apply (I_priv_nd x N)|apply Hhp].
    + intros a b n' Hab Ha Hb. destruct (Hprv a n' Ha) as [Ha'|[Ea En]], (Hprv b n' Hb) as [Hb'|[Eb En']].
      * apply (I_priv_disj x N a b n' Hab Ha' Hb').
      * subst n'. apply (Hhp a Ha').
      * subst n'. apply (Hhp b Hb').
      * congruence.
    + intros u n' Hn' Hic. destruct (Hprv u n' Hn') as [H|[_ ->]].
      * apply (I_priv_chain x N u n' H). auto.
      * rewrite Hcx' in Hic. apply Hhr. exact Hic.
Qed.

Lemma popping_no_debt f hh : popping x t f hh -> debt x = Some t -> False.
Proof. intros (_ & Ho & _) Hd. apply (I_debt_own x (I_C x HI) t f Hd Ho). Qed.

Lemma step_KfCopy h d p k :
  stk (base x) t = stk_of t (PK (KfCopy h d) p k) -> L (view_of x t) (PK (KfCopy h d) p k) ->
  X x t (PK (KfCopy h d) p k) -> Inv (gstep x t).
Proof.
  intros Hs HL HX. gred Hs. cbn. destruct HX as (f & Hdf & Hp).
  assert (Hpn : In h (priv x t)) by (apply priv_extra; rewrite Hs; cbn; auto).
  set (x' := mkI _ _ _ _ _ _ _).
  constructor.
  - intros u. destruct (Nat.eq_dec u t) as [->|N].
    + exists (PK (KfOut h) p k). split; [cbn; apply upd_same|]. split.
      * revert HL. unfold L, Lk. cbn. tauto.
      * cbn. exists f. rewrite upd_same. split; [exact Hdf|exact Hp].
    + revert u N. apply others_ok; [stk_other|view_other|].
      intros u q Hu Hq HLq HXq.
      assert (Hex : forall n', In n' (extra (stk (base x) u)) -> n' <> h).
      { intros n' Hn'. apply (priv_other_ne u h n' Hu Hpn). apply priv_extra. exact Hn'. }
      xcases q; try exact HXq; revert HXq; unfold X, Xk; cbn [x' base mem set_ndata ndata nnext qhead].
      * rewrite upd_other; [tauto|]. apply Hex. rewrite Hq. cbn. auto.
      * rewrite upd_other; [tauto|]. apply Hex. rewrite Hq. cbn. auto.
      * intros (A & B). split; [exact A|]. rewrite upd_other; [exact B|].
        apply (priv_chain_ne h _ Hpn). rewrite A. apply qhead_in_chain.
      * rewrite upd_other; [tauto|]. apply Hex. rewrite Hq. cbn. auto.
  - apply (I_slots x HI).
  - apply debt_k_frame; [reflexivity|stk_other|]. intros Hd. destruct (popping_no_debt _ _ Hp Hd).
  - apply (invC_frame x); try reflexivity. apply (I_C x HI).
  - apply invN_frame2; try reflexivity.
    + intros n' Hn'. cbn. split; [reflexivity|]. apply upd_other. apply (priv_chain_ne h n' Hpn Hn').
    + intros u Hu. unfold priv. cbn. rewrite !upd_other by exact Hu. reflexivity.
    + intros n'. unfold priv. cbn. rewrite !upd_same, Hs. cbn. tauto.
    + pose proof (I_priv_nd x (I_N x HI) t) as ND. unfold priv in *. cbn. rewrite upd_same.
      rewrite Hs in ND. exact ND.
Qed.

Lemma L_node v p w h :
  L v p -> vha v = HPopped w -> h <> O ->
  L (mkV (vfs v) h (vpd v) (vbl v) (vro v) (HNode w) (vul v) (vuc v) (vinq v)) p /\
  (forall n pp k, p <> PW (WfNext n) pp k /\ p <> PW (WfXchg n) pp k) /\
  (forall a n pp k, p <> PW (WfLink a n) pp k) /\ (forall kf pp k, p <> PK kf pp k) /\
  (forall pp k, p <> PRd pp k) /\ vfn v = O.
Proof.
  destruct v as [fs fn pd bl ro ha ul uc inq]. cbn [vfs vfn vpd vbl vul vuc vinq vha vro].
  intros HL -> Hh.
  destruct p as [| | | | | | |[] ? ?|[] ? ?| |];
  revert HL; unfold L, Lw, Lk, kbase, calm, done_log, preflip, resumed, prelink, wq, settled;
  cbn [vfs vfn vpd vbl vro vha vul vuc vinq];
  try (intros HL; exfalso; intuition discriminate);
  (intros HL; split; [|repeat split; try discriminate; tauto]); intuition discriminate.
Qed.

Lemma step_KfOut h p k :
  stk (base x) t = stk_of t (PK (KfOut h) p k) -> L (view_of x t) (PK (KfOut h) p k) ->
  X x t (PK (KfOut h) p k) -> Inv (gstep x t).
Proof.
  intros Hs HL HX. destruct HX as (f & Hdf & Hp). change (ndata m h = fname f) in Hdf.
  gred Hs. cbn -[tid_of_name]. rewrite Hdf, tid_of_fname.
  pose proof (I_N x HI) as N.
  assert (Hpn : In h (priv x t)) by (apply priv_extra; rewrite Hs; cbn; auto).
  assert (Hhz : h <> O) by apply (I_priv_nz x N t h Hpn).
  destruct Hp as (Hp1 & Hp2 & Hp3).
  assert (Hft : f <> t). { intros ->. destruct HL as ((_ & Hr & _) & _). cbn in Hr. congruence. }
  destruct (I_thr x HI f) as (q & Q1 & Q2 & Q3).
  destruct (L_node _ q t h Q2 Hp1 Hhz) as (Q2' & Qa & Qb & Qc & Qd & Qfn). cbn in Qfn.
  assert (Hexf : extra (stk (base x) f) = []).
  { rewrite Q1. xcases q; try reflexivity; exfalso;
    first [eapply (proj1 (Qa _ _ _)); reflexivity|eapply Qc; reflexivity|eapply (proj2 (Qa _ _ _)); reflexivity]. }
  set (x' := mkI _ _ _ _ _ _ _).
  assert (Hst : forall u, u <> t -> stk (base x') u = stk (base x) u) by stk_other.
  constructor.
  - intros u. destruct (Nat.eq_dec u t) as [->|Nu]; [|destruct (Nat.eq_dec u f) as [->|Nf]].
    + exists (PK (KfState f) p k). split; [cbn; apply upd_same|]. split.
      * revert HL. unfold L, Lk, kbase, calm. subst x'. vw. cbn. rewrite !upd_other by auto. tauto.
      * cbn. unfold popping. cbn. rewrite upd_same. auto.
    + exists q. rewrite (Hst f Nu). split; [exact Q1|]. split.
      * eapply L_eqv; [|exact Q2']. unfold view_eqv, view_of. cbn. rewrite !upd_same. tauto.
      * xcases q; try exact Q3; exfalso;
        first [eapply Qb; reflexivity|eapply Qc; reflexivity|eapply Qd; reflexivity|
               eapply (proj1 (Qa _ _ _)); reflexivity|eapply (proj2 (Qa _ _ _)); reflexivity].
    + destruct (I_thr x HI u) as (r & R1 & R2 & R3). exists r.
      rewrite (Hst u Nu). split; [exact R1|]. split.
      * eapply L_eqv; [|exact R2]. unfold view_eqv, view_of. cbn. rewrite !upd_other by auto. tauto.
      * assert (P : forall g hh, hh = HPopped u \/ hh = HNode u -> popping x u g hh -> popping x' u g hh).
        { intros g hh Hh (P1 & P2 & P3). unfold popping. cbn. rewrite upd_other; [auto|].
          intros ->. rewrite Hp1 in P1. destruct Hh as [-> | ->]; congruence. }
        xcases r; try exact R3; revert R3; unfold X, Xk; cbn [x' base mem set_fnode ndata nnext qhead fstate].
        -- intros (A & g & B & Q). split; [exact A|]. exists g. auto.
        -- intros (g & B & Q). exists g. auto.
        -- intros (g & B & Q). exists g. auto.
        -- intros Q. auto.
        -- intros (Q & B). auto.
  - apply (I_slots x HI).
  - apply debt_k_frame; [reflexivity|stk_other|]. intros Hd.
    destruct (popping_no_debt f (HPopped t) (conj Hp1 (conj Hp2 Hp3)) Hd).
  - apply (invC_frame x); try reflexivity. apply (I_C x HI).
  - assert (Hpo : forall u, u <> t -> u <> f -> priv x' u = priv x u).
    { intros u Hu Hf. unfold priv. cbn. rewrite !upd_other by auto. reflexivity. }
    assert (Hpf : priv x' f = [h]).
    { unfold priv. cbn. rewrite upd_same, upd_other, Hexf by auto.
      destruct (Nat.eqb_spec h 0); [contradiction|reflexivity]. }
    assert (Hpt : priv x t = priv x' t ++ [h]).
    { unfold priv. cbn. rewrite upd_same, upd_other, Hs by auto. cbn. rewrite app_nil_r. reflexivity. }
    assert (Hprv : forall u n', In n' (priv x' u) -> (u = f /\ n' = h) \/ (In n' (priv x u) /\ n' <> h)).
    { intros u n' Hn'. destruct (Nat.eq_dec u f) as [->|Hf].
      - rewrite Hpf in Hn'. destruct Hn' as [<-|[]]. auto.
      - right. destruct (Nat.eq_dec u t) as [->|Hu].
        + pose proof (I_priv_nd x N t) as ND. rewrite Hpt in ND. split; [rewrite Hpt; apply in_or_app; auto|].
          intros ->. apply NoDup_remove_2 in ND. rewrite app_nil_r in ND. auto.
        + rewrite (Hpo u Hu Hf) in Hn'. split; [exact Hn'|]. apply (priv_other_ne u h n' Hu Hpn Hn'). }
    destruct N. constructor; try assumption.
    + apply (chain_ok_ext m); auto.
    + intros u n' Hn'. destruct (Hprv u n' Hn') as [[_ ->]|[H _]]; [exact Hhz|apply (I_priv_nz0 u n' H)].
    + intros u. destruct (Nat.eq_dec u f) as [->|Hf]; [rewrite Hpf; constructor; [intros []|constructor]|].
      destruct (Nat.eq_dec u t) as [->|Hu]; [|rewrite (Hpo u Hu Hf); auto].
      pose proof (I_priv_nd0 t) as ND. rewrite Hpt in ND. apply NoDup_remove_1 in ND.
      rewrite app_nil_r in ND. exact ND.
    + intros a b n' Hab Ha Hb.
      destruct (Hprv a n' Ha) as [[Ea En]|[Ha' Hna]], (Hprv b n' Hb) as [[Eb En']|[Hb' Hnb]]; try congruence.
      apply (I_priv_disj0 a b n' Hab Ha' Hb').
    + intros u n' Hn'. destruct (Hprv u n' Hn') as [[_ ->]|[H _]]; [apply (I_priv_chain0 t h Hpn)|].
      apply (I_priv_chain0 u n' H).
Qed.

Definition wphase (p : ph) : Prop :=
  (forall n pp k, p <> PW (WfNext n) pp k /\ p <> PW (WfXchg n) pp k) /\
  (forall a n pp k, p <> PW (WfLink a n) pp k) /\ (forall kf pp k, p <> PK kf pp k) /\
  (forall pp k, p <> PRd pp k).

Lemma L_wake v p w :
  L v p -> vha v = HNode w ->
  wphase p /\
  (vfs v <> ST_WAITING -> vbl v = false /\
     L (mkV (vfs v) (vfn v) (S (vpd v)) (vbl v) (vro v) HWoken (vul v) (vuc v) (vinq v)) p) /\
  (vfs v = ST_WAITING -> vbl v = true /\
     L (mkV ST_READY (vfn v) (vpd v) false (vro v) HWoken (vul v) (vuc v) (vinq v)) p).
Proof.
  destruct v as [fs fn pd bl ro ha ul uc inq]. cbn [vfs vfn vpd vbl vul vuc vinq vha vro].
  intros HL ->. unfold wphase.
  destruct p as [| | | | | | |[] ? ?|[] ? ?| |];
  revert HL; unfold L, Lw, Lk, kbase, calm, done_log, preflip, resumed, prelink, wq, settled;
  cbn [vfs vfn vpd vbl vro vha vul vuc vinq];
  try (intros HL; exfalso; intuition discriminate);
  (intros HL; split; [repeat split; discriminate|]);
  (split; intros Hfs; [|subst fs]); try (exfalso; intuition discriminate);
  intuition (try discriminate; try congruence).
Qed.

Lemma deliver f p k (m0 : kmem) :
  extra (stk (base x) t) = [] -> kbase (view_of x t) -> popping x t f (HNode t) ->
  (m0 = m /\ fstate m f <> ST_WAITING) \/ (m0 = set_fstate m f ST_READY /\ fstate m f = ST_WAITING) ->
  Inv (mk x t (wake m0 f) (stk_of t (PUY p k)) (role x) (upd (hand x) f HWoken) (gq x) (debt x)
          (upd (ulog x) t (ulog x t ++ [GWake f])) (ucont x)).
Proof.
  intros Hex Hk Hp Hm. destruct Hp as (Hp1 & Hp2 & Hp3).
  assert (Hft : f <> t). { intros ->. destruct Hk as (_ & Hr & _). cbn in Hr. congruence. }
  destruct (I_thr x HI f) as (q & Q1 & Q2 & Q3).
  destruct (L_wake _ q t Q2 Hp1) as ((Qa & Qb & Qc & Qd) & W1 & W2). cbn [view_of vfs vbl] in W1, W2.
  set (x' := mk _ _ _ _ _ _ _ _ _ _).
  assert (Hst : forall u, u <> t -> stk (base x') u = stk (base x) u) by stk_other.
  assert (Hmem : ndata (wake m0 f) = ndata m /\ nnext (wake m0 f) = nnext m /\ word (wake m0 f) = word m /\
                 qhead (wake m0 f) = qhead m /\ qtail (wake m0 f) = qtail m /\ fnode (wake m0 f) = fnode m /\
                 cell (wake m0 f) = cell m /\ slots_ok (wake m0 f) /\
                 forall u, u <> f -> fstate (wake m0 f) u = fstate m u /\ blocked (wake m0 f) u = blocked m u /\
                                     pend (wake m0 f) u = pend m u).
  { pose proof (I_slots x HI) as S. unfold wake.
    destruct Hm as [[-> _]|[-> _]]; cbn [set_fstate blocked]; destruct (blocked m f); cbn;
    repeat split; try reflexivity; try apply S; rewrite ?upd_other by assumption; reflexivity. }
  destruct Hmem as (Ed & En & Ew & Eh & Et & Ef & Ec & Sl & Eo).
  constructor.
  - intros u. destruct (Nat.eq_dec u t) as [->|Nu]; [|destruct (Nat.eq_dec u f) as [->|Nf]].
    + exists (PUY p k). split; [cbn; apply upd_same|]. split; [|exact I].
      destruct (Eo t (not_eq_sym Hft)) as (F1 & F2 & F3).
      revert Hk. unfold L, kbase, calm. unfold view_of. cbn [x' mk base mem role hand gq ulog ucont vfs vfn vpd vbl vro vha vul vuc vinq].
      rewrite F1, F2, F3, Ef, upd_same, upd_other, Hp3 by auto. cbn. intuition eauto.
    + exists q. rewrite (Hst f Nu). split; [exact Q1|]. split.
      * destruct Hm as [[-> Hw]|[-> Hw]].
        -- destruct (W1 Hw) as [Hb HL']. eapply L_eqv; [|exact HL'].
           subst x'. unfold view_eqv, view_of, mk, wake. cbn. rewrite Hb. cbn.
           rewrite ?upd_same, ?upd_other by auto. tauto.
        -- destruct (W2 Hw) as [Hb HL']. eapply L_eqv; [|exact HL'].
           subst x'. unfold view_eqv, view_of, mk, wake. cbn. rewrite Hb. cbn.
           rewrite ?upd_same, ?upd_other by auto. tauto.
      * xcases q; try exact I; exfalso;
        first [eapply Qb; reflexivity|eapply Qc; reflexivity|eapply Qd; reflexivity|
               eapply (proj1 (Qa _ _ _)); reflexivity|eapply (proj2 (Qa _ _ _)); reflexivity].
    + destruct (I_thr x HI u) as (r & R1 & R2 & R3). exists r.
      rewrite (Hst u Nu). split; [exact R1|]. split.
      * destruct (Eo u Nf) as (F1 & F2 & F3). eapply L_eqv; [|exact R2]. unfold view_eqv, view_of.
        cbn [x' mk base mem role hand gq ulog ucont vfs vfn vpd vbl vro vha vul vuc vinq].
        rewrite F1, F2, F3, Ef, !upd_other by auto. tauto.
      * assert (P : forall g hh, hh = HPopped u \/ hh = HNode u -> popping x u g hh ->
                                 popping x' u g hh /\ g <> f).
        { intros g hh Hh (P1 & P2 & P3). assert (g <> f).
          { intros ->. rewrite Hp1 in P1. destruct Hh as [-> | ->]; congruence. }
          unfold popping. cbn. rewrite !upd_other by auto. auto. }
        xcases r; try exact R3; revert R3; unfold X, Xk;
        cbn [x' mk base mem gq debt]; rewrite ?Ed, ?En, ?Eh, ?Ec; auto.
        -- intros (A & g & B & Q). split; [exact A|]. exists g. split; [exact B|]. apply P; auto.
        -- intros (g & B & Q). exists g. split; [exact B|]. apply P; auto.
        -- intros (g & B & Q). exists g. split; [exact B|]. apply P; auto.
        -- intros Q. apply P; auto.
        -- intros (Q & B). destruct (P _ _ (or_intror eq_refl) Q) as [Q' Ng]. split; [exact Q'|].
           destruct (Eo _ Ng) as (F1 & _). congruence.
  - exact Sl.
  - apply debt_k_frame; [reflexivity|stk_other|]. intros Hd.
    destruct (popping_no_debt f (HNode t) (conj Hp1 (conj Hp2 Hp3)) Hd).
  - apply (invC_frame x); try reflexivity; [|apply (I_C x HI)]. cbn. now rewrite Ew.
  - apply (invN_frame x); cbn [x' mk base mem gq]; auto; [|apply (I_N x HI)].
    intros u. cbn. destruct (Nat.eq_dec u t) as [->|N]; [rewrite upd_same; auto|now rewrite upd_other].
Qed.

Lemma step_KfState f p k :
  stk (base x) t = stk_of t (PK (KfState f) p k) -> L (view_of x t) (PK (KfState f) p k) ->
  X x t (PK (KfState f) p k) -> Inv (gstep x t).
Proof.
  intros Hs HL HX. gred Hs. cbn in HX.
  destruct (fstate m f =? ST_WAITING) eqn:E.
  - apply Z.eqb_eq in E. cbn. rewrite E. cbn.
    local (PK (KfReady f) p k) Hs; [exact HL|split; [exact HX|exact E]|auto|].
    intros Hd. destruct (popping_no_debt _ _ HX Hd).
  - apply Z.eqb_neq in E. cbn. destruct (fstate m f =? ST_WAITING) eqn:E'; [apply Z.eqb_eq in E'; contradiction|].
    cbn. apply (deliver f p k m); [rewrite Hs; reflexivity|apply HL|exact HX|auto].
Qed.

Lemma step_KfReady f p k :
  stk (base x) t = stk_of t (PK (KfReady f) p k) -> L (view_of x t) (PK (KfReady f) p k) ->
  X x t (PK (KfReady f) p k) -> Inv (gstep x t).
Proof.
  intros Hs HL HX. gred Hs. destruct HX as [HX E]. cbn.
  apply (deliver f p k (set_fstate m f ST_READY)); [rewrite Hs; reflexivity|apply HL|exact HX|auto].
Qed.

Lemma step_inv : status_of (base x) t = SReady -> Inv (gstep x t).
Proof.
  intros St. unfold status_of in St.
  destruct (Nat.ltb_spec t (nthr (base x))) as [Ht|Ht]; [|discriminate].
  destruct (I_thr x HI t) as (p & Hs & HL & HX). rewrite Hs in St.
  destruct p as [pr| |p k|p k|p k r|p k|p k|w p k|kf p k|p k|st p k].
  - apply (step_PInit pr Hs HL).
  - discriminate.
  - apply (step_PLSub p k Ht Hs HL).
  - apply (step_PTCas p k Ht Hs HL).
  - apply (step_PCs p k r Hs HL).
  - apply (step_PRd p k Hs HL HX).
  - apply (step_PUAdd p k Ht Hs HL).
  - destruct w.
    + apply (step_WfSaving p k Hs HL).
    + apply (step_WfData p k Hs HL).
    + apply (step_WfNext n p k Hs HL HX).
    + apply (step_WfXchg n p k Hs HL HX).
    + apply (step_WfLink a n p k Hs HL HX).
    + apply (step_WfY p k Hs HL).
    + apply (step_WfYN st p k Hs HL).
    + apply (step_WfSw p k Hs HL).
    + apply (step_WfSd p k Hs HL).
    + apply (step_WfMr p k Hs HL).
    + apply (step_WfMf p k Hs HL).
    + apply (step_WfAs p k Hs HL). cbn in St. destruct (blocked m t); [discriminate|reflexivity].
    + apply (step_WfRe p k Hs HL).
  - destruct kf.
    + apply (step_KfHead p k Hs HL HX).
    + apply (step_KfNext h p k Hs HL HX).
    + apply (step_KfSet h nx p k Ht Hs HL HX).
    + apply (step_KfSpY p k Hs HL HX).
    + apply (step_KfSpN st p k Hs HL HX).
    + apply (step_KfData h nx p k Hs HL HX).
    + apply (step_KfCopy h d p k Hs HL HX).
    + apply (step_KfOut h p k Hs HL HX).
    + apply (step_KfState f p k Hs HL HX).
    + apply (step_KfReady f p k Hs HL HX).
  - apply (step_PUY p k Hs HL).
  - apply (step_PUYN st p k Hs HL).
Qed.
End Steps.

Theorem ireach_inv progs x : ireach progs x -> Inv x.
Proof.
  induction 1 as [|x t R IH St]; [apply inv_init|apply step_inv; assumption].
Qed.

(* ---------------- second invariant: an in-flight hand-off has a live popper ---------------- *)
Definition J (x : ist) : Prop :=
  forall f w, hand x f = HPopped w \/ hand x f = HNode w ->
    role x f = Owner /\ exists kf p k, stk (base x) w = stk_of w (PK kf p k) /\ kpre kf = false.

Lemma stk_gstep_other x t u : u <> t -> stk (base (gstep x t)) u = stk (base x) u.
Proof.
  intros Hu. rewrite gstep_base. unfold step.
  destruct (kstep mc cret (mem (base x)) t (stk (base x) t)) as [[m1 e1] s1]. cbn. now apply upd_other.
Qed.

Lemma J_gen x t x' :
  J x -> (forall u, u <> t -> stk (base x') u = stk (base x) u) ->
  (forall f, hand x' f = hand x f \/ hand x' f = HNone \/ hand x' f = HWoken \/
             (role x' f = Owner /\ (hand x' f = HPopped t \/ hand x' f = HNode t) /\
              exists kf p k, stk (base x') t = stk_of t (PK kf p k) /\ kpre kf = false)) ->
  (forall f, hand x' f = hand x f -> role x f = Owner ->
             (exists w, hand x f = HPopped w \/ hand x f = HNode w) -> role x' f = Owner) ->
  (forall f, hand x f = HPopped t \/ hand x f = HNode t -> hand x' f = hand x f -> role x f = Owner ->
             exists kf p k, stk (base x') t = stk_of t (PK kf p k) /\ kpre kf = false) ->
  J x'.
Proof.
  intros HJ Hst H1 H2 H3 f w Hp.
  destruct (H1 f) as [E|[E|[E|(A & B & C)]]].
  - rewrite E in Hp. destruct (HJ f w Hp) as [Ho K]. split; [apply H2; eauto|].
    destruct (Nat.eq_dec w t) as [->|Nw]; [apply (H3 f); auto|rewrite (Hst w Nw); exact K].
  - rewrite E in Hp. destruct Hp; discriminate.
  - rewrite E in Hp. destruct Hp; discriminate.
  - split; [exact A|]. assert (w = t) as -> by (destruct B as [B|B], Hp as [Hp|Hp]; congruence). exact C.
Qed.

(* phases where the ghost hand/role maps do not change and t is not a post-pop popper *)
Lemma J_boring x t p :
  Inv x -> J x -> stk (base x) t = stk_of t p ->
  hand (gstep x t) = hand x -> role (gstep x t) = role x ->
  (forall kf pp k, p = PK kf pp k -> kpre kf = true) ->
  J (gstep x t).
Proof.
  intros HI HJ Hs Eh Er Hk. apply (J_gen x t); auto.
  - intros u Hu. now apply stk_gstep_other.
  - intros f. rewrite Eh. auto.
  - intros f _ Ho _. now rewrite Er.
  - intros f Hp _ _. destruct (HJ f t Hp) as [_ (kf & pp & k & E & K)].
    rewrite Hs in E. apply stk_of_K_inj in E. rewrite (Hk _ _ _ E) in K. discriminate.
Qed.

Lemma stk_gstep_self x t :
  stk (base (gstep x t)) t = snd (kstep mc cret (mem (base x)) t (stk (base x) t)).
Proof.
  rewrite gstep_base. unfold step.
  destruct (kstep mc cret (mem (base x)) t (stk (base x) t)) as [[m1 e1] s1]. cbn. apply upd_same.
Qed.

Ltac ghs Hs := unfold gstep; rewrite Hs; reflexivity.
Ltac jboring HI HJ Hs :=
  apply (J_boring _ _ _ HI HJ Hs);
  [ghs Hs | ghs Hs | intros ? ? ? E; first [discriminate E | injection E as <- _ _; reflexivity]].

Lemma J_step x t : Inv x -> J x -> status_of (base x) t = SReady -> J (gstep x t).
Proof.
  intros HI HJ St. unfold status_of in St.
  destruct (Nat.ltb_spec t (nthr (base x))) as [Ht|Ht]; [|discriminate].
  destruct (I_thr x HI t) as (p & Hs & HL & HX). rewrite Hs in St.
  assert (Hoth : forall u, u <> t -> stk (base (gstep x t)) u = stk (base x) u)
    by (intros u Hu; now apply stk_gstep_other).
  assert (HnK : (forall kf pp k, p <> PK kf pp k) -> forall f, hand x f = HPopped t \/ hand x f = HNode t -> False).
  { intros Hn f Hp. destruct (HJ f t Hp) as [_ (kf & pp & k & E & _)]. rewrite Hs in E.
    apply stk_of_K_inj in E. apply (Hn _ _ _ E). }
  destruct p as [pr| |p k|p k|p k r|p k|p k|w p k|kf p k|p k|st p k].
  - jboring HI HJ Hs.
  - discriminate.
  - (* LSub *) destruct HL as (Hc & _).
    apply (J_gen x t); auto.
    + intros f. unfold gstep. rewrite Hs. cbn. unfold upd. destruct (Nat.eqb f t); auto.
    + intros f _ Ho (w & Hw). unfold gstep. rewrite Hs. cbn. rewrite upd_other; [exact Ho|].
      intros ->. destruct Hw as [Hw|Hw]; destruct Hc as (_ & _ & _ & _ & [S|S]); cbn in S; congruence.
    + intros f Hp. exfalso. apply (HnK ltac:(discriminate) f Hp).
  - (* TCas *) destruct HL as (Hc & _).
    apply (J_gen x t); auto.
    + intros f. unfold gstep. rewrite Hs. cbn. destruct (word (mem (base x)) 0 =? 1); cbn; auto.
      unfold upd. destruct (Nat.eqb f t); auto.
    + intros f _ Ho (w & Hw). unfold gstep. rewrite Hs. cbn.
      destruct (word (mem (base x)) 0 =? 1); cbn; [|exact Ho]. rewrite upd_other; [exact Ho|].
      intros ->. destruct Hw as [Hw|Hw]; destruct Hc as (_ & _ & _ & _ & [S|S]); cbn in S; congruence.
    + intros f Hp. exfalso. apply (HnK ltac:(discriminate) f Hp).
  - jboring HI HJ Hs.
  - jboring HI HJ Hs.
  - (* UAdd *) destruct HL as (Hc & _).
    apply (J_gen x t); auto.
    + intros f. unfold gstep. rewrite Hs. cbn. auto.
    + intros f _ Ho (w & Hw). unfold gstep. rewrite Hs. cbn. rewrite upd_other; [exact Ho|].
      intros ->. destruct Hw as [Hw|Hw]; destruct Hc as (_ & _ & _ & _ & [S|S]); cbn in S; congruence.
    + intros f Hp. exfalso. apply (HnK ltac:(discriminate) f Hp).
  - destruct w; jboring HI HJ Hs.
  - assert (Hpost : forall kf', kpre kf' = false ->
              stk (base (gstep x t)) t = stk_of t (PK kf' p k) ->
              exists kf0 p0 k0, stk (base (gstep x t)) t = stk_of t (PK kf0 p0 k0) /\ kpre kf0 = false)
      by (intros kf' K E; exists kf', p, k; auto).
    destruct kf.
    + jboring HI HJ Hs.
    + jboring HI HJ Hs.
    + (* KSetHead *)
      assert (Est : stk (base (gstep x t)) t = stk_of t (PK (KfData h nx) p k))
        by (rewrite stk_gstep_self, Hs; reflexivity).
      apply (J_gen x t); auto.
      * intros f. unfold gstep at 1 2 3 4 5. rewrite Hs. cbn -[tid_of_name gstep]. unfold upd.
        destruct (Nat.eqb f _); auto. right. right. right. split; [reflexivity|]. split; [auto|].
        apply (Hpost (KfData h nx)); auto.
      * intros f _ Ho _. unfold gstep. rewrite Hs. cbn -[tid_of_name]. unfold upd.
        destruct (Nat.eqb f _); auto.
      * intros f Hp. destruct (HJ f t Hp) as [_ (kf & pp & k0 & E & K)].
        rewrite Hs in E. apply stk_of_K_inj in E. injection E as <- _ _. discriminate.
    + jboring HI HJ Hs.
    + jboring HI HJ Hs.
    + (* KData *)
      assert (Est : stk (base (gstep x t)) t = stk_of t (PK (KfCopy h (ndata (mem (base x)) nx)) p k))
        by (rewrite stk_gstep_self, Hs; reflexivity).
      apply (J_gen x t); auto.
      * intros f. left. ghs Hs.
      * intros f _ Ho _. replace (role (gstep x t)) with (role x) by (symmetry; ghs Hs). exact Ho.
      * intros f _ _ _. apply (Hpost (KfCopy h (ndata (mem (base x)) nx))); auto.
    + (* KCopy *)
      assert (Est : stk (base (gstep x t)) t = stk_of t (PK (KfOut h) p k))
        by (rewrite stk_gstep_self, Hs; reflexivity).
      apply (J_gen x t); auto.
      * intros f. left. ghs Hs.
      * intros f _ Ho _. replace (role (gstep x t)) with (role x) by (symmetry; ghs Hs). exact Ho.
      * intros f _ _ _. apply (Hpost (KfOut h)); auto.
    + (* KOut *)
      destruct HX as (f0 & Hd0 & Hp1 & Hp2 & Hp3). change (ndata (mem (base x)) h = fname f0) in Hd0.
      assert (Est : stk (base (gstep x t)) t = stk_of t (PK (KfState f0) p k)).
      { rewrite stk_gstep_self, Hs. cbn -[tid_of_name]. rewrite Hd0, tid_of_fname. reflexivity. }
      assert (Eh : hand (gstep x t) = upd (hand x) f0 (HNode t)).
      { unfold gstep. rewrite Hs. cbn -[tid_of_name]. rewrite Hd0, tid_of_fname. reflexivity. }
      assert (Er : role (gstep x t) = role x) by ghs Hs.
      apply (J_gen x t); auto.
      * intros f. rewrite Eh, Er. unfold upd. destruct (Nat.eqb_spec f f0) as [->|N]; auto.
        right. right. right. split; [exact Hp2|]. split; [auto|]. apply (Hpost (KfState f0)); auto.
      * intros f _ Ho _. now rewrite Er.
      * intros f _ _ _. apply (Hpost (KfState f0)); auto.
    + (* KState *)
      destruct HX as (Hp1 & Hp2 & Hp3). cbn in Hp1, Hp2, Hp3.
      destruct (fstate (mem (base x)) f =? ST_WAITING) eqn:E.
      * assert (Est : stk (base (gstep x t)) t = stk_of t (PK (KfReady f) p k))
          by (rewrite stk_gstep_self, Hs; cbn; rewrite E; reflexivity).
        assert (Eh : hand (gstep x t) = hand x) by (unfold gstep; rewrite Hs; cbn; rewrite E; reflexivity).
        assert (Er : role (gstep x t) = role x) by (unfold gstep; rewrite Hs; cbn; rewrite E; reflexivity).
        apply (J_gen x t); auto.
        -- intros g. rewrite Eh. auto.
        -- intros g _ Ho _. now rewrite Er.
        -- intros g _ _ _. apply (Hpost (KfReady f)); auto.
      * assert (Eh : hand (gstep x t) = upd (hand x) f HWoken) by (unfold gstep; rewrite Hs; cbn; rewrite E; reflexivity).
        assert (Er : role (gstep x t) = role x) by (unfold gstep; rewrite Hs; cbn; rewrite E; reflexivity).
        apply (J_gen x t); auto.
        -- intros g. rewrite Eh. unfold upd. destruct (Nat.eqb g f); auto.
        -- intros g _ Ho _. now rewrite Er.
        -- intros g Hg Eg Ho. exfalso. assert (g = f) as -> by apply (I_own1 x (I_C x HI) g f Ho Hp2).
           rewrite Eh, upd_same in Eg. rewrite <- Eg in Hg. destruct Hg; discriminate.
    + (* KReady *)
      destruct HX as ((Hp1 & Hp2 & Hp3) & _). cbn in Hp1, Hp2, Hp3.
      assert (Eh : hand (gstep x t) = upd (hand x) f HWoken) by ghs Hs.
      assert (Er : role (gstep x t) = role x) by ghs Hs.
      apply (J_gen x t); auto.
      * intros g. rewrite Eh. unfold upd. destruct (Nat.eqb g f); auto.
      * intros g _ Ho _. now rewrite Er.
      * intros g Hg Eg Ho. exfalso. assert (g = f) as -> by apply (I_own1 x (I_C x HI) g f Ho Hp2).
        rewrite Eh, upd_same in Eg. rewrite <- Eg in Hg. destruct Hg; discriminate.
  - jboring HI HJ Hs.
  - jboring HI HJ Hs.
Qed.

Lemma J_init progs : J (iinit progs).
Proof. intros f w [H|H]; discriminate. Qed.

Theorem ireach_J progs x : ireach progs x -> J x.
Proof.
  induction 1 as [|x t R IH St]; [apply J_init|].
  apply J_step; auto. apply (ireach_inv progs x R).
Qed.

(* ---------------- property-level definitions and lemmas ---------------- *)
Definition owns (x : ist) (t : nat) : Prop := role x t = Owner.
Definition announced (x : ist) (t : nat) : Prop := role x t = Announced.
(* frames: thread t is between acquiring and the fetch_add of its unlock *)
Definition in_cs (s : st) (t : nat) : Prop :=
  exists r, stk s t = CWrite 0 (Zn t + 1) :: r \/ stk s t = CRead 0 :: r \/ stk s t = UAdd 0 :: r.
(* frames: thread d is inside wake_from_mpsc_queue of a contended unlock and has not popped yet *)
Definition in_pop_loop (s : st) (d : nat) : Prop :=
  exists kf p k, stk s d = kframes kf ++ [UWoke; UYield; FC (MUnlocked p k 1)] /\ kpre kf = true.
(* frames: thread w has popped a waiter and is on its way to wake it *)
Definition in_wake_path (s : st) (w : nat) : Prop :=
  exists kf p k, stk s w = kframes kf ++ [UWoke; UYield; FC (MUnlocked p k 1)] /\ kpre kf = false.

(* how the ghost role shows in the frames *)
Definition role_shape (x : ist) (t : nat) : Prop :=
  match role x t with
  | Owner => in_cs (base x) t \/ stk (base x) t = [] \/ (In LWaited (stk (base x) t) /\ hand x t <> HNone)
  | Announced => In LWaited (stk (base x) t) /\ hand x t = HNone
  | Idle => ~ in_cs (base x) t /\ ~ In LWaited (stk (base x) t)
  end.

Lemma wq_role v : wq v -> (vha v = HNone /\ vro v = Announced) \/ (vha v <> HNone /\ vro v = Owner).
Proof. unfold wq. destruct (vha v); intros H; [left|right|right|right]; split; try discriminate; tauto. Qed.

Lemma role_shape_inv x t : Inv x -> role_shape x t.
Proof.
  intros HI. destruct (I_thr x HI t) as (p & Hs & HL & _). unfold role_shape, in_cs. rewrite Hs.
  assert (NC : forall (fr : frame mc) r, (forall c v, fr <> CWrite c v) -> (forall c, fr <> CRead c) -> (forall q, fr <> UAdd q) ->
          ~ (exists r0, fr :: r = CWrite 0 (Zn t + 1) :: r0 \/ fr :: r = CRead 0 :: r0 \/ fr :: r = UAdd 0 :: r0)).
  { intros fr r A B C (r0 & [E|[E|E]]); injection E; intros; subst; [eapply A|eapply B|eapply C]; reflexivity. }
  assert (RR : forall r0, vro (view_of x t) = r0 -> role x t = r0) by (intros r0 E; exact E).
  destruct p as [pr| |p k|p k|p k r|p k|p k|w p k|kf p k|p k|st p k].
  - destruct HL as (_ & Hr & _). rewrite (RR _ Hr). split; [apply NC; discriminate|cbn; intuition discriminate].
  - destruct HL as (_ & [Hr|Hr] & _); rewrite (RR _ Hr);
    [split; [intros (r0 & [E|[E|E]]); discriminate|intros []]|auto].
  - destruct HL as (_ & Hr & _). rewrite (RR _ Hr). split; [apply NC; discriminate|cbn; intuition discriminate].
  - destruct HL as (_ & Hr & _). rewrite (RR _ Hr). split; [apply NC; discriminate|cbn; intuition discriminate].
  - destruct HL as (_ & Hr & _). rewrite (RR _ Hr). left. eexists. left. reflexivity.
  - destruct HL as (_ & Hr & _). rewrite (RR _ Hr). left. eexists. right. left. reflexivity.
  - destruct HL as (_ & Hr & _). rewrite (RR _ Hr). left. eexists. right. right. reflexivity.
  - assert (HW : In LWaited (stk_of t (PW w p k))) by (destruct w; cbn; auto).
    assert (R : (hand x t = HNone /\ role x t = Announced) \/ (hand x t <> HNone /\ role x t = Owner)).
    { destruct HL as [HL _]. destruct w; cbn [Lw] in HL.
      - destruct HL as (_ & A & B & _). left. split; assumption.
      - destruct HL as (_ & A & B & _). left. split; assumption.
      - destruct HL as ((_ & _ & _ & A & B & _) & _). left. split; assumption.
      - destruct HL as ((_ & _ & _ & A & B & _) & _). left. split; assumption.
      - destruct HL as ((_ & _ & _ & A & B & _) & _). left. split; assumption.
      - destruct HL as [HL|HL]; apply (wq_role _ (proj1 HL)).
      - destruct HL as [_ [HL|HL]]; apply (wq_role _ (proj1 HL)).
      - apply (wq_role _ (proj1 HL)).
      - apply (wq_role _ (proj1 HL)).
      - apply (wq_role _ (proj1 HL)).
      - apply (wq_role _ (proj1 HL)).
      - apply (wq_role _ (proj1 HL)).
      - apply (wq_role _ (proj1 HL)). }
    destruct R as [[A B]|[A B]]; rewrite B; auto.
  - destruct HL as ((_ & Hr & _) & _). rewrite (RR _ Hr). split; [destruct kf; apply NC; discriminate|].
    destruct kf; cbn; intuition discriminate.
  - destruct HL as ((_ & Hr & _) & _). rewrite (RR _ Hr). split; [apply NC; discriminate|cbn; intuition discriminate].
  - destruct HL as ((_ & Hr & _) & _). rewrite (RR _ Hr). split; [apply NC; discriminate|cbn; intuition discriminate].
Qed.

(* threads that do not exist never move *)
Lemma ireach_frozen progs x : ireach progs x ->
  nthr (base x) = length progs /\
  forall t, (length progs <= t)%nat -> stk (base x) t = [Start; FC (MNext [] 1 false)].
Proof.
  induction 1 as [|x t R [IH1 IH2] St].
  - split; [reflexivity|]. intros t Ht. cbn. now rewrite nth_overflow.
  - split.
    + rewrite gstep_base. unfold step.
      destruct (kstep mc cret (mem (base x)) t (stk (base x) t)) as [[m1 e1] s1]. exact IH1.
    + intros u Hu. rewrite stk_gstep_other; [auto|]. intros ->. unfold status_of in St.
      destruct (Nat.ltb_spec t (nthr (base x))); [lia|discriminate].
Qed.

Lemma K_thread_exists progs x w kf p k :
  ireach progs x -> stk (base x) w = stk_of w (PK kf p k) -> (w < nthr (base x))%nat.
Proof.
  intros R Hs. destruct (ireach_frozen progs x R) as [E F]. rewrite E.
  destruct (Nat.lt_ge_cases w (length progs)) as [H|H]; [exact H|].
  rewrite (F w H) in Hs. destruct kf; discriminate.
Qed.

(* ---- C03.1 exclusion ---- *)
Lemma cs_owns x t : Inv x -> in_cs (base x) t -> owns x t.
Proof.
  intros HI (r & Hc). destruct (I_thr x HI t) as (p & Hs & HL & _). rewrite Hs in Hc.
  destruct p as [pr| |p k|p k|p k r0|p k|p k|[] p k|[] p k|p k|st p k];
  try (exfalso; destruct Hc as [E|[E|E]]; discriminate); apply HL.
Qed.

Lemma trylock_free x t r : Inv x ->
  stk (base x) t = TCas 0 :: r -> word (mem (base x)) 0 = 1 ->
  forall u, ~ owns x u /\ ~ announced x u.
Proof.
  intros HI _ Hw u. pose proof (I_count x (I_C x HI)) as Hc. rewrite Hw in Hc.
  split; intros H; [pose proof (owner_counted x HI u H)|pose proof (ann_counted x HI u H)]; lia.
Qed.

Lemma trylock_busy x t r : Inv x ->
  stk (base x) t = TCas 0 :: r -> (exists u, owns x u) -> word (mem (base x)) 0 <> 1.
Proof.
  intros HI Hs [u Hu] Hw. destruct (trylock_free x t r HI Hs Hw u) as [A _]. auto.
Qed.

(* ---- C03.3 visibility ---- *)
Lemma readback_sees_own x t p k r : Inv x ->
  stk (base x) t = CRead 0 :: FC (MReadBack p k) :: r -> cell (mem (base x)) 0 = Zn t + 1.
Proof.
  intros HI Hc. destruct (I_thr x HI t) as (q & Hs & _ & HX). rewrite Hs in Hc.
  destruct q as [pr| |p0 k0|p0 k0|p0 k0 r0|p0 k0|p0 k0|[] p0 k0|[] p0 k0|p0 k0|st p0 k0];
  try discriminate. exact HX.
Qed.

Lemma unlock_reports_1 x t p k v : Inv x ->
  In (FC (MUnlocked p k v)) (stk (base x) t) -> v = 1.
Proof.
  intros HI Hc. destruct (I_thr x HI t) as (q & Hs & _ & _). rewrite Hs in Hc.
  destruct q as [pr| |p0 k0|p0 k0|p0 k0 r0|p0 k0|p0 k0|[] p0 k0|[] p0 k0|p0 k0|st p0 k0];
  cbn in Hc; repeat (destruct Hc as [Hc|Hc]; [try discriminate; injection Hc; intros; subst; reflexivity|]);
  destruct Hc.
Qed.

(* ---- C03.4 hand-off ---- *)
Lemma handoff_inv x t : Inv x ->
  (ucont x t = false -> ulog x t = []) /\
  (ulog x t = [] \/
   (exists f, ulog x t = [GPop f] /\ owns x f /\ (hand x f = HPopped t \/ hand x f = HNode t) /\
              in_wake_path (base x) t) \/
   (exists f, ulog x t = [GPop f; GWake f])) /\
  (in_pop_loop (base x) t -> ucont x t = true /\ ulog x t = [] /\ debt x = Some t) /\
  (forall r, stk (base x) t = YRead :: UDone :: r -> exists f, ulog x t = [GPop f; GWake f]).
Proof.
  intros HI. destruct (I_thr x HI t) as (q & Hs & HL & HX).
  assert (DL : done_log (view_of x t) ->
    (ucont x t = false -> ulog x t = []) /\
    (ulog x t = [] \/
     (exists f, ulog x t = [GPop f] /\ owns x f /\ (hand x f = HPopped t \/ hand x f = HNode t) /\
                in_wake_path (base x) t) \/
     (exists f, ulog x t = [GPop f; GWake f]))).
  { intros [D1 D2]. cbn in D1, D2. split; [exact D1|]. destruct (ucont x t); auto. }
  assert (NK : (forall kf pp k, q <> PK kf pp k) -> in_pop_loop (base x) t -> False).
  { intros Hn (kf & pp & k & E & _). rewrite Hs in E. apply (stk_of_K_inj t q kf pp k) in E. eapply Hn; eauto. }
  destruct q as [pr| |p0 k0|p0 k0|p0 k0 r0|p0 k0|p0 k0|w p0 k0|kf p0 k0|p0 k0|st p0 k0].
  1-8: assert (D : done_log (view_of x t)) by (try apply HL; destruct HL as [_ D]; exact D);
       destruct (DL D) as [A B]; split; [exact A|]; split; [exact B|]; split;
       [intros Hp; exfalso; apply (NK ltac:(discriminate) Hp)|];
       intros r E; rewrite Hs in E; try discriminate; destruct w; discriminate.
  - destruct HL as ((_ & _ & _ & Hu) & Hul & _). cbn in Hu, Hul.
    split; [intros E; rewrite Hu in E; discriminate|].
    assert (Post : kpre kf = false -> forall f hh, popping x t f hh -> hh = HPopped t \/ hh = HNode t ->
             exists f, ulog x t = [GPop f] /\ owns x f /\ (hand x f = HPopped t \/ hand x f = HNode t) /\
                       in_wake_path (base x) t).
    { intros K f hh (P1 & P2 & P3) Hh. exists f. split; [exact P3|]. split; [exact P2|].
      split; [destruct Hh as [-> | ->]; auto|]. exists kf, p0, k0. rewrite Hs. auto. }
    split; [|split].
    + destruct kf; cbn in HX; try (left; apply Hul; reflexivity); right; left.
      * destruct HX as (_ & f & _ & P). apply (Post eq_refl f _ P); auto.
      * destruct HX as (f & _ & P). apply (Post eq_refl f _ P); auto.
      * destruct HX as (f & _ & P). apply (Post eq_refl f _ P); auto.
      * apply (Post eq_refl f _ HX); auto.
      * destruct HX as [P _]. apply (Post eq_refl f _ P); auto.
    + intros (kf' & pp & k & E & K). rewrite Hs in E. apply (stk_of_K_inj t) in E. injection E as -> _ _.
      split; [exact Hu|]. split; [apply Hul; exact K|]. destruct kf'; try discriminate; cbn in HX; tauto.
    + intros r E. rewrite Hs in E. destruct kf; discriminate.
  - destruct HL as ((_ & _ & _ & Hu) & f & Hf). cbn in Hu, Hf.
    split; [intros E; rewrite Hu in E; discriminate|]. split; [right; right; eauto|]. split.
    + intros Hp. exfalso. apply (NK ltac:(discriminate) Hp).
    + intros _ _. eauto.
  - destruct HL as ((_ & _ & _ & Hu) & _ & f & Hf). cbn in Hu, Hf.
    split; [intros E; rewrite Hu in E; discriminate|]. split; [right; right; eauto|]. split.
    + intros Hp. exfalso. apply (NK ltac:(discriminate) Hp).
    + intros r E. rewrite Hs in E. discriminate.
Qed.

(* ---- C03.5 no stranded waiter, no lost wake-up ---- *)
Lemma no_owner_dec x : Inv x -> (forall u, ~ owns x u) \/ exists u, owns x u.
Proof.
  intros HI. destruct (Nat.eq_dec (nown x) 0) as [E|N].
  - left. intros u. apply (nown0_no_owner x HI u E).
  - right. destruct (cnt_ex (fun u => is_owner (role x u)) (nthr (base x))) as (u & _ & Hu).
    { unfold nown in N. lia. }
    exists u. unfold owns. destruct (role x u); try discriminate; reflexivity.
Qed.

Lemma stranded_obligation x t : Inv x ->
  announced x t -> (forall u, ~ owns x u) ->
  exists d, debt x = Some d /\ in_pop_loop (base x) d.
Proof.
  intros HI Ha Hn. destruct (debt x) as [d|] eqn:Hd.
  - exists d. split; [reflexivity|]. destruct (I_debt_k x HI d Hd) as (kf & p & k & E & K).
    exists kf, p, k. auto.
  - exfalso. pose proof (ann_counted x HI t Ha). destruct (I_nodebt x (I_C x HI) Hd) as [E|E]; [|lia].
    destruct (cnt_ex (fun u => is_owner (role x u)) (nthr (base x))) as (u & _ & Hu).
    { fold (nown x). lia. }
    apply (Hn u). unfold owns. destruct (role x u); try discriminate; reflexivity.
Qed.

(* an owner that is asleep has its wake-up on the way *)
Lemma sleeping_owner_has_waker x f r : Inv x -> J x ->
  owns x f -> stk (base x) f = Asleep :: r -> blocked (mem (base x)) f = true ->
  exists w, (hand x f = HPopped w \/ hand x f = HNode w) /\ in_wake_path (base x) w.
Proof.
  intros HI HJ Ho Hs Hb. destruct (I_thr x HI f) as (q & Hq & HL & _). rewrite Hq in Hs.
  destruct q as [pr| |p0 k0|p0 k0|p0 k0 r0|p0 k0|p0 k0|[] p0 k0|[] p0 k0|p0 k0|st p0 k0]; try discriminate.
  destruct HL as ((W & [(A & _ & _)|(_ & B & _)]) & _); [|cbn in B; congruence].
  cbn in A. unfold wq in W. cbn in W. unfold owns in Ho.
  destruct (hand x f) as [|w|w|] eqn:Hh; [destruct W; congruence| | |congruence].
  - exists w. split; [auto|]. destruct (HJ f w) as [_ (kf & p & k & E & K)]; [rewrite Hh; auto|].
    exists kf, p, k. auto.
  - exists w. split; [auto|]. destruct (HJ f w) as [_ (kf & p & k & E & K)]; [rewrite Hh; auto|].
    exists kf, p, k. auto.
Qed.

Definition quiescent (s : st) : Prop := forall t, status_of s t <> SReady.

Lemma K_runnable progs x w kf p k : ireach progs x ->
  stk (base x) w = kframes kf ++ [UWoke; UYield; FC (MUnlocked p k 1)] -> status_of (base x) w = SReady.
Proof.
  intros R Hs. pose proof (K_thread_exists progs x w kf p k R Hs) as Hw. unfold status_of.
  destruct (Nat.ltb_spec w (nthr (base x))); [|lia]. rewrite Hs. destruct kf; reflexivity.
Qed.

Lemma quiescent_shape progs x : ireach progs x -> quiescent (base x) ->
  forall t, (t < nthr (base x))%nat ->
    stk (base x) t = [] \/
    (announced x t /\ (exists r, stk (base x) t = Asleep :: r) /\ blocked (mem (base x)) t = true /\
     exists u, owns x u /\ stk (base x) u = []).
Proof.
  intros R Q t Ht. pose proof (ireach_inv progs x R) as HI. pose proof (ireach_J progs x R) as HJ.
  assert (Sh : forall u, (u < nthr (base x))%nat ->
           stk (base x) u = [] \/ ((exists r, stk (base x) u = Asleep :: r) /\ blocked (mem (base x)) u = true)).
  { intros u Hu. specialize (Q u). unfold status_of in Q.
    destruct (Nat.ltb_spec u (nthr (base x))); [|lia].
    destruct (stk (base x) u) as [|fr r]; [auto|]. right.
    destruct fr; try (exfalso; apply Q; reflexivity). cbn in Q.
    destruct (blocked (mem (base x)) u); [eauto|exfalso; apply Q; reflexivity]. }
  assert (NoSleepOwner : forall u r, owns x u -> stk (base x) u = Asleep :: r ->
                                     blocked (mem (base x)) u = true -> False).
  { intros u r Ho Hs Hb. destruct (sleeping_owner_has_waker x u r HI HJ Ho Hs Hb) as (w & _ & kf & p & k & E & _).
    apply (Q w). apply (K_runnable progs x w kf p k R E). }
  destruct (Sh t Ht) as [E|[[r Hs] Hb]]; [auto|]. right.
  pose proof (role_shape_inv x t HI) as RS. unfold role_shape in RS.
  destruct (role x t) eqn:Hr.
  - exfalso. apply (proj2 RS). rewrite Hs.
    destruct (I_thr x HI t) as (q & Hq & _). rewrite Hq in Hs.
    destruct q as [pr| |p0 k0|p0 k0|p0 k0 r0|p0 k0|p0 k0|[] p0 k0|[] p0 k0|p0 k0|st p0 k0]; try discriminate.
    injection Hs as <-. cbn. auto.
  - split; [exact Hr|]. split; [eauto|]. split; [exact Hb|].
    destruct (no_owner_dec x HI) as [Hn|[u Hu]].
    + exfalso. destruct (stranded_obligation x t HI Hr Hn) as (d & _ & kf & p & k & E & _).
      apply (Q d). apply (K_runnable progs x d kf p k R E).
    + exists u. split; [exact Hu|].
      assert (Hul : (u < nthr (base x))%nat) by (apply (I_role_lt x (I_C x HI)); unfold owns in Hu; congruence).
      destruct (Sh u Hul) as [E|[[r' Hs'] Hb']]; [exact E|]. exfalso. apply (NoSleepOwner u r' Hu Hs' Hb').
  - exfalso. apply (NoSleepOwner t r Hr Hs Hb).
Qed.

(* ---------------- running the ghost machine on a schedule (for examples) ---------------- *)
Fixpoint irun (x : ist) (sch : list nat) : ist :=
  match sch with
  | [] => x
  | t :: r => irun (match status_of (base x) t with SReady => gstep x t | _ => x end) r
  end.

Lemma ireach_irun progs sch : forall x, ireach progs x -> ireach progs (irun x sch).
Proof.
  induction sch as [|t r IH]; intros x R; cbn; [exact R|]. apply IH.
  destruct (status_of (base x) t) eqn:E; auto. now constructor.
Qed.
