(* C09, part 1: the sleepers tree of src/fiber_event_native.c
   (waiter_insert / waiter_remove_less_than), "a tree of linked lists".

   The C nodes live on the sleeping fibers' stacks; a node has a key
   (wake_time, uint64), a `next` pointer chaining the nodes with the same key
   and `left`/`right` children (only meaningful in the first node of a chain).
   The functional model keeps exactly that shape:

     Node l key chain r      chain = node ids in `next` order, head first

   * waiter_insert descends by `<` / `==` / else; on an equal key the new node
     is linked directly AFTER the head of the chain (node->next = head->next;
     head->next = node); otherwise it becomes a new leaf.
     Precondition of the C function (met by fiber_sleep: `waiter_el_t
     wake_info = {}`): the inserted node is zeroed (next/left/right NULL).
   * waiter_remove_less_than follows `left` pointers to the leftmost node; if
     its key is < bound it is replaced by its right child and returned (the
     whole chain hangs off it), otherwise NULL.

   The model is extracted (run_case, model name "sleeptree") and compared with
   the real functions on real nodes by rt/h_sleep.c (mode `tree`): removed id
   sequences and the final shape of the tree must be identical. *)
From Coq Require Import List ZArith NArith Lia Bool Arith Sorting.Sorted Permutation.
Import ListNotations.

Inductive tr := Leaf | Node (l : tr) (key : N) (chain : list nat) (r : tr).

Definition chain_add (ch : list nat) (id : nat) : list nat :=
  match ch with
  | h :: tl => h :: id :: tl
  | [] => [id]                     (* unreachable: chains are never empty *)
  end.

Fixpoint insert (t : tr) (k : N) (id : nat) : tr :=
  match t with
  | Leaf => Node Leaf k [id] Leaf
  | Node l k' ch r =>
      if (k <? k')%N then Node (insert l k id) k' ch r
      else if (k =? k')%N then Node l k' (chain_add ch id) r
      else Node l k' ch (insert r k id)
  end.

(* one call of waiter_remove_less_than: (returned chain or NULL, new tree) *)
Fixpoint remove_lt (t : tr) (b : N) : option (N * list nat) * tr :=
  match t with
  | Leaf => (None, Leaf)
  | Node Leaf k ch r => if (k <? b)%N then (Some (k, ch), r) else (None, t)
  | Node l k ch r => let '(res, l') := remove_lt l b in (res, Node l' k ch r)
  end.

Fixpoint size (t : tr) : nat :=
  match t with Leaf => 0 | Node l _ _ r => S (size l + size r) end.

(* the loop of fiber_event_wake_sleepers: call until NULL *)
Fixpoint drain_fuel (fuel : nat) (t : tr) (b : N) : list (N * list nat) * tr :=
  match fuel with
  | O => ([], t)
  | S f => match remove_lt t b with
           | (None, t') => ([], t')
           | (Some c, t') => let '(cs, t'') := drain_fuel f t' b in (c :: cs, t'')
           end
  end.
Definition drain (t : tr) (b : N) := drain_fuel (S (size t)) t b.

(* in-order contents *)
Fixpoint flat (t : tr) : list (N * list nat) :=
  match t with Leaf => [] | Node l k ch r => flat l ++ (k, ch) :: flat r end.

(* every (key, id) pair stored *)
Definition pairs_of (c : N * list nat) : list (N * nat) := map (fun i => (fst c, i)) (snd c).
Definition elems (t : tr) : list (N * nat) := flat_map pairs_of (flat t).

(* ---------- executable case runner (differential test) ---------- *)
Local Open Scope Z_scope.
Definition key_of (shift arg : Z) : N := Z.to_N ((arg * 2 ^ shift) mod 2 ^ 64).
Definition out_chain (c : option (N * list nat)) : list Z :=
  match c with None => [0] | Some (_, ch) => map Z.of_nat ch ++ [0] end.
Fixpoint dump (shift : Z) (t : tr) : list Z :=
  match t with
  | Leaf => [-1]
  | Node l k ch r => (Z.of_N k / 2 ^ shift) :: map Z.of_nat ch ++ [0] ++ dump shift l ++ dump shift r
  end.
Fixpoint run_ops (shift : Z) (ops : list Z) (n : nat) (t : tr) (next_id : nat) : list Z :=
  match n, ops with
  | S n', op :: arg :: rest =>
      let k := key_of shift arg in
      if op =? 1 then run_ops shift rest n' (insert t k next_id) (S next_id)
      else if op =? 2 then let '(c, t') := remove_lt t k in out_chain c ++ run_ops shift rest n' t' next_id
      else if op =? 3 then let '(cs, t') := drain t k in
                           flat_map (fun c => out_chain (Some c)) cs ++ [0] ++ run_ops shift rest n' t' next_id
      else run_ops shift rest n' t next_id
  | _, _ => dump shift t
  end.
Local Close Scope Z_scope.

(* case: shift nops (op arg)*  -- see rt/h_sleep.c mode_tree.  A drain (op 3)
   prints every returned chain followed by 0, then one more 0 for the final
   NULL. *)
Definition run_case (l : list Z) : list Z :=
  match l with
  | shift :: nops :: ops => run_ops shift ops (Z.to_nat nops) Leaf 1
  | _ => [(-1)%Z]
  end.
