(* C07: preservation of the invariant of coq/RwlockInv.v, step by step. *)
From Coq Require Import List ZArith Lia Bool Arith.
From LF Require Import Conc T1K Rwlock RwlockLemmas RwlockInv.
Import ListNotations.
Local Open Scope Z_scope.

Definition mk (s : st) (t : nat) (m' : kmem) (k' : stack rwc) : st :=
  {| mem := m'; stk := upd (stk s) t k'; nthr := nthr s |}.
Definition gset_role (g : ghost) (t : nat) (r : role) : ghost :=
  {| gl := gl g; grole := upd (grole g) t r; nown := nown g |}.

Definition listed (r : role) : Prop := exists sd, r = RWait sd InL \/ r = RWait sd Popped.
Definition role_compat (r r' : role) : Prop := r = r' \/ (~ listed r /\ ~ listed r').

Lemma counts_change s g s' g' t :
  nthr s' = nthr s -> (t < nthr s)%nat ->
  (forall u, u <> t -> stk s' u = stk s u /\ grole g' u = grole g u) ->
  counts s' g' =
  {| f_wl := f_wl (counts s g) + (c_own SW (grole g' t) (stk s' t) - c_own SW (grole g t) (stk s t));
     f_rc := f_rc (counts s g) + (c_own SR (grole g' t) (stk s' t) - c_own SR (grole g t) (stk s t));
     f_wr := f_wr (counts s g) + (c_ann SR (grole g' t) (stk s' t) - c_ann SR (grole g t) (stk s t));
     f_ww := f_ww (counts s g) + (c_ann SW (grole g' t) (stk s' t) - c_ann SW (grole g t) (stk s t)) |}.
Proof.
  intros Hn Ht H. unfold counts. rewrite Hn. cbn [f_wl f_rc f_wr f_ww].
  f_equal; (match goal with |- zsum ?f' ?n = zsum ?f ?n + _ => apply (zsum_upd1 f f' n t) end); auto; intros j Hj; cbv beta; destruct (H j Hj) as [-> ->]; reflexivity.
Qed.

Lemma counts_change2 s g s' g' t u :
  nthr s' = nthr s -> (t < nthr s)%nat -> (u < nthr s)%nat -> t <> u ->
  (forall j, j <> t -> j <> u -> stk s' j = stk s j /\ grole g' j = grole g j) ->
  counts s' g' =
  {| f_wl := f_wl (counts s g) + (c_own SW (grole g' t) (stk s' t) - c_own SW (grole g t) (stk s t))
                               + (c_own SW (grole g' u) (stk s' u) - c_own SW (grole g u) (stk s u));
     f_rc := f_rc (counts s g) + (c_own SR (grole g' t) (stk s' t) - c_own SR (grole g t) (stk s t))
                               + (c_own SR (grole g' u) (stk s' u) - c_own SR (grole g u) (stk s u));
     f_wr := f_wr (counts s g) + (c_ann SR (grole g' t) (stk s' t) - c_ann SR (grole g t) (stk s t))
                               + (c_ann SR (grole g' u) (stk s' u) - c_ann SR (grole g u) (stk s u));
     f_ww := f_ww (counts s g) + (c_ann SW (grole g' t) (stk s' t) - c_ann SW (grole g t) (stk s t))
                               + (c_ann SW (grole g' u) (stk s' u) - c_ann SW (grole g u) (stk s u)) |}.
Proof.
  intros Hn Ht Hu Htu H. unfold counts. rewrite Hn. cbn [f_wl f_rc f_wr f_ww].
  f_equal; (match goal with |- zsum ?f' ?n = zsum ?f ?n + _ + _ => apply (zsum_upd2 f f' n t u) end); auto; intros j Hj Hj'; cbv beta; destruct (H j Hj Hj') as [-> ->]; reflexivity.
Qed.

Lemma rwf_eta f : f = {| f_wl := f_wl f; f_rc := f_rc f; f_wr := f_wr f; f_ww := f_ww f |}.
Proof. now destruct f. Qed.

Ltac upd_t := rewrite ?upd_same in *.
Ltac upd_o H := rewrite ?(upd_other _ _ _ _ H) in *.

Lemma classic_popper (k : stack rwc) : is_popper k \/ ~ is_popper k.
Proof. destruct k as [|[] [|[] ?]]; cbn; tauto. Qed.

(* nodes whose fields the stepping fiber may write: its own, or the popped old head *)
Definition mine (s : st) (g : ghost) (t : nat) (x : nat) : Prop :=
  nown g x = OThr t \/ (nown g x = OPop /\ is_popper (stk s t)).

Lemma pop_ok_nonpopper s g u : ~ is_popper (stk s u) -> pop_ok s g u.
Proof. unfold pop_ok. destruct (stk s u) as [|[] ?]; cbn; tauto. Qed.

(* a step that changes the stepping fiber's stack / role, the word, private memory of the
   stepping fiber and fields of nodes it owns; the ghost lists and node owners stay *)
Lemma inv_gen s g t m' k' r' :
  InvG s g -> (t < nthr s)%nat ->
  (forall x, mine s g t x \/ (ndata m' x = ndata (mem s) x /\ nnext m' x = nnext (mem s) x)) ->
  qhead m' = qhead (mem s) -> qtail m' = qtail (mem s) ->
  (forall u, u <> t -> fnode m' u = fnode (mem s) u) ->
  (fnode m' t <> O -> nown g (fnode m' t) = OThr t) ->
  (forall sd, grole g t = RWait sd Popped -> fnode m' t = fnode (mem s) t) ->
  slot_sched m' = slot_sched (mem s) -> slot_mpmc m' = slot_mpmc (mem s) ->
  slot_mutex m' = slot_mutex (mem s) -> slot_wait m' = slot_wait (mem s) ->
  (forall u, u <> t -> fstate m' u = fstate (mem s) u /\ pend m' u = pend (mem s) u /\
                       blocked m' u = blocked (mem s) u) ->
  shape m' t r' k' ->
  role_compat (grole g t) r' ->
  word m' O = rw_pack (counts (mk s t m' k') (gset_role g t r')) ->
  fields_ok (counts (mk s t m' k') (gset_role g t r')) ->
  (f_wl (counts (mk s t m' k') (gset_role g t r')) = 1 -> f_rc (counts (mk s t m' k') (gset_role g t r')) = 0) ->
  (0 < f_ww (counts (mk s t m' k') (gset_role g t r')) + f_wr (counts (mk s t m' k') (gset_role g t r')) ->
   0 < f_wl (counts (mk s t m' k') (gset_role g t r')) + f_rc (counts (mk s t m' k') (gset_role g t r'))) ->
  (0 < f_rc (counts (mk s t m' k') (gset_role g t r')) -> 0 < f_wr (counts (mk s t m' k') (gset_role g t r')) ->
   0 < f_ww (counts (mk s t m' k') (gset_role g t r'))) ->
  ~ is_wlink (stk s t) -> ~ is_wlink k' ->
  held_ok (mk s t m' k') (gset_role g t r') t ->
  (is_asleep (stk s t) -> forall sd, grole g t <> RWait sd Popped) ->
  pop_ok (mk s t m' k') (gset_role g t r') t ->
  (is_popper k' -> forall u, u <> t -> ~ is_popper (stk s u)) ->
  (forall f, inflight s t f -> inflight (mk s t m' k') t f) ->
  InvG (mk s t m' k') (gset_role g t r').
Proof.
  intros I Ht Enod Eh Et Ef Eft Efp Es1 Es2 Es3 Es4 Eo Sh Rc W1 W2 W3 W4 W5 Nw Nw' Hh Na Po Pp Pin.
  set (s' := mk s t m' k') in *. set (g' := gset_role g t r') in *.
  assert (RO : forall u, u <> t -> grole g' u = grole g u) by (intros u Hu; cbn; apply upd_other; auto).
  assert (RL : forall u sd w, (w = InL \/ w = Popped) -> (grole g' u = RWait sd w <-> grole g u = RWait sd w)).
  { intros u sd w Hw. destruct (Nat.eq_dec u t) as [->|Hu]; [|rewrite RO; tauto].
    cbn [g' gset_role grole]. rewrite upd_same. destruct Rc as [->|[N1 N2]]; [tauto|].
    split; intros E; exfalso; [apply N2|apply N1]; exists sd; destruct Hw; subst; auto. }
  assert (SS : forall u, stk_same s s' u).
  { intros u. destruct (Nat.eq_dec u t) as [->|Hu]; [right|left]; cbn [s' mk stk].
    - rewrite upd_same; auto.
    - apply upd_other; auto. }
  destruct I as [Ishape Iout Islots Iword Ifields Iexcl Iheldl Irdead Ichain Inodup Inodupw Iinl Iownl Iownt Iheld Ipop Ione Ihnz Ipopd].
  assert (LN : forall sd x, In x (nodes s g sd) -> ndata m' x = ndata (mem s) x /\ nnext m' x = nnext (mem s) x).
  { intros sd x Hx. destruct (Enod x) as [[E|[E _]]|E]; auto; rewrite (Iownl sd x Hx) in E; discriminate. }
  constructor; auto; cbn [s' mk mem stk nthr g' gset_role gl nown grole].
  - intros u. destruct (Nat.eq_dec u t) as [->|Hu].
    + rewrite !upd_same. exact Sh.
    + rewrite !upd_other by auto. destruct (Eo u Hu) as (E1 & E2 & E3).
      eapply shape_frame; eauto.
  - intros u Hu. rewrite upd_other by lia. auto.
  - intros u. unfold slots_empty. rewrite Es1, Es2, Es3, Es4. apply Islots.
  - intros sd. rewrite Eh. eapply chain_frame; try apply Ichain; cbn [s' mk mem nthr]; auto.
    + intros x Hx. apply (LN sd). exact Hx.
    + intros x Hx. apply (LN sd). right. exact Hx.
    + now rewrite Et.
    + intros w Hw. split; [|apply SS].
      destruct (Nat.eq_dec w t) as [->|Hwt]; [|apply RO; auto].
      cbn [g' gset_role grole]. rewrite upd_same.
      destruct Rc as [->|[N1 _]]; [reflexivity|]. exfalso. apply N1.
      clear - Ichain Hw. specialize (Ichain sd). revert Ichain Hw.
      generalize (qhead (mem s) (qof sd)). induction (gl g sd) as [|[b w] l IH]; cbn [chain map snd In]; [tauto|].
      intros a (_ & _ & C3 & _ & _ & C6) [<-|Hin]; [exists sd; auto|eauto].
  - intros sd. unfold nodes. cbn [s' mk mem g' gset_role gl]. rewrite Eh. apply Inodup.
  - intros sd w Hr. apply Iinl. apply (RL w sd InL); auto.
  - intros sd n. unfold nodes. cbn [s' mk mem g' gset_role gl]. rewrite Eh. apply Iownl.
  - intros u. destruct (Nat.eq_dec u t) as [->|Hu]; [exact Eft|]. rewrite Ef by auto. apply Iownt.
  - intros u. destruct (Nat.eq_dec u t) as [->|Hu]; [exact Hh|].
    specialize (Iheld u). unfold held_ok in *. cbn [s' mk mem stk g' gset_role nown].
    rewrite upd_other by auto.
    assert (X : forall n, nown g n = OThr u -> ndata m' n = ndata (mem s) n /\ nnext m' n = nnext (mem s) n).
    { intros n E. destruct (Enod n) as [[E'|[E' _]]|E']; auto; rewrite E in E'; [inversion E'; congruence|discriminate]. }
    destruct (stk s u) as [|[] ?]; auto.
    + destruct Iheld as (A & B & C). destruct (X _ B) as [-> _]. auto.
    + destruct Iheld as (A & B & C & D). destruct (X _ B) as [-> ->]. auto.
  - intros u. destruct (Nat.eq_dec u t) as [->|Hu]; [exact Po|].
    destruct (classic_popper (stk s u)) as [PU|NPU]; [|apply pop_ok_nonpopper; cbn [s' mk stk]; rewrite upd_other by auto; exact NPU].
    assert (NT : ~ is_popper (stk s t)) by (intros PT; apply Hu; apply Ione; auto).
    assert (X : forall n, nown g n = OPop -> ndata m' n = ndata (mem s) n /\ nnext m' n = nnext (mem s) n).
    { intros n E. destruct (Enod n) as [[E'|[_ E']]|E']; auto; [rewrite E in E'; discriminate|tauto]. }
    assert (HQ : forall q, (exists sd, q = qof sd) -> ndata m' (qhead (mem s) q) = ndata (mem s) (qhead (mem s) q) /\
                                 nnext m' (qhead (mem s) q) = nnext (mem s) (qhead (mem s) q)).
    { intros q [sd ->]. apply (LN sd). left. reflexivity. }
    specialize (Ipop u). unfold pop_ok in *. cbn [s' mk mem stk g' gset_role nown].
    rewrite upd_other by auto. rewrite Eh.
    assert (PP : forall q f, popped s g q f -> popped s' g' q f).
    { intros q f (sd & Q1 & Q2 & Q3). exists sd. split; [auto|]. split; [|exact Q3].
      apply (RL f sd Popped); auto. }
    assert (PQ : forall q f, popped s g q f -> exists sd, q = qof sd) by (intros q f (sd & Q1 & _); eauto).
    pose proof (Ishape u) as ShU.
    destruct (stk s u) as [|[] ?]; auto; try (cbn in PU; tauto).
    + inversion ShU; subst. destruct Ipop as (A & B & C). subst h.
      destruct (HQ (qof sd) ltac:(eauto)) as [_ ->]. auto.
    + destruct Ipop as (A & B & C & f & D & E). subst nx. destruct (HQ q (PQ _ _ D)) as [-> _]. eauto 8.
    + destruct Ipop as (A & B & f & D & E). eauto 8.
    + destruct Ipop as (A & B & f & D & E). destruct (X _ A) as [-> _]. eauto 8.
    + destruct Ipop as (A & B). split; [auto|]. destruct (Nat.eq_dec f t) as [->|Hf]; [|rewrite Ef; auto].
      destruct A as (sd & _ & A & _). rewrite (Efp sd A). exact B.
    + destruct Ipop as (A & B & r & C). split; [auto|].
      destruct (Nat.eq_dec f t) as [->|Hf].
      * exfalso. destruct A as (sd & _ & A & _). apply (Na ltac:(rewrite C; exact Logic.I) sd A).
      * rewrite Ef by auto. split; [auto|]. exists r. rewrite upd_other by auto. exact C.
  - intros u v. destruct (Nat.eq_dec u t) as [->|Hu], (Nat.eq_dec v t) as [->|Hv];
      rewrite ?upd_same, ?upd_other by auto; auto; intros P1 P2;
      first [exfalso; apply (Pp P1 v Hv P2) | exfalso; apply (Pp P2 u Hu P1) | apply Ione; auto].
  - intros sd. rewrite Eh. apply Ihnz.
  - intros f sd Hf. apply (RL f sd Popped) in Hf; [|auto]. destruct (Ipopd f sd Hf) as [u Hu].
    destruct (Nat.eq_dec u t) as [->|Hut]; [exists t; apply Pin; exact Hu|].
    exists u. pose proof (inflight_popper _ _ _ Hu) as PU.
    assert (NT : ~ is_popper (stk s t)) by (intros PT; apply Hut; apply Ione; auto).
    specialize (Ipop u). pose proof (Ishape u) as ShU.
    unfold inflight, pop_ok in *. cbn [s' mk mem stk]. rewrite upd_other by auto.
    destruct (stk s u) as [|[] ?]; auto.
    + inversion ShU; subst. destruct Ipop as (A & _).
      destruct (LN sd0 nx) as [-> _]; auto. unfold nodes. left. exact A.
    + destruct Ipop as (A & _). destruct (Enod h) as [[E|[_ E]]|[-> _]]; auto; [rewrite A in E; discriminate|tauto].
Qed.

(* the new counts after the stepping fiber changed role and stack *)
Lemma counts_step s g t m' k' r' : (t < nthr s)%nat ->
  counts (mk s t m' k') (gset_role g t r') =
  {| f_wl := f_wl (counts s g) + (c_own SW r' k' - c_own SW (grole g t) (stk s t));
     f_rc := f_rc (counts s g) + (c_own SR r' k' - c_own SR (grole g t) (stk s t));
     f_wr := f_wr (counts s g) + (c_ann SR r' k' - c_ann SR (grole g t) (stk s t));
     f_ww := f_ww (counts s g) + (c_ann SW r' k' - c_ann SW (grole g t) (stk s t)) |}.
Proof.
  intros Ht. rewrite (counts_change s g _ _ t); auto.
  - cbn [mk gset_role stk grole]. rewrite !upd_same. reflexivity.
  - intros u Hu. cbn [mk gset_role stk grole]. rewrite !upd_other by auto. auto.
Qed.

Lemma counts_keep s g t m' k' r' : (t < nthr s)%nat ->
  (forall sd, c_ann sd r' k' = c_ann sd (grole g t) (stk s t)) ->
  (forall sd, c_own sd r' k' = c_own sd (grole g t) (stk s t)) ->
  counts (mk s t m' k') (gset_role g t r') = counts s g.
Proof.
  intros Ht Ca Co. rewrite counts_step by auto. rewrite !Ca, !Co, !Z.sub_diag, !Z.add_0_r.
  symmetry; apply rwf_eta.
Qed.

(* inv_gen when the counts do not change *)
Lemma inv_gen_keep s g t m' k' r' :
  InvG s g -> (t < nthr s)%nat ->
  (forall x, mine s g t x \/ (ndata m' x = ndata (mem s) x /\ nnext m' x = nnext (mem s) x)) ->
  qhead m' = qhead (mem s) -> qtail m' = qtail (mem s) -> word m' = word (mem s) ->
  (forall u, u <> t -> fnode m' u = fnode (mem s) u) ->
  (fnode m' t <> O -> nown g (fnode m' t) = OThr t) ->
  (forall sd, grole g t = RWait sd Popped -> fnode m' t = fnode (mem s) t) ->
  slot_sched m' = slot_sched (mem s) -> slot_mpmc m' = slot_mpmc (mem s) ->
  slot_mutex m' = slot_mutex (mem s) -> slot_wait m' = slot_wait (mem s) ->
  (forall u, u <> t -> fstate m' u = fstate (mem s) u /\ pend m' u = pend (mem s) u /\
                       blocked m' u = blocked (mem s) u) ->
  shape m' t r' k' -> role_compat (grole g t) r' ->
  (forall sd, c_ann sd r' k' = c_ann sd (grole g t) (stk s t)) ->
  (forall sd, c_own sd r' k' = c_own sd (grole g t) (stk s t)) ->
  ~ is_wlink (stk s t) -> ~ is_wlink k' ->
  held_ok (mk s t m' k') (gset_role g t r') t ->
  (is_asleep (stk s t) -> forall sd, grole g t <> RWait sd Popped) ->
  pop_ok (mk s t m' k') (gset_role g t r') t ->
  (is_popper k' -> is_popper (stk s t)) ->
  (forall f, inflight s t f -> inflight (mk s t m' k') t f) ->
  InvG (mk s t m' k') (gset_role g t r').
Proof.
  intros I Ht Enod Eh Et Ew Ef Eft Efp Es1 Es2 Es3 Es4 Eo Sh Rc Ca Co Nw Nw' Hh Na Po Pp Pin.
  pose proof (counts_keep s g t m' k' r' Ht Ca Co) as EC.
  apply inv_gen; auto; rewrite ?EC; try apply I.
  - rewrite Ew. apply I.
  - intros P u Hu PU. apply Hu. apply (i_one _ _ I); auto.
Qed.

(* a step that changes only private things of the stepping fiber *)
Lemma inv_local s g t m' k' r' :
  InvG s g -> (t < nthr s)%nat ->
  ndata m' = ndata (mem s) -> nnext m' = nnext (mem s) -> word m' = word (mem s) ->
  qhead m' = qhead (mem s) -> qtail m' = qtail (mem s) -> fnode m' = fnode (mem s) ->
  slot_sched m' = slot_sched (mem s) -> slot_mpmc m' = slot_mpmc (mem s) ->
  slot_mutex m' = slot_mutex (mem s) -> slot_wait m' = slot_wait (mem s) ->
  (forall u, u <> t -> fstate m' u = fstate (mem s) u /\ pend m' u = pend (mem s) u /\
                       blocked m' u = blocked (mem s) u) ->
  shape m' t r' k' ->
  role_compat (grole g t) r' ->
  (forall sd, c_ann sd r' k' = c_ann sd (grole g t) (stk s t)) ->
  (forall sd, c_own sd r' k' = c_own sd (grole g t) (stk s t)) ->
  ~ is_wlink (stk s t) -> ~ is_wlink k' -> ~ is_held k' ->
  (is_asleep (stk s t) -> forall sd, grole g t <> RWait sd Popped) ->
  pop_ok (mk s t m' k') (gset_role g t r') t ->
  (is_popper k' -> is_popper (stk s t)) ->
  (forall f, inflight s t f -> inflight (mk s t m' k') t f) ->
  InvG (mk s t m' k') (gset_role g t r').
Proof.
  intros I Ht Ed En Ew Eh Et Ef Es1 Es2 Es3 Es4 Eo Sh Rc Ca Co Nw Nw' Nh Na Po Pp Pin.
  assert (EC : counts (mk s t m' k') (gset_role g t r') = counts s g).
  { rewrite (counts_change s g _ _ t); auto.
    - cbn [mk gset_role stk grole]. rewrite !upd_same, !Ca, !Co, !Z.sub_diag, !Z.add_0_r.
      symmetry; apply rwf_eta.
    - intros u Hu. cbn [mk gset_role stk grole]. rewrite !upd_other by auto. auto. }
  apply inv_gen; auto; rewrite ?EC; try apply I.
  - intros x. right. rewrite Ed, En. auto.
  - intros u _. now rewrite Ef.
  - rewrite Ef. apply I.
  - intros. now rewrite Ef.
  - rewrite Ew. apply I.
  - unfold held_ok. cbn [mk stk]. rewrite upd_same. destruct k' as [|[] ?]; cbn in Nh; tauto.
  - intros P u Hu PU. apply Hu. apply (i_one _ _ I); auto.
Qed.

Lemma step_eq s t m1 e1 s1 :
  kstep rwc cret (mem s) t (stk s t) = (m1, e1, s1) -> fst (step s t) = mk s t m1 s1.
Proof. intros E. unfold step. rewrite E. reflexivity. Qed.

Lemma ready_lt s t : status_of s t = SReady -> (t < nthr s)%nat.
Proof. unfold status_of. destruct (Nat.ltb_spec t (nthr s)); [auto|discriminate]. Qed.

Lemma start_eta t p k h : start t p k h = (fst (start t p k h), snd (start t p k h)).
Proof. destruct (start t p k h); reflexivity. Qed.

(* stepping tactic: compute the step for a known stack *)
Ltac stp_rw :=
  repeat (match goal with H : ?c = _ |- context [match ?c with _ => _ end] => rewrite H end).
Ltac stp Hk :=
  erewrite step_eq; [| rewrite <- Hk; cbn [kstep ksched ret cret app got kloop];
    try change ((ST_RUNNING =? ST_WAITING) || (ST_RUNNING =? ST_DONE) || (ST_RUNNING =? ST_SAVING)) with false;
    try change ((ST_SAVING =? ST_WAITING) || (ST_SAVING =? ST_DONE) || (ST_SAVING =? ST_SAVING)) with true;
    cbv iota; unfold kloop; stp_rw;
    unfold ksched, kloop; stp_rw; cbn [ret cret app got]; unfold kloop; stp_rw;
    try (match goal with H : release ?a ?b = _ |- _ => rewrite H end);
    try (match goal with |- context [start ?a ?b ?c ?d] =>
           let x := fresh "st0" in set (x := start a b c d); rewrite (surjective_pairing x); subst x end);
    cbn [app]; rewrite ?app_nil_r; reflexivity]; rewrite ?app_nil_r.

Definition client_top (k : stack rwc) : Prop :=
  match k with [] => True | WReadW _ :: _ => True | CRead _ :: _ => True | _ => False end.
Lemma start_client t p : forall k h, client_top (snd (start t p k h)).
Proof.
  induction p as [|o p IH]; intros k h; cbn; auto.
  destruct o, h; cbn; auto;
    try (specialize (IH (S k)); match goal with |- context [start t p (S k) ?h] =>
      specialize (IH h); destruct (start t p (S k) h); exact IH end).
Qed.
Lemma client_not_wlink k : client_top k -> ~ is_wlink k. Proof. destruct k as [|[] ?]; cbn; tauto. Qed.
Lemma client_not_held k : client_top k -> ~ is_held k. Proof. destruct k as [|[] ?]; cbn; tauto. Qed.
Lemma client_not_popper k : client_top k -> ~ is_popper k. Proof. destruct k as [|[] ?]; cbn; tauto. Qed.

Ltac local_prems Hk Hr :=
  try reflexivity;
  try (intros ? ?; repeat split; reflexivity);
  try (intros ? ?; repeat split; cbn; rewrite ?upd_other by auto; reflexivity);
  try (left; symmetry; exact Hr);
  try (intros []; rewrite <- ?Hk, <- ?Hr; cbn; rewrite ?start_tp; reflexivity);
  try (rewrite <- ?Hk; cbn; tauto);
  try (apply client_not_wlink, start_client);
  try (apply client_not_held, start_client);
  try (apply pop_ok_nonpopper; cbn [mk stk]; rewrite upd_same; first [apply client_not_popper, start_client | cbn; tauto]);
  try (intros P; exfalso; revert P; apply client_not_popper, start_client);
  try (unfold pop_ok; cbn [mk stk mem]; rewrite upd_same; exact Logic.I);
  try (unfold held_ok; cbn [mk stk mem]; rewrite upd_same; exact Logic.I);
  try (match goal with HI : InvG _ _ |- _ => apply (i_ownt _ _ HI) end);
  try (intros ? Hin; exfalso; unfold inflight in Hin; rewrite <- Hk in Hin; exact Hin).

Ltac local g t r' Hk Hr :=
  exists (gset_role g t r'); apply inv_local; auto; local_prems Hk Hr.

Lemma run_ok_fstate m t : pend m t = O -> blocked m t = false -> fnode m t <> O -> run_ok (set_fstate m t ST_RUNNING) t.
Proof. intros. unfold run_ok. cbn. rewrite upd_same. auto. Qed.
Lemma run_ok_cell m t c v : run_ok m t -> run_ok (set_cell m c v) t.
Proof. auto. Qed.

Lemma run_slots_empty m t (rest : stack rwc) :
  slots_empty m t -> run_slots rwc m t rest = sleep rwc m t rest.
Proof.
  intros (A & B & C & D). unfold run_slots, sleep. rewrite A, B, C, D. destruct (pend m t); reflexivity.
Qed.

Lemma not_listed_woken sd : ~ listed (RWait sd Woken). Proof. intros [sd' [H|H]]; discriminate. Qed.
Lemma not_listed_resumed sd : ~ listed (RWait sd Resumed). Proof. intros [sd' [H|H]]; discriminate. Qed.
Lemma not_listed_own sd : ~ listed (ROwn sd). Proof. intros [sd' [H|H]]; discriminate. Qed.
Lemma not_listed_idle : ~ listed RIdle. Proof. intros [sd' [H|H]]; discriminate. Qed.
Lemma not_listed_pre sd : ~ listed (RWait sd Pre). Proof. intros [sd' [H|H]]; discriminate. Qed.
#[export] Hint Resolve not_listed_woken not_listed_resumed not_listed_own not_listed_idle not_listed_pre : core.

(* ---------- arithmetic of the counts ---------- *)
Definition ctot (r : role) (k : stack rwc) : Z :=
  c_own SW r k + c_own SR r k + c_ann SR r k + c_ann SW r k.

Lemma shape_own_nonneg m t r k sd : shape m t r k -> 0 <= c_own sd r k.
Proof.
  intros H. destruct H; unfold c_own; cbn [tp]; try (destruct sd; cbn; lia);
    try (destruct sd, sd0; cbn; unfold pq in *; lia).
  - destruct H as [->|[sd' ->]]; [cbn; lia|destruct sd, sd'; cbn; lia].
  - destruct sd, sd0, w; cbn; lia.
  - destruct sd, sd0, w; cbn; lia.
  - destruct sd, sd0, w; cbn; lia.
  - destruct sd, sd0, w; cbn; lia.
  - destruct sd, sd0, w; cbn; lia.
  - destruct sd, sd0, w; cbn; lia.
  - destruct sd, sd0, w; cbn; lia.
Qed.

Lemma shape_ctot m t r k : shape m t r k -> ctot r k <= 1.
Proof.
  intros H. destruct H; unfold ctot, c_own, c_ann; cbn [tp]; try (cbn; lia);
    try (destruct sd; cbn; unfold pq in *; lia).
  - destruct H as [->|[sd' ->]]; [cbn; lia|destruct sd'; cbn; lia].
  - destruct sd, w; cbn; lia.
  - destruct sd, w; cbn; lia.
  - destruct sd, w; cbn; lia.
  - destruct sd, w; cbn; lia.
  - destruct sd, w; cbn; lia.
  - destruct sd, w; cbn; lia.
  - destruct sd, w; cbn; lia.
Qed.

Lemma counts_total s g :
  f_wl (counts s g) + f_rc (counts s g) + f_wr (counts s g) + f_ww (counts s g)
  = zsum (fun t => ctot (grole g t) (stk s t)) (nthr s).
Proof. unfold counts, ctot. cbn [f_wl f_rc f_wr f_ww]. rewrite !zsum_add. reflexivity. Qed.

Lemma counts_total_t s g t : InvG s g -> (t < nthr s)%nat ->
  f_wl (counts s g) + f_rc (counts s g) + f_wr (counts s g) + f_ww (counts s g)
  <= Z.of_nat (nthr s) - 1 + ctot (grole g t) (stk s t).
Proof.
  intros I Ht. rewrite counts_total.
  set (f := fun u => ctot (grole g u) (stk s u)).
  set (f' := fun u => if Nat.eqb u t then 1 else f u).
  assert (E : zsum f' (nthr s) = zsum f (nthr s) + (f' t - f t)).
  { apply zsum_upd1; auto. intros j Hj. unfold f'. destruct (Nat.eqb_spec j t); congruence. }
  assert (L : zsum f' (nthr s) <= 1 * Z.of_nat (nthr s)).
  { apply zsum_le. intros j _. unfold f'. destruct (Nat.eqb j t); [lia|]. unfold f. eapply shape_ctot. apply (i_shape _ _ I). }
  unfold f' in E at 2. rewrite Nat.eqb_refl in E. fold (f t). lia.
Qed.

Lemma own_le_count s g sd t : InvG s g -> (t < nthr s)%nat ->
  c_own sd (grole g t) (stk s t) <= match sd with SW => f_wl (counts s g) | SR => f_rc (counts s g) end.
Proof.
  intros I Ht. destruct sd; unfold counts; cbn [f_wl f_rc].
  - apply (zsum_ge1 (fun u => c_own SR (grole g u) (stk s u))); auto.
    intros j _. eapply shape_own_nonneg. apply (i_shape _ _ I).
  - apply (zsum_ge1 (fun u => c_own SW (grole g u) (stk s u))); auto.
    intros j _. eapply shape_own_nonneg. apply (i_shape _ _ I).
Qed.

Lemma own2_le_count s g sd t u : InvG s g -> (t < nthr s)%nat -> (u < nthr s)%nat -> t <> u ->
  c_own sd (grole g t) (stk s t) + c_own sd (grole g u) (stk s u)
  <= match sd with SW => f_wl (counts s g) | SR => f_rc (counts s g) end.
Proof.
  intros I Ht Hu Htu. destruct sd; unfold counts; cbn [f_wl f_rc].
  - apply (zsum_ge2 (fun u => c_own SR (grole g u) (stk s u))); auto.
    intros j _. eapply shape_own_nonneg. apply (i_shape _ _ I).
  - apply (zsum_ge2 (fun u => c_own SW (grole g u) (stk s u))); auto.
    intros j _. eapply shape_own_nonneg. apply (i_shape _ _ I).
Qed.

(* a popping fiber accounts for at least one unit of ownership that is not the stepping owner's *)
Lemma popper_owns s g u : InvG s g -> (u < nthr s)%nat -> is_popper (stk s u) ->
  exists sd v, (v < nthr s)%nat /\ 1 <= c_own sd (grole g v) (stk s v) /\
               (grole g v = RIdle \/ exists sd', grole g v = RWait sd' Popped).
Proof.
  intros I Hu P. pose proof (i_shape _ _ I u) as Sh. pose proof (i_pop _ _ I u) as Po.
  unfold pop_ok in Po.
  remember (stk s u) as k0 eqn:Hk. remember (grole g u) as r0 eqn:Hr.
  assert (F : forall sd' f, grole g f = RWait sd' Popped -> (f < nthr s)%nat ->
            exists sd v, (v < nthr s)%nat /\ 1 <= c_own sd (grole g v) (stk s v) /\
               (grole g v = RIdle \/ exists sd', grole g v = RWait sd' Popped)).
  { intros sd' f Q2 Q3. exists sd', f. split; auto. split; [|right; eauto].
    pose proof (shape_own_nonneg _ _ _ _ sd' (i_shape _ _ I f)) as N.
    rewrite Q2 in *. unfold c_own in *. rewrite side_eqb_refl in *. cbn [b2z] in *.
    pose proof (i_shape _ _ I f) as Sf. rewrite Q2 in Sf. inversion Sf; subst; cbn [tp]; lia. }
  destruct Sh; cbn in P; try tauto; unfold pq in *.
  1-5: (exists sd, u; split; [auto|]; split; [|left; auto]; rewrite <- Hk, <- Hr; unfold c_own; cbn [tp]; rewrite Nat.eqb_refl; lia).
  - destruct Po as (_ & _ & _ & f & (sd' & Q1 & Q2 & Q3) & _). eauto.
  - destruct Po as (_ & _ & f & (sd' & Q1 & Q2 & Q3) & _). eauto.
  - destruct Po as (_ & _ & f & (sd' & Q1 & Q2 & Q3) & _). eauto.
  - destruct Po as ((sd' & Q1 & Q2 & Q3) & _). eauto.
  - destruct Po as ((sd' & Q1 & Q2 & Q3) & _). eauto.
Qed.

(* a successful CAS on the state word *)
Lemma inv_cas s g t n k' r' :
  InvG s g -> (t < nthr s)%nat -> ~ is_wlink (stk s t) -> ~ is_asleep (stk s t) ->
  shape (mem s) t r' k' -> role_compat (grole g t) r' ->
  n = rw_pack (counts (mk s t (set_word (mem s) 0 n) k') (gset_role g t r')) ->
  fields_ok (counts (mk s t (set_word (mem s) 0 n) k') (gset_role g t r')) ->
  (f_wl (counts (mk s t (set_word (mem s) 0 n) k') (gset_role g t r')) = 1 ->
   f_rc (counts (mk s t (set_word (mem s) 0 n) k') (gset_role g t r')) = 0) ->
  (0 < f_ww (counts (mk s t (set_word (mem s) 0 n) k') (gset_role g t r')) +
       f_wr (counts (mk s t (set_word (mem s) 0 n) k') (gset_role g t r')) ->
   0 < f_wl (counts (mk s t (set_word (mem s) 0 n) k') (gset_role g t r')) +
       f_rc (counts (mk s t (set_word (mem s) 0 n) k') (gset_role g t r'))) ->
  (0 < f_rc (counts (mk s t (set_word (mem s) 0 n) k') (gset_role g t r')) ->
   0 < f_wr (counts (mk s t (set_word (mem s) 0 n) k') (gset_role g t r')) ->
   0 < f_ww (counts (mk s t (set_word (mem s) 0 n) k') (gset_role g t r'))) ->
  ~ is_wlink k' -> ~ is_held k' ->
  pop_ok (mk s t (set_word (mem s) 0 n) k') (gset_role g t r') t ->
  (is_popper k' -> forall u, u <> t -> ~ is_popper (stk s u)) ->
  ~ is_popper (stk s t) ->
  InvG (mk s t (set_word (mem s) 0 n) k') (gset_role g t r').
Proof.
  intros I Ht Nw Na Sh Rc W1 W2 W3 W4 W5 Nw' Nh Po Pp NPt.
  apply inv_gen; auto.
  - apply (i_ownt _ _ I).
  - eapply shape_frame; eauto.
  - unfold held_ok. cbn [mk stk]. rewrite upd_same. destruct k' as [|[] ?]; cbn in Nh; tauto.
  - intros f Hin. exfalso. apply NPt. eapply inflight_popper; eauto.
Qed.

Lemma cas_word s g e : InvG s g -> (word (mem s) 0 =? e) = true -> e = rw_pack (counts s g) /\ rw_unpack e = counts s g.
Proof.
  intros I B. apply Z.eqb_eq in B. rewrite (i_word _ _ I) in B. subst e. split; auto.
  apply rw_unpack_pack. apply (i_fields _ _ I).
Qed.

Lemma field_room s g t : InvG s g -> (t < nthr s)%nat -> Z.of_nat (nthr s) < 2 ^ 21 ->
  ctot (grole g t) (stk s t) <= 0 ->
  f_wl (counts s g) + f_rc (counts s g) + f_wr (counts s g) + f_ww (counts s g) + 1 < FW.
Proof.
  intros I Ht G C0. pose proof (counts_total_t s g t I Ht). rewrite FW_val. change (2 ^ 21) with 2097152 in G. lia.
Qed.

Ltac count_simpl Hk Hr :=
  rewrite <- ?Hk, <- ?Hr; unfold c_own, c_ann; cbn [tp got side_eqb b2z qof Nat.eqb];
  unfold set_wl, set_rc, set_wr, set_ww; cbn [f_wl f_rc f_wr f_ww].

Lemma announce_inv s g t sd p k e :
  Z.of_nat (nthr s) < 2 ^ 21 -> InvG s g -> (t < nthr s)%nat ->
  [WCasW 0 e (announce sd e) 5; FC (LCasW sd p k)] = stk s t -> RIdle = grole g t ->
  run_ok (mem s) t -> busy sd e = true -> (word (mem s) 0 =? e) = true ->
  InvG (mk s t (set_word (mem s) 0 (announce sd e)) [WSaving (qof sd); FC (LWoken sd p k)])
       (gset_role g t (RWait sd Pre)).
Proof.
  intros G I Ht Hk Hr RO Bz B.
  destruct (cas_word _ _ _ I B) as [Ee Eu].
  pose proof (i_fields _ _ I) as (F1 & F2 & F3 & F4).
  assert (C0 : ctot (grole g t) (stk s t) <= 0) by (rewrite <- Hk, <- Hr; cbn; lia).
  pose proof (field_room s g t I Ht G C0) as Room.
  pose proof (i_excl _ _ I) as Ex. pose proof (i_held_lock _ _ I) as Hl. pose proof (i_rdead _ _ I) as Rd.
  set (C := counts s g) in *.
  assert (NC : counts (mk s t (set_word (mem s) 0 (announce sd e)) [WSaving (qof sd); FC (LWoken sd p k)])
                      (gset_role g t (RWait sd Pre)) =
               match sd with SR => set_wr C (f_wr C + 1) | SW => set_ww C (f_ww C + 1) end).
  { rewrite counts_step by auto. fold C. destruct sd; count_simpl Hk Hr; f_equal; lia. }
  assert (AN : announce sd e = rw_pack (match sd with SR => set_wr C (f_wr C + 1) | SW => set_ww C (f_ww C + 1) end)).
  { unfold announce. rewrite Eu. destruct sd; rewrite finc_small by lia; reflexivity. }
  assert (BZ : 0 < f_wl C + f_rc C).
  { unfold busy in Bz. destruct sd.
    - rewrite Eu in Bz. destruct (f_wl C =? 0) eqn:E1; [|apply Z.eqb_neq in E1; lia].
      apply Hl. destruct (f_ww C =? 0) eqn:E2; [|apply Z.eqb_neq in E2; lia].
      destruct (f_wr C =? 0) eqn:E3; [discriminate|apply Z.eqb_neq in E3; lia].
    - destruct (Z.eq_dec (f_wl C + f_rc C) 0) as [Z0|]; [|lia].
      destruct (Z.eq_dec (f_ww C + f_wr C) 0) as [Z1|]; [|apply Hl; lia].
      exfalso. assert (E0 : e = 0) by (rewrite Ee; unfold rw_pack; fold C; lia). rewrite E0 in Bz. cbn in Bz. discriminate. }
  apply inv_cas; auto; rewrite ?NC.
  - rewrite <- Hk. cbn. tauto.
  - rewrite <- Hk. cbn. tauto.
  - constructor; auto.
  - right. rewrite <- Hr. auto.
  - exact AN.
  - destruct sd; unfold fields_ok, set_wr, set_ww; cbn [f_wl f_rc f_wr f_ww]; repeat split; lia.
  - destruct sd; unfold set_wr, set_ww; cbn [f_wl f_rc f_wr f_ww]; auto.
  - destruct sd; unfold set_wr, set_ww; cbn [f_wl f_rc f_wr f_ww]; intros; lia.
  - destruct sd; unfold set_wr, set_ww; cbn [f_wl f_rc f_wr f_ww]; intros A1 A2; [|lia].
    unfold busy in Bz. rewrite Eu in Bz. fold C in Bz.
    destruct (f_ww C =? 0) eqn:E2; [|apply Z.eqb_neq in E2; lia].
    destruct (f_wl C =? 0) eqn:E1; [|apply Z.eqb_neq in E1; assert (f_wl C = 1) by lia; lia].
    destruct (f_wr C =? 0) eqn:E3; [discriminate|apply Z.eqb_neq in E3; apply Rd; lia].
  - apply pop_ok_nonpopper. cbn [mk stk]. rewrite upd_same. destruct sd; cbn; tauto.
  - rewrite <- Hk. cbn. tauto.
Qed.

Lemma acquire_inv s g t sd p k e c :
  Z.of_nat (nthr s) < 2 ^ 21 -> InvG s g -> (t < nthr s)%nat ->
  [WCasW 0 e (acquire sd e) 5; FC c] = stk s t -> RIdle = grole g t ->
  run_ok (mem s) t -> busy sd e = false -> (word (mem s) 0 =? e) = true ->
  InvG (mk s t (set_word (mem s) 0 (acquire sd e)) (got t sd p k 1)) (gset_role g t (ROwn sd)).
Proof.
  intros G I Ht Hk Hr RO Bz B.
  destruct (cas_word _ _ _ I B) as [Ee Eu].
  pose proof (i_fields _ _ I) as (F1 & F2 & F3 & F4).
  assert (C0 : ctot (grole g t) (stk s t) <= 0) by (rewrite <- Hk, <- Hr; cbn; lia).
  pose proof (field_room s g t I Ht G C0) as Room.
  pose proof (i_excl _ _ I) as Ex. pose proof (i_held_lock _ _ I) as Hl. pose proof (i_rdead _ _ I) as Rd.
  set (C := counts s g) in *.
  assert (ZZ : f_wl C = 0 /\ f_wr C = 0 /\ f_ww C = 0 /\ (sd = SW -> f_rc C = 0)).
  { unfold busy in Bz. destruct sd.
    - rewrite Eu in Bz. destruct (f_ww C =? 0) eqn:E2; [|discriminate]. destruct (f_wl C =? 0) eqn:E1; [|discriminate].
      destruct (f_wr C =? 0) eqn:E3; [|discriminate]. apply Z.eqb_eq in E1, E2, E3. repeat split; auto; discriminate.
    - destruct (e =? 0) eqn:E0; [|discriminate]. apply Z.eqb_eq in E0. rewrite E0 in Eu.
      rewrite <- Eu. vm_compute. auto. }
  destruct ZZ as (Z1 & Z2 & Z3 & Z4).
  assert (NC : counts (mk s t (set_word (mem s) 0 (acquire sd e)) (got t sd p k 1)) (gset_role g t (ROwn sd)) =
               match sd with SR => set_rc C (f_rc C + 1) | SW => set_wl C 1 end).
  { rewrite counts_step by auto. fold C. destruct sd; count_simpl Hk Hr; f_equal; lia. }
  assert (AN : acquire sd e = rw_pack (match sd with SR => set_rc C (f_rc C + 1) | SW => set_wl C 1 end)).
  { unfold acquire. rewrite Eu. destruct sd; rewrite ?finc_small by lia; reflexivity. }
  apply inv_cas; auto; rewrite ?NC.
  - rewrite <- Hk. cbn. tauto.
  - rewrite <- Hk. cbn. tauto.
  - destruct sd; constructor; auto.
  - right. rewrite <- Hr. auto.
  - exact AN.
  - destruct sd; unfold fields_ok, set_rc, set_wl; cbn [f_wl f_rc f_wr f_ww]; repeat split; lia.
  - destruct sd; unfold set_rc, set_wl; cbn [f_wl f_rc f_wr f_ww]; intros; auto; lia.
  - destruct sd; unfold set_rc, set_wl; cbn [f_wl f_rc f_wr f_ww]; intros; lia.
  - destruct sd; unfold set_rc, set_wl; cbn [f_wl f_rc f_wr f_ww]; intros; lia.
  - destruct sd; cbn; tauto.
  - destruct sd; cbn; tauto.
  - apply pop_ok_nonpopper. cbn [mk stk]. rewrite upd_same. destruct sd; cbn; tauto.
  - destruct sd; cbn; tauto.
  - rewrite <- Hk. cbn. tauto.
Qed.

Definition after_release (t : nat) (p : list rop) (k : nat) (r : Z) (h : handoff) : stack rwc :=
  match h with
  | HoWriter => [KHead 0 1 0; FC (UWoke p k r)]
  | HoReaders cnt => [KHead 1 cnt 0; FC (UWoke p k r)]
  | HoNone => snd (start t p (S k) HNone)
  end.

Lemma out_not_popper s g u : InvG s g -> is_popper (stk s u) -> (u < nthr s)%nat.
Proof.
  intros I P. destruct (Nat.lt_ge_cases u (nthr s)); auto.
  destruct (i_out _ _ I u H) as [p E]. rewrite E in P. cbn in P. tauto.
Qed.

Lemma release_SR C : fields_ok C -> 0 < f_rc C -> (0 < f_wr C -> 0 < f_ww C) ->
  release SR (rw_pack C) =
  if f_rc C =? 1 then
    (if f_ww C =? 0 then (rw_pack (set_rc C 0), HoNone)
     else (rw_pack (set_ww (set_wl (set_rc C 0) 1) (f_ww C - 1)), HoWriter))
  else (rw_pack (set_rc C (f_rc C - 1)), HoNone).
Proof.
  intros F R1 Rd. pose proof F as (F1 & F2 & F3 & F4). unfold release. rewrite rw_unpack_pack by auto.
  rewrite fdec_small by lia. unfold set_rc, set_wl, set_ww, set_wr. cbn [f_wl f_rc f_wr f_ww].
  destruct (f_rc C =? 1) eqn:E1.
  - apply Z.eqb_eq in E1. rewrite E1. cbn [Z.sub Z.eqb andb Z.pos_sub].
    destruct (f_ww C =? 0) eqn:E2; cbn [negb].
    + apply Z.eqb_eq in E2. assert (E3 : f_wr C = 0) by lia. rewrite E3. reflexivity.
    + apply Z.eqb_neq in E2. rewrite fdec_small by lia. reflexivity.
  - apply Z.eqb_neq in E1. destruct (f_rc C - 1 =? 0) eqn:E0; [apply Z.eqb_eq in E0; lia|]. reflexivity.
Qed.

Lemma release_SW C : fields_ok C -> f_wl C = 1 ->
  release SW (rw_pack C) =
  if f_ww C =? 0 then
    (if f_wr C =? 0 then (rw_pack (set_wl C 0), HoNone)
     else (rw_pack (set_wr (set_rc (set_wl C 0) (f_wr C)) 0), HoReaders (f_wr C)))
  else (rw_pack (set_ww (set_wl C 1) (f_ww C - 1)), HoWriter).
Proof.
  intros F W1. pose proof F as (F1 & F2 & F3 & F4). unfold release. rewrite rw_unpack_pack by auto.
  unfold set_rc, set_wl, set_ww, set_wr. cbn [f_wl f_rc f_wr f_ww andb].
  destruct (f_ww C =? 0) eqn:E2; cbn [negb].
  - destruct (f_wr C =? 0) eqn:E3; cbn [negb]; reflexivity.
  - apply Z.eqb_neq in E2. rewrite fdec_small by lia. reflexivity.
Qed.

Ltac fsimp := unfold fields_ok, set_wl, set_rc, set_wr, set_ww; cbn [f_wl f_rc f_wr f_ww].

Lemma release_inv s g t sd p k r e n h :
  Z.of_nat (nthr s) < 2 ^ 21 -> InvG s g -> (t < nthr s)%nat ->
  [WCasW 0 e n 5; FC (UCas sd p k r h)] = stk s t -> ROwn sd = grole g t ->
  run_ok (mem s) t -> release sd e = (n, h) -> (word (mem s) 0 =? e) = true ->
  InvG (mk s t (set_word (mem s) 0 n) (after_release t p k r h)) (gset_role g t RIdle).
Proof.
  intros G I Ht Hk Hr RO Rel B.
  destruct (cas_word _ _ _ I B) as [Ee Eu].
  pose proof (i_fields _ _ I) as F. pose proof F as (F1 & F2 & F3 & F4).
  pose proof (i_excl _ _ I) as Ex. pose proof (i_held_lock _ _ I) as Hl. pose proof (i_rdead _ _ I) as Rd.
  pose proof (own_le_count s g sd t I Ht) as Own. rewrite <- Hk, <- Hr in Own.
  unfold c_own in Own. rewrite side_eqb_refl in Own. cbn [b2z tp] in Own.
  assert (NoPop : (match sd with SW => True | SR => f_rc (counts s g) = 1 end) ->
                  forall u, u <> t -> ~ is_popper (stk s u)).
  { intros Last u Hu P. pose proof (out_not_popper _ _ _ I P) as Hun.
    destruct (popper_owns s g u I Hun P) as (sd' & v & Hv & Ov & Rv).
    assert (v <> t) by (intros ->; rewrite <- Hr in Rv; destruct Rv as [?|[? ?]]; discriminate).
    pose proof (own2_le_count s g sd' t v I Ht Hv ltac:(auto)) as O2.
    pose proof (own_le_count s g sd' v I Hv) as O1.
    rewrite <- Hk, <- Hr in O2. unfold c_own at 1 in O2. cbn [tp] in O2.
    destruct sd, sd'; cbn [side_eqb b2z] in O2; lia. }
  remember (counts s g) as C eqn:HC. rewrite Ee in Rel.
  destruct sd.
  - (* rdunlock *)
    assert (Wl0 : f_wl C = 0) by lia.
    rewrite release_SR in Rel by (auto; lia).
    destruct (f_rc C =? 1) eqn:E1; [destruct (f_ww C =? 0) eqn:E2|];
      inversion Rel; subst n h; cbn [after_release]; clear Rel;
      rewrite ?Z.eqb_eq, ?Z.eqb_neq in *.
    + assert (E3 : f_wr C = 0) by (destruct (Z.eq_dec (f_wr C) 0); auto; assert (0 < f_ww C) by (apply Rd; lia); lia).
      assert (NC : counts (mk s t (set_word (mem s) 0 (rw_pack (set_rc C 0))) (snd (start t p (S k) HNone)))
                          (gset_role g t RIdle) = set_rc C 0).
      { rewrite counts_step by auto. rewrite <- HC. count_simpl Hk Hr. rewrite !start_tp. f_equal; lia. }
      apply inv_cas; auto; rewrite ?NC; local_prems Hk Hr;
        try (right; rewrite <- Hr; auto; fail); try (fsimp; repeat split; intros; lia);
        try (intros _; apply NoPop; first [lia | exact Logic.I]).
      * apply (start_shape _ t p (S k) HNone); auto.
    + assert (NC : counts (mk s t (set_word (mem s) 0 (rw_pack (set_ww (set_wl (set_rc C 0) 1) (f_ww C - 1))))
                              [KHead 0 1 0; FC (UWoke p k r)])
                          (gset_role g t RIdle) = set_ww (set_wl (set_rc C 0) 1) (f_ww C - 1)).
      { rewrite counts_step by auto. rewrite <- HC. count_simpl Hk Hr. f_equal; lia. }
      apply inv_cas; auto; rewrite ?NC; local_prems Hk Hr;
        try (right; rewrite <- Hr; auto; fail); try (fsimp; repeat split; intros; lia);
        try (intros _; apply NoPop; first [lia | exact Logic.I]).
      * apply (sh_khead _ _ SW); auto. unfold pq; lia.
    + assert (NC : counts (mk s t (set_word (mem s) 0 (rw_pack (set_rc C (f_rc C - 1)))) (snd (start t p (S k) HNone)))
                          (gset_role g t RIdle) = set_rc C (f_rc C - 1)).
      { rewrite counts_step by auto. rewrite <- HC. count_simpl Hk Hr. rewrite !start_tp. f_equal; lia. }
      apply inv_cas; auto; rewrite ?NC; local_prems Hk Hr;
        try (right; rewrite <- Hr; auto; fail); try (fsimp; repeat split; intros; lia);
        try (intros _; apply NoPop; first [lia | exact Logic.I]).
      * apply (start_shape _ t p (S k) HNone); auto.
  - (* wrunlock *)
    assert (Wl1 : f_wl C = 1) by lia. assert (Rc0 : f_rc C = 0) by auto.
    rewrite release_SW in Rel by auto.
    destruct (f_ww C =? 0) eqn:E2; [destruct (f_wr C =? 0) eqn:E3|];
      inversion Rel; subst n h; cbn [after_release]; clear Rel;
      rewrite ?Z.eqb_eq, ?Z.eqb_neq in *.
    + assert (NC : counts (mk s t (set_word (mem s) 0 (rw_pack (set_wl C 0))) (snd (start t p (S k) HNone)))
                          (gset_role g t RIdle) = set_wl C 0).
      { rewrite counts_step by auto. rewrite <- HC. count_simpl Hk Hr. rewrite !start_tp. f_equal; lia. }
      apply inv_cas; auto; rewrite ?NC; local_prems Hk Hr;
        try (right; rewrite <- Hr; auto; fail); try (fsimp; repeat split; intros; lia);
        try (intros _; apply NoPop; first [lia | exact Logic.I]).
      * apply (start_shape _ t p (S k) HNone); auto.
    + assert (NC : counts (mk s t (set_word (mem s) 0 (rw_pack (set_wr (set_rc (set_wl C 0) (f_wr C)) 0)))
                              [KHead 1 (f_wr C) 0; FC (UWoke p k r)])
                          (gset_role g t RIdle) = set_wr (set_rc (set_wl C 0) (f_wr C)) 0).
      { rewrite counts_step by auto. rewrite <- HC. count_simpl Hk Hr. f_equal; lia. }
      apply inv_cas; auto; rewrite ?NC; local_prems Hk Hr;
        try (right; rewrite <- Hr; auto; fail); try (fsimp; repeat split; intros; lia);
        try (intros _; apply NoPop; first [lia | exact Logic.I]).
      * apply (sh_khead _ _ SR); auto. unfold pq; lia.
    + assert (NC : counts (mk s t (set_word (mem s) 0 (rw_pack (set_ww (set_wl C 1) (f_ww C - 1))))
                              [KHead 0 1 0; FC (UWoke p k r)])
                          (gset_role g t RIdle) = set_ww (set_wl C 1) (f_ww C - 1)).
      { rewrite counts_step by auto. rewrite <- HC. count_simpl Hk Hr. f_equal; lia. }
      apply inv_cas; auto; rewrite ?NC; local_prems Hk Hr;
        try (right; rewrite <- Hr; auto; fail); try (fsimp; repeat split; intros; lia);
        try (intros _; apply NoPop; first [lia | exact Logic.I]).
      * apply (sh_khead _ _ SW); auto. unfold pq; lia.
Qed.

