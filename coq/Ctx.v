(* C19 - executable entry point of the generated context-switch model for the
   differential run (tools/vf/props/C19.py, rt/h_ctx.c).  The program that is
   executed is gen/CtxGen.v (regenerated from src/fiber_context.c); this file
   only drives it: it builds N contexts (context 0 = the thread, the others
   initialised by [init_context] from the generated [init_pushes]), then
   performs a chain of switches with planted callee-saved registers and
   reports what each resumed / started context observes.

   run_case input (all 64-bit quantities as two 32-bit halves "hi lo"):
     0                                   -> fingerprint of the generated model
     1 N (base_hi base_lo size)*N (param_hi param_lo)*N
       K (to depth rbx rbp r12 r13 r14 r15)*K      (each planted register hi lo)
   output: one 18-number record per switch, for the context switched TO:
     kind ctx rbx rbp r12 r13 r14 r15 (hi lo each) d e_hi e_lo f
     kind 0 resumed at the template's resume label:
            d = rsp now - rsp when it was switched out, e = 0, f = 0
     kind 1 entered its run function for the first time:
            d = (base+size) - rsp at entry, e = rdi, f = 0 iff [rsp] = 0
   and, if the switch left the template anywhere else or faulted, "-9 why"
   (why 0 = wild jump, 1 = fault / fell off the end), after which the run stops;
   "-8 i" if the init sequence of context i faults. *)
From Coq Require Import List ZArith Lia Bool.
From LF Require Import Conc CtxIsa.
From LF Require Import gen.CtxGen.
Import ListNotations.
Open Scope Z_scope.

Definition la (l : nat) : Z := 1000 + Z.of_nat l.
Definition fn_addr (c : nat) : Z := 2000 + Z.of_nat c.
Definition slot_addr (c : nat) : Z := 2 ^ 36 + 64 * Z.of_nat c.

Definition from_reg : reg :=
  match input_reg SrcFromSlot swap_inputs with Some r => r | None => RAX end.
Definition to_reg : reg :=
  match input_reg SrcToSp swap_inputs with Some r => r | None => RAX end.

Definition w64 (h l : Z) : Z := h * 2 ^ 32 + l.
Definition hi32 (v : Z) : Z := v / 2 ^ 32.
Definition lo32 (v : Z) : Z := v mod 2 ^ 32.

Record sim := {
  s_m : mach; s_cur : nat;
  s_rsp : nat -> Z;        (* rsp of the context's outermost frame while it runs *)
  s_out_rsp : nat -> Z;    (* rsp at its last switch-out *)
  s_out_depth : nat -> Z;
  s_base : nat -> Z; s_size : nat -> Z }.

Definition plant (m : mach) (rsp slotv tov : Z) (p : list Z) : mach :=
  let r0 := fun _ : reg => 0 in
  let r1 := upd_reg r0 RBX (nthZ p 0%nat) in
  let r2 := upd_reg r1 RBP (nthZ p 1%nat) in
  let r3 := upd_reg r2 R12 (nthZ p 2%nat) in
  let r4 := upd_reg r3 R13 (nthZ p 3%nat) in
  let r5 := upd_reg r4 R14 (nthZ p 4%nat) in
  let r6 := upd_reg r5 R15 (nthZ p 5%nat) in
  let r7 := upd_reg r6 RSP rsp in
  let r8 := upd_reg r7 from_reg slotv in
  let r9 := upd_reg r8 to_reg tov in
  {| rg := r9; mm := mm m; rip := rip m |}.

Definition rec_regs (m : mach) : list Z :=
  flat_map (fun r => [hi32 (rg m r); lo32 (rg m r)]) [RBX; RBP; R12; R13; R14; R15].

(* one switch cur -> to; returns the new state (None = stop) and the output *)
Definition sim_step (s : sim) (to : nat) (depth : Z) (p : list Z) : option sim * list Z :=
  let cur := s_cur s in
  if Nat.eqb to cur then (Some s, []) else
  let rsp := s_rsp s cur - 8 * depth in
  let m := plant (s_m s) rsp (slot_addr cur) (mm (s_m s) (slot_addr to)) p in
  match exec la swap_code m with
  | Exited m' =>
    let s' kind_rsp :=
      {| s_m := m'; s_cur := to;
         s_rsp := upd (s_rsp s) to kind_rsp;
         s_out_rsp := upd (s_out_rsp s) cur rsp;
         s_out_depth := upd (s_out_depth s) cur depth;
         s_base := s_base s; s_size := s_size s |} in
    if (1000 <=? rip m') && (rip m' <? 2000) then
      (Some (s' (rg m' RSP + 8 * s_out_depth s to)),
       [0; Z.of_nat to] ++ rec_regs m' ++ [rg m' RSP - s_out_rsp s to; 0; 0; 0])
    else if rip m' =? fn_addr to then
      (Some (s' (rg m' RSP)),
       [1; Z.of_nat to] ++ rec_regs m' ++
       [s_base s to + s_size s to - rg m' RSP; hi32 (rg m' RDI); lo32 (rg m' RDI);
        if mm m' (rg m' RSP) =? 0 then 0 else 1])
    else (None, [-9; 0])
  | _ => (None, [-9; 1])
  end.

Fixpoint sim_steps (fuel : nat) (s : sim) (l : list Z) : list Z :=
  match fuel with
  | O => []
  | S f =>
    match l with
    | to :: depth :: r =>
      let p := map (fun i => w64 (nthZ r (2 * i)%nat) (nthZ r (2 * i + 1)%nat)) (seq 0%nat 6%nat) in
      match sim_step s (Z.to_nat to) depth p with
      | (Some s', out) => out ++ sim_steps f s' (skipn 12%nat r)
      | (None, out) => out
      end
    | _ => []
    end
  end.

(* build contexts 1..n-1 with the generated init sequence *)
Fixpoint sim_init (cs : list nat) (base size param : nat -> Z) (mem : Z -> Z)
  : (Z -> Z) + Z :=
  match cs with
  | [] => inl mem
  | c :: r =>
    match init_context init_top_back_words init_align_mask init_pushes
                       (base c) (size c) (param c) (fn_addr c) mem with
    | Some (sp, mem') => sim_init r base size param (upd_mem mem' (slot_addr c) sp)
    | None => inr (Z.of_nat c)
    end
  end.

Definition run_sim (l : list Z) : list Z :=
  match l with
  | n :: r =>
    let N := Z.to_nat n in
    let geo := firstn (3 * N)%nat r in
    let r1 := skipn (3 * N)%nat r in
    let par := firstn (2 * N)%nat r1 in
    let r2 := skipn (2 * N)%nat r1 in
    let base := fun c => w64 (nthZ geo (3 * c)%nat) (nthZ geo (3 * c + 1)%nat) in
    let size := fun c => nthZ geo (3 * c + 2)%nat in
    let param := fun c => w64 (nthZ par (2 * c)%nat) (nthZ par (2 * c + 1)%nat) in
    match sim_init (seq 1 (N - 1)%nat) base size param (fun _ => 0) with
    | inr c => [-8; c]
    | inl mem =>
      match r2 with
      | k :: steps =>
        let s0 := {| s_m := {| rg := fun _ => 0; mm := mem; rip := 0 |}; s_cur := O;
                     s_rsp := fun c => base c + size c - 64;
                     s_out_rsp := fun _ => 0; s_out_depth := fun _ => 0;
                     s_base := base; s_size := size |} in
        sim_steps (Z.to_nat k) s0 steps
      | [] => [-1]
      end
    end
  | [] => [-1]
  end.

Definition run_case (l : list Z) : list Z :=
  match l with
  | 0 :: _ => encode_model swap_code swap_inputs init_top_back_words init_align_mask init_pushes
  | 1 :: r => run_sim r
  | _ => [-1]
  end.
