(* C05 proofs, part 2: the machine of coq/Cond.v instrumented with phases
   (CondPhase.v) and ghost state, and its inductive invariants, for any number
   of fibers, any programs, any schedule. *)
From Coq Require Import List ZArith Lia Bool Arith.
From LF Require Import Conc T1K Cond CondPhase.
Import ListNotations.
Local Open Scope Z_scope.

(* ------------------------------------------------------------------ *)
(* Ghost state *)
Inductive tokT := TFree | THeld (t : nat) | TPass (t : nat).
Inductive owner := ONone | OThread (t : nat) | OList (q : nat) | OPop (t : nat).

(* kernel-level ghosts *)
Record gk := {
  tok : nat -> tokT;               (* mutex q: free / held by / being handed over by *)
  gw : nat -> Z;                   (* mutex q: fibers that announced themselves and were not yet granted *)
  gq : nat -> list (nat * nat);    (* list q: (fiber, node) entries in tail-exchange order, not yet popped *)
  hand : nat -> option nat;        (* list q: the fiber whose entry the consumer has popped and not yet scheduled *)
  nown : nat -> owner;             (* node ownership *)
  got : nat -> bool                (* fiber t's current wait has been granted (it was scheduled) *)
}.

(* cond-level ghosts *)
Record gc := {
  g_reg : Z;                       (* fetch_add's of waiters *)
  g_claimed : Z;                   (* entries claimed by signals (1 each) and broadcasts (original each) *)
  g_rel : Z;                       (* fibers scheduled from the cond list *)
  g_trans : Z;                     (* signals between a fetch_sub that found nobody and the fetch_add back *)
  gwl : list nat;                  (* registered and not yet released waiters *)
  myclaim : nat -> Z;              (* what the current signal/broadcast of fiber t claimed *)
  myrel : nat -> Z                 (* how many fibers it has released so far *)
}.

Record ist := { base : st; ph : nat -> phase; kg : gk; cg : gc }.

(* where is thread t popping / waiting / unlocking *)
Definition wait_ctx (p : phase) : option (nat * waitpos) :=
  match p with
  | PRun _ (KLock q (LPWait wp)) => Some (q, wp)
  | PRun _ (KWait q wp) => Some (q, wp)
  | _ => None
  end.

Definition wake_ctx (p : phase) : option (nat * wakepos) :=
  match p with
  | PRun _ (KWake q _ _ kp) => Some (q, kp)
  | PRun _ (KUnlock q (UPWake _ kp)) => Some (q, kp)
  | _ => match wait_ctx p with
         | Some (_, WPYield (YPMaint q (IPWake _ kp))) => Some (q, kp)
         | _ => None
         end
  end.

Definition uadd_ctx (p : phase) : option nat :=
  match p with
  | PRun _ (KUnlock q UPAdd) => Some q
  | _ => match wait_ctx p with
         | Some (_, WPYield (YPMaint q IPAdd)) => Some q
         | _ => None
         end
  end.

Definition sched_of (m : kmem) (kp : wakepos) : option nat :=
  match kp with
  | KPState f => if fstate m f =? ST_WAITING then None else Some f
  | KPReady f => Some f
  | _ => None
  end.

(* the fiber that thread t schedules from list q in this step *)
Definition sched_now (m : kmem) (p : phase) : option (nat * nat) :=
  match wake_ctx p with
  | Some (q, kp) => match sched_of m kp with Some f => Some (q, f) | None => None end
  | None => None
  end.

Definition remove_nat (x : nat) (l : list nat) : list nat := filter (fun y => negb (Nat.eqb y x)) l.

Definition set_tok g q v := {| tok := upd (tok g) q v; gw := gw g; gq := gq g; hand := hand g; nown := nown g; got := got g |}.
Definition set_gw g q v := {| tok := tok g; gw := upd (gw g) q v; gq := gq g; hand := hand g; nown := nown g; got := got g |}.
Definition set_gq g q v := {| tok := tok g; gw := gw g; gq := upd (gq g) q v; hand := hand g; nown := nown g; got := got g |}.
Definition set_hand g q v := {| tok := tok g; gw := gw g; gq := gq g; hand := upd (hand g) q v; nown := nown g; got := got g |}.
Definition set_nown g n v := {| tok := tok g; gw := gw g; gq := gq g; hand := hand g; nown := upd (nown g) n v; got := got g |}.
Definition set_got g t v := {| tok := tok g; gw := gw g; gq := gq g; hand := hand g; nown := nown g; got := upd (got g) t v |}.

Definition is_mutex (q : nat) : bool := (q =? UMUTEX)%nat || (q =? IMUTEX)%nat.

Definition gk_step (m : kmem) (t : nat) (p : phase) (g : gk) : gk :=
  match p with
  | PRun _ (KLock q LPSub) =>
      if word m q - 1 =? 0 then set_tok g q (THeld t) else set_gw g q (gw g q + 1)
  | _ =>
    match uadd_ctx p with
    | Some q => if word m q + 1 =? 1 then set_tok g q TFree else set_tok g q (TPass t)
    | None =>
      match wake_ctx p with
      | Some (q, KPSetHead h nx) =>
          set_nown (set_hand (set_gq g q (tl (gq g q))) q (option_map fst (hd_error (gq g q)))) h (OPop t)
      | Some (q, KPOut h) => set_nown g h (OThread (tid_of_name (ndata m h)))
      | Some (q, kp) =>
          match sched_of m kp with
          | Some f =>
              let g1 := set_got (set_hand g q None) f true in
              if is_mutex q then set_gw (set_tok g1 q (THeld f)) q (gw g q - 1) else g1
          | None => g
          end
      | None =>
        match wait_ctx p with
        | Some (q, WPXchg n) => set_nown (set_gq g q (gq g q ++ [(t, n)])) n (OList q)
        | Some (q, WPYield (YPNext _ st)) => if waitingish st then g else set_got g t false
        | _ => g
        end
      end
    end
  end.

Definition set_myclaim c t v := {| g_reg := g_reg c; g_claimed := g_claimed c; g_rel := g_rel c; g_trans := g_trans c;
                                   gwl := gwl c; myclaim := upd (myclaim c) t v; myrel := upd (myrel c) t 0 |}.

Definition gc_step (m : kmem) (t : nat) (p : phase) (c : gc) : gc :=
  match p with
  | PRun (CW2 _ _) (KAcc _) =>
      {| g_reg := g_reg c + 1; g_claimed := g_claimed c; g_rel := g_rel c; g_trans := g_trans c;
         gwl := t :: gwl c; myclaim := myclaim c; myrel := myrel c |}
  | PRun (CS2 _ _ _) (KAcc _) =>
      if 1 <=? word m COND
      then set_myclaim {| g_reg := g_reg c; g_claimed := g_claimed c + 1; g_rel := g_rel c; g_trans := g_trans c;
                          gwl := gwl c; myclaim := myclaim c; myrel := myrel c |} t 1
      else set_myclaim {| g_reg := g_reg c; g_claimed := g_claimed c; g_rel := g_rel c; g_trans := g_trans c + 1;
                          gwl := gwl c; myclaim := myclaim c; myrel := myrel c |} t 0
  | PRun (CS3 _ _ _) (KAcc _) =>
      {| g_reg := g_reg c; g_claimed := g_claimed c; g_rel := g_rel c; g_trans := g_trans c - 1;
         gwl := gwl c; myclaim := myclaim c; myrel := myrel c |}
  | PRun (CB2 _ _ _) (KAcc _) =>
      set_myclaim {| g_reg := g_reg c; g_claimed := g_claimed c + word m COND; g_rel := g_rel c; g_trans := g_trans c;
                     gwl := gwl c; myclaim := myclaim c; myrel := myrel c |} t (word m COND)
  | _ =>
    match sched_now m p with
    | Some (q, f) =>
        if (q =? COND)%nat
        then {| g_reg := g_reg c; g_claimed := g_claimed c; g_rel := g_rel c + 1; g_trans := g_trans c;
                gwl := remove_nat f (gwl c); myclaim := myclaim c; myrel := upd (myrel c) t (myrel c t + 1) |}
        else c
    | None => c
    end
  end.

Definition lstep (x : ist) (t : nat) : ist :=
  let m := mem (base x) in
  {| base := fst (step (base x) t);
     ph := upd (ph x) t (snd (pstep m t (ph x t)));
     kg := gk_step m t (ph x t) (kg x);
     cg := gc_step m t (ph x t) (cg x) |}.

Definition init_own (n : nat) : owner :=
  match n with
  | O => ONone
  | S O => OList 0 | S (S O) => OList 1 | S (S (S O)) => OList 2
  | S (S (S (S t))) => OThread t
  end.

Definition iinit (progs : list (list cop)) : ist :=
  {| base := init progs;
     ph := fun t => PRun (CNext (nth t progs []) 1) KStart;
     kg := {| tok := fun _ => TFree; gw := fun _ => 0; gq := fun _ => []; hand := fun _ => None;
              nown := init_own; got := fun _ => false |};
     cg := {| g_reg := 0; g_claimed := 0; g_rel := 0; g_trans := 0; gwl := [];
              myclaim := fun _ => 0; myrel := fun _ => 0 |} |}.

(* reachability of the instrumented machine: only ready threads are granted, as in Conc.reachable *)
Inductive ireach (progs : list (list cop)) : ist -> Prop :=
| ir_init : ireach progs (iinit progs)
| ir_step x t : ireach progs x -> status_of (base x) t = SReady -> ireach progs (lstep x t).

Lemma lstep_erase x t : base (lstep x t) = fst (mstep M (base x) t).
Proof. reflexivity. Qed.

(* every reachable state of the executable machine is the erasure of a reachable instrumented state *)
Lemma reachable_ireach progs s :
  reachable M (init progs) s -> exists x, ireach progs x /\ base x = s.
Proof.
  induction 1 as [|s t R [x [Rx E]] St].
  - exists (iinit progs). split; [constructor|reflexivity].
  - exists (lstep x t). split.
    + constructor; [exact Rx|]. rewrite E. exact St.
    + rewrite lstep_erase, E. reflexivity.
Qed.

Definition igrant (x : ist) (t : nat) : ist :=
  match status_of (base x) t with SReady => lstep x t | _ => x end.
Definition irun (x : ist) (sch : list nat) : ist := fold_left igrant sch x.
Lemma ireach_irun progs sch : forall x, ireach progs x -> ireach progs (irun x sch).
Proof.
  induction sch as [|t r IH]; intros x R; cbn; auto. apply IH. unfold igrant.
  destruct (status_of (base x) t) eqn:E; auto. now constructor.
Qed.

(* ------------------------------------------------------------------ *)
(* the phases describe the stacks *)
Definition sim (x : ist) : Prop := forall t, stk (base x) t = stack_of (ph x t).

Lemma step_mem_ph x t : sim x ->
  mem (fst (step (base x) t)) = fst (pstep (mem (base x)) t (ph x t)) /\
  stk (fst (step (base x) t)) t = stack_of (snd (pstep (mem (base x)) t (ph x t))) /\
  (forall u, u <> t -> stk (fst (step (base x) t)) u = stk (base x) u) /\
  nthr (fst (step (base x) t)) = nthr (base x).
Proof.
  intros S. unfold step. rewrite (S t).
  pose proof (pstep_sim (mem (base x)) t (ph x t)) as P. unfold noev in P.
  destruct (kstepC (mem (base x)) t (stack_of (ph x t))) as [[m1 e1] s1]. cbn in *.
  inversion P; subst. repeat split; auto.
  - now rewrite upd_same.
  - intros u Hu. now rewrite upd_other.
Qed.

Lemma sim_reach progs x : ireach progs x -> sim x.
Proof.
  induction 1 as [|x t R IH St].
  - intros t. reflexivity.
  - intros u. destruct (step_mem_ph x t IH) as (_ & A & B & _). cbn [lstep base ph].
    destruct (Nat.eq_dec u t) as [->|Hu].
    + now rewrite upd_same.
    + rewrite upd_other by auto. rewrite B by auto. apply IH.
Qed.

Lemma lstep_mem x t : sim x -> mem (base (lstep x t)) = fst (pstep (mem (base x)) t (ph x t)).
Proof. intros S. exact (proj1 (step_mem_ph x t S)). Qed.
