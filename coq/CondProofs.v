(* C05 proofs, part 2: the machine of coq/Cond.v instrumented with phases
   (CondPhase.v) and ghost state, and its inductive invariants, for any number
   of fibers, any programs, any schedule. *)
From Coq Require Import List ZArith Lia Bool Arith.
From LF Require Import Conc T1K Cond CondPhase.
Import ListNotations.
Local Open Scope Z_scope.

(* ------------------------------------------------------------------ *)
(* Ghost state *)
Inductive tokT := TFree | THeld (t : nat) | TPass (t : nat).
Inductive owner := ONone | OThread (t : nat) | OList (q : nat) | OPop (t : nat).

(* kernel-level ghosts *)
Record gk := {
  tok : nat -> tokT;               (* mutex q: free / held by / being handed over by *)
  gw : nat -> Z;                   (* mutex q: fibers that announced themselves and were not yet granted *)
  gq : nat -> list (nat * nat);    (* list q: (fiber, node) entries in tail-exchange order, not yet popped *)
  hand : nat -> option nat;        (* list q: the fiber whose entry the consumer has popped and not yet scheduled *)
  nown : nat -> owner;             (* node ownership *)
  got : nat -> bool                (* fiber t's current wait has been granted (it was scheduled) *)
}.

(* cond-level ghosts *)
Record gc := {
  g_reg : Z;                       (* fetch_add's of waiters *)
  g_claimed : Z;                   (* entries claimed by signals (1 each) and broadcasts (original each) *)
  g_rel : Z;                       (* fibers scheduled from the cond list *)
  g_trans : Z;                     (* signals between a fetch_sub that found nobody and the fetch_add back *)
  gwl : list nat;                  (* registered and not yet released waiters *)
  myclaim : nat -> Z;              (* what the current signal/broadcast of fiber t claimed *)
  myrel : nat -> Z                 (* how many fibers it has released so far *)
}.

Record ist := { base : st; ph : nat -> phase; kg : gk; cg : gc }.

(* where is thread t popping / waiting / unlocking *)
Definition wait_ctx (p : phase) : option (nat * waitpos) :=
  match p with
  | PRun _ (KLock q (LPWait wp)) => Some (q, wp)
  | PRun _ (KWait q wp) => Some (q, wp)
  | _ => None
  end.

Definition wake_ctx (p : phase) : option (nat * wakepos) :=
  match p with
  | PRun _ (KWake q _ _ kp) => Some (q, kp)
  | PRun _ (KUnlock q (UPWake _ kp)) => Some (q, kp)
  | _ => match wait_ctx p with
         | Some (_, WPYield (YPMaint q (IPWake _ kp))) => Some (q, kp)
         | _ => None
         end
  end.

Definition uadd_ctx (p : phase) : option nat :=
  match p with
  | PRun _ (KUnlock q UPAdd) => Some q
  | _ => match wait_ctx p with
         | Some (_, WPYield (YPMaint q IPAdd)) => Some q
         | _ => None
         end
  end.

Definition sched_of (m : kmem) (kp : wakepos) : option nat :=
  match kp with
  | KPState f => if fstate m f =? ST_WAITING then None else Some f
  | KPReady f => Some f
  | _ => None
  end.

(* the fiber that thread t schedules from list q in this step *)
Definition sched_now (m : kmem) (p : phase) : option (nat * nat) :=
  match wake_ctx p with
  | Some (q, kp) => match sched_of m kp with Some f => Some (q, f) | None => None end
  | None => None
  end.

Definition remove_nat (x : nat) (l : list nat) : list nat := filter (fun y => negb (Nat.eqb y x)) l.

Definition set_tok g q v := {| tok := upd (tok g) q v; gw := gw g; gq := gq g; hand := hand g; nown := nown g; got := got g |}.
Definition set_gw g q v := {| tok := tok g; gw := upd (gw g) q v; gq := gq g; hand := hand g; nown := nown g; got := got g |}.
Definition set_gq g q v := {| tok := tok g; gw := gw g; gq := upd (gq g) q v; hand := hand g; nown := nown g; got := got g |}.
Definition set_hand g q v := {| tok := tok g; gw := gw g; gq := gq g; hand := upd (hand g) q v; nown := nown g; got := got g |}.
Definition set_nown g n v := {| tok := tok g; gw := gw g; gq := gq g; hand := hand g; nown := upd (nown g) n v; got := got g |}.
Definition set_got g t v := {| tok := tok g; gw := gw g; gq := gq g; hand := hand g; nown := nown g; got := upd (got g) t v |}.

Definition is_mutex (q : nat) : bool := (q =? UMUTEX)%nat || (q =? IMUTEX)%nat.

Definition gk_step (m : kmem) (t : nat) (p : phase) (g : gk) : gk :=
  match p with
  | PRun _ (KLock q LPSub) =>
      if word m q - 1 =? 0 then set_tok g q (THeld t) else set_gw g q (gw g q + 1)
  | _ =>
    match uadd_ctx p with
    | Some q => if word m q + 1 =? 1 then set_tok g q TFree else set_tok g q (TPass t)
    | None =>
      match wake_ctx p with
      | Some (q, KPSetHead h nx) =>
          set_nown (set_hand (set_gq g q (tl (gq g q))) q (option_map fst (hd_error (gq g q)))) h (OPop t)
      | Some (q, KPOut h) => set_nown g h (OThread (tid_of_name (ndata m h)))
      | Some (q, kp) =>
          match sched_of m kp with
          | Some f =>
              let g1 := set_got (set_hand g q None) f true in
              if is_mutex q then set_gw (set_tok g1 q (THeld f)) q (gw g q - 1) else g1
          | None => g
          end
      | None =>
        match wait_ctx p with
        | Some (q, WPXchg n) => set_nown (set_gq g q (gq g q ++ [(t, n)])) n (OList q)
        | Some (q, WPYield (YPNext _ st)) => if waitingish st then g else set_got g t false
        | _ => g
        end
      end
    end
  end.

Definition set_myclaim c t v := {| g_reg := g_reg c; g_claimed := g_claimed c; g_rel := g_rel c; g_trans := g_trans c;
                                   gwl := gwl c; myclaim := upd (myclaim c) t v; myrel := upd (myrel c) t 0 |}.

Definition gc_step (m : kmem) (t : nat) (p : phase) (c : gc) : gc :=
  match p with
  | PRun (CW2 _ _) (KAcc _) =>
      {| g_reg := g_reg c + 1; g_claimed := g_claimed c; g_rel := g_rel c; g_trans := g_trans c;
         gwl := t :: gwl c; myclaim := myclaim c; myrel := myrel c |}
  | PRun (CS2 _ _ _) (KAcc _) =>
      if 1 <=? word m COND
      then set_myclaim {| g_reg := g_reg c; g_claimed := g_claimed c + 1; g_rel := g_rel c; g_trans := g_trans c;
                          gwl := gwl c; myclaim := myclaim c; myrel := myrel c |} t 1
      else set_myclaim {| g_reg := g_reg c; g_claimed := g_claimed c; g_rel := g_rel c; g_trans := g_trans c + 1;
                          gwl := gwl c; myclaim := myclaim c; myrel := myrel c |} t 0
  | PRun (CS3 _ _ _) (KAcc _) =>
      {| g_reg := g_reg c; g_claimed := g_claimed c; g_rel := g_rel c; g_trans := g_trans c - 1;
         gwl := gwl c; myclaim := myclaim c; myrel := myrel c |}
  | PRun (CB2 _ _ _) (KAcc _) =>
      set_myclaim {| g_reg := g_reg c; g_claimed := g_claimed c + word m COND; g_rel := g_rel c; g_trans := g_trans c;
                     gwl := gwl c; myclaim := myclaim c; myrel := myrel c |} t (word m COND)
  | _ =>
    match sched_now m p with
    | Some (q, f) =>
        if (q =? COND)%nat
        then {| g_reg := g_reg c; g_claimed := g_claimed c; g_rel := g_rel c + 1; g_trans := g_trans c;
                gwl := remove_nat f (gwl c); myclaim := myclaim c; myrel := upd (myrel c) t (myrel c t + 1) |}
        else c
    | None => c
    end
  end.

Definition lstep (x : ist) (t : nat) : ist :=
  let m := mem (base x) in
  {| base := fst (step (base x) t);
     ph := upd (ph x) t (snd (pstep m t (ph x t)));
     kg := gk_step m t (ph x t) (kg x);
     cg := gc_step m t (ph x t) (cg x) |}.

Definition init_own (n : nat) : owner :=
  match n with
  | O => ONone
  | S O => OList 0 | S (S O) => OList 1 | S (S (S O)) => OList 2
  | S (S (S (S t))) => OThread t
  end.

Definition iinit (progs : list (list cop)) : ist :=
  {| base := init progs;
     ph := fun t => PRun (CNext (nth t progs []) 1) KStart;
     kg := {| tok := fun _ => TFree; gw := fun _ => 0; gq := fun _ => []; hand := fun _ => None;
              nown := init_own; got := fun _ => false |};
     cg := {| g_reg := 0; g_claimed := 0; g_rel := 0; g_trans := 0; gwl := [];
              myclaim := fun _ => 0; myrel := fun _ => 0 |} |}.

(* reachability of the instrumented machine: only ready threads are granted, as in Conc.reachable *)
Inductive ireach (progs : list (list cop)) : ist -> Prop :=
| ir_init : ireach progs (iinit progs)
| ir_step x t : ireach progs x -> status_of (base x) t = SReady -> ireach progs (lstep x t).

Lemma lstep_erase x t : base (lstep x t) = fst (mstep M (base x) t).
Proof. reflexivity. Qed.

(* every reachable state of the executable machine is the erasure of a reachable instrumented state *)
Lemma reachable_ireach progs s :
  reachable M (init progs) s -> exists x, ireach progs x /\ base x = s.
Proof.
  induction 1 as [|s t R [x [Rx E]] St].
  - exists (iinit progs). split; [constructor|reflexivity].
  - exists (lstep x t). split.
    + constructor; [exact Rx|]. rewrite E. exact St.
    + rewrite lstep_erase, E. reflexivity.
Qed.

Definition igrant (x : ist) (t : nat) : ist :=
  match status_of (base x) t with SReady => lstep x t | _ => x end.
Definition irun (x : ist) (sch : list nat) : ist := fold_left igrant sch x.
Lemma ireach_irun progs sch : forall x, ireach progs x -> ireach progs (irun x sch).
Proof.
  induction sch as [|t r IH]; intros x R; cbn; auto. apply IH. unfold igrant.
  destruct (status_of (base x) t) eqn:E; auto. now constructor.
Qed.

(* ------------------------------------------------------------------ *)
(* the phases describe the stacks *)
Definition sim (x : ist) : Prop := forall t, stk (base x) t = stack_of (ph x t).

Lemma step_mem_ph x t : sim x ->
  mem (fst (step (base x) t)) = fst (pstep (mem (base x)) t (ph x t)) /\
  stk (fst (step (base x) t)) t = stack_of (snd (pstep (mem (base x)) t (ph x t))) /\
  (forall u, u <> t -> stk (fst (step (base x) t)) u = stk (base x) u) /\
  nthr (fst (step (base x) t)) = nthr (base x).
Proof.
  intros S. unfold step. rewrite (S t).
  pose proof (pstep_sim (mem (base x)) t (ph x t)) as P. unfold noev in P.
  destruct (kstepC (mem (base x)) t (stack_of (ph x t))) as [[m1 e1] s1]. cbn in *.
  inversion P; subst. repeat split; auto.
  - now rewrite upd_same.
  - intros u Hu. now rewrite upd_other.
Qed.

Lemma sim_reach progs x : ireach progs x -> sim x.
Proof.
  induction 1 as [|x t R IH St].
  - intros t. reflexivity.
  - intros u. destruct (step_mem_ph x t IH) as (_ & A & B & _). cbn [lstep base ph].
    destruct (Nat.eq_dec u t) as [->|Hu].
    + now rewrite upd_same.
    + rewrite upd_other by auto. rewrite B by auto. apply IH.
Qed.

Lemma lstep_mem x t : sim x -> mem (base (lstep x t)) = fst (pstep (mem (base x)) t (ph x t)).
Proof. intros S. exact (proj1 (step_mem_ph x t S)). Qed.

(* ------------------------------------------------------------------ *)
(* Layer 0: the phases are well formed (no junk), the fiber states are in the
   class the phase expects, the deferred-action slots are used only for the
   user mutex; waiter_count = registered - claimed - transient. *)
Definition st12 (s : Z) : Prop := s = ST_RUNNING \/ s = ST_READY.
Definition stw (s : Z) : Prop := s = ST_SAVING \/ s = ST_WAITING \/ s = ST_READY.

Definition cphase_okb (c : cc) (kp : kpos) : bool :=
  match c, kp with
  | CNext _ _, KStart => true
  | CLocked o _ _, KLock 0%nat _ => needs_user o
  | CIn o _ _, KAcc (ACWrite 2%nat _) => needs_user o
  | CFlag _ _, KAcc (ACRead 1%nat) => true
  | CW1 _ _, KAcc (ACWrite 0%nat _) => true
  | CW2 _ _, KAcc (AWFAdd 2%nat 1 3) => true
  | CW3 _ _, KWait 2%nat _ => true
  | CW4 _ _, KLock 0%nat _ => true
  | CS1 _ _ _, KLock 1%nat _ => true
  | CB1 _ _ _, KLock 1%nat _ => true
  | CS2 _ _ _, KAcc (AWFSub 2%nat 1 5) => true
  | CB2 _ _ _, KAcc (AWXchg 2%nat 0 2) => true
  | CS3 _ _ _, KAcc (AWFAdd 2%nat 1 5) => true
  | CS3 _ _ _, KWake 2%nat _ _ _ => true
  | CS4 _ _ _, KUnlock 1%nat _ => true
  | CUnl _ _ _, KAcc (ACWrite _ _) => true
  | CRb _ _ _, KAcc (ACRead 2%nat) => true
  | CDone _ _ _, KUnlock 0%nat _ => true
  | CRd _ _, KAcc (AWLoad 2%nat 5) => true
  | _, _ => false
  end.

Definition wake_ok (kp : wakepos) (inm : bool) : Prop :=
  match kp with
  | KPSpin SPRead => inm = false
  | KPSpin (SPNext st) => st12 st
  | _ => True
  end.
Definition unlki_ok (ip : unlkipos) (inm : bool) : Prop :=
  match ip with IPWake _ kp => wake_ok kp inm | IPAdd => True end.
Definition yield_ok (yp : yieldpos) : Prop :=
  match yp with
  | YPNext true st => st12 st
  | YPMaint q ip => q = UMUTEX /\ unlki_ok ip true
  | _ => True
  end.
Definition wait_ok (wp : waitpos) : Prop :=
  match wp with WPYield yp => yield_ok yp | _ => True end.
Definition kpos_ok (kp : kpos) : Prop :=
  match kp with
  | KLock _ (LPWait wp) => wait_ok wp
  | KWait _ wp => wait_ok wp
  | KUnlock _ (UPWake _ kp) => wake_ok kp false
  | KUnlock _ (UPYield (SPNext st)) => st12 st
  | KWake _ _ _ kp => wake_ok kp false
  | _ => True
  end.
Definition phase_ok (p : phase) : Prop :=
  match p with
  | PDone => True
  | PJunk _ => False
  | PRun c kp => cphase_okb c kp = true /\ kpos_ok kp
  end.

(* the class of the fiber's own state at each position *)
Definition ystate (s : Z) (yp : yieldpos) : Prop :=
  match yp with
  | YPRead true => st12 s
  | YPNext true _ => st12 s
  | YPNext false st => stw s /\ (waitingish st = false -> st12 s)
  | _ => stw s
  end.
Definition wstate (s : Z) (wp : waitpos) : Prop :=
  match wp with
  | WPSaving => st12 s
  | WPYield yp => ystate s yp
  | _ => stw s
  end.
Definition pstate (s : Z) (p : phase) : Prop :=
  match wait_ctx p with
  | Some (_, wp) => wstate s wp
  | None => st12 s
  end.

Record linv0 (m : kmem) (c : gc) (t : nat) (p : phase) : Prop := {
  l0_shape : phase_ok p;
  l0_state : pstate (fstate m t) p;
  l0_sched : slot_sched m t = false;
  l0_mpmc : slot_mpmc m t = None;
  l0_wait : slot_wait m t = None;
  l0_mutex : forall q, slot_mutex m t = Some q -> q = UMUTEX;
  l0_claim : match p with
             | PRun _ (KWake _ cnt wc _) => cnt = myclaim c t /\ wc = myrel c t
             | _ => True
             end
}.

Record Inv0 (x : ist) : Prop := {
  i0_sim : sim x;
  i0_loc : forall t, linv0 (mem (base x)) (cg x) t (ph x t);
  i0_count : word (mem (base x)) COND = g_reg (cg x) - g_claimed (cg x) - g_trans (cg x)
}.

(* how one step of t may change what the Layer-0 invariant of another thread reads *)
Definition frame0 (m m' : kmem) : Prop :=
  (forall u, fstate m' u = fstate m u \/ fstate m' u = ST_READY) /\
  slot_sched m' = slot_sched m /\ slot_mpmc m' = slot_mpmc m /\ slot_wait m' = slot_wait m /\
  slot_mutex m' = slot_mutex m /\ word m' = word m.

Lemma frame0_refl m : frame0 m m.
Proof. repeat split; auto. Qed.

Lemma wake_frame0 m u :
  frame0 m (wake m u).
Proof. unfold wake. destruct (blocked m u); repeat split; auto. Qed.

Lemma st12_nw st : st12 st -> waitingish st = false.
Proof. intros [->| ->]; reflexivity. Qed.

Lemma wake_step0 m t q cnt wc kp inm m' res :
  wake_step m t q cnt wc kp inm = (m', res) ->
  (inm = false -> st12 (fstate m t)) -> wake_ok kp inm ->
  frame0 m m' /\
  match res with
  | WCont _ kp' => wake_ok kp' inm
  | WRet _ => True
  | WJunk => False
  end.
Proof.
  intros E Hs Hk. destruct kp as [|h|h nx|h nx|h d|h|f|f|sp]; cbn in E.
  - inversion E; subst. split; [apply frame0_refl|exact I].
  - destruct (nnext m h).
    + destruct (0 <? cnt).
      * destruct inm; inversion E; subst; (split; [apply frame0_refl|]); [unfold wloop; destruct (wc <? cnt); exact I|reflexivity].
      * inversion E; subst. split; [apply frame0_refl|]. unfold wloop. destruct (wc <? cnt); exact I.
    + inversion E; subst. split; [apply frame0_refl|exact I].
  - inversion E; subst. split; [repeat split; auto|exact I].
  - inversion E; subst. split; [apply frame0_refl|exact I].
  - inversion E; subst. split; [repeat split; auto|exact I].
  - inversion E; subst. split; [repeat split; auto|exact I].
  - destruct (fstate m f =? ST_WAITING).
    + inversion E; subst. split; [apply frame0_refl|exact I].
    + inversion E; subst. split; [apply wake_frame0|]. unfold wloop. destruct (wc + 1 <? cnt); exact I.
  - inversion E; subst. split.
    + unfold wake. destruct (blocked (set_fstate m f ST_READY) f); repeat split; auto;
        intros u; cbn; unfold upd; destruct (u =? f)%nat; auto.
    + unfold wloop. destruct (wc + 1 <? cnt); exact I.
  - destruct sp as [|st].
    + inversion E; subst. split; [apply frame0_refl|]. cbn in *. apply Hs. exact Hk.
    + cbn in Hk. rewrite (st12_nw st Hk) in E. inversion E; subst. split; [apply frame0_refl|].
      unfold wloop. destruct (wc <? cnt); exact I.
Qed.

(* what a kernel step of thread t (other than an access made for the client) may change *)
Record frameT (t : nat) (m m' : kmem) : Prop := {
  fr_state : forall u, u <> t -> fstate m' u = fstate m u \/ fstate m' u = ST_READY;
  fr_sched : slot_sched m' = slot_sched m;
  fr_mpmc : slot_mpmc m' = slot_mpmc m;
  fr_wait : slot_wait m' = slot_wait m;
  fr_mutex : forall u, u <> t -> slot_mutex m' u = slot_mutex m u;
  fr_word : word m' COND = word m COND
}.

Lemma frame0_T t m m' : frame0 m m' -> frameT t m m'.
Proof.
  intros (A & B & C & D & E & F). constructor; auto.
  - intros u _. now rewrite E.
  - now rewrite F.
Qed.

Lemma frameT_refl t m : frameT t m m.
Proof. constructor; auto. Qed.

Lemma frameT_trans t m1 m2 m3 : frameT t m1 m2 -> frameT t m2 m3 -> frameT t m1 m3.
Proof.
  intros A B. constructor.
  - intros u Hu. destruct (fr_state _ _ _ B u Hu) as [E|E]; [rewrite E; apply A; auto|auto].
  - rewrite (fr_sched _ _ _ B). apply A.
  - rewrite (fr_mpmc _ _ _ B). apply A.
  - rewrite (fr_wait _ _ _ B). apply A.
  - intros u Hu. rewrite (fr_mutex _ _ _ B u Hu). apply A; auto.
  - rewrite (fr_word _ _ _ B). apply A.
Qed.

(* t's own state after a wake step: unchanged or READY; its mutex slot unchanged *)
Lemma frame0_own t m m' : frame0 m m' ->
  (fstate m' t = fstate m t \/ fstate m' t = ST_READY) /\ slot_mutex m' t = slot_mutex m t.
Proof. intros (A & B & C & D & E & F). split; [apply A|now rewrite E]. Qed.

Lemma unlki_step0 m t q ip inm m' res :
  unlki_step m t q ip inm = (m', res) -> q <> COND ->
  (inm = false -> st12 (fstate m t)) -> unlki_ok ip inm ->
  frameT t m m' /\
  (fstate m' t = fstate m t \/ fstate m' t = ST_READY) /\ slot_mutex m' t = slot_mutex m t /\
  match res with
  | ICont ip' => unlki_ok ip' inm
  | IRet _ => True
  | IJunk => False
  end.
Proof.
  intros E Hq Hs Hk. destruct ip as [|wc kp]; cbn in E.
  - assert (F : frameT t m (set_word m q (word m q + 1))).
    { constructor; auto. cbn. unfold COND in *. now rewrite upd_other by auto. }
    destruct (word m q + 1 =? 1); inversion E; subst; (split; [exact F|repeat split; auto]).
  - destruct (wake_step m t q 1 wc kp inm) as [m1 r] eqn:W.
    destruct (wake_step0 _ _ _ _ _ _ _ _ _ W Hs Hk) as [F R].
    destruct (frame0_own t _ _ F) as [O1 O2].
    destruct r; inversion E; subst; (split; [apply frame0_T; exact F|repeat split; auto]); try destruct R.
Qed.

Definition premaint (wp : waitpos) : bool :=
  match wp with
  | WPYield (YPRead false) | WPYield (YPNext false _) | WPYield YPSwRead | WPYield YPSwDone
  | WPYield YPMRead | WPYield YPMFlip => true
  | WPYield _ => false
  | _ => true
  end.

(* the deferred slots after the state flip *)
Lemma slots_p0 m t m' res :
  slots_p m t = (m', res) ->
  slot_sched m t = false -> slot_mpmc m t = None -> slot_wait m t = None ->
  (forall q, slot_mutex m t = Some q -> q = UMUTEX) ->
  frameT t m m' /\ fstate m' t = fstate m t /\ slot_mutex m' t = None /\
  match res with
  | YCont (YPMaint q IPAdd) => q = UMUTEX /\ slot_mutex m t = Some q
  | YCont YPAsleep => slot_mutex m t = None
  | YCont YPResume => slot_mutex m t = None
  | _ => False
  end.
Proof.
  intros E H1 H2 H3 H4. unfold slots_p in E. rewrite H1, H2, H3 in E.
  destruct (slot_mutex m t) as [q|] eqn:Eq.
  - inversion E; subst. split; [|cbn; rewrite upd_same; auto].
    constructor; auto. intros u Hu. cbn. now rewrite upd_other.
  - unfold sleep_p in E. destruct (pend m t); inversion E; subst; (split; [constructor; auto|auto]).
Qed.

Lemma stw_ready s : stw s -> waitingish s = false -> st12 s.
Proof. intros [->|[->| ->]] H; cbn in H; try discriminate. now right. Qed.

Lemma ystate_ready yp s : ystate s yp -> ystate ST_READY yp.
Proof.
  destruct yp as [[|]|[|] st| | | | |q ip| |]; cbn; intros H; try (right; right; reflexivity);
    try (right; reflexivity).
  split; [right; right; reflexivity|intros _; right; reflexivity].
Qed.

Lemma wstate_ready wp s : wstate s wp -> wstate ST_READY wp.
Proof.
  destruct wp; cbn; try (intros _; right; right; reflexivity); try (intros _; right; reflexivity).
  apply ystate_ready.
Qed.

Lemma pstate_ready p s : pstate s p -> pstate ST_READY p.
Proof.
  unfold pstate. destruct (wait_ctx p) as [[q wp]|]; [apply wstate_ready|intros _; right; reflexivity].
Qed.

Definition ismaint (yp : yieldpos) : bool := match yp with YPMaint _ _ => true | _ => false end.

Ltac fin0 := cbn; repeat split; auto; try discriminate; try tauto; try congruence.

Lemma yield_step0 m t yp m' res :
  yield_step m t yp = (m', res) ->
  slot_sched m t = false -> slot_mpmc m t = None -> slot_wait m t = None ->
  (forall q, slot_mutex m t = Some q -> q = UMUTEX) ->
  yield_ok yp -> ystate (fstate m t) yp ->
  frameT t m m' /\
  (forall q, slot_mutex m' t = Some q -> slot_mutex m t = Some q) /\
  match res with
  | YCont yp' => yield_ok yp' /\ ystate (fstate m' t) yp' /\
                 (ismaint yp' = true -> ismaint yp = true \/ slot_mutex m t <> None)
  | YRet => st12 (fstate m' t)
  | YJunk => False
  end.
Proof.
  intros E H1 H2 H3 H4 Hk Hs.
  destruct yp as [b|b st| | | | |q ip| |]; cbn in E.
  - inversion E; subst. split; [apply frameT_refl|]. split; [auto|].
    destruct b; cbn in *; [fin0|]. repeat split; auto; try discriminate.
    intros W. apply stw_ready; auto.
  - destruct (waitingish st) eqn:W; inversion E; subst; (split; [apply frameT_refl|]); (split; [auto|]).
    + destruct b; cbn in *; [|fin0].
      rewrite (st12_nw _ Hk) in W. discriminate.
    + destruct b; cbn in *; tauto.
  - destruct (fstate m t =? ST_RUNNING) eqn:R.
    + cbn in Hs. apply Z.eqb_eq in R. rewrite R in Hs. destruct Hs as [Q|[Q|Q]]; discriminate Q.
    + inversion E; subst. split; [apply frameT_refl|]. split; [auto|]. fin0.
  - inversion E; subst. split; [apply frameT_refl|]. split; [auto|]. fin0.
  - destruct (fstate m t =? ST_SAVING).
    + inversion E; subst. split; [apply frameT_refl|]. split; [auto|]. fin0.
    + destruct (slots_p0 _ _ _ _ E H1 H2 H3 H4) as (F & S1 & S2 & R).
      split; [exact F|]. split; [intros q Q; rewrite S2 in Q; discriminate|].
      destruct res as [yp'| |]; try destruct R. rewrite S1.
      destruct yp' as [?|? ?| | | | |q' ip'| |]; try destruct R; [|fin0|fin0].
      destruct ip'; [|destruct R]. destruct R as [-> R]. fin0. intros _. right. congruence.
  - assert (H1' : slot_sched (set_fstate m t ST_WAITING) t = false) by exact H1.
    destruct (slots_p0 _ _ _ _ E H1' H2 H3 H4) as (F & S1 & S2 & R).
    split. { eapply frameT_trans; [|exact F]. constructor; auto. intros u Hu. cbn. rewrite upd_other by auto. auto. }
    split; [intros q Q; rewrite S2 in Q; discriminate|].
    destruct res as [yp'| |]; try destruct R. rewrite S1. cbn [fstate set_fstate]. rewrite upd_same.
    assert (W : stw ST_WAITING) by (right; left; reflexivity).
    destruct yp' as [?|? ?| | | | |q' ip'| |]; try destruct R; [|fin0|fin0].
    destruct ip'; [|destruct R]. destruct R as [-> R]. fin0. intros _. right. cbn in R. congruence.
  - cbn in Hk. destruct Hk as [-> Hk]. cbn in Hs.
    destruct (unlki_step m t UMUTEX ip true) as [m1 r] eqn:U.
    assert (Hq : UMUTEX <> COND) by discriminate.
    destruct (unlki_step0 _ _ _ _ _ _ _ U Hq ltac:(discriminate) Hk) as (F & O1 & O2 & R).
    assert (Hs1 : stw (fstate m1 t)).
    { destruct O1 as [O1|O1]; rewrite O1; auto. right; right; reflexivity. }
    destruct r as [ip'|v|]; try destruct R.
    + inversion E; subst. split; [exact F|]. split; [intros q Q; now rewrite <- O2|]. fin0.
    + assert (A1 : slot_sched m1 t = false) by (rewrite (fr_sched _ _ _ F); exact H1).
      assert (A2 : slot_mpmc m1 t = None) by (rewrite (fr_mpmc _ _ _ F); exact H2).
      assert (A3 : slot_wait m1 t = None) by (rewrite (fr_wait _ _ _ F); exact H3).
      assert (A4 : forall q, slot_mutex m1 t = Some q -> q = UMUTEX) by (intros q; rewrite O2; apply H4).
      destruct (slots_p0 _ _ _ _ E A1 A2 A3 A4) as (F2 & S1 & S2 & R2).
      split; [eapply frameT_trans; eauto|]. split; [intros q Q; rewrite S2 in Q; discriminate|].
      destruct res as [yp'| |]; try destruct R2. rewrite S1.
      destruct yp' as [?|? ?| | | | |q' ip'| |]; try destruct R2; [|fin0|fin0].
      destruct ip'; try destruct R2. fin0.
  - inversion E; subst. split; [apply frameT_refl|]. split; [auto|]. fin0.
  - inversion E; subst. split.
    { constructor; auto. intros u Hu. cbn. rewrite upd_other by auto. auto. }
    split; [auto|]. cbn. rewrite upd_same. fin0. left; reflexivity.
Qed.

Definition ismaintw (wp : waitpos) : bool := match wp with WPYield yp => ismaint yp | _ => false end.

Lemma wait_step0 m t q wp m' res :
  wait_step m t q wp = (m', res) ->
  slot_sched m t = false -> slot_mpmc m t = None -> slot_wait m t = None ->
  (forall q, slot_mutex m t = Some q -> q = UMUTEX) ->
  wait_ok wp -> wstate (fstate m t) wp ->
  frameT t m m' /\
  (forall q, slot_mutex m' t = Some q -> slot_mutex m t = Some q) /\
  match res with
  | TCont wp' => wait_ok wp' /\ wstate (fstate m' t) wp' /\
                 (ismaintw wp' = true -> ismaintw wp = true \/ slot_mutex m t <> None)
  | TRet => st12 (fstate m' t)
  | TJunk => False
  end.
Proof.
  intros E H1 H2 H3 H4 Hk Hs.
  assert (SV : stw ST_SAVING) by (left; reflexivity).
  destruct wp as [| |n|n|p n|yp]; cbn in E.
  - inversion E; subst. split.
    { constructor; auto. intros u Hu. cbn. rewrite upd_other by auto. auto. }
    split; [auto|]. cbn. rewrite upd_same. fin0.
  - inversion E; subst. split; [constructor; auto|]. split; [auto|]. fin0.
  - inversion E; subst. split; [constructor; auto|]. split; [auto|]. fin0.
  - inversion E; subst. split; [constructor; auto|]. split; [auto|]. fin0.
  - inversion E; subst. split; [constructor; auto|]. split; [auto|]. cbn in *. fin0.
  - destruct (yield_step m t yp) as [m1 r] eqn:Y.
    destruct (yield_step0 _ _ _ _ _ Y H1 H2 H3 H4 Hk Hs) as (F & S & R).
    destruct r; inversion E; subst; (split; [exact F|]); (split; [exact S|]); auto.
Qed.

(* the wake counter advances exactly when a fiber is scheduled *)
Definition wc_of (res : wres) (dflt : Z) : Z :=
  match res with WCont wc _ => wc | WRet v => v | WJunk => dflt end.

Lemma wake_step_wc m t q cnt wc kp inm m' res :
  wake_step m t q cnt wc kp inm = (m', res) -> res <> WJunk ->
  wc_of res 0 = match sched_of m kp with Some _ => wc + 1 | None => wc end.
Proof.
  intros E NJ. destruct kp as [|h|h nx|h nx|h d|h|f|f|sp]; cbn in E; cbn [sched_of].
  - inversion E; subst. reflexivity.
  - destruct (nnext m h); [destruct (0 <? cnt); [destruct inm|]|]; inversion E; subst; try reflexivity;
      unfold wloop; destruct (wc <? cnt); reflexivity.
  - inversion E; subst. reflexivity.
  - inversion E; subst. reflexivity.
  - inversion E; subst. reflexivity.
  - inversion E; subst. reflexivity.
  - destruct (fstate m f =? ST_WAITING); inversion E; subst; [reflexivity|].
    unfold wloop. destruct (wc + 1 <? cnt); reflexivity.
  - inversion E; subst. unfold wloop. destruct (wc + 1 <? cnt); reflexivity.
  - destruct sp as [|st]; [inversion E; subst; reflexivity|].
    destruct (waitingish st); inversion E; subst; [congruence|].
    unfold wloop. destruct (wc <? cnt); reflexivity.
Qed.

(* what the client does when a call returns *)
Lemma start0 p k s :
  phase_ok (phase_of_start (start p k)) /\ pstate s (phase_of_start (start p k)) = st12 s /\
  (forall c q cnt wc kp, phase_of_start (start p k) <> PRun c (KWake q cnt wc kp)).
Proof.
  destruct p as [|o p']; [cbn; repeat split; auto; discriminate|].
  destruct o; cbn; repeat split; auto; discriminate.
Qed.

Lemma creturn0 m t c v m1 p1 s :
  creturn m t c v = (m1, p1) -> (exists kp, cphase_okb c kp = true) ->
  phase_ok p1 /\ pstate s p1 = st12 s /\
  (m1 = m \/ exists p k, c = CW2 p k /\ m1 = set_slot_mutex m t (Some UMUTEX)) /\
  (forall c' q cnt wc kp, p1 = PRun c' (KWake q cnt wc kp) ->
     wc = 0 /\ ((exists um p k, c = CS2 um p k /\ cnt = 1 /\ 1 <= v) \/ (exists um p k, c = CB2 um p k /\ cnt = v))).
Proof.
  intros E [kp0 Hc]. unfold creturn in E.
  destruct c; cbn in E.
  - inversion E; subst. destruct (start0 p k s) as (A & B & C). repeat split; auto; intros; exfalso; eapply C; eauto.
  - inversion E; subst. destruct o; destruct kp0 as [| | [|[|?]] | | | ]; cbn in Hc; try discriminate; cbn; repeat split; auto; intros; discriminate.
  - destruct o; destruct kp0 as [|[[|[|[|?]]] ?|?|? ? ?|? ? ?|? ? ?|? ?]| | | | ]; cbn in Hc; try discriminate;
      inversion E; subst; cbn; repeat split; auto; intros; discriminate.
  - destruct (v =? 0); inversion E; subst; cbn; repeat split; auto; intros; discriminate.
  - inversion E; subst; cbn; repeat split; auto; intros; discriminate.
  - inversion E; subst; cbn. repeat split; auto; try (intros; discriminate). right. eauto.
  - inversion E; subst; cbn; repeat split; auto; intros; discriminate.
  - inversion E; subst; cbn; repeat split; auto; intros; discriminate.
  - inversion E; subst; cbn; repeat split; auto; intros; discriminate.
  - destruct (0 <=? v - 1) eqn:Ev; inversion E; subst; cbn; repeat split; auto; try (intros; discriminate).
    all: match goal with H : PRun _ _ = PRun _ _ |- _ => inversion H; subst end; auto.
    left. exists um, p, k. repeat split; auto. apply Z.leb_le in Ev. lia.
  - inversion E; subst; cbn; repeat split; auto; intros; discriminate.
  - destruct (v =? 0) eqn:Ev; inversion E; subst; cbn; repeat split; auto; try (intros; discriminate).
    all: match goal with H : PRun _ _ = PRun _ _ |- _ => inversion H; subst end; auto.
    right. exists um, p, k. auto.
  - inversion E; subst; cbn; repeat split; auto; intros; discriminate.
  - destruct um; inversion E; subst.
    + cbn; repeat split; auto; intros; discriminate.
    + destruct (start0 p (S k) s) as (A & B & C). repeat split; auto; intros; exfalso; eapply C; eauto.
  - inversion E; subst; cbn; repeat split; auto; intros; discriminate.
  - inversion E; subst; cbn; repeat split; auto; intros; discriminate.
  - inversion E; subst. destruct (start0 p (S k) s) as (A & B & C). repeat split; auto; intros; exfalso; eapply C; eauto.
  - inversion E; subst. destruct (start0 p (S k) s) as (A & B & C). repeat split; auto; intros; exfalso; eapply C; eauto.
Qed.

Record frameL (t : nat) (m m' : kmem) : Prop := {
  fl_state : forall u, u <> t -> fstate m' u = fstate m u \/ fstate m' u = ST_READY;
  fl_sched : forall u, u <> t -> slot_sched m' u = slot_sched m u;
  fl_mpmc : forall u, u <> t -> slot_mpmc m' u = slot_mpmc m u;
  fl_wait : forall u, u <> t -> slot_wait m' u = slot_wait m u;
  fl_mutex : forall u, u <> t -> slot_mutex m' u = slot_mutex m u
}.

Lemma frameT_L t m m' : frameT t m m' -> frameL t m m'.
Proof.
  intros F. constructor; try apply F.
  - intros u _. now rewrite (fr_sched _ _ _ F).
  - intros u _. now rewrite (fr_mpmc _ _ _ F).
  - intros u _. now rewrite (fr_wait _ _ _ F).
Qed.

Lemma frameL_refl t m : frameL t m m.
Proof. constructor; auto. Qed.

Lemma linv0_other m m' c c' t u p :
  u <> t -> frameL t m m' -> myclaim c' u = myclaim c u -> myrel c' u = myrel c u ->
  linv0 m c u p -> linv0 m' c' u p.
Proof.
  intros Hu F E1 E2 [A B C D E G H]. constructor; auto.
  - destruct (fl_state _ _ _ F u Hu) as [Q|Q]; rewrite Q; auto. eapply pstate_ready; eauto.
  - rewrite (fl_sched _ _ _ F u Hu); auto.
  - rewrite (fl_mpmc _ _ _ F u Hu); auto.
  - rewrite (fl_wait _ _ _ F u Hu); auto.
  - intros q. rewrite (fl_mutex _ _ _ F u Hu); auto.
  - rewrite E1, E2. exact H.
Qed.

Ltac brk_match :=
  repeat match goal with
  | |- context [match ?x with _ => _ end] => destruct x
  end.

Lemma gc_other m t p c u : u <> t ->
  myclaim (gc_step m t p c) u = myclaim c u /\ myrel (gc_step m t p c) u = myrel c u.
Proof.
  intros Hu. unfold gc_step, set_myclaim. brk_match; cbn; rewrite ?upd_other by auto; auto.
Qed.

Lemma ret0 m0 c0 t v m' p' (g' : gc) :
  creturn m0 t c0 v = (m', p') -> (exists kp, cphase_okb c0 kp = true) ->
  st12 (fstate m0 t) -> slot_sched m0 t = false -> slot_mpmc m0 t = None -> slot_wait m0 t = None ->
  (forall q, slot_mutex m0 t = Some q -> q = UMUTEX) ->
  (forall um p k, c0 = CS2 um p k -> 1 <= v -> myclaim g' t = 1 /\ myrel g' t = 0) ->
  (forall um p k, c0 = CB2 um p k -> myclaim g' t = v /\ myrel g' t = 0) ->
  linv0 m' g' t p' /\ frameL t m0 m' /\ word m' = word m0.
Proof.
  intros E Hc Hs H1 H2 H3 H4 G1 G2.
  destruct (creturn0 _ _ _ _ _ _ (fstate m0 t) E Hc) as (A & B & C & D).
  assert (Fs : fstate m' = fstate m0 /\ slot_sched m' = slot_sched m0 /\ slot_mpmc m' = slot_mpmc m0 /\
               slot_wait m' = slot_wait m0 /\ word m' = word m0 /\
               (forall u, u <> t -> slot_mutex m' u = slot_mutex m0 u) /\
               (forall q, slot_mutex m' t = Some q -> q = UMUTEX)).
  { destruct C as [->|(p & k & -> & ->)]; cbn; repeat split; auto.
    - intros u Hu. now rewrite upd_other.
    - intros q. rewrite upd_same. intros Q. now inversion Q. }
  destruct Fs as (F1 & F2 & F3 & F4 & F5 & F6 & F7).
  split; [|split; [|exact F5]].
  - constructor; auto.
    + rewrite F1, B. exact Hs.
    + now rewrite F2.
    + now rewrite F3.
    + now rewrite F4.
    + destruct p' as [| |c' kp']; auto. destruct kp'; auto.
      destruct (D _ _ _ _ _ eq_refl) as [-> [(um & p & k & -> & -> & Hv)|(um & p & k & -> & ->)]].
      * destruct (G1 _ _ _ eq_refl Hv) as [-> ->]. auto.
      * destruct (G2 _ _ _ eq_refl) as [-> ->]. auto.
  - constructor; intros u Hu; auto.
    + rewrite F1. auto.
    + now rewrite F2.
    + now rewrite F3.
    + now rewrite F4.
Qed.

Definition cnt_def (m : kmem) (c : gc) : Z := word m COND - (g_reg c - g_claimed c - g_trans c).

Lemma frameL_trans t m1 m2 m3 : frameL t m1 m2 -> frameL t m2 m3 -> frameL t m1 m3.
Proof.
  intros A B. constructor; intros u Hu.
  - destruct (fl_state _ _ _ B u Hu) as [E|E]; [rewrite E; apply A; auto|auto].
  - rewrite (fl_sched _ _ _ B u Hu). apply A; auto.
  - rewrite (fl_mpmc _ _ _ B u Hu). apply A; auto.
  - rewrite (fl_wait _ _ _ B u Hu). apply A; auto.
  - rewrite (fl_mutex _ _ _ B u Hu). apply A; auto.
Qed.

Lemma frameL_fstate t m v : frameL t m (set_fstate m t v).
Proof. constructor; auto. intros u Hu. cbn. rewrite upd_other by auto. auto. Qed.
Lemma frameL_word t m q v : frameL t m (set_word m q v).
Proof. constructor; auto. Qed.
Lemma frameL_cell t m i v : frameL t m (set_cell m i v).
Proof. constructor; auto. Qed.

(* the cond-level ghosts do not move in kernel calls other than the wake on the cond list *)
Definition plain_client (c : cc) : bool :=
  match c with CW2 _ _ | CS2 _ _ _ | CS3 _ _ _ | CB2 _ _ _ => false | _ => true end.

Lemma gc_nosched m t p c : sched_now m p = None -> (forall c0 kp, p = PRun c0 kp -> plain_client c0 = true) ->
  gc_step m t p c = c.
Proof.
  intros S P. unfold gc_step. rewrite S. destruct p as [| |c0 kp]; auto.
  specialize (P c0 kp eq_refl). destruct c0; try discriminate P; auto.
Qed.

Lemma gc_sched_mutex m t p c q f : sched_now m p = Some (q, f) -> q <> COND ->
  (forall c0 kp, p = PRun c0 kp -> plain_client c0 = true) ->
  gc_step m t p c = c.
Proof.
  intros S Hq P. unfold gc_step. rewrite S. destruct (Nat.eqb_spec q COND); [contradiction|].
  destruct p as [| |c0 kp]; auto.
  specialize (P c0 kp eq_refl). destruct c0; try discriminate P; auto.
Qed.

Lemma sched_now_wait c0 q wp m : wait_ok wp ->
  forall p, (p = PRun c0 (KLock q (LPWait wp)) \/ p = PRun c0 (KWait q wp)) ->
  sched_now m p = None \/ exists f, sched_now m p = Some (UMUTEX, f).
Proof.
  intros W p [->| ->]; unfold sched_now; cbn;
    (destruct wp as [| | | | |yp]; auto; destruct yp as [| | | | | |q' ip| |]; auto;
     destruct ip as [|wc kp]; auto; cbn in W; destruct W as [-> _];
     destruct (sched_of m kp); eauto).
Qed.

Lemma gc_wait m t c0 q wp c p : wait_ok wp -> plain_client c0 = true ->
  (p = PRun c0 (KLock q (LPWait wp)) \/ p = PRun c0 (KWait q wp)) ->
  gc_step m t p c = c.
Proof.
  intros W P Hp. destruct (sched_now_wait c0 q wp m W p Hp) as [S|[f S]].
  - apply gc_nosched; auto. intros c1 kp1 Q. destruct Hp as [->| ->]; inversion Q; subst; auto.
  - eapply gc_sched_mutex; eauto; [discriminate|].
    intros c1 kp1 Q. destruct Hp as [->| ->]; inversion Q; subst; auto.
Qed.

Definition step0_goal (m : kmem) (c : gc) (t : nat) (p : phase) (m' : kmem) (p' : phase) : Prop :=
  linv0 m' (gc_step m t p c) t p' /\ frameL t m m' /\ cnt_def m' (gc_step m t p c) = cnt_def m c.

Ltac nocs := let Q := fresh in intros ? ? ? Q; discriminate Q.

Lemma pstep0_start m c t c0 m' p' :
  linv0 m c t (PRun c0 KStart) -> pstep m t (PRun c0 KStart) = (m', p') ->
  step0_goal m c t (PRun c0 KStart) m' p'.
Proof.
  intros [[Hc Hk] B H1 H2 H3 H4 H5] E. cbn in E.
  destruct c0; try discriminate Hc.
  assert (G : gc_step m t (PRun (CNext p k) KStart) c = c) by reflexivity.
  unfold step0_goal. rewrite G.
  destruct (ret0 _ _ _ _ _ _ c E ltac:(eauto)) as (L & F & W); cbn; rewrite ?upd_same; auto; try nocs.
  - left; reflexivity.
  - split; [exact L|]. split.
    + eapply frameL_trans; [apply frameL_fstate|exact F].
    + unfold cnt_def. rewrite W. reflexivity.
Qed.

Lemma pstep0_acc m c t c0 a m' p' :
  linv0 m c t (PRun c0 (KAcc a)) -> pstep m t (PRun c0 (KAcc a)) = (m', p') ->
  step0_goal m c t (PRun c0 (KAcc a)) m' p'.
Proof.
  intros [[Hc Hk] B H1 H2 H3 H4 H5] E. cbn in B. unfold pstate in B. cbn in B.
  unfold step0_goal.
  destruct c0; destruct a as [i v|i|q d mo|q d mo|q v mo|q mo]; try discriminate Hc; cbn [pstep] in E.
  - (* CIn *)
    assert (G : gc_step m t (PRun (CIn o p k) (KAcc (ACWrite i v))) c = c) by reflexivity. rewrite G.
    destruct (ret0 _ _ _ _ _ _ c E ltac:(eauto)) as (L & F & W); auto; try nocs.
    split; [exact L|]. split; [eapply frameL_trans; [apply frameL_cell|exact F]|].
    unfold cnt_def. rewrite W. reflexivity.
  - (* CFlag *)
    assert (G : gc_step m t (PRun (CFlag p k) (KAcc (ACRead i))) c = c) by reflexivity. rewrite G.
    destruct (ret0 _ _ _ _ _ _ c E ltac:(eauto)) as (L & F & W); auto; try nocs.
    split; [exact L|]. split; [exact F|]. unfold cnt_def. rewrite W. reflexivity.
  - (* CW1 *)
    assert (G : gc_step m t (PRun (CW1 p k) (KAcc (ACWrite i v))) c = c) by reflexivity. rewrite G.
    destruct (ret0 _ _ _ _ _ _ c E ltac:(eauto)) as (L & F & W); auto; try nocs.
    split; [exact L|]. split; [eapply frameL_trans; [apply frameL_cell|exact F]|].
    unfold cnt_def. rewrite W. reflexivity.
  - (* CW2 *)
    destruct q as [|[|[|?]]]; try discriminate Hc.
    match goal with |- context [gc_step ?a ?b ?p0 ?d] => set (g' := gc_step a b p0 d) end.
    destruct (ret0 _ _ _ _ _ _ g' E ltac:(eauto)) as (L & F & W); auto; try nocs.
    split; [exact L|]. split; [eapply frameL_trans; [apply frameL_word|exact F]|].
    unfold cnt_def. rewrite W. subst g'. cbn. unfold COND. rewrite ?upd_same.
    assert (d = 1) by (destruct d as [|[| |]|]; try discriminate Hc; reflexivity). subst d. lia.
  - (* CS2 *)
    destruct q as [|[|[|?]]]; try discriminate Hc.
    match goal with |- context [gc_step ?a ?b ?p0 ?d] => set (g' := gc_step a b p0 d) end.
    assert (d = 1) by (destruct d as [|[| |]|]; try discriminate Hc; reflexivity). subst d.
    destruct (ret0 _ _ _ _ _ _ g' E ltac:(eauto)) as (L & F & W); auto; try nocs.
    { intros um0 p0 k0 _ Hv. subst g'. cbn. unfold COND.
      destruct (1 <=? word m 2) eqn:Ev; [cbn; rewrite ?upd_same; auto|]. apply Z.leb_gt in Ev. lia. }
    split; [exact L|]. split; [eapply frameL_trans; [apply frameL_word|exact F]|].
    unfold cnt_def. rewrite W. subst g'. cbn. unfold COND. rewrite ?upd_same.
    destruct (1 <=? word m 2); cbn; lia.
  - (* CB2 *)
    destruct q as [|[|[|?]]]; try discriminate Hc.
    match goal with |- context [gc_step ?a ?b ?p0 ?d] => set (g' := gc_step a b p0 d) end.
    assert (v = 0) by (destruct v; try discriminate Hc; reflexivity). subst v.
    destruct (ret0 _ _ _ _ _ _ g' E ltac:(eauto)) as (L & F & W); auto; try nocs.
    { intros um0 p0 k0 _. subst g'. cbn. rewrite ?upd_same. auto. }
    split; [exact L|]. split; [eapply frameL_trans; [apply frameL_word|exact F]|].
    unfold cnt_def. rewrite W. subst g'. cbn. unfold COND. rewrite ?upd_same. lia.
  - (* CS3 *)
    destruct q as [|[|[|?]]]; try discriminate Hc.
    match goal with |- context [gc_step ?a ?b ?p0 ?d] => set (g' := gc_step a b p0 d) end.
    assert (d = 1) by (destruct d as [|[| |]|]; try discriminate Hc; reflexivity). subst d.
    destruct (ret0 _ _ _ _ _ _ g' E ltac:(eauto)) as (L & F & W); auto; try nocs.
    split; [exact L|]. split; [eapply frameL_trans; [apply frameL_word|exact F]|].
    unfold cnt_def. rewrite W. subst g'. cbn. unfold COND. rewrite ?upd_same. lia.
  - (* CUnl *)
    assert (G : gc_step m t (PRun (CUnl p k r0) (KAcc (ACWrite i v))) c = c) by reflexivity. rewrite G.
    destruct (ret0 _ _ _ _ _ _ c E ltac:(eauto)) as (L & F & W); auto; try nocs.
    split; [exact L|]. split; [eapply frameL_trans; [apply frameL_cell|exact F]|].
    unfold cnt_def. rewrite W. reflexivity.
  - (* CRb *)
    assert (G : gc_step m t (PRun (CRb p k r0) (KAcc (ACRead i))) c = c) by reflexivity. rewrite G.
    destruct (ret0 _ _ _ _ _ _ c E ltac:(eauto)) as (L & F & W); auto; try nocs.
    split; [exact L|]. split; [exact F|]. unfold cnt_def. rewrite W. reflexivity.
  - (* CRd *)
    assert (G : gc_step m t (PRun (CRd p k) (KAcc (AWLoad q mo))) c = c) by reflexivity. rewrite G.
    destruct (ret0 _ _ _ _ _ _ c E ltac:(eauto)) as (L & F & W); auto; try nocs.
    split; [exact L|]. split; [exact F|]. unfold cnt_def. rewrite W. reflexivity.
Qed.

Lemma lock_client c0 q lp : cphase_okb c0 (KLock q lp) = true ->
  plain_client c0 = true /\ q <> COND /\ forall lp', cphase_okb c0 (KLock q lp') = true.
Proof.
  destruct c0; cbn; try discriminate; destruct q as [|[|?]]; try discriminate; intros H;
    repeat split; auto; discriminate.
Qed.

Lemma pstep0_lock m c t c0 q lp m' p' :
  linv0 m c t (PRun c0 (KLock q lp)) -> pstep m t (PRun c0 (KLock q lp)) = (m', p') ->
  step0_goal m c t (PRun c0 (KLock q lp)) m' p'.
Proof.
  intros [[Hc Hk] B H1 H2 H3 H4 H5] E.
  destruct (lock_client _ _ _ Hc) as (P & Hq & Hc').
  unfold step0_goal. destruct lp as [|wp].
  - assert (G : gc_step m t (PRun c0 (KLock q LPSub)) c = c).
    { apply gc_nosched; [reflexivity|]. intros c1 kp1 Q. inversion Q; subst; auto. }
    rewrite G. cbn [pstep] in E. cbn in B. unfold pstate in B. cbn in B.
    assert (W0 : word (set_word m q (word m q - 1)) COND = word m COND).
    { cbn. now rewrite upd_other by auto. }
    destruct (word m q - 1 =? 0).
    + destruct (ret0 _ _ _ _ _ _ c E ltac:(eauto)) as (L & F & W); auto.
      { intros um p k ->. discriminate P. } { intros um p k ->. discriminate P. }
      split; [exact L|]. split; [eapply frameL_trans; [apply frameL_word|exact F]|].
      unfold cnt_def. rewrite W, W0. reflexivity.
    + inversion E; subst. split; [|split; [apply frameL_word|unfold cnt_def; now rewrite W0]].
      constructor; auto. split; auto.
  - assert (G : gc_step m t (PRun c0 (KLock q (LPWait wp))) c = c) by (eapply gc_wait; eauto).
    rewrite G. cbn [pstep] in E. cbn in Hk. unfold pstate in B. cbn in B.
    destruct (wait_step m t q wp) as [m1 r] eqn:Ws.
    destruct (wait_step0 _ _ _ _ _ _ Ws H1 H2 H3 H4 Hk B) as (F & S & R).
    destruct r as [wp'| |]; [| |destruct R].
    + inversion E; subst. split; [|split; [apply frameT_L; exact F|unfold cnt_def; now rewrite (fr_word _ _ _ F)]].
      destruct R as (R1 & R2 & R3). constructor; auto.
      * split; auto.
      * now rewrite (fr_sched _ _ _ F).
      * now rewrite (fr_mpmc _ _ _ F).
      * now rewrite (fr_wait _ _ _ F).
    + destruct (ret0 _ _ _ _ _ _ c E ltac:(eauto)) as (L & F2 & W); auto.
      { now rewrite (fr_sched _ _ _ F). } { now rewrite (fr_mpmc _ _ _ F). } { now rewrite (fr_wait _ _ _ F). }
      { intros um p k ->. discriminate P. } { intros um p k ->. discriminate P. }
      split; [exact L|]. split; [eapply frameL_trans; [apply frameT_L; exact F|exact F2]|].
      unfold cnt_def. rewrite W, (fr_word _ _ _ F). reflexivity.
Qed.

Lemma pstep0_wait m c t c0 q wp m' p' :
  linv0 m c t (PRun c0 (KWait q wp)) -> pstep m t (PRun c0 (KWait q wp)) = (m', p') ->
  step0_goal m c t (PRun c0 (KWait q wp)) m' p'.
Proof.
  intros [[Hc Hk] B H1 H2 H3 H4 H5] E.
  assert (P : plain_client c0 = true) by (destruct c0; try discriminate Hc; reflexivity).
  unfold step0_goal.
  assert (G : gc_step m t (PRun c0 (KWait q wp)) c = c) by (eapply gc_wait; eauto).
  rewrite G. cbn [pstep] in E. cbn in Hk. unfold pstate in B. cbn in B.
  destruct (wait_step m t q wp) as [m1 r] eqn:Ws.
  destruct (wait_step0 _ _ _ _ _ _ Ws H1 H2 H3 H4 Hk B) as (F & S & R).
  destruct r as [wp'| |]; [| |destruct R].
  - inversion E; subst. split; [|split; [apply frameT_L; exact F|unfold cnt_def; now rewrite (fr_word _ _ _ F)]].
    destruct R as (R1 & R2 & R3). constructor; auto.
    + split; auto.
    + now rewrite (fr_sched _ _ _ F).
    + now rewrite (fr_mpmc _ _ _ F).
    + now rewrite (fr_wait _ _ _ F).
  - destruct (ret0 _ _ _ _ _ _ c E ltac:(eauto)) as (L & F2 & W); auto.
    { now rewrite (fr_sched _ _ _ F). } { now rewrite (fr_mpmc _ _ _ F). } { now rewrite (fr_wait _ _ _ F). }
    { intros um p k ->. discriminate P. } { intros um p k ->. discriminate P. }
    split; [exact L|]. split; [eapply frameL_trans; [apply frameT_L; exact F|exact F2]|].
    unfold cnt_def. rewrite W, (fr_word _ _ _ F). reflexivity.
Qed.

Lemma unlock_client c0 q up : cphase_okb c0 (KUnlock q up) = true ->
  plain_client c0 = true /\ q <> COND /\ forall up', cphase_okb c0 (KUnlock q up') = true.
Proof.
  destruct c0; cbn; try discriminate; destruct q as [|[|?]]; try discriminate; intros H;
    repeat split; auto; discriminate.
Qed.

Lemma st12_or s s' : st12 s -> s' = s \/ s' = ST_READY -> st12 s'.
Proof. intros H [->| ->]; auto. right; reflexivity. Qed.

Lemma pstep0_unlock m c t c0 q up m' p' :
  linv0 m c t (PRun c0 (KUnlock q up)) -> pstep m t (PRun c0 (KUnlock q up)) = (m', p') ->
  step0_goal m c t (PRun c0 (KUnlock q up)) m' p'.
Proof.
  intros [[Hc Hk] B H1 H2 H3 H4 H5] E.
  destruct (unlock_client _ _ _ Hc) as (P & Hq & Hc').
  assert (PP : forall um p k, c0 <> CS2 um p k /\ c0 <> CB2 um p k).
  { intros; split; intros ->; discriminate P. }
  unfold pstate in B. cbn in B.
  unfold step0_goal. destruct up as [|wc kp|sp].
  - assert (G : gc_step m t (PRun c0 (KUnlock q UPAdd)) c = c).
    { apply gc_nosched; [reflexivity|]. intros c1 kp1 Q. inversion Q; subst; auto. }
    rewrite G. cbn [pstep] in E.
    assert (W0 : word (set_word m q (word m q + 1)) COND = word m COND).
    { cbn. now rewrite upd_other by auto. }
    destruct (word m q + 1 =? 1).
    + destruct (ret0 _ _ _ _ _ _ c E ltac:(eauto)) as (L & F & W); auto.
      { intros um p k Q. destruct (PP um p k); contradiction. } { intros um p k Q. destruct (PP um p k); contradiction. }
      split; [exact L|]. split; [eapply frameL_trans; [apply frameL_word|exact F]|].
      unfold cnt_def. rewrite W, W0. reflexivity.
    + inversion E; subst. split; [|split; [apply frameL_word|unfold cnt_def; now rewrite W0]].
      constructor; auto. split; auto.
  - cbn [pstep] in E. cbn in Hk.
    destruct (wake_step m t q 1 wc kp false) as [m1 r] eqn:Ws.
    destruct (wake_step0 _ _ _ _ _ _ _ _ _ Ws (fun _ => B) Hk) as (F & R).
    destruct (frame0_own t _ _ F) as [O1 O2].
    assert (G : gc_step m t (PRun c0 (KUnlock q (UPWake wc kp))) c = c).
    { destruct (sched_now m (PRun c0 (KUnlock q (UPWake wc kp)))) as [[q1 f]|] eqn:S.
      - eapply gc_sched_mutex; eauto.
        + unfold sched_now in S. cbn in S. destruct (sched_of m kp); inversion S; subst; auto.
        + intros c1 kp1 Q. inversion Q; subst; auto.
      - apply gc_nosched; auto. intros c1 kp1 Q. inversion Q; subst; auto. }
    rewrite G. pose proof (frame0_T t _ _ F) as FT.
    assert (B' : st12 (fstate m1 t)) by (eapply st12_or; eauto).
    destruct r as [wc' kp'|v|]; [| |destruct R]; inversion E; subst.
    + split; [|split; [apply frameT_L; exact FT|unfold cnt_def; now rewrite (fr_word _ _ _ FT)]].
      constructor; auto.
      * split; auto.
      * now rewrite (fr_sched _ _ _ FT).
      * now rewrite (fr_mpmc _ _ _ FT).
      * now rewrite (fr_wait _ _ _ FT).
      * intros q0. rewrite O2. auto.
    + split; [|split; [apply frameT_L; exact FT|unfold cnt_def; now rewrite (fr_word _ _ _ FT)]].
      constructor; auto.
      * split; auto.
      * now rewrite (fr_sched _ _ _ FT).
      * now rewrite (fr_mpmc _ _ _ FT).
      * now rewrite (fr_wait _ _ _ FT).
      * intros q0. rewrite O2. auto.
  - assert (G : gc_step m t (PRun c0 (KUnlock q (UPYield sp))) c = c).
    { apply gc_nosched; [reflexivity|]. intros c1 kp1 Q. inversion Q; subst; auto. }
    rewrite G. destruct sp as [|st]; cbn [pstep] in E.
    + inversion E; subst. split; [|split; [apply frameL_refl|reflexivity]].
      constructor; auto. split; auto.
    + cbn in Hk. rewrite (st12_nw _ Hk) in E.
      destruct (ret0 _ _ _ _ _ _ c E ltac:(eauto)) as (L & F & W); auto.
      { intros um p k Q. destruct (PP um p k); contradiction. } { intros um p k Q. destruct (PP um p k); contradiction. }
      split; [exact L|]. split; [exact F|]. unfold cnt_def. rewrite W. reflexivity.
Qed.

Lemma pstep0_wake m c t c0 q cnt wc kp m' p' :
  linv0 m c t (PRun c0 (KWake q cnt wc kp)) -> pstep m t (PRun c0 (KWake q cnt wc kp)) = (m', p') ->
  step0_goal m c t (PRun c0 (KWake q cnt wc kp)) m' p'.
Proof.
  intros [[Hc Hk] B H1 H2 H3 H4 H5] E.
  destruct c0; try discriminate Hc. destruct q as [|[|[|?]]]; try discriminate Hc.
  unfold pstate in B. cbn in B. cbn in Hk. cbn in H5. destruct H5 as [Hcnt Hwc].
  unfold step0_goal. cbn [pstep] in E.
  destruct (wake_step m t 2 cnt wc kp false) as [m1 r] eqn:Ws.
  destruct (wake_step0 _ _ _ _ _ _ _ _ _ Ws (fun _ => B) Hk) as (F & R).
  destruct (frame0_own t _ _ F) as [O1 O2].
  pose proof (frame0_T t _ _ F) as FT.
  assert (B' : st12 (fstate m1 t)) by (eapply st12_or; eauto).
  assert (NJ : r <> WJunk) by (intros ->; exact R).
  pose proof (wake_step_wc _ _ _ _ _ _ _ _ _ Ws NJ) as WC.
  set (g' := gc_step m t (PRun (CS3 um p k) (KWake 2 cnt wc kp)) c).
  assert (G : g_reg g' = g_reg c /\ g_claimed g' = g_claimed c /\ g_trans g' = g_trans c /\
              myclaim g' t = myclaim c t /\
              myrel g' t = match sched_of m kp with Some _ => myrel c t + 1 | None => myrel c t end).
  { subst g'. unfold gc_step, sched_now. cbn [wake_ctx].
    destruct (sched_of m kp); cbn; rewrite ?upd_same; auto. }
  destruct G as (G1 & G2 & G3 & G4 & G5).
  destruct r as [wc' kp'|v|]; [| |destruct R].
  - inversion E; subst. cbn in WC.
    split; [|split; [apply frameT_L; exact FT|unfold cnt_def; rewrite (fr_word _ _ _ FT), G1, G2, G3; reflexivity]].
    constructor; auto.
    + split; auto.
    + now rewrite (fr_sched _ _ _ FT).
    + now rewrite (fr_mpmc _ _ _ FT).
    + now rewrite (fr_wait _ _ _ FT).
    + intros q0. rewrite O2. auto.
    + rewrite G4, G5, WC. destruct (sched_of m kp); auto.
  - destruct (ret0 _ _ _ _ _ _ g' E ltac:(eauto)) as (L & F2 & W); auto.
    { now rewrite (fr_sched _ _ _ FT). } { now rewrite (fr_mpmc _ _ _ FT). } { now rewrite (fr_wait _ _ _ FT). }
    { intros q0. rewrite O2. auto. } { nocs. } { nocs. }
    split; [exact L|]. split; [eapply frameL_trans; [apply frameT_L; exact FT|exact F2]|].
    unfold cnt_def. rewrite W, (fr_word _ _ _ FT), G1, G2, G3. reflexivity.
Qed.

Lemma pstep0 m c t p m' p' :
  linv0 m c t p -> pstep m t p = (m', p') -> step0_goal m c t p m' p'.
Proof.
  intros L E. destruct p as [| s | c0 kp].
  - cbn in E. inversion E; subst. split; [|split; [apply frameL_refl|reflexivity]].
    destruct L. constructor; auto.
  - destruct L as [[] _ _ _ _ _ _].
  - destruct kp.
    + eapply pstep0_start; eauto.
    + eapply pstep0_acc; eauto.
    + eapply pstep0_lock; eauto.
    + eapply pstep0_wait; eauto.
    + eapply pstep0_unlock; eauto.
    + eapply pstep0_wake; eauto.
Qed.

Lemma sim_step x t : sim x -> sim (lstep x t).
Proof.
  intros S u. destruct (step_mem_ph x t S) as (_ & A & B & _). cbn [lstep base ph].
  destruct (Nat.eq_dec u t) as [->|Hu].
  - now rewrite upd_same.
  - rewrite upd_other by auto. rewrite B by auto. apply S.
Qed.

Lemma inv0_init progs : Inv0 (iinit progs).
Proof.
  constructor.
  - intros t. reflexivity.
  - intros t. constructor; cbn; auto.
    + right; reflexivity.
    + intros q Q. discriminate Q.
  - reflexivity.
Qed.

Lemma inv0_step x t : Inv0 x -> Inv0 (lstep x t).
Proof.
  intros [S L C].
  pose proof (lstep_mem x t S) as M.
  destruct (pstep (mem (base x)) t (ph x t)) as [m' p'] eqn:E.
  destruct (pstep0 _ _ _ _ _ _ (L t) E) as (Lt & F & Cn). cbn [fst] in M.
  constructor.
  - apply sim_step; exact S.
  - intros u. rewrite M. cbn [lstep ph cg]. rewrite E. cbn [snd].
    destruct (Nat.eq_dec u t) as [->|Hu].
    + rewrite upd_same. exact Lt.
    + rewrite upd_other by auto.
      destruct (gc_other (mem (base x)) t (ph x t) (cg x) u Hu) as [G1 G2].
      eapply linv0_other; eauto.
  - rewrite M. cbn [lstep cg]. unfold cnt_def in Cn. lia.
Qed.

Lemma inv0_reach progs x : ireach progs x -> Inv0 x.
Proof. induction 1; [apply inv0_init|apply inv0_step; auto]. Qed.
