(* C05 — condition variable (src/fiber_cond.c on fiber_mutex.c / fiber_manager.c):
   atomic unlock-and-wait, no lost signal, broadcast wakes all, no spurious
   release, wait returns locked.  Statements over every reachable state of the
   machine of coq/Cond.v (client of the T1 kernel model coq/T1K.v) instrumented
   with ghost counters (coq/CondProofs.v): any number of waiters, signallers,
   broadcasters, any programs, any schedule.

   Ghosts (cg x): g_reg = fetch_add's of waiters, g_claimed = entries claimed
   by signals (1 each when new_val >= 0) and broadcasts (original each),
   g_rel = fibers scheduled from the cond list, g_trans = signals between a
   fetch_sub that found nobody and the fetch_add back, gwl = registered and not
   yet released waiters, myclaim/myrel t = claimed / released by the current
   signal or broadcast of fiber t.  (ph x t) = where fiber t is (CondPhase.v);
   every reachable state of the executable machine is the erasure of a
   reachable instrumented state ([reachable_ireach]) and its stacks are the
   stacks of the phases ([stack_phase]).
   Cut: given C01 and C02 (T1 machine of DESIGN.md 3.4). *)
From Coq Require Import List ZArith Lia Bool Arith.
From LF Require Import Conc T1K Cond CondPhase CondProofs CondInv CondSteps CondThm.
Import ListNotations.
Local Open Scope Z_scope.

(* waiter_count = registered - claimed, the transient -1 of a signal that found
   nobody accounted for: g_trans is 0 or 1, and it is 1 exactly while the
   holder of the internal mutex is at the compensating fetch_add *)
Theorem cond_count_inv : forall progs x,
  ireach progs x ->
  word (mem (base x)) COND = g_reg (cg x) - g_claimed (cg x) - g_trans (cg x) /\
  (g_trans (cg x) = 0 \/ g_trans (cg x) = 1) /\
  (forall t, holds1 (ph x t) = true ->
     g_trans (cg x) = (if v_trans (view_of (ph x t)) then 1 else 0)) /\
  ((forall t, holds1 (ph x t) = false) -> g_trans (cg x) = 0).
Proof. intros progs x R. exact (count_of_inv progs x R). Qed.
Print Assumptions cond_count_inv.

(* no waiter is released without a claim: released <= claimed; the difference
   is exactly what the (unique) wake in progress on the cond list still owes:
   one unit for a signal, [original - released so far] for a broadcast *)
Theorem cond_no_spurious : forall progs x,
  ireach progs x ->
  g_rel (cg x) <= g_claimed (cg x) /\
  (forall t c cnt wc kp, ph x t = PRun c (KWake COND cnt wc kp) ->
     g_claimed (cg x) - g_rel (cg x) = cnt - wc /\ 0 <= wc < cnt /\
     cnt = myclaim (cg x) t /\ wc = myrel (cg x) t) /\
  ((forall t c cnt wc kp, ph x t <> PRun c (KWake COND cnt wc kp)) -> g_claimed (cg x) = g_rel (cg x)).
Proof. intros progs x R. exact (nospurious_of_inv progs x R). Qed.
Print Assumptions cond_no_spurious.

(* at most one fiber at a time pops from a list (the discipline the MPSC list
   needs): two fibers inside fiber_manager_wake_from_mpsc_queue on the same
   list are the same fiber; for the cond's waiter list the consumer holds the
   internal mutex *)
Theorem cond_single_consumer : forall progs x t u q kp kp',
  ireach progs x ->
  wake_ctx (ph x t) = Some (q, kp) -> wake_ctx (ph x u) = Some (q, kp') ->
  t = u /\ (q = COND -> holds1 (ph x t) = true).
Proof. intros progs x t u q kp kp'. exact (single_consumer_of_inv progs x t u q kp kp'). Qed.
Print Assumptions cond_single_consumer.

(* a signal whose fetch_sub sees >= 1 registered waiter claims exactly one
   ([claim_signal]) and a broadcast claims the count it exchanged
   ([claim_bcast]); while the call is waking, it has released wc < claimed
   ([cond_no_spurious]); once the wake is over (the call is unlocking the
   internal mutex, before it returns) it has released exactly what it claimed;
   a signal that found nobody claimed and released nothing *)
Theorem cond_signal_not_lost : forall progs x,
  ireach progs x ->
  (forall t um p k up, ph x t = PRun (CS4 um p k) (KUnlock IMUTEX up) ->
     myrel (cg x) t = myclaim (cg x) t) /\
  (forall t um p k a, ph x t = PRun (CS3 um p k) (KAcc a) ->
     myclaim (cg x) t = 0 /\ myrel (cg x) t = 0) /\
  (forall t um p k a, ph x t = PRun (CS2 um p k) (KAcc a) ->
     myclaim (cg (lstep x t)) t = (if 1 <=? word (mem (base x)) COND then 1 else 0) /\
     myrel (cg (lstep x t)) t = 0) /\
  (forall t um p k a, ph x t = PRun (CB2 um p k) (KAcc a) ->
     myclaim (cg (lstep x t)) t = word (mem (base x)) COND /\ myrel (cg (lstep x t)) t = 0 /\
     word (mem (base x)) COND = Z.of_nat (length (gwl (cg x)))).
Proof. intros progs x. exact (signal_not_lost_of_inv progs x). Qed.
Print Assumptions cond_signal_not_lost.

(* unlock-and-wait is atomic with respect to signallers: the registered and not
   yet released waiters (gwl) are exactly the fibers inside the wait of
   cond_wait that were not granted yet; when the user mutex is released on
   behalf of a waiter (the fetch_add of its maintenance) the waiter still owns
   the mutex and is registered (or was already released by a signal); a
   signal's fetch_sub / a broadcast's exchange, which is serialised by the
   internal mutex, sees waiter_count = number of registered unreleased
   waiters, hence >= 1 if that waiter is still waiting *)
Theorem cond_atomic_unlock_wait : forall progs x,
  ireach progs x ->
  (forall t, In t (gwl (cg x)) <-> (v_cw3 (view_of (ph x t)) = true /\ got (kg x) t = false)) /\
  NoDup (gwl (cg x)) /\ Z.of_nat (length (gwl (cg x))) = g_reg (cg x) - g_rel (cg x) /\
  (forall t p k, ph x t = PRun (CW3 p k) (KWait COND (WPYield (YPMaint UMUTEX IPAdd))) ->
     tok (kg x) UMUTEX = THeld t /\ (In t (gwl (cg x)) \/ got (kg x) t = true)) /\
  (forall t u um p k a,
     (ph x t = PRun (CS2 um p k) (KAcc a) \/ ph x t = PRun (CB2 um p k) (KAcc a)) ->
     In u (gwl (cg x)) -> 1 <= word (mem (base x)) COND).
Proof. intros progs x. exact (atomic_unlock_wait_of_inv progs x). Qed.
Print Assumptions cond_atomic_unlock_wait.

(* cond_wait returns only with the user mutex re-acquired: whoever is between
   the return of a lock of the user mutex (in particular the one inside
   cond_wait, after which the harness writes the owner cell under CUnl) and
   its unlock is the unique owner *)
Theorem cond_wait_returns_locked : forall progs x t,
  ireach progs x ->
  (forall p k r0 a, ph x t = PRun (CUnl p k r0) (KAcc a) -> tok (kg x) UMUTEX = THeld t) /\
  (holds0 (ph x t) = true -> tok (kg x) UMUTEX = THeld t) /\
  (forall u, holds0 (ph x t) = true -> holds0 (ph x u) = true -> t = u) /\
  (forall u, holds1 (ph x t) = true -> holds1 (ph x u) = true -> t = u).
Proof. intros progs x t. exact (wait_returns_locked_of_inv progs x t). Qed.
Print Assumptions cond_wait_returns_locked.

(* ---- the instrumented machine erases to the executable one ---- *)
Theorem cond_erasure : forall progs s,
  reachable M (init progs) s ->
  exists x, ireach progs x /\ base x = s /\ forall t, stk s t = stack_of (ph x t).
Proof. intros progs s. exact (erasure_of_inv progs s). Qed.
Print Assumptions cond_erasure.

(* ---- non-vacuity: the hypotheses are met by concrete reachable states ---- *)
Definition ex_progs := [[OWait]; [OSignal]].
Definition ex_state n m := irun (iinit ex_progs) (repeat 0%nat n ++ repeat 1%nat m).

(* the waiter is about to release the user mutex in its maintenance: registered *)
Example ex_unlock_registered :
  let x := ex_state 16 0 in
  ireach ex_progs x /\ ph x 0%nat = PRun (CW3 [] 1) (KWait COND (WPYield (YPMaint UMUTEX IPAdd))) /\
  gwl (cg x) = [0%nat] /\ word (mem (base x)) COND = 1.
Proof. split; [apply ireach_irun; constructor|vm_compute; auto]. Qed.

(* the signaller has claimed the sleeping waiter and is popping the cond list *)
Example ex_claimed :
  let x := ex_state 25 3 in
  ireach ex_progs x /\ ph x 1%nat = PRun (CS3 false [] 1) (KWake COND 1 0 KPHead) /\
  g_claimed (cg x) = 1 /\ g_rel (cg x) = 0 /\ wake_ctx (ph x 1%nat) = Some (COND, KPHead).
Proof. split; [apply ireach_irun; constructor|vm_compute; auto]. Qed.

(* ... and has released exactly one when it starts unlocking the internal mutex *)
Example ex_released :
  let x := ex_state 25 11 in
  ireach ex_progs x /\ ph x 1%nat = PRun (CS4 false [] 1) (KUnlock IMUTEX UPAdd) /\
  g_rel (cg x) = 1 /\ myclaim (cg x) 1%nat = 1 /\ myrel (cg x) 1%nat = 1 /\ gwl (cg x) = [].
Proof. split; [apply ireach_irun; constructor|vm_compute; auto]. Qed.

(* the signaller at its fetch_sub while the waiter is registered *)
Example ex_fetch_sub :
  let x := ex_state 25 2 in
  ireach ex_progs x /\ (exists a, ph x 1%nat = PRun (CS2 false [] 1) (KAcc a)) /\ In 0%nat (gwl (cg x)).
Proof. split; [apply ireach_irun; constructor|vm_compute; split; [eexists; reflexivity|auto]]. Qed.

(* a signal that finds nobody: the transient -1 *)
Example ex_transient :
  let x := irun (iinit [[OSignal]]) [0; 0; 0]%nat in
  ireach [[OSignal]] x /\ g_trans (cg x) = 1 /\ word (mem (base x)) COND = -1 /\
  (exists a, ph x 0%nat = PRun (CS3 false [] 1) (KAcc a)).
Proof. split; [apply ireach_irun; constructor|vm_compute; repeat split; auto; eexists; reflexivity]. Qed.

(* the waiter returned from cond_wait holding the user mutex *)
Example ex_wait_returned :
  let x := irun (iinit ex_progs) (repeat 0%nat 25 ++ repeat 1%nat 14 ++ repeat 0%nat 5) in
  ireach ex_progs x /\ (exists a, ph x 0%nat = PRun (CUnl [] 1 1) (KAcc a)) /\ tok (kg x) UMUTEX = THeld 0%nat.
Proof. split; [apply ireach_irun; constructor|vm_compute; split; [eexists; reflexivity|auto]]. Qed.
