(* Model of src/work_stealing_deque.c (C02, deque half): the Chase-Lev
   work-stealing deque, one step per registered shared access in the order of
   the -O0 code.
   locs: 0 = top, 1 = bottom, 2 = underlying_array, 1000*k + j = slot j of the
   k-th circular array (k = 1 is the initial array, every growth allocates
   the next k; arrays are never freed, old versions stay readable).  The array
   header (log_size, size, size_minus_one, prev) is immutable after creation
   and is not a shared location: header reads are not steps.
   top/bottom are int64 in C; here they are Z (stated guard: they do not reach
   2^63).  i & size_minus_one on a two's complement int64 is i mod 2^lg, also
   for negative i.  A never-written slot reads 0 (zeroed arena in the harness).
   Return codes: push 1; pop/steal the token, -1 = WSD_EMPTY, -2 = WSD_ABORT. *)
From Coq Require Import List ZArith Lia Bool Arith.
From LF Require Import Conc.
Import ListNotations.

Inductive op := OPush (v : Z) | OPop | OSteal.

Inductive pcT :=
  (* push_bottom *)
  | UBot | UTop | UArr | UGRd | UGWr | UGSt | UPut | USt
  (* pop_bottom *)
  | OBot | OArr | OSt | OTop | OEmp | OGetN | OGet1 | OCas | OFixW | OFixL
  (* steal *)
  | TTop | TBot | TArr | TGet | TCas
  | Fin.

(* locals of the running call: b, t = values read from bottom/top; a = array
   in use; na = array being filled by a growth; i = growth loop counter;
   arg = token being pushed; rv = element read *)
Record tst := { pc : pcT; b : Z; t : Z; a : nat; na : nat; i : Z; arg : Z; rv : Z;
                prog : list op; opi : nat }.

Record arr := { lg : nat; dat : Z -> Z }.

Record st := { top : Z; bot : Z; cur : nat; arrs : nat -> arr; narr : nat;
               thr : nat -> tst; nthr : nat }.

Local Open Scope Z_scope.

Definition asize (A : arr) : Z := 2 ^ Z.of_nat (lg A).
Definition slot (A : arr) (j : Z) : Z := j mod asize A.
Definition get (A : arr) (j : Z) : Z := dat A (slot A j).
Definition updZ (f : Z -> Z) (k v : Z) : Z -> Z := fun j => if j =? k then v else f j.
Definition put (A : arr) (j v : Z) : arr := {| lg := lg A; dat := updZ (dat A) (slot A j) v |}.
Definition fresh (l : nat) : arr := {| lg := l; dat := fun _ => 0 |}.

Definition ev (u : nat) (loc kind v : Z) : list Z := [Z.of_nat u; loc; kind; v].
(* return event of the current call: loc = index of the call in the program *)
Definition ret (u : nat) (T : tst) (v : Z) : list Z := [Z.of_nat u; Z.of_nat (opi T); 909; v].
Definition eloc (k : nat) (A : arr) (j : Z) : Z := 1000 * Z.of_nat k + slot A j.

Local Close Scope Z_scope.

Definition mk (p : pcT) (b' t' : Z) (a' na' : nat) (i' arg' rv' : Z) (pr : list op) (o : nat) : tst :=
  {| pc := p; b := b'; t := t'; a := a'; na := na'; i := i'; arg := arg'; rv := rv'; prog := pr; opi := o |}.

(* begin the next call of the program (the C thread runs on to the first
   access of its next call inside the same grant) *)
Definition next_op (T : tst) : tst :=
  match prog T with
  | [] => mk Fin 0 0 0 0 0 0 0 [] (opi T)
  | OPush v :: r => mk UBot 0 0 0 0 0 v 0 r (S (opi T))
  | OPop :: r => mk OBot 0 0 0 0 0 0 0 r (S (opi T))
  | OSteal :: r => mk TTop 0 0 0 0 0 0 0 r (S (opi T))
  end.

Definition with_pc (T : tst) (p : pcT) : tst :=
  mk p (b T) (t T) (a T) (na T) (i T) (arg T) (rv T) (prog T) (opi T).

Definition set_thr (s : st) (u : nat) (x : tst) : st :=
  {| top := top s; bot := bot s; cur := cur s; arrs := arrs s; narr := narr s;
     thr := upd (thr s) u x; nthr := nthr s |}.

Local Open Scope Z_scope.

Definition step (s : st) (u : nat) : st * list Z :=
  let T := thr s u in
  match pc T with
  | Fin => (s, [])
  (* ---------------- push_bottom ---------------- *)
  | UBot => (set_thr s u (mk UTop (bot s) (t T) (a T) (na T) (i T) (arg T) (rv T) (prog T) (opi T)),
             ev u 1 22 (bot s))
  | UTop => (set_thr s u (mk UArr (b T) (top s) (a T) (na T) (i T) (arg T) (rv T) (prog T) (opi T)),
             ev u 0 22 (top s))
  | UArr =>
      let A := arrs s (cur s) in
      let e := ev u 2 25 (Z.of_nat (cur s)) in
      if b T - t T >=? asize A - 1
      then (* grow: the new array is allocated now (malloc is not a shared access) *)
        let n := S (narr s) in
        ({| top := top s; bot := bot s; cur := cur s;
            arrs := upd (arrs s) n (fresh (S (lg A))); narr := n;
            thr := upd (thr s) u (mk (if t T <? b T then UGRd else UGSt)
                                     (b T) (t T) (cur s) n (t T) (arg T) (rv T) (prog T) (opi T));
            nthr := nthr s |}, e)
      else (set_thr s u (mk UPut (b T) (t T) (cur s) (na T) (i T) (arg T) (rv T) (prog T) (opi T)), e)
  | UGRd =>
      let A := arrs s (a T) in
      (set_thr s u (mk UGWr (b T) (t T) (a T) (na T) (i T) (arg T) (get A (i T)) (prog T) (opi T)),
       ev u (eloc (a T) A (i T)) 9 (get A (i T)))
  | UGWr =>
      let N := arrs s (na T) in
      ({| top := top s; bot := bot s; cur := cur s;
          arrs := upd (arrs s) (na T) (put N (i T) (rv T)); narr := narr s;
          thr := upd (thr s) u (mk (if i T + 1 <? b T then UGRd else UGSt)
                                   (b T) (t T) (a T) (na T) (i T + 1) (arg T) (rv T) (prog T) (opi T));
          nthr := nthr s |},
       ev u (eloc (na T) N (i T)) 19 (rv T))
  | UGSt =>
      ({| top := top s; bot := bot s; cur := na T; arrs := arrs s; narr := narr s;
          thr := upd (thr s) u (mk UPut (b T) (t T) (na T) (na T) (i T) (arg T) (rv T) (prog T) (opi T));
          nthr := nthr s |},
       ev u 2 35 (Z.of_nat (na T)))
  | UPut =>
      let A := arrs s (a T) in
      ({| top := top s; bot := bot s; cur := cur s;
          arrs := upd (arrs s) (a T) (put A (b T) (arg T)); narr := narr s;
          thr := upd (thr s) u (with_pc T USt); nthr := nthr s |},
       ev u (eloc (a T) A (b T)) 19 (arg T))
  | USt =>
      ({| top := top s; bot := b T + 1; cur := cur s; arrs := arrs s; narr := narr s;
          thr := upd (thr s) u (next_op T); nthr := nthr s |},
       ev u 1 33 (b T + 1) ++ ret u T 1)
  (* ---------------- pop_bottom ---------------- *)
  | OBot => (set_thr s u (mk OArr (bot s - 1) (t T) (a T) (na T) (i T) (arg T) (rv T) (prog T) (opi T)),
             ev u 1 22 (bot s))
  | OArr => (set_thr s u (mk OSt (b T) (t T) (cur s) (na T) (i T) (arg T) (rv T) (prog T) (opi T)),
             ev u 2 25 (Z.of_nat (cur s)))
  | OSt =>
      ({| top := top s; bot := b T; cur := cur s; arrs := arrs s; narr := narr s;
          thr := upd (thr s) u (with_pc T OTop); nthr := nthr s |},
       ev u 1 35 (b T))
  | OTop =>
      let p := if b T - top s <? 0 then OEmp else if 0 <? b T - top s then OGetN else OGet1 in
      (set_thr s u (mk p (b T) (top s) (a T) (na T) (i T) (arg T) (rv T) (prog T) (opi T)),
       ev u 0 25 (top s))
  | OEmp =>
      ({| top := top s; bot := t T; cur := cur s; arrs := arrs s; narr := narr s;
          thr := upd (thr s) u (next_op T); nthr := nthr s |},
       ev u 1 33 (t T) ++ ret u T (-1))
  | OGetN =>
      let A := arrs s (a T) in
      (set_thr s u (next_op T), ev u (eloc (a T) A (b T)) 9 (get A (b T)) ++ ret u T (get A (b T)))
  | OGet1 =>
      let A := arrs s (a T) in
      (set_thr s u (mk OCas (b T) (t T) (a T) (na T) (i T) (arg T) (get A (b T)) (prog T) (opi T)),
       ev u (eloc (a T) A (b T)) 9 (get A (b T)))
  | OCas =>
      if top s =? t T
      then ({| top := t T + 1; bot := bot s; cur := cur s; arrs := arrs s; narr := narr s;
               thr := upd (thr s) u (with_pc T OFixW); nthr := nthr s |},
            ev u 0 75 (t T + 1))
      else (set_thr s u (with_pc T OFixL), ev u 0 85 (top s))
  | OFixW =>
      ({| top := top s; bot := t T + 1; cur := cur s; arrs := arrs s; narr := narr s;
          thr := upd (thr s) u (next_op T); nthr := nthr s |},
       ev u 1 33 (t T + 1) ++ ret u T (rv T))
  | OFixL =>
      ({| top := top s; bot := t T + 1; cur := cur s; arrs := arrs s; narr := narr s;
          thr := upd (thr s) u (next_op T); nthr := nthr s |},
       ev u 1 33 (t T + 1) ++ ret u T (-2))
  (* ---------------- steal ---------------- *)
  | TTop => (set_thr s u (mk TBot (b T) (top s) (a T) (na T) (i T) (arg T) (rv T) (prog T) (opi T)),
             ev u 0 22 (top s))
  | TBot => (set_thr s u (mk TArr (bot s) (t T) (a T) (na T) (i T) (arg T) (rv T) (prog T) (opi T)),
             ev u 1 22 (bot s))
  | TArr =>
      let e := ev u 2 25 (Z.of_nat (cur s)) in
      if b T - t T <=? 0
      then (set_thr s u (next_op T), e ++ ret u T (-1))
      else (set_thr s u (mk TGet (b T) (t T) (cur s) (na T) (i T) (arg T) (rv T) (prog T) (opi T)), e)
  | TGet =>
      let A := arrs s (a T) in
      (set_thr s u (mk TCas (b T) (t T) (a T) (na T) (i T) (arg T) (get A (t T)) (prog T) (opi T)),
       ev u (eloc (a T) A (t T)) 9 (get A (t T)))
  | TCas =>
      if top s =? t T
      then ({| top := t T + 1; bot := bot s; cur := cur s; arrs := arrs s; narr := narr s;
               thr := upd (thr s) u (next_op T); nthr := nthr s |},
            ev u 0 75 (t T + 1) ++ ret u T (rv T))
      else (set_thr s u (next_op T), ev u 0 85 (top s) ++ ret u T (-2))
  end.

Local Close Scope Z_scope.

Definition status_of (s : st) (u : nat) : status :=
  if u <? nthr s then match pc (thr s u) with Fin => SDone | _ => SReady end else SDone.

Definition idle_thread (p : list op) : tst := next_op (mk Fin 0 0 0 0 0 0 0 p 0).

(* initial array (id 1) has 2^l slots, [start] = initial value of top = bottom *)
Definition init (l : nat) (start : Z) (progs : list (list op)) : st :=
  {| top := start; bot := start; cur := 1; arrs := fun _ => fresh l; narr := 1;
     thr := fun u => idle_thread (nth u progs []); nthr := length progs |}.

Definition M : machine :=
  {| mstate := st; mstep := step; mstatus := status_of; mthreads := nthr |}.

(* ---------- executable entry point for the correspondence run ---------- *)
Definition dec_op (p : Z * Z) : op :=
  match fst p with
  | 1%Z => OPush (snd p)
  | 2%Z => OPop
  | _ => OSteal
  end.

Definition run_case (l : list Z) : list Z :=
  match decode_case l with
  | Some c =>
      let k := Z.to_nat (nthZ (c_params c) 0) in
      let start := nthZ (c_params c) 1 in
      let dmax := Z.to_nat (nthZ (c_params c) 2) in
      run_all M (init k start (map (map dec_op) (c_progs c))) [] (c_sched c) dmax
  | None => [(-1)%Z]
  end.
