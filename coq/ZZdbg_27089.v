(* Proofs for C10 (fiber_yield is fair) and the scheduler-level conservation
   statement used by C02, over the model coq/Sched.v, for ONE kernel thread
   (nthr = 1), any program, any schedule, any length.

   Logical view of the two deques of scheduler 0:
     Fq s = dq s (sfrom s 0)        the batch being drained  (head = next pop)
     Sq s = dq s (3 - sfrom s 0)    the batch being filled   (head = last push)
   The deque ids of thread 0 are 1 and 2, so "3 - d" is "the other deque".
   The field store_to equals 3 - schedule_from except between the two writes
   of the swap in fiber_scheduler_next (pc PN5), where both fields point to the
   same deque; the invariant records that.  *)
From Coq Require Import List ZArith Lia Bool Arith.
From LF Require Import Conc Sched.
Import ListNotations.

(* ------------------------------------------------------------------ *)
(* multiplicity of a fiber in a list                                   *)
Fixpoint cnt (l : list nat) (f : nat) : nat :=
  match l with [] => 0 | y :: r => (if Nat.eqb y f then 1 else 0) + cnt r f end.

Lemma cnt_app l1 l2 f : cnt (l1 ++ l2) f = cnt l1 f + cnt l2 f.
Proof. induction l1; cbn; lia. Qed.

Lemma cnt_In l f : In f l <-> 1 <= cnt l f.
Proof.
  induction l as [|y r IH]; cbn. { split; [tauto|lia]. }
  destruct (Nat.eqb_spec y f); split; intros H; try lia; auto.
  - destruct H; [congruence|]. apply IH in H. lia.
  - right. apply IH. lia.
Qed.

Lemma cnt_notin l f : ~ In f l -> cnt l f = 0.
Proof. intros H. destruct (cnt l f) eqn:E; auto. exfalso. apply H, cnt_In. lia. Qed.

Lemma cnt_NoDup l : (forall f, cnt l f <= 1) -> NoDup l.
Proof.
  induction l as [|y r IH]; intros H; constructor.
  - intros Hin. apply cnt_In in Hin. specialize (H y). cbn in H. rewrite Nat.eqb_refl in H. lia.
  - apply IH. intros f. specialize (H f). cbn in H. lia.
Qed.

Lemma NoDup_range_length (l : list nat) N :
  NoDup l -> (forall f, In f l -> 1 <= f <= N) -> length l <= N.
Proof.
  intros ND H. rewrite <- (seq_length N 1). apply NoDup_incl_length; auto.
  intros f Hf. apply in_seq. specialize (H f Hf). lia.
Qed.

(* ------------------------------------------------------------------ *)
(* one kernel thread: load_balance has no remote queue                 *)
Lemma lb_iend_1 : lb_iend 0 1 = 2.
Proof. reflexivity. Qed.

Lemma lb_scan_1thread dqs lc ms rc :
  lb_scan (2 * 1 + 60) dqs 1 (2 * (0 + 1)) (lb_iend 0 1) lc ms rc = (dqs, None).
Proof. reflexivity. Qed.

Lemma lb_scan_1thread' fuel dqs i lc ms rc :
  2 <= i -> lb_scan fuel dqs 1 i (lb_iend 0 1) lc ms rc = (dqs, None).
Proof.
  intros H. destruct fuel; cbn [lb_scan]; auto.
  rewrite lb_iend_1. destruct (Nat.leb_spec 2 i); auto. lia.
Qed.

(* ------------------------------------------------------------------ *)
(* places                                                              *)
Definition T0 (s : st) : tst := thr s 0.
Definition Fq (s : st) : list nat := dq s (sfrom s 0).
Definition Sq (s : st) : list nat := dq s (3 - sfrom s 0).

Definition opt (c : nat) : list nat := match c with O => [] | S _ => [c] end.

(* fibers held by the kernel thread itself: the current fiber and the locals
   of the pc.  At PY4 nf ts and PSched f (KRequeue nf) the fiber ts / f is the
   current fiber (cur), so it is listed once. *)
Definition held (T : tst) : list nat :=
  match pc T with
  | PSched f (KRequeue nf) => nf :: opt (cur T)
  | PSched f _ => f :: opt (cur T)
  | PN8 _ x | PN9 _ x => x :: opt (cur T)
  | PY2 nf | PY3 nf | PY4 nf _ | PI1 nf => nf :: opt (cur T)
  | PL2 _ _ _ _ _ x => x :: opt (cur T)
  | _ => opt (cur T)
  end.

Definition places (s : st) : list nat := held (T0 s) ++ Fq s ++ Sq s.

(* per fiber: at most one place; queued => READY; RUNNING/READY => has a place;
   states are 0 (none) 1 RUNNING 2 READY 3 WAITING; ids in 1..N.
   h = held fibers, F / S = the two deques *)
Record fibp (N : nat) (fs : nat -> Z) (h F S : list nat) (f : nat) : Prop := {
  f_once : cnt h f + cnt F f + cnt S f <= 1;
  f_queued : 1 <= cnt F f + cnt S f -> fs f = 2%Z;
  f_placed : fs f = 1%Z \/ fs f = 2%Z -> 1 <= cnt h f + cnt F f + cnt S f;
  f_state : (0 <= fs f <= 3)%Z;
  f_range : fs f <> 0%Z -> 1 <= f <= N
}.
Definition fib_ok (N : nat) (s : st) (f : nat) : Prop :=
  fibp N (fstt s) (held (T0 s)) (Fq s) (Sq s) f.

Definition run (s : st) (c : nat) : Prop := c = 0 \/ fstt s c = 1%Z.

Definition kok (s : st) (c : nat) (k : kont) : Prop :=
  match k with
  | KYield stv => c <> 0 /\ fstt s c = stv /\ (stv = 1 \/ stv = 3)%Z
  | KIdle => c = 0
  | _ => False
  end.

Definition lok (N : nat) (s : st) (T : tst) : Prop :=
  let c := cur T in
  match pc T with
  | PSpawnR f => run s c /\ 1 <= f <= N
  | PSpawnW f => run s c /\ 1 <= f <= N /\ fstt s f = 0%Z
  | PSched f k =>
      fstt s f = 2%Z /\
      match k with
      | KSpawn _ | KWake _ => run s c
      | KRequeue nf => c = f /\ fstt s nf = 1%Z
      | _ => False
      end
  | PBlockW => c <> 0 /\ fstt s c = 1%Z
  | PYRead => c <> 0 /\ (fstt s c = 1 \/ fstt s c = 3)%Z
  | PN1 k | PN6 k | PN7 k => kok s c k
  | PN2 k => kok s c k /\ Fq s = []
  | PN3 k tmp => kok s c k /\ Fq s = [] /\ tmp = sfrom s 0
  | PN4 k tmp sv => kok s c k /\ Fq s = [] /\ tmp = sfrom s 0 /\ sv = 3 - sfrom s 0
  | PN5 k tmp => kok s c k /\ sto s 0 = sfrom s 0 /\ tmp = 3 - sfrom s 0
  | PN8 k x => kok s c k /\ fstt s x = 2%Z
  | PN9 _ _ => False
  | PY2 nf => c <> 0 /\ (fstt s c = 1 \/ fstt s c = 3)%Z /\ fstt s nf = 2%Z
  | PY3 nf => c <> 0 /\ fstt s c = 1%Z /\ fstt s nf = 2%Z
  | PY4 nf ts => c <> 0 /\ fstt s nf = 2%Z /\
                 ((ts = 0 /\ fstt s c = 3%Z) \/ (ts = c /\ fstt s c = 2%Z))
  | PL1 k => (k = KIdleLB /\ c = 0) \/ (k = KBalLB /\ run s c)
  | PL2 _ _ _ _ _ _ => False
  | PI1 nf => c = 0 /\ fstt s nf = 2%Z
  | PW1 f => run s c
  | PW2 f => run s c /\ fstt s f = 3%Z
  | Fin => run s c
  end.

Definition prog_ok (N : nat) (p : list op) : Prop := forall f, In (OSpawn f) p -> 1 <= f <= N.

Record Inv (N : nat) (s : st) : Prop := {
  i_n : nthr s = 1;
  i_ts : to_store s = true;
  i_from : sfrom s 0 = 1 \/ sfrom s 0 = 2;
  i_to : (forall k tmp, pc (T0 s) <> PN5 k tmp) -> sto s 0 = 3 - sfrom s 0;
  i_fib : forall f, fib_ok N s f;
  i_prog : prog_ok N (prog (T0 s));
  i_loc : lok N s (T0 s)
}.

(* ------------------------------------------------------------------ *)
(* the next call of the program                                        *)
Definition startpc (p : pcT) : Prop :=
  match p with Fin | PSpawnR _ | PYRead | PBlockW | PL1 _ | PW1 _ => True | _ => False end.

Lemma start_spec N s t : forall p c k, prog_ok N p -> run s c ->
  let T' := snd (start t c p k) in
  cur T' = c /\ prog_ok N (prog T') /\ lok N s T' /\ held T' = opt c /\ startpc (pc T').
Proof.
  induction p as [|o r IH]; intros c k Hp Hr; cbn [start].
  - cbn. split; [reflexivity|]. split; [intros f []|]. repeat split; auto.
  - assert (Hr' : prog_ok N r) by (intros f Hf; apply Hp; right; exact Hf).
    assert (Hrec : forall (e0 : list Z),
               let T' := snd (let '(e, T) := start t c r (S k) in (e0 ++ e, T)) in
               cur T' = c /\ prog_ok N (prog T') /\ lok N s T' /\ held T' = opt c /\ startpc (pc T')).
    { intros e0. specialize (IH c (S k) Hr' Hr). destruct (start t c r (S k)) as [e T]. exact IH. }
    assert (Hpl : forall pc0, startpc pc0 -> held {| pc := pc0; cur := c; prog := r; opi := k |} = opt c).
    { intros pc0 H0. unfold held; cbn. destruct pc0; try reflexivity; destruct H0. }
    destruct o; cbn [snd].
    + split; [reflexivity|]. split; [exact Hr'|]. split; [|split; [apply Hpl|]; exact I].
      unfold lok; cbn. split; auto. apply Hp; left; reflexivity.
    + destruct (Nat.eqb_spec c 0) as [E|E]; [apply Hrec|].
      split; [reflexivity|]. split; [exact Hr'|]. split; [|split; [apply Hpl|]; exact I].
      unfold lok; cbn. split; auto. destruct Hr; [contradiction|auto].
    + destruct (Nat.eqb_spec c 0) as [E|E]; [apply Hrec|].
      split; [reflexivity|]. split; [exact Hr'|]. split; [|split; [apply Hpl|]; exact I].
      unfold lok; cbn. split; auto. destruct Hr; [contradiction|auto].
    + destruct (Nat.eqb_spec c 0) as [E|E]; [|apply Hrec].
      split; [reflexivity|]. split; [exact Hr'|]. split; [|split; [apply Hpl|]; exact I].
      unfold lok; cbn. auto.
    + split; [reflexivity|]. split; [exact Hr'|]. split; [|split; [apply Hpl|]; exact I].
      unfold lok; cbn. auto.
    + split; [reflexivity|]. split; [exact Hr'|]. split; [|split; [apply Hpl|]; exact I].
      unfold lok; cbn. auto.
Qed.

Lemma finish_spec N s t T c v : prog_ok N (prog T) -> run s c ->
  let T' := snd (finish t T c v) in
  cur T' = c /\ prog_ok N (prog T') /\ lok N s T' /\ held T' = opt c /\ startpc (pc T').
Proof.
  intros Hp Hr. unfold finish.
  pose proof (start_spec N s t (prog T) c (S (opi T)) Hp Hr) as H.
  destruct (start t c (prog T) (S (opi T))) as [e T']. exact H.
Qed.

Lemma startpc_not_PN5 p : startpc p -> forall k tmp, p <> PN5 k tmp.
Proof. intros H k tmp E. subst. exact H. Qed.

Lemma cnt_opt c f : cnt (opt c) f = if Nat.eqb c 0 then 0 else if Nat.eqb c f then 1 else 0.
Proof. destruct c; cbn [opt cnt Nat.eqb]; auto; try lia. Qed.

(* ------------------------------------------------------------------ *)
(* rebuilding the invariant after a step of thread 0                   *)
Lemma inv_mk N s T' :
  nthr s = 1 -> to_store s = true -> (sfrom s 0 = 1 \/ sfrom s 0 = 2) ->
  ((forall k tmp, pc T' <> PN5 k tmp) -> sto s 0 = 3 - sfrom s 0) ->
  (forall f, fibp N (fstt s) (held T') (Fq s) (Sq s) f) ->
  prog_ok N (prog T') -> lok N s T' -> Inv N (set_thr s 0 T').
Proof.
  intros. constructor; unfold fib_ok, T0, Fq, Sq in *; cbn [nthr to_store sfrom sto fstt dq thr set_thr];
    rewrite ?upd_same; auto.
Qed.

Lemma inv_finish N s T c v :
  nthr s = 1 -> to_store s = true -> (sfrom s 0 = 1 \/ sfrom s 0 = 2) ->
  sto s 0 = 3 - sfrom s 0 ->
  (forall f, fibp N (fstt s) (opt c) (Fq s) (Sq s) f) ->
  prog_ok N (prog T) -> run s c -> Inv N (set_thr s 0 (snd (finish 0 T c v))).
Proof.
  intros Hn Hts Hf Hto Hfib Hp Hr.
  destruct (finish_spec N s 0 T c v Hp Hr) as (Hc & Hp' & Hl & Hh & Hs).
  apply inv_mk; auto. rewrite Hh. exact Hfib.
Qed.

Lemma fst_let_finish {A} (X : list Z * tst) (g : tst -> A) (h : list Z -> list Z) :
  fst (let '(e1, T') := X in (g T', h e1)) = g (snd X).
Proof. destruct X; reflexivity. Qed.

Ltac zeq :=
  repeat match goal with
  | H : context [Z.eqb ?a ?b] |- _ => destruct (Z.eqb_spec a b)
  | |- context [Z.eqb ?a ?b] => destruct (Z.eqb_spec a b)
  end.

Ltac neq :=
  repeat match goal with
  | H : context [Nat.eqb ?a ?b] |- _ =>
      let E := fresh "E" in destruct (Nat.eqb_spec a b) as [E|E]; [try (is_var a; subst a); try (is_var b; subst b)|]
  | |- context [Nat.eqb ?a ?b] =>
      let E := fresh "E" in destruct (Nat.eqb_spec a b) as [E|E]; [try (is_var a; subst a); try (is_var b; subst b)|]
  end.

(* solve a per-fiber goal from the per-fiber facts of the old state at g
   (and at the named fibers posed before) *)
Ltac fibs Hfib g :=
  let H := fresh "Hg" in pose proof (Hfib g) as H; destruct H;
  unfold run, kok in *;
  constructor; cbn [cnt] in *; rewrite ?cnt_opt in *; unfold upd in *; neq; try lia.

Lemma Fq_push s l : sfrom s 0 = 1 \/ sfrom s 0 = 2 ->
  Fq (set_dq s (3 - sfrom s 0) l) = Fq s /\ Sq (set_dq s (3 - sfrom s 0) l) = l.
Proof. unfold Fq, Sq; cbn [dq sfrom set_dq]. intros [E|E]; rewrite E; cbn; auto. Qed.

Lemma Fq_pop s l : sfrom s 0 = 1 \/ sfrom s 0 = 2 ->
  Fq (set_dq s (sfrom s 0) l) = l /\ Sq (set_dq s (sfrom s 0) l) = Sq s.
Proof. unfold Fq, Sq; cbn [dq sfrom set_dq]. intros [E|E]; rewrite E; cbn; auto. Qed.

Lemma Fq_swap s : sfrom s 0 = 1 \/ sfrom s 0 = 2 ->
  Fq (set_from s 0 (3 - sfrom s 0)) = Sq s /\ Sq (set_from s 0 (3 - sfrom s 0)) = Fq s.
Proof. unfold Fq, Sq; cbn [dq sfrom set_from]. rewrite upd_same. intros [E|E]; rewrite E; cbn; auto. Qed.

Ltac mk := apply inv_mk; [assumption|assumption|assumption| | | |].
Ltac mkfin := rewrite fst_let_finish; apply inv_finish; [assumption|assumption|assumption| | | |].
Ltac hsimp :=
  unfold held; cbn [pc with_pc cur prog fstt set_fs set_to set_from set_dq];
  repeat match goal with
  | |- context [Fq (set_fs ?s ?f ?v)] => change (Fq (set_fs s f v)) with (Fq s)
  | |- context [Sq (set_fs ?s ?f ?v)] => change (Sq (set_fs s f v)) with (Sq s)
  | |- context [Fq (set_to ?s ?f ?v)] => change (Fq (set_to s f v)) with (Fq s)
  | |- context [Sq (set_to ?s ?f ?v)] => change (Sq (set_to s f v)) with (Sq s)
  end.

Theorem step_inv N s : Inv N s -> Inv N (fst (step s 0)).
Proof.
  intros I0. pose proof I0 as [Hn Hts Hfrom Hto Hfib Hprog Hloc].
  unfold fib_ok, T0 in *. unfold step.
  remember (thr s 0) as T eqn:HT.
  unfold lok in Hloc.
  destruct (pc T) eqn:Hpc; unfold held in Hfib; rewrite Hpc in Hfib;
    try (assert (Hto' : sto s 0 = 3 - sfrom s 0) by (apply Hto; congruence)).
  - (* PSpawnR *)
    destruct Hloc as [Hr Hf].
    destruct (Z.eqb_spec (fstt s f) 0) as [E|E].
    + cbn [fst]. mk.
      * intros _. exact Hto'.
      * hsimp. exact Hfib.
      * exact Hprog.
      * unfold lok; cbn. auto.
    + mkfin; auto.
  - (* PSpawnW *)
    destruct Hloc as (Hr & Hf & Hz). cbn [fst].
    mk.
    + intros _. exact Hto'.
    + intros g. hsimp. pose proof (Hfib f) as []. fibs Hfib g.
    + exact Hprog.
    + unfold lok, run in *; cbn. rewrite upd_same. split; auto.
      destruct Hr as [Hr|Hr]; auto. right. rewrite upd_other; auto. congruence.
  - (* PSched *)
    destruct Hloc as [Hf2 Hk]. rewrite Hts, Hto'.
    destruct (Fq_push s (f :: dq s (3 - sfrom s 0)) Hfrom) as [EF ES].
    destruct k; try contradiction.
    + (* KSpawn *)
      mkfin.
      * exact Hto'.
      * intros g. rewrite EF, ES. change (dq s (3 - sfrom s 0)) with (Sq s).
        cbn [fstt set_dq]. pose proof (Hfib f) as []. fibs Hfib g.
      * exact Hprog.
      * exact Hk.
    + (* KRequeue *)
      destruct Hk as [Hc Hnf].
      mkfin.
      * exact Hto'.
      * intros g. rewrite EF, ES. change (dq s (3 - sfrom s 0)) with (Sq s).
        cbn [fstt set_dq]. rewrite Hc in *. pose proof (Hfib f) as []. pose proof (Hfib nf) as []. fibs Hfib g.
      * exact Hprog.
      * right. exact Hnf.
    + (* KWake *)
      mkfin.
      * exact Hto'.
      * intros g. rewrite EF, ES. change (dq s (3 - sfrom s 0)) with (Sq s).
        cbn [fstt set_dq]. pose proof (Hfib f) as []. fibs Hfib g.
      * exact Hprog.
      * exact Hk.
  - (* PBlockW *)
    destruct Hloc as [Hc H1]. cbn [fst]. mk.
    + intros _. exact Hto'.
    + intros g. hsimp. pose proof (Hfib (cur T)) as []. fibs Hfib g.
    + exact Hprog.
    + unfold lok; cbn. rewrite upd_same. auto.
  - (* PYRead *)
    destruct Hloc as [Hc H1]. cbn [fst]. mk.
    + intros _. exact Hto'.
    + intros g. hsimp. exact (Hfib g).
    + exact Hprog.
    + unfold lok, kok; cbn. auto.
  - (* PN1 *)
    destruct (dq s (sfrom s 0)) eqn:EF; cbn [fst]; mk; try (intros _; exact Hto'); try exact Hprog;
      try (intros g; hsimp; exact (Hfib g)).
    + unfold lok; cbn. split; auto.
    + unfold lok; cbn. auto.
  - (* PN2 *)
    cbn [fst]; mk; try (intros _; exact Hto'); try exact Hprog; try (intros g; hsimp; exact (Hfib g)).
    unfold lok; cbn. tauto.
  - (* PN3 *)
    cbn [fst]; mk; try (intros _; exact Hto'); try exact Hprog; try (intros g; hsimp; exact (Hfib g)).
    unfold lok; cbn. tauto.
  - (* PN4 *)
    destruct Hloc as (Hk & HF & Htmp & Hsv). subst sv tmp. cbn [fst].
    destruct (Fq_swap s Hfrom) as [EF ES].
    apply inv_mk; try assumption.
    + cbn [sfrom set_from]. rewrite upd_same. lia.
    + intros H. exfalso. eapply H. reflexivity.
    + intros g. rewrite EF, ES. hsimp. fibs Hfib g.
    + unfold lok, kok in *; cbn [pc cur with_pc sto sfrom set_from fstt]. rewrite upd_same. split; auto. lia.
  - (* PN5 *)
    destruct Hloc as (Hk & Hst & Htmp). cbn [fst]. mk.
    + intros _. cbn [sto sfrom set_to]. rewrite upd_same. exact Htmp.
    + intros g. hsimp. exact (Hfib g).
    + exact Hprog.
    + unfold lok; cbn. exact Hk.
  - (* PN6 *)
    destruct (dq s (sfrom s 0)) eqn:EF.
    + unfold next_ret. destruct k; try contradiction.
      * destruct Hloc as (Hc & Hst & H13).
        match goal with |- context [finish ?a ?b ?c ?d] => destruct (finish a b c d) as [e1 T1] eqn:EX end.
        cbn [fst]. replace T1 with (snd (finish 0 T (if Z.eqb st 3 then 0 else cur T) (Zn (if Z.eqb st 3 then 0 else cur T))))
          by (rewrite EX; reflexivity).
        apply inv_finish; auto.
        -- intros g. destruct (Z.eqb_spec st 3); [|exact (Hfib g)].
           pose proof (Hfib (cur T)) as []. fibs Hfib g.
        -- destruct (Z.eqb_spec st 3); [left; reflexivity|right; lia].
      * match goal with |- context [finish ?a ?b ?c ?d] => destruct (finish a b c d) as [e1 T1] eqn:EX end.
        cbn [fst]. replace T1 with (snd (finish 0 T (cur T) (Zn (cur T)))) by (rewrite EX; reflexivity).
        apply inv_finish; auto. left. exact Hloc.
    + cbn [fst]; mk; try (intros _; exact Hto'); try exact Hprog; try (intros g; hsimp; exact (Hfib g)).
      unfold lok; cbn. exact Hloc.
  - (* PN7 *)
    destruct (dq s (sfrom s 0)) as [|x rest] eqn:EF.
    + cbn [fst]; mk; try (intros _; exact Hto'); try exact Hprog; try (intros g; hsimp; exact (Hfib g)).
      unfold lok; cbn. exact Hloc.
    + cbn [fst]. destruct (Fq_pop s rest Hfrom) as [E1 E2]. unfold Fq in Hfib at 1. rewrite EF in Hfib.
      mk.
      * intros _. exact Hto'.
      * intros g. rewrite E1, E2. hsimp. fibs Hfib g.
      * exact Hprog.
      * unfold lok; cbn. split; auto. pose proof (Hfib x) as [_ Hq _ _ _]. apply Hq. cbn. rewrite Nat.eqb_refl. lia.
  - (* PN8 *)
    destruct Hloc as [Hk Hx]. rewrite Hx. cbn [Z.eqb].
    pose proof (Hfib x) as [_ _ _ _ Hrx]. destruct x as [|x']; [lia|].
    unfold next_ret. destruct k; try contradiction; cbn [fst].
    + mk; try (intros _; exact Hto'); try exact Hprog.
      * intros g. hsimp. exact (Hfib g).
      * unfold lok, kok in *; cbn. intuition.
    + mk; try (intros _; exact Hto'); try exact Hprog.
      * intros g. hsimp. exact (Hfib g).
      * unfold lok, kok in *; cbn. intuition.
  - (* PN9 *) contradiction.
  - (* PY2 *)
    destruct Hloc as (Hc & H13 & Hnf).
    destruct (Z.eqb_spec (fstt s (cur T)) 1); cbn [fst]; mk; try (intros _; exact Hto'); try exact Hprog;
      try (intros g; hsimp; exact (Hfib g)).
    + unfold lok; cbn. auto.
    + unfold lok; cbn. split; auto. split; auto. left. split; auto. lia.
  - (* PY3 *)
    destruct Hloc as (Hc & H1 & Hnf). cbn [fst]. mk; try (intros _; exact Hto'); try exact Hprog.
    + intros g. hsimp. pose proof (Hfib (cur T)) as []. pose proof (Hfib nf) as []. fibs Hfib g.
    + unfold lok; cbn. rewrite upd_same. split; auto. split; [|right; auto].
      unfold upd. destruct (Nat.eqb nf (cur T)); auto.
  - (* PY4 *)
    destruct Hloc as (Hc & Hnf & Hts0).
    destruct ts as [|ts'].
    + destruct Hts0 as [[_ H3]|[Habs _]]; [|congruence].
      mkfin.
      * exact Hto'.
      * intros g. hsimp. pose proof (Hfib (cur T)) as []. pose proof (Hfib nf) as []. fibs Hfib g.
      * exact Hprog.
      * right. cbn. apply upd_same.
    + destruct Hts0 as [[Habs _]|[Hts1 H2]]; [discriminate|].
      cbn [fst]. mk; try (intros _; exact Hto'); try exact Hprog.
      * intros g. hsimp. pose proof (Hfib (cur T)) as []. pose proof (Hfib nf) as []. fibs Hfib g.
      * assert (Hne : cur T <> nf).
        { intros E. pose proof (Hfib nf) as [H1 _ _ _ _]. cbn [cnt] in H1.
          rewrite cnt_opt, <- E, !Nat.eqb_refl in H1. destruct (Nat.eqb_spec (cur T) 0); lia. }
        unfold lok; cbn. rewrite upd_same, Hts1. rewrite upd_other by auto. auto.
  - (* PL1 *)
    unfold lb_continue. rewrite Hn. rewrite lb_scan_1thread.
    match goal with |- context [lb_ret ?s1 _ _ _] => set (s1' := s1) end.
    destruct Hloc as [[-> Hc]|[-> Hr]]; unfold lb_ret.
    + cbn [fst]. apply inv_mk; auto.
 Show. all: fail.
      * unfold lok; cbn. exact Hc.
    + match goal with |- context [finish ?a ?b ?c ?d] => destruct (finish a b c d) as [e1 T1] eqn:EX end.
      cbn [fst]. replace T1 with (snd (finish 0 T (cur T) 0%Z)) by (rewrite EX; reflexivity).
      apply inv_finish; auto.
  - (* PL2 *) contradiction.
  - (* PI1 *)
    destruct Hloc as [Hc Hnf]. 
    match goal with |- context [finish ?a ?b ?c ?d] => destruct (finish a b c d) as [e1 T1] eqn:EX end.
    cbn [fst]. replace T1 with (snd (finish 0 T nf (Zn nf))) by (rewrite EX; reflexivity).
    apply inv_finish; auto.
    + intros g. hsimp. rewrite Hc in *. pose proof (Hfib nf) as []. fibs Hfib g.
    + right. cbn. apply upd_same.
  - (* PW1 *)
    destruct (Z.eqb_spec (fstt s f) 3).
    + cbn [fst]; mk; try (intros _; exact Hto'); try exact Hprog; try (intros g; hsimp; exact (Hfib g)).
      unfold lok; cbn. auto.
    + mkfin; auto.
  - (* PW2 *)
    destruct Hloc as [Hr H3]. cbn [fst]. mk; try (intros _; exact Hto'); try exact Hprog.
    + intros g. hsimp. pose proof (Hfib f) as []. pose proof (Hfib (cur T)) as []. fibs Hfib g.
    + unfold lok, run in *; cbn. rewrite upd_same. split; auto.
      destruct Hr as [Hr|Hr]; auto. right. rewrite upd_other; auto. congruence.
  - (* Fin *)
    exact I0.
Qed.
