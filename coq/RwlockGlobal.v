(* C07: the steps of coq/Rwlock.v that change the ghost lists, node owners or another
   fiber's role: pop, node hand-back, wake-up, push, link. *)
From Coq Require Import List ZArith Lia Bool Arith.
From LF Require Import Conc T1K Rwlock RwlockLemmas RwlockInv RwlockSteps.
Import ListNotations.
Local Open Scope Z_scope.

Definition gset_gl (g : ghost) (sd : side) (l : list (nat * nat)) : ghost :=
  {| gl := fun x => if side_eqb x sd then l else gl g x; grole := grole g; nown := nown g |}.
Definition gset_own (g : ghost) (n : nat) (o : owner) : ghost :=
  {| gl := gl g; grole := grole g; nown := upd (nown g) n o |}.

Lemma side_dec (a b : side) : {a = b} + {a <> b}. Proof. decide equality. Qed.
Lemma side_eqb_neq a b : a <> b -> side_eqb a b = false. Proof. destruct a, b; cbn; congruence. Qed.

Lemma shape_inl_popped m f sd k : shape m f (RWait sd InL) k -> ~ is_wlink k -> shape m f (RWait sd Popped) k.
Proof.
  intros H N. inversion H; subst; cbn in N; try tauto;
    try (match goal with H : _ \/ _ |- _ => destruct H as [?|[? ?]]; discriminate end);
    try (match goal with H : exists _, _ = _ |- _ => destruct H; discriminate end);
    try (constructor; unfold pre_ok in *; intuition (try discriminate; auto)).
Qed.

Lemma chain_in_role s g sd : forall l a w, chain s g sd a l -> In w (map snd l) -> grole g w = RWait sd InL /\ (w < nthr s)%nat.
Proof.
  induction l as [|[b x] l IH]; cbn [chain map snd In]; intros a w C Hin; [tauto|].
  destruct C as (_ & C2 & C3 & _ & _ & C6). destruct Hin as [<-|Hin]; eauto.
Qed.

(* the popping fiber advances the head past the first entry *)
Lemma pop_inv s g t sd cnt wc h nx p k r :
  InvG s g -> (t < nthr s)%nat ->
  [KSetHead (qof sd) cnt wc h nx; FC (UWoke p k r)] = stk s t -> RIdle = grole g t ->
  run_ok (mem s) t -> pq sd cnt wc ->
  exists g', InvG (mk s t (set_qhead (mem s) (qof sd) nx) [KData (qof sd) cnt wc h nx; FC (UWoke p k r)]) g'.
Proof.
  intros I Ht Hk Hr RO PQ.
  pose proof (i_pop _ _ I t) as Po. unfold pop_ok in Po. rewrite <- Hk in Po. destruct Po as (Ph & Pn & Pz).
  pose proof (i_chain _ _ I sd) as Ch. rewrite <- Ph in Ch.
  destruct (gl g sd) as [|[b f] rest] eqn:GL; cbn [chain] in Ch; [destruct Ch; congruence|].
  destruct Ch as (C1 & C2 & C3 & C4 & C5 & C6).
  assert (NWL : ~ is_wlink (stk s f) /\ b = nx).
  { unfold link_ok in C5. destruct (stk s f) as [|[] ?]; cbn; try (split; [tauto|congruence]).
    destruct C5 as (_ & _ & C5). congruence. }
  destruct NWL as [NWL ->].
  assert (Hft : f <> t) by (intros ->; congruence).
  pose proof (i_nodup _ _ I sd) as ND. unfold nodes in ND. rewrite GL, <- Ph in ND. cbn [map fst] in ND.
  pose proof (i_nodupw _ _ I sd) as NDW. rewrite GL in NDW. cbn [map snd] in NDW.
  assert (Hown : nown g h = OList sd) by (apply (i_ownl _ _ I sd); unfold nodes; rewrite <- Ph; left; reflexivity).
  set (g' := gset_own (gset_role (gset_gl g sd rest) f (RWait sd Popped)) h OPop).
  set (s' := mk s t (set_qhead (mem s) (qof sd) nx) [KData (qof sd) cnt wc h nx; FC (UWoke p k r)]).
  assert (GLsd : gl g' sd = rest) by (cbn; now rewrite side_eqb_refl).
  assert (GLo : forall sd', sd' <> sd -> gl g' sd' = gl g sd') by (intros sd' Hs; cbn; now rewrite side_eqb_neq).
  assert (QH : forall sd', sd' <> sd -> qhead (mem s') (qof sd') = qhead (mem s) (qof sd')).
  { intros sd' Hs. cbn. rewrite upd_other; auto. intros E. apply Hs. now apply qof_inj. }
  assert (EC : counts s' g' = counts s g).
  { rewrite (counts_change2 s g s' g' t f); auto.
    - cbn [s' g' mk gset_own gset_role gset_gl stk grole]. rewrite !upd_same, (upd_other _ _ _ _ Hft).
      rewrite (upd_other _ _ _ _ (not_eq_sym Hft)).
      rewrite <- Hk, <- Hr, C3. unfold c_own, c_ann. cbn [tp].
      generalize (counts s g); intros [a0 b0 c0 d0]; cbn [f_wl f_rc f_wr f_ww];
      destruct sd; cbn [side_eqb b2z qof Nat.eqb]; f_equal; lia.
    - intros j J1 J2. cbn [s' g' mk gset_own gset_role gset_gl stk grole]. rewrite !upd_other by auto. auto. }
  exists g'. constructor; rewrite ?EC; try apply I.
  - (* shapes *) intros u. cbn [s' g' mk gset_own gset_role gset_gl stk grole mem].
    destruct (Nat.eq_dec u t) as [->|Hu].
    + rewrite upd_same, upd_other by auto. rewrite <- Hr. constructor; auto.
    + rewrite (upd_other _ _ _ _ Hu). destruct (Nat.eq_dec u f) as [->|Huf].
      * rewrite upd_same. apply shape_inl_popped; auto. rewrite <- C3. eapply shape_frame; [apply (i_shape _ _ I)|..]; reflexivity.
      * rewrite (upd_other _ _ _ _ Huf). eapply shape_frame; [apply (i_shape _ _ I)|..]; reflexivity.
  - intros u Hu. cbn [s' mk stk nthr] in *. rewrite upd_other by lia. apply (i_out _ _ I); auto.
  - (* chains *) intros sd'. destruct (side_dec sd' sd) as [->|Hs].
    + rewrite GLsd. cbn [s' mk mem set_qhead qhead]. rewrite upd_same.
      eapply chain_frame; [exact C6|..]; auto.
      intros w Hw. split.
      * cbn [g' gset_own gset_role gset_gl grole]. rewrite upd_other; auto.
        intros ->. inversion NDW; tauto.
      * left. cbn [s' mk stk]. rewrite upd_other; auto. intros ->.
        destruct (chain_in_role _ _ _ _ _ _ C6 Hw) as [E _]. congruence.
    + rewrite GLo, QH by auto. eapply chain_frame; [apply (i_chain _ _ I)|..]; auto.
      intros w Hw. destruct (chain_in_role _ _ _ _ _ _ (i_chain _ _ I sd') Hw) as [E _]. split.
      * cbn [g' gset_own gset_role gset_gl grole]. rewrite upd_other; auto. intros ->. rewrite C3 in E. inversion E; congruence.
      * left. cbn [s' mk stk]. rewrite upd_other; auto. intros ->. congruence.
  - (* nodup *) intros sd'. unfold nodes. destruct (side_dec sd' sd) as [->|Hs].
    + rewrite GLsd. cbn [s' mk mem set_qhead qhead]. rewrite upd_same. inversion ND; auto.
    + rewrite GLo, QH by auto. apply (i_nodup _ _ I).
  - intros sd'. destruct (side_dec sd' sd) as [->|Hs].
    + rewrite GLsd. inversion NDW; auto.
    + rewrite GLo by auto. apply (i_nodupw _ _ I).
  - (* inl *) intros sd' w Hw. cbn [g' gset_own gset_role gset_gl grole] in Hw.
    destruct (Nat.eq_dec w f) as [->|Hwf]; [rewrite upd_same in Hw; discriminate|].
    rewrite upd_other in Hw by auto. pose proof (i_inl _ _ I sd' w Hw) as Hin.
    destruct (side_dec sd' sd) as [->|Hs].
    + rewrite GLsd. rewrite GL in Hin. cbn [map snd In] in Hin. destruct Hin; [congruence|auto].
    + rewrite GLo; auto.
  - (* ownl *) intros sd' n Hn. cbn [g' gset_own nown gset_role gset_gl]. unfold nodes in Hn.
    destruct (side_dec sd' sd) as [->|Hs].
    + rewrite GLsd in Hn. cbn [s' mk mem set_qhead qhead] in Hn. rewrite upd_same in Hn.
      assert (n <> h) by (intros ->; inversion ND; tauto).
      rewrite upd_other by auto. apply (i_ownl _ _ I sd). unfold nodes. rewrite GL, <- Ph. right. exact Hn.
    + rewrite GLo, QH in Hn by auto. pose proof (i_ownl _ _ I sd' n Hn) as E.
      assert (n <> h) by (intros ->; rewrite Hown in E; inversion E; congruence).
      rewrite upd_other by auto. exact E.
  - (* ownt *) intros u Hu. cbn [g' gset_own nown gset_role gset_gl s' mk mem set_qhead fnode] in *.
    pose proof (i_ownt _ _ I u Hu) as E.
    assert (fnode (mem s) u <> h) by (intros E'; rewrite E', Hown in E; discriminate).
    rewrite upd_other by auto. exact E.
  - (* held *) intros u. unfold held_ok. cbn [s' g' mk stk mem gset_own gset_role gset_gl nown set_qhead ndata nnext].
    destruct (Nat.eq_dec u t) as [->|Hu]; [rewrite upd_same; exact Logic.I|]. rewrite upd_other by auto.
    pose proof (i_held _ _ I u) as Hd. unfold held_ok in Hd.
    destruct (stk s u) as [|[] ?]; auto.
    + destruct Hd as (A & B & C). assert (n <> h) by (intros ->; congruence). rewrite upd_other by auto. auto.
    + destruct Hd as (A & B & C & D). assert (n <> h) by (intros ->; congruence). rewrite upd_other by auto. auto.
  - (* pop *) intros u. destruct (Nat.eq_dec u t) as [->|Hu].
    + unfold pop_ok. cbn [s' g' mk stk mem gset_own gset_role gset_gl nown grole set_qhead qhead ndata nthr].
      rewrite !upd_same. split; auto. split; auto. split; [rewrite Ph; apply (i_headnz _ _ I)|].
      exists f. split; auto. exists sd. repeat split; auto. apply upd_same.
    + apply pop_ok_nonpopper. cbn [s' mk stk]. rewrite upd_other by auto.
      intros P. apply Hu. apply (i_one _ _ I); auto. rewrite <- Hk. exact Logic.I.
  - (* one *) intros u v. cbn [s' mk stk].
    destruct (Nat.eq_dec u t) as [->|Hu], (Nat.eq_dec v t) as [->|Hv]; rewrite ?upd_same, ?upd_other by auto; auto; intros P1 P2.
    + symmetry. apply (i_one _ _ I); auto. rewrite <- Hk. exact Logic.I.
    + apply (i_one _ _ I); auto. rewrite <- Hk. exact Logic.I.
    + apply (i_one _ _ I); auto.
  - (* head *) intros sd'. destruct (side_dec sd' sd) as [->|Hs].
    + cbn [s' mk mem set_qhead qhead]. rewrite upd_same. auto.
    + rewrite QH by auto. apply (i_headnz _ _ I).
  - (* popped *) intros f' sd' Hf'. cbn [g' gset_own gset_role gset_gl grole] in Hf'.
    destruct (Nat.eq_dec f' f) as [->|Hne].
    + exists t. unfold inflight. cbn [s' mk stk mem]. rewrite upd_same. exact C4.
    + rewrite upd_other in Hf' by auto. destruct (i_popped _ _ I f' sd' Hf') as [u Hu].
      assert (u = t) by (apply (i_one _ _ I); [eapply inflight_popper; eauto|rewrite <- Hk; exact Logic.I]).
      subst u. unfold inflight in Hu. rewrite <- Hk in Hu. destruct Hu.
Qed.

Lemma shape_popped_any m m' f sd k :
  shape m f (RWait sd Popped) k -> fstate m' f = fstate m f -> pend m' f = pend m f -> blocked m' f = blocked m f ->
  shape m' f (RWait sd Popped) k.
Proof.
  intros H E1 E2 E3. inversion H; subst;
    try (match goal with H : _ \/ _ |- _ => destruct H as [?|[? ?]]; discriminate end);
    try (match goal with H : exists _, _ = _ |- _ => destruct H; discriminate end);
    try (constructor; unfold pre_ok in *; rewrite ?E1, ?E2, ?E3; intuition (try discriminate; auto)).
Qed.

(* the popping fiber gives the old head node to the popped fiber *)
Lemma kout_inv s g t sd cnt wc h p k r :
  InvG s g -> (t < nthr s)%nat ->
  [KOut (qof sd) cnt wc h; FC (UWoke p k r)] = stk s t -> RIdle = grole g t ->
  run_ok (mem s) t -> pq sd cnt wc ->
  exists g', InvG (mk s t (set_fnode (mem s) (tid_of_name (ndata (mem s) h)) h)
                      [KState (qof sd) cnt wc (tid_of_name (ndata (mem s) h)); FC (UWoke p k r)]) g'.
Proof.
  intros I Ht Hk Hr RO PQ.
  pose proof (i_pop _ _ I t) as Po. unfold pop_ok in Po. rewrite <- Hk in Po.
  destruct Po as (P1 & P2 & f & (sd' & Q1 & Q2 & Q3) & P4).
  rewrite P4, tid_of_fname. apply qof_inj in Q1. subst sd'.
  assert (Hft : f <> t) by (intros ->; congruence).
  set (g' := gset_own g h (OThr f)).
  set (s' := mk s t (set_fnode (mem s) f h) [KState (qof sd) cnt wc f; FC (UWoke p k r)]).
  assert (EC : counts s' g' = counts s g).
  { rewrite (counts_change s g s' g' t); auto.
    - cbn [s' g' mk gset_own stk grole]. rewrite !upd_same. rewrite <- Hk. unfold c_own, c_ann. cbn [tp].
      rewrite !Z.sub_diag, !Z.add_0_r. symmetry. apply rwf_eta.
    - intros j J1. cbn [s' g' mk gset_own stk grole]. rewrite !upd_other by auto. auto. }
  assert (SS : forall u, stk_same s s' u).
  { intros u. destruct (Nat.eq_dec u t) as [->|Hu]; [right|left]; cbn [s' mk stk].
    - rewrite upd_same, <- Hk. cbn. tauto.
    - apply upd_other; auto. }
  exists g'. constructor; rewrite ?EC; try apply I.
  - intros u. cbn [s' g' mk gset_own stk grole mem].
    destruct (Nat.eq_dec u t) as [->|Hu].
    + rewrite upd_same. rewrite <- Hr. constructor; auto.
      destruct RO as (A & B & C & D). repeat split; auto. cbn. rewrite upd_other; auto.
    + rewrite (upd_other _ _ _ _ Hu). destruct (Nat.eq_dec u f) as [->|Huf].
      * rewrite Q2. eapply shape_popped_any; [rewrite <- Q2; apply (i_shape _ _ I)|..]; reflexivity.
      * eapply shape_frame; [apply (i_shape _ _ I)|..]; try reflexivity. cbn. rewrite upd_other; auto.
  - intros u Hu. cbn [s' mk stk nthr] in *. rewrite upd_other by lia. apply (i_out _ _ I); auto.
  - intros sd'. eapply chain_frame; [apply (i_chain _ _ I)|..]; auto.
  - intros sd' n Hn. cbn [g' gset_own nown]. pose proof (i_ownl _ _ I sd' n Hn) as E.
    assert (n <> h) by (intros ->; congruence). rewrite upd_other by auto. exact E.
  - intros u Hu. cbn [g' gset_own nown s' mk mem set_fnode fnode] in *.
    destruct (Nat.eq_dec u f) as [->|Huf].
    + rewrite upd_same. rewrite upd_same. reflexivity.
    + rewrite (upd_other _ _ _ _ Huf) in *. pose proof (i_ownt _ _ I u Hu) as E.
      assert (fnode (mem s) u <> h) by (intros E'; rewrite E', P1 in E; discriminate).
      rewrite upd_other by auto. exact E.
  - intros u. unfold held_ok. cbn [s' g' mk stk mem gset_own nown set_fnode ndata nnext].
    destruct (Nat.eq_dec u t) as [->|Hu]; [rewrite upd_same; exact Logic.I|]. rewrite (upd_other _ _ _ _ Hu).
    pose proof (i_held _ _ I u) as Hd. unfold held_ok in Hd.
    destruct (stk s u) as [|[] ?]; auto.
    + destruct Hd as (A & B & C). assert (n <> h) by (intros ->; congruence). rewrite upd_other by auto. auto.
    + destruct Hd as (A & B & C & D). assert (n <> h) by (intros ->; congruence). rewrite upd_other by auto. auto.
  - intros u. destruct (Nat.eq_dec u t) as [->|Hu].
    + unfold pop_ok. cbn [s' g' mk stk mem gset_own grole set_fnode fnode nthr]. rewrite !upd_same.
      split; auto. exists sd. auto.
    + apply pop_ok_nonpopper. cbn [s' mk stk]. rewrite upd_other by auto.
      intros P. apply Hu. apply (i_one _ _ I); auto. rewrite <- Hk. exact Logic.I.
  - intros u v. cbn [s' mk stk].
    destruct (Nat.eq_dec u t) as [->|Hu], (Nat.eq_dec v t) as [->|Hv]; rewrite ?upd_same, ?upd_other by auto; auto; intros P1' P2'.
    + symmetry. apply (i_one _ _ I); auto. rewrite <- Hk. exact Logic.I.
    + apply (i_one _ _ I); auto. rewrite <- Hk. exact Logic.I.
    + apply (i_one _ _ I); auto.
  - intros f' sd' Hf'. cbn [g' gset_own grole] in Hf'. destruct (i_popped _ _ I f' sd' Hf') as [u Hu].
    assert (u = t) by (apply (i_one _ _ I); [eapply inflight_popper; eauto|rewrite <- Hk; exact Logic.I]).
    subst u. unfold inflight in Hu. rewrite <- Hk in Hu. rewrite P4 in Hu. apply fname_inj in Hu. subst f'.
    exists t. unfold inflight. cbn [s' mk stk]. rewrite upd_same. reflexivity.
Qed.

(* schedule(f) at the end of a successful pop: the wake-up is delivered *)
Lemma wake_inv s g t sd cnt wc f p k r m0 k0 k' :
  InvG s g -> (t < nthr s)%nat ->
  k0 :: [FC (UWoke p k r)] = stk s t -> RIdle = grole g t ->
  (k0 = KState (qof sd) cnt wc f \/ k0 = KReady (qof sd) cnt wc f) ->
  run_ok (mem s) t -> pq sd cnt wc ->
  (m0 = mem s \/ (m0 = set_fstate (mem s) f ST_READY /\ exists r0, stk s f = Asleep :: r0)) ->
  ((k' = [KHead (qof sd) cnt (wc + 1); FC (UWoke p k r)] /\ wc + 1 < cnt) \/
   (k' = snd (start t p (S k) HNone) /\ cnt = wc + 1)) ->
  exists g', InvG (mk s t (wake m0 f) k') g'.
Proof.
  intros I Ht Hk Hr K0 RO PQ M0 K'.
  pose proof (i_pop _ _ I t) as Po. unfold pop_ok in Po. rewrite <- Hk in Po.
  assert (PF : popped s g (qof sd) f /\ fnode (mem s) f <> O) by (destruct K0; subst k0; tauto).
  destruct PF as ((sd' & Q1 & Q2 & Q3) & FN). apply qof_inj in Q1. subst sd'.
  assert (Hft : f <> t) by (intros ->; congruence).
  assert (POP : is_popper (stk s t)) by (rewrite <- Hk; destruct K0; subst k0; exact Logic.I).
  set (g' := gset_role g f (RWait sd Woken)).
  set (s' := mk s t (wake m0 f) k').
  assert (TP : forall q, tp k' q = tp (stk s t) q).
  { intros q. rewrite <- Hk. destruct K' as [[-> L]|[-> L]].
    - destruct K0; subst k0; cbn [tp]; destruct (Nat.eqb (qof sd) q); lia.
    - rewrite start_tp. destruct K0; subst k0; cbn [tp]; destruct (Nat.eqb (qof sd) q); lia. }
  assert (EC : counts s' g' = counts s g).
  { rewrite (counts_change2 s g s' g' t f); auto.
    - cbn [s' g' mk gset_role stk grole]. rewrite !upd_same, (upd_other _ _ _ _ Hft).
      rewrite (upd_other _ _ _ _ (not_eq_sym Hft)).
      rewrite <- Hr, Q2. unfold c_own, c_ann. rewrite !TP.
      generalize (counts s g); intros [a0 b0 c0 d0]; cbn [f_wl f_rc f_wr f_ww]. f_equal; lia.
    - intros j J1 J2. cbn [s' g' mk gset_role stk grole]. rewrite !upd_other by auto. auto. }
  assert (PRIV : forall u, u <> f -> fstate (wake m0 f) u = fstate (mem s) u /\ pend (wake m0 f) u = pend (mem s) u /\
                                   blocked (wake m0 f) u = blocked (mem s) u).
  { intros u Hu. unfold wake. destruct M0 as [->|[-> _]]; destruct (blocked _ f); cbn; rewrite ?upd_other by auto; auto. }
  assert (FNODE : fnode (wake m0 f) = fnode (mem s)).
  { unfold wake. destruct M0 as [->|[-> _]]; destruct (blocked _ f); reflexivity. }
  assert (NDATA : ndata (wake m0 f) = ndata (mem s) /\ nnext (wake m0 f) = nnext (mem s) /\
                  qhead (wake m0 f) = qhead (mem s) /\ qtail (wake m0 f) = qtail (mem s) /\ word (wake m0 f) = word (mem s)).
  { unfold wake. destruct M0 as [->|[-> _]]; destruct (blocked _ f); repeat split; reflexivity. }
  destruct NDATA as (ND & NN & QH & QT & WD).
  assert (NPK : ~ is_wlink k' /\ ~ is_held k').
  { destruct K' as [[-> _]|[-> _]]; [cbn; tauto|]. split; [apply client_not_wlink|apply client_not_held]; apply start_client. }
  assert (SS : forall u, stk_same s s' u).
  { intros u. destruct (Nat.eq_dec u t) as [->|Hu]; [right|left]; cbn [s' mk stk].
    - rewrite upd_same, <- Hk. split; [|tauto]. destruct K0; subst k0; cbn; tauto.
    - apply upd_other; auto. }
  exists g'. constructor; rewrite ?EC; try apply I.
  - intros u. cbn [s' g' mk gset_role stk grole mem].
    destruct (Nat.eq_dec u t) as [->|Hu].
    + rewrite upd_same, (upd_other _ _ _ _ (not_eq_sym Hft)). rewrite <- Hr.
      assert (RO' : run_ok (wake m0 f) t).
      { destruct (PRIV t (not_eq_sym Hft)) as (A & B & C). unfold run_ok. rewrite A, B, C, FNODE. exact RO. }
      destruct K' as [[-> L]|[-> L]].
      * constructor; auto. unfold pq in *. lia.
      * apply (start_shape _ t p (S k) HNone). exact RO'.
    + rewrite (upd_other _ _ _ _ Hu). destruct (Nat.eq_dec u f) as [->|Huf].
      * rewrite upd_same. pose proof (i_shape _ _ I f) as Sf. rewrite Q2 in Sf.
        unfold wake. destruct M0 as [->|[-> [r0 AS]]].
        -- inversion Sf; subst;
             try (match goal with H : _ \/ _ |- _ => destruct H as [?|[? ?]]; discriminate end);
             try (match goal with H : exists _, _ = _ |- _ => destruct H; discriminate end);
             try (match goal with H : pre_ok _ _ _ |- _ => destruct H as (_ & P2 & P3 & P4 & _ & _); rewrite P3;
                    constructor; unfold pre_ok; cbn; rewrite ?upd_same; repeat split; auto; discriminate end).
           match goal with H : blocked (mem s) f = _ |- _ => rewrite H end.
           constructor; cbn; rewrite ?upd_same; auto; try discriminate; tauto.
        -- rewrite AS in Sf |- *. inversion Sf; subst.
           cbn [blocked set_fstate]. match goal with H : blocked (mem s) f = _ |- _ => rewrite H end.
           constructor; cbn; rewrite ?upd_same; auto; try discriminate; tauto.
      * rewrite (upd_other _ _ _ _ Huf). destruct (PRIV u Huf) as (A & B & C).
        eapply shape_frame; [apply (i_shape _ _ I)|..]; auto. now rewrite FNODE.
  - intros u Hu. cbn [s' mk stk nthr] in *. rewrite upd_other by lia. apply (i_out _ _ I); auto.
  - intros u. unfold slots_empty. cbn [s' mk mem]. unfold wake.
    destruct M0 as [->|[-> _]];
      (match goal with |- context [if blocked ?m f then _ else _] => destruct (blocked m f) end); apply (i_slots _ _ I).
  - cbn [s' mk mem]. rewrite WD. apply I.
  - intros sd'. cbn [s' mk mem]. rewrite QH. eapply chain_frame; [apply (i_chain _ _ I)|..]; cbn [s' mk mem nthr]; auto.
    + intros; now rewrite NN.
    + intros; now rewrite ND.
    + now rewrite QT.
    + intros w Hw. split; [|apply SS]. cbn [g' gset_role grole]. rewrite upd_other; auto.
      intros ->. destruct (chain_in_role _ _ _ _ _ _ (i_chain _ _ I sd') Hw) as [E _]. congruence.
  - intros sd'. unfold nodes. cbn [s' mk mem g' gset_role gl]. rewrite QH. apply (i_nodup _ _ I).
  - intros sd' w Hw. cbn [g' gset_role grole gl] in *.
    destruct (Nat.eq_dec w f) as [->|Hwf]; [rewrite upd_same in Hw; discriminate|].
    rewrite upd_other in Hw by auto. apply (i_inl _ _ I); auto.
  - intros sd' n. unfold nodes. cbn [s' mk mem g' gset_role gl nown]. rewrite QH. apply (i_ownl _ _ I).
  - intros u. cbn [s' mk mem g' gset_role nown]. rewrite FNODE. apply (i_ownt _ _ I).
  - intros u. unfold held_ok. cbn [s' g' mk stk mem gset_role nown]. rewrite ND, NN.
    destruct (Nat.eq_dec u t) as [->|Hu].
    + rewrite upd_same. destruct NPK as [_ NH]. destruct k' as [|[] ?]; cbn in NH; tauto.
    + rewrite (upd_other _ _ _ _ Hu). apply (i_held _ _ I).
  - intros u. destruct (Nat.eq_dec u t) as [->|Hu].
    + destruct K' as [[E _]|[E _]].
      * unfold pop_ok. cbn [s' mk stk]. rewrite upd_same, E. exact Logic.I.
      * apply pop_ok_nonpopper. cbn [s' mk stk]. rewrite upd_same, E. apply client_not_popper, start_client.
    + apply pop_ok_nonpopper. cbn [s' mk stk]. rewrite (upd_other _ _ _ _ Hu).
      intros P. apply Hu. apply (i_one _ _ I); auto.
  - intros u v. cbn [s' mk stk].
    destruct (Nat.eq_dec u t) as [->|Hu], (Nat.eq_dec v t) as [->|Hv]; rewrite ?upd_same, ?upd_other by auto; auto; intros P1' P2'.
    + symmetry. apply (i_one _ _ I); auto.
    + apply (i_one _ _ I); auto.
    + apply (i_one _ _ I); auto.
  - intros sd'. cbn [s' mk mem]. rewrite QH. apply (i_headnz _ _ I).
  - intros f' sd' Hf'. cbn [g' gset_role grole] in Hf'.
    destruct (Nat.eq_dec f' f) as [->|Hne]; [rewrite upd_same in Hf'; discriminate|].
    rewrite upd_other in Hf' by auto. destruct (i_popped _ _ I f' sd' Hf') as [u Hu].
    assert (u = t) by (apply (i_one _ _ I); [eapply inflight_popper; eauto|exact POP]).
    subst u. unfold inflight in Hu. rewrite <- Hk in Hu. destruct K0; subst k0; congruence.
Qed.

(* what another fiber's pop_ok depends on *)
Lemma pop_frame s g s' g' u :
  pop_ok s g u -> stk s' u = stk s u -> nthr s' = nthr s ->
  qhead (mem s') = qhead (mem s) -> ndata (mem s') = ndata (mem s) -> fnode (mem s') = fnode (mem s) ->
  (forall x, nnext (mem s) x <> O -> nnext (mem s') x = nnext (mem s) x) ->
  (forall x, nown g x = OPop -> nown g' x = OPop) ->
  (forall f sd, grole g f = RWait sd Popped -> grole g' f = RWait sd Popped) ->
  (forall f r, stk s f = Asleep :: r -> stk s' f = Asleep :: r) ->
  pop_ok s' g' u.
Proof.
  intros P Es En Eq Ed Ef Enn Eo Er Ea. unfold pop_ok in *. rewrite Es, Eq, Ed, Ef.
  assert (PP : forall q f, popped s g q f -> popped s' g' q f).
  { intros q f (sd & Q1 & Q2 & Q3). exists sd. rewrite En. auto. }
  destruct (stk s u) as [|[] ?]; auto.
  - destruct P as (A & B & C). rewrite Enn by congruence. auto.
  - destruct P as (A & B & C & f & D & E). eauto 8.
  - destruct P as (A & B & f & D & E). eauto 8.
  - destruct P as (A & B & f & D & E). eauto 8.
  - destruct P as (A & B). auto.
  - destruct P as (A & B & r & C). eauto 8.
Qed.

Lemma held_frame s g s' g' u :
  held_ok s g u -> stk s' u = stk s u ->
  (forall x, nown g x = OThr u -> nown g' x = OThr u /\ ndata (mem s') x = ndata (mem s) x /\ nnext (mem s') x = nnext (mem s) x) ->
  held_ok s' g' u.
Proof.
  intros H Es X. unfold held_ok in *. rewrite Es. destruct (stk s u) as [|[] ?]; auto.
  - destruct H as (A & B & C). destruct (X _ B) as (X1 & X2 & X3). rewrite X1, X2. auto.
  - destruct H as (A & B & C & D). destruct (X _ B) as (X1 & X2 & X3). rewrite X1, X2, X3. auto.
Qed.

Lemma chain_push s g s' g' sd t n k' : forall l a,
  chain s g sd a l -> ~ In t (map snd l) ->
  nthr s' = nthr s -> (t < nthr s)%nat -> n <> O ->
  nnext (mem s') = nnext (mem s) -> ndata (mem s') = ndata (mem s) ->
  ndata (mem s) n = fname t -> nnext (mem s) n = O ->
  qtail (mem s') (qof sd) = n ->
  stk s' t = WLink (qof sd) (qtail (mem s) (qof sd)) n :: k' ->
  (forall w, w <> t -> stk s' w = stk s w /\ grole g' w = grole g w) ->
  grole g' t = RWait sd InL ->
  chain s' g' sd a (l ++ [(n, t)]).
Proof.
  induction l as [|[b w] l IH]; intros a C Nin En Ht Hn Enn End Dn Nn Qt St Oth Rt; cbn [chain app map snd In] in *.
  - destruct C as [C1 C2].
    split; [exact Hn|]. split; [rewrite En; exact Ht|]. split; [exact Rt|]. split; [rewrite End; exact Dn|].
    split; [unfold link_ok; rewrite St, Enn; auto|]. split; [rewrite Enn; exact Nn|exact Qt].
  - destruct C as (C1 & C2 & C3 & C4 & C5 & C6).
    assert (Hw : w <> t) by tauto. destruct (Oth w Hw) as [O1 O2].
    split; [auto|]. split; [rewrite En; auto|]. split; [congruence|]. split; [rewrite End; auto|].
    split.
    + unfold link_ok in *. rewrite O1, Enn. exact C5.
    + apply IH; auto.
Qed.

Lemma NoDup_snoc {A} (l : list A) x : NoDup l -> ~ In x l -> NoDup (l ++ [x]).
Proof.
  induction l as [|y l IH]; intros N Hx; cbn [app].
  - constructor; auto.
  - inversion N as [|y' l' N1 N2]; subst. constructor.
    + rewrite in_app_iff. intros [H|[H|[]]]; [tauto|]. subst. apply Hx. left. reflexivity.
    + apply IH; auto. intros H. apply Hx. right. exact H.
Qed.

(* the waiter's exchange on the tail *)
Lemma push_inv s g t sd n p k :
  InvG s g -> (t < nthr s)%nat ->
  [WXchg (qof sd) n; FC (LWoken sd p k)] = stk s t -> RWait sd Pre = grole g t ->
  fstate (mem s) t = ST_SAVING -> pend (mem s) t = O -> blocked (mem s) t = false -> fnode (mem s) t = O ->
  exists g', InvG (mk s t (set_qtail (mem s) (qof sd) n)
                      [WLink (qof sd) (qtail (mem s) (qof sd)) n; FC (LWoken sd p k)]) g'.
Proof.
  intros I Ht Hk Hr F1 F2 F3 F4.
  pose proof (i_held _ _ I t) as Hd. unfold held_ok in Hd. rewrite <- Hk in Hd. destruct Hd as (D1 & D2 & D3 & D4).
  set (g' := gset_own (gset_role (gset_gl g sd (gl g sd ++ [(n, t)])) t (RWait sd InL)) n (OList sd)).
  set (s' := mk s t (set_qtail (mem s) (qof sd) n) [WLink (qof sd) (qtail (mem s) (qof sd)) n; FC (LWoken sd p k)]).
  assert (GLsd : gl g' sd = gl g sd ++ [(n, t)]) by (cbn; now rewrite side_eqb_refl).
  assert (GLo : forall sd', sd' <> sd -> gl g' sd' = gl g sd') by (intros sd' Hs; cbn; now rewrite side_eqb_neq).
  assert (NotIn : forall sd', ~ In t (map snd (gl g sd'))).
  { intros sd' Hin. destruct (chain_in_role _ _ _ _ _ _ (i_chain _ _ I sd') Hin) as [E _]. congruence. }
  assert (NotNode : forall sd', ~ In n (nodes s g sd')).
  { intros sd' Hin. pose proof (i_ownl _ _ I sd' n Hin). congruence. }
  assert (EC : counts s' g' = counts s g).
  { rewrite (counts_change s g s' g' t); auto.
    - cbn [s' g' mk gset_own gset_role gset_gl stk grole]. rewrite !upd_same. rewrite <- Hk, <- Hr.
      unfold c_own, c_ann. cbn [tp]. rewrite !Z.sub_diag, !Z.add_0_r. symmetry. apply rwf_eta.
    - intros j J1. cbn [s' g' mk gset_own gset_role gset_gl stk grole]. rewrite !upd_other by auto. auto. }
  assert (OTH : forall w, w <> t -> stk s' w = stk s w /\ grole g' w = grole g w).
  { intros w Hw. cbn [s' g' mk gset_own gset_role gset_gl stk grole]. rewrite !upd_other by auto. auto. }
  exists g'. constructor; rewrite ?EC; try apply I.
  - intros u. destruct (Nat.eq_dec u t) as [->|Hu].
    + cbn [s' g' mk gset_own gset_role gset_gl stk grole mem]. rewrite !upd_same. constructor; auto.
    + destruct (OTH u Hu) as [-> ->]. eapply shape_frame; [apply (i_shape _ _ I)|..]; reflexivity.
  - intros u Hu. cbn [s' mk stk nthr] in *. rewrite upd_other by lia. apply (i_out _ _ I); auto.
  - intros sd'. destruct (side_dec sd' sd) as [->|Hs].
    + rewrite GLsd. apply (chain_push s g s' g' sd t n [FC (LWoken sd p k)]); auto.
      * apply (i_chain _ _ I).
      * cbn. apply upd_same.
      * cbn. apply upd_same.
      * cbn. apply upd_same.
    + rewrite GLo by auto. eapply chain_frame; [apply (i_chain _ _ I)|..]; auto.
      * cbn. rewrite upd_other; auto. intros E. apply Hs. now apply qof_inj.
      * intros w Hw. assert (w <> t) by (intros ->; apply (NotIn sd'); auto).
        destruct (OTH w H) as [O1 O2]. split; auto. left; auto.
  - intros sd'. unfold nodes. destruct (side_dec sd' sd) as [->|Hs].
    + rewrite GLsd, map_app. cbn [map fst]. change (qhead (mem s') (qof sd) :: map fst (gl g sd) ++ [n])
        with ((qhead (mem s) (qof sd) :: map fst (gl g sd)) ++ [n]).
      apply NoDup_snoc; [apply (i_nodup _ _ I)|apply NotNode].
    + rewrite GLo by auto. apply (i_nodup _ _ I).
  - intros sd'. destruct (side_dec sd' sd) as [->|Hs].
    + rewrite GLsd, map_app. apply NoDup_snoc; [apply (i_nodupw _ _ I)|apply NotIn].
    + rewrite GLo by auto. apply (i_nodupw _ _ I).
  - intros sd' w Hw. destruct (Nat.eq_dec w t) as [->|Hwt].
    + cbn [g' gset_own gset_role gset_gl grole] in Hw. rewrite upd_same in Hw. inversion Hw; subst sd'.
      rewrite GLsd, map_app, in_app_iff. right. left. reflexivity.
    + destruct (OTH w Hwt) as [_ O2]. rewrite O2 in Hw. pose proof (i_inl _ _ I sd' w Hw) as Hin.
      destruct (side_dec sd' sd) as [->|Hs]; [rewrite GLsd, map_app, in_app_iff; auto|rewrite GLo; auto].
  - intros sd' x Hx. cbn [g' gset_own nown]. unfold nodes in Hx.
    destruct (side_dec sd' sd) as [->|Hs].
    + rewrite GLsd, map_app in Hx. cbn [map fst] in Hx.
      change (qhead (mem s') (qof sd) :: map fst (gl g sd) ++ [n]) with (nodes s g sd ++ [n]) in Hx.
      rewrite in_app_iff in Hx. destruct Hx as [Hx|[<-|[]]]; [|apply upd_same].
      assert (x <> n) by (intros ->; apply (NotNode sd); auto). rewrite upd_other by auto. apply (i_ownl _ _ I); auto.
    + rewrite GLo in Hx by auto. assert (x <> n) by (intros ->; apply (NotNode sd'); auto).
      rewrite upd_other by auto. apply (i_ownl _ _ I); auto.
  - intros u Hu. cbn [g' gset_own nown s' mk mem set_qtail fnode] in *. pose proof (i_ownt _ _ I u Hu) as E.
    assert (fnode (mem s) u <> n).
    { intros E'. rewrite E', D2 in E. inversion E; subst u. congruence. }
    rewrite upd_other by auto. exact E.
  - intros u. destruct (Nat.eq_dec u t) as [->|Hu].
    + unfold held_ok. cbn [s' mk stk]. rewrite upd_same. exact Logic.I.
    + destruct (OTH u Hu) as [O1 _]. apply (held_frame s g); auto; [apply (i_held _ _ I)|].
      intros x Hx. assert (x <> n) by (intros ->; rewrite D2 in Hx; inversion Hx; congruence).
      cbn [g' gset_own nown]. rewrite upd_other by auto. auto.
  - intros u. destruct (Nat.eq_dec u t) as [->|Hu].
    + apply pop_ok_nonpopper. cbn [s' mk stk]. rewrite upd_same. cbn. tauto.
    + destruct (OTH u Hu) as [O1 _]. apply (pop_frame s g); auto; [apply (i_pop _ _ I)|..].
      * intros x Hx. assert (x <> n) by (intros ->; congruence). cbn [g' gset_own nown]. rewrite upd_other; auto.
      * intros f sd' Hf. assert (f <> t) by (intros ->; congruence). destruct (OTH f H) as [_ ->]. auto.
      * intros f r Hf. assert (f <> t) by (intros ->; rewrite <- Hk in Hf; discriminate). destruct (OTH f H) as [-> _]. auto.
  - intros u v. cbn [s' mk stk].
    destruct (Nat.eq_dec u t) as [->|Hu], (Nat.eq_dec v t) as [->|Hv]; rewrite ?upd_same, ?upd_other by auto; auto;
      intros P1 P2; try (cbn in P1; tauto); try (cbn in P2; tauto). apply (i_one _ _ I); auto.
  - intros f sd' Hf. assert (f <> t).
    { intros ->. cbn [g' gset_own gset_role gset_gl grole] in Hf. rewrite upd_same in Hf. discriminate. }
    destruct (OTH f H) as [_ O2]. rewrite O2 in Hf. destruct (i_popped _ _ I f sd' Hf) as [u Hu].
    assert (u <> t) by (intros ->; apply inflight_popper in Hu; rewrite <- Hk in Hu; exact Hu).
    exists u. unfold inflight in *. destruct (OTH u H0) as [-> _]. exact Hu.
Qed.

Lemma chain_link s g s' sd t p0 n r : forall l a,
  chain s g sd a l -> NoDup (a :: map fst l) -> NoDup (map snd l) -> In t (map snd l) ->
  stk s t = WLink (qof sd) p0 n :: r -> ~ is_wlink (stk s' t) ->
  nthr s' = nthr s -> ndata (mem s') = ndata (mem s) -> qtail (mem s') = qtail (mem s) ->
  nnext (mem s') = upd (nnext (mem s)) p0 n ->
  (forall w, w <> t -> stk s' w = stk s w) ->
  chain s' g sd a l /\ In p0 (a :: map fst l) /\ nnext (mem s) p0 = O.
Proof.
  induction l as [|[b w] l IH]; intros a C ND NDW Hin St Nw En Ed Eq Enn Oth; cbn [chain map fst snd In] in *; [tauto|].
  destruct C as (C1 & C2 & C3 & C4 & C5 & C6).
  inversion ND as [|? ? ND1 ND2]; subst. inversion NDW as [|? ? NW1 NW2]; subst.
  destruct (Nat.eq_dec w t) as [->|Hw].
  - unfold link_ok in C5. rewrite St in C5. destruct C5 as (-> & -> & C5).
    split; [|split; [left; reflexivity|exact C5]].
    split; [auto|]. split; [rewrite En; auto|]. split; [auto|]. split; [rewrite Ed; auto|].
    split.
    + unfold link_ok. destruct (stk s' t) as [|[] ?]; cbn in Nw; try tauto; rewrite Enn; apply upd_same.
    + eapply chain_frame; [exact C6|..]; auto.
      * intros x Hx. rewrite Enn. apply upd_other. intros ->. apply ND1. exact Hx.
      * intros; now rewrite Ed.
      * now rewrite Eq.
      * intros w Hw. split; auto. left. apply Oth. intros ->. tauto.
  - destruct Hin as [Hin|Hin]; [congruence|].
    destruct (IH b C6 ND2 NW2 Hin St Nw En Ed Eq Enn Oth) as (I1 & I2 & I3).
    split; [|split; [right; exact I2|exact I3]].
    assert (a <> p0) by (intros ->; apply ND1; exact I2).
    split; [auto|]. split; [rewrite En; auto|]. split; [auto|]. split; [rewrite Ed; auto|].
    split; [|exact I1].
    unfold link_ok in *. rewrite (Oth w Hw), Enn, upd_other by auto. exact C5.
Qed.

(* the waiter links its node behind the previous tail *)
Lemma link_inv s g t sd p0 n p k :
  InvG s g -> (t < nthr s)%nat ->
  [WLink (qof sd) p0 n; FC (LWoken sd p k)] = stk s t -> RWait sd InL = grole g t ->
  fstate (mem s) t = ST_SAVING -> pend (mem s) t = O -> blocked (mem s) t = false -> fnode (mem s) t = O ->
  InvG (mk s t (set_nnext (mem s) p0 n) [YRead; FC (LWoken sd p k)]) g.
Proof.
  intros I Ht Hk Hr F1 F2 F3 F4.
  set (s' := mk s t (set_nnext (mem s) p0 n) [YRead; FC (LWoken sd p k)]).
  assert (OTH : forall w, w <> t -> stk s' w = stk s w) by (intros w Hw; cbn; apply upd_other; auto).
  assert (Hin : In t (map snd (gl g sd))) by (apply (i_inl _ _ I); auto).
  assert (NW : ~ is_wlink (stk s' t)) by (cbn; rewrite upd_same; cbn; tauto).
  destruct (chain_link s g s' sd t p0 n [FC (LWoken sd p k)] (gl g sd) _ (i_chain _ _ I sd) (i_nodup _ _ I sd)
              (i_nodupw _ _ I sd) Hin (eq_sym Hk) NW eq_refl eq_refl eq_refl eq_refl OTH) as (CH & INP & NP0).
  assert (OwnP : nown g p0 = OList sd) by (apply (i_ownl _ _ I); exact INP).
  assert (EC : counts s' g = counts s g).
  { rewrite (counts_change s g s' g t); auto.
    cbn [s' mk stk]. rewrite !upd_same. rewrite <- Hk.
    unfold c_own, c_ann. cbn [tp]. rewrite !Z.sub_diag, !Z.add_0_r. symmetry. apply rwf_eta. }
  constructor; rewrite ?EC; try apply I.
  - intros u. destruct (Nat.eq_dec u t) as [->|Hu].
    + cbn [s' mk stk mem]. rewrite upd_same, <- Hr. constructor. unfold pre_ok. cbn.
      repeat split; auto; discriminate.
    + rewrite (OTH u Hu). eapply shape_frame; [apply (i_shape _ _ I)|..]; reflexivity.
  - intros u Hu. cbn [s' mk stk nthr] in *. rewrite upd_other by lia. apply (i_out _ _ I); auto.
  - intros sd'. destruct (side_dec sd' sd) as [->|Hs]; [exact CH|].
    eapply chain_frame; [apply (i_chain _ _ I)|..]; auto.
    + intros x Hx. cbn. apply upd_other. intros ->.
      pose proof (i_ownl _ _ I sd' p0 Hx) as E. rewrite OwnP in E. inversion E; congruence.
    + intros w Hw. split; auto. left. apply OTH. intros ->.
      destruct (chain_in_role _ _ _ _ _ _ (i_chain _ _ I sd') Hw) as [E _]. rewrite <- Hr in E. inversion E; congruence.
  - intros u. destruct (Nat.eq_dec u t) as [->|Hu].
    + unfold held_ok. cbn [s' mk stk]. rewrite upd_same. exact Logic.I.
    + apply (held_frame s g); auto; [apply (i_held _ _ I)|].
      intros x Hx. assert (x <> p0) by (intros ->; congruence). cbn. rewrite upd_other by auto. auto.
  - intros u. destruct (Nat.eq_dec u t) as [->|Hu].
    + apply pop_ok_nonpopper. cbn [s' mk stk]. rewrite upd_same. cbn. tauto.
    + apply (pop_frame s g); auto; [apply (i_pop _ _ I)|..].
      * intros x Hx. cbn. apply upd_other. intros ->. congruence.
      * intros f r Hf. assert (f <> t) by (intros ->; rewrite <- Hk in Hf; discriminate). rewrite (OTH f H). auto.
  - intros u v. cbn [s' mk stk].
    destruct (Nat.eq_dec u t) as [->|Hu], (Nat.eq_dec v t) as [->|Hv]; rewrite ?upd_same, ?upd_other by auto; auto;
      intros P1 P2; try (cbn in P1; tauto); try (cbn in P2; tauto). apply (i_one _ _ I); auto.
  - intros f sd' Hf. destruct (i_popped _ _ I f sd' Hf) as [u Hu].
    assert (u <> t) by (intros ->; apply inflight_popper in Hu; rewrite <- Hk in Hu; exact Hu).
    exists u. unfold inflight in *. rewrite (OTH u H). exact Hu.
Qed.
