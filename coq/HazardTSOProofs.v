(* Proofs about coq/HazardTSO.v: the fenced protocol is safe on x86-TSO in every
   reachable state (inductive invariant), the unfenced one is not (concrete
   schedule), and with immediate flushes the machine is its SC counterpart. *)
From Coq Require Import List Arith Bool Lia.
From LF Require Import HazardTSO.
Import ListNotations.

(* ---------- basics ---------- *)
Lemma upd_same {A} (f : nat -> A) k x : upd f k x k = x.
Proof. unfold upd. now rewrite Nat.eqb_refl. Qed.
Lemma upd_other {A} (f : nat -> A) k x j : j <> k -> upd f k x j = f j.
Proof. unfold upd. intros H. destruct (Nat.eqb_spec j k); congruence. Qed.

Lemma loc_eqb_spec a b : reflect (a = b) (loc_eqb a b).
Proof.
  destruct a as [|t i], b as [|u j]; cbn; try (constructor; congruence).
  destruct (Nat.eqb_spec t u), (Nat.eqb_spec i j); cbn; constructor; congruence.
Qed.
Lemma updl_same m l v : updl m l v l = v.
Proof. unfold updl. destruct (loc_eqb_spec l l); congruence. Qed.
Lemma updl_other m l v l' : l' <> l -> updl m l v l' = m l'.
Proof. unfold updl. intros H. destruct (loc_eqb_spec l' l); congruence. Qed.

Lemma lookup_in b l v : lookup b l = Some v -> In (l, v) b.
Proof.
  induction b as [|[l' w] r IH]; cbn; [discriminate|].
  destruct (lookup r l) as [x|].
  - intros E; inversion E; subst; auto.
  - destruct (loc_eqb_spec l' l); [|discriminate]. intros E; inversion E; subst; auto.
Qed.
Lemma lookup_none b l : (forall v, ~ In (l, v) b) -> lookup b l = None.
Proof.
  intros H. destruct (lookup b l) as [v|] eqn:E; auto. exfalso. eapply H, lookup_in, E.
Qed.
Lemma lookup_app_same b l v : lookup (b ++ [(l, v)]) l = Some v.
Proof.
  induction b as [|[l' w] r IH]; cbn.
  - destruct (loc_eqb_spec l l); congruence.
  - now rewrite IH.
Qed.
Lemma lookup_app_other b l v l' : l' <> l -> lookup (b ++ [(l, v)]) l' = lookup b l'.
Proof.
  intros N. induction b as [|[l0 w] r IH]; cbn.
  - destruct (loc_eqb_spec l l'); congruence.
  - now rewrite IH.
Qed.
Lemma lookup_cons_none l0 v0 r l : lookup ((l0, v0) :: r) l = None -> lookup r l = None /\ l0 <> l.
Proof.
  cbn. destruct (lookup r l); [discriminate|]. destruct (loc_eqb_spec l0 l); [discriminate|auto].
Qed.

Lemma memb_In n l : memb n l = true <-> In n l.
Proof.
  unfold memb. rewrite existsb_exists. split.
  - intros (x & I & E). apply Nat.eqb_eq in E. now subst.
  - intros I. exists n. split; auto. apply Nat.eqb_refl.
Qed.
Lemma memp_In r i l : memp (r, i) l = true <-> In (r, i) l.
Proof.
  unfold memp. rewrite existsb_exists. cbn. split.
  - intros ([a b] & I & E). cbn in E. apply andb_true_iff in E as [E1 E2].
    apply Nat.eqb_eq in E1, E2. now subst.
  - intros I. exists (r, i). split; auto. cbn. now rewrite !Nat.eqb_refl.
Qed.
Lemma all_slots_In NT K r i : r < NT -> i < K -> In (r, i) (all_slots NT K).
Proof. intros. unfold all_slots. apply in_prod; apply in_seq; lia. Qed.

(* ---------- the unfenced protocol is refuted ----------
   thread 0 protects slot 0: reads X = 1, stores the slot (stays in its buffer),
   no fence, re-reads X = 1: validated.  Thread 1 unlinks node 1 (locked CAS),
   retires it, reads slot (0,0) and (1,0) from memory: both NULL, frees node 1.
   Thread 0 dereferences node 1. *)
Definition bad_sched : list label :=
  [Protect 0 0; Step 0; Step 0; Step 0; Step 0;
   Unlink 1; Step 1; Scan 1 0 0; Scan 1 1 0; Free 1; Use 0 0].

Definition proj (o : option st) : option (nat * list nat * bool * list (loc * nat)) :=
  match o with Some s => Some (held (thr s 0) 0, freed s, uaf s, buf s 0) | None => None end.

Lemma bad_run : proj (run false 2 1 init bad_sched) = Some (1, [1], true, [(LH 0 0, 1)]).
Proof. vm_compute. reflexivity. Qed.

Lemma unfenced_refuted :
  exists NT K s r i p,
    reachable false NT K s /\ at_A5 s r i p /\ In p (freed s) /\ uaf s = true /\
    run false NT K init bad_sched = Some s.
Proof.
  pose proof bad_run as E. destruct (run false 2 1 init bad_sched) as [s|] eqn:R; [|discriminate].
  cbn in E. injection E as E1 E2 E3 E4.
  exists 2, 1, s, 0, 0, 1. split; [eapply run_reachable; [constructor|exact R]|].
  unfold at_A5. rewrite E2, E3. split; [split; [exact E1|discriminate]|].
  split; [left; reflexivity|]. split; [reflexivity|exact R].
Qed.

(* with the fence the same schedule blocks at the fence *)
Lemma fenced_blocks : run true 2 1 init bad_sched = None.
Proof. vm_compute. reflexivity. Qed.

(* ---------- the invariant of the fenced machine ---------- *)
Definition protecting (p : pcT) : bool := match p with A1 | A2 | A3 | A4 => true | _ => false end.

Record Inv (NT K : nat) (s : st) : Prop := {
  (* a buffer holds only stores to the thread's own slots: LX is written by locked CAS only *)
  i_buf : forall t l v, In (l, v) (buf s t) -> exists i, l = LH t i;
  i_nxt : mem s LX < nxt s;
  (* freed and retired nodes are unlinked (older than the linked node) *)
  i_freed : forall n, In n (freed s) -> n < mem s LX;
  i_rl : forall t n, In n (rl (thr s t)) -> n < mem s LX;
  i_b2 : forall t, pc (thr s t) = B2 -> cp (thr s t) < mem s LX;
  (* after the slot store: the thread's own view of the slot is p *)
  i_a3 : forall t, pc (thr s t) = A3 -> rd s t (LH t (cs (thr s t))) = cp (thr s t);
  (* after the fence: the slot store is in memory *)
  i_a4 : forall t, pc (thr s t) = A4 -> buf s t = [] /\ mem s (LH t (cs (thr s t))) = cp (thr s t);
  i_cs : forall t, protecting (pc (thr s t)) = true -> cs (thr s t) < K;
  (* a validated slot is visible in memory and has no pending store *)
  i_held : forall t i, held (thr s t) i <> 0 ->
      t < NT /\ i < K /\ mem s (LH t i) = held (thr s t) i /\ lookup (buf s t) (LH t i) = None;
  (* a scanner that has read a slot validated for one of its retired nodes has seen it *)
  i_scan : forall w r i, pc (thr s w) = B3 -> held (thr s r) i <> 0 ->
      In (held (thr s r) i) (rl (thr s w)) -> In (r, i) (sc (thr s w)) ->
      In (held (thr s r) i) (seen (thr s w));
  i_safe : forall r i, held (thr s r) i <> 0 -> ~ In (held (thr s r) i) (freed s);
  i_uaf : uaf s = false
}.

Lemma inv_init NT K : Inv NT K init.
Proof.
  constructor; cbn; intros; try contradiction; try discriminate; try lia; auto.
Qed.

Lemma buf_no_X NT K s t : Inv NT K s -> lookup (buf s t) LX = None.
Proof.
  intros I. apply lookup_none. intros v H. destruct (i_buf _ _ _ I _ _ _ H); discriminate.
Qed.
Lemma rd_X NT K s t : Inv NT K s -> rd s t LX = mem s LX.
Proof. intros I. unfold rd. now rewrite (buf_no_X _ _ _ _ I). Qed.
Lemma buf_no_other NT K s t r i : Inv NT K s -> r <> t -> lookup (buf s t) (LH r i) = None.
Proof.
  intros I N. apply lookup_none. intros v H. destruct (i_buf _ _ _ I _ _ _ H) as [j E].
  inversion E; congruence.
Qed.

Ltac tu u t := destruct (Nat.eq_dec u t) as [->|?];
  [rewrite ?upd_same in * | rewrite ?upd_other in * by assumption].

Ltac fin := cbn [pc cs cp held rl sc seen protecting] in *; try discriminate; try lia; eauto.

(* a step that changes only thread t's private state *)
Lemma inv_set_thr NT K s t T' :
  Inv NT K s ->
  (forall n, In n (rl T') -> n < mem s LX) ->
  (pc T' = B2 -> cp T' < mem s LX) ->
  (pc T' = A3 -> rd s t (LH t (cs T')) = cp T') ->
  (pc T' = A4 -> buf s t = [] /\ mem s (LH t (cs T')) = cp T') ->
  (protecting (pc T') = true -> cs T' < K) ->
  (forall i, held T' i <> 0 -> held T' i = held (thr s t) i \/
      (held T' i = mem s LX /\ t < NT /\ i < K /\ mem s (LH t i) = mem s LX /\ buf s t = [])) ->
  (pc T' = B3 -> forall r i, held (thr (set_thr s t T') r) i <> 0 ->
      In (held (thr (set_thr s t T') r) i) (rl T') -> In (r, i) (sc T') ->
      In (held (thr (set_thr s t T') r) i) (seen T')) ->
  Inv NT K (set_thr s t T').
Proof.
  intros I Hrl Hb2 Ha3 Ha4 Hcs Hh Hsc.
  assert (HH : forall i, held T' i <> 0 ->
      t < NT /\ i < K /\ mem s (LH t i) = held T' i /\ lookup (buf s t) (LH t i) = None /\
      (forall w, In (held T' i) (rl (thr s w)) -> held T' i = held (thr s t) i) /\
      ~ In (held T' i) (freed s)).
  { intros i N. destruct (Hh i N) as [E|(E & ? & ? & E2 & E3)].
    - rewrite E in *. destruct (i_held _ _ _ I t i N) as (? & ? & ? & ?).
      repeat split; auto. apply (i_safe _ _ _ I); auto.
    - rewrite E, E3. repeat split; auto.
      + intros w W. apply (i_rl _ _ _ I) in W. lia.
      + intros W. apply (i_freed _ _ _ I) in W. lia. }
  unfold set_thr in *. constructor; cbn [mem buf thr nxt freed uaf] in *.
  - apply (i_buf _ _ _ I).
  - apply (i_nxt _ _ _ I).
  - apply (i_freed _ _ _ I).
  - intros u; tu u t; fin. apply (i_rl _ _ _ I).
  - intros u; tu u t; fin. apply (i_b2 _ _ _ I).
  - intros u; unfold rd; cbn [mem buf thr]; tu u t; fin. apply (i_a3 _ _ _ I).
  - intros u; tu u t; fin. apply (i_a4 _ _ _ I).
  - intros u; tu u t; fin. apply (i_cs _ _ _ I).
  - intros u i; tu u t; fin.
    + intros N. destruct (HH i N) as (? & ? & ? & ? & _). auto.
    + apply (i_held _ _ _ I).
  - intros w r i. tu w t.
    + auto.
    + tu r t; [|apply (i_scan _ _ _ I)]. intros P N W S.
      destruct (HH i N) as (_ & _ & _ & _ & E & _). specialize (E w W). rewrite E in *.
      apply (i_scan _ _ _ I); auto.
  - intros r i; tu r t; [|apply (i_safe _ _ _ I)]. intros N. apply (HH i N).
  - apply (i_uaf _ _ _ I).
Qed.

Ltac guards G :=
  repeat match type of G with
  | _ && _ = true => let G' := fresh "G" in apply andb_true_iff in G as [G G']
  end.
Ltac keep_held I t := let i := fresh "i" in let N := fresh "N" in intros i N; left; reflexivity.

Lemma inv_protect NT K s t i s' : Inv NT K s -> step true NT K s (Protect t i) = Some s' -> Inv NT K s'.
Proof.
  intros I E. cbn [step] in E.
  destruct ((t <? NT) && (i <? K) && is_idle (pc (thr s t))) eqn:G; [|discriminate].
  apply andb_true_iff in G as [G G3]. apply andb_true_iff in G as [G1 G2].
  apply Nat.ltb_lt in G1, G2. inversion E; subst s'; clear E.
  apply inv_set_thr; auto; fin.
  apply (i_rl _ _ _ I).
Qed.

Lemma inv_scan NT K s t r i s' : Inv NT K s -> step true NT K s (Scan t r i) = Some s' -> Inv NT K s'.
Proof.
  intros I E. cbn [step] in E.
  destruct ((t <? NT) && (r <? NT) && (i <? K) && is_b3 (pc (thr s t))) eqn:G; [|discriminate].
  apply andb_true_iff in G as [G G4]. apply andb_true_iff in G as [G G3]. apply andb_true_iff in G as [G1 G2].
  apply Nat.ltb_lt in G1, G2, G3. destruct (pc (thr s t)) eqn:P; try discriminate.
  inversion E; subst s'; clear E.
  apply inv_set_thr; auto; fin.
  - apply (i_rl _ _ _ I).
  - intros _ r' i' N W S.
    assert (E : held (thr (set_thr s t
       {| pc := B3; cs := cs (thr s t); cp := cp (thr s t); held := held (thr s t); rl := rl (thr s t);
          sc := (r, i) :: sc (thr s t);
          seen := if rd s t (LH r i) =? 0 then seen (thr s t) else rd s t (LH r i) :: seen (thr s t) |}) r') i'
          = held (thr s r') i').
    { unfold set_thr; cbn [thr]. tu r' t; fin. }
    rewrite E in *. clear E.
    assert (Old : In (held (thr s r') i') (seen (thr s t)) ->
       In (held (thr s r') i')
          (if rd s t (LH r i) =? 0 then seen (thr s t) else rd s t (LH r i) :: seen (thr s t))).
    { destruct (rd s t (LH r i) =? 0); cbn; auto. }
    destruct S as [S|S]; [|apply Old, (i_scan _ _ _ I); auto].
    inversion S; subst r' i'; clear S.
    destruct (i_held _ _ _ I r i N) as (_ & _ & M & L).
    assert (R : rd s t (LH r i) = held (thr s r) i).
    { unfold rd. destruct (Nat.eq_dec r t) as [->|D]; [now rewrite L|].
      now rewrite (buf_no_other _ _ _ _ _ _ I D). }
    rewrite R. destruct (Nat.eqb_spec (held (thr s r) i) 0); [contradiction|left; reflexivity].
Qed.

(* a buffered store to the own slot i that ends the protection of slot i
   (the slot store of hazard_pointer_using, or hazard_pointer_done_using) *)
Lemma inv_store NT K s t i v pc' :
  Inv NT K s ->
  (pc' = Idle \/ (pc' = A3 /\ cs (thr s t) = i /\ cp (thr s t) = v /\ i < K)) ->
  Inv NT K (wr (set_thr s t (mkT pc' (cs (thr s t)) (cp (thr s t)) (upd (held (thr s t)) i 0)
                                 (rl (thr s t)) (sc (thr s t)) (seen (thr s t)))) t (LH t i) v).
Proof.
  intros I Hp. remember (thr s t) as T eqn:HT.
  assert (Hh : forall j, upd (held T) i 0 j <> 0 -> upd (held T) i 0 j = held T j /\ j <> i).
  { intros j. unfold upd. destruct (Nat.eqb_spec j i); auto. congruence. }
  assert (NB3 : pc' <> B3 /\ pc' <> B2 /\ pc' <> A4) by (destruct Hp as [->|(-> & _)]; repeat split; discriminate).
  destruct NB3 as (NB3 & NB2 & NA4).
  unfold wr, set_thr. constructor; cbn [mem buf thr nxt freed uaf].
  - intros u l w. tu u t; [|apply (i_buf _ _ _ I)]. intros H. apply in_app_or in H as [H|[H|[]]].
    + apply (i_buf _ _ _ I _ _ _ H).
    + inversion H; eauto.
  - apply (i_nxt _ _ _ I).
  - apply (i_freed _ _ _ I).
  - intros u; tu u t; fin; [subst T|]; apply (i_rl _ _ _ I).
  - intros u; tu u t; fin; [intros; congruence|]. apply (i_b2 _ _ _ I).
  - intros u; unfold rd; cbn [mem buf thr]; tu u t; fin; [|apply (i_a3 _ _ _ I)].
    intros P. destruct Hp as [->|(_ & -> & -> & _)]; [discriminate|]. now rewrite lookup_app_same.
  - intros u; tu u t; fin; [intros; congruence|]. apply (i_a4 _ _ _ I).
  - intros u; tu u t; fin; [|apply (i_cs _ _ _ I)].
    destruct Hp as [->|(-> & -> & _ & ?)]; fin.
  - intros u j; tu u t; fin; [|apply (i_held _ _ _ I)].
    intros N. destruct (Hh j N) as [E D]. rewrite E in *. subst T.
    destruct (i_held _ _ _ I t j N) as (? & ? & ? & ?). repeat split; auto.
    rewrite lookup_app_other; auto. congruence.
  - intros w r j. tu w t; fin; [intros; congruence|].
    tu r t; fin; [|apply (i_scan _ _ _ I)].
    intros P N. destruct (Hh j N) as [E D]. rewrite E in *. subst T. apply (i_scan _ _ _ I); auto.
  - intros r j. tu r t; fin; [|apply (i_safe _ _ _ I)].
    intros N. destruct (Hh j N) as [E D]. rewrite E in *. subst T. apply (i_safe _ _ _ I); auto.
  - apply (i_uaf _ _ _ I).
Qed.

Lemma inv_clear NT K s t i s' : Inv NT K s -> step true NT K s (Clear t i) = Some s' -> Inv NT K s'.
Proof.
  intros I E. cbn [step] in E.
  destruct ((t <? NT) && (i <? K) && is_idle (pc (thr s t))) eqn:G; [|discriminate].
  inversion E; subst s'; clear E. apply inv_store; auto.
Qed.

Lemma inv_stepT NT K s t s' : Inv NT K s -> step true NT K s (Step t) = Some s' -> Inv NT K s'.
Proof.
  intros I E. cbn [step] in E. destruct (t <? NT) eqn:G1; [|discriminate]. apply Nat.ltb_lt in G1.
  destruct (pc (thr s t)) eqn:P; try discriminate.
  - (* A1 *) inversion E; subst s'; clear E. apply inv_set_thr; auto; fin.
    + apply (i_rl _ _ _ I).
    + intros _. apply (i_cs _ _ _ I). now rewrite P.
  - (* A2 *) inversion E; subst s'; clear E. apply inv_store; auto. right. repeat split; auto.
    apply (i_cs _ _ _ I). now rewrite P.
  - (* A3: the fence *) cbn [negb orb] in E. destruct (buf s t) as [|x b] eqn:B; [|discriminate].
    inversion E; subst s'; clear E. apply inv_set_thr; auto; fin.
    + apply (i_rl _ _ _ I).
    + intros _. split; auto. pose proof (i_a3 _ _ _ I t P) as R. unfold rd in R. now rewrite B in R.
    + intros _. apply (i_cs _ _ _ I). now rewrite P.
  - (* A4: the validating re-read *)
    destruct (i_a4 _ _ _ I t P) as [B M]. rewrite (rd_X _ _ _ _ I) in E.
    destruct (Nat.eqb_spec (mem s LX) (cp (thr s t))) as [V|V]; inversion E; subst s'; clear E.
    + apply inv_set_thr; auto; fin.
      * apply (i_rl _ _ _ I).
      * intros i N. unfold upd in *. destruct (Nat.eqb_spec i (cs (thr s t))) as [Ei|Ei]; auto.
        right. rewrite Ei, V. repeat split; auto. apply (i_cs _ _ _ I). now rewrite P.
    + apply inv_set_thr; auto; fin.
      * apply (i_rl _ _ _ I).
      * intros _. apply (i_cs _ _ _ I). now rewrite P.
  - (* B2: retire *) inversion E; subst s'; clear E. apply inv_set_thr; auto; fin.
    intros n [<-|H]; [apply (i_b2 _ _ _ I _ P)|apply (i_rl _ _ _ I _ _ H)].
Qed.

Lemma inv_use NT K s t i s' : Inv NT K s -> step true NT K s (Use t i) = Some s' -> Inv NT K s'.
Proof.
  intros I E. cbn [step] in E.
  destruct ((t <? NT) && negb (held (thr s t) i =? 0)) eqn:G; [|discriminate].
  apply andb_true_iff in G as [_ G]. apply negb_true_iff, Nat.eqb_neq in G.
  inversion E; subst s'; clear E.
  assert (F : memb (held (thr s t) i) (freed s) = false).
  { destruct (memb (held (thr s t) i) (freed s)) eqn:M; auto.
    apply memb_In in M. destruct (i_safe _ _ _ I t i G M). }
  destruct I. constructor; cbn [mem buf thr nxt freed uaf]; auto.
  rewrite F, i_uaf0. reflexivity.
Qed.

Lemma inv_unlink NT K s t s' : Inv NT K s -> step true NT K s (Unlink t) = Some s' -> Inv NT K s'.
Proof.
  intros I E. cbn [step] in E.
  destruct ((t <? NT) && is_idle (pc (thr s t)) && is_nil (buf s t)) eqn:G; [|discriminate].
  apply andb_true_iff in G as [G G3]. destruct (buf s t) eqn:B; [|discriminate].
  inversion E; subst s'; clear E. pose proof (i_nxt _ _ _ I) as NX.
  constructor; cbn [mem buf thr nxt freed uaf]; rewrite ?updl_same.
  - apply (i_buf _ _ _ I).
  - lia.
  - intros n H. apply (i_freed _ _ _ I) in H. lia.
  - intros u n H. assert (In n (rl (thr s u))) by (tu u t; fin). apply (i_rl _ _ _ I) in H0. lia.
  - intros u; tu u t; fin. intros H. apply (i_b2 _ _ _ I) in H. lia.
  - intros u; unfold rd; cbn [mem buf thr]; tu u t; fin. rewrite updl_other by discriminate.
    apply (i_a3 _ _ _ I).
  - intros u; tu u t; fin. rewrite updl_other by discriminate. apply (i_a4 _ _ _ I).
  - intros u; tu u t; fin. apply (i_cs _ _ _ I).
  - intros u i H. rewrite updl_other by discriminate.
    assert (E : held (upd (thr s) t {| pc := B2; cs := cs (thr s t); cp := mem s LX; held := held (thr s t);
       rl := rl (thr s t); sc := sc (thr s t); seen := seen (thr s t) |} u) i = held (thr s u) i) by (tu u t; fin).
    rewrite E in *. apply (i_held _ _ _ I); auto.
  - intros w r i. tu w t; fin. tu r t; fin; apply (i_scan _ _ _ I).
  - intros r i. tu r t; fin; apply (i_safe _ _ _ I).
  - apply (i_uaf _ _ _ I).
Qed.

Lemma inv_free NT K s t s' : Inv NT K s -> step true NT K s (Free t) = Some s' -> Inv NT K s'.
Proof.
  intros I E. cbn [step] in E.
  destruct ((t <? NT) && is_b3 (pc (thr s t)) && forallb (fun p => memp p (sc (thr s t))) (all_slots NT K)) eqn:G;
    [|discriminate].
  apply andb_true_iff in G as [G G3]. apply andb_true_iff in G as [G1 G2].
  destruct (pc (thr s t)) eqn:P; try discriminate.
  inversion E; subst s'; clear E. rewrite forallb_forall in G3.
  constructor; cbn [mem buf thr nxt freed uaf].
  - apply (i_buf _ _ _ I).
  - apply (i_nxt _ _ _ I).
  - intros n H. apply in_app_or in H as [H|H]; [|apply (i_freed _ _ _ I _ H)].
    apply filter_In in H as [H _]. apply (i_rl _ _ _ I _ _ H).
  - intros u; tu u t; fin; [|apply (i_rl _ _ _ I)]. intros n H. apply filter_In in H as [H _].
    apply (i_rl _ _ _ I _ _ H).
  - intros u; tu u t; fin. apply (i_b2 _ _ _ I).
  - intros u; unfold rd; cbn [mem buf thr]; tu u t; fin. apply (i_a3 _ _ _ I).
  - intros u; tu u t; fin. apply (i_a4 _ _ _ I).
  - intros u; tu u t; fin. apply (i_cs _ _ _ I).
  - intros u i; tu u t; fin; apply (i_held _ _ _ I).
  - intros w r i. tu w t; fin. tu r t; fin; apply (i_scan _ _ _ I).
  - intros r i N H.
    assert (E : held (upd (thr s) t {| pc := Idle; cs := cs (thr s t); cp := cp (thr s t); held := held (thr s t);
       rl := filter (fun n => memb n (seen (thr s t))) (rl (thr s t)); sc := sc (thr s t); seen := seen (thr s t) |} r) i
       = held (thr s r) i) by (tu r t; fin).
    rewrite E in *. clear E. apply in_app_or in H as [H|H]; [|apply (i_safe _ _ _ I _ _ N H)].
    apply filter_In in H as [H M]. apply negb_true_iff in M.
    destruct (i_held _ _ _ I r i N) as (Hr & Hi & _).
    pose proof (G3 _ (all_slots_In _ _ _ _ Hr Hi)) as S. apply memp_In in S.
    pose proof (i_scan _ _ _ I t r i P N H S) as W. apply memb_In in W. congruence.
  - apply (i_uaf _ _ _ I).
Qed.

Lemma inv_flush NT K s t s' : Inv NT K s -> step true NT K s (Flush t) = Some s' -> Inv NT K s'.
Proof.
  intros I E. cbn [step] in E. unfold flush in E. destruct (buf s t) as [|[l v] b] eqn:B; [discriminate|].
  inversion E; subst s'; clear E.
  destruct (i_buf _ _ _ I t l v) as [j ->]; [rewrite B; left; reflexivity|].
  constructor; cbn [mem buf thr nxt freed uaf]; rewrite ?updl_other by discriminate.
  - intros u l w. tu u t; [|apply (i_buf _ _ _ I)]. intros H. apply (i_buf _ _ _ I t l w). rewrite B. right. exact H.
  - apply (i_nxt _ _ _ I).
  - apply (i_freed _ _ _ I).
  - apply (i_rl _ _ _ I).
  - apply (i_b2 _ _ _ I).
  - intros u P. rewrite <- (i_a3 _ _ _ I u P). unfold rd; cbn [mem buf thr]. tu u t.
    + rewrite B. cbn [lookup]. destruct (lookup b (LH t (cs (thr s t)))); auto.
      unfold updl.
      destruct (loc_eqb_spec (LH t (cs (thr s t))) (LH t j)), (loc_eqb_spec (LH t j) (LH t (cs (thr s t)))); congruence.
    + rewrite updl_other; auto. congruence.
  - intros u P. destruct (i_a4 _ _ _ I u P) as [B' M]. tu u t; [congruence|].
    rewrite updl_other by congruence. auto.
  - apply (i_cs _ _ _ I).
  - intros u i N. destruct (i_held _ _ _ I u i N) as (? & ? & M & L). tu u t.
    + rewrite B in L. apply lookup_cons_none in L as [L D]. rewrite updl_other by congruence. auto.
    + rewrite updl_other by congruence. auto.
  - apply (i_scan _ _ _ I).
  - apply (i_safe _ _ _ I).
  - apply (i_uaf _ _ _ I).
Qed.

Lemma inv_step NT K s l s' : Inv NT K s -> step true NT K s l = Some s' -> Inv NT K s'.
Proof.
  intros I E. destruct l.
  - eapply inv_flush; eauto.
  - eapply inv_protect; eauto.
  - eapply inv_stepT; eauto.
  - eapply inv_use; eauto.
  - eapply inv_clear; eauto.
  - eapply inv_unlink; eauto.
  - eapply inv_scan; eauto.
  - eapply inv_free; eauto.
Qed.

Lemma reachable_inv NT K s : reachable true NT K s -> Inv NT K s.
Proof. induction 1; [apply inv_init | eapply inv_step; eauto]. Qed.

(* 1. safety of the fenced protocol on TSO *)
Lemma tso_safe NT K s r i p :
  reachable true NT K s -> at_A5 s r i p -> ~ In p (freed s).
Proof. intros R [<- N]. apply (i_safe _ _ _ (reachable_inv _ _ _ R)); auto. Qed.

Lemma tso_no_uaf NT K s : reachable true NT K s -> uaf s = false.
Proof. intros R. apply (i_uaf _ _ _ (reachable_inv _ _ _ R)). Qed.

(* why: the validated slot is in memory with no store pending, retired nodes
   are unlinked, and a scanner that has read the slot has the node in plist *)
Lemma tso_validated_visible NT K s r i p :
  reachable true NT K s -> at_A5 s r i p ->
  r < NT /\ i < K /\ mem s (LH r i) = p /\ lookup (buf s r) (LH r i) = None.
Proof. intros R [<- N]. apply (i_held _ _ _ (reachable_inv _ _ _ R)); auto. Qed.

Lemma tso_retired_unlinked NT K s w n :
  reachable true NT K s -> In n (rl (thr s w)) \/ In n (freed s) -> n < mem s LX /\ mem s LX < nxt s.
Proof.
  intros R H. pose proof (reachable_inv _ _ _ R) as I. split; [|apply (i_nxt _ _ _ I)].
  destruct H as [H|H]; [apply (i_rl _ _ _ I _ _ H)|apply (i_freed _ _ _ I _ H)].
Qed.

Lemma tso_scan_sees NT K s w r i p :
  reachable true NT K s -> at_A5 s r i p -> pc (thr s w) = B3 ->
  In p (rl (thr s w)) -> In (r, i) (sc (thr s w)) -> In p (seen (thr s w)).
Proof. intros R [<- N] P. apply (i_scan _ _ _ (reachable_inv _ _ _ R)); auto. Qed.

Lemma tso_X_never_buffered NT K s t : reachable true NT K s -> rd s t LX = mem s LX.
Proof. intros R. apply (rd_X _ _ _ _ (reachable_inv _ _ _ R)). Qed.

(* ---------- 3. with immediate flushes the machine is its SC counterpart ---------- *)
Definition drained (s : st) : Prop := forall t, buf s t = [].

Ltac nostore Hb :=
  unfold flush, set_thr; cbn [buf mem thr nxt freed uaf]; rewrite ?Hb;
  cbn [option_map erase mem thr nxt freed uaf buf];
  split; [reflexivity | intros ? E; inversion E; subst; exact Hb].
Ltac store Hb :=
  unfold flush, wr, set_thr; cbn [buf mem thr nxt freed uaf]; rewrite ?upd_same, ?Hb;
  cbn [app option_map erase mem thr nxt freed uaf buf];
  split; [reflexivity
         | intros ? E; inversion E; subst; intros u; cbn [buf]; unfold upd;
           destruct (u =? _); auto].

Lemma estep_sc fenced NT K s l :
  drained s ->
  option_map erase (estep fenced NT K s l) = sc_step NT K (erase s) l /\
  (forall s', estep fenced NT K s l = Some s' -> drained s').
Proof.
  intros Hb. unfold drained in *.
  destruct l; unfold estep; cbn [step sc_step ltid erase smem sthr snxt sfreed suaf].
  - unfold flush. rewrite Hb. cbn. split; [reflexivity|discriminate].
  - destruct ((t <? NT) && (i <? K) && is_idle (pc (thr s t))); [|split; [reflexivity|discriminate]].
    nostore Hb.
  - destruct (t <? NT); [|split; [reflexivity|discriminate]].
    unfold rd. rewrite Hb. cbn [lookup is_nil]. rewrite orb_true_r.
    destruct (pc (thr s t)); try (split; [reflexivity|discriminate]).
    + nostore Hb.
    + store Hb.
    + nostore Hb.
    + destruct (mem s LX =? cp (thr s t)); nostore Hb.
    + nostore Hb.
  - destruct ((t <? NT) && negb (held (thr s t) i =? 0)); [|split; [reflexivity|discriminate]].
    nostore Hb.
  - destruct ((t <? NT) && (i <? K) && is_idle (pc (thr s t))); [|split; [reflexivity|discriminate]].
    store Hb.
  - rewrite Hb. cbn [is_nil]. rewrite andb_true_r.
    destruct ((t <? NT) && is_idle (pc (thr s t))); [|split; [reflexivity|discriminate]].
    nostore Hb.
  - unfold rd. rewrite Hb. cbn [lookup].
    destruct ((t <? NT) && (r <? NT) && (i <? K) && is_b3 (pc (thr s t))); [|split; [reflexivity|discriminate]].
    nostore Hb.
  - destruct ((t <? NT) && is_b3 (pc (thr s t)) && forallb (fun p => memp p (sc (thr s t))) (all_slots NT K));
      [|split; [reflexivity|discriminate]].
    nostore Hb.
Qed.

Lemma estep_reachable fenced NT K s l s' :
  reachable fenced NT K s -> estep fenced NT K s l = Some s' -> reachable fenced NT K s'.
Proof.
  intros R E. unfold estep in E. destruct (step fenced NT K s l) as [s1|] eqn:E1; [|discriminate].
  pose proof (r_step _ _ _ _ _ _ R E1) as R1.
  destruct (flush s1 (ltid l)) as [s2|] eqn:E2; inversion E; subst; auto.
  eapply r_step; [exact R1|]. instantiate (1 := Flush (ltid l)). exact E2.
Qed.

Lemma init_drained : drained init.
Proof. intros t. reflexivity. Qed.

Lemma erun_sc fenced NT K sch : forall s,
  drained s ->
  option_map erase (erun fenced NT K s sch) = sc_run NT K (erase s) sch /\
  (forall s', erun fenced NT K s sch = Some s' ->
     drained s' /\ (reachable fenced NT K s -> reachable fenced NT K s')).
Proof.
  induction sch as [|l r IH]; intros s D; cbn [erun sc_run].
  - split; [reflexivity|]. intros s' E; inversion E; subst; auto.
  - destruct (estep_sc fenced NT K s l D) as [E1 D1].
    destruct (estep fenced NT K s l) as [s1|] eqn:ES; cbn [option_map] in E1; rewrite <- E1.
    + destruct (IH s1 (D1 _ eq_refl)) as [E2 D2]. split; [exact E2|].
      intros s' E. destruct (D2 _ E) as [? R2]. split; auto.
      intros R. apply R2. eapply estep_reachable; eauto.
    + split; [reflexivity|discriminate].
Qed.

(* the fence is invisible under SC: eager runs with and without it coincide *)
Lemma erun_fence_irrelevant NT K sch :
  option_map erase (erun true NT K init sch) = option_map erase (erun false NT K init sch).
Proof.
  destruct (erun_sc true NT K sch init init_drained) as [-> _].
  destruct (erun_sc false NT K sch init init_drained) as [-> _]. reflexivity.
Qed.

(* hence the SC machine is safe, whatever the code does at A3 *)
Lemma sc_safe NT K sch ss r i :
  sc_run NT K (erase init) sch = Some ss ->
  held (sthr ss r) i <> 0 -> ~ In (held (sthr ss r) i) (sfreed ss) /\ suaf ss = false.
Proof.
  intros E N. destruct (erun_sc true NT K sch init init_drained) as [E1 D1]. rewrite E in E1.
  destruct (erun true NT K init sch) as [s|] eqn:ER; [|discriminate].
  cbn in E1. inversion E1; subst ss; clear E1. cbn [erase sthr sfreed suaf] in *.
  destruct (D1 _ eq_refl) as [_ R]. specialize (R (r_init _ _ _)).
  split; [eapply tso_safe; [exact R | split; auto] | apply (tso_no_uaf _ _ _ R)].
Qed.

(* for examples: a schedule that runs yields a reachable state *)
Lemma run_witness fenced NT K sch (P : st -> Prop) :
  match run fenced NT K init sch with Some s => P s | None => False end ->
  exists s, run fenced NT K init sch = Some s /\ reachable fenced NT K s /\ P s.
Proof.
  destruct (run fenced NT K init sch) as [s|] eqn:E; [|contradiction].
  intros H. exists s. split; [reflexivity|]. split; [|exact H].
  eapply run_reachable; [constructor|exact E].
Qed.

Lemma erun_sc_init fenced NT K sch :
  option_map erase (erun fenced NT K init sch) = sc_run NT K (erase init) sch /\
  (forall s', erun fenced NT K init sch = Some s' -> drained s' /\ reachable fenced NT K s').
Proof.
  destruct (erun_sc fenced NT K sch init init_drained) as [E D].
  split; [exact E|]. intros s' H. destruct (D s' H) as [D1 R]. split; [exact D1|]. apply R. constructor.
Qed.
