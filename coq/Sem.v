(* C06: client of T1K for src/fiber_semaphore.c — wait / trywait / post by any
   number of fibers on one semaphore.  Object 0: word = the counter
   (_Atomic int), abstract MPMC queue 0 = the waiters (atomic push / trypop,
   justified by C13).  Harness: rt/h_sem.c.

   fiber_semaphore_wait:
     val = atomic_fetch_sub(&counter, 1) - 1                    (seq_cst)
     if (val >= 0) return 1;
     fiber_manager_wait_in_mpmc_queue(waiters); return 1;
   fiber_semaphore_trywait:
     while ((c = load_acquire(&counter)) > 0)
       if (CAS_weak_release(&counter, &c, c - 1)) return 1;
     return 0;
   fiber_semaphore_post_internal:
     do {
       while ((prev = load_acquire(&counter)) < 0)
         if (fiber_manager_wake_from_mpmc_queue(waiters, 0))     (one silent trypop)
           { atomic_fetch_add(&counter, 1); return 1; }
     } while (!CAS_weak_release(&counter, &prev, prev + 1));
     return 0;
   fiber_semaphore_post: if (post_internal()) fiber_yield(); return 1;

   Guard: the counter stays inside the int range (the model word is an
   unbounded Z; traces print small values identically). *)
From Coq Require Import List ZArith Lia Bool Arith.
From LF Require Import Conc T1K.
Import ListNotations.
Local Open Scope Z_scope.

Inductive sop := SWait | STry | SPost.

(* client continuation frames: p = the calls after this one, k = index (from 1)
   of the call in progress *)
Inductive sc :=
| SNext (p : list sop) (k : nat)                 (* start call k of program p *)
| SWaitSub (p : list sop) (k : nat)              (* wait: the fetch_sub returned *)
| SWaited (p : list sop) (k : nat)               (* wait: wait_in_mpmc_queue returned *)
| STryLoad (p : list sop) (k : nat)              (* trywait: the load returned *)
| STryCas (p : list sop) (k : nat)               (* trywait: the CAS returned *)
| SPostLoad (p : list sop) (k : nat) (fresh : bool)  (* post: the load returned; fresh = first load of this call *)
| SPostWoke (p : list sop) (k : nat)             (* post: wake_from_mpmc_queue returned 1 *)
| SPostAdded (p : list sop) (k : nat)            (* post: the fetch_add returned *)
| SPostCas (p : list sop) (k : nat)              (* post: the CAS returned *)
| SPostDone (p : list sop) (k : nat).            (* post: fiber_yield returned *)

Definition retev (t k : nat) (v : Z) : list Z := [Zn t; Zn k; 909; v].

(* the first access of call k (the C thread runs on inside the same grant) *)
Definition start (prog : list sop) (k : nat) : stack sc :=
  match prog with
  | [] => []
  | SWait :: p => [WFSub 0 1 5; FC (SWaitSub p k)]
  | STry :: p => [WLoadW 0 2; FC (STryLoad p k)]
  | SPost :: p => [WLoadW 0 2; FC (SPostLoad p k true)]
  end.

(* call k returned r: report, start the next call *)
Definition finish (m : kmem) (t : nat) (p : list sop) (k : nat) (r : Z) : kmem * list Z * stack sc :=
  (m, retev t k r, start p (S k)).

Definition cret (m : kmem) (t : nat) (c : sc) (v : Z) : kmem * list Z * stack sc :=
  match c with
  | SNext p k => (m, [], start p k)
  | SWaitSub p k =>
      (* v = old counter *)
      if 0 <=? v - 1 then finish m t p k 1
      else (m, [], [QWait 0; FC (SWaited p k)])
  | SWaited p k => finish m t p k 1
  | STryLoad p k =>
      if 0 <? v then (m, [], [WCasW 0 v (v - 1) 3; FC (STryCas p k)])
      else finish m t p k 0
  | STryCas p k =>
      if v =? 1 then finish m t p k 1
      else (m, [], [WLoadW 0 2; FC (STryLoad p k)])
  | SPostLoad p k _ =>
      if v <? 0 then
        (* wake_from_mpmc_queue(.., 0): one silent trypop of the waiter queue *)
        match mq_pop m 0 with
        | Some (f, m1) => (m1, [], [QReady f; FC (SPostWoke p k)])
        | None => (m, [], [WLoadW 0 2; FC (SPostLoad p k false)])
        end
      else (m, [], [WCasW 0 v (v + 1) 3; FC (SPostCas p k)])
  | SPostWoke p k => (m, [], [WFAdd 0 1 5; FC (SPostAdded p k)])
  | SPostAdded p k => (m, [], [YRead; FC (SPostDone p k)])     (* had_waiters: fiber_yield *)
  | SPostCas p k =>
      if v =? 1 then finish m t p k 1
      else (m, [], [WLoadW 0 2; FC (SPostLoad p k false)])
  | SPostDone p k => finish m t p k 1
  end.

Record st := { mem : kmem; stk : nat -> stack sc; nthr : nat }.

Definition step (s : st) (t : nat) : st * list Z :=
  let '(m1, e1, s1) := kstep sc cret (mem s) t (stk s t) in
  ({| mem := m1; stk := upd (stk s) t s1; nthr := nthr s |}, e1).

Definition status_of (s : st) (t : nat) : status :=
  if (t <? nthr s)%nat then kstatus sc (mem s) t (stk s t) else SDone.

Definition init (v : Z) (progs : list (list sop)) : st :=
  {| mem := kinit 1 (fun _ => v);
     stk := fun t => [Start; FC (SNext (nth t progs []) 1)];
     nthr := length progs |}.

Definition M : machine :=
  {| mstate := st; mstep := step; mstatus := status_of; mthreads := nthr |}.

Definition dec_op (p : Z * Z) : sop :=
  match fst p with 1 => SWait | 2 => STry | _ => SPost end.

(* params: dmax, initial value *)
Definition run_case (l : list Z) : list Z :=
  match decode_case l with
  | Some c =>
      let v := nthZ (c_params c) 1 in
      if (v <? 0) || (1000000 <? v) || (length (c_progs c) =? 0)%nat then [(-1)%Z]
      else run_all M (init v (map (map dec_op) (c_progs c))) [] (c_sched c)
                   (Z.to_nat (nthZ (c_params c) 0))
  | None => [(-1)%Z]
  end.
