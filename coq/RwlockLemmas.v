(* C07: lemmas for the proofs about coq/Rwlock.v.  Part 1: the packed word. *)
From Coq Require Import List ZArith Lia Bool Arith.
From LF Require Import Conc T1K Rwlock.
Import ListNotations.
Local Open Scope Z_scope.

(* ---------- the packed word ---------- *)
Definition fields_ok (f : rwf) : Prop :=
  0 <= f_wl f < 2 /\ 0 <= f_rc f < FW /\ 0 <= f_wr f < FW /\ 0 <= f_ww f < FW.

Lemma FW_val : FW = 2097152. Proof. reflexivity. Qed.

Lemma rw_unpack_pack f : fields_ok f -> rw_unpack (rw_pack f) = f.
Proof.
  destruct f as [a b c d]. unfold fields_ok, rw_unpack, rw_pack. cbn [f_wl f_rc f_wr f_ww].
  rewrite FW_val. intros (Ha & Hb & Hc & Hd).
  change (2 ^ 22) with 4194304. change (2 ^ 43) with 8796093022208.
  assert (E1 : (a + 2 * b + 4194304 * c + 8796093022208 * d) mod 2 = a).
  { replace (a + 2 * b + 4194304 * c + 8796093022208 * d)
      with (a + (b + 2097152 * c + 4398046511104 * d) * 2) by ring.
    rewrite Z.mod_add by lia. apply Z.mod_small; lia. }
  assert (E2 : (a + 2 * b + 4194304 * c + 8796093022208 * d) / 2 = b + 2097152 * c + 4398046511104 * d).
  { replace (a + 2 * b + 4194304 * c + 8796093022208 * d)
      with (a + (b + 2097152 * c + 4398046511104 * d) * 2) by ring.
    rewrite Z.div_add by lia. rewrite Z.div_small by lia. lia. }
  assert (E3 : (a + 2 * b + 4194304 * c + 8796093022208 * d) / 4194304 = c + 2097152 * d).
  { replace (a + 2 * b + 4194304 * c + 8796093022208 * d)
      with ((a + 2 * b) + (c + 2097152 * d) * 4194304) by ring.
    rewrite Z.div_add by lia. rewrite Z.div_small by lia. lia. }
  assert (E4 : (a + 2 * b + 4194304 * c + 8796093022208 * d) / 8796093022208 = d).
  { replace (a + 2 * b + 4194304 * c + 8796093022208 * d)
      with ((a + 2 * b + 4194304 * c) + d * 8796093022208) by ring.
    rewrite Z.div_add by lia. rewrite Z.div_small by lia. lia. }
  rewrite E1, E2, E3, E4.
  f_equal.
  - replace (b + 2097152 * c + 4398046511104 * d) with (b + (c + 2097152 * d) * 2097152) by ring.
    rewrite Z.mod_add by lia. apply Z.mod_small; lia.
  - replace (c + 2097152 * d) with (c + d * 2097152) by ring.
    rewrite Z.mod_add by lia. apply Z.mod_small; lia.
  - apply Z.mod_small; lia.
Qed.

Lemma rw_unpack_ok b : fields_ok (rw_unpack b).
Proof.
  unfold fields_ok, rw_unpack; cbn [f_wl f_rc f_wr f_ww]. rewrite FW_val.
  repeat split; try (apply Z.mod_pos_bound; lia).
Qed.

Lemma rw_pack_unpack b : 0 <= b < 2 ^ 64 -> rw_pack (rw_unpack b) = b.
Proof.
  intros Hb. unfold rw_pack, rw_unpack; cbn [f_wl f_rc f_wr f_ww]. rewrite FW_val.
  change (2 ^ 22) with 4194304. change (2 ^ 43) with 8796093022208. change (2 ^ 64) with 18446744073709551616 in Hb.
  pose proof (Z.div_mod b 2 ltac:(lia)) as D1.
  pose proof (Z.div_mod (b / 2) 2097152 ltac:(lia)) as D2.
  assert (Q2 : b / 2 / 2097152 = b / 4194304) by (rewrite Z.div_div by lia; reflexivity).
  pose proof (Z.div_mod (b / 4194304) 2097152 ltac:(lia)) as D3.
  assert (Q3 : b / 4194304 / 2097152 = b / 8796093022208) by (rewrite Z.div_div by lia; reflexivity).
  assert (S4 : (b / 8796093022208) mod 2097152 = b / 8796093022208).
  { apply Z.mod_small. split; [apply Z.div_pos; lia|]. apply Z.div_lt_upper_bound; lia. }
  rewrite S4. rewrite Q2 in D2. rewrite Q3 in D3. lia.
Qed.

Lemma rw_pack_range f : fields_ok f -> 0 <= rw_pack f < 2 ^ 64.
Proof.
  unfold fields_ok, rw_pack. rewrite FW_val. change (2 ^ 22) with 4194304.
  change (2 ^ 43) with 8796093022208. change (2 ^ 64) with 18446744073709551616. lia.
Qed.

Lemma rw_pack_inj f g : fields_ok f -> fields_ok g -> rw_pack f = rw_pack g -> f = g.
Proof. intros Hf Hg E. rewrite <- (rw_unpack_pack f Hf), <- (rw_unpack_pack g Hg). now rewrite E. Qed.

(* no carry: below the field width, += 1 / -= 1 on a field is +- its unit on the blob *)
Lemma finc_small x : 0 <= x -> x + 1 < FW -> finc x = x + 1.
Proof. intros. unfold finc. apply Z.mod_small. lia. Qed.
Lemma fdec_small x : 0 < x < FW -> fdec x = x - 1.
Proof. intros. unfold fdec. apply Z.mod_small. lia. Qed.

Lemma rw_no_carry f : fields_ok f ->
  (f_rc f + 1 < FW -> rw_pack (set_rc f (finc (f_rc f))) = rw_pack f + 2) /\
  (f_wr f + 1 < FW -> rw_pack (set_wr f (finc (f_wr f))) = rw_pack f + 2 ^ 22) /\
  (f_ww f + 1 < FW -> rw_pack (set_ww f (finc (f_ww f))) = rw_pack f + 2 ^ 43) /\
  (0 < f_rc f -> rw_pack (set_rc f (fdec (f_rc f))) = rw_pack f - 2) /\
  (0 < f_ww f -> rw_pack (set_ww f (fdec (f_ww f))) = rw_pack f - 2 ^ 43).
Proof.
  intros (Ha & Hb & Hc & Hd). unfold rw_pack, set_rc, set_wr, set_ww; cbn [f_wl f_rc f_wr f_ww].
  repeat split; intros H; rewrite ?finc_small, ?fdec_small by lia; ring.
Qed.

(* beyond the width the field wraps silently (what the C bit-field does) *)
Lemma rw_overflow_wraps : finc (FW - 1) = 0 /\
  rw_pack (set_ww {| f_wl := 0; f_rc := 0; f_wr := 0; f_ww := FW - 1 |} (finc (FW - 1))) = 0.
Proof. split; vm_compute; reflexivity. Qed.

(* the probe's output (notes in Rwlock.v) *)
Lemma rw_pack_units :
  rw_pack {| f_wl := 1; f_rc := 0; f_wr := 0; f_ww := 0 |} = 1 /\
  rw_pack {| f_wl := 0; f_rc := 1; f_wr := 0; f_ww := 0 |} = 2 /\
  rw_pack {| f_wl := 0; f_rc := 0; f_wr := 1; f_ww := 0 |} = 4194304 /\
  rw_pack {| f_wl := 0; f_rc := 0; f_wr := 0; f_ww := 1 |} = 8796093022208 /\
  rw_pack {| f_wl := 1; f_rc := 3; f_wr := 5; f_ww := 7 |} = 61572672126983.
Proof. vm_compute. repeat split; reflexivity. Qed.

(* ====================================================================== *)
(* Part 2: sums over threads                                               *)
(* ====================================================================== *)
Fixpoint zsum (f : nat -> Z) (n : nat) : Z :=
  match n with O => 0 | S k => zsum f k + f k end.

Lemma zsum_ext f g n : (forall j, (j < n)%nat -> f j = g j) -> zsum f n = zsum g n.
Proof. induction n; cbn; intros H; [reflexivity|]. rewrite IHn, H by (intros; try apply H; lia). reflexivity. Qed.

Lemma zsum_upd1 f f' n t : (t < n)%nat -> (forall j, j <> t -> f' j = f j) ->
  zsum f' n = zsum f n + (f' t - f t).
Proof.
  induction n; intros Ht H; [lia|]. cbn.
  destruct (Nat.eq_dec t n) as [->|Hn].
  - rewrite (zsum_ext f' f n) by (intros; apply H; lia). lia.
  - rewrite IHn by (auto; lia). rewrite (H n) by congruence. lia.
Qed.

Lemma zsum_upd2 f f' n t u : (t < n)%nat -> (u < n)%nat -> t <> u ->
  (forall j, j <> t -> j <> u -> f' j = f j) ->
  zsum f' n = zsum f n + (f' t - f t) + (f' u - f u).
Proof.
  intros Ht Hu Htu H.
  set (h := fun j => if Nat.eqb j u then f j else f' j).
  assert (E1 : zsum f' n = zsum h n + (f' u - h u)).
  { apply zsum_upd1; auto. intros j Hj. unfold h. destruct (Nat.eqb_spec j u); congruence. }
  assert (E2 : zsum h n = zsum f n + (h t - f t)).
  { apply zsum_upd1; auto. intros j Hj. unfold h. destruct (Nat.eqb_spec j u); [congruence|]. apply H; auto. }
  unfold h in *. rewrite Nat.eqb_refl in E1. destruct (Nat.eqb_spec t u); [congruence|]. lia.
Qed.

Lemma zsum_nonneg f n : (forall j, (j < n)%nat -> 0 <= f j) -> 0 <= zsum f n.
Proof. induction n; cbn; intros H; [lia|]. pose proof (H n ltac:(lia)). assert (0 <= zsum f n) by (apply IHn; intros; apply H; lia). lia. Qed.

Lemma zsum_ge1 f n t : (forall j, (j < n)%nat -> 0 <= f j) -> (t < n)%nat -> f t <= zsum f n.
Proof.
  induction n; intros H Ht; [lia|]. cbn.
  assert (0 <= zsum f n) by (apply zsum_nonneg; intros; apply H; lia).
  pose proof (H n ltac:(lia)).
  destruct (Nat.eq_dec t n) as [->|]; [lia|].
  assert (f t <= zsum f n) by (apply IHn; [intros; apply H|]; lia). lia.
Qed.

Lemma zsum_ge2 f n t u : (forall j, (j < n)%nat -> 0 <= f j) -> (t < n)%nat -> (u < n)%nat -> t <> u ->
  f t + f u <= zsum f n.
Proof.
  induction n; intros H Ht Hu Htu; [lia|]. cbn.
  pose proof (H n ltac:(lia)).
  assert (H' : forall j, (j < n)%nat -> 0 <= f j) by (intros; apply H; lia).
  destruct (Nat.eq_dec t n) as [->|]; [pose proof (zsum_ge1 f n u H' ltac:(lia)); lia|].
  destruct (Nat.eq_dec u n) as [->|]; [pose proof (zsum_ge1 f n t H' ltac:(lia)); lia|].
  assert (f t + f u <= zsum f n) by (apply IHn; auto; lia). lia.
Qed.

Lemma zsum_le f n b : (forall j, (j < n)%nat -> f j <= b) -> zsum f n <= b * Z.of_nat n.
Proof. induction n; intros H; cbn [zsum]; [lia|]. pose proof (H n ltac:(lia)). assert (zsum f n <= b * Z.of_nat n) by (apply IHn; intros; apply H; lia). lia. Qed.

Lemma zsum_add f g n : zsum (fun j => f j + g j) n = zsum f n + zsum g n.
Proof. induction n; cbn; lia. Qed.
