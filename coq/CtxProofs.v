(* C19 - proofs about the GENERATED context switch (gen/CtxGen.v).
   Everything here is re-checked against the code that tools/gen/gen_ctx.py
   extracted from src/fiber_context.c in this run: the proofs execute
   [swap_code] / [init_pushes] symbolically, so a dropped push/pop pair, a
   reordered pop, a changed displacement, stack adjustment or alignment mask
   makes them fail.

   Layout of the frame of a context that is not running ("suspended"), as the
   code itself produces it (lemma [roundtrip] proves that [swap_code] writes
   exactly this for the context it suspends):
       sp+0 r15  sp+8 r14  sp+16 r13  sp+24 r12  sp+32 rbx  sp+40 rbp  sp+48 rip
   with ctx_stack_pointer = sp and the context's own rsp = sp+56. *)
From Coq Require Import List ZArith Lia Bool.
From LF Require Import Conc CtxIsa.
From LF Require Import gen.CtxGen.
Import ListNotations.
Open Scope Z_scope.

(* registers the constraint list ties to the two input operands *)
Definition from_reg : reg :=
  match input_reg SrcFromSlot swap_inputs with Some r => r | None => RAX end.
Definition to_reg : reg :=
  match input_reg SrcToSp swap_inputs with Some r => r | None => RAX end.

(* the label whose address the template saves as the resume rip: the template
   must end with it, so that nothing of the template runs after a resume *)
Definition resume_label : nat :=
  match last swap_code (IJmp RAX) with ILabel l => l | _ => O end.

Definition callee_saved : list reg := [RBX; RBP; R12; R13; R14; R15].

Record frame := { f_sp : Z; f_r15 : Z; f_r14 : Z; f_r13 : Z; f_r12 : Z;
                  f_rbx : Z; f_rbp : Z; f_rip : Z }.

Definition frame_at (m : Z -> Z) (f : frame) : Prop :=
  f_sp f mod 8 = 0 /\
  m (f_sp f) = f_r15 f /\ m (f_sp f + 8) = f_r14 f /\ m (f_sp f + 16) = f_r13 f /\
  m (f_sp f + 24) = f_r12 f /\ m (f_sp f + 32) = f_rbx f /\ m (f_sp f + 40) = f_rbp f /\
  m (f_sp f + 48) = f_rip f.

(* the frame [swap_code] writes for the context that calls it in state g *)
Definition frame_of (g : mach) (resume : Z) : frame :=
  {| f_sp := rg g RSP - 56; f_r15 := rg g R15; f_r14 := rg g R14; f_r13 := rg g R13;
     f_r12 := rg g R12; f_rbx := rg g RBX; f_rbp := rg g RBP; f_rip := resume |}.

(* ---------- symbolic execution ---------- *)
Lemma aligned8_true a : a mod 8 = 0 -> aligned8 a = true.
Proof. intros H. unfold aligned8. now rewrite H. Qed.

Lemma upd_mem_hit f a v x : x = a -> upd_mem f a v x = v.
Proof. intros ->. apply upd_mem_same. Qed.

Ltac mach_cbn :=
  cbn [run length swap_code nth_error step setr setm set_rip rg mm rip upd_reg reg_eqb
       f_sp f_r15 f_r14 f_r13 f_r12 f_rbx f_rbp f_rip frame_of].
Ltac solve_align := Z.div_mod_to_equations; lia.
Ltac sym_exec := mach_cbn; repeat (rewrite aligned8_true by solve_align; mach_cbn).
Ltac mem_read :=
  repeat first [ rewrite upd_mem_hit by lia | rewrite upd_mem_other by lia ].
Ltac close_mem :=
  match goal with
  | H : ?f ?Y = ?v |- ?f ?X = ?v => replace X with Y by lia; exact H
  end.
Ltac concrete_operands :=
  let r := eval vm_compute in from_reg in change from_reg with r in *;
  let r := eval vm_compute in to_reg in change to_reg with r in *;
  let l := eval vm_compute in resume_label in change resume_label with l in *.

(* the template ends with the resume label; the lea at its head refers to it *)
Lemma resume_is_end : exists pre, swap_code = pre ++ [ILabel resume_label].
Proof. exists (removelast swap_code). vm_compute. reflexivity. Qed.

Lemma operands_distinct :
  input_reg SrcFromSlot swap_inputs = Some from_reg /\
  input_reg SrcToSp swap_inputs = Some to_reg /\ from_reg <> to_reg.
Proof. vm_compute. repeat split; discriminate. Qed.

(* ---------- one switch ---------- *)
Definition resumed (fB : frame) (m' : mach) : Prop :=
  rip m' = f_rip fB /\
  rg m' R15 = f_r15 fB /\ rg m' R14 = f_r14 fB /\ rg m' R13 = f_r13 fB /\
  rg m' R12 = f_r12 fB /\ rg m' RBX = f_rbx fB /\ rg m' RBP = f_rbp fB /\
  rg m' RSP = f_sp fB + 56.

Lemma roundtrip la m fB :
  let slotA := rg m from_reg in
  let rspA := rg m RSP in
  frame_at (mm m) fB ->
  rg m to_reg = f_sp fB ->
  rspA mod 8 = 0 -> slotA mod 8 = 0 ->
  (rspA <= f_sp fB \/ f_sp fB + 56 <= rspA - 56) ->
  ~ (f_sp fB <= slotA < f_sp fB + 56) ->
  ~ (rspA - 56 <= slotA < rspA) ->
  exists m',
    exec la swap_code m = Exited m' /\
    resumed fB m' /\
    rg m' RDI = mm m' (f_sp fB + 64) /\
    (forall a, ~ (rspA - 56 <= a < rspA) -> a <> slotA -> mm m' a = mm m a) /\
    mm m' slotA = rspA - 56 /\
    frame_at (mm m') (frame_of m (la resume_label)).
Proof.
  intros slotA rspA [Hb [F15 [F14 [F13 [F12 [Fbx [Fbp Frip]]]]]]] Hto Ha Hs Hdis Hs1 Hs2.
  subst slotA rspA. concrete_operands. unfold exec.
  sym_exec. eexists. split; [reflexivity|].
  unfold resumed, frame_at. mach_cbn. rewrite Hto in *.
  repeat split; mem_read; try reflexivity; try close_mem; try lia.
  - intros a Ha1 Ha2. mem_read. reflexivity.
  - solve_align.
Qed.

(* ---------- the frame fiber_context_init builds ---------- *)
Definition fresh_frame (sp fn : Z) : frame :=
  {| f_sp := sp; f_r15 := 0; f_r14 := 0; f_r13 := 0; f_r12 := 0; f_rbx := 0; f_rbp := 0;
     f_rip := fn |}.

(* room for the top adjustment, the alignment slack and the pushed words
   (8 + 15 + 80 = 103 bytes for the pinned source) *)
Definition init_min_size : Z :=
  8 * init_top_back_words + init_align_mask + 8 * Z.of_nat (length init_pushes).

Lemma init_frame base size param fn mem :
  init_min_size <= size ->
  exists sp mem',
    init_context init_top_back_words init_align_mask init_pushes base size param fn mem
      = Some (sp, mem') /\
    sp mod 16 = 0 /\ base <= sp /\ sp + 72 + 8 <= base + size /\
    frame_at mem' (fresh_frame sp fn) /\
    mem' (sp + 56) = 0 /\ mem' (sp + 64) = param /\
    (forall a, ~ (sp <= a < sp + 72) -> mem' a = mem a).
Proof.
  intros Hsz. unfold init_context, init_top, align_down.
  let v := eval vm_compute in init_min_size in change init_min_size with v in Hsz.
  let v := eval vm_compute in (init_align_mask + 1) in change (init_align_mask + 1) with v.
  let v := eval vm_compute in (8 * init_top_back_words) in change (8 * init_top_back_words) with v.
  match goal with
  | |- context [?x - ?x mod ?k] =>
    remember (x - x mod k) as T eqn:ET;
    assert (HT : T mod 16 = 0) by (subst T; Z.div_mod_to_equations; lia);
    assert (HT1 : x - (k - 1) <= T <= x) by (subst T; Z.div_mod_to_equations; lia)
  end.
  clear ET.
  cbn [init_pushes do_pushes].
  repeat (rewrite aligned8_true by solve_align).
  eexists. eexists. split; [reflexivity|].
  unfold frame_at, fresh_frame; cbn [f_sp f_r15 f_r14 f_r13 f_r12 f_rbx f_rbp f_rip].
  repeat split; mem_read; try reflexivity; try lia; try solve_align.
  intros a Ha. mem_read. reflexivity.
Qed.

Lemma fresh la m base size param fn mem0 mem1 sp :
  let slotA := rg m from_reg in
  let rspA := rg m RSP in
  init_min_size <= size ->
  init_context init_top_back_words init_align_mask init_pushes base size param fn mem0
    = Some (sp, mem1) ->
  (forall a, sp <= a < sp + 72 -> mm m a = mem1 a) ->
  rg m to_reg = sp ->
  rspA mod 8 = 0 -> slotA mod 8 = 0 ->
  (rspA <= base \/ base + size <= rspA - 56) ->
  ~ (base <= slotA < base + size) ->
  ~ (rspA - 56 <= slotA < rspA) ->
  exists m',
    exec la swap_code m = Exited m' /\
    rip m' = fn /\ rg m' RDI = param /\
    rg m' RSP mod 16 = 8 /\ base <= rg m' RSP /\ rg m' RSP + 8 <= base + size /\
    mm m' (rg m' RSP) = 0 /\
    (forall r, In r callee_saved -> rg m' r = 0) /\
    mm m' slotA = rspA - 56 /\
    frame_at (mm m') (frame_of m (la resume_label)).
Proof.
  intros slotA rspA Hsz Hinit Hkeep Hto Ha Hs Hdis Hs1 Hs2.
  destruct (init_frame base size param fn mem0 Hsz)
    as [sp' [mem' [E [Hal [Hlo [Hhi [Hfr [Hnull [Hpar _]]]]]]]]].
  rewrite E in Hinit. inversion Hinit; subst sp' mem'. clear Hinit E.
  assert (Hfr' : frame_at (mm m) (fresh_frame sp fn)).
  { destruct Hfr as [F0 [F1 [F2 [F3 [F4 [F5 [F6 F7]]]]]]].
    unfold frame_at. cbn [fresh_frame f_sp f_rip f_r15 f_r14 f_r13 f_r12 f_rbx f_rbp] in *.
    repeat split; auto; rewrite Hkeep by lia; assumption. }
  destruct (roundtrip la m (fresh_frame sp fn)) as [m' [Hex [Hres [Hrdi [Hfc [Hsl HfA]]]]]];
    cbn [fresh_frame f_sp]; auto; try (subst slotA rspA; lia).
  destruct Hres as [R0 [R15_ [R14_ [R13_ [R12_ [RBX_ [RBP_ RSP_]]]]]]].
  cbn [fresh_frame f_sp f_rip f_r15 f_r14 f_r13 f_r12 f_rbx f_rbp] in *.
  exists m'. split; [exact Hex|].
  assert (Hin : forall a, sp <= a < sp + 72 -> mm m' a = mem1 a).
  { intros a Ia. rewrite <- Hkeep by lia. apply Hfc; subst slotA rspA; lia. }
  repeat split; auto; try apply HfA.
  - rewrite Hrdi, Hin by lia. exact Hpar.
  - rewrite RSP_. Z.div_mod_to_equations; lia.
  - lia.
  - lia.
  - rewrite RSP_, Hin by lia. exact Hnull.
  - intros r Hr. cbn in Hr.
    repeat (destruct Hr as [<-|Hr]; [assumption|]). contradiction.
Qed.

(* ---------- which registers the template writes ---------- *)
Definition clobber_regs (l : list clobber) : list reg :=
  flat_map (fun c => match c with CReg r => [r] | _ => [] end) l.

(* written, neither restored for the resumed context nor an output operand nor
   a declared clobber *)
Definition undeclared_writes : list reg :=
  filter (fun r => mem_reg r (written swap_code)
                   && negb (mem_reg r (RSP :: callee_saved))
                   && negb (mem_reg r swap_outputs)
                   && negb (mem_reg r (clobber_regs swap_clobbers))) all_regs.

Lemma writes_allowed : forall r, In r (written swap_code) ->
  In r (RSP :: callee_saved) \/ In r (map snd swap_inputs) \/ In r [RAX; RCX; RDI].
Proof.
  assert (H : forallb (fun r => mem_reg r (RSP :: callee_saved) || mem_reg r (map snd swap_inputs)
                                || mem_reg r [RAX; RCX; RDI]) (written swap_code) = true)
    by (vm_compute; reflexivity).
  intros r Hr. rewrite forallb_forall in H. specialize (H r Hr).
  rewrite !orb_true_iff, !mem_reg_In in H. tauto.
Qed.

Lemma undeclared_exact : undeclared_writes = [RAX; RCX; RDI].
Proof. vm_compute. reflexivity. Qed.

Lemma asm_shape : swap_asm_is_last = true /\ swap_volatile = true /\ In CMemory swap_clobbers.
Proof. vm_compute. repeat split; auto. Qed.

Lemma unwritten_preserved la m m' r :
  exec la swap_code m = Exited m' -> ~ In r (written swap_code) -> rg m' r = rg m r.
Proof. intros H N. eapply run_unwritten; eauto. Qed.

(* ---------- the C statements around the template (syntactic shape) ---------- *)
(* the split-stack bookkeeping of fiber_context_swap, as (condition, call) pairs *)
Definition split_calls : list (pguard * pkind) :=
  map (fun c => (pc_guard c, pc_kind c))
      (filter (fun c => is_split_kind (pc_kind c) || is_split_guard (pc_guard c)) swap_prologue).

Lemma prologue_ok :
  forallb pc_uncond swap_prologue = true /\
  split_calls = [(GSplit, KSplitGetFrom); (GSplit, KSplitSetTo)].
Proof. vm_compute. split; reflexivity. Qed.

Lemma stack_calls_ok :
  init_alloc_calls = 1%nat /\ init_alloc_first = true /\
  destroy_free_calls = 1%nat /\ destroy_guard_not_thread = true.
Proof. vm_compute. repeat split; reflexivity. Qed.

(* ---------- any sequence of switches among any set of contexts ---------- *)
(* [live] is the set of contexts; per context c: [slot c] = address of its
   ctx_stack_pointer field, its private stack is [lo c, hi c) *)
Record layout := { live : nat -> Prop; slot : nat -> Z; lo : nat -> Z; hi : nat -> Z }.

(* stacks pairwise disjoint; the ctx_stack_pointer fields are distinct aligned
   words outside every stack *)
Definition layout_ok (L : layout) : Prop :=
  (forall c d, live L c -> live L d -> c <> d -> hi L c <= lo L d \/ hi L d <= lo L c) /\
  (forall c d, live L c -> live L d -> c <> d -> slot L c <> slot L d) /\
  (forall c d, live L c -> live L d -> ~ (lo L d <= slot L c < hi L d)) /\
  (forall c, live L c -> slot L c mod 8 = 0).

(* [w_out c] = the machine state context c was in when it last called the
   switch (register file, memory), with rip = where it will continue; for a
   context that has not run yet, the state fiber_context_init prepared *)
Record world := { w_m : mach; w_cur : nat; w_out : nat -> mach }.

Definition suspended_ok (L : layout) (mem : Z -> Z) (c : nat) (g : mach) : Prop :=
  lo L c + 56 <= rg g RSP /\ rg g RSP <= hi L c /\
  mem (slot L c) = rg g RSP - 56 /\
  frame_at mem (frame_of g (rip g)) /\
  (forall a, rg g RSP <= a < hi L c -> mem a = mm g a).

Definition Inv (L : layout) (w : world) : Prop :=
  live L (w_cur w) /\
  forall c, live L c -> c <> w_cur w -> suspended_ok L (mm (w_m w)) c (w_out w c).

(* what the caller of fiber_context_swap establishes *)
Definition switch_pre (L : layout) (w : world) (to : nat) : Prop :=
  live L to /\ to <> w_cur w /\
  rg (w_m w) from_reg = slot L (w_cur w) /\
  rg (w_m w) to_reg = mm (w_m w) (slot L to) /\
  rg (w_m w) RSP mod 8 = 0 /\
  lo L (w_cur w) + 56 <= rg (w_m w) RSP /\ rg (w_m w) RSP <= hi L (w_cur w).

Inductive wstep (la : nat -> Z) (L : layout) : world -> world -> Prop :=
| ws_user w m' :
    (* the running context computes: any registers, any memory except the
       saved parts of the OTHER contexts (stacks are private) *)
    (forall c, live L c -> c <> w_cur w ->
       mm m' (slot L c) = mm (w_m w) (slot L c) /\
       forall a, rg (w_out w c) RSP - 56 <= a < hi L c -> mm m' a = mm (w_m w) a) ->
    wstep la L w {| w_m := m'; w_cur := w_cur w; w_out := w_out w |}
| ws_switch w to m' :
    switch_pre L w to ->
    exec la swap_code (w_m w) = Exited m' ->
    wstep la L w {| w_m := m'; w_cur := to;
                    w_out := upd (w_out w) (w_cur w) (set_rip (w_m w) (la resume_label)) |}.

Inductive wreach (la : nat -> Z) (L : layout) (w0 : world) : world -> Prop :=
| wr_init : wreach la L w0 w0
| wr_step w w' : wreach la L w0 w -> wstep la L w w' -> wreach la L w0 w'.

(* what the resumed context observes, against the state g it was switched out in *)
Definition observes (L : layout) (c : nat) (g m' : mach) : Prop :=
  rip m' = rip g /\ rg m' RSP = rg g RSP /\
  (forall r, In r callee_saved -> rg m' r = rg g r) /\
  (forall a, rg g RSP <= a < hi L c -> mm m' a = mm g a).

Lemma suspended_ok_ext L mem mem' c g :
  suspended_ok L mem c g ->
  mem' (slot L c) = mem (slot L c) ->
  (forall a, rg g RSP - 56 <= a < hi L c -> mem' a = mem a) ->
  suspended_ok L mem' c g.
Proof.
  intros [H1 [H2 [H3 [[F0 [F1 [F2 [F3 [F4 [F5 [F6 F7]]]]]]] H5]]]] Hs Hm.
  unfold suspended_ok, frame_at in *. cbn [frame_of f_sp f_r15 f_r14 f_r13 f_r12 f_rbx f_rbp f_rip] in *.
  repeat split; auto; try lia; try (rewrite Hm by lia; assumption);
    try (rewrite Hs; assumption).
  intros a Ha. rewrite Hm by lia. auto.
Qed.

Lemma switch_ok la L w to :
  layout_ok L -> Inv L w -> switch_pre L w to ->
  exists m', exec la swap_code (w_m w) = Exited m' /\
    observes L to (w_out w to) m' /\
    Inv L {| w_m := m'; w_cur := to;
             w_out := upd (w_out w) (w_cur w) (set_rip (w_m w) (la resume_label)) |}.
Proof.
  intros [Ldis [Lslot [Lout Lal]]] [Lcur I] [Lto [Hne [Hfrom [Hto [Hal [Hlo Hhi]]]]]].
  pose proof (I to Lto Hne) as [S1 [S2 [S3 [S4 S5]]]].
  set (m := w_m w) in *. set (cur := w_cur w) in *. set (g := w_out w to) in *.
  pose proof (Ldis cur to Lcur Lto (not_eq_sym Hne)) as D.
  pose proof (Lout cur to Lcur Lto) as O1. pose proof (Lout cur cur Lcur Lcur) as O2.
  pose proof (Lal cur Lcur) as A1.
  assert (Fsp : f_sp (frame_of g (rip g)) = rg g RSP - 56) by reflexivity.
  destruct (roundtrip la m (frame_of g (rip g))) as [m' [Hex [Hres [_ [Hfc [Hsl HfA]]]]]];
    rewrite ?Fsp, ?Hfrom; auto; try lia; try (rewrite Hto, S3; reflexivity).
  exists m'. split; [exact Hex|]. split.
  - destruct Hres as [R0 [R15_ [R14_ [R13_ [R12_ [RBX_ [RBP_ RSP_]]]]]]].
    cbn [frame_of f_sp f_rip f_r15 f_r14 f_r13 f_r12 f_rbx f_rbp] in *.
    repeat split; auto; try lia.
    + intros r Hr. cbn in Hr. repeat (destruct Hr as [<-|Hr]; [assumption|]). contradiction.
    + intros a Ha. rewrite Hfc; [apply S5; exact Ha | lia | rewrite Hfrom; lia].
  - split; [exact Lto|]. intros c Lc Hc. cbn [w_cur w_m w_out] in *.
    destruct (Nat.eq_dec c cur) as [->|Hcc].
    + rewrite upd_same. unfold suspended_ok. cbn [set_rip rg mm rip].
      repeat split; auto; try lia; try apply HfA.
      * rewrite <- Hfrom. exact Hsl.
      * intros a Ha. apply Hfc; [lia | rewrite Hfrom; lia].
    + rewrite upd_other by exact Hcc.
      pose proof (I c Lc Hcc) as Sc. pose proof Sc as [C1 [C2 _]].
      pose proof (Ldis cur c Lcur Lc (not_eq_sym Hcc)) as Dc.
      pose proof (Lout cur c Lcur Lc) as Oc. pose proof (Lout c cur Lc Lcur) as Oc2.
      eapply suspended_ok_ext; [exact Sc | |].
      * apply Hfc; [lia | rewrite Hfrom; apply not_eq_sym; apply Lslot; auto ].
      * intros a Ha. apply Hfc; [lia | rewrite Hfrom; lia].
Qed.

Lemma inv_step la L w w' : layout_ok L -> Inv L w -> wstep la L w w' -> Inv L w'.
Proof.
  intros HL I St. destruct St as [w m' Hu | w to m' Hpre Hex].
  - destruct I as [Lcur I]. split; [exact Lcur|].
    intros c Lc Hc. cbn [w_cur w_m w_out] in *. destruct (Hu c Lc Hc) as [U1 U2].
    eapply suspended_ok_ext; [exact (I c Lc Hc) | exact U1 | exact U2].
  - destruct (switch_ok la L w to HL I Hpre) as [m'' [Hex' [_ I']]].
    rewrite Hex in Hex'. inversion Hex'; subst m''. exact I'.
Qed.

Lemma inv_reach la L w0 w : layout_ok L -> Inv L w0 -> wreach la L w0 w -> Inv L w.
Proof. intros HL I0 R. induction R; auto. eapply inv_step; eauto. Qed.

Lemma sequence la L w0 w to :
  layout_ok L -> Inv L w0 -> wreach la L w0 w -> switch_pre L w to ->
  exists m', exec la swap_code (w_m w) = Exited m' /\ observes L to (w_out w to) m'.
Proof.
  intros HL I0 R Hpre. pose proof (inv_reach la L w0 w HL I0 R) as I.
  destruct (switch_ok la L w to HL I Hpre) as [m' [Hex [Hobs _]]]. eauto.
Qed.
