(* Lemmas shared by the C20 proofs (LifoProofs, MStackProofs, DistFifoProofs,
   MultiSignalProofs): list segments through [next] fields and the node
   ownership discipline.  No model here. *)
From Coq Require Import List Arith Lia Permutation.
From LF Require Import Conc.
Import ListNotations.

(* ---------- list segments through the [next] fields ---------- *)
Fixpoint chain (nx : nat -> nat) (h : nat) (L : list nat) : Prop :=
  match L with
  | [] => h = 0
  | a :: r => h = a /\ a <> 0 /\ chain nx (nx a) r
  end.

Lemma chain_ext nx nx' L : forall h, (forall n, In n L -> nx' n = nx n) -> chain nx h L -> chain nx' h L.
Proof.
  induction L as [|a r IH]; intros h E C; cbn in *; auto.
  destruct C as (Eh & Z & C). repeat split; auto.
  rewrite E by auto. apply IH; auto.
Qed.

Lemma chain_upd nx n v L h : ~ In n L -> chain nx h L -> chain (upd nx n v) h L.
Proof.
  intros Hn. apply chain_ext. intros m Hm. apply upd_other. intros ->. auto.
Qed.

Lemma chain_zero nx L : chain nx 0 L -> L = [].
Proof. destruct L; cbn; auto. intros (E & Z & _). congruence. Qed.

Lemma chain_cons_inv nx h L : chain nx h L -> h <> 0 -> exists r, L = h :: r /\ chain nx (nx h) r.
Proof. destruct L; cbn; [congruence|]. intros (E & Z & C) _. subst. eauto. Qed.

Lemma chain_head_in nx h L : chain nx h L -> h <> 0 -> In h L.
Proof. intros C Z. destruct (chain_cons_inv _ _ _ C Z) as (r & -> & _). left; auto. Qed.

Lemma chain_nz nx L : forall h n, chain nx h L -> In n L -> n <> 0.
Proof.
  induction L as [|a r IH]; intros h n C Hi; cbn in *; [tauto|].
  destruct C as (E & Z & C). destruct Hi as [<-|Hi]; eauto.
Qed.

(* appending at the end: the last node's next field is written *)
Lemma chain_snoc nx L : forall h l n, chain nx h (L ++ [l]) -> n <> 0 -> ~ In n (L ++ [l]) -> nx n = 0 ->
  NoDup (L ++ [l]) -> chain (upd nx l n) h (L ++ [l] ++ [n]).
Proof.
  induction L as [|a r IH]; intros h l n C Z Hn En D; cbn in *.
  - destruct C as (E & Zl & C). repeat split; auto; rewrite ?upd_same; auto.
    rewrite upd_other by (intros ->; apply Hn; auto). exact En.
  - destruct C as (E & Za & C). inversion D; subst. repeat split; auto.
    rewrite upd_other.
    + apply IH; auto.
    + intros ->. apply H1. apply in_or_app. right. left. reflexivity.
Qed.

Lemma nodup_remove (y : nat) l : NoDup l -> NoDup (remove Nat.eq_dec y l).
Proof.
  induction 1 as [|a l Hn Hd IH]; cbn; [constructor|].
  destruct (Nat.eq_dec y a); auto. constructor; auto.
  intros Hi. apply in_remove in Hi. tauto.
Qed.

Lemma remove_perm (y : nat) l : NoDup l -> In y l -> Permutation l (y :: remove Nat.eq_dec y l).
Proof.
  induction 1 as [|a l Hn Hd IH]; cbn; [tauto|]. intros [->|Hi].
  - destruct (Nat.eq_dec y y); [|congruence]. rewrite notin_remove; auto.
  - destruct (Nat.eq_dec y a) as [->|Hne]; [contradiction|].
    rewrite perm_swap. constructor. auto.
Qed.

Lemma nodup_app_intro (a b : list nat) :
  NoDup a -> NoDup b -> (forall x, In x a -> ~ In x b) -> NoDup (a ++ b).
Proof.
  induction 1 as [|x a Hn Hd IH]; intros Hb Hx; cbn; auto.
  constructor.
  - rewrite in_app_iff. intros [?|?]; [auto|]. eapply Hx; eauto. left; auto.
  - apply IH; auto. intros y Hy. apply Hx. right; auto.
Qed.

Lemma nodup_app_l (a b : list nat) : NoDup (a ++ b) -> NoDup a.
Proof.
  induction a as [|x a IH]; cbn; intros D; [constructor|]. inversion D; subst.
  constructor; auto. intros Hi. apply H1. apply in_or_app; auto.
Qed.
Lemma nodup_app_r (a b : list nat) : NoDup (a ++ b) -> NoDup b.
Proof. induction a as [|x a IH]; cbn; intros D; auto. inversion D; auto. Qed.
Lemma nodup_app_disj (a b : list nat) x : NoDup (a ++ b) -> In x a -> ~ In x b.
Proof.
  induction a as [|y a IH]; cbn; [tauto|]. intros D [->|Hi] Hb.
  - inversion D; subst. apply H1. apply in_or_app; auto.
  - inversion D; subst. eapply IH; eauto.
Qed.

(* ---------- node ownership ----------
   [stk] = nodes inside the structure, [H t] = nodes held by thread t.
   Every node of the universe U is in exactly one place. *)
Record OwnInv (U : nat -> Prop) (stk : list nat) (H : nat -> list nat) : Prop := {
  o_nodup : NoDup stk;
  o_snz : forall n, In n stk -> n <> 0;
  o_hnodup : forall t, NoDup (H t);
  o_hnz : forall t n, In n (H t) -> n <> 0;
  o_disj : forall t u n, In n (H t) -> In n (H u) -> t = u;
  o_hs : forall t n, In n (H t) -> ~ In n stk;
  o_all : forall n, U n -> In n stk \/ exists t, In n (H t)
}.

(* thread t rearranges what it holds *)
Lemma own_perm U stk H H' t :
  (forall u, u <> t -> H' u = H u) -> Permutation (H t) (H' t) ->
  OwnInv U stk H -> OwnInv U stk H'.
Proof.
  intros Hf P [A Z B C D E F].
  assert (Sub : forall u n, In n (H' u) -> In n (H u)).
  { intros u n. destruct (Nat.eq_dec u t) as [->|Hu]; [|rewrite Hf; auto].
    apply Permutation_in. apply Permutation_sym; auto. }
  constructor; auto.
  - intros u. destruct (Nat.eq_dec u t) as [->|Hu]; [|rewrite Hf; auto].
    eapply Permutation_NoDup; eauto.
  - intros u n Hi. eapply C; eauto.
  - intros u v n H1 H2. eapply D; eauto.
  - intros u n Hi. eapply E; eauto.
  - intros n Hn. destruct (F n Hn) as [?|[u Hu]]; auto. right. exists u.
    destruct (Nat.eq_dec u t) as [->|Hne]; [|rewrite Hf; auto]. eapply Permutation_in; eauto.
Qed.

(* thread t hands node n to the structure (n becomes the new first element) *)
Lemma own_give U stk H H' t n :
  (forall u, u <> t -> H' u = H u) -> Permutation (H t) (n :: H' t) ->
  OwnInv U stk H -> OwnInv U (n :: stk) H'.
Proof.
  intros Hf P [A Z B C D E F].
  assert (Hn : In n (H t)) by (eapply Permutation_in; [apply Permutation_sym; eauto|left; auto]).
  assert (Dn : NoDup (n :: H' t)) by (eapply Permutation_NoDup; eauto).
  inversion Dn as [|? ? Dn1 Dn2]; subst.
  assert (Sub : forall u m, In m (H' u) -> In m (H u) /\ m <> n).
  { intros u m Hi. destruct (Nat.eq_dec u t) as [->|Hu].
    - split; [eapply Permutation_in; [apply Permutation_sym; eauto|right; auto]|]. intros ->. auto.
    - rewrite Hf in Hi by auto. split; auto. intros ->. apply Hu. eapply D; eauto. }
  constructor.
  - constructor; auto. eapply E; eauto.
  - intros m [<-|Hm]; eauto.
  - intros u. destruct (Nat.eq_dec u t) as [->|Hu]; [auto|rewrite Hf; auto].
  - intros u m Hi. eapply C. apply (Sub u m Hi).
  - intros u v m H1 H2. eapply D; [apply (Sub u m H1)|apply (Sub v m H2)].
  - intros u m Hi [<-|Hs].
    + apply (Sub u n Hi). reflexivity.
    + eapply E; [apply (Sub u m Hi)|auto].
  - intros m Hm. destruct (F m Hm) as [?|[u Hu]]; [left; right; auto|].
    destruct (Nat.eq_dec m n) as [->|Hne]; [left; left; auto|]. right. exists u.
    destruct (Nat.eq_dec u t) as [->|Hut]; [|rewrite Hf; auto].
    apply (Permutation_in _ P) in Hu. destruct Hu; [congruence|auto].
Qed.

(* thread t takes the nodes L out of the structure *)
Lemma own_take U L stk H H' t :
  (forall u, u <> t -> H' u = H u) -> Permutation (H' t) (L ++ H t) ->
  OwnInv U (L ++ stk) H -> OwnInv U stk H'.
Proof.
  intros Hf P [A Z B C D E F].
  assert (Sub : forall u m, In m (H' u) -> In m (H u) \/ (u = t /\ In m L)).
  { intros u m Hi. destruct (Nat.eq_dec u t) as [->|Hu]; [|rewrite Hf in Hi; auto].
    apply (Permutation_in _ P) in Hi. apply in_app_or in Hi. tauto. }
  assert (LH : forall u m, In m L -> ~ In m (H u)).
  { intros u m Hl Hh. apply (E u m Hh). apply in_or_app; auto. }
  constructor.
  - eapply nodup_app_r; eauto.
  - intros m Hm. apply Z. apply in_or_app; auto.
  - intros u. destruct (Nat.eq_dec u t) as [->|Hu]; [|rewrite Hf; auto].
    eapply Permutation_NoDup; [apply Permutation_sym; eauto|].
    apply nodup_app_intro; auto. eapply nodup_app_l; eauto.
  - intros u m Hi. destruct (Sub u m Hi) as [?|[_ ?]]; eauto. apply Z. apply in_or_app; auto.
  - intros u v m H1 H2. destruct (Sub u m H1) as [A1|[-> A1]]; destruct (Sub v m H2) as [A2|[-> A2]]; eauto.
    + exfalso. eapply LH; eauto.
    + exfalso. eapply LH; eauto.
  - intros u m Hi Hs. destruct (Sub u m Hi) as [A1|[_ A1]].
    + apply (E u m A1). apply in_or_app; auto.
    + eapply nodup_app_disj; eauto.
  - intros m Hm. destruct (F m Hm) as [Hi|[u Hu]].
    + apply in_app_or in Hi. destruct Hi as [Hi|Hi]; auto. right. exists t.
      eapply Permutation_in; [apply Permutation_sym; eauto|]. apply in_or_app; auto.
    + right. exists u. destruct (Nat.eq_dec u t) as [->|Hut]; [|rewrite Hf; auto].
      eapply Permutation_in; [apply Permutation_sym; eauto|]. apply in_or_app; auto.
Qed.

(* thread t appends node n at the far end of the structure (FIFO push) *)
Lemma own_give_end U stk H H' t n :
  (forall u, u <> t -> H' u = H u) -> Permutation (H t) (n :: H' t) ->
  OwnInv U stk H -> OwnInv U (stk ++ [n]) H'.
Proof.
  intros Hf P I. pose proof (own_give U stk H H' t n Hf P I) as [A Z B C D E F].
  assert (Pm : Permutation (n :: stk) (stk ++ [n])) by (apply Permutation_cons_append).
  constructor; auto.
  - eapply Permutation_NoDup; eauto.
  - intros m Hm. apply Z. eapply Permutation_in; [apply Permutation_sym; eauto|auto].
  - intros u m Hi Hs. apply (E u m Hi). eapply Permutation_in; [apply Permutation_sym; eauto|auto].
  - intros m Hm. destruct (F m Hm) as [Hi|?]; auto. left. eapply Permutation_in; eauto.
Qed.

(* node n moves from holder i to holder j *)
Lemma own_move U stk H H' i j n :
  i <> j -> Permutation (H i) (n :: H' i) -> H' j = n :: H j ->
  (forall u, u <> i -> u <> j -> H' u = H u) ->
  OwnInv U stk H -> OwnInv U stk H'.
Proof.
  intros Hij P Ej Ho I.
  pose (H1 := upd H i (H' i)).
  assert (I1 : OwnInv U (n :: stk) H1).
  { apply (own_give U stk H H1 i n); auto.
    - intros u Hu. unfold H1. apply upd_other; auto.
    - unfold H1. rewrite upd_same. exact P. }
  apply (own_take U [n] stk H1 H' j); auto.
  - intros u Hu. unfold H1. destruct (Nat.eq_dec u i) as [->|Hi].
    + rewrite upd_same. reflexivity.
    + rewrite upd_other by assumption. apply Ho; auto.
  - unfold H1. rewrite upd_other by auto. rewrite Ej. apply Permutation_refl.
Qed.

Lemma chain_last nx L : forall h, chain nx h L -> L <> [] -> nx (last L 0) = 0.
Proof.
  induction L as [|a r IH]; intros h C Hne; [congruence|].
  cbn in C. destruct C as (E & Z & C). destruct r as [|b r'].
  - cbn in *. exact C.
  - change (last (a :: b :: r') 0) with (last (b :: r') 0). eapply IH; eauto. discriminate.
Qed.

Lemma last_in (L : list nat) : L <> [] -> In (last L 0) L.
Proof.
  induction L as [|a r IH]; [congruence|]. intros _. destruct r as [|b r'].
  - left; reflexivity.
  - right. apply IH. discriminate.
Qed.
