(* Model of include/dist_fifo.h (C20): one step per shared access.
   locs: 0 = head.counter, 1 = head.node (one 16-byte DCAS cell), 2 = fifo.tail;
   node n (ids 1.., 0 = NULL): data at loc 98+2n, next at loc 99+2n.
   head.node is a dummy; the queue content are the nodes linked behind it.
   push (thread 0 only):  [harness: n->data = v]; t = fifo->tail; n->next = NULL;
                          t->next = n; fifo->tail = n
   trypop: c = head.counter; h = head.node; x = h->next; if x == NULL -> EMPTY;
           d = x->data; DCAS((c,h) -> (c+1,x)) fails -> RETRY;
           h->data = d; return h      [harness: read h->data, node -> pool]
   All of these are plain (volatile) accesses except the DCAS, which is one
   step comparing both words and emitting two trace lines (115 ok / 125 fail).
   The reads of h->next and x->data may hit nodes that were popped and reused
   in the meantime (stale values); the DCAS then fails.
   Counter: unbounded Z, no wrap in the model (guard: fewer than 2^64
   successful pops between a trypop's counter read and its DCAS).
   The pool is the harness-level free list: thread 0 takes the node for a push
   from it when the call starts, a popper puts its node back (front) when its
   call ends. *)
From Coq Require Import List ZArith Lia Bool Arith.
From LF Require Import Conc.
Import ListNotations.

Inductive op := OPush (a : nat) | OPop | ODrain.

Inductive pcT := HData | PTail | PNull | PLink | PSetTail
               | QCtr | QNode | QNext | QData | QCas | QWData | QRData | Fin.

Record tst := { pc : pcT; sc : Z; sh : nat; sn : nat; sd : nat; node : nat; val : nat; ltl : nat;
                drain : bool; prog : list op; opi : nat }.

Record st := { ctr : Z; hnode : nat; tail : nat; next : nat -> nat; data : nat -> nat;
               pool : list nat; thr : nat -> tst; nthr : nat }.

Definition retz (t i : nat) (v : Z) : list Z := [Z.of_nat t; Z.of_nat i; 909%Z; v].
Definition retev (t i v : nat) : list Z := retz t i (Z.of_nat v).

Definition mk (p : pcT) (nd v : nat) (dr : bool) (r : list op) (i : nat) : tst :=
  {| pc := p; sc := 0; sh := 0; sn := 0; sd := 0; node := nd; val := v; ltl := 0;
     drain := dr; prog := r; opi := i |}.

(* begin the next call; returns the new thread state, the new pool, events *)
Fixpoint begin (t : nat) (pl : list nat) (p : list op) (i : nat) : tst * list nat * list Z :=
  match p with
  | [] => (mk Fin 0 0 false [] i, pl, [])
  | OPush a :: r =>
      match t, pl with
      | O, _ :: _ =>
          let n := nth ((a mod 8) mod length pl) pl 0 in
          (mk HData n (a / 8 + 1) false r (S i), remove Nat.eq_dec n pl, [])
      | _, _ => let '(T, pl', e) := begin t pl r (S i) in (T, pl', retev t (S i) 0 ++ e)
      end
  | OPop :: r => (mk QCtr 0 0 false r (S i), pl, [])
  | ODrain :: r => (mk QCtr 0 0 true r (S i), pl, [])
  end.

Definition ev (t : nat) (loc kind : Z) (v : Z) : list Z := [Z.of_nat t; loc; kind; v].
Definition evn (t : nat) (loc kind : Z) (v : nat) : list Z := ev t loc kind (Z.of_nat v).
Definition dloc (n : nat) : Z := (98 + 2 * Z.of_nat n)%Z.
Definition nloc (n : nat) : Z := (99 + 2 * Z.of_nat n)%Z.

Definition with_pc (T : tst) (p : pcT) : tst :=
  {| pc := p; sc := sc T; sh := sh T; sn := sn T; sd := sd T; node := node T; val := val T; ltl := ltl T;
     drain := drain T; prog := prog T; opi := opi T |}.

Definition set_thr (s : st) (t : nat) (x : tst) : st :=
  {| ctr := ctr s; hnode := hnode s; tail := tail s; next := next s; data := data s; pool := pool s;
     thr := upd (thr s) t x; nthr := nthr s |}.

(* the call of thread t is over: start the next one (or, for a drain that has
   not seen EMPTY yet, go round again) *)
Definition finish (t : nat) (T : tst) (again : bool) (pl : list nat) : tst * list nat * list Z :=
  if again then (mk QCtr 0 0 true (prog T) (opi T), pl, [])
  else begin t pl (prog T) (opi T).

Definition step (s : st) (t : nat) : st * list Z :=
  let T := thr s t in
  match pc T with
  | Fin => (s, [])
  | HData => ({| ctr := ctr s; hnode := hnode s; tail := tail s; next := next s;
                 data := upd (data s) (node T) (val T); pool := pool s;
                 thr := upd (thr s) t (with_pc T PTail); nthr := nthr s |},
              evn t (dloc (node T)) 19 (val T))
  | PTail => (set_thr s t {| pc := PNull; sc := sc T; sh := sh T; sn := sn T; sd := sd T; node := node T;
                             val := val T; ltl := tail s; drain := drain T; prog := prog T; opi := opi T |},
              evn t 2 9 (tail s))
  | PNull => ({| ctr := ctr s; hnode := hnode s; tail := tail s; next := upd (next s) (node T) 0;
                 data := data s; pool := pool s;
                 thr := upd (thr s) t (with_pc T PLink); nthr := nthr s |},
              evn t (nloc (node T)) 19 0)
  | PLink => ({| ctr := ctr s; hnode := hnode s; tail := tail s; next := upd (next s) (ltl T) (node T);
                 data := data s; pool := pool s;
                 thr := upd (thr s) t (with_pc T PSetTail); nthr := nthr s |},
              evn t (nloc (ltl T)) 19 (node T))
  | PSetTail =>
      let '(T', pl, e) := finish t T false (pool s) in
      ({| ctr := ctr s; hnode := hnode s; tail := node T; next := next s; data := data s; pool := pl;
          thr := upd (thr s) t T'; nthr := nthr s |},
       evn t 2 19 (node T) ++ retev t (opi T) (node T) ++ e)
  | QCtr => (set_thr s t {| pc := QNode; sc := ctr s; sh := sh T; sn := sn T; sd := sd T; node := node T;
                            val := val T; ltl := ltl T; drain := drain T; prog := prog T; opi := opi T |},
             ev t 0 9 (ctr s))
  | QNode => (set_thr s t {| pc := QNext; sc := sc T; sh := hnode s; sn := sn T; sd := sd T; node := node T;
                             val := val T; ltl := ltl T; drain := drain T; prog := prog T; opi := opi T |},
              evn t 1 9 (hnode s))
  | QNext =>
      match next s (sh T) with
      | O => let '(T', pl, e) := finish t T false (pool s) in
             ({| ctr := ctr s; hnode := hnode s; tail := tail s; next := next s; data := data s; pool := pl;
                 thr := upd (thr s) t T'; nthr := nthr s |},
              evn t (nloc (sh T)) 9 0 ++ retev t (opi T) 0 ++ e)
      | S _ => (set_thr s t {| pc := QData; sc := sc T; sh := sh T; sn := next s (sh T); sd := sd T;
                               node := node T; val := val T; ltl := ltl T; drain := drain T;
                               prog := prog T; opi := opi T |},
                evn t (nloc (sh T)) 9 (next s (sh T)))
      end
  | QData => (set_thr s t {| pc := QCas; sc := sc T; sh := sh T; sn := sn T; sd := data s (sn T);
                             node := node T; val := val T; ltl := ltl T; drain := drain T;
                             prog := prog T; opi := opi T |},
              evn t (dloc (sn T)) 9 (data s (sn T)))
  | QCas =>
      if (ctr s =? sc T)%Z && (hnode s =? sh T)
      then ({| ctr := (ctr s + 1)%Z; hnode := sn T; tail := tail s; next := next s; data := data s;
               pool := pool s; thr := upd (thr s) t (with_pc T QWData); nthr := nthr s |},
            ev t 0 115 (ctr s + 1)%Z ++ evn t 1 115 (sn T))
      else let '(T', pl, e) := finish t T (drain T) (pool s) in
           ({| ctr := ctr s; hnode := hnode s; tail := tail s; next := next s; data := data s; pool := pl;
               thr := upd (thr s) t T'; nthr := nthr s |},
            ev t 0 125 (ctr s) ++ evn t 1 125 (hnode s) ++ retz t (opi T) (-1) ++ e)
  | QWData => ({| ctr := ctr s; hnode := hnode s; tail := tail s; next := next s;
                  data := upd (data s) (sh T) (sd T); pool := pool s;
                  thr := upd (thr s) t (with_pc T QRData); nthr := nthr s |},
               evn t (dloc (sh T)) 19 (sd T))
  | QRData =>
      let '(T', pl, e) := finish t T (drain T) (sh T :: pool s) in
      ({| ctr := ctr s; hnode := hnode s; tail := tail s; next := next s; data := data s; pool := pl;
          thr := upd (thr s) t T'; nthr := nthr s |},
       evn t (dloc (sh T)) 9 (data s (sh T)) ++ retev t (opi T) (sh T) ++ retev t (opi T) (data s (sh T)) ++ e)
  end.

Definition status_of (s : st) (t : nat) : status :=
  if t <? nthr s then match pc (thr s t) with Fin => SDone | _ => SReady end else SDone.

(* threads start in tid order; only thread 0 can take a node from the pool
   (for its first push), so the other threads start from the pool it leaves *)
Definition idle : tst := mk Fin 0 0 false [] 0.

Definition start0 (p : nat) (progs : list (list op)) : tst * list nat * list Z :=
  begin 0 (seq 2 p) (nth 0 progs []) 0.

Definition init (p : nat) (start : Z) (progs : list (list op)) : st :=
  let pl0 := snd (fst (start0 p progs)) in
  {| ctr := start; hnode := 1; tail := 1; next := fun _ => 0; data := fun _ => 0; pool := pl0;
     thr := fun t => match t with
                     | O => fst (fst (start0 p progs))
                     | S _ => fst (fst (begin t pl0 (nth t progs []) 0))
                     end;
     nthr := length progs |}.

Definition init_events (p : nat) (progs : list (list op)) : list Z :=
  let pl0 := snd (fst (start0 p progs)) in
  match progs with
  | [] => []
  | _ :: _ => snd (start0 p progs) ++
              flat_map (fun t => snd (begin t pl0 (nth t progs []) 0)) (seq 1 (length progs - 1))
  end.

Definition M : machine :=
  {| mstate := st; mstep := step; mstatus := status_of; mthreads := nthr |}.

Definition dec_op (p : Z * Z) : op :=
  match fst p with
  | 1%Z => OPush (Z.to_nat (snd p))
  | 3%Z => ODrain
  | _ => OPop
  end.

Definition run_case (l : list Z) : list Z :=
  match decode_case l with
  | Some c =>
      let p := Z.to_nat (nthZ (c_params c) 0) in
      let start := nthZ (c_params c) 1 in
      let dmax := Z.to_nat (nthZ (c_params c) 2) in
      let progs := map (map dec_op) (c_progs c) in
      run_all M (init p start progs) (init_events p progs) (c_sched c) dmax
  | None => [(-1)%Z]
  end.
