(* C11, multi channel: mutual exclusion of the channel lock -- part 3: steps
   that touch the mutex's mpsc waiter list (push by a waiter, pop / hand-off /
   wake-up by a contended unlocker, either in fiber_mutex_unlock or inside the
   maintenance of a fiber that blocks on the channel).  Ported from
   coq/MutexProofs.v. *)
From Coq Require Import List ZArith Lia Bool Arith.
From LF Require Import Conc T1K MChan MChanExclBase MChanExclSteps.
Import ListNotations.
Local Open Scope Z_scope.

Ltac xcases p := destruct p as [| | |? ?| |[] ? ? ?|[] ?| | |[] ? ? ?].

Lemma chain_ok_ext2 (m1 m2 : kmem) a l :
  (forall n, n = a \/ In n (map snd l) -> nnext m2 n = nnext m1 n) ->
  qtail m2 0%nat = qtail m1 0%nat -> chain_ok m1 a l -> chain_ok m2 a l.
Proof.
  intros H E2. revert a H. induction l as [|[u n] r IH]; intros a H; cbn.
  - rewrite E2, (H a) by auto. tauto.
  - rewrite (H a) by auto. intros [H1 H2]. split; [exact H1|]. apply IH; [|exact H2].
    intros n' [->|Hn]; apply H; cbn; auto.
Qed.

Section Nodes.
Variable x : gst.
Variable t : nat.
Hypothesis HI : Inv x.
Notation m := (mem (gb x)).
Local Notation others_ok := (others_ok x t HI).
Local Notation debt_k_frame := (debt_k_frame x t HI).
Local Notation no_debt := (no_debt x t HI).

Ltac nodebt Hs := let Hd := fresh in intros Hd; exfalso; revert Hd; apply (no_debt _ Hs); discriminate.
Ltac stk_other := let u := fresh "u" in let Hu := fresh "Hu" in
  intros u Hu; cbn; apply upd_other; exact Hu.
Ltac view_other := let u := fresh "u" in let Hu := fresh "Hu" in
  intros u Hu; unfold view_eqv, view_of; cbn; rewrite ?upd_other by exact Hu; tauto.

Lemma invN_frame2 x' :
  qhead (mem (gb x')) = qhead m -> qtail (mem (gb x')) 0%nat = qtail m 0%nat -> gq x' = gq x ->
  (forall n, In n (chain x) -> nnext (mem (gb x')) n = nnext m n /\ ndata (mem (gb x')) n = ndata m n) ->
  (forall u, u <> t -> priv x' u = priv x u) ->
  (forall n, In n (priv x' t) <-> In n (priv x t)) -> NoDup (priv x' t) ->
  InvN x'.
Proof.
  intros Eh Et Eq Hc Hp Hpt Hnd. pose proof (I_N x HI) as N.
  assert (Ec : chain x' = chain x) by (unfold chain; rewrite Eh, Eq; reflexivity).
  assert (Hin : forall u n, In n (priv x' u) <-> In n (priv x u)).
  { intros u n. destruct (Nat.eq_dec u t) as [->|Nu]; [apply Hpt|rewrite (Hp u Nu); tauto]. }
  destruct N as [N1 N2 N3 N4 N5 N6 N7 N8 N9]. constructor; rewrite ?Ec, ?Eq, ?Eh; auto.
  - apply (chain_ok_ext2 m); [|exact Et|exact N4].
    intros n Hn. apply Hc. unfold chain. destruct Hn as [->|Hn]; cbn; auto.
  - intros u n Hu. destruct (Hc n) as [_ ->]; [|apply N5; exact Hu].
    unfold chain. right. apply (in_map snd) in Hu. exact Hu.
  - intros u n Hn. apply Hin in Hn. apply (N6 u n Hn).
  - intros u. destruct (Nat.eq_dec u t) as [->|Nu]; [exact Hnd|rewrite (Hp u Nu); auto].
  - intros a b n Hab Ha Hb. apply Hin in Ha. apply Hin in Hb. apply (N8 a b n Hab Ha Hb).
  - intros u n Hn. apply Hin in Hn. apply (N9 u n Hn).
Qed.

(* facts about private nodes *)
Lemma priv_fnode u : fnode m u <> O -> In (fnode m u) (priv x u).
Proof.
  intros H. unfold priv. destruct (Nat.eqb_spec (fnode m u) 0); [contradiction|]. cbn. auto.
Qed.
Lemma priv_extra u n : In n (extra (stk (gb x) u)) -> In n (priv x u).
Proof. intros H. unfold priv. apply in_or_app. auto. Qed.
Lemma priv_other_ne u n n' : u <> t -> In n (priv x t) -> In n' (priv x u) -> n' <> n.
Proof. intros Hu H1 H2 ->. apply (I_priv_disj x (I_N x HI) t u n); auto. Qed.
Lemma priv_chain_ne n n' : In n (priv x t) -> In n' (chain x) -> n' <> n.
Proof. intros H1 H2 ->. apply (I_priv_chain x (I_N x HI) t n); auto. Qed.
Lemma qhead_in_chain : In (qhead m 0) (chain x).
Proof. unfold chain. cbn. auto. Qed.

Lemma step_WfData a p k :
  stk (gb x) t = stk_of (PW WfData a p k) -> L (view_of x t) (PW WfData a p k) -> Inv (gstep x t).
Proof.
  intros Hs HL. gred Hs. cbn.
  destruct HL as (Hnc & Hc & Hh & Hr & Hf). cbn in Hh, Hr, Hf.
  assert (Hfn : fnode m t <> O) by apply Hc.
  pose proof (priv_fnode t Hfn) as Hpn.
  set (n := fnode m t) in *.
  set (x' := mkG _ _ _ _ _ _ _).
  constructor.
  - intros u. destruct (Nat.eq_dec u t) as [->|N].
    + exists (PW (WfNext n) a p k). split; [cbn; apply upd_same|]. split.
      * revert Hc Hnc Hh Hr Hf. Lunf. subst x'. vw. cbn. tauto.
      * cbn. apply upd_same.
    + revert u N. apply others_ok; [stk_other|view_other|].
      intros u q Hu Hq HLq HXq.
      assert (Hex : forall n', In n' (extra (stk (gb x) u)) -> n' <> n).
      { intros n' Hn'. apply (priv_other_ne u n n' Hu Hpn). apply priv_extra. exact Hn'. }
      xcases q; try exact HXq; revert HXq; unfold X, Xk; cbn [x' gb mem set_fnode set_ndata ndata nnext qhead].
      * rewrite upd_other; [tauto|]. apply Hex. rewrite Hq. cbn. auto.
      * rewrite upd_other; [tauto|]. apply Hex. rewrite Hq. cbn. auto.
      * intros (A & B). split; [exact A|]. rewrite upd_other; [exact B|].
        apply (priv_chain_ne n _ Hpn). rewrite A. apply qhead_in_chain.
      * rewrite upd_other; [tauto|]. apply Hex. rewrite Hq. cbn. auto.
  - apply (I_slots x HI).
  - apply debt_k_frame; [reflexivity|stk_other|nodebt Hs].
  - apply (invC_frame x); try reflexivity. apply (I_C x HI).
  - apply invN_frame2; try reflexivity.
    + intros n' Hn'. cbn. split; [reflexivity|]. apply upd_other. apply (priv_chain_ne n n' Hpn Hn').
    + intros u Hu. unfold priv. cbn. rewrite !upd_other by exact Hu. reflexivity.
    + intros n'. unfold priv. cbn. rewrite !upd_same, Hs. cbn.
      fold n. destruct (Nat.eqb_spec n 0); [contradiction|]. cbn. tauto.
    + unfold priv. cbn. rewrite !upd_same. cbn. constructor; [intros []|constructor].
  - apply (invQ_frame x); try reflexivity. apply (I_Q x HI).
Qed.

Lemma pred_of_in a l u b : pred_of a l u = Some b -> b = a \/ In b (map snd l).
Proof.
  revert a. induction l as [|[w n] r IH]; intros a; cbn; [discriminate|].
  destruct (Nat.eqb w u); [intros [= ->]; auto|]. intros H. apply IH in H. destruct H as [->|H]; auto.
Qed.

Lemma pred_in_chain u b : pred_of (qhead m 0) (gq x) u = Some b -> In b (chain x).
Proof. intros H. apply pred_of_in in H. unfold chain. cbn. destruct H; auto. Qed.

Lemma step_WfNext n a p k :
  stk (gb x) t = stk_of (PW (WfNext n) a p k) -> L (view_of x t) (PW (WfNext n) a p k) ->
  X x t (PW (WfNext n) a p k) -> Inv (gstep x t).
Proof.
  intros Hs HL HX. gred Hs. cbn. cbn in HX.
  assert (Hpn : In n (priv x t)) by (apply priv_extra; rewrite Hs; cbn; auto).
  set (x' := mkG _ _ _ _ _ _ _).
  constructor.
  - intros u. destruct (Nat.eq_dec u t) as [->|N].
    + exists (PW (WfXchg n) a p k). split; [cbn; apply upd_same|]. split; [exact HL|].
      cbn. rewrite upd_same. auto.
    + revert u N. apply others_ok; [stk_other|view_other|].
      intros u q Hu Hq HLq HXq.
      xcases q; try exact HXq; revert HXq; unfold X, Xk; cbn [x' gb mem set_nnext ndata nnext qhead].
      * rewrite upd_other; [tauto|]. apply (priv_other_ne u n _ Hu Hpn). apply priv_extra.
        rewrite Hq. cbn. auto.
      * intros (A & B & C). rewrite upd_other; [tauto|]. apply (priv_chain_ne n _ Hpn).
        apply (pred_in_chain u). exact A.
      * intros (A & B & C). rewrite upd_other; [tauto|]. apply (priv_chain_ne n _ Hpn).
        rewrite B. apply qhead_in_chain.
  - apply (I_slots x HI).
  - apply debt_k_frame; [reflexivity|stk_other|nodebt Hs].
  - apply (invC_frame x); try reflexivity. apply (I_C x HI).
  - apply invN_frame2; try reflexivity.
    + intros n' Hn'. cbn. split; [|reflexivity]. apply upd_other. apply (priv_chain_ne n n' Hpn Hn').
    + intros u Hu. unfold priv. cbn. rewrite !upd_other by exact Hu. reflexivity.
    + intros n'. unfold priv. cbn. rewrite !upd_same, Hs. cbn. tauto.
    + unfold priv. cbn. rewrite !upd_same. cbn. pose proof (I_priv_nd x (I_N x HI) t) as ND.
      unfold priv in ND. rewrite Hs in ND. exact ND.
  - apply (invQ_frame x); try reflexivity. apply (I_Q x HI).
Qed.

Lemma pred_of_app a l l' u b : pred_of a l u = Some b -> pred_of a (l ++ l') u = Some b.
Proof.
  revert a. induction l as [|[w n] r IH]; intros a; cbn; [discriminate|].
  destruct (Nat.eqb w u); auto.
Qed.

Lemma pred_of_snoc (mm : kmem) a l u n :
  chain_ok mm a l -> ~ In u (map fst l) -> pred_of a (l ++ [(u, n)]) u = Some (qtail mm 0%nat).
Proof.
  revert a. induction l as [|[w n'] r IH]; intros a; cbn.
  - intros [_ ->] _. now rewrite Nat.eqb_refl.
  - intros [_ H] Hn. destruct (Nat.eqb_spec w u); [exfalso; auto|]. apply IH; auto.
Qed.

Lemma chain_ok_tail0 (mm : kmem) a l : chain_ok mm a l -> nnext mm (qtail mm 0%nat) = O.
Proof.
  revert a. induction l as [|[w n'] r IH]; intros a; cbn.
  - intros [H ->]. exact H.
  - intros [_ H]. eauto.
Qed.

Lemma chain_ok_snoc (mm : kmem) a l u n :
  chain_ok mm a l -> nnext mm n = O -> chain_ok (set_qtail mm 0 n) a (l ++ [(u, n)]).
Proof.
  intros H Hn. revert a H. induction l as [|[w n'] r IH]; intros a; cbn.
  - intros [H _]. rewrite ?upd_same. auto.
  - intros [H1 H2]. split; [exact H1|]. apply IH. exact H2.
Qed.

Lemma invC_frame_gq x' :
  role x' = role x -> debt x' = debt x ->
  (forall u n, In (u, n) (gq x') -> role x u = Announced) ->
  word (mem (gb x')) 0%nat = word m 0%nat -> nthr (gb x') = nthr (gb x) ->
  InvC x'.
Proof.
  intros Er Ed Hq Ew En. pose proof (I_C x HI) as C.
  assert (E1 : nown x' = nown x) by (unfold nown; rewrite Er, En; reflexivity).
  assert (E2 : nann x' = nann x) by (unfold nann; rewrite Er, En; reflexivity).
  destruct C as [C1 C2 C3 C4 C5 C6 C7]. constructor; rewrite ?E1, ?E2, ?Er, ?Ed, ?Ew, ?En; auto.
Qed.

Lemma NoDup_app_snoc {A} (l : list A) a : NoDup l -> ~ In a l -> NoDup (l ++ [a]).
Proof.
  induction l as [|b l IH]; cbn; intros H Hn; [constructor; [intros []|constructor]|].
  inversion H; subst. constructor.
  - rewrite in_app_iff. cbn. intuition.
  - apply IH; auto.
Qed.

Lemma step_WfXchg n a p k :
  stk (gb x) t = stk_of (PW (WfXchg n) a p k) -> L (view_of x t) (PW (WfXchg n) a p k) ->
  X x t (PW (WfXchg n) a p k) -> Inv (gstep x t).
Proof.
  intros Hs HL HX. gred Hs. cbn. destruct HX as [HX1 HX2]. cbn in HX1, HX2.
  destruct HL as (Hnc & Hpl & Hnq). cbn in Hnq.
  assert (Hpn : In n (priv x t)) by (apply priv_extra; rewrite Hs; cbn; auto).
  pose proof (I_N x HI) as N. pose proof (I_chain x N) as Hch.
  assert (Hfn : fnode m t = O) by apply Hpl.
  set (x' := mkG _ _ _ _ _ _ _).
  assert (Hinq : forall u, In u (map fst (gq x ++ [(t, n)])) <-> (In u (map fst (gq x)) \/ u = t)).
  { intros u. rewrite map_app, in_app_iff. cbn. intuition. }
  constructor.
  - intros u. destruct (Nat.eq_dec u t) as [->|Nu].
    + exists (PW (WfLink (qtail m 0) n) a p k). split; [cbn; apply upd_same|]. split.
      * split; [exact Hnc|]. split; [exact Hpl|]. cbn. apply Hinq. auto.
      * cbn. split; [|split].
        -- apply pred_of_snoc; auto.
        -- apply (chain_ok_tail0 m _ _ Hch).
        -- apply in_or_app. right. cbn. auto.
    + revert u Nu. apply others_ok; [stk_other| |].
      * intros u Hu. unfold view_eqv, view_of. cbn. rewrite Hinq. intuition.
      * intros u q Hu Hq HLq HXq.
        xcases q; try exact HXq; revert HXq; unfold X, Xk; cbn [x' gb mem gq set_qtail ndata nnext qhead].
        intros (A & B & C). split; [apply pred_of_app; exact A|]. split; [exact B|].
        apply in_or_app. auto.
  - apply (I_slots x HI).
  - apply debt_k_frame; [reflexivity|stk_other|nodebt Hs].
  - apply invC_frame_gq; try reflexivity. cbn. intros u n' Hu. apply in_app_or in Hu.
    destruct Hu as [Hu|[[= <- <-]|[]]]; [apply (I_gq_role x (I_C x HI) u n' Hu)|apply Hpl].
  - assert (Hp' : forall u, u <> t -> priv x' u = priv x u).
    { intros u Hu. unfold priv. cbn. rewrite !upd_other by exact Hu. reflexivity. }
    assert (Hpt : priv x' t = []).
    { unfold priv. cbn. rewrite upd_same, Hfn. reflexivity. }
    assert (Hc' : chain x' = chain x ++ [n]).
    { unfold chain. cbn. rewrite map_app. reflexivity. }
    assert (Hprv : forall u n', In n' (priv x' u) -> In n' (priv x u) /\ u <> t).
    { intros u n' Hn'. destruct (Nat.eq_dec u t) as [->|Hu]; [rewrite Hpt in Hn'; destruct Hn'|].
      rewrite (Hp' u Hu) in Hn'. auto. }
    destruct N as [N1 N2 N3 N4 N5 N6 N7 N8 N9]. constructor; rewrite ?Hc'.
    + cbn. rewrite map_app. cbn. apply NoDup_app_snoc; auto.
    + apply NoDup_app_snoc; auto. apply (N9 t n Hpn).
    + intros n' Hn'. apply in_app_or in Hn'. destruct Hn' as [Hn'|[<-|[]]]; [auto|].
      apply (N6 t n Hpn).
    + cbn. apply chain_ok_snoc; auto.
    + cbn [x' gb mem gq set_qtail ndata]. intros u n' Hu. apply in_app_or in Hu.
      destruct Hu as [Hu|[[= <- <-]|[]]]; [auto|exact HX1].
    + intros u n' Hn'. apply Hprv in Hn'. apply (N6 u n'). tauto.
    + intros u. destruct (Nat.eq_dec u t) as [->|Hu]; [rewrite Hpt; constructor|rewrite (Hp' u Hu); auto].
    + intros a0 b n' Hab Ha Hb. apply Hprv in Ha. apply Hprv in Hb.
      apply (N8 a0 b n' Hab); tauto.
    + intros u n' Hn' Hin. apply Hprv in Hn'. destruct Hn' as [Hn' Hu].
      apply in_app_or in Hin. destruct Hin as [Hin|[<-|[]]]; [apply (N9 u n' Hn' Hin)|].
      apply (N8 t u n); auto.
  - apply (invQ_frame x); try reflexivity. apply (I_Q x HI).
Qed.

Lemma pred_of_inj a l u w b :
  NoDup (a :: map snd l) -> pred_of a l u = Some b -> pred_of a l w = Some b -> u = w.
Proof.
  revert a. induction l as [|[v n] r IH]; intros a ND; cbn; [discriminate|].
  cbn in ND. inversion ND as [|? ? Ha ND']; subst.
  destruct (Nat.eqb_spec v u), (Nat.eqb_spec v w); try congruence.
  - intros [= <-] H. apply pred_of_in in H. exfalso. apply Ha. cbn. destruct H; auto.
  - intros H [= <-]. apply pred_of_in in H. exfalso. apply Ha. cbn. destruct H; auto.
  - apply IH. exact ND'.
Qed.

Lemma chain_ok_link (mm : kmem) h l u a n :
  NoDup (h :: map snd l) -> NoDup (map fst l) ->
  chain_ok mm h l -> pred_of h l u = Some a -> In (u, n) l ->
  chain_ok (set_nnext mm a n) h l.
Proof.
  revert h. induction l as [|[v n'] r IH]; intros h ND1 ND2; cbn; [discriminate|].
  cbn in ND1, ND2. inversion ND1 as [|? ? Hh ND1']; inversion ND2 as [|? ? Hv ND2']; subst.
  intros [H1 H2] Hp Hin. destruct (Nat.eqb_spec v u) as [->|Nv].
  - injection Hp as <-. assert (n' = n) as ->.
    { destruct Hin as [[= ->]|Hin]; [reflexivity|]. exfalso. apply Hv. apply (in_map fst) in Hin. exact Hin. }
    rewrite upd_same. split; [auto|].
    apply (chain_ok_ext2 mm); [|reflexivity|exact H2].
    intros n' Hn'. cbn. apply upd_other. intros ->. apply Hh. cbn. destruct Hn'; auto.
  - assert (Ha : a <> h).
    { intros ->. apply pred_of_in in Hp. apply Hh. cbn. destruct Hp; auto. }
    rewrite upd_other by auto. split; [exact H1|].
    apply IH; auto. destruct Hin as [[= -> ->]|Hin]; [congruence|exact Hin].
Qed.

Lemma step_WfLink a0 n a p k :
  stk (gb x) t = stk_of (PW (WfLink a0 n) a p k) -> L (view_of x t) (PW (WfLink a0 n) a p k) ->
  X x t (PW (WfLink a0 n) a p k) -> Inv (gstep x t).
Proof.
  intros Hs HL HX. gred Hs. cbn. destruct HX as (HX1 & HX2 & HX3). cbn in HX1, HX2, HX3.
  destruct HL as (Hnc & Hpl & Hq). cbn in Hq.
  pose proof (I_N x HI) as N.
  pose proof (pred_in_chain t a0 HX1) as Hac.
  set (x' := mkG _ _ _ _ _ _ _).
  constructor.
  - intros u. destruct (Nat.eq_dec u t) as [->|Nu].
    + exists (PW WfY a p k). split; [cbn; apply upd_same|]. split; [|exact I].
      split; [exact Hnc|]. left. destruct Hpl as (P1 & P2 & P3 & P4 & P5 & P6).
      unfold preflip, wq. cbn in *. rewrite P4. repeat split; auto. discriminate.
    + revert u Nu. apply others_ok; [stk_other|view_other|].
      intros u q Hu Hq' HLq HXq.
      xcases q; try exact HXq; revert HXq; unfold X, Xk; cbn [x' gb mem gq set_nnext ndata nnext qhead].
      * intros (A & B). rewrite upd_other; [tauto|]. intros ->.
        apply (I_priv_chain x N u a0); [apply priv_extra; rewrite Hq'; cbn; auto|exact Hac].
      * intros (A & B & C). rewrite upd_other; [tauto|]. intros ->. apply Hu.
        apply (pred_of_inj (qhead m 0) (gq x) u t a0); auto. apply (I_chain_nd x N).
      * intros (A & B & C & D). rewrite upd_other; [tauto|]. intros ->. congruence.
  - apply (I_slots x HI).
  - apply debt_k_frame; [reflexivity|stk_other|nodebt Hs].
  - apply (invC_frame x); try reflexivity. apply (I_C x HI).
  - assert (Hp' : forall u, priv x' u = priv x u).
    { intros u. unfold priv. cbn. destruct (Nat.eq_dec u t) as [->|Hu];
      [rewrite upd_same, Hs; reflexivity|rewrite upd_other by exact Hu; reflexivity]. }
    destruct N as [N1 N2 N3 N4 N5 N6 N7 N8 N9]. constructor; try assumption.
    + cbn. apply chain_ok_link with (u := t); auto.
    + intros u n'. rewrite Hp'. apply N6.
    + intros u. rewrite Hp'. apply N7.
    + intros u w n'. rewrite !Hp'. apply N8.
    + intros u n'. rewrite Hp'. apply N9.
  - apply (invQ_frame x); try reflexivity. apply (I_Q x HI).
Qed.

(* a queued waiter (not at WLink) is handed the lock by popper w *)
Lemma L_pop v p w :
  L v p -> vinq v -> (forall a n aa pp k, p <> PW (WfLink a n) aa pp k) ->
  L (mkV (vfs v) (vfn v) (vpd v) (vbl v) Owner (HPopped w) (vch v) (vsm v) False) p.
Proof.
  destruct v as [fs fn pd bl ro ha ch sm inq]. cbn [vfs vfn vpd vbl vch vsm vinq].
  intros HL Hq Hn.
  destruct p as [| | |? c| |[] ? ? ?|[] []| | |[] ? ? ?]; try (exfalso; eapply Hn; reflexivity);
  revert HL; Lunf; try tauto;
  destruct ha; try tauto; intuition (try discriminate; try congruence).
Qed.

Lemma Lk_facts v kf tl : Lk v kf tl -> quiet v /\ vro v = Idle /\ vsm v = None.
Proof. destruct tl; Lunf; tauto. Qed.

Lemma L_K_not_inq v kf tl : L v (PK kf tl) -> ~ vinq v.
Proof. intros H. apply Lk_facts in H. apply H. Qed.

Lemma Lk_pop v kf kf' tl (inq' : Prop) :
  Lk v kf tl -> kspin kf' = false -> (inq' -> vinq v) ->
  Lk (mkV (vfs v) (vfn v) (vpd v) (vbl v) (vro v) (vha v) (vch v) (vsm v) inq') kf' tl.
Proof.
  destruct v as [fs fn pd bl ro ha ch sm inq]. destruct tl; Lunf; intros H Hk Hq.
  - split; [tauto|]. destruct kf'; try exact I; discriminate.
  - tauto.
Qed.

Lemma step_KfSet h nx tl :
  (t < nthr (gb x))%nat ->
  stk (gb x) t = stk_of (PK (KfSet h nx) tl) -> L (view_of x t) (PK (KfSet h nx) tl) ->
  X x t (PK (KfSet h nx) tl) -> Inv (gstep x t).
Proof.
  intros Ht Hs HL HX. destruct HX as (Hd & Hh & Hn & Hnz). cbn in Hd, Hh, Hn, Hnz. subst h.
  pose proof (I_N x HI) as N. pose proof (I_C x HI) as C.
  destruct (debt_facts x HI t Hd) as [Hno Hna].
  cbn [L] in HL. destruct (Lk_facts _ _ _ HL) as (Hqt & Hrt & _). cbn in Hrt.
  (* the queue is not empty and its first node is nx *)
  pose proof (I_chain x N) as Hch.
  destruct (gq x) as [|[f nx'] rest] eqn:Eq; cbn in Hch; [destruct Hch; congruence|].
  destruct Hch as [Hlk Hch]. assert (nx' = nx) by (destruct Hlk; congruence). subst nx'.
  assert (Hin : In (f, nx) (gq x)) by (rewrite Eq; cbn; auto).
  pose proof (I_gq_ent x N f nx Hin) as Hdat.
  pose proof (I_gq_role x C f nx Hin) as Hrf.
  assert (Hft : f <> t) by congruence.
  pose proof (I_gq_nd x N) as ND1. rewrite Eq in ND1. cbn in ND1. apply NoDup_cons_iff in ND1 as [Hfr ND1'].
  pose proof (I_chain_nd x N) as ND2. unfold chain in ND2. rewrite Eq in ND2. cbn in ND2.
  apply NoDup_cons_iff in ND2 as [Hhr ND2'].
  gred Hs. cbn -[tid_of_name]. rewrite Hdat, tid_of_fname, Eq. cbn [List.tl app].
  set (x' := mkG _ _ _ _ _ _ _).
  assert (Hst : forall u, u <> t -> stk (gb x') u = stk (gb x) u) by stk_other.
  constructor.
  - intros u. destruct (Nat.eq_dec u t) as [->|Nu]; [|destruct (Nat.eq_dec u f) as [->|Nf]].
    + exists (PK (KfData (qhead m 0) nx) tl). split; [cbn; apply upd_same|]. split.
      * eapply L_eqv; [|exact (Lk_pop _ _ (KfData (qhead m 0) nx) _ (In t (map fst rest)) HL eq_refl
                                  ltac:(cbn; rewrite Eq; cbn; auto))].
        unfold view_eqv, view_of. cbn. rewrite !upd_other by auto. tauto.
      * cbn. split; [reflexivity|]. exists f. split; [exact Hdat|].
        unfold popping. cbn. rewrite !upd_same. auto.
    + destruct (I_thr x HI f) as (q & Q1 & Q2 & Q3). exists q. rewrite (Hst f Nu).
      split; [exact Q1|].
      assert (Hnl : forall a n aa pp kk, q <> PW (WfLink a n) aa pp kk).
      { intros a n aa pp kk ->. destruct Q3 as (A & B & _). rewrite Eq in A. cbn in A.
        rewrite Nat.eqb_refl in A. injection A as <-. congruence. }
      split.
      * eapply L_eqv; [|apply (L_pop _ q t Q2); [cbn; rewrite Eq; cbn; auto|exact Hnl]].
        unfold view_eqv, view_of. cbn. rewrite ?upd_same, ?upd_other by auto. tauto.
      * xcases q; try exact Q3; try (exfalso; eapply Hnl; reflexivity);
        exfalso; apply (L_K_not_inq _ _ _ Q2); cbn; rewrite Eq; cbn; auto.
    + assert (thr_ok x' u); [|assumption].
      revert u Nu Nf. intros u Nu Nf. destruct (I_thr x HI u) as (q & Q1 & Q2 & Q3). exists q.
      rewrite (Hst u Nu). split; [exact Q1|]. split.
      * eapply L_eqv; [|exact Q2]. unfold view_eqv, view_of. cbn. rewrite !upd_other by auto.
        rewrite Eq. cbn. intuition congruence.
      * assert (Hnp : forall g hh, popping x u g hh -> False).
        { intros g hh (_ & Po). apply (nown0_no_owner x HI g Hno Po). }
        xcases q; try exact Q3; revert Q3; unfold X, Xk; cbn [x' gb mem gq debt set_qhead ndata nnext qhead];
        rewrite ?upd_same;
        try (intros Q; exfalso; apply Nu; (congruence || (destruct Q as [Q ?]; congruence))).
        -- rewrite Eq. cbn. destruct (Nat.eqb_spec f u); [congruence|]. intros (A & B & [Cc|Cc]); [congruence|auto].
        -- intros (_ & g & _ & Q). destruct (Hnp _ _ Q).
        -- intros (g & _ & Q). destruct (Hnp _ _ Q).
        -- intros (g & _ & Q). destruct (Hnp _ _ Q).
        -- intros Q. destruct (Hnp _ _ Q).
        -- intros (Q & _). destruct (Hnp _ _ Q).
  - apply (I_slots x HI).
  - intros d Hdd. discriminate.
  - assert (Hf_lt : (f < nthr (gb x))%nat) by (apply (I_role_lt x C); congruence).
    pose proof (cnt_upd (fun u => is_owner (upd (role x) f Owner u)) (fun u => is_owner (role x u))
                  (nthr (gb x)) f Hf_lt) as N1. cbn beta in N1. rewrite upd_same, Hrf in N1.
    pose proof (cnt_upd (fun u => is_ann (upd (role x) f Owner u)) (fun u => is_ann (role x u))
                  (nthr (gb x)) f Hf_lt) as N2. cbn beta in N2. rewrite upd_same, Hrf in N2.
    cbn [is_owner is_ann] in N1, N2.
    assert (N1' : (nown x' = nown x + 1)%nat).
    { unfold nown. cbn [x' gb role nthr]. rewrite Nat.add_0_r in N1. apply N1.
      intros u Hu. now rewrite upd_other. }
    assert (N2' : (nann x' + 1 = nann x)%nat).
    { unfold nann. cbn [x' gb role nthr]. rewrite Nat.add_0_r in N2. apply N2.
      intros u Hu. now rewrite upd_other. }
    constructor; cbn [x' gb role debt gq mem nthr set_qhead word].
    + intros u Hu. destruct (Nat.eq_dec u f) as [->|Nf]; [exact Hf_lt|].
      rewrite upd_other in Hu by exact Nf. apply (I_role_lt x C u Hu).
    + intros a b. unfold upd. destruct (Nat.eqb_spec a f), (Nat.eqb_spec b f); try congruence;
      intros Ha Hb; exfalso; first [apply (nown0_no_owner x HI b Hno Hb)|apply (nown0_no_owner x HI a Hno Ha)].
    + discriminate.
    + discriminate.
    + intros _. left. lia.
    + rewrite (I_count x C). lia.
    + intros u n Hu. rewrite upd_other; [apply (I_gq_role x C u n); rewrite Eq; cbn; auto|].
      intros ->. apply Hfr. apply (in_map fst) in Hu. exact Hu.
  - assert (Hcx : chain x = qhead m 0 :: nx :: map snd rest) by (unfold chain; rewrite Eq; reflexivity).
    assert (Hcx' : chain x' = nx :: map snd rest) by reflexivity.
    assert (Hp' : forall u, u <> t -> priv x' u = priv x u).
    { intros u Hu. unfold priv. cbn. rewrite !upd_other by exact Hu. reflexivity. }
    assert (Hpt : priv x' t = priv x t ++ [qhead m 0]).
    { unfold priv. cbn. rewrite upd_same, Hs. cbn. rewrite app_nil_r. reflexivity. }
    assert (Hhp : forall u, ~ In (qhead m 0) (priv x u)).
    { intros u Hu. apply (I_priv_chain x N u _ Hu). apply qhead_in_chain. }
    assert (Hsub : forall n, In n (chain x') -> In n (chain x)).
    { intros n' Hn'. rewrite Hcx. right. exact Hn'. }
    assert (Hprv : forall u n', In n' (priv x' u) -> In n' (priv x u) \/ (u = t /\ n' = qhead m 0)).
    { intros u n' Hn'. destruct (Nat.eq_dec u t) as [->|Hu]; [|rewrite (Hp' u Hu) in Hn'; auto].
      rewrite Hpt in Hn'. apply in_app_or in Hn'. destruct Hn' as [Hn'|[<-|[]]]; auto. }
    constructor.
    + exact ND1'.
    + rewrite Hcx'. exact ND2'.
    + intros n' Hn'. apply (I_chain_nz x N). auto.
    + cbn. apply (chain_ok_ext m); auto.
    + cbn. intros u n' Hu. apply (I_gq_ent x N). rewrite Eq. cbn. auto.
    + intros u n' Hn'. destruct (Hprv u n' Hn') as [H|[_ ->]]; [apply (I_priv_nz x N u n' H)|].
      apply (I_chain_nz x N). apply qhead_in_chain.
    + intros u. destruct (Nat.eq_dec u t) as [->|Hu]; [|rewrite (Hp' u Hu); apply (I_priv_nd x N)].
      rewrite Hpt. apply NoDup_app_snoc; [apply (I_priv_nd x N)|apply Hhp].
    + intros a b n' Hab Ha Hb. destruct (Hprv a n' Ha) as [Ha'|[Ea En]], (Hprv b n' Hb) as [Hb'|[Eb En']].
      * apply (I_priv_disj x N a b n' Hab Ha' Hb').
      * subst n'. apply (Hhp a Ha').
      * subst n'. apply (Hhp b Hb').
      * congruence.
    + intros u n' Hn' Hic. destruct (Hprv u n' Hn') as [H|[_ ->]].
      * apply (I_priv_chain x N u n' H). auto.
      * rewrite Hcx' in Hic. apply Hhr. exact Hic.
  - apply (invQ_frame x); try reflexivity. apply (I_Q x HI).
Qed.

Lemma popping_no_debt f hh : popping x t f hh -> debt x = Some t -> False.
Proof. intros (_ & Ho) Hd. apply (I_debt_own x (I_C x HI) t f Hd Ho). Qed.

Lemma step_KfCopy h d tl :
  stk (gb x) t = stk_of (PK (KfCopy h d) tl) -> L (view_of x t) (PK (KfCopy h d) tl) ->
  X x t (PK (KfCopy h d) tl) -> Inv (gstep x t).
Proof.
  intros Hs HL HX. gred Hs. cbn. destruct HX as (f & Hdf & Hp).
  assert (Hpn : In h (priv x t)) by (apply priv_extra; rewrite Hs; cbn; auto).
  set (x' := mkG _ _ _ _ _ _ _).
  constructor.
  - intros u. destruct (Nat.eq_dec u t) as [->|N].
    + exists (PK (KfOut h) tl). split; [cbn; apply upd_same|]. split.
      * exact HL.
      * cbn. exists f. rewrite upd_same. split; [exact Hdf|exact Hp].
    + revert u N. apply others_ok; [stk_other|view_other|].
      intros u q Hu Hq HLq HXq.
      assert (Hex : forall n', In n' (extra (stk (gb x) u)) -> n' <> h).
      { intros n' Hn'. apply (priv_other_ne u h n' Hu Hpn). apply priv_extra. exact Hn'. }
      xcases q; try exact HXq; revert HXq; unfold X, Xk; cbn [x' gb mem set_ndata ndata nnext qhead].
      * rewrite upd_other; [tauto|]. apply Hex. rewrite Hq. cbn. auto.
      * rewrite upd_other; [tauto|]. apply Hex. rewrite Hq. cbn. auto.
      * intros (A & B). split; [exact A|]. rewrite upd_other; [exact B|].
        apply (priv_chain_ne h _ Hpn). rewrite A. apply qhead_in_chain.
      * rewrite upd_other; [tauto|]. apply Hex. rewrite Hq. cbn. auto.
  - apply (I_slots x HI).
  - apply debt_k_frame; [reflexivity|stk_other|]. intros Hd. destruct (popping_no_debt _ _ Hp Hd).
  - apply (invC_frame x); try reflexivity. apply (I_C x HI).
  - apply invN_frame2; try reflexivity.
    + intros n' Hn'. cbn. split; [reflexivity|]. apply upd_other. apply (priv_chain_ne h n' Hpn Hn').
    + intros u Hu. unfold priv. cbn. rewrite !upd_other by exact Hu. reflexivity.
    + intros n'. unfold priv. cbn. rewrite !upd_same, Hs. cbn. tauto.
    + pose proof (I_priv_nd x (I_N x HI) t) as ND. unfold priv in *. cbn. rewrite upd_same.
      rewrite Hs in ND. exact ND.
  - apply (invQ_frame x); try reflexivity. apply (I_Q x HI).
Qed.

Definition wphase (p : ph) : Prop :=
  (forall n aa pp k, p <> PW (WfNext n) aa pp k /\ p <> PW (WfXchg n) aa pp k) /\
  (forall a n aa pp k, p <> PW (WfLink a n) aa pp k) /\ (forall kf tl, p <> PK kf tl) /\
  (forall f c, p <> PCs f c).

Lemma L_node v p w h :
  L v p -> vha v = HPopped w -> h <> O ->
  L (mkV (vfs v) h (vpd v) (vbl v) (vro v) (HNode w) (vch v) (vsm v) (vinq v)) p /\
  wphase p /\ vfn v = O.
Proof.
  destruct v as [fs fn pd bl ro ha ch sm inq]. cbn [vfs vfn vpd vbl vch vsm vinq vha vro].
  intros HL -> Hh. unfold wphase.
  destruct p as [| | |? c| |[] ? ? ?|[] []| | |[] ? ? ?];
  revert HL; Lunf;
  try (intros HL; exfalso; intuition discriminate);
  (intros HL; split; [|repeat split; try discriminate; tauto]); intuition discriminate.
Qed.

Lemma step_KfOut h tl :
  stk (gb x) t = stk_of (PK (KfOut h) tl) -> L (view_of x t) (PK (KfOut h) tl) ->
  X x t (PK (KfOut h) tl) -> Inv (gstep x t).
Proof.
  intros Hs HL HX. destruct HX as (f & Hdf & Hp). change (ndata m h = fname f) in Hdf.
  gred Hs. cbn -[tid_of_name]. rewrite Hdf, tid_of_fname.
  pose proof (I_N x HI) as N.
  assert (Hpn : In h (priv x t)) by (apply priv_extra; rewrite Hs; cbn; auto).
  assert (Hhz : h <> O) by apply (I_priv_nz x N t h Hpn).
  destruct Hp as (Hp1 & Hp2).
  cbn [L] in HL. destruct (Lk_facts _ _ _ HL) as (Hqt & Hrt & _). cbn in Hrt.
  assert (Hft : f <> t) by congruence.
  destruct (I_thr x HI f) as (q & Q1 & Q2 & Q3).
  destruct (L_node _ q t h Q2 Hp1 Hhz) as (Q2' & (Qa & Qb & Qc & Qd) & Qfn). cbn in Qfn.
  assert (Hexf : extra (stk (gb x) f) = []).
  { rewrite Q1. xcases q; try reflexivity; exfalso;
    first [eapply (proj1 (Qa _ _ _ _)); reflexivity|eapply Qc; reflexivity|eapply (proj2 (Qa _ _ _ _)); reflexivity
          |eapply Qd; reflexivity]. }
  set (x' := mkG _ _ _ _ _ _ _).
  assert (Hst : forall u, u <> t -> stk (gb x') u = stk (gb x) u) by stk_other.
  constructor.
  - intros u. destruct (Nat.eq_dec u t) as [->|Nu]; [|destruct (Nat.eq_dec u f) as [->|Nf]].
    + exists (PK (KfState f) tl). split; [cbn; apply upd_same|]. split.
      * eapply L_eqv; [|exact HL]. unfold view_eqv, view_of. cbn. rewrite !upd_other by auto. tauto.
      * cbn. unfold popping. cbn. rewrite upd_same. auto.
    + exists q. rewrite (Hst f Nu). split; [exact Q1|]. split.
      * eapply L_eqv; [|exact Q2']. unfold view_eqv, view_of. cbn. rewrite !upd_same. tauto.
      * xcases q; try exact Q3; exfalso;
        first [eapply Qb; reflexivity|eapply Qc; reflexivity|eapply Qd; reflexivity|
               eapply (proj1 (Qa _ _ _ _)); reflexivity|eapply (proj2 (Qa _ _ _ _)); reflexivity].
    + destruct (I_thr x HI u) as (r & R1 & R2 & R3). exists r.
      rewrite (Hst u Nu). split; [exact R1|]. split.
      * eapply L_eqv; [|exact R2]. unfold view_eqv, view_of. cbn. rewrite !upd_other by auto. tauto.
      * assert (P : forall g hh, hh = HPopped u \/ hh = HNode u -> popping x u g hh -> popping x' u g hh).
        { intros g hh Hh (P1 & P2). unfold popping. cbn. rewrite upd_other; [auto|].
          intros ->. rewrite Hp1 in P1. destruct Hh as [-> | ->]; congruence. }
        xcases r; try exact R3; revert R3; unfold X, Xk; cbn [x' gb mem set_fnode ndata nnext qhead fstate].
        -- intros (A & g & B & Q). split; [exact A|]. exists g. auto.
        -- intros (g & B & Q). exists g. auto.
        -- intros (g & B & Q). exists g. auto.
        -- intros Q. auto.
        -- intros (Q & B). auto.
  - apply (I_slots x HI).
  - apply debt_k_frame; [reflexivity|stk_other|]. intros Hd.
    destruct (popping_no_debt f (HPopped t) (conj Hp1 Hp2) Hd).
  - apply (invC_frame x); try reflexivity. apply (I_C x HI).
  - assert (Hpo : forall u, u <> t -> u <> f -> priv x' u = priv x u).
    { intros u Hu Hf. unfold priv. cbn. rewrite !upd_other by auto. reflexivity. }
    assert (Hpf : priv x' f = [h]).
    { unfold priv. cbn. rewrite upd_same, upd_other, Hexf by auto.
      destruct (Nat.eqb_spec h 0); [contradiction|reflexivity]. }
    assert (Hpt : priv x t = priv x' t ++ [h]).
    { unfold priv. cbn. rewrite upd_same, upd_other, Hs by auto. cbn. rewrite app_nil_r. reflexivity. }
    assert (Hprv : forall u n', In n' (priv x' u) -> (u = f /\ n' = h) \/ (In n' (priv x u) /\ n' <> h)).
    { intros u n' Hn'. destruct (Nat.eq_dec u f) as [->|Hf].
      - rewrite Hpf in Hn'. destruct Hn' as [<-|[]]. auto.
      - right. destruct (Nat.eq_dec u t) as [->|Hu].
        + pose proof (I_priv_nd x N t) as ND. rewrite Hpt in ND. split; [rewrite Hpt; apply in_or_app; auto|].
          intros ->. apply NoDup_remove_2 in ND. rewrite app_nil_r in ND. auto.
        + rewrite (Hpo u Hu Hf) in Hn'. split; [exact Hn'|]. apply (priv_other_ne u h n' Hu Hpn Hn'). }
    destruct N as [N1 N2 N3 N4 N5 N6 N7 N8 N9]. constructor; try assumption.
    + apply (chain_ok_ext m); auto.
    + intros u n' Hn'. destruct (Hprv u n' Hn') as [[_ ->]|[H _]]; [exact Hhz|apply (N6 u n' H)].
    + intros u. destruct (Nat.eq_dec u f) as [->|Hf]; [rewrite Hpf; constructor; [intros []|constructor]|].
      destruct (Nat.eq_dec u t) as [->|Hu]; [|rewrite (Hpo u Hu Hf); auto].
      pose proof (N7 t) as ND. rewrite Hpt in ND. apply NoDup_remove_1 in ND.
      rewrite app_nil_r in ND. exact ND.
    + intros a b n' Hab Ha Hb.
      destruct (Hprv a n' Ha) as [[Ea En]|[Ha' Hna]], (Hprv b n' Hb) as [[Eb En']|[Hb' Hnb]]; try congruence.
      apply (N8 a b n' Hab Ha' Hb').
    + intros u n' Hn'. destruct (Hprv u n' Hn') as [[_ ->]|[H _]]; [apply (N9 t h Hpn)|].
      apply (N9 u n' H).
  - apply (invQ_frame x); try reflexivity. apply (I_Q x HI).
Qed.

Lemma L_wake v p w :
  L v p -> vha v = HNode w ->
  wphase p /\
  (vfs v <> ST_WAITING -> vbl v = false /\
     L (mkV (vfs v) (vfn v) (S (vpd v)) (vbl v) (vro v) HWoken (vch v) (vsm v) (vinq v)) p) /\
  (vfs v = ST_WAITING -> vbl v = true /\
     L (mkV ST_READY (vfn v) (vpd v) false (vro v) HWoken (vch v) (vsm v) (vinq v)) p).
Proof.
  destruct v as [fs fn pd bl ro ha ch sm inq]. cbn [vfs vfn vpd vbl vch vsm vinq vha vro].
  intros HL ->. unfold wphase.
  destruct p as [| | |? c| |[] ? ? ?|[] []| | |[] ? ? ?];
  revert HL; Lunf;
  try (intros HL; exfalso; intuition discriminate);
  (intros HL; split; [repeat split; discriminate|]);
  (split; intros Hfs; [|subst fs]); try (exfalso; intuition discriminate);
  intuition (try discriminate; try congruence).
Qed.

(* the wake-up of the popped waiter f, followed by thread t's private return path *)
Lemma deliver f (m0 m2 : kmem) p2 :
  extra (stk (gb x) t) = [] -> settled (hand x t) -> role x t = Idle -> popping x t f (HNode t) ->
  (m0 = m /\ fstate m f <> ST_WAITING) \/ (m0 = set_fstate m f ST_READY /\ fstate m f = ST_WAITING) ->
  loc_eq (wake m0 f) m2 t -> extra (stk_of p2) = [] ->
  let x' := mk x t m2 (stk_of p2) (role x) (upd (hand x) f HWoken) (gq x) (debt x) (chand x) (cq x) in
  L (view_of x' t) p2 -> X x' t p2 -> Inv x'.
Proof.
  intros Hex Hset Hrt Hp Hm (Ed & En & Ew & Eh & Et & Ef & Ec & S2 & S3 & S4 & Eo) Hex2 x' HL2 HX2.
  destruct Hp as (Hp1 & Hp2).
  assert (Hft : f <> t) by congruence.
  destruct (I_thr x HI f) as (q & Q1 & Q2 & Q3).
  destruct (L_wake _ q t Q2 Hp1) as ((Qa & Qb & Qc & Qd) & W1 & W2). cbn [view_of vfs vbl] in W1, W2.
  assert (Hst : forall u, u <> t -> stk (gb x') u = stk (gb x) u) by stk_other.
  assert (Hw : ndata (wake m0 f) = ndata m /\ nnext (wake m0 f) = nnext m /\ word (wake m0 f) = word m /\
               qhead (wake m0 f) = qhead m /\ qtail (wake m0 f) = qtail m /\ fnode (wake m0 f) = fnode m /\
               cell (wake m0 f) = cell m /\ slot_sched (wake m0 f) = slot_sched m /\
               slot_wait (wake m0 f) = slot_wait m /\ slot_mpmc (wake m0 f) = slot_mpmc m /\
               slot_mutex (wake m0 f) = slot_mutex m /\
               forall u, u <> f -> fstate (wake m0 f) u = fstate m u /\ blocked (wake m0 f) u = blocked m u /\
                                   pend (wake m0 f) u = pend m u).
  { unfold wake.
    destruct Hm as [[-> _]|[-> _]]; cbn [set_fstate blocked]; destruct (blocked m f); cbn;
    repeat split; try reflexivity; rewrite ?upd_other by assumption; reflexivity. }
  destruct Hw as (Wd & Wn & Ww & Wh & Wt & Wf & Wc & W2' & W3' & W4' & W1' & Wo).
  rewrite Wd in Ed. rewrite Wn in En. rewrite Ww in Ew. rewrite Wh in Eh. rewrite Wt in Et.
  rewrite Wf in Ef. rewrite Wc in Ec. rewrite W2' in S2. rewrite W3' in S3. rewrite W4' in S4.
  constructor.
  - intros u. destruct (Nat.eq_dec u t) as [->|Nu]; [|destruct (Nat.eq_dec u f) as [->|Nf]].
    + exists p2. split; [cbn; apply upd_same|]. split; assumption.
    + exists q. rewrite (Hst f Nu). split; [exact Q1|]. split.
      * destruct (Eo f Nu) as (F1 & F2 & F3 & F4).
        destruct Hm as [[-> Hw]|[-> Hw]].
        -- destruct (W1 Hw) as [Hb HL']. eapply L_eqv; [|exact HL'].
           unfold view_eqv, view_of. cbn [x' mk gb mem role hand gq chand vfs vfn vpd vbl vro vha vch vsm vinq].
           rewrite F1, F2, F3, F4, Ef, W1'. unfold wake. rewrite Hb. cbn.
           rewrite ?upd_same. tauto.
        -- destruct (W2 Hw) as [Hb HL']. eapply L_eqv; [|exact HL'].
           unfold view_eqv, view_of. cbn [x' mk gb mem role hand gq chand vfs vfn vpd vbl vro vha vch vsm vinq].
           rewrite F1, F2, F3, F4, Ef, W1'. unfold wake. cbn [set_fstate blocked]. rewrite Hb. cbn.
           rewrite ?upd_same. tauto.
      * xcases q; try exact I; exfalso;
        first [eapply Qb; reflexivity|eapply Qc; reflexivity|eapply Qd; reflexivity|
               eapply (proj1 (Qa _ _ _ _)); reflexivity|eapply (proj2 (Qa _ _ _ _)); reflexivity].
    + destruct (I_thr x HI u) as (r & R1 & R2 & R3). exists r.
      rewrite (Hst u Nu). split; [exact R1|]. split.
      * destruct (Eo u Nu) as (F1 & F2 & F3 & F4). destruct (Wo u Nf) as (G1 & G2 & G3).
        eapply L_eqv; [|exact R2]. unfold view_eqv, view_of.
        cbn [x' mk gb mem role hand gq chand vfs vfn vpd vbl vro vha vch vsm vinq].
        rewrite F1, F2, F3, F4, G1, G2, G3, Ef, W1', !upd_other by auto. tauto.
      * assert (P : forall g hh, hh = HPopped u \/ hh = HNode u -> popping x u g hh ->
                                 popping x' u g hh /\ g <> f /\ g <> t).
        { intros g hh Hh (P1 & P2). assert (g <> f).
          { intros ->. rewrite Hp1 in P1. destruct Hh as [-> | ->]; congruence. }
          assert (g <> t).
          { intros ->. destruct Hset as [A|A], Hh as [-> | ->]; congruence. }
          unfold popping. cbn. rewrite !upd_other by auto. auto. }
        xcases r; try exact R3; revert R3; unfold X, Xk;
        cbn [x' mk gb mem gq debt]; rewrite ?Ed, ?En, ?Eh, ?Ec; auto.
        -- unfold csx. cbn [x' mk gb mem cq chand onelist]. rewrite Ec. auto.
        -- intros (A & g & B & Q). split; [exact A|]. exists g. split; [exact B|]. apply P; auto.
        -- intros (g & B & Q). exists g. split; [exact B|]. apply P; auto.
        -- intros (g & B & Q). exists g. split; [exact B|]. apply P; auto.
        -- intros Q. apply P; auto.
        -- intros (Q & B). destruct (P _ _ (or_intror eq_refl) Q) as (Q' & Ng & Ngt). split; [exact Q'|].
           destruct (Eo _ Ngt) as (F1 & _). destruct (Wo _ Ng) as (G1 & _). congruence.
  - intros u. cbn. rewrite S2, S3, S4. apply (I_slots x HI).
  - apply debt_k_frame; [reflexivity|stk_other|]. intros Hd.
    destruct (popping_no_debt f (HNode t) (conj Hp1 Hp2) Hd).
  - apply (invC_frame x); try reflexivity; [|apply (I_C x HI)]. cbn. now rewrite Ew.
  - apply (invN_frame x); cbn [x' mk gb mem gq]; auto; [|apply (I_N x HI)].
    intros u. cbn. destruct (Nat.eq_dec u t) as [->|N]; [rewrite upd_same; congruence|now rewrite upd_other].
  - apply (invQ_frame x); cbn [x' mk gb mem cq chand]; auto. apply (I_Q x HI).
Qed.

Lemma wake_other (mm : kmem) f u : u <> f ->
  fstate (wake mm f) u = fstate mm u /\ blocked (wake mm f) u = blocked mm u /\ pend (wake mm f) u = pend mm u.
Proof. intros H. unfold wake. destruct (blocked mm f); cbn; rewrite ?upd_other by exact H; auto. Qed.
Lemma wake_slots (mm : kmem) f :
  slot_sched (wake mm f) = slot_sched mm /\ slot_wait (wake mm f) = slot_wait mm /\
  slot_mpmc (wake mm f) = slot_mpmc mm /\ slot_mutex (wake mm f) = slot_mutex mm.
Proof. unfold wake. destruct (blocked mm f); cbn; auto. Qed.

Ltac loc_tac := unfold loc_eq; cbn; repeat split; try reflexivity; intros;
                rewrite ?upd_other by assumption; auto.

(* the wake-up at the end of a pop and the return path of the wake loop *)
Lemma deliver_k f tl kf (m0 : kmem) e ol sz m1 e1 s1 :
  extra (stk (gb x) t) = [] -> Lk (view_of x t) kf tl -> popping x t f (HNode t) ->
  (m0 = m /\ fstate m f <> ST_WAITING) \/ (m0 = set_fstate m f ST_READY /\ fstate m f = ST_WAITING) ->
  ksched mc (cret ol sz) m0 t 0 1 0 f e (ktail tl) = (m1, e1, s1) ->
  Inv (mk x t m1 s1 (role x) (upd (hand x) f HWoken) (gq x) (debt x) (chand x) (cq x)).
Proof.
  intros Hex HL Hp Hm EK.
  destruct (Lk_facts _ _ _ HL) as (Hqt & Hrt & Hsm). cbn in Hrt, Hsm.
  assert (Hset : settled (hand x t)) by apply Hqt.
  assert (Hft : f <> t) by (intros ->; destruct Hp; congruence).
  assert (Hm0 : slots_ok m0 /\ slot_mutex m0 t = None /\ pend m0 t = pend m t /\ blocked m0 t = blocked m t /\
                fnode m0 t = fnode m t /\ fstate m0 t = fstate m t).
  { pose proof (I_slots x HI) as S. destruct Hm as [[-> _]|[-> _]]; cbn; rewrite ?upd_other by auto;
    (split; [exact S|]); repeat split; auto. }
  destruct Hm0 as (S0 & Sm0 & Pd0 & Bl0 & Fn0 & Fs0).
  destruct (wake_other m0 f t (not_eq_sym Hft)) as (Wf & Wb & Wp).
  destruct (wake_slots m0 f) as (Ws1 & Ws2 & Ws3 & Ws4).
  unfold ksched, kloop in EK. cbn -[wake run_slots] in EK.
  destruct tl as [r p k|a p k]; cbn -[wake run_slots] in EK.
  - injection EK as <- _ <-.
    apply (deliver f m0 (wake m0 f) (PUY r p k) Hex Hset Hrt Hp Hm); [loc_tac|reflexivity| |exact I].
    destruct HL as [HL _]. revert HL. Lunf. unfold view_of.
    cbn [mk gb mem role hand gq chand vfs vfn vpd vbl vro vha vch vsm vinq].
    rewrite Wf, Wb, Wp, Ws4, Sm0, Pd0, Bl0, Fs0, upd_other by auto.
    unfold wake. destruct (blocked m0 f); cbn; rewrite Fn0; tauto.
  - rewrite run_slots_none in EK;
      [|intros u; rewrite Ws1, Ws2, Ws3; apply S0|rewrite Ws4; exact Sm0].
    unfold sleep in EK. rewrite Wp, Pd0 in EK.
    destruct HL as [(_ & _ & _ & Hcw) _]. unfold cwait in Hcw. cbn in Hcw.
    assert (Hfn : fnode (wake m0 f) t = fnode m t).
    { unfold wake. destruct (blocked m0 f); cbn; exact Fn0. }
    destruct (pend m t) as [|pd] eqn:Epd.
    + injection EK as <- _ <-.
      apply (deliver f m0 _ (PY YfAs a p k) Hex Hset Hrt Hp Hm); [loc_tac|reflexivity| |exact I].
      revert Hqt. Lunf. unfold view_of.
      cbn [mk gb mem role hand gq chand vfs vfn vpd vbl vro vha vch vsm vinq set_blocked
           fstate fnode pend blocked slot_mutex].
      rewrite Wp, Ws4, Sm0, Pd0, Hfn, !upd_same, upd_other by auto. intros Hq.
      destruct (chand x t); try contradiction; try discriminate; intuition eauto.
    + injection EK as <- _ <-.
      apply (deliver f m0 _ (PY YfRe a p k) Hex Hset Hrt Hp Hm); [loc_tac|reflexivity| |exact I].
      revert Hqt. Lunf. unfold view_of.
      cbn [mk gb mem role hand gq chand vfs vfn vpd vbl vro vha vch vsm vinq set_pend
           fstate fnode pend blocked slot_mutex].
      rewrite Wb, Bl0, Ws4, Sm0, Hfn, !upd_same, upd_other by auto. intros Hq.
      destruct (chand x t); try contradiction; try discriminate; intuition.
Qed.

Lemma step_KfState f tl :
  stk (gb x) t = stk_of (PK (KfState f) tl) -> L (view_of x t) (PK (KfState f) tl) ->
  X x t (PK (KfState f) tl) -> Inv (gstep x t).
Proof.
  intros Hs HL HX. cbn in HX.
  assert (Hex : extra (stk (gb x) t) = []) by (rewrite Hs; reflexivity).
  destruct (fstate m f =? ST_WAITING) eqn:E.
  - gred Hs. cbn. rewrite E. cbn. apply Z.eqb_eq in E.
    apply (inv_local x t _ _ (PK (KfReady f) tl) HI); [loc_tac|reflexivity|rewrite Hs; reflexivity|exact HL| |auto|].
    + split; [exact HX|exact E].
    + intros Hd. destruct (popping_no_debt _ _ HX Hd).
  - unfold gstep, step. rewrite Hs. cbn [stk_of kframes app]. cbn -[ksched]. rewrite E.
    destruct (ksched _ _ _ _ _ _ _ _ _ _) as [[m1 e1] s1] eqn:EK. cbn.
    apply Z.eqb_neq in E.
    apply (deliver_k f tl (KfState f) m _ _ _ _ _ _ Hex HL HX (or_introl (conj eq_refl E)) EK).
Qed.

Lemma step_KfReady f tl :
  stk (gb x) t = stk_of (PK (KfReady f) tl) -> L (view_of x t) (PK (KfReady f) tl) ->
  X x t (PK (KfReady f) tl) -> Inv (gstep x t).
Proof.
  intros Hs HL HX. destruct HX as [HX E].
  assert (Hex : extra (stk (gb x) t) = []) by (rewrite Hs; reflexivity).
  unfold gstep, step. rewrite Hs. cbn [stk_of kframes app]. cbn -[ksched].
  destruct (ksched _ _ _ _ _ _ _ _ _ _) as [[m1 e1] s1] eqn:EK. cbn.
  apply (deliver_k f tl (KfReady f) _ _ _ _ _ _ _ Hex HL HX (or_intror (conj eq_refl E)) EK).
Qed.
End Nodes.
