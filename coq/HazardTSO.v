(* The hazard-pointer publication protocol (C14, first mechanism) on an x86-TSO
   store-buffer machine.  Self-contained (Coq stdlib only).

   Code modelled:
     include/hazard_pointer.h:72-81   hazard_pointer_using: slot store, store_load_barrier();
                                      the caller then re-reads the shared pointer and retries;
                                      hazard_pointer_done_using: slot := 0
     src/hazard_pointer.c:117-168     hazard_pointer_scan: read every slot of every record,
                                      free the retired nodes found in none, keep the others

   TSO machine: memory [mem], one FIFO store buffer per thread [buf t] (oldest
   entry first).  A store appends to the issuing thread's buffer; a load returns
   the newest entry for that location in the OWN buffer, else memory; [Flush t]
   (nondeterministic, any time) commits the oldest entry of t's buffer; a fence
   and a locked read-modify-write are enabled only when the own buffer is empty.

   Locations: LX = the shared pointer (e.g. the queue head), LH t i = slot i of
   thread t's hazard record.  Nodes are nats >= 1 (0 = NULL), allocated fresh
   from the counter [nxt]: a node is never linked again after it was unlinked.

   Every thread may act in both roles; an idle thread starts an operation with
   the corresponding label.
     reader, slot i     Protect t i   start (pc := A1)
                        Step t @A1    p := load LX
                        Step t @A2    store LH t i := p          (buffered)
                        Step t @A3    store_load_barrier(): enabled iff buf t = []
                                      (with [fenced = false]: a no-op, always enabled)
                        Step t @A4    q := load LX; q = p: validated ([held i := p]); else back to A1
                        Use t i       "A5": dereference of the validated node [held i]
                        Clear t i     "A6": store LH t i := 0    (buffered); [held i := 0]
     reclaimer          Unlink t      "B1": locked CAS on LX (enabled iff buf t = []):
                                      p := LX; LX := fresh node
                        Step t @B2    retire p (private list [rl])
                        Scan t r i    "B3": load LH r i, once per slot, any order; non-NULL values
                                      are collected in [seen]
                        Free t        "B4": enabled when every slot (r < NT, i < K) was read:
                                      the retired nodes not in [seen] are freed, the others stay retired
   [held (thr s t) i = p <> 0]: t validated p in slot i and has not overwritten
   the slot since: the window in which t dereferences p ("t is at A5 with p").
   [uaf] is set by a Use of a freed node. *)
From Coq Require Import List Arith Bool Lia.
Import ListNotations.

Definition upd {A} (f : nat -> A) (k : nat) (x : A) : nat -> A :=
  fun j => if Nat.eqb j k then x else f j.

Inductive loc := LX | LH (t i : nat).
Definition loc_eqb (a b : loc) : bool :=
  match a, b with
  | LX, LX => true
  | LH t i, LH u j => Nat.eqb t u && Nat.eqb i j
  | _, _ => false
  end.
Definition updl (m : loc -> nat) (l : loc) (v : nat) : loc -> nat :=
  fun l' => if loc_eqb l' l then v else m l'.

Inductive pcT := Idle | A1 | A2 | A3 | A4 | B2 | B3.

Record tst := mkT {
  pc : pcT;
  cs : nat;                 (* protect: slot *)
  cp : nat;                 (* protect: node read at A1; unlink: node unlinked *)
  held : nat -> nat;        (* slot -> validated node (0 = none) *)
  rl : list nat;            (* private retired list *)
  sc : list (nat * nat);    (* scan: slots read so far *)
  seen : list nat           (* scan: plist *)
}.

Record st := mkS {
  mem : loc -> nat;
  buf : nat -> list (loc * nat);
  thr : nat -> tst;
  nxt : nat;                (* next fresh node *)
  freed : list nat;
  uaf : bool
}.

Inductive label :=
| Flush (t : nat) | Protect (t i : nat) | Step (t : nat) | Use (t i : nat) | Clear (t i : nat)
| Unlink (t : nat) | Scan (t r i : nat) | Free (t : nat).

Definition ltid (l : label) : nat :=
  match l with
  | Flush t | Protect t _ | Step t | Use t _ | Clear t _ | Unlink t | Scan t _ _ | Free t => t
  end.

(* ---------- the store-buffer memory ---------- *)
(* newest entry for l (the buffer is oldest first) *)
Fixpoint lookup (b : list (loc * nat)) (l : loc) : option nat :=
  match b with
  | [] => None
  | (l', v) :: r =>
      match lookup r l with
      | Some x => Some x
      | None => if loc_eqb l' l then Some v else None
      end
  end.

Definition rd (s : st) (t : nat) (l : loc) : nat :=
  match lookup (buf s t) l with Some v => v | None => mem s l end.

Definition wr (s : st) (t : nat) (l : loc) (v : nat) : st :=
  mkS (mem s) (upd (buf s) t (buf s t ++ [(l, v)])) (thr s) (nxt s) (freed s) (uaf s).

Definition flush (s : st) (t : nat) : option st :=
  match buf s t with
  | [] => None
  | (l, v) :: r => Some (mkS (updl (mem s) l v) (upd (buf s) t r) (thr s) (nxt s) (freed s) (uaf s))
  end.

Definition set_thr (s : st) (t : nat) (T : tst) : st :=
  mkS (mem s) (buf s) (upd (thr s) t T) (nxt s) (freed s) (uaf s).

Definition is_nil {A} (l : list A) : bool := match l with [] => true | _ => false end.
Definition memb (n : nat) (l : list nat) : bool := existsb (Nat.eqb n) l.
Definition memp (p : nat * nat) (l : list (nat * nat)) : bool :=
  existsb (fun q => Nat.eqb (fst p) (fst q) && Nat.eqb (snd p) (snd q)) l.
Definition all_slots (NT K : nat) : list (nat * nat) := list_prod (seq 0 NT) (seq 0 K).
Definition is_idle (p : pcT) : bool := match p with Idle => true | _ => false end.
Definition is_b3 (p : pcT) : bool := match p with B3 => true | _ => false end.

(* ---------- the TSO machine ---------- *)
Definition step (fenced : bool) (NT K : nat) (s : st) (l : label) : option st :=
  match l with
  | Flush t => flush s t
  | Protect t i =>
      let T := thr s t in
      if (t <? NT) && (i <? K) && is_idle (pc T)
      then Some (set_thr s t (mkT A1 i (cp T) (held T) (rl T) (sc T) (seen T)))
      else None
  | Step t =>
      let T := thr s t in
      if t <? NT then
        match pc T with
        | A1 => Some (set_thr s t (mkT A2 (cs T) (rd s t LX) (held T) (rl T) (sc T) (seen T)))
        | A2 => Some (wr (set_thr s t (mkT A3 (cs T) (cp T) (upd (held T) (cs T) 0) (rl T) (sc T) (seen T)))
                         t (LH t (cs T)) (cp T))
        | A3 => if negb fenced || is_nil (buf s t)
                then Some (set_thr s t (mkT A4 (cs T) (cp T) (held T) (rl T) (sc T) (seen T)))
                else None
        | A4 => if rd s t LX =? cp T
                then Some (set_thr s t (mkT Idle (cs T) (cp T) (upd (held T) (cs T) (cp T)) (rl T) (sc T) (seen T)))
                else Some (set_thr s t (mkT A1 (cs T) (cp T) (held T) (rl T) (sc T) (seen T)))
        | B2 => Some (set_thr s t (mkT B3 (cs T) (cp T) (held T) (cp T :: rl T) [] []))
        | _ => None
        end
      else None
  | Use t i =>
      let T := thr s t in
      if (t <? NT) && negb (held T i =? 0)
      then Some (mkS (mem s) (buf s) (thr s) (nxt s) (freed s) (uaf s || memb (held T i) (freed s)))
      else None
  | Clear t i =>
      let T := thr s t in
      if (t <? NT) && (i <? K) && is_idle (pc T)
      then Some (wr (set_thr s t (mkT Idle (cs T) (cp T) (upd (held T) i 0) (rl T) (sc T) (seen T)))
                    t (LH t i) 0)
      else None
  | Unlink t =>
      let T := thr s t in
      if (t <? NT) && is_idle (pc T) && is_nil (buf s t)
      then Some (mkS (updl (mem s) LX (nxt s)) (buf s)
                     (upd (thr s) t (mkT B2 (cs T) (mem s LX) (held T) (rl T) (sc T) (seen T)))
                     (S (nxt s)) (freed s) (uaf s))
      else None
  | Scan t r i =>
      let T := thr s t in
      if (t <? NT) && (r <? NT) && (i <? K) && is_b3 (pc T)
      then let v := rd s t (LH r i) in
           Some (set_thr s t (mkT B3 (cs T) (cp T) (held T) (rl T) ((r, i) :: sc T)
                                  (if v =? 0 then seen T else v :: seen T)))
      else None
  | Free t =>
      let T := thr s t in
      if (t <? NT) && is_b3 (pc T) && forallb (fun p => memp p (sc T)) (all_slots NT K)
      then Some (mkS (mem s) (buf s)
                     (upd (thr s) t (mkT Idle (cs T) (cp T) (held T)
                                         (filter (fun n => memb n (seen T)) (rl T)) (sc T) (seen T)))
                     (nxt s)
                     (filter (fun n => negb (memb n (seen T))) (rl T) ++ freed s) (uaf s))
      else None
  end.

Definition T0 : tst := mkT Idle 0 0 (fun _ => 0) [] [] [].
(* node 1 is linked, every slot is NULL, every buffer empty *)
Definition init : st :=
  mkS (fun l => match l with LX => 1 | LH _ _ => 0 end) (fun _ => []) (fun _ => T0) 2 [] false.

Inductive reachable (fenced : bool) (NT K : nat) : st -> Prop :=
| r_init : reachable fenced NT K init
| r_step s l s' : reachable fenced NT K s -> step fenced NT K s l = Some s' -> reachable fenced NT K s'.

(* a schedule is a list of labels; [run] fails on a disabled step *)
Fixpoint run (fenced : bool) (NT K : nat) (s : st) (sch : list label) : option st :=
  match sch with
  | [] => Some s
  | l :: r => match step fenced NT K s l with Some s' => run fenced NT K s' r | None => None end
  end.

Lemma run_reachable fenced NT K sch : forall s s',
  reachable fenced NT K s -> run fenced NT K s sch = Some s' -> reachable fenced NT K s'.
Proof.
  induction sch as [|l r IH]; intros s s' R E; cbn in E.
  - inversion E; subst; exact R.
  - destruct (step fenced NT K s l) as [s1|] eqn:E1; [|discriminate].
    eapply IH; [|exact E]. eapply r_step; eauto.
Qed.

(* "t is at A5 with p": validated in slot i, dereferencing *)
Definition at_A5 (s : st) (t i p : nat) : Prop := held (thr s t) i = p /\ p <> 0.

(* ---------- the sequentially consistent counterpart ----------
   No buffers: a store writes memory, a load reads memory, the fence is a
   no-op; there is no [fenced] switch.  [Flush] is never enabled. *)
Record sst := mkSS {
  smem : loc -> nat; sthr : nat -> tst; snxt : nat; sfreed : list nat; suaf : bool }.

Definition erase (s : st) : sst := mkSS (mem s) (thr s) (nxt s) (freed s) (uaf s).

Definition sc_step (NT K : nat) (s : sst) (l : label) : option sst :=
  match l with
  | Flush t => None
  | Protect t i =>
      let T := sthr s t in
      if (t <? NT) && (i <? K) && is_idle (pc T)
      then Some (mkSS (smem s) (upd (sthr s) t (mkT A1 i (cp T) (held T) (rl T) (sc T) (seen T)))
                      (snxt s) (sfreed s) (suaf s))
      else None
  | Step t =>
      let T := sthr s t in
      let th T' := Some (mkSS (smem s) (upd (sthr s) t T') (snxt s) (sfreed s) (suaf s)) in
      if t <? NT then
        match pc T with
        | A1 => th (mkT A2 (cs T) (smem s LX) (held T) (rl T) (sc T) (seen T))
        | A2 => Some (mkSS (updl (smem s) (LH t (cs T)) (cp T))
                           (upd (sthr s) t (mkT A3 (cs T) (cp T) (upd (held T) (cs T) 0) (rl T) (sc T) (seen T)))
                           (snxt s) (sfreed s) (suaf s))
        | A3 => th (mkT A4 (cs T) (cp T) (held T) (rl T) (sc T) (seen T))
        | A4 => if smem s LX =? cp T
                then th (mkT Idle (cs T) (cp T) (upd (held T) (cs T) (cp T)) (rl T) (sc T) (seen T))
                else th (mkT A1 (cs T) (cp T) (held T) (rl T) (sc T) (seen T))
        | B2 => th (mkT B3 (cs T) (cp T) (held T) (cp T :: rl T) [] [])
        | _ => None
        end
      else None
  | Use t i =>
      let T := sthr s t in
      if (t <? NT) && negb (held T i =? 0)
      then Some (mkSS (smem s) (sthr s) (snxt s) (sfreed s) (suaf s || memb (held T i) (sfreed s)))
      else None
  | Clear t i =>
      let T := sthr s t in
      if (t <? NT) && (i <? K) && is_idle (pc T)
      then Some (mkSS (updl (smem s) (LH t i) 0)
                      (upd (sthr s) t (mkT Idle (cs T) (cp T) (upd (held T) i 0) (rl T) (sc T) (seen T)))
                      (snxt s) (sfreed s) (suaf s))
      else None
  | Unlink t =>
      let T := sthr s t in
      if (t <? NT) && is_idle (pc T)
      then Some (mkSS (updl (smem s) LX (snxt s))
                      (upd (sthr s) t (mkT B2 (cs T) (smem s LX) (held T) (rl T) (sc T) (seen T)))
                      (S (snxt s)) (sfreed s) (suaf s))
      else None
  | Scan t r i =>
      let T := sthr s t in
      if (t <? NT) && (r <? NT) && (i <? K) && is_b3 (pc T)
      then let v := smem s (LH r i) in
           Some (mkSS (smem s)
                      (upd (sthr s) t (mkT B3 (cs T) (cp T) (held T) (rl T) ((r, i) :: sc T)
                                           (if v =? 0 then seen T else v :: seen T)))
                      (snxt s) (sfreed s) (suaf s))
      else None
  | Free t =>
      let T := sthr s t in
      if (t <? NT) && is_b3 (pc T) && forallb (fun p => memp p (sc T)) (all_slots NT K)
      then Some (mkSS (smem s)
                      (upd (sthr s) t (mkT Idle (cs T) (cp T) (held T)
                                           (filter (fun n => memb n (seen T)) (rl T)) (sc T) (seen T)))
                      (snxt s)
                      (filter (fun n => negb (memb n (seen T))) (rl T) ++ sfreed s) (suaf s))
      else None
  end.

Fixpoint sc_run (NT K : nat) (s : sst) (sch : list label) : option sst :=
  match sch with
  | [] => Some s
  | l :: r => match sc_step NT K s l with Some s' => sc_run NT K s' r | None => None end
  end.

(* TSO step with the store flushed immediately: a thread step, then one flush
   of the stepping thread's buffer if it is not empty *)
Definition estep (fenced : bool) (NT K : nat) (s : st) (l : label) : option st :=
  match step fenced NT K s l with
  | Some s' => match flush s' (ltid l) with Some s'' => Some s'' | None => Some s' end
  | None => None
  end.

Fixpoint erun (fenced : bool) (NT K : nat) (s : st) (sch : list label) : option st :=
  match sch with
  | [] => Some s
  | l :: r => match estep fenced NT K s l with Some s' => erun fenced NT K s' r | None => None end
  end.
