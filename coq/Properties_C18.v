(* C18 — ticket spinlock (src/fiber_spinlock.c): mutual exclusion, FIFO ticket
   order, trylock never steals and never spins, unlock advances the ticket by
   exactly one.  Statements over every reachable state of coq/Spin.v: any
   number of threads, any programs of lock / trylock / unlock-if-held, any
   schedule, both counters starting at ANY value [start] (taken mod 2^32, so
   2^32-1 and the wrap-around are covered: all arithmetic below is mod W = 2^32).
   Guard (DESIGN.md C18): fewer than 2^32 contenders, stated as the hypothesis
   [Z.of_nat (length progs) < W] on the number of threads. *)
From Coq Require Import List ZArith.
From LF Require Import Conc Spin SpinProofs.
Import ListNotations.
Local Open Scope Z_scope.

(* in_cs s t  :=  held (thr s t) = true : set by the step in which lock's load
   sees its own ticket / trylock's CAS succeeds, cleared by unlock's store.
   outst T    :=  pc T = LSpin \/ held T = true : owns an outstanding ticket. *)

(* at most one thread is in its critical section *)
Theorem spin_exclusion : forall start progs s t u,
  Z.of_nat (length progs) < W ->
  reachable M (init start progs) s ->
  in_cs s t -> in_cs s u -> t = u.
Proof. intros start progs s t u Hn R. exact (exclusion_of_inv s t u (reachable_inv start progs s Hn R)). Qed.
Print Assumptions spin_exclusion.

(* tickets are served in order: a spinning lock() acquires in a step iff the
   ticket half equals its ticket; the outstanding tickets are exactly
   ticket, ticket+1, .., users-1 (mod 2^32), each owned by exactly one thread
   (spinning or holding), and the holder owns the first of them *)
Theorem spin_fifo : forall start progs s,
  Z.of_nat (length progs) < W ->
  reachable M (init start progs) s ->
  (forall t, pc (thr s t) = LSpin ->
     (in_cs (fst (step s t)) t <-> ticket s = my (thr s t))) /\
  0 <= qlen s < W /\
  (forall t, outst (thr s t) ->
     exists k, 0 <= k < qlen s /\ my (thr s t) = wrap (ticket s + k)) /\
  (forall k, 0 <= k < qlen s ->
     exists t, outst (thr s t) /\ my (thr s t) = wrap (ticket s + k) /\
               forall u, outst (thr s u) -> my (thr s u) = wrap (ticket s + k) -> u = t) /\
  (forall t, in_cs s t -> my (thr s t) = ticket s).
Proof.
  intros start progs s Hn R. pose proof (reachable_inv start progs s Hn R) as I.
  split; [intros t; exact (acquire_iff s t I) | exact (fifo_of_inv s I)].
Qed.
Print Assumptions spin_fifo.

(* history form: with tlog = threads in the order they took a ticket
   (fetch_add on users, or a successful trylock CAS) and alog = threads in the
   order they acquired the lock, alog is a prefix of tlog and the rest is the
   list of the spinning threads, whose tickets are consecutive up to users-1:
   acquisition order = ticket order *)
Theorem spin_fifo_history : forall start progs x,
  Z.of_nat (length progs) < W ->
  ireach start progs x ->
  exists w, tlog x = alog x ++ w /\
    (forall u, In u w <-> pc (thr (base x) u) = LSpin) /\
    (forall k, (k < length w)%nat ->
       my (thr (base x) (nth k w 0%nat)) =
       wrap (users (base x) - Z.of_nat (length w) + Z.of_nat k)).
Proof. intros start progs x Hn R. exact (fifo_history_of_linv x (ireach_linv start progs x Hn R)). Qed.
Print Assumptions spin_fifo_history.

(* trylock's CAS succeeds only from a state with ticket = users in which
   nobody holds the lock and nobody is queued; and trylock never spins: from
   its first access (TRead) one own step leads to its CAS (TCas), and the CAS
   step returns (1 iff the word was (u,u)), whatever the other threads do —
   its two pcs form no loop.  (These two facts need no reachability.) *)
Theorem spin_trylock_no_steal : forall start progs s t,
  Z.of_nat (length progs) < W ->
  reachable M (init start progs) s ->
  (pc (thr s t) = TCas -> blob s = my (thr s t) * W + my (thr s t) ->
     ticket s = users s /\ (forall u, ~ in_cs s u) /\ (forall u, pc (thr s u) <> LSpin) /\
     in_cs (fst (step s t)) t) /\
  (pc (thr s t) = TRead ->
     pc (thr (fst (step s t)) t) = TCas /\ opi (thr (fst (step s t)) t) = opi (thr s t)) /\
  (pc (thr s t) = TCas ->
     returns_now s t (if blob s =? my (thr s t) * W + my (thr s t) then 1 else 0)).
Proof.
  intros start progs s t Hn R. pose proof (reachable_inv start progs s Hn R) as I.
  split; [exact (trylock_no_steal_of_inv s t I) | exact (trylock_straight s t)].
Qed.
Print Assumptions spin_trylock_no_steal.

(* a thread inside unlock is the holder; its store advances ticket by exactly
   one (mod 2^32), leaves users alone, leaves nobody in the critical section,
   and the call returns *)
Theorem spin_unlock_releases : forall start progs s t,
  Z.of_nat (length progs) < W ->
  reachable M (init start progs) s ->
  (pc (thr s t) = URead \/ pc (thr s t) = UStore) ->
  in_cs s t /\
  (pc (thr s t) = UStore ->
     ticket (fst (step s t)) = wrap (ticket s + 1) /\ users (fst (step s t)) = users s /\
     (forall u, ~ in_cs (fst (step s t)) u) /\ returns_now s t 1).
Proof. intros start progs s t Hn R. exact (unlock_releases_of_inv s t (reachable_inv start progs s Hn R)). Qed.
Print Assumptions spin_unlock_releases.

(* ---- non-vacuity: the hypotheses are met by concrete reachable states ---- *)
Local Close Scope Z_scope.
Definition ex_progs := [[OLock; OUnlock]; [OLock; OUnlock]; [OTry; OUnlock]].
Definition top : Z := 4294967295%Z.   (* 2^32 - 1: the first ticket taken wraps users to 0 *)
Definition ex_state sch := fst (run_sched M (init top ex_progs) sch).

Example ex_guard : (Z.of_nat (length ex_progs) < W)%Z.
Proof. reflexivity. Qed.

(* thread 0 holds ticket 2^32-1, thread 1 spins with ticket 0: users wrapped to 1 *)
Example ex_holder_and_waiter :
  let s := ex_state [0;1;0;1] in
  reachable M (init top ex_progs) s /\ in_cs s 0 /\ pc (thr s 1) = LSpin /\
  ticket s = top /\ users s = 1%Z /\ qlen s = 2%Z /\ my (thr s 1) = 0%Z.
Proof. split; [apply run_sched_reachable; constructor | vm_compute; repeat split; reflexivity]. Qed.

(* the unlock's store wraps the ticket half from 2^32-1 to 0, then thread 1 acquires *)
Example ex_unlock_wraps :
  let s := ex_state [0;1;0;1;0] in
  reachable M (init top ex_progs) s /\ pc (thr s 0) = UStore /\
  ticket s = top /\ ticket (fst (step s 0)) = 0%Z /\
  in_cs (fst (step (fst (step s 0)) 1)) 1.
Proof. split; [apply run_sched_reachable; constructor | vm_compute; repeat split; reflexivity]. Qed.

(* a trylock whose CAS is about to succeed (free lock) *)
Example ex_trylock_succeeds :
  let s := ex_state [2] in
  reachable M (init top ex_progs) s /\ pc (thr s 2) = TCas /\
  blob s = (my (thr s 2) * W + my (thr s 2))%Z.
Proof. split; [apply run_sched_reachable; constructor | vm_compute; repeat split; reflexivity]. Qed.

(* a trylock whose CAS is about to fail: thread 0 took the lock in between *)
Example ex_trylock_fails :
  let s := ex_state [2;0;0] in
  reachable M (init top ex_progs) s /\ pc (thr s 2) = TCas /\ in_cs s 0 /\
  blob s <> (my (thr s 2) * W + my (thr s 2))%Z /\
  ~ in_cs (fst (step s 2)) 2.
Proof.
  split; [apply run_sched_reachable; constructor | vm_compute; repeat split; try reflexivity; discriminate].
Qed.

(* a thread inside unlock (URead) *)
Example ex_unlocker_reachable :
  let s := ex_state [0;0] in
  reachable M (init top ex_progs) s /\ pc (thr s 0) = URead.
Proof. split; [apply run_sched_reachable; constructor | vm_compute; split; reflexivity]. Qed.

(* history: thread 1 takes its ticket first, thread 0 second; thread 0 polls
   first but the acquisitions follow the ticket order *)
Example ex_history_pending :
  let x := irun (iinit top ex_progs) [1;0;0;0] in
  ireach top ex_progs x /\ tlog x = [1; 0] /\ alog x = [] /\
  pc (thr (base x) 0) = LSpin /\ pc (thr (base x) 1) = LSpin.
Proof. split; [apply ireach_irun; constructor | vm_compute; repeat split; reflexivity]. Qed.

Example ex_history :
  let x := irun (iinit top ex_progs) [1;0;0;0;1;0;1;1;0;0;0;0] in
  ireach top ex_progs x /\ tlog x = [1; 0] /\ alog x = [1; 0] /\
  ticket (base x) = 1%Z /\ users (base x) = 1%Z.
Proof. split; [apply ireach_irun; constructor | vm_compute; repeat split; reflexivity]. Qed.
