(* KernelStepA: preservation of KInv by the labels that do not write a fiber's
   state word and do not switch (create, slot-done, schedule, next, steal,
   resumed, destroy, maintenance end, slot access). *)
From Coq Require Import List Arith Lia Bool.
From LF Require Import Conc Kernel KernelInv.

Lemma pres_steal n s t f s' : KInv n s -> kstep s (LSteal t f) = Some s' -> KInv n s'.
Proof. intros I H. cbn [kstep] in H. guards. now inversion H; subst. Qed.

Lemma pres_slotaccess n s t o s' : KInv n s -> kstep s (LSlotAccess t o) = Some s' -> KInv n s'.
Proof. intros I H. cbn [kstep] in H. guards. now inversion H; subst. Qed.

Lemma pres_next n s t f s' : KInv n s -> t < n -> kstep s (LNext t f) = Some s' -> KInv n s'.
Proof.
  intros I Ht H. cbn [kstep] in H. guards. inversion H; subst s'; clear H. bnorm.
  kinv n s I.
Qed.

Lemma pres_maintend n s t s' : KInv n s -> t < n -> kstep s (LMaintEnd t) = Some s' -> KInv n s'.
Proof. intros I Ht H. start H s'. kinv n s I. Qed.

Lemma pres_resumed n s t s' : KInv n s -> t < n -> kstep s (LResumed t) = Some s' -> KInv n s'.
Proof. intros I Ht H. start H s'; [|exact I]. kinv n s I. Qed.

Lemma pres_destroy n s t f s' : KInv n s -> t < n -> kstep s (LDestroy t f) = Some s' -> KInv n s'.
Proof. intros I Ht H. start H s'. kinv n s I. Qed.

Lemma pres_create n s t g s' : KInv n s -> t < n -> kstep s (LCreate t g) = Some s' -> KInv n s'.
Proof. intros I Ht H. start H s'. kinv n s I. Qed.

Lemma pres_slotdone n s t f s' : KInv n s -> t < n -> kstep s (LSlotDone t f) = Some s' -> KInv n s'.
Proof. intros I Ht H. start H s'. kinv n s I. Qed.

Lemma pres_sched n s t f s' : KInv n s -> t < n -> kstep s (LSched t f) = Some s' -> KInv n s'.
Proof. intros I Ht H. start H s'; kinv n s I. Qed.
