(* KernelStepA: preservation of KInv by the labels that do not write a fiber's
   state word and do not switch (create, slot-done, schedule, next, steal,
   resumed, destroy, maintenance end, slot access). *)
From Coq Require Import List Arith Lia Bool.
From LF Require Import Conc Kernel KernelInv.

Lemma pres_steal n s t f s' : KInv n s -> kstep s (LSteal t f) = Some s' -> KInv n s'.
Proof. intros I H. cbn [kstep] in H. guards. now inversion H; subst. Qed.

Lemma pres_slotaccess n s t o s' : KInv n s -> kstep s (LSlotAccess t o) = Some s' -> KInv n s'.
Proof. intros I H. cbn [kstep] in H. guards. now inversion H; subst. Qed.

Lemma pres_next n s t f s' : KInv n s -> t < n -> kstep s (LNext t f) = Some s' -> KInv n s'.
Proof.
  intros I Ht H. cbn [kstep] in H. guards. inversion H; subst s'; clear H. bnorm.
  constructor.
  all: try (timeout 10 (solve [clause n s I])).
  all: intros; simp_state; upd_tac. Show 1. Time all: try (timeout 10 (sat n s I)). Show 1.
Abort.
