(* KernelProofs: every reachable state of the protocol machine coq/Kernel.v
   satisfies KInv (KernelInv.v; preservation label by label in
   KernelStepA/B/C.v); the C01 / C02 facts follow.

   History: the machine as first validated against the runtime (without the
   three maintenance-fiber guards now in Kernel.v: a manager's maintenance
   fiber never yields as READY, never publishes itself through a deferred
   slot, never becomes a done_fiber) VIOLATED C01_exclusive and C01_reclaim.
   Shortest counterexample, 2 kernel threads (found by breadth-first search
   over the extracted kstep):
     LCreate 1 2; LWrite 1 2 FRun; LWrite 1 1 FDone; LSched 1 2; LNext 1 2;
     LSlotDone 1 1; LSwitch 1 1 2; LWrite 1 1 FRun; LSwitch 1 2 1; LDestroy 1 1
   -- thread 1's maintenance fiber (fiber 1) registers itself as done_fiber,
   is switched back to through the maintenance-fiber switch target, and is
   then freed by the pending deferred destroy while it is thread 1's current
   fiber.  With the guards this sequence is rejected at LSlotDone 1 1 (Example
   unguarded_counterexample_rejected below) and the theorems hold. *)
From Coq Require Import List Arith Lia Bool.
From LF Require Import Conc Kernel KernelInv KernelStepA KernelStepB KernelStepC.
Import ListNotations.

Lemma kinit_inv n : KInv n (kinit n).
Proof.
  constructor; unfold kinit; cbn [fs cx cur q hand avail holder tosched donef pubpend maintf oldf inmaint born].
  - intros t Ht. apply Nat.ltb_lt in Ht. now rewrite Ht.
  - intros f t H. destruct (f <? n) eqn:E; [|discriminate]. apply Nat.ltb_lt in E. inversion H; subst. auto.
  - intros f H. destruct (f <? n); [discriminate|reflexivity].
  - intros t Ht. assert (t <? n = false) as -> by (apply Nat.ltb_ge; lia). rewrite andb_false_r. repeat split.
  - intros f a b Ha Hb. destruct a, b; cbn [ref kinit q hand avail holder tosched donef pubpend born maintf] in *; try congruence.
    destruct ((0 <? t) && (t <? n)), ((0 <? t0) && (t0 <? n)); congruence.
  - intros f a Ha. destruct a; cbn [ref kinit q hand avail holder tosched donef pubpend born maintf] in *; try congruence.
    destruct ((0 <? t) && (t <? n)) eqn:E; [|discriminate]. inversion Ha; subst.
    apply andb_prop in E. destruct E as (_&E). rewrite E. split; discriminate.
  - discriminate.
  - discriminate.
  - discriminate.
  - discriminate.
  - discriminate.
  - discriminate.
  - discriminate.
  - discriminate.
  - discriminate.
  - intros t m H. destruct ((0 <? t) && (t <? n)); [|discriminate]. inversion H. now left.
  - discriminate.
  - discriminate.
  - discriminate.
  - discriminate.
  - discriminate.
Qed.

Lemma kstep_inv n s l s' : KInv n s -> thread_of l < n -> kstep s l = Some s' -> KInv n s'.
Proof.
  intros I Ht H. destruct l; cbn [thread_of] in Ht.
  - eapply pres_create; eauto.
  - eapply pres_write; eauto.
  - eapply pres_slotdone; eauto.
  - eapply pres_sched; eauto.
  - eapply pres_next; eauto.
  - eapply pres_steal; eauto.
  - eapply pres_switch; eauto.
  - eapply pres_resumed; eauto.
  - eapply pres_destroy; eauto.
  - eapply pres_maintend; eauto.
  - eapply pres_slotaccess; eauto.
Qed.

Theorem kreach_inv n s : kreach n s -> KInv n s.
Proof. induction 1; [apply kinit_inv | eapply kstep_inv; eauto]. Qed.

(* ---- C01: one kernel thread at a time ---- *)
Lemma exclusive_of_inv n s : KInv n s ->
  (forall t, t < n -> cx s (cur s t) = CLive t) /\
  (forall f t, cx s f = CLive t -> t < n /\ cur s t = f).
Proof. intros I. split; [exact (k1 n s I) | exact (k2 n s I)]. Qed.

Lemma cur_injective_of_inv n s : KInv n s ->
  forall t1 t2, t1 < n -> t2 < n -> cur s t1 = cur s t2 -> t1 = t2.
Proof. intros I t1 t2. apply (cur_inj n s I). Qed.

(* ---- C01: a switch only targets a saved (or never-run) context ---- *)
Lemma switch_target_saved n s t o g s' : KInv n s -> t < n ->
  kstep s (LSwitch t o g) = Some s' -> cx s g = CSaved \/ cx s g = CFresh.
Proof.
  intros I Ht H. cbn [kstep] in H. guards. clear H. unfold switch_target in *. bnorm; subst o; sat n s I; deep 1 n s I.
Qed.

(* a fiber that is queued while its context is still live is marked SAVING,
   and next() does not hand it out *)
Lemma queued_live_is_saving n s f t : KInv n s -> q s f = true -> cx s f = CLive t -> fs s f = FSaving.
Proof. intros I Hq Hc. sat n s I. deep 1 n s I. Qed.

Lemma next_refuses_live n s f t u : KInv n s -> q s f = true -> cx s f = CLive t -> kstep s (LNext u f) = None.
Proof.
  intros I Hq Hc. pose proof (queued_live_is_saving n s f t I Hq Hc) as E.
  cbn [kstep]. rewrite Hq, E. reflexivity.
Qed.

(* ---- C01: reclamation ---- *)
Lemma destroy_only_unused n s t f s' : KInv n s -> t < n ->
  kstep s (LDestroy t f) = Some s' ->
  fs s f = FDone /\ cx s f = CSaved /\ q s f = false /\ avail s f = None /\ holder s f = None /\
  (forall u, hand s u <> Some f /\ tosched s u <> Some f /\ (u < n -> cur s u <> f)).
Proof.
  intros I Ht H. cbn [kstep] in H. guards. clear H. bnorm. sat n s I.
  assert (C : cx s f = CSaved) by (unfold slot in *; intuition congruence).
  repeat split; try assumption.
  - destruct (q s f) eqn:E; [|reflexivity]. exfalso; sat n s I; fin.
  - destruct (avail s f) eqn:E; [|reflexivity]. exfalso; sat n s I; fin.
  - destruct (holder s f) eqn:E; [|reflexivity]. exfalso; sat n s I; fin.
  - intros E; sat n s I; fin.
  - intros E; sat n s I; fin.
  - intros Hu E; sat n s I; fin.
Qed.

Definition names_fiber (l : label) (f : nat) : Prop :=
  match l with
  | LCreate _ g | LWrite _ g _ | LSlotDone _ g | LSched _ g | LNext _ g | LSteal _ g | LDestroy _ g => g = f
  | LSwitch _ o g => o = f \/ g = f
  | LResumed _ | LMaintEnd _ | LSlotAccess _ _ => False
  end.

Ltac refute n s I H := exfalso; cbn [kstep] in H; guards; clear H; unfold switch_target in *; bnorm; sat n s I; deep 1 n s I.

(* a reclaimed fiber is never created, written, scheduled, handed out, stolen,
   switched from or to, registered as done or destroyed again *)
Lemma freed_untouched n s f l : KInv n s -> thread_of l < n -> cx s f = CFreed ->
  names_fiber l f -> kstep s l = None.
Proof.
  intros I Ht C N. destruct (kstep s l) as [s'|] eqn:H; [|reflexivity].
  destruct l; cbn [names_fiber thread_of] in *; try contradiction.
  - subst. refute n s I H.
  - subst. destruct v; refute n s I H.
  - subst. refute n s I H.
  - subst. refute n s I H.
  - subst. refute n s I H.
  - subst. refute n s I H.
  - destruct N; subst; refute n s I H.
  - subst. refute n s I H.
Qed.

Lemma destroy_once n s t f s' : KInv n s -> t < n -> kstep s (LDestroy t f) = Some s' -> cx s f <> CFreed /\ cx s' f = CFreed.
Proof.
  intros I Ht H. pose proof (destroy_only_unused n s t f s' I Ht H) as (_&C&_). split; [congruence|].
  cbn [kstep] in H. guards. injection H as H. subst s'. simp_state. now rewrite upd_same.
Qed.

(* ---- C02 (runtime half): queued at most once per wake-up ---- *)
Lemma sched_not_queued n s t f s' : KInv n s -> t < n -> kstep s (LSched t f) = Some s' ->
  q s f = false /\ q s' f = true.
Proof.
  intros I Ht H. split.
  - destruct (q s f) eqn:E; [|reflexivity]. refute n s I H.
  - cbn [kstep] in H. guards; injection H as H; subst s'; simp_state; now rewrite upd_same.
Qed.

(* next() hands out only queued fibers, removes them from the queue and
   records them in the taker's [hand] *)
Lemma next_takes_queued s t f s' : kstep s (LNext t f) = Some s' ->
  q s f = true /\ hand s t = None /\ q s' f = false /\ hand s' t = Some f.
Proof.
  intros H. cbn [kstep] in H. guards. injection H as H. subst s'. bnorm. simp_state.
  rewrite !upd_same. auto.
Qed.

(* a handed-out fiber is out of the queue, saved, referenced by nobody else *)
Lemma hand_inv n s t f : KInv n s -> hand s t = Some f ->
  q s f = false /\ (cx s f = CSaved \/ cx s f = CFresh) /\ avail s f = None /\ holder s f = None /\
  (forall u, hand s u = Some f -> u = t) /\
  (forall u, tosched s u <> Some f /\ donef s u <> Some f /\ pubpend s u <> Some f /\ maintf s u <> Some f).
Proof.
  intros I H. sat n s I. repeat split; try assumption.
  - destruct (q s f) eqn:E; [|reflexivity]. exfalso; sat n s I; fin.
  - destruct (avail s f) eqn:E; [|reflexivity]. exfalso; sat n s I; fin.
  - destruct (holder s f) eqn:E; [|reflexivity]. exfalso; sat n s I; fin.
  - intros u E; sat n s I; fin.
  - intros E; sat n s I; fin.
  - intros E; sat n s I; fin.
  - intros E; sat n s I; fin.
  - intros E; sat n s I; fin.
Qed.

(* it stays in [hand] until that thread's next context switch ... *)
Lemma hand_stays s l s' t f : kstep s l = Some s' -> hand s t = Some f ->
  hand s' t = Some f \/ exists o g, l = LSwitch t o g.
Proof.
  intros H Hh. destruct l; try destruct v; cbn [kstep] in H; guards;
    repeat match type of H with Some (if ?b then _ else _) = Some _ => destruct b end;
    injection H as H; subst s'; simp_state; auto.
  - bnorm. destruct (Nat.eq_dec t0 t); [subst; congruence|]. rewrite upd_other by congruence. auto.
  - destruct (Nat.eq_dec t0 t); [subst; right; eauto|]. left. rewrite upd_other by congruence. auto.
  - destruct (Nat.eq_dec t0 t); [subst; right; eauto|]. left. rewrite upd_other by congruence. auto.
Qed.

(* ... and only that thread can switch to it *)
Lemma hand_only_taker_switches n s t f u o s' : KInv n s -> hand s t = Some f ->
  kstep s (LSwitch u o f) = Some s' -> u = t.
Proof.
  intros I Hh H. cbn [kstep] in H. guards. clear H. unfold switch_target in *. bnorm; sat n s I; fin.
Qed.

(* ---- executing explicit label sequences (non-vacuity examples) ---- *)
Fixpoint run (s : ks) (ls : list label) : option ks :=
  match ls with
  | [] => Some s
  | l :: r => match kstep s l with Some s' => run s' r | None => None end
  end.

Lemma run_reach n ls : forall s s', kreach n s ->
  forallb (fun l => thread_of l <? n) ls = true -> run s ls = Some s' -> kreach n s'.
Proof.
  induction ls as [|l r IH]; intros s s' R B H; cbn [run forallb] in *.
  - now inversion H; subst.
  - apply andb_prop in B. destruct B as (B1&B2). apply Nat.ltb_lt in B1.
    destruct (kstep s l) as [s1|] eqn:E; [|discriminate].
    eapply IH; [eapply kr_step; eauto | assumption | assumption].
Qed.

Lemma run_init_reach n ls s' :
  forallb (fun l => thread_of l <? n) ls = true -> run (kinit n) ls = Some s' -> kreach n s'.
Proof. apply run_reach. constructor. Qed.

(* the counterexample of the unguarded machine (see the header) is now
   rejected at its sixth label, where thread 1's maintenance fiber would
   register itself as done_fiber *)
Example unguarded_counterexample_rejected :
  exists s, run (kinit 2) [LCreate 1 2; LWrite 1 2 FRun; LWrite 1 1 FDone; LSched 1 2; LNext 1 2] = Some s /\
            maintf s 1 = Some 1 /\ cur s 1 = 1 /\ fs s 1 = FDone /\
            kstep s (LSlotDone 1 1) = None.
Proof. eexists. split; [vm_compute; reflexivity | vm_compute; auto]. Qed.
