(* Model of src/work_queue.c (C17) including the accesses of the inlined
   include/mpsc_fifo.h push / trypop: one step per shared access, in the order
   the -O0 code performs them (read off the traces of rt/h_wq.c).

   Nodes are nat names: 0 = NULL, 1 = the fifo's initial stub, items >= 2.
   locs: 0 = fifo.head, 1 = fifo.tail, 2 = in_count, 3 = out_count,
         98+2n = node n .data, 99+2n = node n .next.
   The data field of every node initially holds the node's own name; trypop
   returns the OLD head node after copying the NEXT node's data into it, so
   the value get_work hands to its caller is the name of the pushed item.

   Op language: a thread's program is the list of its pushes, op = Push item
   or PushFF j item (a push marked "fast-forward" by table entry j, see below).  The documented
   protocol is part of the control state: when a push returns
   WORK_QUEUE_START_WORKING the thread calls work_queue_get_work until it
   returns WORK_QUEUE_EMPTY, then goes on with its next push.

   Fast-forward (pc GFfwd).  The counters are only rebased when the queue
   momentarily runs dry, so in a session that never drains they grow without
   bound; no test can afford 2^32 real pushes.  A push marked PushFF that
   returns START_WORKING is followed by ONE extra step of the fresh worker,
   before its first get_work: it adds the constant FFAMT = ffamt j = 2^k - 3,
   k = 32, 20, 16, 31, 24, 8, 12, 36 for j = 0..7 (so that, as the next items
   are pushed / handed out, in_count and out_count pass 2^k - 2, 2^k - 1, 2^k,
   2^k + 1 ... for each of these widths), to BOTH in_count and out_count.  This is exactly the state the public API reaches
   when the fresh worker performs FFAMT times (push one more item; get one
   item): in_count = i + FFAMT, out_count = FFAMT, the same number of queued
   items -- modulo the identity of the queued items.  It is done only by the
   worker itself, between its own calls, which is why it cannot race with the
   worker's own (non-atomic) read-modify-write of out_count; in_count is only
   ever changed by atomic read-modify-writes, and the step is one atomic step.
   A PushFF that returns QUEUED does nothing special.  The step emits the
   harness event  tid 2 919 FFAMT  (rt_point(2, K_EV, FFAMT) in rt/h_wq.c).

   in_count / out_count are int64 in C and Z here (no 2^63 wrap: stated guard). *)
From Coq Require Import List ZArith Lia Bool Arith.
From LF Require Import Conc.
Import ListNotations.

Inductive pcT :=
  (* work_queue_push *)
  | PAdd     (* __sync_add_and_fetch(&in_count, 1)            *)
  | PNext    (* mpsc push: new_node->next = NULL              *)
  | PXchg    (* mpsc push: prev = exchange(&tail, new_node)   *)
  | PLink    (* mpsc push: prev->next = new_node; push returns *)
  | GFfwd    (* fast-forward of the fresh worker: both counters += FFAMT *)
  (* work_queue_get_work: mpsc trypop *)
  | GHead    (* prev_head = f->head                           *)
  | GNext    (* prev_head_next = prev_head->next              *)
  | GSetH    (* f->head = prev_head_next                      *)
  | GData    (* read prev_head_next->data                     *)
  | GCopy    (* prev_head->data = that                        *)
  | GOutR    (* out_count += 1: the read                      *)
  | GOutW    (* out_count += 1: the write; returns MORE_WORK  *)
  (* work_queue_get_work: trypop returned NULL *)
  | GCmpO    (* out_count == in_count: read out_count         *)
  | GCmpI    (* out_count == in_count: read in_count          *)
  | GOldR    (* old_out_count = out_count                     *)
  | GZero    (* out_count = 0                                 *)
  | GSub     (* __sync_sub_and_fetch(&in_count, old_out_count); 0 -> EMPTY *)
  | Fin.

(* flag = this thread has been designated the worker (its add_and_fetch saw
   in_count become 1) and has not yet been told EMPTY *)
Inductive op := Push (a : nat) | PushFF (j : nat) (a : nat).
Definition item (o : op) : nat := match o with Push a | PushFF _ a => a end.
Definition marked (o : op) : option nat := match o with Push _ => None | PushFF j _ => Some j end.

(* the fast-forward amounts: 2^k - 3 for k = 32 20 16 31 24 8 12 36, Z constants
   (the only fact the proofs use is 0 <= ffamt j) *)
Definition FFAMT : Z := 4294967293%Z.
Definition ffamt (j : nat) : Z :=
  nth j [FFAMT; 1048573; 65533; 2147483645; 16777213; 253; 4093; 68719476733]%Z FFAMT.

(* mk = Some j: the current push is marked fast-forward with table entry j *)
Record tst := { pc : pcT; arg : nat; flag : bool; prev : nat; ph : nat; pn : nat;
                rd : nat; oc : Z; prog : list op; opi : nat; mk : option nat }.

Definition ffof (T : tst) : Z := match mk T with Some j => ffamt j | None => 0%Z end.

Record st := { head : nat; tail : nat; inc : Z; outc : Z;
               next : nat -> nat; data : nat -> nat;
               thr : nat -> tst; nthr : nat }.

(* begin the next push of the program (the C thread runs on to the first
   access of its next call inside the same grant) *)
Definition next_op (T : tst) : tst :=
  match prog T with
  | [] => {| pc := Fin; arg := arg T; flag := false; prev := prev T; ph := ph T; pn := pn T;
             rd := rd T; oc := oc T; prog := []; opi := opi T; mk := None |}
  | o :: r => {| pc := PAdd; arg := item o; flag := false; prev := 0; ph := 0; pn := 0;
                 rd := 0; oc := 0%Z; prog := r; opi := S (opi T); mk := marked o |}
  end.

Definition with_pc (T : tst) (p : pcT) : tst :=
  {| pc := p; arg := arg T; flag := flag T; prev := prev T; ph := ph T; pn := pn T;
     rd := rd T; oc := oc T; prog := prog T; opi := opi T; mk := mk T |}.

Definition set_thr (s : st) (t : nat) (x : tst) : st :=
  {| head := head s; tail := tail s; inc := inc s; outc := outc s;
     next := next s; data := data s; thr := upd (thr s) t x; nthr := nthr s |}.

Local Open Scope Z_scope.
Definition ev (t : nat) (loc kind : Z) (v : Z) : list Z := [Z.of_nat t; loc; kind; v].
Definition evn (t : nat) (loc kind : Z) (v : nat) : list Z := [Z.of_nat t; loc; kind; Z.of_nat v].
(* return event of push number opi; of a get_work call made inside it *)
Definition pret (t : nat) (T : tst) (v : Z) : list Z := [Z.of_nat t; Z.of_nat (opi T); 909; v].
Definition gret (t : nat) (T : tst) (v : nat) : list Z :=
  [Z.of_nat t; 100 + Z.of_nat (opi T); 909; Z.of_nat v].
Definition dataloc (n : nat) : Z := 98 + 2 * Z.of_nat n.
Definition nextloc (n : nat) : Z := 99 + 2 * Z.of_nat n.
Local Close Scope Z_scope.

Definition step (s : st) (t : nat) : st * list Z :=
  let T := thr s t in
  match pc T with
  | Fin => (s, [])
  | PAdd =>
      ({| head := head s; tail := tail s; inc := (inc s + 1)%Z; outc := outc s;
          next := next s; data := data s;
          thr := upd (thr s) t
                   {| pc := PNext; arg := arg T; flag := (inc s =? 0)%Z; prev := prev T; ph := ph T;
                      pn := pn T; rd := rd T; oc := oc T; prog := prog T; opi := opi T; mk := mk T |};
          nthr := nthr s |},
       ev t 2 55 (inc s))
  | PNext =>
      ({| head := head s; tail := tail s; inc := inc s; outc := outc s;
          next := upd (next s) (arg T) 0; data := data s;
          thr := upd (thr s) t (with_pc T PXchg); nthr := nthr s |},
       evn t (nextloc (arg T)) 19 0)
  | PXchg =>
      ({| head := head s; tail := arg T; inc := inc s; outc := outc s;
          next := next s; data := data s;
          thr := upd (thr s) t
                   {| pc := PLink; arg := arg T; flag := flag T; prev := tail s; ph := ph T;
                      pn := pn T; rd := rd T; oc := oc T; prog := prog T; opi := opi T; mk := mk T |};
          nthr := nthr s |},
       evn t 1 43 (tail s))
  | PLink =>
      ({| head := head s; tail := tail s; inc := inc s; outc := outc s;
          next := upd (next s) (prev T) (arg T); data := data s;
          thr := upd (thr s) t (if flag T then with_pc T (if mk T then GFfwd else GHead)
                                else next_op T);
          nthr := nthr s |},
       evn t (nextloc (prev T)) 19 (arg T) ++ pret t T (if flag T then 1 else 0)%Z)
  | GFfwd =>
      ({| head := head s; tail := tail s; inc := (inc s + ffof T)%Z; outc := (outc s + ffof T)%Z;
          next := next s; data := data s;
          thr := upd (thr s) t (with_pc T GHead); nthr := nthr s |},
       ev t 2 919 (ffof T))
  | GHead =>
      (set_thr s t {| pc := GNext; arg := arg T; flag := flag T; prev := prev T; ph := head s;
                      pn := pn T; rd := rd T; oc := oc T; prog := prog T; opi := opi T; mk := mk T |},
       evn t 0 9 (head s))
  | GNext =>
      let n := next s (ph T) in
      (set_thr s t {| pc := match n with O => GCmpO | S _ => GSetH end;
                      arg := arg T; flag := flag T; prev := prev T; ph := ph T;
                      pn := n; rd := rd T; oc := oc T; prog := prog T; opi := opi T; mk := mk T |},
       evn t (nextloc (ph T)) 9 n)
  | GSetH =>
      ({| head := pn T; tail := tail s; inc := inc s; outc := outc s;
          next := next s; data := data s;
          thr := upd (thr s) t (with_pc T GData); nthr := nthr s |},
       evn t 0 19 (pn T))
  | GData =>
      (set_thr s t {| pc := GCopy; arg := arg T; flag := flag T; prev := prev T; ph := ph T;
                      pn := pn T; rd := data s (pn T); oc := oc T; prog := prog T; opi := opi T; mk := mk T |},
       evn t (dataloc (pn T)) 9 (data s (pn T)))
  | GCopy =>
      ({| head := head s; tail := tail s; inc := inc s; outc := outc s;
          next := next s; data := upd (data s) (ph T) (rd T);
          thr := upd (thr s) t (with_pc T GOutR); nthr := nthr s |},
       evn t (dataloc (ph T)) 19 (rd T))
  | GOutR =>
      (set_thr s t {| pc := GOutW; arg := arg T; flag := flag T; prev := prev T; ph := ph T;
                      pn := pn T; rd := rd T; oc := outc s; prog := prog T; opi := opi T; mk := mk T |},
       ev t 3 9 (outc s))
  | GOutW =>
      ({| head := head s; tail := tail s; inc := inc s; outc := (oc T + 1)%Z;
          next := next s; data := data s;
          thr := upd (thr s) t (with_pc T GHead); nthr := nthr s |},
       ev t 3 19 (oc T + 1)%Z ++ gret t T (rd T))
  | GCmpO =>
      (set_thr s t {| pc := GCmpI; arg := arg T; flag := flag T; prev := prev T; ph := ph T;
                      pn := pn T; rd := rd T; oc := outc s; prog := prog T; opi := opi T; mk := mk T |},
       ev t 3 9 (outc s))
  | GCmpI =>
      (set_thr s t (with_pc T (if (oc T =? inc s)%Z then GOldR else GHead)),
       ev t 2 9 (inc s))
  | GOldR =>
      (set_thr s t {| pc := GZero; arg := arg T; flag := flag T; prev := prev T; ph := ph T;
                      pn := pn T; rd := rd T; oc := outc s; prog := prog T; opi := opi T; mk := mk T |},
       ev t 3 9 (outc s))
  | GZero =>
      ({| head := head s; tail := tail s; inc := inc s; outc := 0%Z;
          next := next s; data := data s;
          thr := upd (thr s) t (with_pc T GSub); nthr := nthr s |},
       ev t 3 19 0%Z)
  | GSub =>
      ({| head := head s; tail := tail s; inc := (inc s - oc T)%Z; outc := outc s;
          next := next s; data := data s;
          thr := upd (thr s) t (if (inc s - oc T =? 0)%Z then next_op T else with_pc T GHead);
          nthr := nthr s |},
       ev t 2 65 (inc s) ++ (if (inc s - oc T =? 0)%Z then gret t T 0 else []))
  end.

Definition status_of (s : st) (t : nat) : status :=
  if t <? nthr s then match pc (thr s t) with Fin => SDone | _ => SReady end else SDone.

Definition idle_thread (p : list op) : tst :=
  next_op {| pc := Fin; arg := 0; flag := false; prev := 0; ph := 0; pn := 0; rd := 0;
             oc := 0%Z; prog := p; opi := 0; mk := None |}.

Definition stub : nat := 1.

(* work_queue_init: counters 0, head = tail = the stub, whose next is NULL *)
Definition init (progs : list (list op)) : st :=
  {| head := stub; tail := stub; inc := 0%Z; outc := 0%Z;
     next := fun _ => 0; data := fun n => n;
     thr := fun t => idle_thread (nth t progs []); nthr := length progs |}.

Definition M : machine :=
  {| mstate := st; mstep := step; mstatus := status_of; mthreads := nthr |}.

(* ---------- executable entry point for the correspondence run ---------- *)
(* (1, item) = push, (10 + j, item) = push marked fast-forward with table
   entry j, (2, item) = the same with j = 0 *)
Definition dec_op (p : Z * Z) : op :=
  if (fst p =? 2)%Z then PushFF 0 (Z.to_nat (snd p))
  else if (10 <=? fst p)%Z then PushFF (Z.to_nat (fst p - 10)) (Z.to_nat (snd p))
  else Push (Z.to_nat (snd p)).

Definition run_case (l : list Z) : list Z :=
  match decode_case l with
  | Some c =>
      let dmax := Z.to_nat (nthZ (c_params c) 0) in
      run_all M (init (map (map dec_op) (c_progs c))) [] (c_sched c) dmax
  | None => [(-1)%Z]
  end.
