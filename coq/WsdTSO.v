(* The Chase-Lev deque program of coq/Wsd.v on an x86-TSO store-buffer machine
   (C02, deque half; DESIGN.md 3.2).

   x86 mapping of the C11 accesses: loads of any order are plain loads (own
   store buffer first, then memory); relaxed/release stores and plain writes
   go to the FIFO store buffer; seq_cst stores (xchg), CAS (lock cmpxchg,
   success or failure) drain the issuing thread's buffer.  Thieves only load
   and CAS, so only the owner (thread 0) ever has a non-empty buffer.

   State = the owner's VIEW [vw] (an SC state of Wsd.v in which every owner
   store has taken effect) + what memory still holds for the locations the
   owner stores to without a fence ([mbot] for bottom, [marrs] for the array
   elements) + the owner's buffer [buf].  The owner steps exactly like the SC
   machine on its view; a thief reads bottom and array elements from memory;
   top and underlying_array are only written by draining instructions, so
   memory and view agree on them.  [flush] commits the oldest buffered store.

   [fenced = true] is the code as written (pop_bottom stores bottom with
   memory_order_seq_cst); [fenced = false] is the variant with a release store
   there, which is refuted below. *)
From Coq Require Import List ZArith Lia Bool Arith Permutation.
From LF Require Import Conc Wsd WsdProofs.
Import ListNotations.

Inductive wr := WBot (w : Z) | WEl (k : nat) (j v : Z).

Record tso := { vw : st; mbot : Z; marrs : nat -> arr; buf : list wr }.

Definition drained (V : st) : tso := {| vw := V; mbot := bot V; marrs := arrs V; buf := [] |}.
Definition buffered (x : tso) (V' : st) (w : wr) : tso :=
  {| vw := V'; mbot := mbot x; marrs := marrs x; buf := buf x ++ [w] |}.
Definition quiet (x : tso) (V' : st) : tso :=
  {| vw := V'; mbot := mbot x; marrs := marrs x; buf := buf x |}.

Definition tstep (fenced : bool) (x : tso) (u : nat) : tso :=
  let V := vw x in
  let T := thr V u in
  match u with
  | O =>
      let V' := fst (step V 0) in
      match pc T with
      | UPut => buffered x V' (WEl (a T) (b T) (arg T))
      | UGWr => buffered x V' (WEl (na T) (i T) (rv T))
      | USt => buffered x V' (WBot (b T + 1))
      | OEmp => buffered x V' (WBot (t T))
      | OFixW | OFixL => buffered x V' (WBot (t T + 1))
      | OSt => if fenced then drained V' else buffered x V' (WBot (b T))
      | UGSt | OCas | TCas => drained V'
      | UArr => (* malloc of a fresh (zeroed) array is not a buffered store *)
          {| vw := V'; mbot := mbot x;
             marrs := if (narr V' =? narr V)%nat then marrs x
                      else upd (marrs x) (narr V') (arrs V' (narr V'));
             buf := buf x |}
      | _ => quiet x V'
      end
  | S _ =>
      match pc T with
      | TBot => quiet x (set_thr V u (mk TArr (mbot x) (t T) (a T) (na T) (i T) (arg T) (rv T) (prog T) (opi T)))
      | TGet => quiet x (set_thr V u (mk TCas (b T) (t T) (a T) (na T) (i T) (arg T)
                                         (get (marrs x (a T)) (t T)) (prog T) (opi T)))
      | _ => quiet x (fst (step V u))
      end
  end.

Definition flush (x : tso) : tso :=
  match buf x with
  | [] => x
  | WBot w :: r => {| vw := vw x; mbot := w; marrs := marrs x; buf := r |}
  | WEl k j v :: r => {| vw := vw x; mbot := mbot x;
                         marrs := upd (marrs x) k (put (marrs x k) j v); buf := r |}
  end.

(* instrumented with the same ghost logs as WsdProofs.lstep (computed on the view) *)
Record tist := { tb : tso; tpl : list Z; tsl : list Z; tol : list Z }.
Definition iv (y : tist) : ist := {| base := vw (tb y); plog := tpl y; slog := tsl y; olog := tol y |}.

Definition tlstep (fenced : bool) (y : tist) (u : nat) : tist :=
  let z := lstep (iv y) u in
  {| tb := tstep fenced (tb y) u; tpl := plog z; tsl := slog z; tol := olog z |}.
Definition tlflush (y : tist) : tist := {| tb := flush (tb y); tpl := tpl y; tsl := tsl y; tol := tol y |}.

Definition tinit l start progs : tist :=
  {| tb := drained (init l start progs); tpl := []; tsl := []; tol := [] |}.

Inductive treach (fenced : bool) l start progs : tist -> Prop :=
| tr_init : treach fenced l start progs (tinit l start progs)
| tr_step y u : treach fenced l start progs y -> treach fenced l start progs (tlstep fenced y u)
| tr_flush y : treach fenced l start progs y -> treach fenced l start progs (tlflush y).

(* schedules for examples: Some u = thread u steps, None = flush *)
Definition trun (fenced : bool) (y : tist) (sch : list (option nat)) : tist :=
  fold_left (fun y o => match o with Some u => tlstep fenced y u | None => tlflush y end) sch y.
Lemma treach_trun fenced l start progs sch :
  forall y, treach fenced l start progs y -> treach fenced l start progs (trun fenced y sch).
Proof.
  induction sch as [|o r IH]; intros y R; cbn; auto. apply IH. destruct o; constructor; exact R.
Qed.

(* ------------------------------------------------------------------ *)
(* The variant with a release store of bottom in pop_bottom is wrong on TSO:
   two elements 5,6; the pop's decrement of bottom sits in the store buffer,
   the pop sees top = 0 < 1 and takes 6 without a CAS; a thief, still seeing
   bottom = 2 in memory, steals 5 and then 6.  Token 6 is returned twice. *)
Definition bad_progs := [[OPush 5; OPush 6; OPop]; [OSteal; OSteal]].
Definition bad_sched : list (option nat) :=
  [Some 0;Some 0;Some 0;Some 0;Some 0; Some 0;Some 0;Some 0;Some 0;Some 0; None;None;None;None;
   Some 0;Some 0;Some 0;Some 0;Some 0;
   Some 1;Some 1;Some 1;Some 1;Some 1; Some 1;Some 1;Some 1;Some 1;Some 1]%nat.

Lemma bad_owner_only : owner_only bad_progs.
Proof. apply owner_only_cons. repeat constructor. Qed.

Theorem tso_release_store_refuted :
  exists l start progs y,
    owner_only progs /\ NoDup (tokens (nth 0 progs [])) /\ treach false l start progs y /\
    tpl y = [5; 6]%Z /\ tsl y = [5; 6]%Z /\ tol y = [6]%Z /\ ~ NoDup (tsl y ++ tol y).
Proof.
  exists 2%nat, 0%Z, bad_progs, (trun false (tinit 2 0 bad_progs) bad_sched).
  split; [exact bad_owner_only|]. split; [repeat constructor; cbn; intuition congruence|].
  split; [apply treach_trun; constructor|].
  assert (E : tpl (trun false (tinit 2 0 bad_progs) bad_sched) = [5; 6]%Z /\
              tsl (trun false (tinit 2 0 bad_progs) bad_sched) = [5; 6]%Z /\
              tol (trun false (tinit 2 0 bad_progs) bad_sched) = [6]%Z) by (vm_compute; auto).
  destruct E as (E1 & E2 & E3). rewrite E1, E2, E3. repeat split; auto.
  intros ND. cbn in ND. inversion ND as [|? ? H1 H2]; subst. inversion H2 as [|? ? H3 H4]; subst.
  apply H3. cbn. auto.
Qed.

(* the same schedule on the code as written: the seq_cst store drains the
   buffer, the second steal sees bottom = 1 and returns EMPTY *)
Example tso_fenced_same_schedule :
  let y := trun true (tinit 2 0 bad_progs) bad_sched in
  treach true 2 0 bad_progs y /\ tpl y = [5; 6]%Z /\ tsl y = [5]%Z /\ tol y = [6]%Z.
Proof. split; [apply treach_trun; constructor | vm_compute; auto]. Qed.

(* ------------------------------------------------------------------ *)
(* Invariant relating memory, buffer and view (fenced = true)           *)
Local Open Scope Z_scope.

(* the value, if any, that the buffer will eventually leave in slot sl of array k *)
Definition hit (lgs : nat -> nat) (w : wr) (k : nat) (sl : Z) : option Z :=
  match w with
  | WEl k' j v => if (k' =? k)%nat && (j mod 2 ^ Z.of_nat (lgs k) =? sl) then Some v else None
  | WBot _ => None
  end.
Fixpoint lastw (lgs : nat -> nat) (bf : list wr) (k : nat) (sl : Z) : option Z :=
  match bf with
  | [] => None
  | h :: r => match lastw lgs r k sl with Some v => Some v | None => hit lgs h k sl end
  end.
(* bottom as the owner sees it *)
Fixpoint vbot (bf : list wr) (m : Z) : Z :=
  match bf with
  | [] => m
  | WBot w :: r => vbot r w
  | WEl _ _ _ :: r => vbot r m
  end.
(* buffered stores of bottom only go up, from memory's value to the view's;
   a buffered element store of the current array is to an index at or above
   the bottom value in effect before it (and at most the view's bottom) *)
Fixpoint bwf (lo : Z) (bf : list wr) (hi : Z) (cu : nat) : Prop :=
  match bf with
  | [] => lo <= hi
  | WBot w :: r => lo <= w /\ bwf w r hi cu
  | WEl k j v :: r => (k = cu -> lo <= j <= hi) /\ bwf lo r hi cu
  end.

Lemma lastw_app1 lgs bf w k sl :
  lastw lgs (bf ++ [w]) k sl = match hit lgs w k sl with Some v => Some v | None => lastw lgs bf k sl end.
Proof.
  induction bf as [|h r IH]; cbn [app lastw].
  - destruct (hit lgs w k sl); reflexivity.
  - rewrite IH. destruct (hit lgs w k sl); [reflexivity|]. reflexivity.
Qed.

Lemma lastw_ext lgs lgs' bf k sl : lgs k = lgs' k -> lastw lgs bf k sl = lastw lgs' bf k sl.
Proof.
  intros E. induction bf as [|h r IH]; cbn; auto. rewrite IH.
  destruct (lastw lgs' r k sl); auto. unfold hit. destruct h; auto. rewrite E. reflexivity.
Qed.

Lemma lastw_none lgs bf k sl :
  (forall j v, In (WEl k j v) bf -> j mod 2 ^ Z.of_nat (lgs k) <> sl) -> lastw lgs bf k sl = None.
Proof.
  induction bf as [|h r IH]; intros H; cbn; auto.
  rewrite IH by (intros j v Hin; apply (H j v); right; auto).
  destruct h as [w|k' j v]; cbn; auto.
  destruct (Nat.eqb_spec k' k) as [->|Hne]; cbn; auto.
  destruct (Z.eqb_spec (j mod 2 ^ Z.of_nat (lgs k)) sl) as [E|E]; auto.
  exfalso. apply (H j v); [left; reflexivity|exact E].
Qed.

Lemma vbot_app_bot bf m w : vbot (bf ++ [WBot w]) m = w.
Proof. revert m. induction bf as [|[w0|k j v] r IH]; intros m; cbn; auto. Qed.
Lemma vbot_app_el bf m k j v : vbot (bf ++ [WEl k j v]) m = vbot bf m.
Proof. revert m. induction bf as [|[w0|k0 j0 v0] r IH]; intros m; cbn; auto. Qed.

Lemma bwf_le lo bf hi cu : bwf lo bf hi cu -> lo <= hi.
Proof.
  revert lo. induction bf as [|[w|k j v] r IH]; intros lo; cbn; auto.
  - intros [A B]. specialize (IH _ B). lia.
  - intros [A B]. auto.
Qed.
Lemma bwf_vbot lo bf hi cu : bwf lo bf hi cu -> lo <= vbot bf lo <= hi.
Proof.
  revert lo. induction bf as [|[w|k j v] r IH]; intros lo; cbn.
  - lia.
  - intros [A B]. specialize (IH _ B). lia.
  - intros [A B]. auto.
Qed.
Lemma bwf_app_bot lo bf hi cu w :
  bwf lo bf hi cu -> vbot bf lo <= w -> hi <= w -> bwf lo (bf ++ [WBot w]) w cu.
Proof.
  revert lo. induction bf as [|[w0|k j v] r IH]; intros lo; cbn.
  - intros; lia.
  - intros [A B] H1 H2. split; auto.
  - intros [A B] H1 H2. split; auto. intros E. specialize (A E). lia.
Qed.
Lemma bwf_app_el lo bf hi cu k j v :
  bwf lo bf hi cu -> (k = cu -> vbot bf lo <= j <= hi) -> bwf lo (bf ++ [WEl k j v]) hi cu.
Proof.
  revert lo. induction bf as [|[w0|k0 j0 v0] r IH]; intros lo; cbn.
  - intros H1 H2. split; auto.
  - intros [A B] H. split; auto.
  - intros [A B] H. split; auto.
Qed.
Lemma bwf_in lo bf hi cu j v : bwf lo bf hi cu -> In (WEl cu j v) bf -> lo <= j <= hi.
Proof.
  revert lo. induction bf as [|[w|k j0 v0] r IH]; intros lo; cbn; [tauto| |].
  - intros [A B] [E|Hin]; [discriminate|]. specialize (IH _ B Hin). lia.
  - intros [A B] [E|Hin]; [inversion E; subst; auto|]. auto.
Qed.

Definition agree (x : tso) (k : nat) (j : Z) : Prop := get (marrs x k) j = get (arrs (vw x) k) j.

Definition tclause (x : tso) (T : tst) : Prop :=
  match pc T with
  | TArr => top (vw x) = t T -> t T < b T ->
            agree x (cur (vw x)) (t T) /\ (forall j v, In (WEl (cur (vw x)) j v) (buf x) -> t T < j)
  | TGet => top (vw x) = t T ->
            agree x (a T) (t T) /\ (a T = cur (vw x) -> forall j v, In (WEl (cur (vw x)) j v) (buf x) -> t T < j)
  | _ => True
  end.

Record TInv (x : tso) : Prop := {
  t_lg : forall k, lg (marrs x k) = lg (arrs (vw x) k);
  t_dat : forall k sl, dat (arrs (vw x) k) sl =
            match lastw (fun k => lg (arrs (vw x) k)) (buf x) k sl with
            | Some v => v | None => dat (marrs x k) sl end;
  t_rng : forall k j v, In (WEl k j v) (buf x) -> (cur (vw x) <= k <= narr (vw x))%nat;
  t_bot : bot (vw x) = vbot (buf x) (mbot x);
  t_bwf : bwf (mbot x) (buf x) (bot (vw x)) (cur (vw x));
  t_thf : forall u, u <> 0%nat -> tclause x (thr (vw x) u)
}.

Lemma drained_tinv V : TInv (drained V).
Proof.
  constructor; cbn [drained vw mbot marrs buf]; auto; try reflexivity.
  - intros k j v [].
  - cbn. lia.
  - intros u Hu. unfold tclause, agree. cbn [drained vw mbot marrs buf].
    destruct (pc (thr V u)); auto; intros; split; auto; intros; contradiction.
Qed.

Lemma slot_eq (A B : arr) j : lg A = lg B -> slot A j = slot B j.
Proof. intros E. unfold slot. rewrite (asize_lg A B E). reflexivity. Qed.

(* memory and view agree on a slot no buffered store targets *)
Lemma agree_no_pending x k j : TInv x ->
  (forall j' v, In (WEl k j' v) (buf x) -> slot (arrs (vw x) k) j' <> slot (arrs (vw x) k) j) ->
  agree x k j.
Proof.
  intros TI H. unfold agree, get. rewrite (slot_eq (marrs x k) (arrs (vw x) k) j (t_lg x TI k)).
  rewrite (t_dat x TI k). rewrite lastw_none; auto.
Qed.

Lemma bot_le_Lc s : bot s <= Lc s.
Proof. unfold Lc. destruct (lkind (pc (thr s 0%nat))); cbn; lia. Qed.

(* a pending element store of the current array at an index above a live
   index t = top does not touch t's slot *)
Lemma pending_other_slot x (A : arr) j tt :
  Inv (vw x) -> asize A = asize (arrs (vw x) (cur (vw x))) ->
  top (vw x) = tt -> tt < j -> j <= bot (vw x) ->
  tt <> j /\ - asize A < tt - j < asize A.
Proof.
  intros I EA Et Hlt Hle. pose proof (i_cap _ I) as C. pose proof (bot_le_Lc (vw x)). lia.
Qed.

Lemma flush_tinv x : Inv (vw x) -> TInv x -> TInv (flush x).
Proof.
  intros I TI. unfold flush. destruct (buf x) as [|[w|k j v] r] eqn:Hb; auto.
  - (* bottom store reaches memory *)
    pose proof (t_dat x TI) as D. pose proof (t_rng x TI) as R. pose proof (t_bot x TI) as B.
    pose proof (t_bwf x TI) as W. pose proof (t_thf x TI) as F. rewrite Hb in *. cbn in B, W.
    constructor; cbn [vw mbot marrs buf]; auto.
    + apply (t_lg x TI).
    + intros k sl. rewrite (D k sl). cbn [lastw hit]. match goal with |- context [lastw ?f r k sl] => destruct (lastw f r k sl) end; reflexivity.
    + intros k j v Hin. apply (R k j v). right; auto.
    + tauto.
    + intros u Hu. specialize (F u Hu). unfold tclause, agree in *. cbn [vw mbot marrs buf] in *.
      destruct (pc (thr (vw x) u)); auto.
      * intros E1 E2. destruct (F E1 E2) as [F1 F2]. split; auto. intros j v Hin. apply (F2 j v). rewrite Hb. right; auto.
      * intros E1. destruct (F E1) as [F1 F2]. split; auto. intros E j v Hin. apply (F2 E j v). rewrite Hb. right; auto.
  - (* element store reaches memory *)
    pose proof (t_lg x TI) as G. pose proof (t_dat x TI) as D. pose proof (t_rng x TI) as R.
    pose proof (t_bot x TI) as B. pose proof (t_bwf x TI) as W. pose proof (t_thf x TI) as F.
    rewrite Hb in *. cbn in B, W. destruct W as [W1 W2].
    assert (HR : (cur (vw x) <= k <= narr (vw x))%nat) by (apply (R k j v); left; reflexivity).
    constructor; cbn [vw mbot marrs buf]; auto.
    + intros k'. destruct (Nat.eq_dec k' k) as [->|Hne]; [rewrite upd_same; cbn; apply G|rewrite upd_other by auto; apply G].
    + intros k' sl. rewrite (D k' sl). cbn [lastw]. match goal with |- context [lastw ?f r k' sl] => destruct (lastw f r k' sl) end; [reflexivity|].
      unfold hit. destruct (Nat.eqb_spec k k') as [->|Hne]; cbn [andb].
      * rewrite upd_same. unfold put, updZ; cbn [dat]. unfold slot, asize. rewrite (G k').
        rewrite (Z.eqb_sym sl). destruct (Z.eqb_spec (j mod 2 ^ Z.of_nat (lg (arrs (vw x) k'))) sl); reflexivity.
      * rewrite upd_other by auto. reflexivity.
    + intros k' j' v' Hin. apply (R k' j' v'). right; auto.
    + intros u Hu. specialize (F u Hu). unfold tclause, agree in *. cbn [vw mbot marrs buf] in *.
      pose proof (i_loc _ I u) as LU. unfold local_ok, lok in LU.
      destruct (pc (thr (vw x) u)) eqn:Hpc; auto.
      * intros E1 E2. destruct (F E1 E2) as [F1 F2]. split; [|intros j' v' Hin; apply (F2 j' v'); rewrite Hb; right; auto].
        destruct (Nat.eq_dec k (cur (vw x))) as [->|Hne]; [|rewrite upd_other by auto; exact F1].
        rewrite upd_same. rewrite <- F1.
        assert (Hj : t (thr (vw x) u) < j) by (apply (F2 j v); rewrite Hb; left; reflexivity).
        destruct (W1 eq_refl) as [_ Hhi].
        destruct (pending_other_slot x (marrs x (cur (vw x))) j (t (thr (vw x) u)) I
                    (asize_lg _ _ (G (cur (vw x)))) E1 Hj Hhi) as [N1 N2].
        apply get_put_other; auto.
      * intros E1. destruct (F E1) as [F1 F2]. split; [|intros E j' v' Hin; apply (F2 E j' v'); rewrite Hb; right; auto].
        destruct LU as (U1 & U2 & U3 & U4).
        destruct (Nat.eq_dec k (a (thr (vw x) u))) as [->|Hne]; [|rewrite upd_other by auto; exact F1].
        assert (Ea : a (thr (vw x) u) = cur (vw x)) by lia.
        rewrite upd_same. rewrite <- F1.
        assert (Hj : t (thr (vw x) u) < j) by (apply (F2 Ea j v); rewrite Hb; left; rewrite Ea; reflexivity).
        destruct (W1 Ea) as [_ Hhi]. rewrite Ea.
        destruct (pending_other_slot x (marrs x (cur (vw x))) j (t (thr (vw x) u)) I
                    (asize_lg _ _ (G (cur (vw x)))) E1 Hj Hhi) as [N1 N2].
        apply get_put_other; auto.
Qed.

(* ---- frames ---- *)
Definition quietpc (p : pcT) : bool :=
  match p with
  | UArr | UGWr | UGSt | UPut | USt | OSt | OEmp | OCas | OFixW | OFixL | TCas => false
  | _ => true
  end.

Lemma step_quiet V u : quietpc (pc (thr V u)) = true ->
  let V' := fst (step V u) in
  arrs V' = arrs V /\ bot V' = bot V /\ cur V' = cur V /\ top V' = top V /\ narr V' = narr V.
Proof.
  intros Q. unfold step. destruct (pc (thr V u)); cbn in Q; try discriminate;
    repeat match goal with |- context [if ?c then _ else _] => destruct c end;
    cbn [fst arrs bot cur top narr set_thr]; auto.
Qed.

Lemma tclause_frame x V' T :
  arrs V' = arrs (vw x) -> cur V' = cur (vw x) ->
  (top V' = top (vw x) \/ (top (vw x) < top V' /\ (pc T = TArr \/ pc T = TGet -> t T <= top (vw x)))) ->
  tclause x T -> tclause (quiet x V') T.
Proof.
  intros Ea Ec Ht. unfold tclause, agree. cbn [quiet vw marrs buf]. rewrite Ea, Ec.
  destruct (pc T); auto; destruct Ht as [->|[H1 H2]]; auto; intros; exfalso; assert (t T <= top (vw x)) by auto; lia.
Qed.

(* thread states / top change, the owner's stored locations do not *)
Lemma tinv_thr x V' : TInv x ->
  arrs V' = arrs (vw x) -> bot V' = bot (vw x) -> cur V' = cur (vw x) -> narr V' = narr (vw x) ->
  (forall u, u <> 0%nat -> tclause (quiet x V') (thr V' u)) ->
  TInv (quiet x V').
Proof.
  intros TI Ea Eb Ec En F. constructor; cbn [quiet vw mbot marrs buf]; auto; rewrite ?Ea, ?Eb, ?Ec, ?En; apply TI.
Qed.

Lemma tinv_quiet x V' : TInv x ->
  arrs V' = arrs (vw x) -> bot V' = bot (vw x) -> cur V' = cur (vw x) -> top V' = top (vw x) ->
  narr V' = narr (vw x) -> (forall u, u <> 0%nat -> thr V' u = thr (vw x) u) ->
  TInv (quiet x V').
Proof.
  intros TI Ea Eb Ec Et En Eth. apply tinv_thr; auto.
  intros u Hu. rewrite Eth by auto. apply tclause_frame; auto. apply (t_thf x TI); auto.
Qed.

(* a buffered store of bottom that does not go down *)
Lemma tinv_bot_store x V' w : TInv x ->
  arrs V' = arrs (vw x) -> cur V' = cur (vw x) -> top V' = top (vw x) -> narr V' = narr (vw x) ->
  bot V' = w -> bot (vw x) <= w -> (forall u, u <> 0%nat -> thr V' u = thr (vw x) u) ->
  TInv (buffered x V' (WBot w)).
Proof.
  intros TI Ea Ec Et En Eb Hle Eth.
  constructor; cbn [buffered vw mbot marrs buf]; rewrite ?Ea, ?Ec, ?En.
  - apply TI.
  - intros k sl. rewrite lastw_app1. cbn [hit]. apply (t_dat x TI).
  - intros k j v Hin. apply in_app_or in Hin. destruct Hin as [Hin|[E|[]]]; [|discriminate]. apply (t_rng x TI k j v Hin).
  - rewrite Eb, vbot_app_bot. reflexivity.
  - rewrite Eb. apply (bwf_app_bot _ _ (bot (vw x))); [apply TI| rewrite <- (t_bot x TI); exact Hle | exact Hle].
  - intros u Hu. rewrite Eth by auto. pose proof (t_thf x TI u Hu) as F.
    unfold tclause, agree in *. cbn [buffered vw mbot marrs buf]. rewrite Ea, Ec, Et.
    destruct (pc (thr (vw x) u)); auto.
    + intros E1 E2. destruct (F E1 E2) as [F1 F2]. split; auto. intros j v Hin.
      apply in_app_or in Hin. destruct Hin as [Hin|[E|[]]]; [|discriminate]. eauto.
    + intros E1. destruct (F E1) as [F1 F2]. split; auto. intros E j v Hin.
      apply in_app_or in Hin. destruct Hin as [Hin|[E'|[]]]; [|discriminate]. eauto.
Qed.

Lemma Ls_lkind0 s : lkind (pc (thr s 0%nat)) = 0%nat -> Ls s = bot s /\ Lc s = bot s.
Proof. intros K. unfold Ls, Lc. rewrite K. auto. Qed.

Lemma in_app_one {A} (l : list A) (w x : A) : In x (l ++ [w]) -> In x l \/ x = w.
Proof. intros H. apply in_app_or in H. destruct H as [H|[H|[]]]; auto. Qed.

(* the owner's steps *)
Lemma tstep_tinv_owner x : Inv (vw x) -> TInv x -> TInv (tstep true x 0%nat).
Proof.
  intros I TI. unfold tstep. cbv zeta.
  pose proof (i_loc _ I 0%nat) as LT. unfold local_ok, lok in LT.
  pose proof (i_cur _ I) as Icur.
  assert (OT : forall u, u <> 0%nat -> thr (fst (step (vw x) 0%nat)) u = thr (vw x) u)
    by (intros; apply step_thr_other; auto).
  remember (fst (step (vw x) 0%nat)) as V' eqn:HV'.
  destruct (pc (thr (vw x) 0%nat)) eqn:Hpc; cbv iota.
  all: try (apply drained_tinv; fail).
  all: try (destruct (step_quiet (vw x) 0%nat) as (Q1 & Q2 & Q3 & Q4 & Q5); [rewrite Hpc; reflexivity|];
            rewrite <- HV' in *; apply tinv_quiet; auto; fail).
  all: unfold step in HV'; rewrite Hpc in HV'.
  - (* UArr *)
    destruct LT as (L1 & L2 & L3).
    destruct (b (thr (vw x) 0%nat) - t (thr (vw x) 0%nat) >=? asize (arrs (vw x) (cur (vw x))) - 1) eqn:G;
      cbn [fst] in HV'.
    + (* grow: fresh array in view and in memory *)
      set (n := S (narr (vw x))) in *.
      assert (En : narr V' = n) by (rewrite HV'; reflexivity).
      assert (Ea : arrs V' = upd (arrs (vw x)) n (fresh (S (lg (arrs (vw x) (cur (vw x))))))) by (rewrite HV'; reflexivity).
      assert (Eb : bot V' = bot (vw x)) by (rewrite HV'; reflexivity).
      assert (Ec : cur V' = cur (vw x)) by (rewrite HV'; reflexivity).
      assert (Et : top V' = top (vw x)) by (rewrite HV'; reflexivity).
      rewrite En. replace (n =? narr (vw x))%nat with false by (symmetry; apply Nat.eqb_neq; unfold n; lia).
      assert (NP : forall j v, ~ In (WEl n j v) (buf x)).
      { intros j v Hin. pose proof (t_rng x TI n j v Hin). unfold n in *. lia. }
      constructor; cbn [vw mbot marrs buf].
      * intros k. rewrite Ea. destruct (Nat.eq_dec k n) as [->|Hne]; [rewrite !upd_same; reflexivity|].
        rewrite !upd_other by auto. apply TI.
      * intros k sl. rewrite Ea. destruct (Nat.eq_dec k n) as [->|Hne].
        -- rewrite !upd_same. rewrite lastw_none; [reflexivity|]. intros j v Hin. exfalso. apply (NP j v Hin).
        -- rewrite !upd_other by auto.
           rewrite (lastw_ext _ (fun k => lg (arrs (vw x) k))) by (cbv beta; rewrite upd_other by auto; reflexivity).
           apply TI.
      * intros k j v Hin. pose proof (t_rng x TI k j v Hin). rewrite Ec, En. unfold n. lia.
      * rewrite Eb. apply TI.
      * rewrite Eb, Ec. apply TI.
      * intros u Hu. rewrite OT by auto. pose proof (t_thf x TI u Hu) as F.
        pose proof (i_loc _ I u) as LU. unfold local_ok, lok in LU.
        unfold tclause, agree in *. cbn [vw mbot marrs buf]. rewrite Ea, Ec, Et.
        destruct (pc (thr (vw x) u)); auto.
        -- rewrite !upd_other by (unfold n; lia). exact F.
        -- destruct LU as (U1 & U2 & U3 & U4). rewrite !upd_other by (unfold n; lia). exact F.
    + (* no growth *)
      assert (En : narr V' = narr (vw x)) by (rewrite HV'; reflexivity).
      rewrite En, Nat.eqb_refl. fold (quiet x V').
      apply tinv_quiet; auto; rewrite HV'; try reflexivity;
        try (intros u Hu; cbn [thr set_thr]; apply upd_other; auto).
  - (* UGWr: buffered store into the array being filled *)
    destruct LT as (G & L1 & L2). destruct G as (G1 & G2 & G3 & G4 & G5 & G6 & G7 & G8 & G9).
    cbn [fst] in HV'.
    set (T := thr (vw x) 0%nat) in *.
    assert (Ea : arrs V' = upd (arrs (vw x)) (na T) (put (arrs (vw x) (na T)) (i T) (rv T))) by (rewrite HV'; reflexivity).
    assert (Eb : bot V' = bot (vw x)) by (rewrite HV'; reflexivity).
    assert (Ec : cur V' = cur (vw x)) by (rewrite HV'; reflexivity).
    assert (Et : top V' = top (vw x)) by (rewrite HV'; reflexivity).
    assert (En : narr V' = narr (vw x)) by (rewrite HV'; reflexivity).
    constructor; cbn [buffered vw mbot marrs buf].
    + intros k. rewrite Ea. destruct (Nat.eq_dec k (na T)) as [->|Hne]; [rewrite upd_same; cbn [lg put]; apply TI|].
      rewrite upd_other by auto. apply TI.
    + intros k sl. rewrite lastw_app1.
      rewrite (lastw_ext _ (fun k => lg (arrs (vw x) k)))
        by (cbv beta; rewrite Ea; destruct (Nat.eq_dec k (na T)) as [->|Hne]; [rewrite upd_same|rewrite upd_other by auto]; reflexivity).
      unfold hit. rewrite Ea. destruct (Nat.eqb_spec (na T) k) as [<-|Hne]; cbn [andb].
      * rewrite upd_same. cbn [lg put dat]. unfold updZ, slot, asize.
        rewrite (Z.eqb_sym sl). destruct (Z.eqb_spec (i T mod 2 ^ Z.of_nat (lg (arrs (vw x) (na T)))) sl); [reflexivity|].
        apply TI.
      * rewrite upd_other by auto. apply TI.
    + intros k j v Hin. apply in_app_one in Hin. rewrite Ec, En. destruct Hin as [Hin|E]; [apply (t_rng x TI k j v Hin)|].
      inversion E; subst. lia.
    + rewrite Eb, vbot_app_el. apply TI.
    + rewrite Eb, Ec. apply bwf_app_el; [apply TI|]. intros E. exfalso. lia.
    + intros u Hu. rewrite OT by auto. pose proof (t_thf x TI u Hu) as F.
      pose proof (i_loc _ I u) as LU. unfold local_ok, lok in LU.
      unfold tclause, agree in *. cbn [buffered vw mbot marrs buf]. rewrite Ea, Ec, Et.
      destruct (pc (thr (vw x) u)); auto.
      * rewrite !upd_other by lia. intros E1 E2. destruct (F E1 E2) as [F1 F2]. split; auto.
        intros j v Hin. apply in_app_one in Hin. destruct Hin as [Hin|E]; [eauto|]. inversion E; subst. exfalso. lia.
      * destruct LU as (U1 & U2 & U3 & U4). rewrite !upd_other by lia.
        intros E1. destruct (F E1) as [F1 F2]. split; auto.
        intros E' j v Hin. apply in_app_one in Hin. destruct Hin as [Hin|E]; [eauto|]. inversion E; subst. exfalso. lia.
  - (* UPut: buffered store of the pushed element *)
    assert (K0 : lkind (pc (thr (vw x) 0%nat)) = 0%nat) by (rewrite Hpc; reflexivity).
    destruct (Ls_lkind0 _ K0) as [ELs ELc].
    destruct LT as (L1 & L2 & L3 & L4). cbn [fst] in HV'.
    set (T := thr (vw x) 0%nat) in *.
    assert (Ea : arrs V' = upd (arrs (vw x)) (a T) (put (arrs (vw x) (a T)) (b T) (arg T))) by (rewrite HV'; reflexivity).
    assert (Eb : bot V' = bot (vw x)) by (rewrite HV'; reflexivity).
    assert (Ec : cur V' = cur (vw x)) by (rewrite HV'; reflexivity).
    assert (Et : top V' = top (vw x)) by (rewrite HV'; reflexivity).
    assert (En : narr V' = narr (vw x)) by (rewrite HV'; reflexivity).
    rewrite L3 in *. set (C := arrs (vw x) (cur (vw x))) in *.
    assert (GO : forall j, top (vw x) <= j < bot (vw x) -> get (put C (b T) (arg T)) j = get C j)
      by (intros j Hj; apply get_put_other; lia).
    constructor; cbn [buffered vw mbot marrs buf].
    + intros k. rewrite Ea. destruct (Nat.eq_dec k (cur (vw x))) as [->|Hne]; [rewrite upd_same; cbn [lg put]; apply TI|].
      rewrite upd_other by auto. apply TI.
    + intros k sl. rewrite lastw_app1.
      rewrite (lastw_ext _ (fun k => lg (arrs (vw x) k)))
        by (cbv beta; rewrite Ea; destruct (Nat.eq_dec k (cur (vw x))) as [->|Hne]; [rewrite upd_same|rewrite upd_other by auto]; reflexivity).
      unfold hit. rewrite Ea. destruct (Nat.eqb_spec (cur (vw x)) k) as [<-|Hne]; cbn [andb].
      * rewrite upd_same. cbn [lg put dat]. unfold updZ, slot, asize. fold C.
        rewrite (Z.eqb_sym sl). destruct (Z.eqb_spec (b T mod 2 ^ Z.of_nat (lg C)) sl); [reflexivity|].
        apply TI.
      * rewrite upd_other by auto. apply TI.
    + intros k j v Hin. apply in_app_one in Hin. rewrite Ec, En. destruct Hin as [Hin|E]; [apply (t_rng x TI k j v Hin)|].
      inversion E; subst. lia.
    + rewrite Eb, vbot_app_el. apply TI.
    + rewrite Eb, Ec. apply bwf_app_el; [apply TI|]. intros _. rewrite <- (t_bot x TI). lia.
    + intros u Hu. rewrite OT by auto. pose proof (t_thf x TI u Hu) as F.
      pose proof (i_loc _ I u) as LU. unfold local_ok, lok in LU. rewrite ELs in LU.
      unfold tclause, agree in *. cbn [buffered vw mbot marrs buf]. rewrite Ea, Ec, Et.
      destruct (pc (thr (vw x) u)); auto.
      * destruct LU as (U1 & U2). intros E1 E2. destruct (F E1 E2) as [F1 F2]. specialize (U2 E1 E2). split.
        -- rewrite upd_same. rewrite GO by lia. exact F1.
        -- intros j v Hin. apply in_app_one in Hin. destruct Hin as [Hin|E]; [eauto|]. inversion E; subst. lia.
      * destruct LU as (U1 & U2 & U3 & U4). intros E1. destruct (F E1) as [F1 F2]. destruct (U4 E1) as [U5 U6]. split.
        -- destruct (Nat.eq_dec (a (thr (vw x) u)) (cur (vw x))) as [Ea'|Hne].
           ++ rewrite Ea' in *. rewrite upd_same. rewrite GO by lia. exact F1.
           ++ rewrite upd_other by auto. exact F1.
        -- intros E' j v Hin. apply in_app_one in Hin. destruct Hin as [Hin|E]; [eauto|]. inversion E; subst. lia.
  - (* USt *)
    destruct LT as (L1 & L2 & L3 & L4 & L5). cbn [fst] in HV'.
    apply tinv_bot_store; auto; try (rewrite HV'; reflexivity); try (rewrite HV'; cbn [bot]; lia); try lia.
  - (* OEmp *)
    destruct LT as (L1 & L2 & L3 & L4). cbn [fst] in HV'.
    apply tinv_bot_store; auto; try (rewrite HV'; reflexivity); try (rewrite HV'; cbn [bot]; lia); try lia.
  - (* OFixW *)
    destruct LT as (L1 & L2 & L3 & L4). cbn [fst] in HV'.
    apply tinv_bot_store; auto; try (rewrite HV'; reflexivity); try (rewrite HV'; cbn [bot]; lia); try lia.
  - (* OFixL *)
    destruct LT as (L1 & L2 & L3 & L4). cbn [fst] in HV'.
    apply tinv_bot_store; auto; try (rewrite HV'; reflexivity); try (rewrite HV'; cbn [bot]; lia); try lia.
Qed.

(* a thief's step: only its own thread state and possibly top change *)
Lemma tinv_thief_upd x V' u T' : Inv (vw x) -> TInv x -> u <> 0%nat ->
  arrs V' = arrs (vw x) -> bot V' = bot (vw x) -> cur V' = cur (vw x) -> narr V' = narr (vw x) ->
  thr V' = upd (thr (vw x)) u T' ->
  (top V' = top (vw x) \/ top (vw x) < top V') ->
  tclause (quiet x V') T' -> TInv (quiet x V').
Proof.
  intros I TI Hu Ea Eb Ec En Eth Ht CT. apply tinv_thr; auto.
  intros v Hv. rewrite Eth. destruct (Nat.eq_dec v u) as [->|Hne].
  - rewrite upd_same. exact CT.
  - rewrite upd_other by auto. apply tclause_frame; auto.
    + destruct Ht as [Ht|Ht]; [left; auto|right; split; auto].
      pose proof (i_loc _ I v) as LV. unfold local_ok, lok in LV.
      intros [E|E]; rewrite E in LV; tauto.
    + apply (t_thf x TI v Hv).
Qed.

Lemma tclause_trivial x T : pc T <> TArr -> pc T <> TGet -> tclause x T.
Proof. intros H1 H2. unfold tclause. destruct (pc T); auto; congruence. Qed.

Lemma next_op_tclause x T : tclause x (next_op T).
Proof. apply tclause_trivial; destruct (next_op_pc T) as [E|[E|[E|E]]]; rewrite E; discriminate. Qed.

Lemma tstep_tinv_thief x n : Inv (vw x) -> TInv x -> TInv (tstep true x (S n)).
Proof.
  intros I TI. unfold tstep. cbv zeta. set (u := S n).
  assert (Hu : u <> 0%nat) by (unfold u; discriminate).
  pose proof (i_loc _ I u) as LU. unfold local_ok, lok in LU.
  pose proof (proj1 (i_thief _ I u Hu)) as Hp.
  destruct (pc (thr (vw x) u)) eqn:Hpc; cbn in Hp; try contradiction; cbv iota.
  - (* TTop *)
    unfold step. rewrite Hpc. cbn [fst].
    eapply tinv_thief_upd; eauto; try reflexivity; try (apply tclause_trivial; cbn; discriminate).
  - (* TBot: bottom is read from memory *)
    eapply tinv_thief_upd; eauto; try reflexivity.
    unfold tclause, agree. cbn [quiet vw marrs buf set_thr cur top arrs pc t b mk].
    intros E1 E2.
    assert (PB : forall j v, In (WEl (cur (vw x)) j v) (buf x) -> mbot x <= j <= bot (vw x))
      by (intros j v Hin; eapply bwf_in; [apply (t_bwf x TI)|exact Hin]).
    split.
    + apply (agree_no_pending x _ _ TI). intros j v Hin. destruct (PB j v Hin) as [P1 P2].
      unfold slot. apply zmod_neq; [apply asize_pos|lia|].
      pose proof (i_cap _ I). pose proof (bot_le_Lc (vw x)). lia.
    + intros j v Hin. destruct (PB j v Hin). lia.
  - (* TArr *)
    unfold step. rewrite Hpc. destruct LU as (U1 & U2).
    pose proof (t_thf x TI u Hu) as F. unfold tclause in F. rewrite Hpc in F.
    destruct (Z.leb_spec (b (thr (vw x) u) - t (thr (vw x) u)) 0); cbn [fst].
    + eapply tinv_thief_upd; eauto; try reflexivity; try apply next_op_tclause.
    + eapply tinv_thief_upd; eauto; try reflexivity.
      unfold tclause, agree in *. cbn [quiet vw marrs buf set_thr cur top arrs pc t b a mk].
      intros E1. destruct (F E1 ltac:(lia)) as [F1 F2]. split; auto.
  - (* TGet: the element is read from memory *)
    eapply tinv_thief_upd; eauto; try reflexivity; try (apply tclause_trivial; cbn; discriminate).
  - (* TCas *)
    unfold step. rewrite Hpc.
    destruct (Z.eqb_spec (top (vw x)) (t (thr (vw x) u))) as [E|E]; cbn [fst].
    + eapply tinv_thief_upd; eauto; try reflexivity; try apply next_op_tclause; try (right; cbn [top]; lia).
    + eapply tinv_thief_upd; eauto; try reflexivity; try apply next_op_tclause.
  - (* Fin *)
    unfold step. rewrite Hpc. cbn [fst].
    apply tinv_quiet; auto.
Qed.

Lemma tstep_tinv x u : Inv (vw x) -> TInv x -> TInv (tstep true x u).
Proof. destruct u; [apply tstep_tinv_owner|apply tstep_tinv_thief]. Qed.

(* ------------------------------------------------------------------ *)
(* the view keeps the SC invariant and the history invariant            *)
Lemma vw_flush x : vw (flush x) = vw x.
Proof. unfold flush. destruct (buf x) as [|[w|k j v] r]; reflexivity. Qed.

Lemma vw_tstep x u :
  (u = 0%nat \/ (pc (thr (vw x) u) <> TBot /\ pc (thr (vw x) u) <> TGet)) ->
  vw (tstep true x u) = fst (step (vw x) u).
Proof.
  intros H. unfold tstep. cbv zeta. destruct u as [|n].
  - destruct (pc (thr (vw x) 0%nat)); reflexivity.
  - destruct H as [H|[H1 H2]]; [discriminate|].
    destruct (pc (thr (vw x) (S n))); try reflexivity; congruence.
Qed.

Lemma linv_eta p0 z B : B = base z -> LInv p0 z ->
  LInv p0 {| base := B; plog := plog z; slog := slog z; olog := olog z |}.
Proof. intros ->. destruct z; auto. Qed.

Lemma linv_private p0 z u T' : LInv p0 z -> u <> 0%nat ->
  lkind (pc T') = lkind (pc (thr (base z) u)) -> pc (thr (base z) u) <> OFixW -> pc T' <> OFixW ->
  Inv (set_thr (base z) u T') ->
  LInv p0 {| base := set_thr (base z) u T'; plog := plog z; slog := slog z; olog := olog z |}.
Proof.
  intros [I C S P] Hu K H1 H2 I'. destruct (private_effect (base z) u T' K H1 H2) as [E1 E2].
  constructor; cbn [base plog slog olog]; auto.
  - intros v. rewrite E1, E2. apply C.
  - rewrite E2. exact S.
  - cbn [thr set_thr]. rewrite upd_other by auto. exact P.
Qed.

Lemma lstep_nolog z u : pc (thr (base z) u) = TBot \/ pc (thr (base z) u) = TGet ->
  plog (lstep z u) = plog z /\ slog (lstep z u) = slog z /\ olog (lstep z u) = olog z.
Proof. intros [H|H]; unfold lstep; rewrite H; auto. Qed.

Lemma tlstep_linv p0 y u : LInv p0 (iv y) -> TInv (tb y) -> LInv p0 (iv (tlstep true y u)).
Proof.
  intros L TI. pose proof (l_inv _ _ L) as I. cbn [iv base] in I.
  unfold tlstep, iv. cbn [tb tpl tsl tol]. fold (iv y).
  destruct (Nat.eq_dec u 0%nat) as [->|Hu].
  { apply linv_eta; [rewrite lstep_erase; apply vw_tstep; auto | apply linv_step; exact L]. }
  pose proof (i_loc _ I u) as LU. unfold local_ok, lok in LU.
  pose proof (t_thf _ TI u Hu) as F. unfold tclause in F.
  destruct (pc (thr (vw (tb y)) u)) eqn:Hpc.
  all: try (apply linv_eta; [rewrite lstep_erase; apply vw_tstep; right; rewrite Hpc; split; discriminate | apply linv_step; exact L]; fail).
  - (* TBot *)
    destruct (lstep_nolog (iv y) u) as (E1 & E2 & E3); [left; exact Hpc|]. rewrite E1, E2, E3.
    assert (Ev : vw (tstep true (tb y) u) =
                 set_thr (base (iv y)) u (mk TArr (mbot (tb y)) (t (thr (vw (tb y)) u)) (a (thr (vw (tb y)) u))
                    (na (thr (vw (tb y)) u)) (i (thr (vw (tb y)) u)) (arg (thr (vw (tb y)) u)) (rv (thr (vw (tb y)) u))
                    (prog (thr (vw (tb y)) u)) (opi (thr (vw (tb y)) u)))).
    { unfold tstep. destruct u; [congruence|]. cbv zeta. rewrite Hpc. reflexivity. }
    rewrite Ev. apply linv_private; auto; cbn [iv base pc mk]; try (rewrite Hpc; discriminate); try discriminate;
      try (rewrite Hpc; reflexivity).
    apply local_step; auto.
    + rewrite Hpc. reflexivity.
    + intros _. split; [exact Logic.I|]. cbn [prog mk]. apply steals_of; auto.
    + unfold local_ok, lok. cbn [pc t b mk]. split; [exact LU|]. intros E1' E2'.
      pose proof (bwf_le _ _ _ _ (t_bwf _ TI)). pose proof (bt_le_Ls (lkind (pc (thr (vw (tb y)) 0%nat))) (bot (vw (tb y)))).
      unfold Ls. lia.
  - (* TGet *)
    destruct (lstep_nolog (iv y) u) as (E1 & E2 & E3); [right; exact Hpc|]. rewrite E1, E2, E3.
    assert (Ev : vw (tstep true (tb y) u) =
                 set_thr (base (iv y)) u (mk TCas (b (thr (vw (tb y)) u)) (t (thr (vw (tb y)) u)) (a (thr (vw (tb y)) u))
                    (na (thr (vw (tb y)) u)) (i (thr (vw (tb y)) u)) (arg (thr (vw (tb y)) u))
                    (get (marrs (tb y) (a (thr (vw (tb y)) u))) (t (thr (vw (tb y)) u)))
                    (prog (thr (vw (tb y)) u)) (opi (thr (vw (tb y)) u)))).
    { unfold tstep. destruct u; [congruence|]. cbv zeta. rewrite Hpc. reflexivity. }
    rewrite Ev. apply linv_private; auto; cbn [iv base pc mk]; try (rewrite Hpc; discriminate); try discriminate;
      try (rewrite Hpc; reflexivity).
    apply local_step; auto.
    + rewrite Hpc. reflexivity.
    + intros _. split; [exact Logic.I|]. cbn [prog mk]. apply steals_of; auto.
    + unfold local_ok, lok. cbn [pc t b a rv mk]. destruct LU as (U1 & U2 & U3 & U4).
      repeat split; auto; try (apply U4; auto).
      destruct (U4 H) as [_ U5]. destruct (F H) as [F1 _]. unfold agree in F1. rewrite F1. exact U5.
Qed.

Theorem treach_inv l start progs y :
  owner_only progs -> treach true l start progs y ->
  LInv (tokens (nth 0 progs [])) (iv y) /\ TInv (tb y).
Proof.
  intros O R. induction R as [|y u R [IL IT]|y R [IL IT]].
  - split; [|apply drained_tinv]. apply (ireach_linv l start progs (iinit l start progs) O). constructor.
  - split; [apply tlstep_linv; auto|]. cbn [tlstep tb]. apply tstep_tinv; auto. apply (l_inv _ _ IL).
  - split.
    + unfold tlflush, iv. cbn [tb tpl tsl tol]. rewrite vw_flush. exact IL.
    + cbn [tlflush tb]. apply flush_tinv; auto. apply (l_inv _ _ IL).
Qed.

(* the statements used by Properties_C02_deque.v *)
Lemma tso_exactly_once l start progs y :
  owner_only progs -> treach true l start progs y ->
  (forall v, (cnt (tsl y) v + cnt (tol y) v <= cnt (tpl y) v)%nat) /\
  (exists rest, Permutation (tpl y) (tsl y ++ tol y ++ rest)) /\
  (exists later, tokens (nth 0 progs []) = tpl y ++ later) /\
  (NoDup (tokens (nth 0 progs [])) -> NoDup (tsl y ++ tol y) /\ incl (tsl y ++ tol y) (tpl y)).
Proof. intros O R. exact (exactly_once_of_linv _ (iv y) (proj1 (treach_inv l start progs y O R))). Qed.

(* nothing is lost: pushed = returned + held + content of the owner's view;
   the part of the view not yet in memory is exactly the store buffer, whose
   bottom stores only go up (memory's bottom never exceeds the view's) *)
Lemma tso_no_loss l start progs y :
  owner_only progs -> treach true l start progs y ->
  Permutation (tpl y) (tsl y ++ tol y ++ held (vw (tb y)) ++ content (vw (tb y))) /\
  mbot (tb y) <= bot (vw (tb y)) /\
  (buf (tb y) = [] -> mbot (tb y) = bot (vw (tb y)) /\
                      forall k sl, dat (marrs (tb y) k) sl = dat (arrs (vw (tb y)) k) sl).
Proof.
  intros O R. destruct (treach_inv l start progs y O R) as [IL IT].
  split; [exact (proj1 (no_loss_of_linv _ (iv y) IL))|]. split.
  - apply (bwf_le _ _ _ _ (t_bwf _ IT)).
  - intros E. pose proof (t_bot _ IT) as B. pose proof (t_dat _ IT) as D. rewrite E in *. cbn in B, D.
    split; auto.
Qed.
