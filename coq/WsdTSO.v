(* The Chase-Lev deque program of coq/Wsd.v on an x86-TSO store-buffer machine
   (C02, deque half; DESIGN.md 3.2).

   x86 mapping of the C11 accesses: loads of any order are plain loads (own
   store buffer first, then memory); relaxed/release stores and plain writes
   go to the FIFO store buffer; seq_cst stores (xchg), CAS (lock cmpxchg,
   success or failure) drain the issuing thread's buffer.  Thieves only load
   and CAS, so only the owner (thread 0) ever has a non-empty buffer.

   State = the owner's VIEW [vw] (an SC state of Wsd.v in which every owner
   store has taken effect) + what memory still holds for the locations the
   owner stores to without a fence ([mbot] for bottom, [marrs] for the array
   elements) + the owner's buffer [buf].  The owner steps exactly like the SC
   machine on its view; a thief reads bottom and array elements from memory;
   top and underlying_array are only written by draining instructions, so
   memory and view agree on them.  [flush] commits the oldest buffered store.

   [fenced = true] is the code as written (pop_bottom stores bottom with
   memory_order_seq_cst); [fenced = false] is the variant with a release store
   there, which is refuted below. *)
From Coq Require Import List ZArith Lia Bool Arith Permutation.
From LF Require Import Conc Wsd WsdProofs.
Import ListNotations.

Inductive wr := WBot (w : Z) | WEl (k : nat) (j v : Z).

Record tso := { vw : st; mbot : Z; marrs : nat -> arr; buf : list wr }.

Definition drained (V : st) : tso := {| vw := V; mbot := bot V; marrs := arrs V; buf := [] |}.
Definition buffered (x : tso) (V' : st) (w : wr) : tso :=
  {| vw := V'; mbot := mbot x; marrs := marrs x; buf := buf x ++ [w] |}.
Definition quiet (x : tso) (V' : st) : tso :=
  {| vw := V'; mbot := mbot x; marrs := marrs x; buf := buf x |}.

Definition tstep (fenced : bool) (x : tso) (u : nat) : tso :=
  let V := vw x in
  let T := thr V u in
  match u with
  | O =>
      let V' := fst (step V 0) in
      match pc T with
      | UPut => buffered x V' (WEl (a T) (b T) (arg T))
      | UGWr => buffered x V' (WEl (na T) (i T) (rv T))
      | USt => buffered x V' (WBot (b T + 1))
      | OEmp => buffered x V' (WBot (t T))
      | OFixW | OFixL => buffered x V' (WBot (t T + 1))
      | OSt => if fenced then drained V' else buffered x V' (WBot (b T))
      | UGSt | OCas | TCas => drained V'
      | UArr => (* malloc of a fresh (zeroed) array is not a buffered store *)
          {| vw := V'; mbot := mbot x;
             marrs := if (narr V' =? narr V)%nat then marrs x
                      else upd (marrs x) (narr V') (arrs V' (narr V'));
             buf := buf x |}
      | _ => quiet x V'
      end
  | S _ =>
      match pc T with
      | TBot => quiet x (set_thr V u (mk TArr (mbot x) (t T) (a T) (na T) (i T) (arg T) (rv T) (prog T) (opi T)))
      | TGet => quiet x (set_thr V u (mk TCas (b T) (t T) (a T) (na T) (i T) (arg T)
                                         (get (marrs x (a T)) (t T)) (prog T) (opi T)))
      | _ => quiet x (fst (step V u))
      end
  end.

Definition flush (x : tso) : tso :=
  match buf x with
  | [] => x
  | WBot w :: r => {| vw := vw x; mbot := w; marrs := marrs x; buf := r |}
  | WEl k j v :: r => {| vw := vw x; mbot := mbot x;
                         marrs := upd (marrs x) k (put (marrs x k) j v); buf := r |}
  end.

(* instrumented with the same ghost logs as WsdProofs.lstep (computed on the view) *)
Record tist := { tb : tso; tpl : list Z; tsl : list Z; tol : list Z }.
Definition iv (y : tist) : ist := {| base := vw (tb y); plog := tpl y; slog := tsl y; olog := tol y |}.

Definition tlstep (fenced : bool) (y : tist) (u : nat) : tist :=
  let z := lstep (iv y) u in
  {| tb := tstep fenced (tb y) u; tpl := plog z; tsl := slog z; tol := olog z |}.
Definition tlflush (y : tist) : tist := {| tb := flush (tb y); tpl := tpl y; tsl := tsl y; tol := tol y |}.

Definition tinit l start progs : tist :=
  {| tb := drained (init l start progs); tpl := []; tsl := []; tol := [] |}.

Inductive treach (fenced : bool) l start progs : tist -> Prop :=
| tr_init : treach fenced l start progs (tinit l start progs)
| tr_step y u : treach fenced l start progs y -> treach fenced l start progs (tlstep fenced y u)
| tr_flush y : treach fenced l start progs y -> treach fenced l start progs (tlflush y).

(* schedules for examples: Some u = thread u steps, None = flush *)
Definition trun (fenced : bool) (y : tist) (sch : list (option nat)) : tist :=
  fold_left (fun y o => match o with Some u => tlstep fenced y u | None => tlflush y end) sch y.
Lemma treach_trun fenced l start progs sch :
  forall y, treach fenced l start progs y -> treach fenced l start progs (trun fenced y sch).
Proof.
  induction sch as [|o r IH]; intros y R; cbn; auto. apply IH. destruct o; constructor; exact R.
Qed.

(* ------------------------------------------------------------------ *)
(* The variant with a release store of bottom in pop_bottom is wrong on TSO:
   two elements 5,6; the pop's decrement of bottom sits in the store buffer,
   the pop sees top = 0 < 1 and takes 6 without a CAS; a thief, still seeing
   bottom = 2 in memory, steals 5 and then 6.  Token 6 is returned twice. *)
Definition bad_progs := [[OPush 5; OPush 6; OPop]; [OSteal; OSteal]].
Definition bad_sched : list (option nat) :=
  [Some 0;Some 0;Some 0;Some 0;Some 0; Some 0;Some 0;Some 0;Some 0;Some 0; None;None;None;None;
   Some 0;Some 0;Some 0;Some 0;Some 0;
   Some 1;Some 1;Some 1;Some 1;Some 1; Some 1;Some 1;Some 1;Some 1;Some 1]%nat.

Lemma bad_owner_only : owner_only bad_progs.
Proof. apply owner_only_cons. repeat constructor. Qed.

Theorem tso_release_store_refuted :
  exists l start progs y,
    owner_only progs /\ NoDup (tokens (nth 0 progs [])) /\ treach false l start progs y /\
    tpl y = [5; 6]%Z /\ tsl y = [5; 6]%Z /\ tol y = [6]%Z /\ ~ NoDup (tsl y ++ tol y).
Proof.
  exists 2%nat, 0%Z, bad_progs, (trun false (tinit 2 0 bad_progs) bad_sched).
  split; [exact bad_owner_only|]. split; [repeat constructor; cbn; intuition congruence|].
  split; [apply treach_trun; constructor|].
  assert (E : tpl (trun false (tinit 2 0 bad_progs) bad_sched) = [5; 6]%Z /\
              tsl (trun false (tinit 2 0 bad_progs) bad_sched) = [5; 6]%Z /\
              tol (trun false (tinit 2 0 bad_progs) bad_sched) = [6]%Z) by (vm_compute; auto).
  destruct E as (E1 & E2 & E3). rewrite E1, E2, E3. repeat split; auto.
  intros ND. cbn in ND. inversion ND as [|? ? H1 H2]; subst. inversion H2 as [|? ? H3 H4]; subst.
  apply H3. cbn. auto.
Qed.

(* the same schedule on the code as written: the seq_cst store drains the
   buffer, the second steal sees bottom = 1 and returns EMPTY *)
Example tso_fenced_same_schedule :
  let y := trun true (tinit 2 0 bad_progs) bad_sched in
  treach true 2 0 bad_progs y /\ tpl y = [5; 6]%Z /\ tsl y = [5]%Z /\ tol y = [6]%Z.
Proof. split; [apply treach_trun; constructor | vm_compute; auto]. Qed.
