(* The Chase-Lev deque program of coq/Wsd.v on an x86-TSO store-buffer machine
   (C02, deque half; DESIGN.md 3.2).

   x86 mapping of the C11 accesses: loads of any order are plain loads (own
   store buffer first, then memory); relaxed/release stores and plain writes
   go to the FIFO store buffer; seq_cst stores (xchg), CAS (lock cmpxchg,
   success or failure) drain the issuing thread's buffer.  Thieves only load
   and CAS, so only the owner (thread 0) ever has a non-empty buffer.

   State = the owner's VIEW [vw] (an SC state of Wsd.v in which every owner
   store has taken effect) + what memory still holds for the locations the
   owner stores to without a fence ([mbot] for bottom, [marrs] for the array
   elements) + the owner's buffer [buf].  The owner steps exactly like the SC
   machine on its view; a thief reads bottom and array elements from memory;
   top and underlying_array are only written by draining instructions, so
   memory and view agree on them.  [flush] commits the oldest buffered store.

   [fenced = true] is the code as written (pop_bottom stores bottom with
   memory_order_seq_cst); [fenced = false] is the variant with a release store
   there, which is refuted below. *)
From Coq Require Import List ZArith Lia Bool Arith Permutation.
From LF Require Import Conc Wsd WsdProofs.
Import ListNotations.

Inductive wr := WBot (w : Z) | WEl (k : nat) (j v : Z).

Record tso := { vw : st; mbot : Z; marrs : nat -> arr; buf : list wr }.

Definition drained (V : st) : tso := {| vw := V; mbot := bot V; marrs := arrs V; buf := [] |}.
Definition buffered (x : tso) (V' : st) (w : wr) : tso :=
  {| vw := V'; mbot := mbot x; marrs := marrs x; buf := buf x ++ [w] |}.
Definition quiet (x : tso) (V' : st) : tso :=
  {| vw := V'; mbot := mbot x; marrs := marrs x; buf := buf x |}.

Definition tstep (fenced : bool) (x : tso) (u : nat) : tso :=
  let V := vw x in
  let T := thr V u in
  match u with
  | O =>
      let V' := fst (step V 0) in
      match pc T with
      | UPut => buffered x V' (WEl (a T) (b T) (arg T))
      | UGWr => buffered x V' (WEl (na T) (i T) (rv T))
      | USt => buffered x V' (WBot (b T + 1))
      | OEmp => buffered x V' (WBot (t T))
      | OFixW | OFixL => buffered x V' (WBot (t T + 1))
      | OSt => if fenced then drained V' else buffered x V' (WBot (b T))
      | UGSt | OCas | TCas => drained V'
      | UArr => (* malloc of a fresh (zeroed) array is not a buffered store *)
          {| vw := V'; mbot := mbot x;
             marrs := if (narr V' =? narr V)%nat then marrs x
                      else upd (marrs x) (narr V') (arrs V' (narr V'));
             buf := buf x |}
      | _ => quiet x V'
      end
  | S _ =>
      match pc T with
      | TBot => quiet x (set_thr V u (mk TArr (mbot x) (t T) (a T) (na T) (i T) (arg T) (rv T) (prog T) (opi T)))
      | TGet => quiet x (set_thr V u (mk TCas (b T) (t T) (a T) (na T) (i T) (arg T)
                                         (get (marrs x (a T)) (t T)) (prog T) (opi T)))
      | _ => quiet x (fst (step V u))
      end
  end.

Definition flush (x : tso) : tso :=
  match buf x with
  | [] => x
  | WBot w :: r => {| vw := vw x; mbot := w; marrs := marrs x; buf := r |}
  | WEl k j v :: r => {| vw := vw x; mbot := mbot x;
                         marrs := upd (marrs x) k (put (marrs x k) j v); buf := r |}
  end.

(* instrumented with the same ghost logs as WsdProofs.lstep (computed on the view) *)
Record tist := { tb : tso; tpl : list Z; tsl : list Z; tol : list Z }.
Definition iv (y : tist) : ist := {| base := vw (tb y); plog := tpl y; slog := tsl y; olog := tol y |}.

Definition tlstep (fenced : bool) (y : tist) (u : nat) : tist :=
  let z := lstep (iv y) u in
  {| tb := tstep fenced (tb y) u; tpl := plog z; tsl := slog z; tol := olog z |}.
Definition tlflush (y : tist) : tist := {| tb := flush (tb y); tpl := tpl y; tsl := tsl y; tol := tol y |}.

Definition tinit l start progs : tist :=
  {| tb := drained (init l start progs); tpl := []; tsl := []; tol := [] |}.

Inductive treach (fenced : bool) l start progs : tist -> Prop :=
| tr_init : treach fenced l start progs (tinit l start progs)
| tr_step y u : treach fenced l start progs y -> treach fenced l start progs (tlstep fenced y u)
| tr_flush y : treach fenced l start progs y -> treach fenced l start progs (tlflush y).

(* schedules for examples: Some u = thread u steps, None = flush *)
Definition trun (fenced : bool) (y : tist) (sch : list (option nat)) : tist :=
  fold_left (fun y o => match o with Some u => tlstep fenced y u | None => tlflush y end) sch y.
Lemma treach_trun fenced l start progs sch :
  forall y, treach fenced l start progs y -> treach fenced l start progs (trun fenced y sch).
Proof.
  induction sch as [|o r IH]; intros y R; cbn; auto. apply IH. destruct o; constructor; exact R.
Qed.

(* ------------------------------------------------------------------ *)
(* The variant with a release store of bottom in pop_bottom is wrong on TSO:
   two elements 5,6; the pop's decrement of bottom sits in the store buffer,
   the pop sees top = 0 < 1 and takes 6 without a CAS; a thief, still seeing
   bottom = 2 in memory, steals 5 and then 6.  Token 6 is returned twice. *)
Definition bad_progs := [[OPush 5; OPush 6; OPop]; [OSteal; OSteal]].
Definition bad_sched : list (option nat) :=
  [Some 0;Some 0;Some 0;Some 0;Some 0; Some 0;Some 0;Some 0;Some 0;Some 0; None;None;None;None;
   Some 0;Some 0;Some 0;Some 0;Some 0;
   Some 1;Some 1;Some 1;Some 1;Some 1; Some 1;Some 1;Some 1;Some 1;Some 1]%nat.

Lemma bad_owner_only : owner_only bad_progs.
Proof. apply owner_only_cons. repeat constructor. Qed.

Theorem tso_release_store_refuted :
  exists l start progs y,
    owner_only progs /\ NoDup (tokens (nth 0 progs [])) /\ treach false l start progs y /\
    tpl y = [5; 6]%Z /\ tsl y = [5; 6]%Z /\ tol y = [6]%Z /\ ~ NoDup (tsl y ++ tol y).
Proof.
  exists 2%nat, 0%Z, bad_progs, (trun false (tinit 2 0 bad_progs) bad_sched).
  split; [exact bad_owner_only|]. split; [repeat constructor; cbn; intuition congruence|].
  split; [apply treach_trun; constructor|].
  assert (E : tpl (trun false (tinit 2 0 bad_progs) bad_sched) = [5; 6]%Z /\
              tsl (trun false (tinit 2 0 bad_progs) bad_sched) = [5; 6]%Z /\
              tol (trun false (tinit 2 0 bad_progs) bad_sched) = [6]%Z) by (vm_compute; auto).
  destruct E as (E1 & E2 & E3). rewrite E1, E2, E3. repeat split; auto.
  intros ND. cbn in ND. inversion ND as [|? ? H1 H2]; subst. inversion H2 as [|? ? H3 H4]; subst.
  apply H3. cbn. auto.
Qed.

(* the same schedule on the code as written: the seq_cst store drains the
   buffer, the second steal sees bottom = 1 and returns EMPTY *)
Example tso_fenced_same_schedule :
  let y := trun true (tinit 2 0 bad_progs) bad_sched in
  treach true 2 0 bad_progs y /\ tpl y = [5; 6]%Z /\ tsl y = [5]%Z /\ tol y = [6]%Z.
Proof. split; [apply treach_trun; constructor | vm_compute; auto]. Qed.

(* ------------------------------------------------------------------ *)
(* Invariant relating memory, buffer and view (fenced = true)           *)
Local Open Scope Z_scope.

(* the value, if any, that the buffer will eventually leave in slot sl of array k *)
Definition hit (lgs : nat -> nat) (w : wr) (k : nat) (sl : Z) : option Z :=
  match w with
  | WEl k' j v => if (k' =? k)%nat && (j mod 2 ^ Z.of_nat (lgs k) =? sl) then Some v else None
  | WBot _ => None
  end.
Fixpoint lastw (lgs : nat -> nat) (bf : list wr) (k : nat) (sl : Z) : option Z :=
  match bf with
  | [] => None
  | h :: r => match lastw lgs r k sl with Some v => Some v | None => hit lgs h k sl end
  end.
(* bottom as the owner sees it *)
Fixpoint vbot (bf : list wr) (m : Z) : Z :=
  match bf with
  | [] => m
  | WBot w :: r => vbot r w
  | WEl _ _ _ :: r => vbot r m
  end.
(* buffered stores of bottom only go up, from memory's value to the view's;
   a buffered element store of the current array is to an index at or above
   the bottom value in effect before it (and at most the view's bottom) *)
Fixpoint bwf (lo : Z) (bf : list wr) (hi : Z) (cu : nat) : Prop :=
  match bf with
  | [] => lo <= hi
  | WBot w :: r => lo <= w /\ bwf w r hi cu
  | WEl k j v :: r => (k = cu -> lo <= j <= hi) /\ bwf lo r hi cu
  end.

Lemma lastw_app1 lgs bf w k sl :
  lastw lgs (bf ++ [w]) k sl = match hit lgs w k sl with Some v => Some v | None => lastw lgs bf k sl end.
Proof.
  induction bf as [|h r IH]; cbn [app lastw].
  - destruct (hit lgs w k sl); reflexivity.
  - rewrite IH. destruct (hit lgs w k sl); [reflexivity|]. reflexivity.
Qed.

Lemma lastw_ext lgs lgs' bf k sl : (forall k, lgs k = lgs' k) -> lastw lgs bf k sl = lastw lgs' bf k sl.
Proof.
  intros E. induction bf as [|h r IH]; cbn; auto. rewrite IH.
  destruct (lastw lgs' r k sl); auto. unfold hit. destruct h; auto. rewrite E. reflexivity.
Qed.

Lemma lastw_none lgs bf k sl :
  (forall j v, In (WEl k j v) bf -> j mod 2 ^ Z.of_nat (lgs k) <> sl) -> lastw lgs bf k sl = None.
Proof.
  induction bf as [|h r IH]; intros H; cbn; auto.
  rewrite IH by (intros j v Hin; apply (H j v); right; auto).
  destruct h as [w|k' j v]; cbn; auto.
  destruct (Nat.eqb_spec k' k) as [->|Hne]; cbn; auto.
  destruct (Z.eqb_spec (j mod 2 ^ Z.of_nat (lgs k)) sl) as [E|E]; auto.
  exfalso. apply (H j v); [left; reflexivity|exact E].
Qed.

Lemma vbot_app_bot bf m w : vbot (bf ++ [WBot w]) m = w.
Proof. revert m. induction bf as [|[w0|k j v] r IH]; intros m; cbn; auto. Qed.
Lemma vbot_app_el bf m k j v : vbot (bf ++ [WEl k j v]) m = vbot bf m.
Proof. revert m. induction bf as [|[w0|k0 j0 v0] r IH]; intros m; cbn; auto. Qed.

Lemma bwf_le lo bf hi cu : bwf lo bf hi cu -> lo <= hi.
Proof.
  revert lo. induction bf as [|[w|k j v] r IH]; intros lo; cbn; auto.
  - intros [A B]. specialize (IH _ B). lia.
  - intros [A B]. auto.
Qed.
Lemma bwf_vbot lo bf hi cu : bwf lo bf hi cu -> lo <= vbot bf lo <= hi.
Proof.
  revert lo. induction bf as [|[w|k j v] r IH]; intros lo; cbn.
  - lia.
  - intros [A B]. specialize (IH _ B). lia.
  - intros [A B]. auto.
Qed.
Lemma bwf_app_bot lo bf hi cu w :
  bwf lo bf hi cu -> vbot bf lo <= w -> hi <= w -> bwf lo (bf ++ [WBot w]) w cu.
Proof.
  revert lo. induction bf as [|[w0|k j v] r IH]; intros lo; cbn.
  - intros; lia.
  - intros [A B] H1 H2. split; auto.
  - intros [A B] H1 H2. split; auto. intros E. specialize (A E). lia.
Qed.
Lemma bwf_app_el lo bf hi cu k j v :
  bwf lo bf hi cu -> (k = cu -> vbot bf lo <= j <= hi) -> bwf lo (bf ++ [WEl k j v]) hi cu.
Proof.
  revert lo. induction bf as [|[w0|k0 j0 v0] r IH]; intros lo; cbn.
  - intros H1 H2. split; auto.
  - intros [A B] H. split; auto.
  - intros [A B] H. split; auto.
Qed.
Lemma bwf_in lo bf hi cu j v : bwf lo bf hi cu -> In (WEl cu j v) bf -> lo <= j <= hi.
Proof.
  revert lo. induction bf as [|[w|k j0 v0] r IH]; intros lo; cbn; [tauto| |].
  - intros [A B] [E|Hin]; [discriminate|]. specialize (IH _ B Hin). lia.
  - intros [A B] [E|Hin]; [inversion E; subst; auto|]. auto.
Qed.

Definition agree (x : tso) (k : nat) (j : Z) : Prop := get (marrs x k) j = get (arrs (vw x) k) j.

Definition tclause (x : tso) (T : tst) : Prop :=
  match pc T with
  | TArr => top (vw x) = t T -> t T < b T ->
            agree x (cur (vw x)) (t T) /\ (forall j v, In (WEl (cur (vw x)) j v) (buf x) -> t T < j)
  | TGet => top (vw x) = t T ->
            agree x (a T) (t T) /\ (a T = cur (vw x) -> forall j v, In (WEl (cur (vw x)) j v) (buf x) -> t T < j)
  | _ => True
  end.

Record TInv (x : tso) : Prop := {
  t_lg : forall k, lg (marrs x k) = lg (arrs (vw x) k);
  t_dat : forall k sl, dat (arrs (vw x) k) sl =
            match lastw (fun k => lg (arrs (vw x) k)) (buf x) k sl with
            | Some v => v | None => dat (marrs x k) sl end;
  t_rng : forall k j v, In (WEl k j v) (buf x) -> (cur (vw x) <= k <= narr (vw x))%nat;
  t_bot : bot (vw x) = vbot (buf x) (mbot x);
  t_bwf : bwf (mbot x) (buf x) (bot (vw x)) (cur (vw x));
  t_thf : forall u, u <> 0%nat -> tclause x (thr (vw x) u)
}.

Lemma drained_tinv V : TInv (drained V).
Proof.
  constructor; cbn [drained vw mbot marrs buf]; auto; try reflexivity.
  - intros k j v [].
  - cbn. lia.
  - intros u Hu. unfold tclause, agree. cbn [drained vw mbot marrs buf].
    destruct (pc (thr V u)); auto; intros; split; auto; intros; contradiction.
Qed.

Lemma slot_eq (A B : arr) j : lg A = lg B -> slot A j = slot B j.
Proof. intros E. unfold slot. rewrite (asize_lg A B E). reflexivity. Qed.

(* memory and view agree on a slot no buffered store targets *)
Lemma agree_no_pending x k j : TInv x ->
  (forall j' v, In (WEl k j' v) (buf x) -> slot (arrs (vw x) k) j' <> slot (arrs (vw x) k) j) ->
  agree x k j.
Proof.
  intros TI H. unfold agree, get. rewrite (slot_eq (marrs x k) (arrs (vw x) k) j (t_lg x TI k)).
  rewrite (t_dat x TI k). rewrite lastw_none; auto.
Qed.

Lemma bot_le_Lc s : bot s <= Lc s.
Proof. unfold Lc. destruct (lkind (pc (thr s 0%nat))); cbn; lia. Qed.

(* a pending element store of the current array at an index above a live
   index t = top does not touch t's slot *)
Lemma pending_other_slot x (A : arr) j tt :
  Inv (vw x) -> asize A = asize (arrs (vw x) (cur (vw x))) ->
  top (vw x) = tt -> tt < j -> j <= bot (vw x) ->
  tt <> j /\ - asize A < tt - j < asize A.
Proof.
  intros I EA Et Hlt Hle. pose proof (i_cap _ I) as C. pose proof (bot_le_Lc (vw x)). lia.
Qed.

Lemma flush_tinv x : Inv (vw x) -> TInv x -> TInv (flush x).
Proof.
  intros I TI. unfold flush. destruct (buf x) as [|[w|k j v] r] eqn:Hb; auto.
  - (* bottom store reaches memory *)
    pose proof (t_dat x TI) as D. pose proof (t_rng x TI) as R. pose proof (t_bot x TI) as B.
    pose proof (t_bwf x TI) as W. pose proof (t_thf x TI) as F. rewrite Hb in *. cbn in B, W.
    constructor; cbn [vw mbot marrs buf]; auto.
    + apply (t_lg x TI).
    + intros k sl. rewrite (D k sl). cbn [lastw hit]. match goal with |- context [lastw ?f r k sl] => destruct (lastw f r k sl) end; reflexivity.
    + intros k j v Hin. apply (R k j v). right; auto.
    + tauto.
    + intros u Hu. specialize (F u Hu). unfold tclause, agree in *. cbn [vw mbot marrs buf] in *.
      destruct (pc (thr (vw x) u)); auto.
      * intros E1 E2. destruct (F E1 E2) as [F1 F2]. split; auto. intros j v Hin. apply (F2 j v). rewrite Hb. right; auto.
      * intros E1. destruct (F E1) as [F1 F2]. split; auto. intros E j v Hin. apply (F2 E j v). rewrite Hb. right; auto.
  - (* element store reaches memory *)
    pose proof (t_lg x TI) as G. pose proof (t_dat x TI) as D. pose proof (t_rng x TI) as R.
    pose proof (t_bot x TI) as B. pose proof (t_bwf x TI) as W. pose proof (t_thf x TI) as F.
    rewrite Hb in *. cbn in B, W. destruct W as [W1 W2].
    assert (HR : (cur (vw x) <= k <= narr (vw x))%nat) by (apply (R k j v); left; reflexivity).
    constructor; cbn [vw mbot marrs buf]; auto.
    + intros k'. destruct (Nat.eq_dec k' k) as [->|Hne]; [rewrite upd_same; cbn; apply G|rewrite upd_other by auto; apply G].
    + intros k' sl. rewrite (D k' sl). cbn [lastw]. match goal with |- context [lastw ?f r k' sl] => destruct (lastw f r k' sl) end; [reflexivity|].
      unfold hit. destruct (Nat.eqb_spec k k') as [->|Hne]; cbn [andb].
      * rewrite upd_same. unfold put, updZ; cbn [dat]. unfold slot, asize. rewrite (G k').
        rewrite (Z.eqb_sym sl). destruct (Z.eqb_spec (j mod 2 ^ Z.of_nat (lg (arrs (vw x) k'))) sl); reflexivity.
      * rewrite upd_other by auto. reflexivity.
    + intros k' j' v' Hin. apply (R k' j' v'). right; auto.
    + intros u Hu. specialize (F u Hu). unfold tclause, agree in *. cbn [vw mbot marrs buf] in *.
      pose proof (i_loc _ I u) as LU. unfold local_ok, lok in LU.
      destruct (pc (thr (vw x) u)) eqn:Hpc; auto.
      * intros E1 E2. destruct (F E1 E2) as [F1 F2]. split; [|intros j' v' Hin; apply (F2 j' v'); rewrite Hb; right; auto].
        destruct (Nat.eq_dec k (cur (vw x))) as [->|Hne]; [|rewrite upd_other by auto; exact F1].
        rewrite upd_same. rewrite <- F1.
        assert (Hj : t (thr (vw x) u) < j) by (apply (F2 j v); rewrite Hb; left; reflexivity).
        destruct (W1 eq_refl) as [_ Hhi].
        destruct (pending_other_slot x (marrs x (cur (vw x))) j (t (thr (vw x) u)) I
                    (asize_lg _ _ (G (cur (vw x)))) E1 Hj Hhi) as [N1 N2].
        apply get_put_other; auto.
      * intros E1. destruct (F E1) as [F1 F2]. split; [|intros E j' v' Hin; apply (F2 E j' v'); rewrite Hb; right; auto].
        destruct LU as (U1 & U2 & U3 & U4).
        destruct (Nat.eq_dec k (a (thr (vw x) u))) as [->|Hne]; [|rewrite upd_other by auto; exact F1].
        assert (Ea : a (thr (vw x) u) = cur (vw x)) by lia.
        rewrite upd_same. rewrite <- F1.
        assert (Hj : t (thr (vw x) u) < j) by (apply (F2 Ea j v); rewrite Hb; left; rewrite Ea; reflexivity).
        destruct (W1 Ea) as [_ Hhi]. rewrite Ea.
        destruct (pending_other_slot x (marrs x (cur (vw x))) j (t (thr (vw x) u)) I
                    (asize_lg _ _ (G (cur (vw x)))) E1 Hj Hhi) as [N1 N2].
        apply get_put_other; auto.
Qed.

(* ---- frames ---- *)
Definition quietpc (p : pcT) : bool :=
  match p with
  | UArr | UGWr | UGSt | UPut | USt | OSt | OEmp | OCas | OFixW | OFixL | TCas => false
  | _ => true
  end.

Lemma step_quiet V u : quietpc (pc (thr V u)) = true ->
  let V' := fst (step V u) in
  arrs V' = arrs V /\ bot V' = bot V /\ cur V' = cur V /\ top V' = top V /\ narr V' = narr V.
Proof.
  intros Q. unfold step. destruct (pc (thr V u)); cbn in Q; try discriminate;
    repeat match goal with |- context [if ?c then _ else _] => destruct c end;
    cbn [fst arrs bot cur top narr set_thr]; auto.
Qed.

Lemma tclause_frame x V' T :
  arrs V' = arrs (vw x) -> cur V' = cur (vw x) ->
  (top V' = top (vw x) \/ (top (vw x) < top V' /\ t T <= top (vw x))) ->
  tclause x T -> tclause (quiet x V') T.
Proof.
  intros Ea Ec Ht. unfold tclause, agree. cbn [quiet vw marrs buf]. rewrite Ea, Ec.
  destruct (pc T); auto; destruct Ht as [->|[H1 H2]]; auto; intros; lia.
Qed.

(* thread states / top change, the owner's stored locations do not *)
Lemma tinv_thr x V' : TInv x ->
  arrs V' = arrs (vw x) -> bot V' = bot (vw x) -> cur V' = cur (vw x) -> narr V' = narr (vw x) ->
  (forall u, u <> 0%nat -> tclause (quiet x V') (thr V' u)) ->
  TInv (quiet x V').
Proof.
  intros TI Ea Eb Ec En F. constructor; cbn [quiet vw mbot marrs buf]; auto; rewrite ?Ea, ?Eb, ?Ec, ?En; apply TI.
Qed.

Lemma tinv_quiet x V' : TInv x ->
  arrs V' = arrs (vw x) -> bot V' = bot (vw x) -> cur V' = cur (vw x) -> top V' = top (vw x) ->
  narr V' = narr (vw x) -> (forall u, u <> 0%nat -> thr V' u = thr (vw x) u) ->
  TInv (quiet x V').
Proof.
  intros TI Ea Eb Ec Et En Eth. apply tinv_thr; auto.
  intros u Hu. rewrite Eth by auto. apply tclause_frame; auto. apply (t_thf x TI); auto.
Qed.

(* a buffered store of bottom that does not go down *)
Lemma tinv_bot_store x V' w : TInv x ->
  arrs V' = arrs (vw x) -> cur V' = cur (vw x) -> top V' = top (vw x) -> narr V' = narr (vw x) ->
  bot V' = w -> bot (vw x) <= w -> (forall u, u <> 0%nat -> thr V' u = thr (vw x) u) ->
  TInv (buffered x V' (WBot w)).
Proof.
  intros TI Ea Ec Et En Eb Hle Eth.
  constructor; cbn [buffered vw mbot marrs buf]; rewrite ?Ea, ?Ec, ?En.
  - apply TI.
  - intros k sl. rewrite lastw_app1. cbn [hit]. apply (t_dat x TI).
  - intros k j v Hin. apply in_app_or in Hin. destruct Hin as [Hin|[E|[]]]; [|discriminate]. apply (t_rng x TI k j v Hin).
  - rewrite Eb, vbot_app_bot. reflexivity.
  - rewrite Eb. apply (bwf_app_bot _ _ (bot (vw x))); [apply TI| rewrite <- (t_bot x TI); exact Hle | exact Hle].
  - intros u Hu. rewrite Eth by auto. pose proof (t_thf x TI u Hu) as F.
    unfold tclause, agree in *. cbn [buffered vw mbot marrs buf]. rewrite Ea, Ec, Et.
    destruct (pc (thr (vw x) u)); auto.
    + intros E1 E2. destruct (F E1 E2) as [F1 F2]. split; auto. intros j v Hin.
      apply in_app_or in Hin. destruct Hin as [Hin|[E|[]]]; [|discriminate]. eauto.
    + intros E1. destruct (F E1) as [F1 F2]. split; auto. intros E j v Hin.
      apply in_app_or in Hin. destruct Hin as [Hin|[E'|[]]]; [|discriminate]. eauto.
Qed.

Lemma Ls_lkind0 s : lkind (pc (thr s 0%nat)) = 0%nat -> Ls s = bot s /\ Lc s = bot s.
Proof. intros K. unfold Ls, Lc. rewrite K. auto. Qed.
