(* C11, multi channel, no stranded sender / receiver -- part 2: what one step of
   the ghost machine does to the quantities of MChanRefBase.v. *)
From Coq Require Import List ZArith Lia Bool Arith.
From LF Require Import Conc T1K MChan MChanExclBase MChanExclSteps MChanExclNodes MChanExcl MChanRefBase.
Import ListNotations.
Local Open Scope Z_scope.

Definition coarse (c : mc) : bool :=
  match c with MNext _ _ | MLocked _ _ _ | MUnl _ _ _ | MWt5 _ _ _ => true | _ => false end.
Definition is_cs (p : ph) : bool := match p with PCs _ _ => true | _ => false end.

(* outside the critical section a stack is kernel frames over a coarse continuation *)
Lemma phase_shape p : is_cs p = false -> p <> PDone ->
  exists c, stk_of p = removelast (stk_of p) ++ [FC c] /\
            forallb kfr (removelast (stk_of p)) = true /\ coarse c = true /\
            removelast (stk_of p) <> [].
Proof.
  intros Hc Hd.
  destruct p as [pr| |a p k|f c|r p k|w a p k|kf tl|r p k|st r p k|y a p k]; try discriminate; try congruence.
  - eexists. repeat split; try reflexivity. discriminate.
  - eexists. repeat split; try reflexivity. discriminate.
  - eexists. repeat split; try reflexivity. discriminate.
  - destruct w; eexists; repeat split; try reflexivity; discriminate.
  - destruct kf, tl; eexists; repeat split; try reflexivity; discriminate.
  - eexists. repeat split; try reflexivity. discriminate.
  - eexists. repeat split; try reflexivity. discriminate.
  - destruct y; eexists; repeat split; try reflexivity; discriminate.
Qed.

Lemma stk_gstep_other x t u : u <> t -> stk (gb (gstep x t)) u = stk (gb x) u.
Proof.
  intros Hu. rewrite gstep_base. unfold step.
  destruct (kstepC _ _ _ _ _) as [[m1 e1] s1]. cbn. now apply upd_other.
Qed.

Lemma gstep_params x t :
  nthr (gb (gstep x t)) = nthr (gb x) /\ csize (gb (gstep x t)) = csize (gb x) /\
  onelist (gb (gstep x t)) = onelist (gb x).
Proof.
  rewrite gstep_base. unfold step. destruct (kstepC _ _ _ _ _) as [[m1 e1] s1]. cbn. auto.
Qed.

(* the channel ghosts move only in the critical section *)
Lemma gstep_chan_k x t p : stk (gb x) t = stk_of p -> is_cs p = false ->
  chand (gstep x t) = chand x /\ cq (gstep x t) = cq x.
Proof.
  intros Hs Hc. unfold gstep. rewrite Hs.
  destruct p as [pr| |a p k|f c|r p k|w a p k|kf tl|r p k|st r p k|y a p k]; try discriminate;
    try (split; reflexivity).
  - destruct w; split; reflexivity.
  - destruct kf; cbn; try (split; reflexivity). destruct (fstate _ _ =? _); split; reflexivity.
  - destruct y; split; reflexivity.
Qed.

(* one kernel step: the client cells are untouched, the bottom continuation stays,
   or control returned into it *)
Lemma kstep_gst x t p :
  Inv x -> stk (gb x) t = stk_of p -> is_cs p = false -> p <> PDone ->
  exists c, bot (stk (gb x) t) = Some c /\ coarse c = true /\
    cell (mem (gb (gstep x t))) = cell (mem (gb x)) /\
    (bot (stk (gb (gstep x t)) t) = Some c \/
     exists m' v', stk (gb (gstep x t)) t =
                   snd (cret (onelist (gb x)) (csize (gb x)) m' t c v') ++ []).
Proof.
  intros HI Hs Hc Hd. destruct (phase_shape p Hc Hd) as (c & E & Hk & Hco & Hne).
  exists c. rewrite Hs. split; [rewrite E; apply bot_app; exact Hk|]. split; [exact Hco|].
  destruct (removelast (stk_of p)) as [|f l] eqn:El; [congruence|].
  cbn [forallb] in Hk. apply andb_prop in Hk. destruct Hk as [Hf Hl].
  assert (Hw : slot_wait (mem (gb x)) t = None) by apply (I_slots x HI t).
  pose proof (kstep_kp (onelist (gb x)) (csize (gb x)) t (mem (gb x)) f l c Hf Hl Hw) as K.
  rewrite gstep_base. unfold step. rewrite Hs, E. cbn [app] in *.
  destruct (kstepC _ _ _ _ _) as [[m1 e1] s1]. cbn. rewrite upd_same.
  destruct K as [Kc [(l' & -> & Hl')|(m' & v' & ->)]].
  - split; [exact Kc|]. left. apply bot_app. exact Hl'.
  - split; [exact Kc|]. right. eauto.
Qed.

(* what the coarse continuations do when control returns to them *)
Lemma cret_coarse ol size m t c v ch :
  coarse c = true -> (forall a p k, c = MWt5 a p k -> ch <> CQueued) ->
  let S' := snd (cret ol size m t c v) ++ [] in
  acts S' ch = acts [FC c] ch /\ (forall k, ppb k S' = false) /\
  (forall a, ~ waits S' a) /\
  match bot S' with
  | None | Some (MLocked _ _ _) | Some (MHigh _ _ _) => True
  | _ => False
  end.
Proof.
  intros Hc Hq. destruct c; try discriminate; cbn.
  - destruct p as [|[v0|] r]; cbn; repeat split; auto; intros a (p0 & k0 & [H|H]); discriminate.
  - repeat split; auto. intros a0 (p0 & k0 & [H|H]); discriminate.
  - destruct p as [|[v0|] r0]; cbn; repeat split; auto; intros a (p0 & k0 & [H|H]); discriminate.
  - specialize (Hq a p k eq_refl). destruct ch; try congruence;
      repeat split; auto; intros a0 (p0 & k0 & [H|H]); discriminate.
Qed.

Lemma acts_coarse S c ch : bot S = Some c -> coarse c = true -> acts S ch = acts [FC c] ch.
Proof. intros H Hc. unfold acts. rewrite H. destruct c; try discriminate; reflexivity. Qed.
Lemma ppb_coarse S c k : bot S = Some c -> coarse c = true -> ppb k S = false.
Proof. intros H Hc. unfold ppb. rewrite H. destruct c; try discriminate; reflexivity. Qed.

Definition tbot (S : stack mc) : Prop :=
  match bot S with
  | None | Some (MLocked _ _ _) | Some (MHigh _ _ _) => True
  | _ => False
  end.

Lemma stk_of_LSub_inj x t p a pp k :
  L (view_of x t) p -> X x t p -> stk_of p = [LSub 0; FC (MLocked a pp k)] -> p = PLSub a pp k.
Proof.
  intros HL HX.
  destruct p as [pr| |a0 p0 k0|f c|r p0 k0|w a0 p0 k0|kf tl|r p0 k0|st r p0 k0|y a0 p0 k0];
    try destruct w; try destruct kf; try destruct tl; try destruct y; cbn; intros E; try discriminate.
  - injection E as -> -> ->. reflexivity.
  - injection E as -> ->. destruct HX.
Qed.

Lemma kstep_sum x t p :
  Inv x -> Inv (gstep x t) -> stk (gb x) t = stk_of p -> is_cs p = false -> p <> PDone ->
  let S := stk (gb x) t in
  let S' := stk (gb (gstep x t)) t in
  cell (mem (gb (gstep x t))) = cell (mem (gb x)) /\ chand (gstep x t) = chand x /\ cq (gstep x t) = cq x /\
  (forall k, weight k S' (chand x t) = weight k S (chand x t)) /\
  (exists c, bot S = Some c /\ coarse c = true) /\
  (bot S' = bot S \/
   ((forall a, waits S a -> chand x t <> CQueued) /\ (forall a, ~ waits S' a) /\ tbot S')).
Proof.
  intros HI HI' Hs Hc Hd S S'.
  destruct (gstep_chan_k x t p Hs Hc) as [Ech Ecq].
  destruct (kstep_gst x t p HI Hs Hc Hd) as (c & Hb & Hco & Ecell & Hcase).
  split; [exact Ecell|]. split; [exact Ech|]. split; [exact Ecq|].
  assert (Hw0 : forall k, weight k S (chand x t) = b2n (isk (acts [FC c] (chand x t)) k)).
  { intros k. unfold weight. rewrite (acts_coarse S c _ Hb Hco), (ppb_coarse S c k Hb Hco). cbn. lia. }
  destruct Hcase as [Hb'|(m' & v' & E')].
  - split; [|split; [eauto|left; unfold S, S'; rewrite Hb, Hb'; reflexivity]].
    intros k. rewrite Hw0. unfold weight.
    rewrite (acts_coarse S' c _ Hb' Hco), (ppb_coarse S' c k Hb' Hco). cbn. lia.
  - assert (Hq : forall a pp k, c = MWt5 a pp k -> chand x t <> CQueued).
    { intros a pp k ->. fold S' in E'. cbn in E'.
      destruct (I_thr _ HI' t) as (p' & P1 & P2 & P3). fold S' in P1. rewrite E' in P1.
      symmetry in P1. apply (stk_of_LSub_inj _ _ _ _ _ _ P2 P3) in P1. subst p'.
      destruct P2 as ((_ & _ & Hn & _) & _). cbn in Hn. rewrite Ech in Hn. destruct Hn; congruence. }
    destruct (cret_coarse (onelist (gb x)) (csize (gb x)) m' t c v' (chand x t) Hco Hq) as (A1 & A2 & A3 & A4).
    fold S' in E'. rewrite <- E' in A1, A2, A3, A4.
    split; [|split; [eauto|]].
    + intros k. rewrite Hw0. unfold weight. rewrite A1, A2. cbn. lia.
    + right. split; [|split; [exact A3|exact A4]].
      intros a (pp & kk & [Hw|Hw]); fold S in Hb; rewrite Hb in Hw; injection Hw as ->.
      * apply (Hq a pp kk eq_refl).
      * discriminate.
Qed.

(* ---------------- who can become the owner in one step ---------------- *)
Lemma cs_top x t f c : csx x t f c ->
  match f with CRead _ | CWrite _ _ | FStWrite _ _ => True | _ => False end.
Proof.
  destruct c; cbn; try contradiction; intros H;
  repeat match goal with
         | H : _ /\ _ |- _ => destruct H
         | H : exists _, _ |- _ => destruct H
         | H : _ \/ _ |- _ => destruct H
         end; subst; exact I.
Qed.

Lemma bot_stk_of_coarse p : is_cs p = false -> p <> PDone ->
  exists c, bot (stk_of p) = Some c /\ coarse c = true.
Proof.
  intros Hc Hd. destruct (phase_shape p Hc Hd) as (c & E & Hk & Hco & _).
  exists c. split; [rewrite E; apply bot_app; exact Hk|exact Hco].
Qed.

(* a fiber queued on the mutex is inside fiber_mutex_lock *)
Lemma announced_bot x u : Inv x -> role x u = Announced ->
  exists a p k, bot (stk (gb x) u) = Some (MLocked a p k).
Proof.
  intros HI Hr. destruct (I_thr x HI u) as (q & Q1 & Q2 & _). rewrite Q1.
  destruct q as [pr| |a0 p0 k0|f c|r p0 k0|w a0 p0 k0|kf tl|r p0 k0|st r p0 k0|y a0 p0 k0].
  1-5: exfalso; revert Q2; unfold L, calm, obase; cbn; intros Q2; intuition congruence.
  - destruct w; cbn; eauto.
  - exfalso. destruct (Lk_facts _ _ _ Q2) as (_ & E & _). cbn in E. congruence.
  - exfalso. destruct Q2 as (_ & E & _). cbn in E. congruence.
  - exfalso. destruct Q2 as ((_ & E & _) & _). cbn in E. congruence.
  - exfalso. destruct y; revert Q2; unfold L, Ly, ypre, ypost, kbase; cbn; intros Q2; intuition congruence.
Qed.

Lemma role_step x t u : Inv x ->
  role (gstep x t) u = Owner ->
  role x u = Owner \/ exists a p k, bot (stk (gb x) u) = Some (MLocked a p k).
Proof.
  intros HI. destruct (I_thr x HI t) as (p & Hs & HL & HX). unfold gstep. rewrite Hs.
  destruct p as [pr| |a0 p0 k0|f c|r p0 k0|w a0 p0 k0|kf tl|r p0 k0|st r p0 k0|y a0 p0 k0].
  - cbn. auto.
  - cbn. auto.
  - cbn. unfold upd. destruct (Nat.eqb_spec u t) as [->|N]; [|auto]. intros _. right. rewrite Hs. cbn. eauto.
  - pose proof (cs_top _ _ _ _ HX) as Ht. destruct f; try contradiction; cbn; auto.
    + destruct c; auto.
    + destruct c; auto.
  - cbn. unfold upd. destruct (Nat.eqb_spec u t); [discriminate|auto].
  - destruct w; cbn; auto.
  - destruct kf; cbn -[tid_of_name]; auto.
    + (* KSetHead: the popped waiter *)
      destruct HX as (Hd & Hh & Hn & Hnz). cbn in Hd, Hh, Hn, Hnz. subst h.
      pose proof (I_N x HI) as N. pose proof (I_chain x N) as Hch.
      destruct (gq x) as [|[f nx'] rest] eqn:Eq; cbn in Hch; [destruct Hch; congruence|].
      destruct Hch as [Hlk _]. assert (nx' = nx) by (destruct Hlk; congruence). subst nx'.
      assert (Hin : In (f, nx) (gq x)) by (rewrite Eq; cbn; auto).
      rewrite (I_gq_ent x N f nx Hin), tid_of_fname.
      unfold upd. destruct (Nat.eqb_spec u f) as [->|Nf]; [|auto].
      intros _. right. apply (announced_bot x f HI). apply (I_gq_role x (I_C x HI) f nx Hin).
    + destruct (fstate _ _ =? _); auto.
  - cbn. auto.
  - cbn. auto.
  - destruct y; cbn; auto. unfold upd. destruct (Nat.eqb_spec u t); [discriminate|auto].
Qed.

(* ---------------- frame lemmas for the credit invariant ---------------- *)
Lemma avail_frame x x' k :
  cell (mem (gb x')) = cell (mem (gb x)) -> csize (gb x') = csize (gb x) -> avail x' k = avail x k.
Proof. intros Ec Es. unfold avail, occ. rewrite Ec, Es. reflexivity. Qed.

Lemma tfact_frame x x' u :
  stk (gb x') u = stk (gb x) u -> cell (mem (gb x')) = cell (mem (gb x)) -> csize (gb x') = csize (gb x) ->
  (role x' u = Owner -> role x u = Owner \/ exists a p k, bot (stk (gb x) u) = Some (MLocked a p k)) ->
  tfact x u -> tfact x' u.
Proof.
  intros Es Ec Ez Hr. unfold tfact. rewrite Es, Ec.
  destruct (bot (stk (gb x) u)) as [c|] eqn:Eb; [|auto].
  destruct c; auto; rewrite ?(avail_frame x x' _ Ec Ez); auto.
  intros H Ho. destruct (Hr Ho) as [Ho'|(a0 & p0 & k0 & E)]; [auto|discriminate].
Qed.

Lemma cover_frame x x' k :
  nthr (gb x') = nthr (gb x) ->
  (forall u, (u < nthr (gb x))%nat -> wof x' k u = wof x k u) -> cover x' k = cover x k.
Proof. intros En H. unfold cover. rewrite En. apply sumn_ext. exact H. Qed.

Lemma cov_kstep x t p :
  Inv x -> Inv (gstep x t) -> Cov x -> stk (gb x) t = stk_of p -> is_cs p = false -> p <> PDone ->
  Cov (gstep x t).
Proof.
  intros HI HI' [Vol Vcov Vthr Vin Vq] Hs Hc Hd.
  destruct (kstep_sum x t p HI HI' Hs Hc Hd) as (Ec & Ech & Ecq & Hw & (c & Hb & Hco) & Hcase).
  destruct (gstep_params x t) as (En & Ez & Eo).
  assert (Hst : forall u, u <> t -> stk (gb (gstep x t)) u = stk (gb x) u) by (intros; now apply stk_gstep_other).
  assert (Hwof : forall k u, wof (gstep x t) k u = wof x k u).
  { intros k u. unfold wof. rewrite Ech. destruct (Nat.eq_dec u t) as [->|N]; [apply Hw|rewrite (Hst u N); reflexivity]. }
  constructor.
  - congruence.
  - intros k. rewrite Ecq, (avail_frame x _ k Ec Ez), (cover_frame x _ k En); [apply Vcov|].
    intros u _. apply Hwof.
  - intros u. destruct (Nat.eq_dec u t) as [->|N].
    + destruct Hcase as [Eb|(_ & _ & Htb)].
      * unfold tfact. rewrite Eb, Hb. destruct c; try discriminate; auto.
        rewrite (avail_frame x _ _ Ec Ez). intros Ho.
        destruct (role_step x t t HI Ho) as [Ho'|(a1 & p1 & k1 & E)]; [|rewrite Hb in E; discriminate].
        specialize (Vthr t). unfold tfact in Vthr. rewrite Hb in Vthr. auto.
      * unfold tfact. unfold tbot in Htb. destruct (bot (stk (gb (gstep x t)) t)) as [c'|]; [|auto].
        destruct c'; try contradiction; auto.
    + apply (tfact_frame x); auto. apply (role_step x t u HI).
  - intros k u Hin. rewrite Ecq in Hin. destruct (Vin k u Hin) as (Hu & a & Hwt & Hak).
    split; [rewrite En; exact Hu|]. exists a. split; [|exact Hak].
    destruct (Nat.eq_dec u t) as [->|N]; [|rewrite (Hst u N); exact Hwt].
    destruct Hcase as [Eb|(Hnq & _ & _)].
    * unfold waits in *. rewrite Eb. exact Hwt.
    * exfalso. apply (Hnq a Hwt). apply (Q_in x (I_Q x HI) (lcell k) t); [destruct k; unfold lhd; auto|exact Hin].
  - intros u a Hwt Hq. rewrite Ech in Hq. rewrite Ecq. apply Vq; [|exact Hq].
    destruct (Nat.eq_dec u t) as [->|N]; [|rewrite (Hst u N) in Hwt; exact Hwt].
    destruct Hcase as [Eb|(_ & Hnw & _)].
    * unfold waits in *. rewrite <- Eb. exact Hwt.
    * destruct (Hnw a Hwt).
Qed.

(* ---------------- helpers for the steps of the lock holder ---------------- *)
Lemma bot_cs_owner x u c : Inv x -> bot (stk (gb x) u) = Some c -> coarse c = false -> role x u = Owner.
Proof.
  intros HI Hb Hc. destruct (I_thr x HI u) as (q & Q1 & Q2 & _). rewrite Q1 in Hb.
  destruct (is_cs q) eqn:Eq.
  - destruct q; try discriminate. apply Q2.
  - destruct (bot_stk_of_coarse q Eq) as (c' & Hb' & Hc').
    + intros ->. discriminate.
    + congruence.
Qed.

Lemma tfact_triv x x' u :
  Inv x -> role x u <> Owner -> stk (gb x') u = stk (gb x) u -> role x' u = role x u -> tfact x' u.
Proof.
  intros HI Hr Es Er. unfold tfact. rewrite Es.
  destruct (bot (stk (gb x) u)) as [c|] eqn:Eb; [|exact I].
  destruct (coarse c) eqn:Ec.
  - destruct c; try discriminate; auto. intros Ho. congruence.
  - exfalso. apply Hr. apply (bot_cs_owner x u c HI Eb Ec).
Qed.

Lemma cover_upd1 x x' k t :
  (t < nthr (gb x))%nat -> nthr (gb x') = nthr (gb x) ->
  (forall u, u <> t -> wof x' k u = wof x k u) ->
  (cover x' k + wof x k t = cover x k + wof x' k t)%nat.
Proof.
  intros Ht En H. unfold cover. rewrite En.
  apply (sumn_upd (wof x' k) (wof x k) (nthr (gb x)) t Ht H).
Qed.

Lemma cover_upd2 x x' k t g :
  (t < nthr (gb x))%nat -> (g < nthr (gb x))%nat -> t <> g -> nthr (gb x') = nthr (gb x) ->
  (forall u, u <> t -> u <> g -> wof x' k u = wof x k u) ->
  (cover x' k + wof x k t + wof x k g = cover x k + wof x' k t + wof x' k g)%nat.
Proof.
  intros Ht Hg Ntg En H. unfold cover. rewrite En.
  set (f2 := fun u => if Nat.eqb u t then wof x' k t else wof x k u).
  pose proof (sumn_upd f2 (wof x k) (nthr (gb x)) t Ht) as A.
  pose proof (sumn_upd (wof x' k) f2 (nthr (gb x)) g Hg) as B.
  assert (F2t : f2 t = wof x' k t) by (unfold f2; rewrite Nat.eqb_refl; reflexivity).
  assert (F2g : f2 g = wof x k g).
  { unfold f2. destruct (Nat.eqb_spec g t); [congruence|reflexivity]. }
  rewrite F2t in A. rewrite F2g in B.
  assert (A' : (sumn f2 (nthr (gb x)) + wof x k t = sumn (wof x k) (nthr (gb x)) + wof x' k t)%nat).
  { apply A. intros u Hu. unfold f2. destruct (Nat.eqb_spec u t); [congruence|reflexivity]. }
  assert (B' : (sumn (wof x' k) (nthr (gb x)) + wof x k g = sumn f2 (nthr (gb x)) + wof x' k g)%nat).
  { apply B. intros u Hu. unfold f2. destruct (Nat.eqb_spec u t) as [->|N]; [reflexivity|]. apply H; assumption. }
  lia.
Qed.
