(* C17 — work queue (src/work_queue.c over include/mpsc_fifo.h): one worker at
   a time, each item handed out exactly once, EMPTY only when drained, no item
   stranded, single consumer of the MPSC fifo.
   Statements over every reachable state of coq/WorkQueue.v (one step per
   shared access): any number of threads, any push lists, any schedule.
   Protocol (include/work_queue.h), built into the thread programs of the
   model and of rt/h_wq.c: a thread whose push returns START_WORKING calls
   get_work until it returns EMPTY, then continues with its next push.
   Hypothesis wf_progs: the pushed items are distinct nodes, none NULL or the
   fifo's stub ("the work queue owns item after pushing").
   Guard: in_count/out_count do not reach 2^63 (Z in the model).
   Programs are lists of WorkQueue.op: Push item, or PushFF j item = a push after
   which the caller, if it was told START_WORKING, first adds ffamt j = 2^k - 3
   (k = 32 20 16 31 24 8 12 36 for j = 0..7; ffamt 0 = FFAMT)
   to both counters in one step (pc GFfwd; the state FFAMT rounds of "push one
   more, get one" by the fresh worker reach); all statements cover programs
   with any placement of such pushes, so counters far beyond 2^32 included.

   Ghost logs of the instrumented machine (WorkQueueProofs.ist; erasure lemma
   lstep_erase): alog = items in the order of the add_and_fetch on in_count,
   plog = items in the order of the exchanges on fifo.tail, hlog = values
   returned by get_work with MORE_WORK in order, pend = announced, not yet
   exchanged. *)
From Coq Require Import List ZArith Lia.
From LF Require Import Conc WorkQueue WorkQueueProofs.
Import ListNotations.

(* flag T = true: T's add_and_fetch saw in_count become 1 and T has not been
   told EMPTY since.  in_get: between receiving START_WORKING and receiving
   EMPTY (inside or between its get_work calls).  At most one thread is in
   either condition, and the second implies the first. *)
Theorem wq_one_worker : forall progs s t u,
  wf_progs progs -> reachable M (init progs) s ->
  (flag (thr s t) = true -> flag (thr s u) = true -> t = u) /\
  (in_get (pc (thr s t)) = true -> in_get (pc (thr s u)) = true -> t = u) /\
  (in_get (pc (thr s t)) = true -> flag (thr s t) = true).
Proof.
  intros progs s t u WF R. destruct (reachable_linv progs s WF R) as (x & _ & I & <-).
  exact (one_worker_of_inv _ _ _ _ _ _ t u I).
Qed.
Print Assumptions wq_one_worker.

(* the values handed out by get_work, in order, are a prefix of the items in
   the order of the mpsc tail exchanges, and those are pairwise distinct: no
   item is handed out twice and none that was not pushed *)
Theorem wq_each_item_once : forall progs x,
  wf_progs progs -> ireach progs x ->
  (exists rest, plog x = hlog x ++ rest) /\ NoDup (plog x) /\ NoDup (hlog x).
Proof.
  intros progs x WF R. exact (each_once_of_inv _ _ _ _ _ _ (ireach_linv progs x WF R)).
Qed.
Print Assumptions wq_each_item_once.

(* the sub_and_fetch of get_work is about to produce 0 (get_work returns
   EMPTY): every item whose push has executed its add_and_fetch has been
   handed out; in fact everything pushed has been handed out and no push is
   between its add_and_fetch and its exchange *)
Theorem wq_empty_means_drained : forall progs x t,
  wf_progs progs -> ireach progs x ->
  pc (thr (base x) t) = GSub -> (inc (base x) - oc (thr (base x) t) = 0)%Z ->
  (forall a, In a (alog x) -> In a (hlog x)) /\ hlog x = plog x /\ pend x = [].
Proof.
  intros progs x t WF R. exact (empty_drained_of_inv _ _ _ _ _ _ t (ireach_linv progs x WF R)).
Qed.
Print Assumptions wq_empty_means_drained.

(* an announced item that has not been handed out (or simply in_count > 0)
   implies a designated worker: a thread inside its START..EMPTY window, or
   the push (between its add_and_fetch and its return) that will return
   START_WORKING *)
Theorem wq_no_stranded_item : forall progs x,
  wf_progs progs -> ireach progs x ->
  ((exists a, In a (alog x) /\ ~ In a (hlog x)) \/ (0 < inc (base x))%Z) ->
  exists t, designated (thr (base x) t).
Proof.
  intros progs x WF R. exact (no_stranded_of_inv _ _ _ _ _ _ (ireach_linv progs x WF R)).
Qed.
Print Assumptions wq_no_stranded_item.

(* the discipline mpsc_fifo_trypop needs: a thread at one of the trypop
   accesses is the designated worker, no other thread is inside trypop, and
   the head it read is still the fifo's head when it dereferences / replaces it *)
Theorem wq_mpsc_single_consumer : forall progs s t,
  wf_progs progs -> reachable M (init progs) s ->
  in_trypop (pc (thr s t)) = true ->
  designated (thr s t) /\
  (forall u, in_trypop (pc (thr s u)) = true -> u = t) /\
  (pc (thr s t) = GNext \/ pc (thr s t) = GSetH -> ph (thr s t) = head s).
Proof.
  intros progs s t WF R. destruct (reachable_linv progs s WF R) as (x & _ & I & <-).
  exact (single_consumer_of_inv _ _ _ _ _ _ t I).
Qed.
Print Assumptions wq_mpsc_single_consumer.

(* ---- non-vacuity: the hypotheses are met by concrete reachable states ---- *)
Definition ex_progs := [[Push 2; Push 4]; [Push 3]].
Definition ex_state sch := fst (run_sched M (init ex_progs) sch).
Definition ex_ist sch := irun (iinit ex_progs) sch.

Example ex_wf : wf_progs ex_progs.
Proof.
  apply wf_of_nodup_concat; cbn.
  - repeat constructor; cbn; intuition discriminate.
  - intros a H. intuition lia.
Qed.

(* ---- fast-forward: counters beyond 2^32 ---- *)
Definition ff_progs := [[PushFF 0 2]; [Push 3; Push 4; Push 5]; [PushFF 0 6]].

Example ff_wf : wf_progs ff_progs.
Proof.
  apply wf_of_nodup_concat; cbn.
  - repeat constructor; cbn; intuition discriminate.
  - intros a H. intuition lia.
Qed.

(* thread 0's marked push is told START_WORKING (event 0 1 909 1), the
   fast-forward happens (event 0 2 919 FFAMT), the worker reads the head;
   then thread 1 pushes three items and thread 2 one (marked, but QUEUED: no
   fast-forward).  Thread 1's third add_and_fetch sees 2^32 and makes
   in_count = 2^32 + 1 (event 1 2 55 4294967296); that push is told QUEUED
   (event 1 3 909 0), thread 0 is still the only designated worker, and
   in_count - out_count = 5 items announced, none handed out yet. *)
Example ex_ffwd_reachable :
  let r := run_sched M (init ff_progs) [0;0;0;0; 0; 0; 1;1;1;1; 1;1;1;1; 1;1;1;1; 2;2;2;2] in
  let s := fst r in
  reachable M (init ff_progs) s /\
  inc s = (2 ^ 32 + 2)%Z /\ outc s = FFAMT /\ (inc s - outc s = 5)%Z /\
  flag (thr s 0) = true /\ pc (thr s 0) = GNext /\
  flag (thr s 1) = false /\ pc (thr s 1) = Fin /\ flag (thr s 2) = false /\ pc (thr s 2) = Fin /\
  snd r = [0;2;55;0; 0;103;19;0; 0;1;43;1; 0;101;19;2; 0;1;909;1;
           0;2;919;4294967293; 0;0;9;1;
           1;2;55;4294967294; 1;105;19;0; 1;1;43;2; 1;103;19;3; 1;1;909;0;
           1;2;55;4294967295; 1;107;19;0; 1;1;43;3; 1;105;19;4; 1;2;909;0;
           1;2;55;4294967296; 1;109;19;0; 1;1;43;4; 1;107;19;5; 1;3;909;0;
           2;2;55;4294967297; 2;111;19;0; 2;1;43;5; 2;109;19;6; 2;1;909;0]%Z.
Proof. split; [apply run_sched_reachable; constructor | vm_compute; repeat split; reflexivity]. Qed.

(* table entry 1 (2^20 - 3), no backlog: the worker hands out its own item,
   then thread 1 pushes and the worker takes, twice ("push, get, push, get");
   the third get_work makes out_count = in_count = 2^20 exactly, with the
   worker between two get_work calls; the push that comes now reads 2^20 and
   is told QUEUED (event 1 3 909 0): thread 0 is still the only worker *)
Definition ff20_progs := [[PushFF 1 2]; [Push 3; Push 4; Push 5]].
Example ff20_wf : wf_progs ff20_progs.
Proof.
  apply wf_of_nodup_concat; cbn.
  - repeat constructor; cbn; intuition discriminate.
  - intros a H. intuition lia.
Qed.
Example ex_ffwd20_exact :
  let r1 := run_sched M (init ff20_progs)
              (repeat 0 12 ++ repeat 1 4 ++ repeat 0 7 ++ repeat 1 4 ++ repeat 0 7) in
  let r2 := run_sched M (fst r1) (repeat 1 4) in
  reachable M (init ff20_progs) (fst r2) /\
  inc (fst r1) = (2 ^ 20)%Z /\ outc (fst r1) = (2 ^ 20)%Z /\ pc (thr (fst r1) 0) = GHead /\
  inc (fst r2) = (2 ^ 20 + 1)%Z /\ flag (thr (fst r2) 0) = true /\ flag (thr (fst r2) 1) = false /\
  snd r2 = [1;2;55;1048576; 1;109;19;0; 1;1;43;4; 1;107;19;5; 1;3;909;0]%Z.
Proof.
  split; [apply run_sched_reachable; apply run_sched_reachable; constructor
         | vm_compute; repeat split; reflexivity].
Qed.

(* ... and the whole 2^32 run completes: all five items handed out exactly once,
   in exchange order, the worker told EMPTY with both counters rebased to 0 *)
Example ex_ffwd_drains :
  let x := irun (iinit ff_progs)
             ([0;0;0;0; 0; 0; 1;1;1;1; 1;1;1;1; 1;1;1;1; 2;2;2;2] ++ repeat 0 60) in
  ireach ff_progs x /\ alog x = [2;3;4;5;6] /\ hlog x = [2;3;4;5;6] /\ wk x = None /\
  inc (base x) = 0%Z /\ outc (base x) = 0%Z /\ pc (thr (base x) 0) = Fin.
Proof. split; [apply ireach_irun; constructor | vm_compute; repeat split; reflexivity]. Qed.

(* thread 0 has pushed item 2, was told START_WORKING and is inside get_work,
   while thread 1 is in the middle of its push *)
Example ex_worker_reachable :
  let s := ex_state [0;0;0;0;1;1;0] in
  reachable M (init ex_progs) s /\ in_get (pc (thr s 0)) = true /\ pc (thr s 1) = PXchg.
Proof. split; [apply run_sched_reachable; constructor | vm_compute; auto]. Qed.

Example ex_history_nonempty :
  let x := ex_ist [0;0;0;0; 1;1;1;1; 0;0;0;0;0;0;0] in
  ireach ex_progs x /\ alog x = [2; 3] /\ plog x = [2; 3] /\ hlog x = [2].
Proof. split; [apply ireach_irun; constructor | vm_compute; auto]. Qed.

Example ex_history_all :
  let x := ex_ist [0;0;0;0; 1;1;1;1; 0;0;0;0;0;0;0; 0;0;0;0;0;0;0] in
  ireach ex_progs x /\ plog x = [2; 3] /\ hlog x = [2; 3].
Proof. split; [apply ireach_irun; constructor | vm_compute; auto]. Qed.

(* the worker at its sub_and_fetch, about to be told EMPTY, with a non-empty history *)
Example ex_empty_reachable :
  let x := ex_ist [0;0;0;0; 0;0;0;0;0;0;0; 0;0;0;0;0;0] in
  ireach ex_progs x /\ pc (thr (base x) 0) = GSub /\
  (inc (base x) - oc (thr (base x) 0) = 0)%Z /\ alog x = [2] /\ hlog x = [2].
Proof. split; [apply ireach_irun; constructor | vm_compute; auto]. Qed.

(* the race the sub_and_fetch exists for: thread 1 announces item 3 after the
   worker compared the counters; the worker's sub_and_fetch then sees 1, not 0,
   and item 3 is announced but not handed out: the hypothesis of
   wq_empty_means_drained discriminates *)
Example ex_late_announce_reachable :
  let x := ex_ist [0;0;0;0; 0;0;0;0;0;0;0; 0;0;0;0; 1; 0;0] in
  ireach ex_progs x /\ pc (thr (base x) 0) = GSub /\
  (inc (base x) - oc (thr (base x) 0) = 1)%Z /\ alog x = [2; 3] /\ hlog x = [2].
Proof. split; [apply ireach_irun; constructor | vm_compute; auto]. Qed.

(* an announced item not yet handed out, with in_count > 0 *)
Example ex_outstanding_reachable :
  let x := ex_ist [0; 1] in
  ireach ex_progs x /\ In 3 (alog x) /\ ~ In 3 (hlog x) /\ (0 < inc (base x))%Z.
Proof.
  split; [apply ireach_irun; constructor | vm_compute].
  split; [auto|]. split; [tauto|reflexivity].
Qed.

(* a thread about to replace the fifo's head *)
Example ex_trypop_reachable :
  let s := ex_state [0;0;0;0;0;0] in
  reachable M (init ex_progs) s /\ pc (thr s 0) = GSetH /\ in_trypop (pc (thr s 0)) = true.
Proof. split; [apply run_sched_reachable; constructor | vm_compute; auto]. Qed.
