(* Proofs about the relaxed MPSC queue model (coq/Mpscr.v): an inductive
   invariant over every reachable state of the machine instrumented with
   ghost history, for any number of queues np >= 1, any number of threads,
   any programs obeying the usage discipline [wf] (single consumer = thread 0;
   each queue has at most one pushing thread; producer numbers < np; every
   node is pushed by at most one OPush and is not a stub), any schedule.
   The per-queue part has the structure of SpscProofs.v, indexed by the
   queue; the round-robin counter is reasoned about separately. *)
From Coq Require Import List ZArith Lia Bool Arith.
From LF Require Import Conc Mpscr.
Import ListNotations.

(* ------------------------------------------------------------------ *)
(* Instrumented machine.  Ghosts, per queue q: nodeat q 0 is the initial stub,
   nodeat q i (i >= 1) the node installed by the i-th store to tail[q] and
   valat q i the data value of that push; hi q = number of tail stores,
   lo q = number of head advances, nret q = number of pops from q that have
   returned.  c0 = value of the counter when the consumer's current trypop
   call read it first; visits = the queues in which the current trypop call
   has read a NULL next pointer so far.  plog = (thread, queue, value) in
   tail-store order; qlog = (queue, value the consumer read from the returned
   node) in return order. *)
Record ist := { base : st; nodeat : nat -> nat -> nat; valat : nat -> nat -> nat;
                hi : nat -> nat; lo : nat -> nat; nret : nat -> nat;
                c0 : nat; visits : list nat;
                plog : list (nat * nat * nat); qlog : list (nat * nat) }.

Definition upd2 (f : nat -> nat -> nat) (q i v : nat) : nat -> nat -> nat :=
  upd f q (upd (f q) i v).

Definition lstep (x : ist) (t : nat) : ist :=
  let s := base x in
  let T := thr s t in
  let s' := fst (step s t) in
  let q := qi T in
  match pc T with
  | PStoreTail => {| base := s'; nodeat := upd2 (nodeat x) q (S (hi x q)) (node T);
                     valat := upd2 (valat x) q (S (hi x q)) (arg T);
                     hi := upd (hi x) q (S (hi x q)); lo := lo x; nret := nret x;
                     c0 := c0 x; visits := visits x;
                     plog := plog x ++ [(t, q, arg T)]; qlog := qlog x |}
  | QSetHead => {| base := s'; nodeat := nodeat x; valat := valat x;
                   hi := hi x; lo := upd (lo x) q (S (lo x q)); nret := nret x;
                   c0 := c0 x; visits := visits x;
                   plog := plog x; qlog := qlog x |}
  | QUse => {| base := s'; nodeat := nodeat x; valat := valat x;
               hi := hi x; lo := lo x; nret := upd (nret x) q (S (nret x q));
               c0 := c0 x; visits := visits x;
               plog := plog x; qlog := qlog x ++ [(q, dat s (hd T))] |}
  | CRead1 => match it T with
              | O => {| base := s'; nodeat := nodeat x; valat := valat x;
                        hi := hi x; lo := lo x; nret := nret x;
                        c0 := counter s; visits := [];
                        plog := plog x; qlog := qlog x |}
              | S _ => {| base := s'; nodeat := nodeat x; valat := valat x;
                          hi := hi x; lo := lo x; nret := nret x;
                          c0 := c0 x; visits := visits x;
                          plog := plog x; qlog := qlog x |}
              end
  | QNext => match nxt s (hd T) with
             | O => {| base := s'; nodeat := nodeat x; valat := valat x;
                       hi := hi x; lo := lo x; nret := nret x;
                       c0 := c0 x; visits := visits x ++ [q];
                       plog := plog x; qlog := qlog x |}
             | S _ => {| base := s'; nodeat := nodeat x; valat := valat x;
                         hi := hi x; lo := lo x; nret := nret x;
                         c0 := c0 x; visits := visits x;
                         plog := plog x; qlog := qlog x |}
             end
  | _ => {| base := s'; nodeat := nodeat x; valat := valat x;
            hi := hi x; lo := lo x; nret := nret x;
            c0 := c0 x; visits := visits x;
            plog := plog x; qlog := qlog x |}
  end.

Lemma lstep_erase x t : base (lstep x t) = fst (step (base x) t).
Proof.
  unfold lstep. destruct (pc (thr (base x) t)); try reflexivity.
  - destruct (it (thr (base x) t)); reflexivity.
  - destruct (nxt (base x) (hd (thr (base x) t))); reflexivity.
Qed.

Definition iinit (npr : nat) (progs : list (list op)) : ist :=
  {| base := init npr progs; nodeat := fun q _ => S q; valat := fun _ _ => 0;
     hi := fun _ => 0; lo := fun _ => 0; nret := fun _ => 0; c0 := 0; visits := [];
     plog := []; qlog := [] |}.

Inductive ireach (npr : nat) (progs : list (list op)) : ist -> Prop :=
| ir_init : ireach npr progs (iinit npr progs)
| ir_step x t : ireach npr progs x -> ireach npr progs (lstep x t).

Definition irun (x : ist) (sch : list nat) : ist := fold_left lstep sch x.
Lemma ireach_irun npr progs sch : forall x, ireach npr progs x -> ireach npr progs (irun x sch).
Proof. induction sch as [|t r IH]; intros x R; cbn; auto. apply IH. constructor. exact R. Qed.

Lemma reachable_ireach npr progs s :
  reachable M (init npr progs) s -> exists x, ireach npr progs x /\ base x = s.
Proof.
  induction 1 as [|s t R [x [Rx E]] St].
  - exists (iinit npr progs). split; [constructor|reflexivity].
  - exists (lstep x t). split; [constructor; exact Rx|].
    rewrite lstep_erase, E. reflexivity.
Qed.

(* ------------------------------------------------------------------ *)
(* usage discipline *)
Fixpoint pushed (p : list op) : list nat :=
  match p with
  | [] => []
  | OPush _ n _ :: r => n :: pushed r
  | _ :: r => pushed r
  end.

(* queues (as the C code computes the index) a program still pushes to *)
Fixpoint pushqs (npr : nat) (p : list op) : list nat :=
  match p with
  | [] => []
  | OPush q _ _ :: r => (q mod npr) :: pushqs npr r
  | ORecyc q _ :: r => (q mod npr) :: pushqs npr r
  | OPop :: r => pushqs npr r
  end.

Fixpoint pushonly (p : list op) : Prop :=
  match p with
  | [] => True
  | OPush _ _ _ :: r => pushonly r
  | ORecyc _ _ :: r => pushonly r
  | OPop :: _ => False
  end.

Record wf (npr : nat) (progs : list (list op)) : Prop := {
  wf_np : 0 < npr;
  wf_cons : forall t, t <> 0 -> pushonly (nth t progs []);       (* only thread 0 pops *)
  wf_prod : forall t u q, In q (pushqs npr (nth t progs [])) -> In q (pushqs npr (nth u progs [])) -> t = u;
                                                                 (* one pushing thread per queue *)
  wf_nodup : forall t, NoDup (pushed (nth t progs []));          (* a node is pushed once *)
  wf_disj : forall t u n, In n (pushed (nth t progs [])) -> In n (pushed (nth u progs [])) -> t = u;
  wf_node : forall t n, In n (pushed (nth t progs [])) -> npr < n   (* not NULL, not a stub *)
}.

(* ------------------------------------------------------------------ *)
Definition pushing (p : pcT) : bool :=
  match p with PData | PNull | PLoadTail | PStoreTail => true | _ => false end.
Definition popping (p : pcT) : bool := match p with QRead | QWrite | QUse => true | _ => false end.
Definition pcl (T : tst) : list nat :=
  if pushing (pc T) then [node T] else if popping (pc T) then [hd T] else [].
Definition own_list (T : tst) : list nat := pcl T ++ pushed (prog T).

(* thread T is (or will be) the producer of queue q *)
Definition claiming (p : pcT) : bool := match p with PTake => true | _ => pushing p end.
Definition uses (npr : nat) (T : tst) (q : nat) : Prop :=
  (claiming (pc T) = true /\ qi T = q) \/ In q (pushqs npr (prog T)).

Definition producer_pc (p : pcT) : Prop :=
  match p with PTake | PData | PNull | PLoadTail | PStoreTail | PLink | Fin => True | _ => False end.

Definition linkingN (s : st) (n : nat) : Prop :=
  exists t, pc (thr s t) = PLink /\ prev (thr s t) = n.

(* queues visited by the first k iterations of a trypop that began at counter c *)
Definition vis (c npr k : nat) : list nat := map (fun j => (c + j) mod npr) (seq 0 k).
Global Arguments vis : simpl never.

Definition cnt_ok (x : ist) (T : tst) (done : nat) : Prop :=
  counter (base x) = c0 x + it T + done /\ qi T = (c0 x + it T) mod np (base x) /\
  visits x = vis (c0 x) (np (base x)) (it T) /\ it T < np (base x).

Definition local_ok (x : ist) (T : tst) : Prop :=
  let s := base x in
  let q := qi T in
  match pc T with
  | PNull => dat s (node T) = arg T
  | PLoadTail => dat s (node T) = arg T /\ nxt s (node T) = 0
  | PStoreTail => dat s (node T) = arg T /\ nxt s (node T) = 0 /\ prev T = tails s q
  | PLink => exists i, lo x q <= i < hi x q /\ prev T = nodeat x q i /\ node T = nodeat x q (S i) /\
                       arg T = valat x q (S i)
  | CRead1 => it T < np s /\
              (it T <> 0 -> counter s = c0 x + it T /\ visits x = vis (c0 x) (np s) (it T))
  | CRead2 => cnt_ok x T 0
  | CWrite => cnt_ok x T 0 /\ cv T = counter s
  | QHead => cnt_ok x T 1
  | QNext => cnt_ok x T 1 /\ hd T = nodeat x q (lo x q)
  | QSetHead => hd T = nodeat x q (lo x q) /\ hn T = nodeat x q (S (lo x q)) /\ lo x q < hi x q /\
                ~ linkingN s (nodeat x q (lo x q))
  | QRead => hn T = nodeat x q (lo x q) /\ dat s (hn T) = valat x q (lo x q)
  | QWrite => rdv T = valat x q (lo x q)
  | QUse => dat s (hd T) = valat x q (lo x q)
  | _ => True
  end.

(* values of queue q in a log *)
Definition ptag (q : nat) (l : list (nat * nat * nat)) : list nat :=
  map snd (filter (fun e => Nat.eqb (snd (fst e)) q) l).
Definition qtag (q : nat) (l : list (nat * nat)) : list nat :=
  map snd (filter (fun e => Nat.eqb (fst e) q) l).

Definition ret_ok (T0 : tst) (nr l : nat -> nat) (q : nat) : Prop :=
  if popping (pc T0) && (qi T0 =? q) then nr q + 1 = l q else nr q = l q.

Record GInv (x : ist) : Prop := {
  g_np : 0 < np (base x);
  g_ord : forall q, q < np (base x) -> lo x q <= hi x q;
  g_head : forall q, q < np (base x) -> heads (base x) q = nodeat x q (lo x q);
  g_tail : forall q, q < np (base x) -> tails (base x) q = nodeat x q (hi x q);
  g_inj : forall q q' i j, q < np (base x) -> q' < np (base x) ->
            lo x q <= i <= hi x q -> lo x q' <= j <= hi x q' ->
            nodeat x q i = nodeat x q' j -> q = q' /\ i = j;
  g_nz : forall q i, q < np (base x) -> lo x q <= i <= hi x q -> nodeat x q i <> 0;
  g_nxt0 : nxt (base x) 0 = 0;
  g_link : forall q i, q < np (base x) -> lo x q <= i < hi x q ->
             (linkingN (base x) (nodeat x q i) /\ nxt (base x) (nodeat x q i) = 0) \/
             (~ linkingN (base x) (nodeat x q i) /\ nxt (base x) (nodeat x q i) = nodeat x q (S i));
  g_last : forall q, q < np (base x) -> nxt (base x) (nodeat x q (hi x q)) = 0;
  g_dat : forall q i, q < np (base x) -> lo x q < i <= hi x q -> dat (base x) (nodeat x q i) = valat x q i;
  g_loc : forall t, local_ok x (thr (base x) t);
  g_luni : forall t u, pc (thr (base x) t) = PLink -> pc (thr (base x) u) = PLink ->
                       prev (thr (base x) t) = prev (thr (base x) u) -> t = u;
  g_cons : forall t, t <> 0 -> producer_pc (pc (thr (base x) t)) /\ pushonly (prog (thr (base x) t));
  g_prod : forall t u q, uses (np (base x)) (thr (base x) t) q -> uses (np (base x)) (thr (base x) u) q -> t = u;
  g_qi : forall t, qi (thr (base x) t) < np (base x);
  g_ret : forall q, q < np (base x) -> ret_ok (thr (base x) 0) (nret x) (lo x) q;
  g_own_nd : forall t, NoDup (own_list (thr (base x) t));
  g_own_dj : forall t u n, In n (own_list (thr (base x) t)) -> In n (own_list (thr (base x) u)) -> t = u;
  g_own_nq : forall t n, In n (own_list (thr (base x) t)) ->
                         n <> 0 /\ forall q i, q < np (base x) -> lo x q <= i <= hi x q -> nodeat x q i <> n;
  g_fr_nd : NoDup (freed (base x));
  g_fr_nq : forall n, In n (freed (base x)) ->
                      n <> 0 /\ forall q i, q < np (base x) -> lo x q <= i <= hi x q -> nodeat x q i <> n;
  g_fr_dj : forall t n, In n (own_list (thr (base x) t)) -> ~ In n (freed (base x));
  g_plog : forall q, q < np (base x) -> ptag q (plog x) = map (valat x q) (seq 1 (hi x q));
  g_qlog : forall q, q < np (base x) -> qtag q (qlog x) = map (valat x q) (seq 1 (nret x q))
}.

Ltac thr_cases u t :=
  destruct (Nat.eq_dec u t) as [->|?];
  [ rewrite ?upd_same in * | rewrite ?(upd_other _ t _ u) in * by assumption ].

(* ---------- small facts ---------- *)
Lemma own_next_op' npr T : own_list (next_op npr T) = pushed (prog T).
Proof.
  unfold own_list, next_op, pcl.
  destruct (prog T) as [|[q n v| |q v] r]; cbn [pc prog pushing popping pushed node hd app]; reflexivity.
Qed.

Lemma own_next_op npr T : pcl T = [] -> own_list (next_op npr T) = own_list T.
Proof. intros E. rewrite own_next_op'. unfold own_list. rewrite E. reflexivity. Qed.

Lemma next_op_pc npr T :
  pc (next_op npr T) = PData \/ (pc (next_op npr T) = CRead1 /\ it (next_op npr T) = 0) \/ pc (next_op npr T) = Fin \/
  pc (next_op npr T) = PTake.
Proof.
  unfold next_op. destruct (prog T) as [|[q n v| |q v] r]; cbn; auto.
Qed.

Lemma next_op_ok x T : 0 < np (base x) -> local_ok x (next_op (np (base x)) T).
Proof.
  intros Hnp. unfold local_ok. destruct (next_op_pc (np (base x)) T) as [E|[[E E2]|[E|E]]]; rewrite E; try exact I.
  rewrite E2. split; [exact Hnp|]. intros H; contradiction.
Qed.

Lemma next_op_cons npr T :
  pushonly (prog T) -> producer_pc (pc (next_op npr T)) /\ pushonly (prog (next_op npr T)).
Proof.
  unfold next_op. destruct (prog T) as [|[q n v| |q v] r]; cbn; tauto.
Qed.

Lemma next_op_not_plink npr T : pc (next_op npr T) <> PLink.
Proof. destruct (next_op_pc npr T) as [E|[[E _]|[E|E]]]; rewrite E; discriminate. Qed.

Lemma next_op_popping npr T : popping (pc (next_op npr T)) = false.
Proof. destruct (next_op_pc npr T) as [E|[[E _]|[E|E]]]; rewrite E; reflexivity. Qed.

Lemma next_op_uses npr T q : uses npr (next_op npr T) q -> In q (pushqs npr (prog T)).
Proof.
  unfold uses, next_op. destruct (prog T) as [|[q' n v| |q' v] r]; cbn [pc prog claiming pushing qi pushqs].
  - intros [[H _]|H]; [discriminate|exact H].
  - intros [[_ H]|H]; [left; exact H|right; exact H].
  - intros [[H _]|H]; [discriminate|exact H].
  - intros [[_ H]|H]; [left; exact H|right; exact H].
Qed.

Lemma next_op_qi npr T : 0 < npr -> qi T < npr -> qi (next_op npr T) < npr.
Proof.
  intros Hn Hq. unfold next_op. destruct (prog T) as [|[q' n v| |q' v] r]; cbn [qi]; auto;
    apply Nat.mod_upper_bound; lia.
Qed.

Lemma linkingN_upd s s' t T' n :
  thr s' = upd (thr s) t T' ->
  (linkingN s' n <->
   (exists u, u <> t /\ pc (thr s u) = PLink /\ prev (thr s u) = n) \/ (pc T' = PLink /\ prev T' = n)).
Proof.
  intros E. unfold linkingN. rewrite E. split.
  - intros [u [Hp Hh]]. destruct (Nat.eq_dec u t) as [->|Hne].
    + rewrite upd_same in *. right; auto.
    + rewrite upd_other in * by assumption. left; exists u; auto.
  - intros [[u [Hne [Hp Hh]]]|[Hp Hh]].
    + exists u. rewrite upd_other by assumption; auto.
    + exists t. rewrite upd_same; auto.
Qed.

Lemma linkingN_local s s' t T' n :
  thr s' = upd (thr s) t T' -> pc (thr s t) <> PLink -> pc T' <> PLink ->
  (linkingN s' n <-> linkingN s n).
Proof.
  intros E A B. rewrite (linkingN_upd s s' t T' n E). split.
  - intros [[u [_ H]]|[H _]]; [exists u; exact H|contradiction].
  - intros [u [Hp Hh]]. left. exists u. repeat split; auto. intros ->. contradiction.
Qed.

Lemma seq_snoc a n : seq a (S n) = seq a n ++ [a + n].
Proof. rewrite <- Nat.add_1_r, seq_app. reflexivity. Qed.

Lemma map_seq_upd_ge (f : nat -> nat) a n j v : a + n <= j -> map (upd f j v) (seq a n) = map f (seq a n).
Proof.
  intros H. apply map_ext_in. intros i Hi. apply in_seq in Hi. apply upd_other. lia.
Qed.

Lemma upd2_same f q i v j : upd2 f q i v q j = upd (f q) i v j.
Proof. unfold upd2. rewrite upd_same. reflexivity. Qed.
Lemma upd2_other f q i v q' : q' <> q -> upd2 f q i v q' = f q'.
Proof. intros H. unfold upd2. apply upd_other. exact H. Qed.

Lemma ptag_snoc_same q l t v : ptag q (l ++ [(t, q, v)]) = ptag q l ++ [v].
Proof. unfold ptag. rewrite filter_app, map_app. cbn. rewrite Nat.eqb_refl. reflexivity. Qed.
Lemma ptag_snoc_other q l t q' v : q' <> q -> ptag q (l ++ [(t, q', v)]) = ptag q l.
Proof.
  intros Ne. unfold ptag. rewrite filter_app, map_app. cbn.
  destruct (Nat.eqb_spec q' q); [contradiction|]. cbn. apply app_nil_r.
Qed.
Lemma qtag_snoc_same q l v : qtag q (l ++ [(q, v)]) = qtag q l ++ [v].
Proof. unfold qtag. rewrite filter_app, map_app. cbn. rewrite Nat.eqb_refl. reflexivity. Qed.
Lemma qtag_snoc_other q l q' v : q' <> q -> qtag q (l ++ [(q', v)]) = qtag q l.
Proof.
  intros Ne. unfold qtag. rewrite filter_app, map_app. cbn.
  destruct (Nat.eqb_spec q' q); [contradiction|]. cbn. apply app_nil_r.
Qed.

Lemma in_own_pushing T : pushing (pc T) = true -> In (node T) (own_list T).
Proof. intros H. unfold own_list, pcl. rewrite H. left; reflexivity. Qed.

Lemma in_own_popping T : popping (pc T) = true -> In (hd T) (own_list T).
Proof.
  intros H. unfold own_list, pcl. rewrite H.
  destruct (pushing (pc T)) eqn:P; [destruct (pc T); discriminate|].
  left; reflexivity.
Qed.

Lemma pushed_pushqs_nil npr p : pushqs npr p = [] -> pushed p = [].
Proof. induction p as [|[q n v| |q v] r IH]; cbn; auto; discriminate. Qed.

Lemma init_inv npr progs : wf npr progs -> GInv (iinit npr progs).
Proof.
  intros [Wnp Wc Wp Wn Wd Wz].
  assert (Own : forall t, own_list (thr (base (iinit npr progs)) t) = pushed (nth t progs [])).
  { intros t. cbn. unfold idle_thread. rewrite own_next_op'. reflexivity. }
  constructor; cbn [base iinit nodeat valat hi lo nret plog qlog c0 visits init np heads tails nxt dat counter];
    auto; try lia.
  - intros t. cbn [thr]. unfold idle_thread.
    apply (next_op_ok (iinit npr progs)). exact Wnp.
  - intros t u Hp. exfalso. cbn in Hp. exact (next_op_not_plink _ _ Hp).
  - intros t Ht. cbn. apply next_op_cons. cbn. apply Wc; exact Ht.
  - intros t u q H1 H2. cbn [thr] in *. unfold idle_thread in *.
    apply next_op_uses in H1. apply next_op_uses in H2. cbn in H1, H2. apply (Wp t u q); auto.
  - intros t. cbn [thr]. unfold idle_thread. apply next_op_qi; cbn; auto.
  - intros q Hq. unfold ret_ok. cbn [thr init]. unfold idle_thread. rewrite next_op_popping. reflexivity.
  - intros t. rewrite Own. apply Wn.
  - intros t u n. rewrite !Own. apply Wd.
  - intros t n. rewrite Own. intros H. specialize (Wz t n H). split; [lia|].
    intros q i Hq Hi. lia.
  - cbn. constructor.
Qed.

(* ------------------------------------------------------------------ *)
(* Steps that change only thread t's private state, memory cells of nodes
   that t owns and (consumer only) the counter; the per-queue ghost
   sequences are unchanged. *)
Lemma frame_stepF x t T' cnt' nxt' dat' fr' nret' c0' vis' qlog' :
  GInv x ->
  let s := base x in
  let s' := {| counter := cnt'; np := np s; heads := heads s; tails := tails s; nxt := nxt'; dat := dat';
               freed := fr'; thr := upd (thr s) t T'; nthr := nthr s |} in
  let x' := {| base := s'; nodeat := nodeat x; valat := valat x; hi := hi x; lo := lo x; nret := nret';
               c0 := c0'; visits := vis'; plog := plog x; qlog := qlog' |} in
  (forall m, nxt' m <> nxt s m -> In m (own_list (thr s t))) ->
  (forall m, dat' m <> dat s m -> In m (own_list (thr s t))) ->
  pc (thr s t) <> PLink -> pc T' <> PLink ->
  NoDup (own_list T') -> NoDup fr' ->
  (forall n, In n (own_list T') \/ In n fr' -> In n (own_list (thr s t)) \/ In n (freed s)) ->
  (forall n, In n (own_list T') -> ~ In n fr') ->
  (t <> 0 -> producer_pc (pc T') /\ pushonly (prog T')) ->
  (forall q, uses (np s) T' q -> uses (np s) (thr s t) q) ->
  qi T' < np s ->
  (forall q, q < np s -> ret_ok (upd (thr s) t T' 0) nret' (lo x) q) ->
  (forall q, q < np s -> qtag q qlog' = map (valat x q) (seq 1 (nret' q))) ->
  ((cnt' = counter s /\ c0' = c0 x /\ vis' = visits x) \/ t = 0) ->
  local_ok x' T' ->
  GInv x'.
Proof.
  intros G s s' x' Hn Hd A B Nd NdF Pool Dj Cons Us Qi Ret Ql Cnt Loc.
  destruct G as [Gnp Go Gh Gt Gi Gz G0 Gl Gla Gd Gloc Gu Gc Gpr Gqi Gr Ond Odj Onq Fnd Fnq Fdj Gp Gq].
  fold s in Gnp, Go, Gh, Gt, Gi, Gz, G0, Gl, Gla, Gd, Gloc, Gu, Gc, Gpr, Gqi, Gr, Ond, Odj, Onq, Fnd, Fnq, Fdj, Gp, Gq.
  assert (Ethr : thr s' = upd (thr s) t T') by reflexivity.
  assert (NxW : forall q i, q < np s -> lo x q <= i <= hi x q -> nxt' (nodeat x q i) = nxt s (nodeat x q i)).
  { intros q i Hq Hi. destruct (Nat.eq_dec (nxt' (nodeat x q i)) (nxt s (nodeat x q i))) as [|Ne]; auto.
    exfalso. destruct (Onq t _ (Hn _ Ne)) as [_ Q]. exact (Q q i Hq Hi eq_refl). }
  assert (DtW : forall q i, q < np s -> lo x q <= i <= hi x q -> dat' (nodeat x q i) = dat s (nodeat x q i)).
  { intros q i Hq Hi. destruct (Nat.eq_dec (dat' (nodeat x q i)) (dat s (nodeat x q i))) as [|Ne]; auto.
    exfalso. destruct (Onq t _ (Hd _ Ne)) as [_ Q]. exact (Q q i Hq Hi eq_refl). }
  assert (NxO : forall u m, u <> t -> In m (own_list (thr s u)) -> nxt' m = nxt s m).
  { intros u m Hu Hm. destruct (Nat.eq_dec (nxt' m) (nxt s m)) as [|Ne]; auto.
    exfalso. apply Hu. apply (Odj u t m Hm). exact (Hn _ Ne). }
  assert (DtO : forall u m, u <> t -> In m (own_list (thr s u)) -> dat' m = dat s m).
  { intros u m Hu Hm. destruct (Nat.eq_dec (dat' m) (dat s m)) as [|Ne]; auto.
    exfalso. apply Hu. apply (Odj u t m Hm). exact (Hd _ Ne). }
  assert (Lk : forall n, linkingN s' n <-> linkingN s n).
  { intros n. apply (linkingN_local s s' t T' n Ethr A B). }
  assert (CntU : forall u, u <> t -> ~ producer_pc (pc (thr s u)) ->
                 cnt' = counter s /\ c0' = c0 x /\ vis' = visits x).
  { intros u Hu Np. destruct Cnt as [C|C]; auto. exfalso. apply Np. apply Gc. congruence. }
  constructor; cbn [base nodeat valat hi lo nret c0 visits plog qlog x']; cbn [counter np heads tails nxt dat freed thr s'].
  - exact Gnp.
  - exact Go.
  - exact Gh.
  - exact Gt.
  - exact Gi.
  - exact Gz.
  - destruct (Nat.eq_dec (nxt' 0) (nxt s 0)) as [E|Ne]; [congruence|].
    exfalso. destruct (Onq t _ (Hn _ Ne)) as [Q _]. congruence.
  - intros q i Hq Hi. rewrite NxW by (auto; lia). rewrite Lk. apply Gl; auto.
  - intros q Hq. rewrite NxW by (auto; specialize (Go q Hq); lia). apply Gla; auto.
  - intros q i Hq Hi. rewrite DtW by (auto; lia). apply Gd; auto.
  - (* local *)
    intros u. destruct (Nat.eq_dec u t) as [->|Hne].
    + rewrite upd_same. exact Loc.
    + rewrite upd_other by assumption. assert (Lu := Gloc u). assert (Qu := Gqi u). unfold local_ok, cnt_ok in *.
      destruct (pc (thr s u)) eqn:Hu;
        cbn [base nodeat valat hi lo nret c0 visits x']; cbn [counter np heads tails nxt dat freed s']; auto.
      * rewrite (DtO u) by (auto; apply in_own_pushing; rewrite Hu; reflexivity). exact Lu.
      * rewrite (DtO u), (NxO u) by (auto; apply in_own_pushing; rewrite Hu; reflexivity). exact Lu.
      * rewrite (DtO u), (NxO u) by (auto; apply in_own_pushing; rewrite Hu; reflexivity). exact Lu.
      * destruct (CntU u Hne) as (C1 & C2 & C3); [rewrite Hu; auto|]. rewrite C1, C2, C3. exact Lu.
      * destruct (CntU u Hne) as (C1 & C2 & C3); [rewrite Hu; auto|]. rewrite C1, C2, C3. exact Lu.
      * destruct (CntU u Hne) as (C1 & C2 & C3); [rewrite Hu; auto|]. rewrite C1, C2, C3. exact Lu.
      * destruct (CntU u Hne) as (C1 & C2 & C3); [rewrite Hu; auto|]. rewrite C1, C2, C3. exact Lu.
      * destruct (CntU u Hne) as (C1 & C2 & C3); [rewrite Hu; auto|]. rewrite C1, C2, C3. exact Lu.
      * destruct Lu as (L1 & L2 & L3 & L4). repeat split; auto. rewrite Lk. exact L4.
      * destruct Lu as (L1 & L2). split; auto. rewrite L1. rewrite DtW by (auto; specialize (Go _ Qu); lia).
        rewrite <- L1. exact L2.
      * rewrite (DtO u) by (auto; apply in_own_popping; rewrite Hu; reflexivity). exact Lu.
  - intros u v. thr_cases u t; thr_cases v t; intros; try congruence; auto.
  - intros u Hu. thr_cases u t; auto.
  - intros u v q. thr_cases u t; thr_cases v t; intros H1 H2; auto.
    + apply (Gpr t v q); auto.
    + apply (Gpr u t q); auto.
    + apply (Gpr u v q); auto.
  - intros u. thr_cases u t; auto.
  - exact Ret.
  - intros u. thr_cases u t; auto.
  - intros u v n. thr_cases u t; thr_cases v t; intros H1 H2; auto.
    + destruct (Pool n (or_introl H1)) as [H|H]; [apply (Odj t v n); auto|exfalso; exact (Fdj v n H2 H)].
    + destruct (Pool n (or_introl H2)) as [H|H]; [apply (Odj u t n); auto|exfalso; exact (Fdj u n H1 H)].
    + apply (Odj u v n); auto.
  - intros u n. thr_cases u t; intros H1.
    + destruct (Pool n (or_introl H1)) as [H|H]; [apply (Onq t n); auto|apply Fnq; auto].
    + apply (Onq u n); auto.
  - exact NdF.
  - intros n H1. destruct (Pool n (or_intror H1)) as [H|H]; [apply (Onq t n); auto|apply Fnq; auto].
  - intros u n. thr_cases u t; intros H1 H2.
    + exact (Dj n H1 H2).
    + destruct (Pool n (or_intror H2)) as [H|H]; [apply n0; apply (Odj u t n); auto|exact (Fdj u n H1 H)].
  - exact Gp.
  - exact Ql.
Qed.

(* the same with the free stack unchanged *)
Lemma frame_step x t T' cnt' nxt' dat' nret' c0' vis' qlog' :
  GInv x ->
  let s := base x in
  let s' := {| counter := cnt'; np := np s; heads := heads s; tails := tails s; nxt := nxt'; dat := dat';
               freed := freed s; thr := upd (thr s) t T'; nthr := nthr s |} in
  let x' := {| base := s'; nodeat := nodeat x; valat := valat x; hi := hi x; lo := lo x; nret := nret';
               c0 := c0'; visits := vis'; plog := plog x; qlog := qlog' |} in
  (forall m, nxt' m <> nxt s m -> In m (own_list (thr s t))) ->
  (forall m, dat' m <> dat s m -> In m (own_list (thr s t))) ->
  pc (thr s t) <> PLink -> pc T' <> PLink ->
  NoDup (own_list T') -> incl (own_list T') (own_list (thr s t)) ->
  (t <> 0 -> producer_pc (pc T') /\ pushonly (prog T')) ->
  (forall q, uses (np s) T' q -> uses (np s) (thr s t) q) ->
  qi T' < np s ->
  (forall q, q < np s -> ret_ok (upd (thr s) t T' 0) nret' (lo x) q) ->
  (forall q, q < np s -> qtag q qlog' = map (valat x q) (seq 1 (nret' q))) ->
  ((cnt' = counter s /\ c0' = c0 x /\ vis' = visits x) \/ t = 0) ->
  local_ok x' T' ->
  GInv x'.
Proof.
  intros G s s' x' Hn Hd A B Nd Inc Cons Us Qi Ret Ql Cnt Loc.
  apply (frame_stepF x t T' cnt' nxt' dat' (freed s) nret' c0' vis' qlog' G); auto.
  - apply (g_fr_nd x G).
  - intros n [H|H]; [left; apply Inc; exact H|right; exact H].
  - intros n H. apply (g_fr_dj x G t). apply Inc. exact H.
Qed.

(* ------------------------------------------------------------------ *)
(* the tail store: node T becomes element hi+1 of its queue's sequence *)
Lemma pstore_inv x t :
  GInv x -> pc (thr (base x) t) = PStoreTail ->
  let s := base x in let T := thr s t in let q := qi T in
  let s' := {| counter := counter s; np := np s; heads := heads s; tails := upd (tails s) q (node T);
               nxt := nxt s; dat := dat s; freed := freed s;
               thr := upd (thr s) t (with_pc T PLink); nthr := nthr s |} in
  GInv {| base := s'; nodeat := upd2 (nodeat x) q (S (hi x q)) (node T);
          valat := upd2 (valat x) q (S (hi x q)) (arg T);
          hi := upd (hi x) q (S (hi x q)); lo := lo x; nret := nret x;
          c0 := c0 x; visits := visits x;
          plog := plog x ++ [(t, q, arg T)]; qlog := qlog x |}.
Proof.
  intros G Hpc s T q s'.
  destruct G as [Gnp Go Gh Gt Gi Gz G0 Gl Gla Gd Gloc Gu Gc Gpr Gqi Gr Ond Odj Onq Fnd Fnq Fdj Gp Gq].
  fold s in Gnp, Go, Gh, Gt, Gi, Gz, G0, Gl, Gla, Gd, Gloc, Gu, Gc, Gpr, Gqi, Gr, Ond, Odj, Onq, Fnd, Fnq, Fdj, Gp, Gq.
  fold s T in Hpc.
  set (TL := with_pc T PLink) in *.
  assert (Ethr : thr s' = upd (thr s) t TL) by reflexivity.
  assert (Qn : q < np s) by (apply Gqi).
  assert (LT := Gloc t). fold T in LT. unfold local_ok in LT. rewrite Hpc in LT. fold q in LT.
  destruct LT as (LTd & LTn & LTp).
  assert (UsT : uses (np s) T q) by (left; rewrite Hpc; auto).
  assert (Only : forall u, u <> t -> ~ uses (np s) (thr s u) q).
  { intros u Hu U. apply Hu. apply (Gpr u t q); auto. }
  assert (OwnT : In (node T) (own_list T)) by (apply in_own_pushing; rewrite Hpc; reflexivity).
  destruct (Onq t _ OwnT) as [Nz Nw].
  assert (OLT : own_list T = node T :: pushed (prog T)).
  { unfold own_list, pcl. rewrite Hpc. reflexivity. }
  assert (OLL : own_list TL = pushed (prog T)) by reflexivity.
  assert (IncL : incl (own_list TL) (own_list T)).
  { rewrite OLT, OLL. intros n Hn. right. exact Hn. }
  assert (NotL : ~ In (node T) (own_list TL)).
  { rewrite OLL. specialize (Ond t). fold T in Ond. rewrite OLT in Ond. inversion Ond; auto. }
  set (na' := upd2 (nodeat x) q (S (hi x q)) (node T)).
  set (va' := upd2 (valat x) q (S (hi x q)) (arg T)).
  set (hi' := upd (hi x) q (S (hi x q))).
  assert (NaQ : forall i, i <= hi x q -> na' q i = nodeat x q i).
  { intros i Hi. unfold na'. rewrite upd2_same. apply upd_other. lia. }
  assert (NaS : na' q (S (hi x q)) = node T).
  { unfold na'. rewrite upd2_same. apply upd_same. }
  assert (NaX : forall q' i, q' <> q -> na' q' i = nodeat x q' i).
  { intros q' i Hq. unfold na'. rewrite upd2_other by assumption. reflexivity. }
  assert (VaQ : forall i, i <= hi x q -> va' q i = valat x q i).
  { intros i Hi. unfold va'. rewrite upd2_same. apply upd_other. lia. }
  assert (VaS : va' q (S (hi x q)) = arg T).
  { unfold va'. rewrite upd2_same. apply upd_same. }
  assert (VaX : forall q' i, q' <> q -> va' q' i = valat x q' i).
  { intros q' i Hq. unfold va'. rewrite upd2_other by assumption. reflexivity. }
  assert (HiQ : hi' q = S (hi x q)) by (unfold hi'; apply upd_same).
  assert (HiX : forall q', q' <> q -> hi' q' = hi x q') by (intros q' Hq; unfold hi'; apply upd_other; exact Hq).
  (* inside the old windows nothing moved *)
  assert (NaW : forall q' i, q' < np s -> i <= hi x q' -> na' q' i = nodeat x q' i).
  { intros q' i Hq Hi. destruct (Nat.eq_dec q' q) as [->|Nq]; [apply NaQ; exact Hi|apply NaX; exact Nq]. }
  assert (VaW : forall q' i, q' < np s -> i <= hi x q' -> va' q' i = valat x q' i).
  { intros q' i Hq Hi. destruct (Nat.eq_dec q' q) as [->|Nq]; [apply VaQ; exact Hi|apply VaX; exact Nq]. }
  assert (HiW : forall q' i, q' < np s -> i <= hi' q' -> i <= hi x q' \/ (q' = q /\ i = S (hi x q))).
  { intros q' i Hq Hi. destruct (Nat.eq_dec q' q) as [->|Nq]; [rewrite HiQ in Hi|rewrite HiX in Hi by assumption]; lia. }
  assert (PrevT : prev TL = nodeat x q (hi x q)) by (unfold TL; cbn [prev with_pc]; rewrite LTp; apply Gt; exact Qn).
  assert (Lk : forall q' i, q' < np s -> lo x q' <= i <= hi x q' -> (q', i) <> (q, hi x q) ->
               (linkingN s' (nodeat x q' i) <-> linkingN s (nodeat x q' i))).
  { intros q' i Hq Hi Ne. rewrite (linkingN_upd s s' t TL _ Ethr). split.
    - intros [[u [_ H]]|[_ H]]; [exists u; exact H|]. rewrite PrevT in H.
      exfalso. apply Ne. specialize (Go q Qn). destruct (Gi q q' (hi x q) i Qn Hq ltac:(lia) Hi H). congruence.
    - intros [u [Hp Hh]]. left. exists u. repeat split; auto. intros ->. fold T in Hp. congruence. }
  assert (Nrl : forall q', q' < np s -> nret x q' <= lo x q').
  { intros q' Hq. specialize (Gr q' Hq). unfold ret_ok in Gr. destruct (_ && _); lia. }
  constructor; cbn [base nodeat valat hi lo nret c0 visits plog qlog]; cbn [counter np heads tails nxt dat freed thr s'];
    fold na' va' hi'.
  - exact Gnp.
  - intros q' Hq. specialize (Go q' Hq). destruct (Nat.eq_dec q' q) as [->|Nq]; [rewrite HiQ|rewrite HiX by assumption]; lia.
  - intros q' Hq. specialize (Go q' Hq). rewrite NaW by (auto; lia). apply Gh; auto.
  - intros q' Hq. destruct (Nat.eq_dec q' q) as [->|Nq].
    + rewrite upd_same, HiQ, NaS. reflexivity.
    + rewrite upd_other, HiX by assumption. rewrite NaX by assumption. apply Gt; auto.
  - intros q1 q2 i j H1 H2 Hi Hj.
    destruct (HiW q1 i H1 ltac:(lia)) as [Bi|[-> ->]]; destruct (HiW q2 j H2 ltac:(lia)) as [Bj|[-> ->]].
    + rewrite !NaW by auto. apply Gi; auto; lia.
    + rewrite NaW, NaS by auto. intros E. exfalso. apply (Nw q1 i); auto; lia.
    + rewrite NaS, NaW by auto. intros E. exfalso. apply (Nw q2 j); auto; lia.
    + auto.
  - intros q' i Hq Hi. destruct (HiW q' i Hq ltac:(lia)) as [Bi|[-> ->]].
    + rewrite NaW by auto. apply Gz; auto; lia.
    + rewrite NaS. exact Nz.
  - exact G0.
  - intros q' i Hq Hi.
    destruct (Nat.eq_dec q' q) as [->|Nq].
    + rewrite HiQ in Hi. destruct (Nat.eq_dec i (hi x q)) as [->|Ni].
      * left. rewrite NaQ by lia. split; [|apply Gla; auto].
        apply (linkingN_upd s s' t TL _ Ethr). right. split; [reflexivity|exact PrevT].
      * rewrite !NaQ by lia. rewrite Lk by (auto; try lia; congruence). apply Gl; auto; lia.
    + rewrite HiX in Hi by assumption. rewrite !NaX by assumption.
      rewrite Lk by (auto; try lia; congruence). apply Gl; auto.
  - intros q' Hq. destruct (Nat.eq_dec q' q) as [->|Nq].
    + rewrite HiQ, NaS. exact LTn.
    + rewrite HiX, NaX by assumption. apply Gla; auto.
  - intros q' i Hq Hi. destruct (HiW q' i Hq ltac:(lia)) as [Bi|[-> ->]].
    + rewrite NaW, VaW by auto. apply Gd; auto; lia.
    + rewrite NaS, VaS. exact LTd.
  - intros u. destruct (Nat.eq_dec u t) as [->|Hne].
    + rewrite upd_same. unfold local_ok. cbn [pc TL with_pc base nodeat valat hi lo prev node arg qi]. fold q na' va' hi'.
      exists (hi x q). rewrite NaQ by lia. rewrite HiQ, NaS, VaS. specialize (Go q Qn). repeat split; auto; try lia.
    + rewrite upd_other by assumption. assert (Lu := Gloc u). assert (Qu := Gqi u). unfold local_ok, cnt_ok in *.
      assert (Gou := Go _ Qu).
      destruct (pc (thr s u)) eqn:Hu;
        cbn [base nodeat valat hi lo nret c0 visits]; cbn [counter np heads tails nxt dat freed s']; fold na' va' hi'; auto.
      * (* PStoreTail *) destruct Lu as (L1 & L2 & L3). repeat split; auto. rewrite upd_other; auto.
        intros E. apply (Only u Hne). left. rewrite Hu. auto.
      * (* PLink *) destruct Lu as [i (L1 & L2 & L3 & L4)]. exists i.
        rewrite !NaW, VaW by (auto; lia). repeat split; auto; try lia.
        destruct (Nat.eq_dec (qi (thr s u)) q) as [E|Nq]; [rewrite E, HiQ; rewrite E in L1; lia|rewrite HiX by assumption; lia].
      * (* QNext *) destruct Lu as (L1 & L2). split; auto. rewrite NaW by (auto; lia). exact L2.
      * (* QSetHead *) destruct Lu as (L1 & L2 & L3 & L4). rewrite !NaW by (auto; lia). repeat split; auto.
        -- destruct (Nat.eq_dec (qi (thr s u)) q) as [E|Nq]; [rewrite E, HiQ; rewrite E in L3; lia|rewrite HiX by assumption; lia].
        -- rewrite Lk; auto; try lia. intros E. inversion E. lia.
      * rewrite NaW, VaW by (auto; lia). exact Lu.
      * rewrite VaW by (auto; lia). exact Lu.
      * rewrite VaW by (auto; lia). exact Lu.
  - intros u v. destruct (Nat.eq_dec u t) as [->|Hu]; destruct (Nat.eq_dec v t) as [->|Hv];
      rewrite ?upd_same, ?(upd_other _ t _ u), ?(upd_other _ t _ v) by assumption; auto.
    + intros _ Hv' E. exfalso. rewrite PrevT in E. assert (Lv := Gloc v). unfold local_ok in Lv. rewrite Hv' in Lv.
      destruct Lv as [i (L1 & L2 & L3)]. rewrite <- E in L2.
      specialize (Go q Qn). destruct (Gi q (qi (thr s v)) (hi x q) i Qn (Gqi v) ltac:(lia) ltac:(lia) L2) as [E1 E2].
      rewrite <- E1 in L1. lia.
    + intros Hu' _ E. exfalso. rewrite PrevT in E. assert (Lu := Gloc u). unfold local_ok in Lu. rewrite Hu' in Lu.
      destruct Lu as [i (L1 & L2 & L3)]. rewrite E in L2.
      specialize (Go q Qn). destruct (Gi q (qi (thr s u)) (hi x q) i Qn (Gqi u) ltac:(lia) ltac:(lia) L2) as [E1 E2].
      rewrite <- E1 in L1. lia.
  - intros u Hu. thr_cases u t; auto. cbn. specialize (Gc t Hu). fold T in Gc. rewrite Hpc in Gc. tauto.
  - intros u v q'.
    assert (UL : uses (np s) TL q' -> uses (np s) T q').
    { intros [[H _]|H]; [discriminate|right; exact H]. }
    thr_cases u t; thr_cases v t; intros H1 H2; auto.
    + apply (Gpr t v q'); auto.
    + apply (Gpr u t q'); auto.
    + apply (Gpr u v q'); auto.
  - intros u. thr_cases u t; auto.
  - intros q' Hq. specialize (Gr q' Hq). unfold ret_ok in *. destruct (Nat.eq_dec 0 t) as [<-|Ne].
    + rewrite upd_same. fold T in Gr. rewrite Hpc in Gr. exact Gr.
    + rewrite upd_other by assumption. exact Gr.
  - intros u. thr_cases u t; auto. rewrite OLL. specialize (Ond t). fold T in Ond. rewrite OLT in Ond.
    inversion Ond; auto.
  - intros u v n. thr_cases u t; thr_cases v t; intros H1 H2; auto.
    + apply IncL in H1. apply (Odj t v n); auto.
    + apply IncL in H2. apply (Odj u t n); auto.
    + apply (Odj u v n); auto.
  - intros u n Hin.
    assert (Hold : In n (own_list (thr s u))).
    { revert Hin. thr_cases u t; auto. }
    destruct (Onq u n Hold) as [Q1 Q2]. split; auto.
    intros q' i Hq Hi. destruct (HiW q' i Hq ltac:(lia)) as [Bi|[-> ->]].
    + rewrite NaW by auto. apply Q2; auto; lia.
    + rewrite NaS. intros E. subst n. destruct (Nat.eq_dec u t) as [->|Hne].
      * rewrite upd_same in Hin. exact (NotL Hin).
      * apply Hne. apply (Odj u t (node T)); auto.
  - exact Fnd.
  - intros n Hn. destruct (Fnq n Hn) as [Q1 Q2]. split; auto.
    intros q' i Hq Hi. destruct (HiW q' i Hq ltac:(lia)) as [Bi|[-> ->]].
    + rewrite NaW by auto. apply Q2; auto; lia.
    + rewrite NaS. intros E. subst n. exact (Fdj t _ OwnT Hn).
  - intros u n. thr_cases u t; intros H1.
    + apply IncL in H1. apply (Fdj t n H1).
    + apply (Fdj u n H1).
  - intros q' Hq. destruct (Nat.eq_dec q' q) as [->|Nq].
    + rewrite ptag_snoc_same, HiQ, seq_snoc, map_app. cbn [map].
      replace (1 + hi x q) with (S (hi x q)) by lia. rewrite VaS. f_equal.
      rewrite Gp by auto. apply map_ext_in. intros i Hi. apply in_seq in Hi. symmetry. apply VaQ. lia.
    + rewrite ptag_snoc_other by auto. rewrite HiX by assumption. rewrite Gp by auto.
      apply map_ext_in. intros i Hi. symmetry. apply VaX. exact Nq.
  - intros q' Hq. rewrite Gq by auto. apply map_ext_in. intros i Hi. apply in_seq in Hi. symmetry.
    apply VaW; auto. specialize (Nrl q' Hq). specialize (Go q' Hq). lia.
Qed.

(* ------------------------------------------------------------------ *)
(* the link store prev->next := node *)
Lemma plink_inv x t :
  GInv x -> pc (thr (base x) t) = PLink ->
  let s := base x in let T := thr s t in
  let s' := {| counter := counter s; np := np s; heads := heads s; tails := tails s;
               nxt := upd (nxt s) (prev T) (node T); dat := dat s; freed := freed s;
               thr := upd (thr s) t (next_op (np s) T); nthr := nthr s |} in
  GInv {| base := s'; nodeat := nodeat x; valat := valat x; hi := hi x; lo := lo x; nret := nret x;
          c0 := c0 x; visits := visits x; plog := plog x; qlog := qlog x |}.
Proof.
  intros G Hpc s T s'.
  destruct G as [Gnp Go Gh Gt Gi Gz G0 Gl Gla Gd Gloc Gu Gc Gpr Gqi Gr Ond Odj Onq Fnd Fnq Fdj Gp Gq].
  fold s in Gnp, Go, Gh, Gt, Gi, Gz, G0, Gl, Gla, Gd, Gloc, Gu, Gc, Gpr, Gqi, Gr, Ond, Odj, Onq, Fnd, Fnq, Fdj, Gp, Gq.
  fold s T in Hpc.
  set (q := qi T).
  assert (Qn : q < np s) by (apply Gqi).
  assert (Ethr : thr s' = upd (thr s) t (next_op (np s) T)) by reflexivity.
  assert (LT := Gloc t). fold T in LT. unfold local_ok in LT. rewrite Hpc in LT. fold q in LT.
  destruct LT as [k (Lk1 & Lk2 & Lk3 & Lk4)].
  assert (OL : own_list (next_op (np s) T) = own_list T).
  { apply own_next_op. unfold pcl. rewrite Hpc. reflexivity. }
  assert (Lk : forall n, linkingN s' n <-> (linkingN s n /\ n <> prev T)).
  { intros n. rewrite (linkingN_upd s s' t _ n Ethr). split.
    - intros [[u (Hne & Hp & Hh)]|[Hp _]]; [|exfalso; exact (next_op_not_plink _ _ Hp)].
      split; [exists u; auto|]. intros ->. apply Hne. apply Gu; auto.
    - intros [[u (Hp & Hh)] Hne]. left. exists u. repeat split; auto. intros ->. fold T in Hh. congruence. }
  assert (NxW : forall q' i, q' < np s -> lo x q' <= i <= hi x q' -> (q', i) <> (q, k) ->
                upd (nxt s) (prev T) (node T) (nodeat x q' i) = nxt s (nodeat x q' i)).
  { intros q' i Hq Hi Ne. apply upd_other. rewrite Lk2. intros E. apply Ne.
    destruct (Gi q' q i k Hq Qn Hi ltac:(lia) E). congruence. }
  assert (NxO : forall u m, In m (own_list (thr s u)) -> upd (nxt s) (prev T) (node T) m = nxt s m).
  { intros u m Hm. apply upd_other. rewrite Lk2. intros E. destruct (Onq u m Hm) as [_ Q]. apply (Q q k); auto; lia. }
  constructor; cbn [base nodeat valat hi lo nret c0 visits plog qlog]; cbn [counter np heads tails nxt dat freed thr s'].
  - exact Gnp.
  - exact Go.
  - exact Gh.
  - exact Gt.
  - exact Gi.
  - exact Gz.
  - rewrite upd_other; auto. rewrite Lk2. apply not_eq_sym. apply Gz; auto; lia.
  - intros q' i Hq Hi. destruct (Nat.eq_dec q' q) as [->|Nq]; [destruct (Nat.eq_dec i k) as [->|Ni]|].
    + right. split.
      * rewrite Lk. rewrite Lk2. tauto.
      * rewrite <- Lk2, upd_same. exact Lk3.
    + rewrite NxW by (auto; try lia; congruence). rewrite Lk.
      assert (nodeat x q i <> prev T).
      { rewrite Lk2. intros E. destruct (Gi q q i k Qn Qn ltac:(lia) ltac:(lia) E). lia. }
      destruct (Gl q i Hq Hi) as [[A B]|[A B]]; [left|right]; split; auto. tauto.
    + rewrite NxW by (auto; try lia; congruence). rewrite Lk.
      assert (nodeat x q' i <> prev T).
      { rewrite Lk2. intros E. destruct (Gi q' q i k Hq Qn ltac:(lia) ltac:(lia) E). contradiction. }
      destruct (Gl q' i Hq Hi) as [[A B]|[A B]]; [left|right]; split; auto. tauto.
  - intros q' Hq. specialize (Go q' Hq). rewrite NxW; auto; try lia.
    intros E. inversion E. lia.
  - exact Gd.
  - intros u. destruct (Nat.eq_dec u t) as [->|Hne].
    + rewrite upd_same.
      apply (next_op_ok {| base := s'; nodeat := nodeat x; valat := valat x; hi := hi x; lo := lo x;
                           nret := nret x; c0 := c0 x; visits := visits x; plog := plog x; qlog := qlog x |} T).
      exact Gnp.
    + rewrite upd_other by assumption. assert (Lu := Gloc u). unfold local_ok, cnt_ok in *.
      destruct (pc (thr s u)) eqn:Hu;
        cbn [base nodeat valat hi lo nret c0 visits]; cbn [counter np heads tails nxt dat freed s']; auto.
      * rewrite (NxO u) by (apply in_own_pushing; rewrite Hu; reflexivity). exact Lu.
      * rewrite (NxO u) by (apply in_own_pushing; rewrite Hu; reflexivity). exact Lu.
      * destruct Lu as (L1 & L2 & L3 & L4). repeat split; auto. rewrite Lk. tauto.
  - intros u v. destruct (Nat.eq_dec u t) as [->|Hu]; destruct (Nat.eq_dec v t) as [->|Hv];
      rewrite ?upd_same, ?(upd_other _ t _ u), ?(upd_other _ t _ v) by assumption; auto.
    + intros Hp. exfalso; exact (next_op_not_plink _ _ Hp).
    + intros _ Hp. exfalso; exact (next_op_not_plink _ _ Hp).
  - intros u Hu. thr_cases u t; auto. apply next_op_cons. apply (Gc t Hu).
  - intros u v q'.
    assert (UL : uses (np s) (next_op (np s) T) q' -> uses (np s) T q').
    { intros H. right. apply next_op_uses. exact H. }
    thr_cases u t; thr_cases v t; intros H1 H2; auto.
    + apply (Gpr t v q'); auto.
    + apply (Gpr u t q'); auto.
    + apply (Gpr u v q'); auto.
  - intros u. thr_cases u t; auto. apply next_op_qi; auto.
  - intros q' Hq. specialize (Gr q' Hq). unfold ret_ok in *. destruct (Nat.eq_dec 0 t) as [<-|Ne].
    + rewrite upd_same. rewrite next_op_popping. fold T in Gr. rewrite Hpc in Gr. exact Gr.
    + rewrite upd_other by assumption. exact Gr.
  - intros u. thr_cases u t; auto. rewrite OL. apply Ond.
  - intros u v n. thr_cases u t; thr_cases v t; rewrite ?OL; apply Odj.
  - intros u n. thr_cases u t; rewrite ?OL; apply Onq.
  - exact Fnd.
  - exact Fnq.
  - intros u n. thr_cases u t; rewrite ?OL; apply Fdj.
  - exact Gp.
  - exact Gq.
Qed.

(* ------------------------------------------------------------------ *)
(* the consumer advances head[q]: the old stub leaves the sequence of q and
   becomes the consumer's private node *)
Lemma qsethead_inv x t :
  GInv x -> pc (thr (base x) t) = QSetHead ->
  let s := base x in let T := thr s t in let q := qi T in
  let s' := {| counter := counter s; np := np s; heads := upd (heads s) q (hn T); tails := tails s;
               nxt := nxt s; dat := dat s; freed := freed s;
               thr := upd (thr s) t (with_pc T QRead); nthr := nthr s |} in
  GInv {| base := s'; nodeat := nodeat x; valat := valat x; hi := hi x;
          lo := upd (lo x) q (S (lo x q)); nret := nret x;
          c0 := c0 x; visits := visits x; plog := plog x; qlog := qlog x |}.
Proof.
  intros G Hpc s T q s'.
  destruct G as [Gnp Go Gh Gt Gi Gz G0 Gl Gla Gd Gloc Gu Gc Gpr Gqi Gr Ond Odj Onq Fnd Fnq Fdj Gp Gq].
  fold s in Gnp, Go, Gh, Gt, Gi, Gz, G0, Gl, Gla, Gd, Gloc, Gu, Gc, Gpr, Gqi, Gr, Ond, Odj, Onq, Fnd, Fnq, Fdj, Gp, Gq.
  fold s T in Hpc.
  assert (Qn : q < np s) by (apply Gqi).
  assert (T0 : t = 0).
  { destruct (Nat.eq_dec t 0) as [|Ne]; auto. destruct (Gc t Ne) as [P _]. fold T in P. rewrite Hpc in P. destruct P. }
  assert (Ethr : thr s' = upd (thr s) t (with_pc T QRead)) by reflexivity.
  assert (LT := Gloc t). fold T in LT. unfold local_ok in LT. rewrite Hpc in LT. fold q in LT.
  destruct LT as (L1 & L2 & L3 & L4).
  assert (Lk : forall n, linkingN s' n <-> linkingN s n).
  { intros n. apply (linkingN_local s s' t _ n Ethr); fold T; [rewrite Hpc|cbn]; discriminate. }
  assert (OLT : own_list T = pushed (prog T)).
  { unfold own_list, pcl. rewrite Hpc. reflexivity. }
  assert (OLR : own_list (with_pc T QRead) = hd T :: pushed (prog T)) by reflexivity.
  assert (HdW : forall n, In n (own_list T) -> n <> hd T).
  { intros n Hn E. destruct (Onq t n Hn) as [_ Q]. apply (Q q (lo x q) Qn); [specialize (Go q Qn); lia|congruence]. }
  assert (InR : forall n, In n (own_list (with_pc T QRead)) -> n = hd T \/ In n (own_list T)).
  { intros n. rewrite OLR, OLT. intros [H|H]; auto. }
  set (lo' := upd (lo x) q (S (lo x q))).
  assert (LoQ : lo' q = S (lo x q)) by (unfold lo'; apply upd_same).
  assert (LoX : forall q', q' <> q -> lo' q' = lo x q') by (intros q' Hq; unfold lo'; apply upd_other; exact Hq).
  assert (LoW : forall q' i, lo' q' <= i -> lo x q' <= i /\ ((q', i) <> (q, lo x q))).
  { intros q' i Hi. destruct (Nat.eq_dec q' q) as [->|Nq]; [rewrite LoQ in Hi|rewrite LoX in Hi by assumption].
    - split; [lia|]. intros E. inversion E. lia.
    - split; [lia|]. intros E. inversion E. contradiction. }
  constructor; cbn [base nodeat valat hi lo nret c0 visits plog qlog]; cbn [counter np heads tails nxt dat freed thr s'];
    fold lo'.
  - exact Gnp.
  - intros q' Hq. specialize (Go q' Hq). destruct (Nat.eq_dec q' q) as [->|Nq]; [rewrite LoQ|rewrite LoX by assumption]; lia.
  - intros q' Hq. destruct (Nat.eq_dec q' q) as [->|Nq].
    + rewrite upd_same, LoQ. exact L2.
    + rewrite upd_other, LoX by assumption. apply Gh; auto.
  - exact Gt.
  - intros q1 q2 i j H1 H2 Hi Hj. apply Gi; auto.
    + destruct (LoW q1 i ltac:(lia)). lia.
    + destruct (LoW q2 j ltac:(lia)). lia.
  - intros q' i Hq Hi. apply Gz; auto. destruct (LoW q' i ltac:(lia)). lia.
  - exact G0.
  - intros q' i Hq Hi. rewrite Lk. apply Gl; auto. destruct (LoW q' i ltac:(lia)). lia.
  - exact Gla.
  - intros q' i Hq Hi. apply Gd; auto. destruct (Nat.eq_dec q' q) as [->|Nq]; [rewrite LoQ in Hi|rewrite LoX in Hi by assumption]; lia.
  - intros u. destruct (Nat.eq_dec u t) as [->|Hne].
    + rewrite upd_same. unfold local_ok. cbn [pc with_pc base nodeat valat lo hn dat qi]. fold q lo'. rewrite LoQ.
      split; auto. rewrite L2. apply Gd; auto; lia.
    + rewrite upd_other by assumption. assert (Lu := Gloc u). unfold local_ok, cnt_ok in *.
      destruct (Gc u ltac:(lia)) as [Pu _].
      destruct (pc (thr s u)) eqn:Hu;
        cbn [base nodeat valat hi lo nret c0 visits]; cbn [counter np heads tails nxt dat freed s']; fold lo'; auto;
        try (destruct Pu; fail).
      destruct Lu as [i (A & B & C & D)]. exists i. repeat split; auto; try lia.
      destruct (Nat.eq_dec (qi (thr s u)) q) as [E|Nq]; [|rewrite LoX by assumption; lia].
      rewrite E, LoQ. rewrite E in A, B.
      destruct (Nat.eq_dec i (lo x q)) as [->|]; [|lia]. exfalso. apply L4. exists u. auto.
  - intros u v. thr_cases u t; thr_cases v t; intros; try discriminate; auto.
  - intros u Hu. thr_cases u t; auto. lia.
  - intros u v q'.
    assert (UL : uses (np s) (with_pc T QRead) q' -> uses (np s) T q').
    { intros [[H _]|H]; [discriminate|right; exact H]. }
    thr_cases u t; thr_cases v t; intros H1 H2; auto.
    + apply (Gpr t v q'); auto.
    + apply (Gpr u t q'); auto.
    + apply (Gpr u v q'); auto.
  - intros u. thr_cases u t; auto.
  - intros q' Hq. specialize (Gr q' Hq). unfold ret_ok in *. subst t. rewrite upd_same.
    fold T in Gr. rewrite Hpc in Gr. cbn [popping andb] in Gr. cbn [pc with_pc popping qi andb]. fold q.
    destruct (Nat.eqb_spec q q') as [<-|Nq].
    + rewrite LoQ. lia.
    + rewrite LoX by auto. exact Gr.
  - intros u. thr_cases u t; auto. rewrite OLR. specialize (Ond t). fold T in Ond. rewrite OLT in Ond.
    constructor; auto.
    intros H. apply (HdW (hd T)); auto. rewrite OLT. exact H.
  - intros u v n. thr_cases u t; thr_cases v t; intros H1 H2; auto.
    + destruct (InR n H1) as [->|H1']; [|apply (Odj t v n); auto].
      exfalso. destruct (Onq v _ H2) as [_ Q]. apply (Q q (lo x q) Qn); [specialize (Go q Qn); lia|congruence].
    + destruct (InR n H2) as [->|H2']; [|apply (Odj u t n); auto].
      exfalso. destruct (Onq u _ H1) as [_ Q]. apply (Q q (lo x q) Qn); [specialize (Go q Qn); lia|congruence].
    + apply (Odj u v n); auto.
  - intros u n. thr_cases u t; intros H1.
    + destruct (InR n H1) as [->|H1'].
      * split; [rewrite L1; apply Gz; auto; lia|]. intros q' i Hq Hi E. rewrite L1 in E.
        destruct (LoW q' i ltac:(lia)) as [W1 W2]. apply W2.
        destruct (Gi q' q i (lo x q) Hq Qn ltac:(lia) ltac:(lia) E). congruence.
      * destruct (Onq t n H1') as [Q1 Q2]. split; auto. intros q' i Hq Hi. apply Q2; auto.
        destruct (LoW q' i ltac:(lia)). lia.
    + destruct (Onq u n H1) as [Q1 Q2]. split; auto. intros q' i Hq Hi. apply Q2; auto.
      destruct (LoW q' i ltac:(lia)). lia.
  - exact Fnd.
  - intros n Hn. destruct (Fnq n Hn) as [Q1 Q2]. split; auto. intros q' i Hq Hi. apply Q2; auto.
    destruct (LoW q' i ltac:(lia)). lia.
  - intros u n. thr_cases u t; intros H1.
    + destruct (InR n H1) as [->|H1']; [|apply (Fdj t n H1')].
      intros Hf. destruct (Fnq _ Hf) as [_ Q]. apply (Q q (lo x q) Qn); [specialize (Go q Qn); lia|congruence].
    + apply (Fdj u n H1).
  - exact Gp.
  - exact Gq.
Qed.

Lemma ret_keep1 (thrs : nat -> tst) t T' (nr l : nat -> nat) q :
  popping (pc T') = false -> popping (pc (thrs t)) = false ->
  ret_ok (thrs 0) nr l q -> ret_ok (upd thrs t T' 0) nr l q.
Proof.
  intros E1 E2 H. unfold ret_ok in *. destruct (Nat.eq_dec 0 t) as [<-|Ne].
  - rewrite upd_same. rewrite E1. rewrite E2 in H. exact H.
  - rewrite upd_other by assumption. exact H.
Qed.

Lemma ret_keep2 (thrs : nat -> tst) t T' (nr l : nat -> nat) q :
  popping (pc T') = popping (pc (thrs t)) -> qi T' = qi (thrs t) ->
  ret_ok (thrs 0) nr l q -> ret_ok (upd thrs t T' 0) nr l q.
Proof.
  intros E1 E2 H. unfold ret_ok in *. destruct (Nat.eq_dec 0 t) as [<-|Ne].
  - rewrite upd_same. rewrite E1, E2. exact H.
  - rewrite upd_other by assumption. exact H.
Qed.

Lemma uses_same npr T' T q :
  claiming (pc T') = claiming (pc T) -> qi T' = qi T -> prog T' = prog T -> uses npr T' q -> uses npr T q.
Proof. unfold uses. intros E1 E2 E3. rewrite E1, E2, E3. auto. Qed.

Lemma uses_nopush npr T' T q :
  claiming (pc T') = false -> prog T' = prog T -> uses npr T' q -> uses npr T q.
Proof. unfold uses. intros E1 E3. rewrite E1, E3. intros [[H _]|H]; [discriminate|right; exact H]. Qed.

Lemma vis_snoc c npr k : vis c npr (S k) = vis c npr k ++ [(c + k) mod npr].
Proof. unfold vis. rewrite seq_snoc, map_app. reflexivity. Qed.

Ltac own_same Hpc := unfold own_list, pcl; cbn [pc prog node hd with_pc]; rewrite Hpc; cbn [pushing popping].
Ltac nochange := let m := fresh "m" in let Hm := fresh "Hm" in intros m Hm; exfalso; apply Hm; reflexivity.
Ltac own_nd T OT Hpc := match goal with |- NoDup ?l => replace l with (own_list T); [exact OT|own_same Hpc; reflexivity] end.
Ltac own_inc T Hpc := match goal with |- incl ?l _ => replace l with (own_list T); [apply incl_refl|own_same Hpc; reflexivity] end.

Theorem linv_step x t : GInv x -> GInv (lstep x t).
Proof.
  intros G. unfold lstep, step. remember (thr (base x) t) as T eqn:HT.
  assert (LT := g_loc x G t). rewrite <- HT in LT. unfold local_ok in LT.
  assert (CT : t <> 0 -> producer_pc (pc T) /\ pushonly (prog T)) by (rewrite HT; apply (g_cons x G)).
  assert (OT : NoDup (own_list T)) by (rewrite HT; apply (g_own_nd x G)).
  assert (QT : qi T < np (base x)) by (rewrite HT; apply (g_qi x G)).
  assert (Np := g_np x G).
  assert (RK1 : forall T' q, popping (pc T') = false -> popping (pc T) = false -> q < np (base x) ->
                ret_ok (upd (thr (base x)) t T' 0) (nret x) (lo x) q).
  { intros T' q E1 E2 Hq. apply ret_keep1; auto; [rewrite <- HT; exact E2|apply (g_ret x G); exact Hq]. }
  assert (RK2 : forall T' q, popping (pc T') = popping (pc T) -> qi T' = qi T -> q < np (base x) ->
                ret_ok (upd (thr (base x)) t T' 0) (nret x) (lo x) q).
  { intros T' q E1 E2 Hq. apply ret_keep2; auto; [rewrite <- HT; exact E1|rewrite <- HT; exact E2|apply (g_ret x G); exact Hq]. }
  assert (OTn : pushing (pc T) = false -> popping (pc T) = false -> own_list T = pushed (prog T)).
  { intros E1 E2. unfold own_list, pcl. rewrite E1, E2. reflexivity. }
  destruct (pc T) eqn:Hpc; cbn [fst].
  - (* PTake *)
    destruct (freed (base x)) as [|n fr] eqn:Hfr; cbn [fst].
    + apply (frame_step x t (next_op (np (base x)) T) (counter (base x)) (nxt (base x)) (dat (base x)) (nret x)
               (c0 x) (visits x) (qlog x) G); rewrite <- ?HT.
      * nochange.
      * nochange.
      * rewrite Hpc; discriminate.
      * apply next_op_not_plink.
      * rewrite own_next_op; auto. unfold pcl. rewrite Hpc. reflexivity.
      * rewrite own_next_op; [apply incl_refl|]. unfold pcl. rewrite Hpc. reflexivity.
      * intros Ht. apply next_op_cons. apply (CT Ht).
      * intros q H. right. apply next_op_uses. exact H.
      * apply next_op_qi; auto.
      * intros q Hq. apply RK1; auto; try apply next_op_popping; rewrite ?Hpc; reflexivity.
      * apply (g_qlog x G).
      * left; auto.
      * match goal with |- local_ok ?X _ => apply (next_op_ok X T) end. exact Np.
    + assert (Fnd := g_fr_nd x G). assert (Fdj := g_fr_dj x G t). rewrite Hfr in Fnd, Fdj. rewrite <- HT in Fdj.
      rewrite (OTn eq_refl eq_refl) in OT, Fdj.
      match goal with |- GInv {| base := {| thr := upd _ _ ?X |} |} =>
        apply (frame_stepF x t X (counter (base x)) (nxt (base x)) (dat (base x)) fr (nret x)
                 (c0 x) (visits x) (qlog x) G); rewrite <- ?HT end.
      * nochange.
      * nochange.
      * rewrite Hpc; discriminate.
      * cbn; discriminate.
      * change (NoDup (n :: pushed (prog T))). constructor; auto. intros H. apply (Fdj n H). left; reflexivity.
      * inversion Fnd; auto.
      * rewrite Hfr, (OTn eq_refl eq_refl).
        change (forall m, In m (n :: pushed (prog T)) \/ In m fr -> In m (pushed (prog T)) \/ In m (n :: fr)).
        intros m [[->|H]|H]; [right; left; reflexivity|left; exact H|right; right; exact H].
      * change (forall m, In m (n :: pushed (prog T)) -> ~ In m fr).
        intros m [<-|H] Hf; [inversion Fnd; auto|apply (Fdj m H); right; exact Hf].
      * intros Ht. destruct (CT Ht). split; [exact I|assumption].
      * intros q. apply uses_same; try reflexivity. cbn. rewrite Hpc. reflexivity.
      * exact QT.
      * intros q Hq. apply RK2; auto; cbn; rewrite ?Hpc; reflexivity.
      * apply (g_qlog x G).
      * left; auto.
      * exact I.
  - (* PData *)
    apply (frame_step x t (with_pc T PNull) (counter (base x)) (nxt (base x))
             (upd (dat (base x)) (node T) (arg T)) (nret x) (c0 x) (visits x) (qlog x) G); rewrite <- ?HT.
    + nochange.
    + intros m Hm. destruct (Nat.eq_dec m (node T)) as [->|Ne]; [|rewrite upd_other in Hm by assumption; congruence].
      apply in_own_pushing. rewrite Hpc. reflexivity.
    + rewrite Hpc; discriminate.
    + cbn; discriminate.
    + own_nd T OT Hpc.
    + own_inc T Hpc.
    + intros Ht. destruct (CT Ht). split; [exact I|assumption].
    + intros q. apply uses_same; try reflexivity. cbn. rewrite Hpc. reflexivity.
    + exact QT.
    + intros q Hq. apply RK2; auto; cbn; rewrite ?Hpc; reflexivity.
    + apply (g_qlog x G).
    + left; auto.
    + unfold local_ok. cbn. apply upd_same.
  - (* PNull *)
    apply (frame_step x t (with_pc T PLoadTail) (counter (base x)) (upd (nxt (base x)) (node T) 0)
             (dat (base x)) (nret x) (c0 x) (visits x) (qlog x) G); rewrite <- ?HT.
    + intros m Hm. destruct (Nat.eq_dec m (node T)) as [->|Ne]; [|rewrite upd_other in Hm by assumption; congruence].
      apply in_own_pushing. rewrite Hpc. reflexivity.
    + nochange.
    + rewrite Hpc; discriminate.
    + cbn; discriminate.
    + own_nd T OT Hpc.
    + own_inc T Hpc.
    + intros Ht. destruct (CT Ht). split; [exact I|assumption].
    + intros q. apply uses_same; try reflexivity. cbn. rewrite Hpc. reflexivity.
    + exact QT.
    + intros q Hq. apply RK2; auto; cbn; rewrite ?Hpc; reflexivity.
    + apply (g_qlog x G).
    + left; auto.
    + unfold local_ok. cbn. split; [exact LT|apply upd_same].
  - (* PLoadTail *)
    match goal with |- GInv {| base := set_thr _ _ ?X |} =>
      apply (frame_step x t X (counter (base x)) (nxt (base x)) (dat (base x)) (nret x) (c0 x) (visits x) (qlog x) G);
        rewrite <- ?HT end.
    + nochange.
    + nochange.
    + rewrite Hpc; discriminate.
    + cbn; discriminate.
    + own_nd T OT Hpc.
    + own_inc T Hpc.
    + intros Ht. destruct (CT Ht). split; [exact I|assumption].
    + intros q. apply uses_same; try reflexivity. cbn. rewrite Hpc. reflexivity.
    + exact QT.
    + intros q Hq. apply RK2; auto; cbn; rewrite ?Hpc; reflexivity.
    + apply (g_qlog x G).
    + left; auto.
    + unfold local_ok. cbn. destruct LT. repeat split; auto.
  - (* PStoreTail *)
    subst T. apply pstore_inv; auto.
  - (* PLink *)
    subst T. apply plink_inv; auto.
  - (* CRead1 *)
    assert (T0 : t = 0).
    { destruct (Nat.eq_dec t 0) as [|Ne]; auto. destruct (CT Ne) as [[] _]. }
    destruct LT as [LT1 LT2].
    destruct (it T) eqn:Hit.
    + match goal with |- GInv {| base := set_thr _ _ ?X |} =>
        apply (frame_step x t X (counter (base x)) (nxt (base x)) (dat (base x)) (nret x)
                 (counter (base x)) [] (qlog x) G); rewrite <- ?HT end.
      * nochange.
      * nochange.
      * rewrite Hpc; discriminate.
      * cbn; discriminate.
      * own_nd T OT Hpc.
      * own_inc T Hpc.
      * intros Ht. contradiction.
      * intros q. apply uses_nopush; reflexivity.
      * cbn. apply Nat.mod_upper_bound. lia.
      * intros q Hq. apply RK1; auto; rewrite ?Hpc; reflexivity.
      * apply (g_qlog x G).
      * right; exact T0.
      * unfold local_ok, cnt_ok. cbn. rewrite !Nat.add_0_r. repeat split; auto.
    + match goal with |- GInv {| base := set_thr _ _ ?X |} =>
        apply (frame_step x t X (counter (base x)) (nxt (base x)) (dat (base x)) (nret x)
                 (c0 x) (visits x) (qlog x) G); rewrite <- ?HT end.
      * nochange.
      * nochange.
      * rewrite Hpc; discriminate.
      * cbn; discriminate.
      * own_nd T OT Hpc.
      * own_inc T Hpc.
      * intros Ht. contradiction.
      * intros q. apply uses_nopush; reflexivity.
      * cbn. apply Nat.mod_upper_bound. lia.
      * intros q Hq. apply RK1; auto; rewrite ?Hpc; reflexivity.
      * apply (g_qlog x G).
      * left; auto.
      * destruct (LT2 ltac:(lia)) as [C1 C2].
        unfold local_ok, cnt_ok. cbn. rewrite Nat.add_0_r. repeat split; auto; rewrite C1; reflexivity.
  - (* CRead2 *)
    match goal with |- GInv {| base := set_thr _ _ ?X |} =>
      apply (frame_step x t X (counter (base x)) (nxt (base x)) (dat (base x)) (nret x) (c0 x) (visits x) (qlog x) G);
        rewrite <- ?HT end.
    + nochange.
    + nochange.
    + rewrite Hpc; discriminate.
    + cbn; discriminate.
    + own_nd T OT Hpc.
    + own_inc T Hpc.
    + intros Ht. destruct (CT Ht) as [[] _].
    + intros q. apply uses_nopush; reflexivity.
    + exact QT.
    + intros q Hq. apply RK1; auto; rewrite ?Hpc; reflexivity.
    + apply (g_qlog x G).
    + left; auto.
    + unfold local_ok, cnt_ok in *. cbn. split; auto.
  - (* CWrite *)
    assert (T0 : t = 0).
    { destruct (Nat.eq_dec t 0) as [|Ne]; auto. destruct (CT Ne) as [[] _]. }
    apply (frame_step x t (with_pc T QHead) (S (cv T)) (nxt (base x)) (dat (base x)) (nret x)
             (c0 x) (visits x) (qlog x) G); rewrite <- ?HT.
    + nochange.
    + nochange.
    + rewrite Hpc; discriminate.
    + cbn; discriminate.
    + own_nd T OT Hpc.
    + own_inc T Hpc.
    + intros Ht. contradiction.
    + intros q. apply uses_nopush; reflexivity.
    + exact QT.
    + intros q Hq. apply RK1; auto; rewrite ?Hpc; reflexivity.
    + apply (g_qlog x G).
    + right; exact T0.
    + unfold local_ok, cnt_ok in *. cbn. destruct LT as [(C1 & C2 & C3 & C4) C5]. repeat split; auto. lia.
  - (* QHead *)
    match goal with |- GInv {| base := set_thr _ _ ?X |} =>
      apply (frame_step x t X (counter (base x)) (nxt (base x)) (dat (base x)) (nret x) (c0 x) (visits x) (qlog x) G);
        rewrite <- ?HT end.
    + nochange.
    + nochange.
    + rewrite Hpc; discriminate.
    + cbn; discriminate.
    + own_nd T OT Hpc.
    + own_inc T Hpc.
    + intros Ht. destruct (CT Ht) as [[] _].
    + intros q. apply uses_nopush; reflexivity.
    + exact QT.
    + intros q Hq. apply RK1; auto; rewrite ?Hpc; reflexivity.
    + apply (g_qlog x G).
    + left; auto.
    + unfold local_ok, cnt_ok in *. cbn. split; auto. apply (g_head x G). exact QT.
  - (* QNext *)
    assert (T0 : t = 0).
    { destruct (Nat.eq_dec t 0) as [|Ne]; auto. destruct (CT Ne) as [[] _]. }
    destruct LT as [(C1 & C2 & C3 & C4) LTh].
    destruct (nxt (base x) (hd T)) eqn:Hnx; cbn [fst].
    + destruct (S (it T) <? np (base x)) eqn:Hlt; cbn [fst].
      * apply Nat.ltb_lt in Hlt.
        match goal with |- GInv {| base := set_thr _ _ ?X |} =>
          apply (frame_step x t X (counter (base x)) (nxt (base x)) (dat (base x)) (nret x)
                   (c0 x) (visits x ++ [qi T]) (qlog x) G); rewrite <- ?HT end.
        -- nochange.
        -- nochange.
        -- rewrite Hpc; discriminate.
        -- cbn; discriminate.
        -- own_nd T OT Hpc.
        -- own_inc T Hpc.
        -- intros Ht. contradiction.
        -- intros q. apply uses_nopush; reflexivity.
        -- exact QT.
        -- intros q Hq. apply RK1; auto; rewrite ?Hpc; reflexivity.
        -- apply (g_qlog x G).
        -- right; exact T0.
        -- unfold local_ok. cbn. split; [exact Hlt|]. intros _. split; [lia|].
           rewrite vis_snoc, C3, C2. reflexivity.
      * apply (frame_step x t (next_op (np (base x)) T) (counter (base x)) (nxt (base x)) (dat (base x)) (nret x)
                 (c0 x) (visits x ++ [qi T]) (qlog x) G); rewrite <- ?HT.
        -- nochange.
        -- nochange.
        -- rewrite Hpc; discriminate.
        -- apply next_op_not_plink.
        -- rewrite own_next_op; auto. unfold pcl. rewrite Hpc. reflexivity.
        -- rewrite own_next_op; [apply incl_refl|]. unfold pcl. rewrite Hpc. reflexivity.
        -- intros Ht. contradiction.
        -- intros q H. right. apply next_op_uses. exact H.
        -- apply next_op_qi; auto.
        -- intros q Hq. apply RK1; auto; try apply next_op_popping; rewrite ?Hpc; reflexivity.
        -- apply (g_qlog x G).
        -- right; exact T0.
        -- match goal with |- local_ok ?X _ => apply (next_op_ok X T) end. exact Np.
    + match goal with |- GInv {| base := set_thr _ _ ?X |} =>
        apply (frame_step x t X (counter (base x)) (nxt (base x)) (dat (base x)) (nret x)
                 (c0 x) (visits x) (qlog x) G); rewrite <- ?HT end.
      * nochange.
      * nochange.
      * rewrite Hpc; discriminate.
      * cbn; discriminate.
      * own_nd T OT Hpc.
      * own_inc T Hpc.
      * intros Ht. contradiction.
      * intros q. apply uses_nopush; reflexivity.
      * exact QT.
      * intros q Hq. apply RK1; auto; rewrite ?Hpc; reflexivity.
      * apply (g_qlog x G).
      * left; auto.
      * unfold local_ok. cbn [pc base nodeat lo hi hd hn qi].
        rewrite LTh in Hnx.
        assert (lo x (qi T) < hi x (qi T)).
        { destruct (Nat.eq_dec (lo x (qi T)) (hi x (qi T))) as [E|]; [|pose proof (g_ord x G _ QT); lia].
          rewrite E in Hnx. rewrite (g_last x G _ QT) in Hnx. discriminate. }
        destruct (g_link x G (qi T) (lo x (qi T)) QT ltac:(lia)) as [[A B]|[A B]]; [congruence|].
        repeat split; auto; try congruence.
        intros L. apply A. revert L.
        match goal with |- linkingN ?s' _ -> _ =>
          apply (linkingN_local (base x) s' t
                   {| pc := QSetHead; qi := qi T; node := node T; arg := arg T; prev := prev T; hd := hd T;
                      hn := S n; rdv := rdv T; it := it T; cv := cv T; prog := prog T; opi := opi T |}) end;
          [reflexivity| |cbn; discriminate].
        rewrite <- HT, Hpc. discriminate.
  - (* QSetHead *)
    subst T. apply qsethead_inv; auto.
  - (* QRead *)
    match goal with |- GInv {| base := set_thr _ _ ?X |} =>
      apply (frame_step x t X (counter (base x)) (nxt (base x)) (dat (base x)) (nret x) (c0 x) (visits x) (qlog x) G);
        rewrite <- ?HT end.
    + nochange.
    + nochange.
    + rewrite Hpc; discriminate.
    + cbn; discriminate.
    + own_nd T OT Hpc.
    + own_inc T Hpc.
    + intros Ht. destruct (CT Ht) as [[] _].
    + intros q. apply uses_nopush; reflexivity.
    + exact QT.
    + intros q Hq. apply RK2; auto; cbn; rewrite ?Hpc; reflexivity.
    + apply (g_qlog x G).
    + left; auto.
    + unfold local_ok. cbn. apply LT.
  - (* QWrite *)
    apply (frame_step x t (with_pc T QUse) (counter (base x)) (nxt (base x))
             (upd (dat (base x)) (hd T) (rdv T)) (nret x) (c0 x) (visits x) (qlog x) G); rewrite <- ?HT.
    + nochange.
    + intros m Hm. destruct (Nat.eq_dec m (hd T)) as [->|Ne]; [|rewrite upd_other in Hm by assumption; congruence].
      apply in_own_popping. rewrite Hpc. reflexivity.
    + rewrite Hpc; discriminate.
    + cbn; discriminate.
    + own_nd T OT Hpc.
    + own_inc T Hpc.
    + intros Ht. destruct (CT Ht) as [[] _].
    + intros q. apply uses_nopush; reflexivity.
    + exact QT.
    + intros q Hq. apply RK2; auto; cbn; rewrite ?Hpc; reflexivity.
    + apply (g_qlog x G).
    + left; auto.
    + unfold local_ok. cbn. rewrite upd_same. exact LT.
  - (* QUse *)
    assert (T0 : t = 0).
    { destruct (Nat.eq_dec t 0) as [|Ne]; auto. destruct (CT Ne) as [[] _]. }
    assert (OTT : own_list T = hd T :: pushed (prog T)).
    { unfold own_list, pcl. rewrite Hpc. reflexivity. }
    assert (Rt := g_ret x G). rewrite <- T0, <- HT in Rt. unfold ret_ok in Rt. rewrite Hpc in Rt. cbn [popping andb] in Rt.
    assert (Fnd := g_fr_nd x G). assert (Fdj := g_fr_dj x G t). rewrite <- HT, OTT in Fdj. rewrite OTT in OT.
    apply (frame_stepF x t (next_op (np (base x)) T) (counter (base x)) (nxt (base x)) (dat (base x))
             (hd T :: freed (base x))
             (upd (nret x) (qi T) (S (nret x (qi T)))) (c0 x) (visits x)
             (qlog x ++ [(qi T, dat (base x) (hd T))]) G); rewrite <- ?HT.
    + nochange.
    + nochange.
    + rewrite Hpc; discriminate.
    + apply next_op_not_plink.
    + rewrite own_next_op'. inversion OT; auto.
    + constructor; auto. apply Fdj. left; reflexivity.
    + rewrite own_next_op', OTT. intros n [H|[H|H]]; [left; right; exact H|left; left; exact H|right; exact H].
    + rewrite own_next_op'. intros n H [Hf|Hf].
      * subst n. inversion OT; auto.
      * apply (Fdj n); [right; exact H|exact Hf].
    + intros Ht. contradiction.
    + intros q H. right. apply next_op_uses. exact H.
    + apply next_op_qi; auto.
    + intros q Hq. unfold ret_ok. subst t. rewrite upd_same. rewrite next_op_popping. cbn [andb].
      specialize (Rt q Hq). destruct (Nat.eq_dec q (qi T)) as [E|Nq].
      * rewrite E in *. rewrite Nat.eqb_refl in Rt. rewrite upd_same. lia.
      * rewrite (proj2 (Nat.eqb_neq (qi T) q)) in Rt by auto. rewrite upd_other by auto. exact Rt.
    + intros q Hq. specialize (Rt q Hq). destruct (Nat.eq_dec q (qi T)) as [E|Nq].
      * rewrite E in *. rewrite Nat.eqb_refl in Rt.
        rewrite qtag_snoc_same, upd_same, seq_snoc, map_app. cbn [map]. rewrite <- (g_qlog x G) by auto.
        f_equal. rewrite LT. f_equal. f_equal. lia.
      * rewrite qtag_snoc_other, upd_other by auto. apply (g_qlog x G); auto.
    + left; auto.
    + match goal with |- local_ok ?X _ => apply (next_op_ok X T) end. exact Np.
  - (* Fin *)
    destruct x; exact G.
Qed.

Theorem ireach_inv npr progs x : wf npr progs -> ireach npr progs x -> GInv x.
Proof.
  intros W. induction 1 as [|x t R IH].
  - apply init_inv; exact W.
  - apply linv_step; exact IH.
Qed.

(* ------------------------------------------------------------------ *)
(* the statements used by Properties_C15.v *)

Lemma nret_le x q : GInv x -> q < np (base x) -> nret x q <= lo x q <= hi x q.
Proof.
  intros G Hq. pose proof (g_ret x G q Hq) as R. pose proof (g_ord x G q Hq). unfold ret_ok in R.
  destruct (_ && _); lia.
Qed.

Lemma qtag_length x q : GInv x -> q < np (base x) -> length (qtag q (qlog x)) = nret x q.
Proof. intros G Hq. rewrite (g_qlog x G q Hq), map_length, seq_length. reflexivity. Qed.

(* data of the nodes queued behind the stub of queue q, oldest first *)
Definition content (x : ist) (q : nat) : list nat :=
  map (fun i => dat (base x) (nodeat x q i)) (seq (S (lo x q)) (hi x q - lo x q)).

Lemma fifo_of_inv x q : GInv x -> q < np (base x) ->
  exists pend, ptag q (plog x) = qtag q (qlog x) ++ pend ++ content x q /\
               length pend = if popping (pc (thr (base x) 0)) && (qi (thr (base x) 0) =? q) then 1 else 0.
Proof.
  intros G Hq. pose proof (nret_le x q G Hq) as L. pose proof (g_ret x G q Hq) as R. unfold ret_ok in R.
  exists (map (valat x q) (seq (S (nret x q)) (lo x q - nret x q))). split.
  - rewrite (g_plog x G q Hq), (g_qlog x G q Hq). unfold content.
    replace (map (fun i => dat (base x) (nodeat x q i)) (seq (S (lo x q)) (hi x q - lo x q)))
      with (map (valat x q) (seq (S (lo x q)) (hi x q - lo x q))).
    + rewrite <- !map_app. f_equal.
      replace (hi x q) with (nret x q + ((lo x q - nret x q) + (hi x q - lo x q))) at 1 by lia.
      rewrite !seq_app. f_equal. f_equal. f_equal. lia.
    + apply map_ext_in. intros i Hi. apply in_seq in Hi. symmetry. apply (g_dat x G); auto. lia.
  - rewrite map_length, seq_length. destruct (_ && _); lia.
Qed.

Lemma prefix_of_inv x q : GInv x -> q < np (base x) -> exists rest, ptag q (plog x) = qtag q (qlog x) ++ rest.
Proof. intros G Hq. destruct (fifo_of_inv x q G Hq) as [p [E _]]. eexists. exact E. Qed.

Lemma kth_of_inv x q k v : GInv x -> q < np (base x) ->
  nth_error (qtag q (qlog x)) k = Some v -> nth_error (ptag q (plog x)) k = Some v.
Proof.
  intros G Hq H. destruct (prefix_of_inv x q G Hq) as [r E]. rewrite E.
  rewrite nth_error_app1; auto. apply nth_error_Some. congruence.
Qed.

Lemma qtag_in q v l : In (q, v) l -> In v (qtag q l).
Proof.
  intros H. unfold qtag. apply in_map_iff. exists (q, v). split; auto.
  apply filter_In. split; auto. cbn. apply Nat.eqb_refl.
Qed.

Lemma ptag_in q v l : In v (ptag q l) -> exists t, In (t, q, v) l.
Proof.
  unfold ptag. intros H. apply in_map_iff in H. destruct H as [[[t q'] w] [E H]]. cbn in E. subst w.
  apply filter_In in H. destruct H as [H1 H2]. cbn in H2. apply Nat.eqb_eq in H2. subst q'. exists t; exact H1.
Qed.

Lemma pushed_only_of_inv x q v : GInv x -> q < np (base x) ->
  In (q, v) (qlog x) -> exists t, In (t, q, v) (plog x).
Proof.
  intros G Hq H. destruct (prefix_of_inv x q G Hq) as [r E].
  apply ptag_in. rewrite E. apply in_or_app. left. apply qtag_in. exact H.
Qed.

(* a visit of trypop about to read a NULL next pointer in queue qi *)
Lemma empty_justified_of_inv x t : GInv x ->
  pc (thr (base x) t) = QNext -> nxt (base x) (hd (thr (base x) t)) = 0 ->
  let q := qi (thr (base x) t) in
  ptag q (plog x) = qtag q (qlog x) \/
  exists u, pc (thr (base x) u) = PLink /\ qi (thr (base x) u) = q /\
            prev (thr (base x) u) = heads (base x) q /\
            nth_error (ptag q (plog x)) (length (qtag q (qlog x))) = Some (arg (thr (base x) u)).
Proof.
  intros G Hpc Hn q.
  assert (Qn : q < np (base x)) by apply (g_qi x G).
  assert (LT := g_loc x G t). unfold local_ok in LT. rewrite Hpc in LT. fold q in LT. destruct LT as [_ LT].
  assert (T0 : t = 0).
  { destruct (Nat.eq_dec t 0) as [|Ne]; auto. destruct (g_cons x G t Ne) as [P _]. rewrite Hpc in P. destruct P. }
  assert (R := g_ret x G q Qn). unfold ret_ok in R. rewrite <- T0, Hpc in R. cbn in R.
  pose proof (g_ord x G q Qn) as O.
  destruct (Nat.eq_dec (lo x q) (hi x q)) as [E|Ne].
  - left. rewrite (g_plog x G q Qn), (g_qlog x G q Qn). congruence.
  - right. rewrite LT in Hn. destruct (g_link x G q (lo x q) Qn ltac:(lia)) as [[[u [Hu Pu]] _]|[_ B]].
    + exists u. split; [exact Hu|].
      assert (Lu := g_loc x G u). unfold local_ok in Lu. rewrite Hu in Lu.
      destruct Lu as [i (A & B & C & D)]. rewrite Pu in B.
      destruct (g_inj x G q (qi (thr (base x) u)) (lo x q) i Qn (g_qi x G u) ltac:(lia) ltac:(lia) B) as [E1 E2].
      split; [symmetry; exact E1|]. split; [rewrite (g_head x G q Qn); exact Pu|].
      rewrite (qtag_length x q G Qn), (g_plog x G q Qn), R, D, <- E1, <- E2.
      rewrite nth_error_map. rewrite nth_error_nth' with (d := 0) by (rewrite seq_length; lia).
      rewrite seq_nth by lia. reflexivity.
    + exfalso. apply (g_nz x G q (S (lo x q))); auto; [lia|congruence].
Qed.

Lemma vis_all c npr q : 0 < npr -> q < npr -> In q (vis c npr npr).
Proof.
  intros Hn Hq. unfold vis. apply in_map_iff.
  pose proof (Nat.mod_upper_bound c npr ltac:(lia)) as Hr.
  destruct (le_lt_dec (c mod npr) q) as [L|L].
  - exists (q - c mod npr). split.
    + rewrite <- Nat.add_mod_idemp_l by lia.
      replace (c mod npr + (q - c mod npr)) with q by lia. apply Nat.mod_small. exact Hq.
    + apply in_seq. lia.
  - exists (q + npr - c mod npr). split.
    + rewrite <- Nat.add_mod_idemp_l by lia.
      replace (c mod npr + (q + npr - c mod npr)) with (q + 1 * npr) by lia.
      rewrite Nat.mod_add by lia. apply Nat.mod_small. exact Hq.
    + apply in_seq. lia.
Qed.

(* trypop about to return NULL: it has read a NULL next pointer in every queue
   during this call *)
Lemma null_visits_all_of_inv x t : GInv x ->
  pc (thr (base x) t) = QNext -> nxt (base x) (hd (thr (base x) t)) = 0 ->
  ~ S (it (thr (base x) t)) < np (base x) ->
  forall q, q < np (base x) -> In q (visits x ++ [qi (thr (base x) t)]).
Proof.
  intros G Hpc Hn Hlast q Hq.
  assert (LT := g_loc x G t). unfold local_ok, cnt_ok in LT. rewrite Hpc in LT.
  destruct LT as [(C1 & C2 & C3 & C4) _].
  rewrite C3, C2, <- vis_snoc.
  replace (S (it (thr (base x) t))) with (np (base x)) by lia.
  apply vis_all; auto. apply (g_np x G).
Qed.

(* thread T holds node n privately: it is being returned by trypop *)
Definition holds (T : tst) (n : nat) : Prop := popping (pc T) = true /\ hd T = n.

Lemma holds_own T n : holds T n -> In n (own_list T).
Proof. intros [P E]. subst n. apply in_own_popping; exact P. Qed.

Lemma reach_in_window x q k : GInv x -> q < np (base x) ->
  Nat.iter k (nxt (base x)) (heads (base x) q) = 0 \/
  exists i, lo x q <= i <= hi x q /\ nodeat x q i = Nat.iter k (nxt (base x)) (heads (base x) q).
Proof.
  intros G Hq. induction k as [|k IH]; simpl Nat.iter.
  - right. exists (lo x q). pose proof (g_ord x G q Hq). split; [lia|]. symmetry. apply (g_head x G); auto.
  - destruct IH as [E|[i [Hi E]]].
    + left. rewrite E. apply (g_nxt0 x G).
    + rewrite <- E. destruct (Nat.eq_dec i (hi x q)) as [->|Ne].
      * left. apply (g_last x G); auto.
      * destruct (g_link x G q i Hq ltac:(lia)) as [[_ B]|[_ B]]; [left; exact B|].
        right. exists (S i). split; [lia|]. symmetry. exact B.
Qed.

Lemma ownership_of_inv x t n : GInv x -> holds (thr (base x) t) n ->
  n <> 0 /\
  (forall q k, q < np (base x) -> Nat.iter k (nxt (base x)) (heads (base x) q) <> n) /\
  (forall q, q < np (base x) -> tails (base x) q <> n) /\
  (forall u, pc (thr (base x) u) = PLink -> prev (thr (base x) u) <> n /\ node (thr (base x) u) <> n) /\
  (forall u, u <> t -> ~ In n (own_list (thr (base x) u))).
Proof.
  intros G H. apply holds_own in H. destruct (g_own_nq x G t n H) as [Nz Nw].
  split; [exact Nz|]. split; [|split; [|split]].
  - intros q k Hq E. destruct (reach_in_window x q k G Hq) as [Z|[i [Hi Ei]]]; [congruence|].
    apply (Nw q i Hq Hi). congruence.
  - intros q Hq. rewrite (g_tail x G q Hq). pose proof (g_ord x G q Hq). apply Nw; auto; lia.
  - intros u Hu. assert (Lu := g_loc x G u). unfold local_ok in Lu. rewrite Hu in Lu.
    destruct Lu as [i (A & B & C & D)]. rewrite B, C. pose proof (g_qi x G u). split; apply Nw; auto; lia.
  - intros u Hu Hin. apply Hu. apply (g_own_dj x G u t n); auto.
Qed.

Lemma reachable_inv npr progs s :
  wf npr progs -> reachable M (init npr progs) s -> exists x, GInv x /\ base x = s.
Proof.
  intros W R. destruct (reachable_ireach npr progs s R) as [x [Rx E]].
  exists x. split; [apply (ireach_inv npr progs); auto|exact E].
Qed.

Lemma ownership_reachable npr progs s t n :
  wf npr progs -> reachable M (init npr progs) s -> holds (thr s t) n ->
  n <> 0 /\
  (forall q k, q < np s -> Nat.iter k (nxt s) (heads s q) <> n) /\
  (forall q, q < np s -> tails s q <> n) /\
  (forall u, pc (thr s u) = PLink -> prev (thr s u) <> n /\ node (thr s u) <> n) /\
  (forall u, u <> t -> ~ In n (own_list (thr s u))).
Proof.
  intros W R H. destruct (reachable_inv npr progs s W R) as [x [G E]]. subst s.
  apply (ownership_of_inv x t n G H).
Qed.

Lemma np_const npr progs x : ireach npr progs x -> np (base x) = npr.
Proof.
  induction 1 as [|x t R IH]; [reflexivity|]. rewrite lstep_erase. rewrite <- IH.
  unfold step. destruct (pc (thr (base x) t)); try reflexivity.
  - destruct (freed (base x)); reflexivity.
  - destruct (nxt (base x) (hd (thr (base x) t))); [destruct (_ <? _)|]; reflexivity.
Qed.

(* ------------------------------------------------------------------ *)
(* per-producer program order: the values thread t has stored into queue q so
   far, followed by the values t has still to push to q, form a subsequence of
   the values t's program pushes to q, in program order (a recycled push that
   finds no free node pushes nothing, hence subsequence and not equality) *)
Inductive subseq : list nat -> list nat -> Prop :=
| sub_nil l : subseq [] l
| sub_skip a l1 l2 : subseq l1 l2 -> subseq l1 (a :: l2)
| sub_take a l1 l2 : subseq l1 l2 -> subseq (a :: l1) (a :: l2).

Lemma subseq_refl l : subseq l l.
Proof. induction l; [apply sub_nil|apply sub_take; auto]. Qed.

Lemma subseq_eq l1 l2 : l1 = l2 -> subseq l1 l2.
Proof. intros ->. apply subseq_refl. Qed.

Lemma subseq_trans l1 l2 l3 : subseq l1 l2 -> subseq l2 l3 -> subseq l1 l3.
Proof.
  intros H12 H23. revert l1 H12. induction H23 as [l3|a l2 l3 H IH|a l2 l3 H IH]; intros l1 H12.
  - inversion H12. apply sub_nil.
  - apply sub_skip. apply IH. exact H12.
  - inversion H12 as [|b k1 k2 H'|b k1 k2 H']; subst.
    + apply sub_nil.
    + apply sub_skip. apply IH. exact H'.
    + apply sub_take. apply IH. exact H'.
Qed.

Lemma subseq_app_mid A v B : subseq (A ++ B) (A ++ v :: B).
Proof. induction A as [|a A IH]; cbn; [apply sub_skip; apply subseq_refl|apply sub_take; exact IH]. Qed.

Fixpoint pushvalsq (npr q : nat) (p : list op) : list nat :=
  match p with
  | [] => []
  | OPush q' _ v :: r => if q' mod npr =? q then v :: pushvalsq npr q r else pushvalsq npr q r
  | ORecyc q' v :: r => if q' mod npr =? q then v :: pushvalsq npr q r else pushvalsq npr q r
  | OPop :: r => pushvalsq npr q r
  end.

Definition pendq (npr q : nat) (T : tst) : list nat :=
  (if claiming (pc T) && (qi T =? q) then [arg T] else []) ++ pushvalsq npr q (prog T).

Definition tqvals (t q : nat) (l : list (nat * nat * nat)) : list nat :=
  map snd (filter (fun e => Nat.eqb (fst (fst e)) t && Nat.eqb (snd (fst e)) q) l).

Definition Xv (npr t q : nat) (x : ist) : list nat := tqvals t q (plog x) ++ pendq npr q (thr (base x) t).

Definition PInv (npr : nat) (progs : list (list op)) (x : ist) : Prop :=
  forall t q, subseq (Xv npr t q x) (pushvalsq npr q (nth t progs [])).

Lemma pend_next_op npr q T : pendq npr q (next_op npr T) = pushvalsq npr q (prog T).
Proof.
  unfold pendq, next_op.
  destruct (prog T) as [|[q' n v| |q' v] r]; cbn [pc prog qi arg claiming pushing andb pushvalsq app]; try reflexivity;
    destruct (q' mod npr =? q); reflexivity.
Qed.

Lemma step_thr_other s u t : t <> u -> thr (fst (step s u)) t = thr s t.
Proof.
  intros Ne. unfold step. destruct (pc (thr s u)); cbn [fst thr set_thr]; try reflexivity;
    try (apply upd_other; exact Ne).
  - destruct (freed s); cbn [fst thr set_thr]; apply upd_other; exact Ne.
  - destruct (nxt s (hd (thr s u))); [destruct (_ <? _)|]; cbn [fst thr set_thr]; apply upd_other; exact Ne.
Qed.

Lemma lstep_plog x u :
  plog (lstep x u) = match pc (thr (base x) u) with
                     | PStoreTail => plog x ++ [(u, qi (thr (base x) u), arg (thr (base x) u))]
                     | _ => plog x
                     end.
Proof.
  unfold lstep. destruct (pc (thr (base x) u)); try reflexivity.
  - destruct (it (thr (base x) u)); reflexivity.
  - destruct (nxt (base x) (hd (thr (base x) u))); reflexivity.
Qed.

Lemma tqvals_snoc t q l t' q' v :
  tqvals t q (l ++ [(t', q', v)]) = tqvals t q l ++ (if (t' =? t) && (q' =? q) then [v] else []).
Proof.
  unfold tqvals. rewrite filter_app, map_app. cbn. destruct ((t' =? t) && (q' =? q)); reflexivity.
Qed.

Lemma xv_step x u t q : subseq (Xv (np (base x)) t q (lstep x u)) (Xv (np (base x)) t q x).
Proof.
  unfold Xv. rewrite lstep_erase, lstep_plog.
  destruct (Nat.eq_dec t u) as [<-|Ne].
  - unfold step. remember (thr (base x) t) as T eqn:HT.
    destruct (pc T) eqn:Hpc; cbn [fst thr set_thr]; rewrite ?upd_same; try (rewrite <- HT; apply subseq_refl);
      try (apply subseq_eq; unfold pendq; cbn; rewrite ?Hpc; reflexivity);
      try (apply subseq_eq; rewrite pend_next_op; unfold pendq; rewrite Hpc; reflexivity).
    + destruct (freed (base x)); cbn [fst thr set_thr]; rewrite upd_same.
      * rewrite pend_next_op. unfold pendq. rewrite Hpc. cbn [claiming andb].
        destruct (qi T =? q); [apply subseq_app_mid|apply subseq_refl].
      * apply subseq_eq. unfold pendq. cbn. rewrite Hpc. reflexivity.
    + apply subseq_eq. rewrite tqvals_snoc, Nat.eqb_refl. unfold pendq. cbn. rewrite Hpc. cbn.
      rewrite <- app_assoc. reflexivity.
    + destruct (nxt (base x) (hd T)); [destruct (_ <? _)|]; cbn [fst thr set_thr]; rewrite upd_same; apply subseq_eq.
      * unfold pendq. cbn. rewrite Hpc. reflexivity.
      * rewrite pend_next_op. unfold pendq. rewrite Hpc. reflexivity.
      * unfold pendq. cbn. rewrite Hpc. reflexivity.
  - rewrite step_thr_other by assumption. apply subseq_eq. f_equal.
    destruct (pc (thr (base x) u)); auto. rewrite tqvals_snoc.
    destruct (Nat.eqb_spec u t); [congruence|]. cbn. apply app_nil_r.
Qed.

Lemma pinv_step progs x u : PInv (np (base x)) progs x -> PInv (np (base x)) progs (lstep x u).
Proof. intros P t q. eapply subseq_trans; [apply xv_step|apply P]. Qed.

Theorem ireach_pinv npr progs x : ireach npr progs x -> PInv npr progs x.
Proof.
  induction 1 as [|x t R IH].
  - intros t q. unfold Xv. cbn. unfold idle_thread. rewrite pend_next_op. apply subseq_refl.
  - assert (E := np_const npr progs x R). rewrite <- E in *.
    apply pinv_step. exact IH.
Qed.
