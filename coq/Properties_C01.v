(* C01 -- a fiber runs on one kernel thread at a time, is resumed only from a
   saved state, is reclaimed only when finished, saved and unreferenced; and
   the runtime half of C02 -- a fiber is queued at most once per wake-up.
   Statements over every reachable state of the protocol machine
   coq/Kernel.v: any number n of kernel threads, any number of fibers, any
   sequence of enabled protocol events.  The machine's enabling conditions are
   control-flow / data-structure facts only; its event sequences include those
   of the real runtime (tools/accept_c01.py).  Proofs: KernelInv.v (invariant),
   KernelStepA/B/C.v (preservation per label), KernelProofs.v. *)
From Coq Require Import List Arith Bool.
From LF Require Import Conc Kernel KernelInv KernelProofs.
Import ListNotations.

(* every kernel thread's current fiber is live on that thread, and a context
   that is live is live on exactly the thread whose current fiber it is *)
Theorem C01_exclusive : forall n s, kreach n s ->
  (forall t, t < n -> cx s (cur s t) = CLive t) /\
  (forall f t, cx s f = CLive t -> t < n /\ cur s t = f).
Proof. intros n s R. exact (exclusive_of_inv n s (kreach_inv n s R)). Qed.
Print Assumptions C01_exclusive.

(* hence no fiber is current on two kernel threads *)
Theorem C01_exclusive_one_thread : forall n s, kreach n s ->
  forall t1 t2, t1 < n -> t2 < n -> cur s t1 = cur s t2 -> t1 = t2.
Proof. intros n s R. exact (cur_injective_of_inv n s (kreach_inv n s R)). Qed.
Print Assumptions C01_exclusive_one_thread.

(* a context switch never targets a fiber whose previous suspension has not
   completed: the target's context is saved (or has never run); in particular
   it is not live on any thread *)
Theorem C01_resume_only_saved : forall n s t o g s', kreach n s -> t < n ->
  kstep s (LSwitch t o g) = Some s' -> cx s g = CSaved \/ cx s g = CFresh.
Proof. intros n s t o g s' R. exact (switch_target_saved n s t o g s' (kreach_inv n s R)). Qed.
Print Assumptions C01_resume_only_saved.

(* wake-up before the switch: a fiber that is in a run queue while its context
   is still live is marked SAVING, and next() does not hand it out *)
Theorem C01_woken_before_switch_not_taken : forall n s f t, kreach n s ->
  q s f = true -> cx s f = CLive t ->
  fs s f = FSaving /\ forall u, kstep s (LNext u f) = None.
Proof.
  intros n s f t R Hq Hc. pose proof (kreach_inv n s R) as I. split.
  - exact (queued_live_is_saving n s f t I Hq Hc).
  - intros u. exact (next_refuses_live n s f t u I Hq Hc).
Qed.
Print Assumptions C01_woken_before_switch_not_taken.

(* a fiber is reclaimed only when it is DONE, its context is saved, and it is
   in no run queue, no wait object, no manager slot and nobody's current fiber *)
Theorem C01_reclaim : forall n s t f s', kreach n s -> t < n ->
  kstep s (LDestroy t f) = Some s' ->
  fs s f = FDone /\ cx s f = CSaved /\ q s f = false /\ avail s f = None /\ holder s f = None /\
  (forall u, hand s u <> Some f /\ tosched s u <> Some f /\ (u < n -> cur s u <> f)).
Proof. intros n s t f s' R. exact (destroy_only_unused n s t f s' (kreach_inv n s R)). Qed.
Print Assumptions C01_reclaim.

(* ... and is never touched afterwards: no event that names a reclaimed fiber
   (create, state write, done-slot, schedule, next, steal, switch from or to,
   destroy) is enabled; in particular it is reclaimed at most once *)
Theorem C01_reclaimed_never_touched : forall n s f l, kreach n s -> thread_of l < n ->
  cx s f = CFreed -> names_fiber l f -> kstep s l = None.
Proof. intros n s f l R. exact (freed_untouched n s f l (kreach_inv n s R)). Qed.
Print Assumptions C01_reclaimed_never_touched.

Theorem C01_reclaimed_once : forall n s t f s', kreach n s -> t < n ->
  kstep s (LDestroy t f) = Some s' -> cx s f <> CFreed /\ cx s' f = CFreed.
Proof. intros n s t f s' R. exact (destroy_once n s t f s' (kreach_inv n s R)). Qed.
Print Assumptions C01_reclaimed_once.

(* ---- C02, runtime half ---- *)
(* a fiber is never queued twice for one wake-up: whenever schedule() is
   called on it, it is not in any run queue *)
Theorem C02_sched_conservation : forall n s t f s', kreach n s -> t < n ->
  kstep s (LSched t f) = Some s' -> q s f = false.
Proof. intros n s t f s' R Ht H. exact (proj1 (sched_not_queued n s t f s' (kreach_inv n s R) Ht H)). Qed.
Print Assumptions C02_sched_conservation.

(* next() hands out only queued fibers; the entry leaves the queue and is
   recorded as taken by that thread *)
Theorem C02_next_takes_queued : forall s t f s', kstep s (LNext t f) = Some s' ->
  q s f = true /\ hand s t = None /\ q s' f = false /\ hand s' t = Some f.
Proof. exact next_takes_queued. Qed.
Print Assumptions C02_next_takes_queued.

(* a handed-out fiber is out of the queues, saved, referenced by no other
   taker, waker or slot; it stays handed out until the taker's next context
   switch, and only the taker can switch to it *)
Theorem C02_handed_out : forall n s t f, kreach n s -> hand s t = Some f ->
  (q s f = false /\ (cx s f = CSaved \/ cx s f = CFresh) /\ avail s f = None /\ holder s f = None /\
   (forall u, hand s u = Some f -> u = t) /\
   (forall u, tosched s u <> Some f /\ donef s u <> Some f /\ pubpend s u <> Some f /\ maintf s u <> Some f)) /\
  (forall l s', kstep s l = Some s' -> hand s' t = Some f \/ exists o g, l = LSwitch t o g) /\
  (forall u o s', kstep s (LSwitch u o f) = Some s' -> u = t).
Proof.
  intros n s t f R H. pose proof (kreach_inv n s R) as I. split; [|split].
  - exact (hand_inv n s t f I H).
  - intros l s' K. exact (hand_stays s l s' t f K H).
  - intros u o s' K. exact (hand_only_taker_switches n s t f u o s' I H K).
Qed.
Print Assumptions C02_handed_out.

(* ---- non-vacuity: concrete reachable states meeting the hypotheses ---- *)
Definition all_lt n (ls : list label) := forallb (fun l => thread_of l <? n) ls.
Definition st n ls := match run (kinit n) ls with Some s => s | None => kinit n end.

(* one kernel thread: create fiber 1, schedule it, yield from fiber 0 to it *)
Definition ex_yield :=
  [LCreate 0 1; LSched 0 1; LNext 0 1; LWrite 0 0 FReady; LWrite 0 1 FRun; LSwitch 0 0 1; LResumed 0; LSched 0 0].

Example ex_yield_reachable :
  kreach 1 (st 1 ex_yield) /\ cur (st 1 ex_yield) 0 = 1 /\ cx (st 1 ex_yield) 1 = CLive 0 /\
  cx (st 1 ex_yield) 0 = CSaved /\ q (st 1 ex_yield) 0 = true.
Proof. split; [eapply run_init_reach with (ls := ex_yield); vm_compute; reflexivity | vm_compute; auto]. Qed.

(* the switch and the schedule of that scenario are enabled events *)
Example ex_switch_enabled :
  let s := st 1 (firstn 5 ex_yield) in
  kreach 1 s /\ kstep s (LSwitch 0 0 1) <> None /\ cx s 1 = CFresh.
Proof. split; [eapply run_init_reach with (ls := firstn 5 ex_yield); vm_compute; reflexivity | vm_compute; split; [discriminate|reflexivity]]. Qed.

Example ex_sched_enabled :
  let s := st 1 (firstn 7 ex_yield) in
  kreach 1 s /\ kstep s (LSched 0 0) <> None /\ q s 0 = false.
Proof. split; [eapply run_init_reach with (ls := firstn 7 ex_yield); vm_compute; reflexivity | vm_compute; split; [discriminate|reflexivity]]. Qed.

(* two kernel threads, wake-up before the switch: fiber 0 (on thread 0) marks
   itself SAVING and publishes itself; a waker on thread 1 schedules it while
   its context is still live on thread 0; next() refuses it; thread 0 switches
   away to fiber 2, whose maintenance flips fiber 0 to WAITING; only then
   next() hands fiber 0 out, and thread 1 may switch to it *)
Definition ex_wake_a := [LCreate 0 2; LSched 0 2; LWrite 0 0 FSaving; LSched 1 0].
Definition ex_wake_b := ex_wake_a ++ [LNext 0 2; LWrite 0 2 FRun; LSwitch 0 0 2; LResumed 0; LWrite 0 0 FWait].
Definition ex_wake_c := ex_wake_b ++ [LNext 1 0; LWrite 1 0 FRun; LWrite 1 1 FSaving].

Example ex_woken_while_live :
  let s := st 2 ex_wake_a in
  kreach 2 s /\ q s 0 = true /\ cx s 0 = CLive 0 /\ fs s 0 = FSaving /\
  kstep s (LNext 1 0) = None /\ kstep s (LNext 0 0) = None.
Proof. split; [eapply run_init_reach with (ls := ex_wake_a); vm_compute; reflexivity | vm_compute; auto 10]. Qed.

Example ex_taken_after_switch :
  let s := st 2 ex_wake_b in
  kreach 2 s /\ q s 0 = true /\ cx s 0 = CSaved /\ fs s 0 = FWait /\ kstep s (LNext 1 0) <> None.
Proof. split; [eapply run_init_reach with (ls := ex_wake_b); vm_compute; reflexivity | vm_compute; repeat split; discriminate]. Qed.

Example ex_migrating_switch_enabled :
  let s := st 2 ex_wake_c in
  kreach 2 s /\ hand s 1 = Some 0 /\ cx s 0 = CSaved /\ kstep s (LSwitch 1 1 0) <> None /\
  cx (st 2 (ex_wake_c ++ [LSwitch 1 1 0])) 0 = CLive 1.
Proof. split; [eapply run_init_reach with (ls := ex_wake_c); vm_compute; reflexivity | vm_compute; repeat split; discriminate]. Qed.

(* one kernel thread: fiber 1 runs, finishes, registers itself as done_fiber,
   switches back to fiber 0, whose maintenance destroys it *)
Definition ex_done :=
  ex_yield ++ [LMaintEnd 0; LWrite 0 1 FDone; LSlotDone 0 1; LNext 0 0; LWrite 0 0 FRun; LSwitch 0 1 0; LResumed 0].

Example ex_destroy_enabled :
  let s := st 1 ex_done in
  kreach 1 s /\ kstep s (LDestroy 0 1) <> None /\ fs s 1 = FDone /\ cx s 1 = CSaved.
Proof. split; [eapply run_init_reach with (ls := ex_done); vm_compute; reflexivity | vm_compute; repeat split; discriminate]. Qed.

Example ex_freed_reachable :
  let s := st 1 (ex_done ++ [LDestroy 0 1]) in
  kreach 1 s /\ cx s 1 = CFreed /\ kstep s (LSched 0 1) = None /\ kstep s (LDestroy 0 1) = None /\
  kstep s (LWrite 0 1 FRun) = None.
Proof. split; [eapply run_init_reach with (ls := ex_done ++ [LDestroy 0 1]); vm_compute; reflexivity | vm_compute; auto]. Qed.

(* a fiber handed out by next() and not yet switched to *)
Example ex_handed_out :
  let s := st 1 (firstn 3 ex_yield) in kreach 1 s /\ hand s 0 = Some 1.
Proof. split; [eapply run_init_reach with (ls := firstn 3 ex_yield); vm_compute; reflexivity | vm_compute; reflexivity]. Qed.
