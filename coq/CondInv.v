(* C05 proofs, part 3: the kernel-level invariant (mutex tokens, MPSC lists,
   node ownership, wake-up accounting, fiber states) and the cond-level
   accounting, stated on "views" of the phases, with one preservation lemma
   per kind of effect.  CondSteps.v glues them to the steps of the machine. *)
From Coq Require Import List ZArith Lia Bool Arith.
From LF Require Import Conc T1K Cond CondPhase CondProofs.
Import ListNotations.
Local Open Scope Z_scope.

(* ------------------------------------------------------------------ *)
(* Views: what the invariant may read of a thread's phase.  A view need not
   come from a phase: intermediate (virtual) views are used to split the
   composite steps of the kernel (an access followed by returns). *)
Inductive vwpos := VP (kp : wakepos) | VDone.

Record view := {
  v_wait : option (nat * waitpos);          (* queue and position in wait_in_mpsc_queue; maintenance normalised *)
  v_lockw : bool;                           (* that wait is the wait of fiber_mutex_lock *)
  v_wake : option (nat * Z * Z * vwpos);    (* queue, count, wake_count, position in wake_from_mpsc_queue *)
  v_uadd : option nat;                      (* about to fetch_add the counter of this mutex *)
  v_h0 : bool; v_h1 : bool;                 (* holds the user / internal mutex (between lock return and the fetch_add) *)
  v_cw3 : bool;                             (* inside the wait of fiber_cond_wait *)
  v_trans : bool                            (* at the fetch_add that undoes a signal's fetch_sub *)
}.

Definition norm_wp (wp : waitpos) : waitpos :=
  match wp with WPYield (YPMaint q _) => WPYield (YPMaint q IPAdd) | _ => wp end.

Definition is_upadd (up : unlockpos) : bool := match up with UPAdd => true | _ => false end.

(* before the deferred unlock of the user mutex has been done *)
Definition pre_unlock (wp : waitpos) : bool :=
  match wp with
  | WPYield (YPMaint _ IPAdd) => true
  | _ => premaint wp
  end.

Definition holds0 (p : phase) : bool :=
  match p with
  | PRun c kp =>
    match c, kp with
    | CIn _ _ _, _ | CFlag _ _, _ | CW1 _ _, _ | CW2 _ _, _ | CUnl _ _ _, _ | CRb _ _ _, _ => true
    | CW3 _ _, KWait _ wp => pre_unlock wp
    | CS1 um _ _, _ | CB1 um _ _, _ | CS2 um _ _, _ | CB2 um _ _, _ | CS3 um _ _, _ | CS4 um _ _, _ => um
    | CDone _ _ _, KUnlock _ up => is_upadd up
    | _, _ => false
    end
  | _ => false
  end.

Definition holds1 (p : phase) : bool :=
  match p with
  | PRun c kp =>
    match c, kp with
    | CS2 _ _ _, _ | CB2 _ _ _, _ | CS3 _ _ _, _ => true
    | CS4 _ _ _, KUnlock _ up => is_upadd up
    | _, _ => false
    end
  | _ => false
  end.

Definition view_of (p : phase) : view :=
  {| v_wait := match wait_ctx p with Some (q, wp) => Some (q, norm_wp wp) | None => None end;
     v_lockw := match p with PRun _ (KLock _ (LPWait _)) => true | _ => false end;
     v_wake := match p with
               | PRun _ (KWake q cnt wc kp) => Some (q, cnt, wc, VP kp)
               | PRun _ (KUnlock q (UPWake wc kp)) => Some (q, 1, wc, VP kp)
               | _ => match wait_ctx p with
                      | Some (_, WPYield (YPMaint q (IPWake wc kp))) => Some (q, 1, wc, VP kp)
                      | _ => None
                      end
               end;
     v_uadd := uadd_ctx p;
     v_h0 := holds0 p; v_h1 := holds1 p;
     v_cw3 := match p with PRun (CW3 _ _) (KWait _ _) => true | _ => false end;
     v_trans := match p with PRun (CS3 _ _ _) (KAcc _) => true | _ => false end |}.

Definition vholds (q : nat) (v : view) : bool :=
  match q with O => v_h0 v | S O => v_h1 v | _ => false end.

Definition set_vwait v x := {| v_wait := x; v_lockw := v_lockw v; v_wake := v_wake v; v_uadd := v_uadd v; v_h0 := v_h0 v; v_h1 := v_h1 v; v_cw3 := v_cw3 v; v_trans := v_trans v |}.
Definition set_vwake v x := {| v_wait := v_wait v; v_lockw := v_lockw v; v_wake := x; v_uadd := v_uadd v; v_h0 := v_h0 v; v_h1 := v_h1 v; v_cw3 := v_cw3 v; v_trans := v_trans v |}.
Definition set_vuadd v x := {| v_wait := v_wait v; v_lockw := v_lockw v; v_wake := v_wake v; v_uadd := x; v_h0 := v_h0 v; v_h1 := v_h1 v; v_cw3 := v_cw3 v; v_trans := v_trans v |}.
Definition set_vh0 v x := {| v_wait := v_wait v; v_lockw := v_lockw v; v_wake := v_wake v; v_uadd := v_uadd v; v_h0 := x; v_h1 := v_h1 v; v_cw3 := v_cw3 v; v_trans := v_trans v |}.
Definition set_vh1 v x := {| v_wait := v_wait v; v_lockw := v_lockw v; v_wake := v_wake v; v_uadd := v_uadd v; v_h0 := v_h0 v; v_h1 := x; v_cw3 := v_cw3 v; v_trans := v_trans v |}.

(* position classes inside a wait *)
Definition afterx (wp : waitpos) : bool :=
  match wp with WPLink _ _ | WPYield _ => true | _ => false end.
(* after the tail exchange and before going to sleep *)
Definition presleep (wp : waitpos) : bool :=
  match wp with
  | WPLink _ _ => true
  | WPYield (YPRead false) | WPYield (YPNext false _) | WPYield YPSwRead | WPYield YPSwDone
  | WPYield YPMRead | WPYield YPMFlip | WPYield (YPMaint _ _) => true
  | _ => false
  end.
(* resumed *)
Definition resumed (wp : waitpos) : bool :=
  match wp with
  | WPYield YPResume | WPYield (YPRead true) | WPYield (YPNext true _) => true
  | _ => false
  end.
(* the node has been handed to the list machinery *)
Definition afterdata (wp : waitpos) : bool :=
  match wp with WPSaving | WPData => false | _ => true end.

Definition hv (k : tokT) : Z := match k with THeld _ => 1 | _ => 0 end.
Definition inhand (w : vwpos) : bool :=
  match w with
  | VP (KPData _ _) | VP (KPCopy _ _) | VP (KPOut _) | VP (KPState _) | VP (KPReady _) => true
  | _ => false
  end.

Definition consec {A} (a b : A) (l : list A) : Prop := exists l1 l2, l = l1 ++ a :: b :: l2.

Definition chain (m : kmem) (g : gk) (q : nat) : list nat := qhead m q :: map snd (gq g q).

Definition isq (q : nat) : Prop := q = UMUTEX \/ q = IMUTEX \/ q = COND.

(* ------------------------------------------------------------------ *)
(* The invariant, as a predicate on (memory, views, kernel ghosts, cond ghosts) *)
Definition pop_local (m : kmem) (g : gk) (u q : nat) (w : vwpos) : Prop :=
  match w with
  | VP KPHead | VP (KPSpin _) => hand g q = None
  | VDone => True
  | VP (KPNext h) => h = qhead m q /\ hand g q = None
  | VP (KPSetHead h nx) => h = qhead m q /\ nx = nnext m h /\ nx <> O /\ hand g q = None
  | VP (KPData h nx) => qhead m q = nx /\ nown g h = OPop u /\ h <> O /\ exists e, hand g q = Some e /\ ndata m nx = fname e
  | VP (KPCopy h d) => nown g h = OPop u /\ h <> O /\ exists e, hand g q = Some e /\ d = fname e
  | VP (KPOut h) => nown g h = OPop u /\ h <> O /\ exists e, hand g q = Some e /\ ndata m h = fname e
  | VP (KPState f) => hand g q = Some f /\ fnode m f <> O
  | VP (KPReady f) => hand g q = Some f /\ fnode m f <> O /\ fstate m f = ST_WAITING
  end.

Definition push_local (m : kmem) (g : gk) (t q : nat) (wp : waitpos) : Prop :=
  match wp with
  | WPNext n => n <> O /\ nown g n = OThread t /\ ndata m n = fname t /\ fnode m t = O
  | WPXchg n => n <> O /\ nown g n = OThread t /\ ndata m n = fname t /\ fnode m t = O /\ nnext m n = O
  | WPLink a b => consec a b (chain m g q) /\ nnext m a = O /\ In (t, b) (gq g q)
  | _ => True
  end.

Definition acct_local (m : kmem) (g : gk) (t : nat) (w : option (nat * waitpos)) : Prop :=
  match w with
  | Some (_, wp) =>
      if presleep wp then blocked m t = false /\ pend m t = (if got g t then 1 else 0)%nat
      else match wp with
           | WPYield YPAsleep => pend m t = O /\ blocked m t = negb (got g t)
           | _ => if resumed wp then got g t = true /\ pend m t = O /\ blocked m t = false
                  else got g t = false /\ pend m t = O /\ blocked m t = false
           end
  | None => got g t = false /\ pend m t = O /\ blocked m t = false
  end.

Definition stat_local (m : kmem) (t : nat) (w : option (nat * waitpos)) : Prop :=
  match w with
  | Some (_, wp) =>
      match wp with
      | WPData | WPNext _ | WPXchg _ | WPLink _ _
      | WPYield (YPRead false) | WPYield YPSwRead | WPYield YPSwDone | WPYield YPMRead | WPYield YPMFlip =>
          fstate m t = ST_SAVING
      | WPYield (YPNext false st) => fstate m t = ST_SAVING /\ st = ST_SAVING
      | _ => True
      end
  | None => True
  end.

Definition has_node (g : gk) (t : nat) (w : option (nat * waitpos)) : Prop :=
  match w with
  | Some (_, wp) => afterdata wp = false \/ got g t = true
  | None => True
  end.

Definition vout (v : view) : Z :=
  match v_wake v with Some (2%nat, cnt, wc, _) => cnt - wc | _ => 0 end.

(* static well-formedness of the view of a well-formed phase *)
Record vwf (v : view) : Prop := {
  w_uadd : forall q, v_uadd v = Some q -> vholds q v = true /\ is_mutex q = true /\ v_wake v = None;
  w_wake : forall q cnt wc w, v_wake v = Some (q, cnt, wc, w) ->
             isq q /\ (q = COND -> v_h1 v = true /\ v_wait v = None) /\ (is_mutex q = true -> cnt = 1);
  w_wait : forall q wp, v_wait v = Some (q, wp) ->
             isq q /\ norm_wp wp = wp /\
             (v_lockw v = true -> is_mutex q = true /\ v_cw3 v = false) /\
             (v_lockw v = false -> q = COND /\ v_cw3 v = true) /\
             v_h1 v = false /\ v_trans v = false;
  w_cw3 : v_cw3 v = true -> exists wp, v_wait v = Some (COND, wp) /\ v_lockw v = false;
  w_trans : v_trans v = true -> v_h1 v = true /\ v_wake v = None /\ v_uadd v = None;
  w_maint : forall q wp, v_wait v = Some (q, wp) -> (v_uadd v <> None \/ v_wake v <> None) ->
              wp = WPYield (YPMaint UMUTEX IPAdd)
}.

Record KInv (m : kmem) (V : nat -> view) (g : gk) : Prop := {
  (* mutex tokens *)
  tk_hold : forall t q, vholds q (V t) = true -> tok g q = THeld t;
  tk_got : forall t q wp, v_wait (V t) = Some (q, wp) -> v_lockw (V t) = true -> got g t = true -> tok g q = THeld t;
  tk_pass : forall t q cnt wc kp, v_wake (V t) = Some (q, cnt, wc, VP kp) -> is_mutex q = true ->
              tok g q = TPass t /\ wc = 0;
  tk_count : forall q, is_mutex q = true ->
              word m q = 1 - hv (tok g q) - gw g q /\ 0 <= gw g q /\ (forall u, tok g q = TPass u -> 1 <= gw g q);
  (* the MPSC lists *)
  q_nodup : forall q, isq q -> NoDup (chain m g q);
  q_nodes : forall q n, isq q -> In n (chain m g q) -> n <> O /\ nown g n = OList q;
  q_tail : forall q, isq q -> qtail m q = last (chain m g q) O;
  q_link : forall q a b, isq q -> consec a b (chain m g q) ->
             nnext m a = b \/ (nnext m a = O /\ exists u, v_wait (V u) = Some (q, WPLink a b));
  q_last : forall q, isq q -> nnext m (qtail m q) = O;
  q_ent : forall q e n, isq q -> In (e, n) (gq g q) ->
            ndata m n = fname e /\ got g e = false /\ exists wp, v_wait (V e) = Some (q, wp) /\ afterx wp = true;
  q_uniq : forall q, isq q -> NoDup (map fst (gq g q));
  q_hand : forall q e, isq q -> hand g q = Some e ->
             got g e = false /\ ~ In e (map fst (gq g q)) /\
             (exists wp, v_wait (V e) = Some (q, wp) /\ afterx wp = true) /\
             exists u cnt wc w, v_wake (V u) = Some (q, cnt, wc, w) /\ inhand w = true;
  (* per-thread facts *)
  l_pop : forall u q cnt wc w, v_wake (V u) = Some (q, cnt, wc, w) -> pop_local m g u q w;
  l_push : forall t q wp, v_wait (V t) = Some (q, wp) -> push_local m g t q wp;
  l_acct : forall t, acct_local m g t (v_wait (V t));
  l_stat : forall t, stat_local m t (v_wait (V t));
  l_own : forall t, fnode m t <> O -> nown g (fnode m t) = OThread t;
  l_node : forall t, has_node g t (v_wait (V t)) -> fnode m t <> O;
  l_slot : forall t q, slot_mutex m t = Some q ->
             q = UMUTEX /\ v_cw3 (V t) = true /\ exists wp, v_wait (V t) = Some (COND, wp) /\ premaint wp = true;
  l_maint : forall t q q' ip, v_wait (V t) = Some (q, WPYield (YPMaint q' ip)) -> v_cw3 (V t) = true;
  l_wf : forall t, vwf (V t)
}.

(* cond accounting *)
Record CInv (V : nat -> view) (g : gk) (c : gc) : Prop := {
  cn_hold : forall t, v_h1 (V t) = true ->
              g_trans c = (if v_trans (V t) then 1 else 0) /\ g_claimed c - g_rel c = vout (V t);
  cn_free : (forall t, v_h1 (V t) = false) -> g_trans c = 0 /\ g_claimed c = g_rel c;
  cn_wc : forall t cnt wc w, v_wake (V t) = Some (COND, cnt, wc, w) ->
            0 <= wc /\ (match w with VDone => wc = cnt | VP _ => wc < cnt end) /\
            cnt = myclaim c t /\ wc = myrel c t;
  cn_len : Z.of_nat (length (gwl c)) = g_reg c - g_rel c;
  cn_nodup : NoDup (gwl c);
  cn_wl : forall t, In t (gwl c) <-> (v_cw3 (V t) = true /\ got g t = false)
}.

Definition Inv1 (m : kmem) (V : nat -> view) (g : gk) (c : gc) : Prop := KInv m V g /\ CInv V g c.

Definition maint_cw3 (p : phase) : Prop :=
  forall q wp, wait_ctx p = Some (q, wp) -> ismaintw wp = true -> v_cw3 (view_of p) = true.

Ltac vwf_fin :=
  constructor; cbn; intros;
  repeat match goal with H : Some _ = Some _ |- _ => inversion H; subst; clear H end;
  unfold isq, UMUTEX, IMUTEX, COND; cbn; repeat split; intros; try discriminate; auto 10;
  try (eexists; split; reflexivity);
  try (match goal with H : _ \/ _ |- _ => destruct H as [H|H]; exfalso; apply H; reflexivity end).

Lemma view_wf p : phase_ok p -> maint_cw3 p -> vwf (view_of p).
Proof.
  destruct p as [| s | c kp]; cbn; intros H MC.
  - constructor; cbn; intros; try discriminate; auto.
  - destruct H.
  - destruct H as [Hc Hk].
    destruct c; destruct kp as [|a|q lp|q wp|q up|q cnt wc kp]; try discriminate Hc;
      try (destruct a as [i v|i|q d mo|q d mo|q v mo|q mo]; try discriminate Hc);
      try (destruct q as [|[|[|q]]]; try discriminate Hc).
    all: try (destruct lp as [|wp]).
    all: try (destruct up as [|wc kp|sp]).
    all: try (destruct wp as [| |n|n|a b|yp]; [| | | | |destruct yp as [b0|b0 st| | | | |q' ip| |];
                [| | | | | |cbn in Hk; destruct Hk as [-> Hk]; destruct ip as [|wc kp]| |]]).
    all: try (specialize (MC _ _ eq_refl eq_refl); discriminate MC).
    all: try (vwf_fin; fail).
Qed.

(* ------------------------------------------------------------------ *)
(* list facts *)
Lemma consec_cons {A} (a b x : A) l :
  consec a b (x :: l) <-> (a = x /\ exists l2, l = b :: l2) \/ consec a b l.
Proof.
  split.
  - intros [l1 [l2 E]]. destruct l1 as [|y l1]; cbn in E; inversion E; subst.
    + left. eauto.
    + right. exists l1, l2. reflexivity.
  - intros [[-> [l2 ->]]|[l1 [l2 ->]]].
    + exists [], l2. reflexivity.
    + exists (x :: l1), l2. reflexivity.
Qed.

Lemma consec_in {A} (a b : A) l : consec a b l -> In a l /\ In b l.
Proof. intros [l1 [l2 ->]]. split; apply in_or_app; right; cbn; auto. Qed.

Lemma consec_snoc {A} (a b n : A) l d : l <> [] ->
  consec a b (l ++ [n]) -> consec a b l \/ (a = last l d /\ b = n).
Proof.
  intros Hl [l1 [l2 E]].
  assert (D : l2 = [] \/ l2 <> []) by (destruct l2; [left; reflexivity|right; discriminate]).
  destruct D as [->|Hn].
  - right. assert (E' : l ++ [n] = (l1 ++ [a]) ++ [b]) by (rewrite <- app_assoc; exact E).
    apply app_inj_tail in E'. destruct E' as [-> ->]. split; [|reflexivity].
    now rewrite last_last.
  - left. destruct (exists_last Hn) as [l2' [z ->]].
    assert (E' : l ++ [n] = (l1 ++ a :: b :: l2') ++ [z]) by (rewrite <- app_assoc; exact E).
    apply app_inj_tail in E'. destruct E' as [-> _]. exists l1, l2'. reflexivity.
Qed.

Lemma last_in {A} (x : A) l d : In (last (x :: l) d) (x :: l).
Proof.
  revert x. induction l as [|y l IH]; intros x; [left; reflexivity|].
  right. change (last (x :: y :: l) d) with (last (y :: l) d). apply IH.
Qed.

(* ------------------------------------------------------------------ *)
(* Effect 0: thread t changes its view and parts of the memory that are
   private to it: its state, pend, blocked, mutex slot, its node pointer, and
   the fields of nodes it owns; cells and the word of the cond are not read by
   the invariant. *)
Record mpriv (t : nat) (g : gk) (m m' : kmem) : Prop := {
  mp_state : forall u, u <> t -> fstate m' u = fstate m u;
  mp_pend : forall u, u <> t -> pend m' u = pend m u;
  mp_blocked : forall u, u <> t -> blocked m' u = blocked m u;
  mp_slot : forall u, u <> t -> slot_mutex m' u = slot_mutex m u;
  mp_word : forall q, is_mutex q = true -> word m' q = word m q;
  mp_qhead : qhead m' = qhead m;
  mp_qtail : qtail m' = qtail m;
  mp_nnext : forall n, nown g n <> OThread t -> nown g n <> OPop t -> nnext m' n = nnext m n;
  mp_ndata : forall n, nown g n <> OThread t -> nown g n <> OPop t -> ndata m' n = ndata m n;
  mp_fnode : forall u, u <> t -> fnode m' u = fnode m u
}.

Lemma mpriv_refl t g m : mpriv t g m m.
Proof. constructor; auto. Qed.

Lemma mpriv_chain t g m m' q : mpriv t g m m' -> chain m' g q = chain m g q.
Proof. intros P. unfold chain. now rewrite (mp_qhead _ _ _ _ P). Qed.

Ltac vcase u t :=
  destruct (Nat.eq_dec u t) as [->|?]; [rewrite ?upd_same in *|rewrite ?upd_other in * by auto].

Lemma inv_private m m' V g t v' :
  KInv m V g -> mpriv t g m m' -> vwf v' ->
  (fstate m' t = fstate m t \/ fstate m' t = ST_WAITING \/ forall q, isq q -> hand g q <> Some t) ->
  (fnode m' t = fnode m t \/ forall q, isq q -> hand g q <> Some t) ->
  (fnode m' t <> O -> nown g (fnode m' t) = OThread t) ->
  (forall q, vholds q v' = true -> tok g q = THeld t) ->
  (forall q wp, v_wait v' = Some (q, wp) -> v_lockw v' = true -> got g t = true -> tok g q = THeld t) ->
  (forall q cnt wc kp, v_wake v' = Some (q, cnt, wc, VP kp) -> is_mutex q = true -> tok g q = TPass t /\ wc = 0) ->
  (forall q a b, v_wait (V t) = Some (q, WPLink a b) -> v_wait v' = Some (q, WPLink a b)) ->
  (forall q wp, v_wait (V t) = Some (q, wp) -> afterx wp = true -> got g t = false ->
     exists wp', v_wait v' = Some (q, wp') /\ afterx wp' = true) ->
  (forall q cnt wc w, v_wake (V t) = Some (q, cnt, wc, w) -> inhand w = true ->
     exists cnt' wc' w', v_wake v' = Some (q, cnt', wc', w') /\ inhand w' = true) ->
  (forall q cnt wc w, v_wake v' = Some (q, cnt, wc, w) -> pop_local m' g t q w) ->
  (forall q wp, v_wait v' = Some (q, wp) -> push_local m' g t q wp) ->
  acct_local m' g t (v_wait v') -> stat_local m' t (v_wait v') ->
  (has_node g t (v_wait v') -> fnode m' t <> O) ->
  (forall q, slot_mutex m' t = Some q ->
     q = UMUTEX /\ v_cw3 v' = true /\ exists wp, v_wait v' = Some (COND, wp) /\ premaint wp = true) ->
  (forall q q' ip, v_wait v' = Some (q, WPYield (YPMaint q' ip)) -> v_cw3 v' = true) ->
  KInv m' (upd V t v') g.
Proof.
  intros I P W Hst Hfn Hown H1 H2 H3 H4 H5 H6 H7 H8 H9 H10 H11 H12 H13.
  assert (CH : forall q, chain m' g q = chain m g q) by (intros; eapply mpriv_chain; eauto).
  assert (CN : forall q n, isq q -> In n (chain m g q) -> nnext m' n = nnext m n /\ ndata m' n = ndata m n).
  { intros q n Hq Hn. destruct (q_nodes _ _ _ I q n Hq Hn) as [_ O].
    split; [apply (mp_nnext _ _ _ _ P)|apply (mp_ndata _ _ _ _ P)]; rewrite O; discriminate. }
  assert (HD : forall q, In (qhead m q) (chain m g q)) by (intros; left; reflexivity).
  constructor.
  - intros u q. vcase u t; [apply H1|apply I].
  - intros u q wp. vcase u t; [apply H2|apply I].
  - intros u q cnt wc kp. vcase u t; [apply H3|apply I].
  - intros q Hq. rewrite (mp_word _ _ _ _ P q Hq). apply I; auto.
  - intros q Hq. rewrite CH. apply I; auto.
  - intros q n Hq. rewrite CH. apply I; auto.
  - intros q Hq. rewrite CH, (mp_qtail _ _ _ _ P). apply I; auto.
  - intros q a b Hq. rewrite CH. intros Hc.
    destruct (CN q a Hq (proj1 (consec_in _ _ _ Hc))) as [-> _].
    destruct (q_link _ _ _ I q a b Hq Hc) as [E|[E [u Hu]]]; [left; auto|right; split; auto].
    exists u. vcase u t; auto.
  - intros q Hq. rewrite (mp_qtail _ _ _ _ P).
    assert (Hin : In (qtail m q) (chain m g q)) by (rewrite (q_tail _ _ _ I q Hq); apply last_in).
    destruct (CN q _ Hq Hin) as [-> _]. apply I; auto.
  - intros q e n Hq Hin.
    assert (Hn : In n (chain m g q)) by (right; apply in_map_iff; exists (e, n); auto).
    destruct (CN q n Hq Hn) as [_ ->].
    destruct (q_ent _ _ _ I q e n Hq Hin) as (A & B & wp & C & D). repeat split; auto.
    vcase e t; eauto.
  - intros q Hq. apply I; auto.
  - intros q e Hq Hh. destruct (q_hand _ _ _ I q e Hq Hh) as (A & B & (wp & C & D) & (u & cnt & wc & w & E & F)).
    repeat split; auto.
    + vcase e t; eauto.
    + vcase u t; [destruct (H6 _ _ _ _ E F) as (cnt' & wc' & w' & G1 & G2); exists t, cnt', wc', w'; rewrite upd_same; auto|].
      exists u, cnt, wc, w. rewrite upd_other by auto. auto.
  - intros u q cnt wc w. vcase u t; [apply H7|].
    intros Hw. pose proof (l_pop _ _ _ I u q cnt wc w Hw) as L.
    destruct (w_wake _ (l_wf _ _ _ I u) _ _ _ _ Hw) as (Hq & _).
    destruct w as [kp|]; [|exact L].
    destruct kp as [|h|h nx|h nx|h d|h|f|f|sp]; cbn in *; rewrite ?(mp_qhead _ _ _ _ P); auto.
    + destruct L as (-> & L2 & L3 & L4). destruct (CN q _ Hq (HD q)) as [-> _]. auto.
    + destruct L as (L1 & L2 & L3 & e & L4 & L5). repeat split; auto. exists e. split; auto.
      rewrite <- L1. destruct (CN q _ Hq (HD q)) as [_ ->]. rewrite L1. exact L5.
    + destruct L as (L1 & L2 & e & L3 & L4). repeat split; auto. exists e. split; auto.
      rewrite (mp_ndata _ _ _ _ P); auto; rewrite L1; [discriminate|]. intros Q; inversion Q; congruence.
    + destruct L as (L1 & L2). split; auto.
      destruct (Nat.eq_dec f t) as [->|Hf]; [|rewrite (mp_fnode _ _ _ _ P f Hf); auto].
      destruct Hfn as [->|Hfn]; auto. exfalso. eapply Hfn; eauto.
    + destruct L as (L1 & L2 & L3). repeat split; auto.
      * destruct (Nat.eq_dec f t) as [->|Hf]; [|rewrite (mp_fnode _ _ _ _ P f Hf); auto].
        destruct Hfn as [->|Hfn]; auto. exfalso. eapply Hfn; eauto.
      * destruct (Nat.eq_dec f t) as [->|Hf]; [|rewrite (mp_state _ _ _ _ P f Hf); auto].
        destruct Hst as [Hst|[Hst|Hst]]; [congruence|auto|]. exfalso. eapply Hst; eauto.
  - intros u q wp. vcase u t; [apply H8|].
    intros Hw. pose proof (l_push _ _ _ I u q wp Hw) as L.
    destruct (w_wait _ (l_wf _ _ _ I u) _ _ Hw) as (Hq & _).
    assert (NE : forall n0, nown g n0 = OThread u -> nown g n0 <> OThread t /\ nown g n0 <> OPop t).
    { intros n0 ->. split; [intros Q; inversion Q; congruence|discriminate]. }
    destruct wp as [| |n0|n0|a b|yp]; cbn in *; auto.
    + destruct L as (L1 & L2 & L3 & L4). destruct (NE _ L2). repeat split; auto;
        [rewrite (mp_ndata _ _ _ _ P)|rewrite (mp_fnode _ _ _ _ P)]; auto.
    + destruct L as (L1 & L2 & L3 & L4 & L5). destruct (NE _ L2). repeat split; auto;
        [rewrite (mp_ndata _ _ _ _ P)|rewrite (mp_fnode _ _ _ _ P)|rewrite (mp_nnext _ _ _ _ P)]; auto.
    + rewrite CH. destruct L as (L1 & L2 & L3). repeat split; auto.
      destruct (CN q a Hq (proj1 (consec_in _ _ _ L1))) as [-> _]. exact L2.
  - intros u. vcase u t; [exact H9|].
    pose proof (l_acct _ _ _ I u) as L. unfold acct_local in *.
    rewrite (mp_pend _ _ _ _ P u), (mp_blocked _ _ _ _ P u) by auto. exact L.
  - intros u. vcase u t; [exact H10|].
    pose proof (l_stat _ _ _ I u) as L. unfold stat_local in *.
    rewrite (mp_state _ _ _ _ P u) by auto. exact L.
  - intros u. destruct (Nat.eq_dec u t) as [->|Hu]; [exact Hown|].
    rewrite (mp_fnode _ _ _ _ P u Hu). apply I.
  - intros u. destruct (Nat.eq_dec u t) as [->|Hu].
    + rewrite upd_same. exact H11.
    + rewrite upd_other by auto. rewrite (mp_fnode _ _ _ _ P u Hu). apply I.
  - intros u q. vcase u t; [apply H12|]. rewrite (mp_slot _ _ _ _ P u) by auto. apply I.
  - intros u q q' ip. vcase u t; [apply H13|apply I].
  - intros u. vcase u t; [exact W|apply I].
Qed.

(* the cond accounting when only the view of t changes *)
Lemma cinv_view V g c t v' :
  CInv V g c ->
  (v_h1 v' = true -> g_trans c = (if v_trans v' then 1 else 0) /\ g_claimed c - g_rel c = vout v') ->
  (v_h1 v' = false -> v_h1 (V t) = true -> g_trans c = 0 /\ g_claimed c = g_rel c) ->
  (forall cnt wc w, v_wake v' = Some (COND, cnt, wc, w) ->
     0 <= wc /\ (match w with VDone => wc = cnt | VP _ => wc < cnt end) /\ cnt = myclaim c t /\ wc = myrel c t) ->
  ((v_cw3 v' = true /\ got g t = false) <-> (v_cw3 (V t) = true /\ got g t = false)) ->
  CInv (upd V t v') g c.
Proof.
  intros I H14 H15 H16 H17. constructor.
  - intros u. vcase u t; [exact H14|apply I].
  - intros F. destruct (v_h1 (V t)) eqn:Eh.
    + apply H15; auto. specialize (F t). now rewrite upd_same in F.
    + apply (cn_free _ _ _ I). intros u. specialize (F u). vcase u t; auto.
  - intros u cnt wc w. vcase u t; [apply H16|apply I].
  - apply I.
  - apply I.
  - intros u. vcase u t; [|apply I]. rewrite H17. apply I.
Qed.

(* ------------------------------------------------------------------ *)
(* Effect 1: the counter word, token and wanters count of mutex q change *)
Lemma k_tok m V g q w' k' gw' :
  KInv m V g -> is_mutex q = true ->
  (w' = 1 - hv k' - gw' /\ 0 <= gw' /\ (forall u, k' = TPass u -> 1 <= gw')) ->
  (forall t, vholds q (V t) = true -> k' = THeld t) ->
  (forall t wp, v_wait (V t) = Some (q, wp) -> v_lockw (V t) = true -> got g t = true -> k' = THeld t) ->
  (forall t cnt wc kp, v_wake (V t) = Some (q, cnt, wc, VP kp) -> k' = TPass t) ->
  KInv (set_word m q w') V (set_gw (set_tok g q k') q gw').
Proof.
  intros I Hq Hc H1 H2 H3. constructor; try (exact (l_wf _ _ _ I)).
  - intros t q0. cbn. intros Hh. destruct (Nat.eq_dec q0 q) as [->|Hn].
    + rewrite upd_same. auto.
    + rewrite upd_other by auto. apply I; auto.
  - intros t q0 wp. cbn. intros A B C. destruct (Nat.eq_dec q0 q) as [->|Hn].
    + rewrite upd_same. eauto.
    + rewrite upd_other by auto. eapply (tk_got _ _ _ I); eauto.
  - intros t q0 cnt wc kp. cbn. intros A B. destruct (Nat.eq_dec q0 q) as [->|Hn].
    + rewrite upd_same. split; [eauto|]. eapply (tk_pass _ _ _ I); eauto.
    + rewrite upd_other by auto. eapply (tk_pass _ _ _ I); eauto.
  - intros q0 Hq0. cbn. destruct (Nat.eq_dec q0 q) as [->|Hn].
    + rewrite !upd_same. exact Hc.
    + rewrite !upd_other by auto. apply I; auto.
  - exact (q_nodup _ _ _ I).
  - exact (q_nodes _ _ _ I).
  - exact (q_tail _ _ _ I).
  - exact (q_link _ _ _ I).
  - exact (q_last _ _ _ I).
  - exact (q_ent _ _ _ I).
  - exact (q_uniq _ _ _ I).
  - exact (q_hand _ _ _ I).
  - intros u q0 cnt wc w Hw. pose proof (l_pop _ _ _ I u q0 cnt wc w Hw) as L.
    destruct w as [[]|]; exact L.
  - intros t q0 wp Hw. pose proof (l_push _ _ _ I t q0 wp Hw) as L. destruct wp; exact L.
  - exact (l_acct _ _ _ I).
  - exact (l_stat _ _ _ I).
  - exact (l_own _ _ _ I).
  - exact (l_node _ _ _ I).
  - exact (l_slot _ _ _ I).
  - exact (l_maint _ _ _ I).
Qed.

(* ------------------------------------------------------------------ *)
(* Effect 2: the tail exchange of a push *)
Lemma nowake_in_wait V m g t q wp : KInv m V g -> v_wait (V t) = Some (q, wp) ->
  (forall q', wp <> WPYield (YPMaint q' IPAdd)) -> v_wake (V t) = None /\ v_uadd (V t) = None.
Proof.
  intros I Hw Hn. pose proof (l_wf _ _ _ I t) as W.
  split.
  - destruct (v_wake (V t)) eqn:E; auto. exfalso. eapply Hn. eapply (w_maint _ W); eauto. right. congruence.
  - destruct (v_uadd (V t)) eqn:E; auto. exfalso. eapply Hn. eapply (w_maint _ W); eauto. left. congruence.
Qed.

Lemma NoDup_app_snoc {A} (l : list A) x : NoDup l /\ ~ In x l -> NoDup (l ++ [x]).
Proof.
  intros [H N]. induction H as [|y l Hy H IH]; cbn.
  - constructor; [intros []|constructor].
  - constructor.
    + intros Hin. apply in_app_or in Hin. destruct Hin as [Hin|[->|[]]]; [auto|apply N; left; reflexivity].
    + apply IH. intros Hin. apply N. right. exact Hin.
Qed.

Lemma consec_last {A} (l : list A) d n : l <> [] -> consec (last l d) n (l ++ [n]).
Proof.
  intros H. exists (removelast l), []. rewrite (app_removelast_last d H) at 1.
  now rewrite <- app_assoc.
Qed.

Lemma chain_snoc m g q t n : chain m (set_nown (set_gq g q (gq g q ++ [(t, n)])) n (OList q)) q = chain m g q ++ [n].
Proof. unfold chain. cbn. rewrite upd_same, map_app. reflexivity. Qed.

Lemma chain_other m g q q' x o n : q' <> q -> chain m (set_nown (set_gq g q x) n o) q' = chain m g q'.
Proof. intros H. unfold chain. cbn. now rewrite upd_other. Qed.

Lemma consec_app_l {A} (a b : A) l r : consec a b l -> consec a b (l ++ r).
Proof. intros [l1 [l2 ->]]. exists l1, (l2 ++ r). now rewrite <- app_assoc. Qed.

Lemma vwf_set_wait v q wp wp' :
  vwf v -> v_wait v = Some (q, wp) -> v_wake v = None -> v_uadd v = None -> norm_wp wp' = wp' ->
  vwf (set_vwait v (Some (q, wp'))).
Proof.
  intros W Hw Nw Nu Hn. destruct (w_wait _ W _ _ Hw) as (A & B & C & D & E & F).
  constructor; cbn.
  - intros q0 Q. congruence.
  - intros q0 cnt wc w Q. congruence.
  - intros q0 wp0 Q. inversion Q; subst. split; [auto|]. split; [auto|]. split; [exact C|]. split; [exact D|]. split; auto.
  - intros Q. destruct (w_cw3 _ W Q) as (wp0 & G & H). rewrite Hw in G. inversion G; subst. eauto.
  - intros Q. rewrite F in Q. discriminate.
  - intros q0 wp0 Q [H|H]; congruence.
Qed.

Lemma k_wxchg m V g t q n :
  KInv m V g -> v_wait (V t) = Some (q, WPXchg n) ->
  KInv (set_qtail m q n)
       (upd V t (set_vwait (V t) (Some (q, WPLink (qtail m q) n))))
       (set_nown (set_gq g q (gq g q ++ [(t, n)])) n (OList q)).
Proof.
  intros I Hw.
  pose proof (l_wf _ _ _ I t) as Wt.
  destruct (w_wait _ Wt _ _ Hw) as (Hq & _ & WL1 & WL2 & Wh1 & Wtr).
  destruct (l_push _ _ _ I t q _ Hw) as (Nn & No & Nd & Nf & Nx).
  pose proof (l_acct _ _ _ I t) as At. rewrite Hw in At. cbn in At. destruct At as (Ag & Ap & Ab).
  destruct (nowake_in_wait _ _ _ _ _ _ I Hw ltac:(discriminate)) as [Nw Nu].
  assert (NIN : forall q', isq q' -> ~ In n (chain m g q')).
  { intros q' Hq' Hin. destruct (q_nodes _ _ _ I q' n Hq' Hin) as [_ E]. congruence. }
  assert (NE : forall e n', In (e, n') (gq g q) -> e <> t).
  { intros e n' Hin ->. destruct (q_ent _ _ _ I q t n' Hq Hin) as (_ & _ & wp & E & F). rewrite Hw in E. inversion E; subst. discriminate. }
  assert (NEq : forall q' e n', isq q' -> In (e, n') (gq g q') -> e <> t).
  { intros q' e n' Hq' Hin ->. destruct (q_ent _ _ _ I q' t n' Hq' Hin) as (_ & _ & wp & E & F). rewrite Hw in E. inversion E; subst. discriminate. }
  assert (NH : forall q', isq q' -> hand g q' <> Some t).
  { intros q' Hq' Hh. destruct (q_hand _ _ _ I q' t Hq' Hh) as (_ & _ & (wp & E & F) & _). rewrite Hw in E. inversion E; subst. discriminate. }
  set (v' := set_vwait (V t) (Some (q, WPLink (qtail m q) n))).
  set (g' := set_nown (set_gq g q (gq g q ++ [(t, n)])) n (OList q)).
  assert (CHq : chain (set_qtail m q n) g' q = chain m g q ++ [n]) by exact (chain_snoc m g q t n).
  assert (CHo : forall q', q' <> q -> chain (set_qtail m q n) g' q' = chain m g q') by (intros q' Hq'; exact (chain_other m g q q' _ _ _ Hq')).
  assert (NOWN : forall n', n' <> n -> nown g' n' = nown g n') by (intros; cbn; now rewrite upd_other).
  constructor.
  - intros u q0. vcase u t; [exact (tk_hold _ _ _ I t q0)|apply I].
  - intros u q0 wp. vcase u t.
    + cbn. intros E L G. rewrite Ag in G. discriminate.
    + apply I.
  - intros u q0 cnt wc kp. vcase u t; [cbn; rewrite Nw; discriminate|apply I].
  - exact (tk_count _ _ _ I).
  - intros q0 Hq0. destruct (Nat.eq_dec q0 q) as [->|Hn].
    + rewrite CHq. apply NoDup_app_snoc. split; [apply I; auto|apply NIN; auto].
    + rewrite CHo by auto. apply I; auto.
  - intros q0 n0 Hq0. destruct (Nat.eq_dec q0 q) as [->|Hn].
    + rewrite CHq. intros Hin. apply in_app_or in Hin. destruct Hin as [Hin|[<-|[]]].
      * destruct (q_nodes _ _ _ I q n0 Hq Hin) as [A B]. split; auto. rewrite NOWN; auto.
        intros ->. eapply NIN; eauto.
      * split; auto. cbn. now rewrite upd_same.
    + rewrite CHo by auto. intros Hin. destruct (q_nodes _ _ _ I q0 n0 Hq0 Hin) as [A B]. split; auto.
      rewrite NOWN; auto. intros ->. eapply NIN; eauto.
  - intros q0 Hq0. destruct (Nat.eq_dec q0 q) as [->|Hn].
    + rewrite CHq. cbn [qtail set_qtail]. rewrite upd_same. now rewrite last_last.
    + rewrite CHo by auto. cbn [qtail set_qtail]. rewrite upd_other by auto. apply I; auto.
  - intros q0 a b Hq0. destruct (Nat.eq_dec q0 q) as [->|Hn].
    + rewrite CHq. intros Hc. apply (consec_snoc a b n (chain m g q) O) in Hc; [|discriminate].
      destruct Hc as [Hc|[-> ->]].
      * destruct (q_link _ _ _ I q a b Hq Hc) as [E|[E [u Hu]]]; [left; exact E|right; split; [exact E|]].
        exists u. vcase u t; [congruence|exact Hu].
      * right. rewrite <- (q_tail _ _ _ I q Hq). split; [exact (q_last _ _ _ I q Hq)|].
        exists t. rewrite upd_same. reflexivity.
    + rewrite CHo by auto. intros Hc.
      destruct (q_link _ _ _ I q0 a b Hq0 Hc) as [E|[E [u Hu]]]; [left; exact E|right; split; [exact E|]].
      exists u. vcase u t; [congruence|exact Hu].
  - intros q0 Hq0. cbn. destruct (Nat.eq_dec q0 q) as [->|Hn].
    + rewrite upd_same. exact Nx.
    + rewrite upd_other by auto. apply I; auto.
  - intros q0 e n0 Hq0. cbn. destruct (Nat.eq_dec q0 q) as [->|Hn].
    + rewrite upd_same. intros Hin. apply in_app_or in Hin. destruct Hin as [Hin|[Q|[]]].
      * destruct (q_ent _ _ _ I q e n0 Hq Hin) as (A & B & wp & C & D). repeat split; auto.
        exists wp. rewrite upd_other by (eapply NE; eauto). auto.
      * inversion Q; subst. repeat split; auto. exists (WPLink (qtail m q) n0). rewrite upd_same. auto.
    + rewrite upd_other by auto. intros Hin.
      destruct (q_ent _ _ _ I q0 e n0 Hq0 Hin) as (A & B & wp & C & D). repeat split; auto.
      exists wp. rewrite upd_other by (eapply NEq; eauto). auto.
  - intros q0 Hq0. cbn. destruct (Nat.eq_dec q0 q) as [->|Hn].
    + rewrite upd_same, map_app. apply NoDup_app_snoc. split; [apply I; auto|].
      intros Hin. apply in_map_iff in Hin. destruct Hin as [[e n'] [Q Hin]]. cbn in Q. subst. eapply NE; eauto.
    + rewrite upd_other by auto. apply I; auto.
  - intros q0 e Hq0. cbn. intros Hh.
    destruct (q_hand _ _ _ I q0 e Hq0 Hh) as (A & B & (wp & C & D) & (u & cnt & wc & w & E & F)).
    assert (e <> t) by (intros ->; eapply NH; eauto).
    assert (u <> t) by (intros ->; congruence).
    repeat split; auto.
    + destruct (Nat.eq_dec q0 q) as [->|Hn]; [rewrite upd_same|rewrite upd_other by auto; auto].
      rewrite map_app. intros Hin. apply in_app_or in Hin. destruct Hin as [Hin|[Q|[]]]; auto.
    + exists wp. rewrite upd_other by auto. auto.
    + exists u, cnt, wc, w. rewrite upd_other by auto. auto.
  - intros u q0 cnt wc w. vcase u t; [cbn; rewrite Nw; discriminate|].
    intros Hwk. pose proof (l_pop _ _ _ I u q0 cnt wc w Hwk) as L.
    destruct w as [kp|]; [|exact L].
    assert (OP : forall h, nown g h = OPop u -> nown g' h = OPop u).
    { intros h E. rewrite NOWN; auto. intros ->. congruence. }
    destruct kp as [|h|h nx|h nx|h d|h|f|f|sp]; cbn in *; auto.
    + destruct L as (L1 & L2 & L3 & L4). repeat split; auto; try (apply OP; auto).
    + destruct L as (L1 & L2 & L3). repeat split; auto; try (apply OP; auto).
    + destruct L as (L1 & L2 & L3). repeat split; auto; try (apply OP; auto).
  - intros u q0 wp. vcase u t.
    + cbn. intros E. inversion E; subst. cbn. rewrite CHq. repeat split.
      * rewrite (q_tail _ _ _ I q0 Hq). apply consec_last. discriminate.
      * exact (q_last _ _ _ I q0 Hq).
      * rewrite upd_same. apply in_or_app. right. left. reflexivity.
    + intros Hwu. pose proof (l_push _ _ _ I u q0 wp Hwu) as L.
      assert (OT : forall n1, nown g n1 = OThread u -> nown g' n1 = OThread u).
      { intros n1 E. rewrite NOWN; auto. intros ->. rewrite No in E. inversion E. congruence. }
      destruct wp as [| |n1|n1|a b|yp]; cbn [push_local] in *; auto.
      * destruct L as (L1 & L2 & L3 & L4). repeat split; auto.
      * destruct L as (L1 & L2 & L3 & L4 & L5). repeat split; auto.
      * destruct L as (L1 & L2 & L3). destruct (Nat.eq_dec q0 q) as [->|Hn].
        -- rewrite CHq. cbn [gq g' set_nown set_gq]. rewrite upd_same.
           repeat split; auto; [apply consec_app_l; auto|apply in_or_app; auto].
        -- rewrite CHo by auto. cbn [gq g' set_nown set_gq]. rewrite upd_other by auto. auto.
  - intros u. vcase u t.
    + cbn. rewrite Ag. auto.
    + apply I.
  - intros u. vcase u t.
    + cbn. pose proof (l_stat _ _ _ I t) as S. rewrite Hw in S. exact S.
    + apply I.
  - intros u Hf. cbn in *. rewrite NOWN; [apply I; auto|].
    intros E. destruct (Nat.eq_dec u t) as [->|Hu]; [congruence|].
    pose proof (l_own _ _ _ I u Hf) as O. rewrite E, No in O. inversion O. congruence.
  - intros u. vcase u t.
    + cbn. intros [H|H]; [discriminate|]. rewrite Ag in H. discriminate.
    + apply I.
  - intros u q0. vcase u t; [|apply I]. cbn. intros Hs.
    destruct (l_slot _ _ _ I t q0 Hs) as (A & B & wp & C & D). repeat split; auto.
    rewrite Hw in C. inversion C; subst. eauto.
  - intros u q0 q' ip. vcase u t; [cbn; discriminate|apply I].
  - intros u. vcase u t; [|apply I].
    eapply vwf_set_wait; eauto.
Qed.

(* ------------------------------------------------------------------ *)
(* more list facts *)
Lemma consec_nodup_fun {A} (a b b' : A) l : NoDup l -> consec a b l -> consec a b' l -> b = b'.
Proof.
  induction l as [|x l IH]; intros N C1 C2.
  - destruct C1 as [[|? ?] [? E]]; discriminate E.
  - inversion N as [|? ? Hx N']; subst.
    apply consec_cons in C1. apply consec_cons in C2.
    destruct C1 as [[-> [l2 ->]]|C1]; destruct C2 as [[E2 [l3 E3]]|C2].
    + inversion E3; subst; reflexivity.
    + exfalso. apply Hx. apply (consec_in _ _ _ C2).
    + subst. exfalso. apply Hx. apply (consec_in _ _ _ C1).
    + apply IH; auto.
Qed.

Lemma consec_head_notin {A} (a b : A) l : NoDup (b :: l) -> ~ consec a b (b :: l).
Proof.
  intros N C. inversion N as [|? ? Hb _]; subst. apply Hb.
  apply consec_cons in C. destruct C as [[_ [l2 ->]]|C]; [left; reflexivity|].
  apply (consec_in _ _ _ C).
Qed.

Lemma consec_nodup_pred {A} (a a' b : A) l : NoDup l -> consec a b l -> consec a' b l -> a = a'.
Proof.
  induction l as [|x l IH]; intros N C1 C2.
  - destruct C1 as [[|? ?] [? E]]; discriminate E.
  - inversion N as [|? ? Hx N']; subst.
    apply consec_cons in C1. apply consec_cons in C2.
    destruct C1 as [[E1 [l2 E1']]|C1]; destruct C2 as [[E2 [l3 E2']]|C2].
    + congruence.
    + exfalso. rewrite E1' in N', C2. eapply consec_head_notin; eauto.
    + exfalso. rewrite E2' in N', C1. eapply consec_head_notin; eauto.
    + apply IH; auto.
Qed.

Lemma consec_not_last {A} (a b d : A) l : NoDup l -> consec a b l -> a <> last l d.
Proof.
  intros N [l1 [l2 ->]] E.
  assert (L : last (l1 ++ a :: b :: l2) d = last (b :: l2) d).
  { clear. induction l1 as [|y l1 IH]; [reflexivity|].
    cbn [app]. destruct (l1 ++ a :: b :: l2) eqn:E; [destruct l1; discriminate E|].
    rewrite <- E in *. cbn [last]. rewrite E. rewrite <- E. exact IH. }
  rewrite L in E. apply NoDup_remove_2 in N. apply N. apply in_or_app. right.
  rewrite E. apply last_in.
Qed.

Lemma nodup_snd_fun {A B} (l : list (A * B)) x y b :
  NoDup (map snd l) -> In (x, b) l -> In (y, b) l -> x = y.
Proof.
  induction l as [|[z c] l IH]; cbn; intros N H1 H2; [destruct H1|].
  inversion N as [|? ? Hc N']; subst.
  destruct H1 as [E1|H1]; destruct H2 as [E2|H2].
  - congruence.
  - inversion E1; subst. exfalso. apply Hc. apply in_map_iff. exists (y, b). auto.
  - inversion E2; subst. exfalso. apply Hc. apply in_map_iff. exists (x, b). auto.
  - eauto.
Qed.

(* ------------------------------------------------------------------ *)
(* basic consequences *)
Lemma chain_same_q m V g q q0 a : KInv m V g -> isq q -> isq q0 ->
  In a (chain m g q) -> In a (chain m g q0) -> q = q0.
Proof.
  intros I H H0 A B. destruct (q_nodes _ _ _ I q a H A) as [_ E].
  destruct (q_nodes _ _ _ I q0 a H0 B) as [_ E0]. congruence.
Qed.

Lemma popper_unique m V g u u' q cnt wc kp cnt' wc' kp' : KInv m V g ->
  v_wake (V u) = Some (q, cnt, wc, VP kp) -> v_wake (V u') = Some (q, cnt', wc', VP kp') -> u = u'.
Proof.
  intros I A B. destruct (w_wake _ (l_wf _ _ _ I u) _ _ _ _ A) as (Hq & Hc & _).
  destruct (w_wake _ (l_wf _ _ _ I u') _ _ _ _ B) as (_ & Hc' & _).
  destruct Hq as [->|[->| ->]].
  - destruct (tk_pass _ _ _ I u _ _ _ _ A eq_refl) as [E _].
    destruct (tk_pass _ _ _ I u' _ _ _ _ B eq_refl) as [E' _]. congruence.
  - destruct (tk_pass _ _ _ I u _ _ _ _ A eq_refl) as [E _].
    destruct (tk_pass _ _ _ I u' _ _ _ _ B eq_refl) as [E' _]. congruence.
  - destruct (Hc eq_refl) as [H1 _]. destruct (Hc' eq_refl) as [H1' _].
    pose proof (tk_hold _ _ _ I u 1%nat H1) as E. pose proof (tk_hold _ _ _ I u' 1%nat H1') as E'. congruence.
Qed.

Lemma in_chain_snd m g q e n : In (e, n) (gq g q) -> In n (chain m g q).
Proof. intros H. right. apply in_map_iff. exists (e, n). auto. Qed.

(* ------------------------------------------------------------------ *)
(* Effect 3: the link store of a push *)
Lemma k_wlink m V g t q a b :
  KInv m V g -> v_wait (V t) = Some (q, WPLink a b) ->
  KInv (set_nnext m a b) (upd V t (set_vwait (V t) (Some (q, WPYield (YPRead false))))) g.
Proof.
  intros I Hw.
  pose proof (l_wf _ _ _ I t) as Wt.
  destruct (w_wait _ Wt _ _ Hw) as (Hq & _).
  destruct (l_push _ _ _ I t q _ Hw) as (Lc & Lx & Li).
  destruct (nowake_in_wait _ _ _ _ _ _ I Hw ltac:(discriminate)) as [Nw Nu].
  pose proof (q_nodup _ _ _ I q Hq) as ND.
  destruct (consec_in _ _ _ Lc) as [Ina Inb].
  assert (CH : forall q0, chain (set_nnext m a b) g q0 = chain m g q0) by reflexivity.
  assert (NX : forall n, n <> a -> nnext (set_nnext m a b) n = nnext m n) by (intros; cbn; now rewrite upd_other).
  assert (NXa : nnext (set_nnext m a b) a = b) by (cbn; now rewrite upd_same).
  assert (NA : forall q0 n, isq q0 -> In n (chain m g q0) -> q0 <> q -> n <> a).
  { intros q0 n H0 Hin Hne ->. apply Hne. eapply chain_same_q; eauto. }
  constructor.
  - intros u q0. vcase u t; [exact (tk_hold _ _ _ I t q0)|apply I].
  - intros u q0 wp. vcase u t.
    + cbn. intros E. inversion E; subst. intros L G. eapply (tk_got _ _ _ I t); eauto.
    + apply I.
  - intros u q0 cnt wc kp. vcase u t; [cbn; rewrite Nw; discriminate|apply I].
  - exact (tk_count _ _ _ I).
  - exact (q_nodup _ _ _ I).
  - exact (q_nodes _ _ _ I).
  - exact (q_tail _ _ _ I).
  - intros q0 a' b' Hq0. rewrite CH. intros Hc.
    destruct (Nat.eq_dec a' a) as [->|Hne].
    + left. rewrite NXa.
      assert (q0 = q) by (apply (chain_same_q m V g q0 q a I Hq0 Hq); [exact (proj1 (consec_in _ _ _ Hc))|exact Ina]). subst q0.
      eapply consec_nodup_fun; eauto.
    + rewrite NX by auto.
      destruct (q_link _ _ _ I q0 a' b' Hq0 Hc) as [E|[E [u Hu]]]; [left; exact E|right; split; [exact E|]].
      exists u. vcase u t; [|exact Hu]. rewrite Hw in Hu. inversion Hu; subst. congruence.
  - intros q0 Hq0. cbn [qtail set_nnext]. rewrite NX; [apply I; auto|].
    destruct (Nat.eq_dec q0 q) as [->|Hne].
    + rewrite (q_tail _ _ _ I q Hq). intros E. eapply consec_not_last; eauto.
    + apply (NA q0); auto. rewrite (q_tail _ _ _ I q0 Hq0). apply last_in.
  - intros q0 e n Hq0 Hin. destruct (q_ent _ _ _ I q0 e n Hq0 Hin) as (A & B & wp & C & D).
    repeat split; auto. vcase e t; [|eauto]. rewrite Hw in C. inversion C; subst. cbn. eauto.
  - exact (q_uniq _ _ _ I).
  - intros q0 e Hq0 Hh. destruct (q_hand _ _ _ I q0 e Hq0 Hh) as (A & B & (wp & C & D) & (u & cnt & wc & w & E & F)).
    repeat split; auto.
    + vcase e t; [|eauto]. rewrite Hw in C. inversion C; subst. cbn. eauto.
    + exists u, cnt, wc, w. vcase u t; [congruence|auto].
  - intros u q0 cnt wc w. vcase u t; [cbn; rewrite Nw; discriminate|].
    intros Hwk. pose proof (l_pop _ _ _ I u q0 cnt wc w Hwk) as L.
    destruct w as [kp|]; [|exact L].
    destruct kp as [|h|h nx|h nx|h d|h|f|f|sp]; cbn [pop_local] in *; auto.
    destruct L as (L1 & L2 & L3 & L4). repeat split; auto.
    rewrite NX; auto. intros ->. rewrite Lx in L2. congruence.
  - intros u q0 wp. vcase u t; [cbn; intros E; inversion E; subst; exact Logic.I|].
    intros Hwu. pose proof (l_push _ _ _ I u q0 wp Hwu) as L.
    destruct (w_wait _ (l_wf _ _ _ I u) _ _ Hwu) as (Hq0 & _).
    destruct wp as [| |n1|n1|a' b'|yp]; cbn [push_local] in *; auto.
    + destruct L as (L1 & L2 & L3 & L4 & L5). repeat split; auto.
      rewrite NX; auto. intros ->. destruct (q_nodes _ _ _ I q a Hq Ina) as [_ O]. congruence.
    + rewrite CH. destruct L as (L1 & L2 & L3). repeat split; auto.
      rewrite NX; auto. intros ->.
      assert (q0 = q) by (apply (chain_same_q m V g q0 q a I Hq0 Hq); [exact (proj1 (consec_in _ _ _ L1))|exact Ina]). subst q0.
      assert (b' = b) by (eapply consec_nodup_fun; eauto). subst b'.
      assert (u = t); [|contradiction].
      eapply (nodup_snd_fun (gq g q)); eauto.
      pose proof ND as ND'. unfold chain in ND'. now inversion ND'.
  - intros u. vcase u t; [|apply I].
    pose proof (l_acct _ _ _ I t) as A. rewrite Hw in A. exact A.
  - intros u. vcase u t; [|apply I].
    pose proof (l_stat _ _ _ I t) as S. rewrite Hw in S. exact S.
  - exact (l_own _ _ _ I).
  - intros u. vcase u t; [|apply I]. cbn. intros H. apply (l_node _ _ _ I t). rewrite Hw. exact H.
  - intros u q0. vcase u t; [|apply I]. cbn. intros Hs.
    destruct (l_slot _ _ _ I t q0 Hs) as (A & B & wp & C & D). repeat split; auto.
    rewrite Hw in C. inversion C; subst. eauto.
  - intros u q0 q' ip. vcase u t; [cbn; discriminate|apply I].
  - intros u. vcase u t; [|apply I]. eapply vwf_set_wait; eauto.
Qed.

Lemma vwf_set_wake v q cnt wc w wc' w' :
  vwf v -> v_wake v = Some (q, cnt, wc, w) -> vwf (set_vwake v (Some (q, cnt, wc', w'))).
Proof.
  intros W Hw. destruct (w_wake _ W _ _ _ _ Hw) as (A & B & C).
  constructor; cbn.
  - intros q0 Q. destruct (w_uadd _ W _ Q) as (_ & _ & N). congruence.
  - intros q0 cnt0 wc0 w0 Q. inversion Q; subst. auto.
  - apply W.
  - apply W.
  - intros Q. destruct (w_trans _ W Q) as (_ & N & _). congruence.
  - intros q0 wp Q _. eapply (w_maint _ W); eauto. right. congruence.
Qed.

Lemma wake_not_wait_same m V g t q cnt wc w e wp :
  KInv m V g -> v_wake (V t) = Some (q, cnt, wc, w) -> v_wait (V e) = Some (q, wp) -> e <> t.
Proof.
  intros I A B ->. pose proof (l_wf _ _ _ I t) as W.
  destruct (w_wake _ W _ _ _ _ A) as (Hq & Hc & Hm).
  destruct (w_wait _ W _ _ B) as (_ & _ & L1 & L2 & _).
  assert (E : wp = WPYield (YPMaint UMUTEX IPAdd)) by (eapply (w_maint _ W); eauto; right; congruence).
  subst wp. pose proof (l_maint _ _ _ I t _ _ _ B) as C3.
  destruct (v_lockw (V t)) eqn:El.
  - destruct (L1 eq_refl) as [_ X]. congruence.
  - destruct (L2 eq_refl) as [-> _]. destruct (Hc eq_refl) as [_ X]. congruence.
Qed.

(* ------------------------------------------------------------------ *)
(* Effect 4: the consumer advances the head *)
Lemma k_sethead m V g t q cnt wc h nx :
  KInv m V g -> v_wake (V t) = Some (q, cnt, wc, VP (KPSetHead h nx)) ->
  exists e rest, gq g q = (e, nx) :: rest /\
  KInv (set_qhead m q nx)
       (upd V t (set_vwake (V t) (Some (q, cnt, wc, VP (KPData h nx)))))
       (set_nown (set_hand (set_gq g q rest) q (Some e)) h (OPop t)).
Proof.
  intros I Hw.
  pose proof (l_wf _ _ _ I t) as Wt.
  destruct (w_wake _ Wt _ _ _ _ Hw) as (Hq & _).
  destruct (l_pop _ _ _ I t _ _ _ _ Hw) as (Lh & Lx & Ln & Lhd).
  pose proof (q_nodup _ _ _ I q Hq) as ND.
  (* the list is not empty and its first entry is nx *)
  destruct (gq g q) as [|[e n1] rest] eqn:Eg.
  { exfalso. pose proof (q_tail _ _ _ I q Hq) as T. unfold chain in T. rewrite Eg in T. cbn in T.
    pose proof (q_last _ _ _ I q Hq) as L. rewrite T, <- Lh, <- Lx in L. contradiction. }
  assert (Cq : chain m g q = h :: n1 :: map snd rest) by (unfold chain; rewrite Eg, <- Lh; reflexivity).
  assert (n1 = nx).
  { destruct (q_link _ _ _ I q h n1 Hq) as [E|[E _]]; [rewrite Cq; exists [], (map snd rest); reflexivity|congruence|congruence]. }
  subst n1. exists e, rest. split; [reflexivity|].
  set (g' := set_nown (set_hand (set_gq g q rest) q (Some e)) h (OPop t)).
  set (m' := set_qhead m q nx).
  assert (CHq : chain m' g' q = nx :: map snd rest).
  { unfold chain, m', g'. cbn. now rewrite !upd_same. }
  assert (CHo : forall q0, q0 <> q -> chain m' g' q0 = chain m g q0).
  { intros q0 Hn. unfold chain, m', g'. cbn. now rewrite !upd_other by auto. }
  assert (SUB : forall n, In n (chain m' g' q) -> In n (chain m g q)).
  { intros n Hin. rewrite CHq in Hin. rewrite Cq. right. exact Hin. }
  assert (Hh : In h (chain m g q)) by (rewrite Cq; left; reflexivity).
  destruct (q_nodes _ _ _ I q h Hq Hh) as [Hh0 Hho].
  assert (NOWN : forall n, n <> h -> nown g' n = nown g n) by (intros; cbn; now rewrite upd_other).
  assert (NDt : NoDup (nx :: map snd rest)) by (rewrite Cq in ND; now inversion ND).
  assert (Hnh : forall n, In n (nx :: map snd rest) -> n <> h).
  { intros n Hin ->. rewrite Cq in ND. inversion ND; subst. contradiction. }
  assert (Ein : In (e, nx) (gq g q)) by (rewrite Eg; left; reflexivity).
  destruct (q_ent _ _ _ I q e nx Hq Ein) as (Ed & Eg0 & ewp & Ew & Ea).
  assert (Het : e <> t) by (eapply wake_not_wait_same; eauto).
  assert (UQ : NoDup (map fst (gq g q))) by (apply I; auto).
  rewrite Eg in UQ. cbn in UQ.
  constructor.
  - intros u q0. vcase u t; [exact (tk_hold _ _ _ I t q0)|apply I].
  - intros u q0 wp. vcase u t; [exact (tk_got _ _ _ I t q0 wp)|apply I].
  - intros u q0 cnt0 wc0 kp. vcase u t.
    + cbn. intros E. inversion E; subst. intros M. eapply (tk_pass _ _ _ I t); eauto.
    + apply I.
  - exact (tk_count _ _ _ I).
  - intros q0 Hq0. destruct (Nat.eq_dec q0 q) as [->|Hn]; [rewrite CHq; exact NDt|rewrite CHo by auto; apply I; auto].
  - intros q0 n Hq0. destruct (Nat.eq_dec q0 q) as [->|Hn].
    + intros Hin. destruct (q_nodes _ _ _ I q n Hq (SUB _ Hin)) as [A B]. split; auto.
      rewrite NOWN; auto. apply Hnh. now rewrite <- CHq.
    + rewrite CHo by auto. intros Hin. destruct (q_nodes _ _ _ I q0 n Hq0 Hin) as [A B]. split; auto.
      rewrite NOWN; auto. intros ->. apply Hn. eapply chain_same_q; eauto.
  - intros q0 Hq0. destruct (Nat.eq_dec q0 q) as [->|Hn].
    + rewrite CHq. cbn [qtail m' set_qhead]. rewrite (q_tail _ _ _ I q Hq), Cq. reflexivity.
    + rewrite CHo by auto. apply I; auto.
  - intros q0 a b Hq0. destruct (Nat.eq_dec q0 q) as [->|Hn].
    + rewrite CHq. intros Hc.
      assert (Hc' : consec a b (chain m g q)) by (rewrite Cq; apply consec_cons; right; exact Hc).
      destruct (q_link _ _ _ I q a b Hq Hc') as [E|[E [u Hu]]]; [left; exact E|right; split; [exact E|]].
      exists u. vcase u t; [cbn; exact Hu|exact Hu].
    + rewrite CHo by auto. intros Hc.
      destruct (q_link _ _ _ I q0 a b Hq0 Hc) as [E|[E [u Hu]]]; [left; exact E|right; split; [exact E|]].
      exists u. vcase u t; [cbn; exact Hu|exact Hu].
  - exact (q_last _ _ _ I).
  - intros q0 e0 n Hq0. cbn [gq g' set_nown set_hand set_gq]. intros Hin.
    assert (Hin' : In (e0, n) (gq g q0)).
    { destruct (Nat.eq_dec q0 q) as [->|Hn]; [rewrite upd_same in Hin; rewrite Eg; right; exact Hin|now rewrite upd_other in Hin]. }
    destruct (q_ent _ _ _ I q0 e0 n Hq0 Hin') as (A & B & wp & C & D). repeat split; auto.
    exists wp. vcase e0 t; [|auto]. cbn. auto.
  - intros q0 Hq0. cbn [gq g' set_nown set_hand set_gq]. destruct (Nat.eq_dec q0 q) as [->|Hn].
    + rewrite upd_same. now inversion UQ.
    + rewrite upd_other by auto. apply I; auto.
  - intros q0 e0 Hq0. cbn [gq hand got g' set_nown set_hand set_gq]. destruct (Nat.eq_dec q0 q) as [->|Hn].
    + rewrite !upd_same. intros E. inversion E; subst e0. repeat split; auto.
      * now inversion UQ.
      * exists ewp. rewrite upd_other by auto. auto.
      * exists t, cnt, wc, (VP (KPData h nx)). rewrite upd_same. auto.
    + rewrite !upd_other by auto. intros Hh1.
      destruct (q_hand _ _ _ I q0 e0 Hq0 Hh1) as (A & B & (wp & C & D) & (u & cnt0 & wc0 & w & E & F)).
      repeat split; auto.
      * exists wp. vcase e0 t; [cbn|]; auto.
      * exists u, cnt0, wc0, w. vcase u t; [congruence|auto].
  - intros u q0 cnt0 wc0 w. vcase u t.
    + cbn. intros E. inversion E; subst. cbn. rewrite !upd_same. repeat split; auto. exists e. auto.
    + intros Hwk. pose proof (l_pop _ _ _ I u q0 cnt0 wc0 w Hwk) as L.
      destruct w as [kp|]; [|destruct (Nat.eq_dec q0 q) as [->|Hn]; cbn; [exact Logic.I|exact Logic.I]].
      assert (Hn : q0 <> q) by (intros ->; eapply n; eapply popper_unique; eauto).
      assert (OP : forall h0, nown g h0 = OPop u -> nown g' h0 = OPop u).
      { intros h0 E. rewrite NOWN; auto. intros ->. congruence. }
      destruct kp as [|h0|h0 nx0|h0 nx0|h0 d|h0|f|f|sp]; cbn [pop_local] in *; cbn [hand qhead g' m' set_qhead set_nown set_hand set_gq];
        rewrite ?upd_other by auto; auto.
      * destruct L as (L1 & L2 & L3 & L4). repeat split; auto.
      * destruct L as (L1 & L2 & L3). repeat split; auto.
      * destruct L as (L1 & L2 & L3). repeat split; auto.
  - intros u q0 wp. vcase u t.
    { cbn. intros Hwt. assert (wp = WPYield (YPMaint UMUTEX IPAdd)) by (eapply (w_maint _ Wt); eauto; right; congruence).
      subst wp. exact Logic.I. }
    intros Hwu. pose proof (l_push _ _ _ I u q0 wp Hwu) as L.
    destruct (w_wait _ (l_wf _ _ _ I u) _ _ Hwu) as (Hq0 & _).
    assert (OT : forall n0, nown g n0 = OThread u -> nown g' n0 = OThread u).
    { intros n0 E. rewrite NOWN; auto. intros ->. congruence. }
    destruct wp as [| |n0|n0|a b|yp]; cbn [push_local] in *; auto.
    + destruct L as (L1 & L2 & L3 & L4). repeat split; auto.
    + destruct L as (L1 & L2 & L3 & L4 & L5). repeat split; auto.
    + destruct L as (L1 & L2 & L3). destruct (Nat.eq_dec q0 q) as [->|Hn].
      * rewrite CHq. cbn [gq g' set_nown set_hand set_gq]. rewrite upd_same.
        rewrite Cq in L1. apply consec_cons in L1. destruct L1 as [[-> _]|L1]; [congruence|].
        repeat split; auto. rewrite Eg in L3. destruct L3 as [L3|L3]; auto.
        exfalso. inversion L3 as [[E1 E2]]. rewrite <- E2 in L1. eapply (consec_head_notin a nx (map snd rest)); eauto.
      * rewrite CHo by auto. cbn [gq g' set_nown set_hand set_gq]. rewrite upd_other by auto. auto.
  - intros u. vcase u t; [exact (l_acct _ _ _ I t)|apply I].
  - intros u. vcase u t; [exact (l_stat _ _ _ I t)|apply I].
  - intros u Hf. cbn [fnode m' set_qhead] in *. rewrite NOWN; [apply I; auto|].
    intros E. pose proof (l_own _ _ _ I u Hf) as O. rewrite E in O. congruence.
  - intros u. vcase u t; [exact (l_node _ _ _ I t)|apply I].
  - intros u q0. vcase u t; [exact (l_slot _ _ _ I t q0)|apply I].
  - intros u q0 q' ip. vcase u t; [exact (l_maint _ _ _ I t q0 q' ip)|apply I].
  - intros u. vcase u t; [|apply I]. eapply vwf_set_wake; eauto.
Qed.

Lemma tid_fname e : tid_of_name (fname e) = e.
Proof. unfold tid_of_name, fname, Zn. replace (1000 + Z.of_nat e - 1000) with (Z.of_nat e) by lia. apply Nat2Z.id. Qed.

(* ------------------------------------------------------------------ *)
(* Effect 5: the consumer hands the old stub node to the popped fiber *)
Lemma k_out m V g t q cnt wc h :
  KInv m V g -> v_wake (V t) = Some (q, cnt, wc, VP (KPOut h)) ->
  let f := tid_of_name (ndata m h) in
  KInv (set_fnode m f h)
       (upd V t (set_vwake (V t) (Some (q, cnt, wc, VP (KPState f)))))
       (set_nown g h (OThread f)).
Proof.
  intros I Hw f.
  pose proof (l_wf _ _ _ I t) as Wt.
  destruct (w_wake _ Wt _ _ _ _ Hw) as (Hq & _).
  destruct (l_pop _ _ _ I t _ _ _ _ Hw) as (Lo & Lh & e & Le & Ld).
  assert (Ef : f = e) by (unfold f; rewrite Ld; apply tid_fname). clearbody f. subst f.
  destruct (q_hand _ _ _ I q e Hq Le) as (Eg & Enin & (ewp & Ew & Ea) & _).
  assert (Het : e <> t) by (eapply wake_not_wait_same; eauto).
  set (g' := set_nown g h (OThread e)). set (m' := set_fnode m e h).
  assert (NOWN : forall n, n <> h -> nown g' n = nown g n) by (intros; cbn; now rewrite upd_other).
  assert (CH : forall q0, chain m' g' q0 = chain m g q0) by reflexivity.
  assert (NC : forall q0 n, isq q0 -> In n (chain m g q0) -> n <> h).
  { intros q0 n H0 Hin ->. destruct (q_nodes _ _ _ I q0 h H0 Hin) as [_ E]. congruence. }
  constructor.
  - intros u q0. vcase u t; [exact (tk_hold _ _ _ I t q0)|apply I].
  - intros u q0 wp. vcase u t; [exact (tk_got _ _ _ I t q0 wp)|apply I].
  - intros u q0 cnt0 wc0 kp. vcase u t.
    + cbn. intros E. inversion E; subst. intros M. eapply (tk_pass _ _ _ I t); eauto.
    + apply I.
  - exact (tk_count _ _ _ I).
  - exact (q_nodup _ _ _ I).
  - intros q0 n Hq0. rewrite CH. intros Hin. destruct (q_nodes _ _ _ I q0 n Hq0 Hin) as [A B]. split; auto.
    rewrite NOWN; auto. eapply NC; eauto.
  - exact (q_tail _ _ _ I).
  - intros q0 a b Hq0. rewrite CH. intros Hc.
    destruct (q_link _ _ _ I q0 a b Hq0 Hc) as [E|[E [u Hu]]]; [left; exact E|right; split; [exact E|]].
    exists u. vcase u t; [cbn; exact Hu|exact Hu].
  - exact (q_last _ _ _ I).
  - intros q0 e0 n Hq0 Hin. destruct (q_ent _ _ _ I q0 e0 n Hq0 Hin) as (A & B & wp & C & D). repeat split; auto.
    exists wp. vcase e0 t; [cbn|]; auto.
  - exact (q_uniq _ _ _ I).
  - intros q0 e0 Hq0 Hh1.
    destruct (q_hand _ _ _ I q0 e0 Hq0 Hh1) as (A & B & (wp & C & D) & (u & cnt0 & wc0 & w & E & F)).
    repeat split; auto.
    + exists wp. vcase e0 t; [cbn|]; auto.
    + vcase u t.
      * rewrite Hw in E. inversion E; subst. exists t, cnt0, wc0, (VP (KPState e)). rewrite upd_same. auto.
      * exists u, cnt0, wc0, w. rewrite upd_other by auto. auto.
  - intros u q0 cnt0 wc0 w. vcase u t.
    + cbn. intros E. inversion E; subst. cbn. rewrite upd_same. auto.
    + intros Hwk. pose proof (l_pop _ _ _ I u q0 cnt0 wc0 w Hwk) as L.
      destruct w as [kp|]; [|exact L].
      assert (OP : forall h0, nown g h0 = OPop u -> nown g' h0 = OPop u).
      { intros h0 E. rewrite NOWN; auto. intros ->. rewrite Lo in E. inversion E. congruence. }
      assert (FN : forall f0, fnode m f0 <> O -> fnode m' f0 <> O).
      { intros f0 H. cbn. unfold upd. destruct (f0 =? e)%nat; auto. }
      destruct kp as [|h0|h0 nx0|h0 nx0|h0 d|h0|f|f|sp]; cbn [pop_local] in *; auto.
      * destruct L as (L1 & L2 & L3 & L4). repeat split; auto.
      * destruct L as (L1 & L2 & L3). repeat split; auto.
      * destruct L as (L1 & L2 & L3). repeat split; auto.
      * destruct L as (L1 & L2). split; auto.
      * destruct L as (L1 & L2 & L3). repeat split; auto.
  - intros u q0 wp. vcase u t.
    { cbn. intros Hwt. assert (wp = WPYield (YPMaint UMUTEX IPAdd)) by (eapply (w_maint _ Wt); eauto; right; congruence).
      subst wp. exact Logic.I. }
    intros Hwu. pose proof (l_push _ _ _ I u q0 wp Hwu) as L.
    assert (OT : forall n0, nown g n0 = OThread u -> nown g' n0 = OThread u).
    { intros n0 E. rewrite NOWN; auto. intros ->. congruence. }
    assert (Hue : forall n0, wp = WPNext n0 \/ wp = WPXchg n0 -> u <> e).
    { intros n0 Hwp ->. rewrite Ew in Hwu. inversion Hwu; subst. destruct Hwp as [->| ->]; discriminate. }
    destruct wp as [| |n0|n0|a b|yp]; cbn [push_local] in *; auto.
    + destruct L as (L1 & L2 & L3 & L4). repeat split; auto.
      cbn. rewrite upd_other; auto. eapply Hue; eauto.
    + destruct L as (L1 & L2 & L3 & L4 & L5). repeat split; auto.
      cbn. rewrite upd_other; auto. eapply Hue; eauto.
  - intros u. vcase u t; [exact (l_acct _ _ _ I t)|apply I].
  - intros u. vcase u t; [exact (l_stat _ _ _ I t)|apply I].
  - intros u. cbn [fnode m' set_fnode]. destruct (Nat.eq_dec u e) as [->|Hu].
    + rewrite upd_same. intros _. cbn. now rewrite upd_same.
    + rewrite upd_other by auto. intros Hf. rewrite NOWN; [apply I; auto|].
      intros E. pose proof (l_own _ _ _ I u Hf) as O. rewrite E, Lo in O. discriminate.
  - intros u. cbn [fnode m' set_fnode]. destruct (Nat.eq_dec u e) as [->|Hu].
    + rewrite (upd_same (fnode m)). auto.
    + rewrite (upd_other (fnode m) e h u Hu). vcase u t; [exact (l_node _ _ _ I t)|apply I].
  - intros u q0. vcase u t; [exact (l_slot _ _ _ I t q0)|apply I].
  - intros u q0 q' ip. vcase u t; [exact (l_maint _ _ _ I t q0 q' ip)|apply I].
  - intros u. vcase u t; [|apply I]. eapply vwf_set_wake; eauto.
Qed.

(* ------------------------------------------------------------------ *)
(* Effect 6: the consumer schedules the popped fiber *)
Definition sched_g (g : gk) (q f : nat) : gk :=
  let g1 := set_got (set_hand g q None) f true in
  if is_mutex q then set_gw (set_tok g1 q (THeld f)) q (gw g q - 1) else g1.

Lemma sched_g_fields g q f :
  gq (sched_g g q f) = gq g /\ nown (sched_g g q f) = nown g /\
  hand (sched_g g q f) = upd (hand g) q None /\ got (sched_g g q f) = upd (got g) f true.
Proof. unfold sched_g. destruct (is_mutex q); cbn; auto. Qed.

Lemma wake_fields m f :
  fstate (wake m f) = fstate m /\ ndata (wake m f) = ndata m /\ nnext (wake m f) = nnext m /\
  word (wake m f) = word m /\ qhead (wake m f) = qhead m /\ qtail (wake m f) = qtail m /\
  fnode (wake m f) = fnode m /\ slot_mutex (wake m f) = slot_mutex m /\
  (forall u, u <> f -> pend (wake m f) u = pend m u /\ blocked (wake m f) u = blocked m u) /\
  (blocked m f = true -> blocked (wake m f) f = false /\ pend (wake m f) f = pend m f) /\
  (blocked m f = false -> blocked (wake m f) f = false /\ pend (wake m f) f = S (pend m f)).
Proof.
  unfold wake. destruct (blocked m f) eqn:B; cbn; repeat split; auto; try discriminate;
    intros; rewrite ?upd_same, ?upd_other by auto; auto.
Qed.

Lemma k_sched m V g t q cnt wc f (rd : bool) w' :
  KInv m V g ->
  v_wake (V t) = Some (q, cnt, wc, VP (if rd then KPReady f else KPState f)) ->
  (w' = VP KPHead \/ w' = VDone) -> (is_mutex q = true -> w' = VDone) ->
  KInv (wake (if rd then set_fstate m f ST_READY else m) f)
       (upd V t (set_vwake (V t) (Some (q, cnt, wc + 1, w'))))
       (sched_g g q f).
Proof.
  intros I Hw Hw' Hwm.
  pose proof (l_wf _ _ _ I t) as Wt.
  destruct (w_wake _ Wt _ _ _ _ Hw) as (Hq & Hcq & Hmq).
  assert (Lf : hand g q = Some f /\ fnode m f <> O /\ (rd = true -> fstate m f = ST_WAITING)).
  { pose proof (l_pop _ _ _ I t _ _ _ _ Hw) as L. destruct rd; cbn in L.
    - destruct L as (A & B & C). auto.
    - destruct L as (A & B). repeat split; auto. discriminate. }
  destruct Lf as (Lh & Lfn & Lst).
  destruct (q_hand _ _ _ I q f Hq Lh) as (Fg & Fnin & (fwp & Fw & Fa) & _).
  assert (Hft : f <> t) by (eapply wake_not_wait_same; eauto).
  set (m1 := if rd then set_fstate m f ST_READY else m).
  set (m' := wake m1 f). set (g' := sched_g g q f).
  destruct (sched_g_fields g q f) as (Ggq & Gnown & Ghand & Ggot). fold g' in Ggq, Gnown, Ghand, Ggot.
  destruct (wake_fields m1 f) as (Wst & Wnd & Wnx & Wwd & Wqh & Wqt & Wfn & Wsl & Wo & Wb1 & Wb0). fold m' in Wst, Wnd, Wnx, Wwd, Wqh, Wqt, Wfn, Wsl, Wo, Wb1, Wb0.
  assert (M1 : ndata m1 = ndata m /\ nnext m1 = nnext m /\ word m1 = word m /\ qhead m1 = qhead m /\
               qtail m1 = qtail m /\ fnode m1 = fnode m /\ slot_mutex m1 = slot_mutex m /\
               pend m1 = pend m /\ blocked m1 = blocked m /\
               (forall u, u <> f -> fstate m1 u = fstate m u)).
  { unfold m1. destruct rd; cbn; repeat split; auto. intros u Hu. now rewrite upd_other. }
  destruct M1 as (M1nd & M1nx & M1wd & M1qh & M1qt & M1fn & M1sl & M1pd & M1bl & M1st).
  assert (CH : forall q0, chain m' g' q0 = chain m g q0).
  { intros q0. unfold chain. now rewrite Wqh, M1qh, Ggq. }
  assert (GOT : forall u, u <> f -> got g' u = got g u) by (intros u Hu; rewrite Ggot; now rewrite upd_other).
  assert (GOTf : got g' f = true) by (rewrite Ggot; now rewrite upd_same).
  assert (Hfq : forall q0 wp, v_wait (V f) = Some (q0, wp) -> q0 = q) by (intros q0 wp E; congruence).
  (* the fiber's accounting before the wake-up *)
  pose proof (l_acct _ _ _ I f) as Af. rewrite Fw in Af. cbn in Af.
  constructor.
  - (* tk_hold *) intros u q0 Hh.
    assert (Hold : vholds q0 (V u) = true) by (vcase u t; [exact Hh|exact Hh]).
    pose proof (tk_hold _ _ _ I u q0 Hold) as E. unfold g', sched_g.
    destruct (is_mutex q) eqn:Mq; cbn; [|exact E].
    destruct (Nat.eq_dec q0 q) as [->|Hn]; [|now rewrite upd_other].
    exfalso. assert (Hx : v_wake (V t) = Some (q, cnt, wc, VP (if rd then KPReady f else KPState f))) by exact Hw.
    destruct (tk_pass _ _ _ I t _ _ _ _ Hx Mq) as [P _]. congruence.
  - (* tk_got *) intros u q0 wp Hwu Hl Hg.
    assert (Hwu' : v_wait (V u) = Some (q0, wp)) by (vcase u t; [exact Hwu|exact Hwu]).
    assert (Hl' : v_lockw (V u) = true) by (vcase u t; [exact Hl|exact Hl]).
    destruct (Nat.eq_dec u f) as [->|Huf].
    + assert (q0 = q) by eauto. subst q0.
      destruct (w_wait _ (l_wf _ _ _ I f) _ _ Hwu') as (_ & _ & L1 & _). destruct (L1 Hl') as [Mq _].
      unfold g', sched_g. rewrite Mq. cbn. now rewrite upd_same.
    + rewrite GOT in Hg by auto. pose proof (tk_got _ _ _ I u q0 wp Hwu' Hl' Hg) as E.
      unfold g', sched_g. destruct (is_mutex q) eqn:Mq; cbn; [|exact E].
      destruct (Nat.eq_dec q0 q) as [->|Hn]; [|now rewrite upd_other].
      exfalso. destruct (tk_pass _ _ _ I t _ _ _ _ Hw Mq) as [P _]. congruence.
  - (* tk_pass *) intros u q0 cnt0 wc0 kp Hwk Mq0.
    destruct (Nat.eq_dec u t) as [->|Hu].
    + rewrite upd_same in Hwk. cbn in Hwk. inversion Hwk; subst.
      specialize (Hwm Mq0). discriminate Hwm.
    + rewrite upd_other in Hwk by auto. destruct (tk_pass _ _ _ I u _ _ _ _ Hwk Mq0) as [P Z]. split; auto.
      unfold g', sched_g. destruct (is_mutex q) eqn:Mq; cbn; [|exact P].
      destruct (Nat.eq_dec q0 q) as [->|Hn]; [|now rewrite upd_other].
      exfalso. destruct (tk_pass _ _ _ I t _ _ _ _ Hw Mq) as [P' _]. rewrite P in P'. inversion P'. contradiction.
  - (* tk_count *) intros q0 Mq0. rewrite Wwd, M1wd.
    destruct (tk_count _ _ _ I q0 Mq0) as (C1 & C2 & C3).
    unfold g', sched_g. destruct (is_mutex q) eqn:Mq; cbn; [|auto].
    destruct (Nat.eq_dec q0 q) as [->|Hn]; [rewrite !upd_same|rewrite !upd_other by auto; auto].
    destruct (tk_pass _ _ _ I t _ _ _ _ Hw Mq) as [P _]. rewrite P in C1. cbn in C1.
    pose proof (C3 t P). cbn. repeat split; try lia. intros u Q. discriminate Q.
  - intros q0 Hq0. rewrite CH. apply I; auto.
  - intros q0 n Hq0. rewrite CH, Gnown. apply I; auto.
  - intros q0 Hq0. rewrite CH, Wqt, M1qt. apply I; auto.
  - intros q0 a b Hq0. rewrite CH, Wnx, M1nx. intros Hc.
    destruct (q_link _ _ _ I q0 a b Hq0 Hc) as [E|[E [u Hu]]]; [left; exact E|right; split; [exact E|]].
    exists u. vcase u t; [cbn; exact Hu|exact Hu].
  - intros q0 Hq0. rewrite Wqt, M1qt, Wnx, M1nx. apply I; auto.
  - intros q0 e n Hq0. rewrite Ggq, Wnd, M1nd. intros Hin.
    destruct (q_ent _ _ _ I q0 e n Hq0 Hin) as (A & B & wp & C & D).
    assert (e <> f).
    { intros ->. assert (q0 = q) by eauto. subst q0. apply Fnin. apply in_map_iff. exists (f, n). auto. }
    repeat split; auto; [rewrite GOT; auto|]. exists wp. vcase e t; [cbn|]; auto.
  - intros q0 Hq0. rewrite Ggq. apply I; auto.
  - intros q0 e Hq0. rewrite Ghand, Ggq. destruct (Nat.eq_dec q0 q) as [->|Hn]; [rewrite upd_same; discriminate|].
    rewrite upd_other by auto. intros Hh1.
    destruct (q_hand _ _ _ I q0 e Hq0 Hh1) as (A & B & (wp & C & D) & (u & cnt0 & wc0 & w & E & F)).
    assert (e <> f) by (intros ->; apply Hn; eauto).
    repeat split; auto; [rewrite GOT; auto| |].
    + exists wp. vcase e t; [cbn|]; auto.
    + exists u, cnt0, wc0, w. vcase u t; [congruence|auto].
  - (* l_pop *) intros u q0 cnt0 wc0 w. destruct (Nat.eq_dec u t) as [->|Hu].
    + rewrite upd_same. cbn. intros E. inversion E; subst.
      destruct Hw' as [->| ->]; cbn; auto. rewrite Ghand. now rewrite upd_same.
    + rewrite upd_other by auto. intros Hwk. pose proof (l_pop _ _ _ I u q0 cnt0 wc0 w Hwk) as L.
      destruct w as [kp|]; [|exact L].
      assert (Hn : q0 <> q) by (intros ->; apply Hu; eapply popper_unique; eauto).
      assert (HH : hand g' q0 = hand g q0) by (rewrite Ghand; now rewrite upd_other).
      destruct kp as [|h0|h0 nx0|h0 nx0|h0 d|h0|f0|f0|sp]; cbn [pop_local] in *;
        rewrite ?HH, ?Gnown, ?Wqh, ?M1qh, ?Wnx, ?M1nx, ?Wnd, ?M1nd, ?Wfn, ?M1fn; auto.
      destruct L as (L1 & L2 & L3). repeat split; auto.
      rewrite Wst. rewrite M1st; auto. intros ->.
      destruct (w_wake _ (l_wf _ _ _ I u) _ _ _ _ Hwk) as (Hq0 & _).
      destruct (q_hand _ _ _ I q0 f Hq0 L1) as (_ & _ & (wp0 & C0 & _) & _). apply Hn. eauto.
  - (* l_push *) intros u q0 wp Hwu.
    assert (Hwu' : v_wait (V u) = Some (q0, wp)) by (vcase u t; [exact Hwu|exact Hwu]).
    pose proof (l_push _ _ _ I u q0 wp Hwu') as L.
    destruct wp as [| |n0|n0|a b|yp]; cbn [push_local] in *;
      rewrite ?CH, ?Gnown, ?Ggq, ?Wnx, ?M1nx, ?Wnd, ?M1nd, ?Wfn, ?M1fn; auto.
  - (* l_acct *) intros u. destruct (Nat.eq_dec u f) as [->|Huf].
    + rewrite upd_other by auto. rewrite Fw. cbn. rewrite GOTf.
      destruct (presleep fwp) eqn:Ps.
      * destruct Af as [Ab Ap]. rewrite Fg in Ap. rewrite M1bl in Wb0. destruct (Wb0 Ab) as [B1 B2].
        rewrite B1, B2, M1pd, Ap. auto.
      * destruct fwp as [| | | | |yp]; try discriminate Fa; try discriminate Ps.
        destruct yp as [b0|b0 st0| | | | |q1 ip1| |]; try discriminate Ps; cbn in Af |- *.
        -- destruct b0; [|discriminate Ps]. destruct Af as [Q _]. congruence.
        -- destruct b0; [|discriminate Ps]. destruct Af as [Q _]. congruence.
        -- destruct Af as [Ap Ab]. rewrite Fg in Ab. cbn in Ab. rewrite M1bl in Wb1. destruct (Wb1 Ab) as [B1 B2].
           rewrite B1, B2, M1pd. auto.
        -- destruct Af as [Q _]. congruence.
    + pose proof (l_acct _ _ _ I u) as A.
      assert (E : v_wait (upd V t (set_vwake (V t) (Some (q, cnt, wc + 1, w'))) u) = v_wait (V u)) by (vcase u t; reflexivity).
      rewrite E. unfold acct_local in *. destruct (Wo u Huf) as [P B]. rewrite P, B, M1pd, M1bl, GOT; auto.
  - (* l_stat *) intros u.
    assert (E : v_wait (upd V t (set_vwake (V t) (Some (q, cnt, wc + 1, w'))) u) = v_wait (V u)) by (vcase u t; reflexivity).
    rewrite E. pose proof (l_stat _ _ _ I u) as S. unfold stat_local in *. rewrite Wst.
    destruct (Nat.eq_dec u f) as [->|Huf]; [|rewrite M1st; auto].
    unfold m1. destruct rd; [|exact S]. pose proof (Lst eq_refl) as Ws.
    rewrite Fw in *. destruct fwp as [| | | | |yp]; auto; try (rewrite Ws in S; discriminate S).
    destruct yp as [[|]|[|] st| | | | | | |]; auto; try (rewrite Ws in S; discriminate S).
    destruct S as [S _]. rewrite Ws in S. discriminate S.
  - intros u. rewrite Wfn, M1fn, Gnown. apply I.
  - (* l_node *) intros u. rewrite Wfn, M1fn.
    assert (E : v_wait (upd V t (set_vwake (V t) (Some (q, cnt, wc + 1, w'))) u) = v_wait (V u)) by (vcase u t; reflexivity).
    rewrite E. destruct (Nat.eq_dec u f) as [->|Huf]; [auto|].
    intros H. apply (l_node _ _ _ I u). unfold has_node in *. rewrite GOT in H; auto.
  - intros u q0. rewrite Wsl, M1sl. vcase u t; [exact (l_slot _ _ _ I t q0)|apply I].
  - intros u q0 q' ip. vcase u t; [exact (l_maint _ _ _ I t q0 q' ip)|apply I].
  - intros u. vcase u t; [|apply I]. eapply vwf_set_wake; eauto.
Qed.

(* ------------------------------------------------------------------ *)
(* Effect 7: a granted wait returns: the grant is consumed and the view changes *)
Lemma k_got m V g t v' :
  KInv m V g -> got g t = true -> vwf v' ->
  (forall q, vholds q v' = true -> tok g q = THeld t) ->
  v_wait v' = None -> v_wake v' = None ->
  v_wake (V t) = None ->
  (forall q, slot_mutex m t = Some q -> False) ->
  pend m t = O -> blocked m t = false ->
  KInv m (upd V t v') (set_got g t false).
Proof.
  intros I Hg W H1 Hw Hk Hk0 Hs Hp Hb.
  set (g' := set_got g t false).
  assert (GOT : forall u, u <> t -> got g' u = got g u) by (intros; cbn; now rewrite upd_other).
  assert (NE : forall q e n, isq q -> In (e, n) (gq g q) -> e <> t).
  { intros q e n Hq Hin ->. destruct (q_ent _ _ _ I q t n Hq Hin) as (_ & B & _). congruence. }
  assert (NH : forall q, isq q -> hand g q <> Some t).
  { intros q Hq Hh. destruct (q_hand _ _ _ I q t Hq Hh) as (B & _). congruence. }
  constructor.
  - intros u q. vcase u t; [apply H1|apply I].
  - intros u q wp. vcase u t; [rewrite Hw; discriminate|].
    intros A B C. rewrite GOT in C by auto. eapply (tk_got _ _ _ I); eauto.
  - intros u q cnt wc kp. vcase u t; [rewrite Hk; discriminate|apply I].
  - exact (tk_count _ _ _ I).
  - exact (q_nodup _ _ _ I).
  - exact (q_nodes _ _ _ I).
  - exact (q_tail _ _ _ I).
  - intros q a b Hq Hc.
    destruct (q_link _ _ _ I q a b Hq Hc) as [E|[E [u Hu]]]; [left; exact E|right; split; [exact E|]].
    exists u. vcase u t; [|exact Hu].
    exfalso. destruct (l_push _ _ _ I t q _ Hu) as (_ & _ & Li). eapply NE; eauto.
  - exact (q_last _ _ _ I).
  - intros q e n Hq Hin. destruct (q_ent _ _ _ I q e n Hq Hin) as (A & B & wp & C & D).
    assert (e <> t) by (eapply NE; eauto).
    repeat split; auto; [rewrite GOT; auto|]. exists wp. rewrite upd_other by auto. auto.
  - exact (q_uniq _ _ _ I).
  - intros q e Hq Hh. destruct (q_hand _ _ _ I q e Hq Hh) as (A & B & (wp & C & D) & (u & cnt & wc & w & E & F)).
    assert (e <> t) by (intros ->; eapply NH; eauto).
    repeat split; auto; [rewrite GOT; auto| |].
    + exists wp. rewrite upd_other by auto. auto.
    + exists u, cnt, wc, w. vcase u t; [congruence|auto].
  - intros u q cnt wc w. vcase u t; [rewrite Hk; discriminate|].
    intros Hwk. pose proof (l_pop _ _ _ I u q cnt wc w Hwk) as L. destruct w as [[]|]; exact L.
  - intros u q wp. vcase u t; [rewrite Hw; discriminate|].
    intros Hwu. pose proof (l_push _ _ _ I u q wp Hwu) as L. destruct wp; exact L.
  - intros u. vcase u t.
    + rewrite Hw. cbn. rewrite upd_same. auto.
    + pose proof (l_acct _ _ _ I u) as A. unfold acct_local in *. rewrite GOT by auto. exact A.
  - intros u. vcase u t; [rewrite Hw; exact Logic.I|apply I].
  - exact (l_own _ _ _ I).
  - intros u. vcase u t.
    + intros _. apply (l_node _ _ _ I t). unfold has_node. destruct (v_wait (V t)) as [[? ?]|]; auto.
    + intros H. apply (l_node _ _ _ I u). unfold has_node in *. rewrite GOT in H; auto.
  - intros u q. vcase u t; [intros Q; destruct (Hs _ Q)|apply I].
  - intros u q q' ip. vcase u t; [rewrite Hw; discriminate|apply I].
  - intros u. vcase u t; [exact W|apply I].
Qed.

(* ------------------------------------------------------------------ *)
(* Cond-level accounting: effects *)
Lemma in_remove_nat x y l : In y (remove_nat x l) <-> In y l /\ y <> x.
Proof.
  unfold remove_nat. rewrite filter_In. split; intros [A B]; split; auto.
  - intros ->. rewrite Nat.eqb_refl in B. discriminate.
  - destruct (Nat.eqb_spec y x); [contradiction|reflexivity].
Qed.

Lemma nodup_remove_nat x l : NoDup l -> NoDup (remove_nat x l).
Proof. intros H. unfold remove_nat. now apply NoDup_filter. Qed.

Lemma length_remove_nat x l : NoDup l -> In x l -> S (length (remove_nat x l)) = length l.
Proof.
  induction l as [|y l IH]; intros N H; [destruct H|].
  inversion N as [|? ? Hy N']; subst. cbn. destruct (Nat.eqb_spec y x) as [->|Hne]; cbn.
  - f_equal. unfold remove_nat in *. clear IH H N.
    induction l as [|z l IH]; [reflexivity|]. cbn. destruct (Nat.eqb_spec z x) as [->|Hz]; cbn.
    + exfalso. apply Hy. left. reflexivity.
    + f_equal. apply IH; [intros Q; apply Hy; right; exact Q|now inversion N'].
  - f_equal. apply IH; auto. destruct H; [contradiction|auto].
Qed.

(* a fiber is scheduled from a mutex list: the cond accounting does not move *)
Lemma c_sched_mutex V g c t q f v' :
  CInv V g c -> v_cw3 (V f) = false -> f <> t ->
  v_h1 v' = v_h1 (V t) -> v_trans v' = v_trans (V t) -> vout v' = vout (V t) -> v_cw3 v' = v_cw3 (V t) ->
  (forall cnt wc w, v_wake v' = Some (COND, cnt, wc, w) -> v_wake (V t) = Some (COND, cnt, wc, w)) ->
  CInv (upd V t v') (sched_g g q f) c.
Proof.
  intros I Hf Hft E1 E2 E3 E4 E5.
  destruct (sched_g_fields g q f) as (_ & _ & _ & Gg).
  constructor.
  - intros u. vcase u t; [rewrite E1, E2, E3; apply I|apply I].
  - intros F. apply (cn_free _ _ _ I). intros u. specialize (F u). vcase u t; [congruence|auto].
  - intros u cnt wc w. vcase u t; [intros Q; apply (cn_wc _ _ _ I t); auto|apply I].
  - apply I.
  - apply I.
  - intros u. rewrite Gg. rewrite (cn_wl _ _ _ I u).
    destruct (Nat.eq_dec u f) as [->|Huf].
    + rewrite upd_same. rewrite upd_other by auto. rewrite Hf. split; intros [A B]; discriminate.
    + rewrite (upd_other (got g)) by auto. vcase u t; [rewrite E4|]; reflexivity.
Qed.

(* a fiber is scheduled from the cond list *)
Lemma c_sched_cond V g c t f cnt wc w w' :
  CInv V g c -> v_wake (V t) = Some (COND, cnt, wc, w) -> v_h1 (V t) = true ->
  (forall u, u <> t -> v_h1 (V u) = false) ->
  v_cw3 (V f) = true -> got g f = false -> f <> t ->
  (match w' with VDone => wc + 1 = cnt | VP _ => wc + 1 < cnt end) ->
  CInv (upd V t (set_vwake (V t) (Some (COND, cnt, wc + 1, w')))) (sched_g g COND f)
       {| g_reg := g_reg c; g_claimed := g_claimed c; g_rel := g_rel c + 1; g_trans := g_trans c;
          gwl := remove_nat f (gwl c); myclaim := myclaim c; myrel := upd (myrel c) t (myrel c t + 1) |}.
Proof.
  intros I Hw Hh Huniq Hf Hgf Hft Hw'.
  destruct (sched_g_fields g COND f) as (_ & _ & _ & Gg).
  destruct (cn_hold _ _ _ I t Hh) as [T O]. unfold vout in O. rewrite Hw in O.
  destruct (cn_wc _ _ _ I t _ _ _ Hw) as (W0 & W1 & W2 & W3).
  assert (Inf : In f (gwl c)) by (apply (cn_wl _ _ _ I f); auto).
  constructor; cbn [g_reg g_claimed g_rel g_trans gwl myclaim myrel].
  - intros u. destruct (Nat.eq_dec u t) as [->|Hu].
    + rewrite upd_same. cbn. intros _. split; [exact T|]. unfold vout. cbn. unfold COND in *. lia.
    + rewrite upd_other by auto. intros H1. rewrite (Huniq u Hu) in H1. discriminate.
  - intros F. specialize (F t). rewrite upd_same in F. cbn in F. congruence.
  - intros u cnt0 wc0 w0. destruct (Nat.eq_dec u t) as [->|Hu].
    + rewrite !upd_same. cbn. intros Q. inversion Q; subst. repeat split; auto; lia.
    + rewrite !upd_other by auto. apply I.
  - pose proof (length_remove_nat f (gwl c) (cn_nodup _ _ _ I) Inf) as L.
    pose proof (cn_len _ _ _ I). lia.
  - apply nodup_remove_nat. apply I.
  - intros u. rewrite Gg, in_remove_nat, (cn_wl _ _ _ I u).
    destruct (Nat.eq_dec u f) as [->|Huf].
    + rewrite upd_same. split; [intros [_ Q]; contradiction|intros [_ Q]; discriminate].
    + rewrite (upd_other (got g)) by auto.
      destruct (Nat.eq_dec u t) as [->|Hu]; [rewrite upd_same; cbn|rewrite upd_other by auto]; tauto.
Qed.

(* the cond ghosts and the view of t change; no other fiber holds the internal mutex *)
Lemma cinv_gc V g c c' t v' :
  CInv V g c ->
  (forall u, u <> t -> v_h1 (V u) = false) ->
  (v_h1 v' = true -> g_trans c' = (if v_trans v' then 1 else 0) /\ g_claimed c' - g_rel c' = vout v') ->
  (v_h1 v' = false -> g_trans c' = 0 /\ g_claimed c' = g_rel c') ->
  (forall cnt wc w, v_wake v' = Some (COND, cnt, wc, w) ->
     0 <= wc /\ (match w with VDone => wc = cnt | VP _ => wc < cnt end) /\ cnt = myclaim c' t /\ wc = myrel c' t) ->
  (forall u, u <> t -> myclaim c' u = myclaim c u /\ myrel c' u = myrel c u) ->
  Z.of_nat (length (gwl c')) = g_reg c' - g_rel c' -> NoDup (gwl c') ->
  (forall u, u <> t -> (In u (gwl c') <-> In u (gwl c))) ->
  (In t (gwl c') <-> (v_cw3 v' = true /\ got g t = false)) ->
  CInv (upd V t v') g c'.
Proof.
  intros I Hu H1 H2 H3 H4 H5 H6 H7 H8. constructor.
  - intros u. destruct (Nat.eq_dec u t) as [->|Hn]; [rewrite upd_same; exact H1|].
    rewrite upd_other by auto. intros Q. rewrite (Hu u Hn) in Q. discriminate.
  - intros F. apply H2. specialize (F t). now rewrite upd_same in F.
  - intros u cnt wc w. destruct (Nat.eq_dec u t) as [->|Hn]; [rewrite upd_same; apply H3|].
    rewrite upd_other by auto. intros Q. destruct (H4 u Hn) as [-> ->]. apply I; auto.
  - exact H5.
  - exact H6.
  - intros u. destruct (Nat.eq_dec u t) as [->|Hn]; [rewrite upd_same; exact H8|].
    rewrite upd_other by auto. rewrite (H7 u Hn). apply I.
Qed.

(* the grant of t is consumed (wait return) *)
Lemma cinv_got V g c t v' :
  CInv V g c -> got g t = true -> v_cw3 v' = false ->
  (v_h1 v' = true -> g_trans c = (if v_trans v' then 1 else 0) /\ g_claimed c - g_rel c = vout v') ->
  (v_h1 v' = false -> v_h1 (V t) = true -> g_trans c = 0 /\ g_claimed c = g_rel c) ->
  v_wake v' = None ->
  CInv (upd V t v') (set_got g t false) c.
Proof.
  intros I Hg Hc H1 H2 Hk. constructor.
  - intros u. vcase u t; [exact H1|apply I].
  - intros F. destruct (v_h1 (V t)) eqn:Eh.
    + apply H2; auto. specialize (F t). now rewrite upd_same in F.
    + apply (cn_free _ _ _ I). intros u. specialize (F u). vcase u t; auto.
  - intros u cnt wc w. vcase u t; [rewrite Hk; discriminate|apply I].
  - apply I.
  - apply I.
  - intros u. cbn. destruct (Nat.eq_dec u t) as [->|Hn].
    + rewrite !upd_same. rewrite Hc. rewrite (cn_wl _ _ _ I t), Hg. split; intros [A B]; discriminate.
    + rewrite !upd_other by auto. apply I.
Qed.

(* ------------------------------------------------------------------ *)
(* the consumer moves to another position without touching shared state *)
Lemma k_wake_silent m V g t q cnt wc kp w' :
  KInv m V g -> v_wake (V t) = Some (q, cnt, wc, VP kp) ->
  inhand w' = inhand (VP kp) -> pop_local m g t q w' ->
  KInv m (upd V t (set_vwake (V t) (Some (q, cnt, wc, w')))) g.
Proof.
  intros I Hw Hi Hp.
  pose proof (l_wf _ _ _ I t) as Wt.
  apply (inv_private m m V g t _ I (mpriv_refl _ _ _)).
  - eapply vwf_set_wake; eauto.
  - left; reflexivity.
  - left; reflexivity.
  - intros Hf. apply (l_own _ _ _ I t Hf).
  - intros q0. exact (tk_hold _ _ _ I t q0).
  - intros q0 wp. exact (tk_got _ _ _ I t q0 wp).
  - cbn. intros q0 cnt0 wc0 kp0 E M. inversion E; subst. eapply (tk_pass _ _ _ I t); eauto.
  - intros q0 a b A. cbn. exact A.
  - intros q0 wp A B C. cbn. eauto.
  - intros q0 cnt0 wc0 w0 A B. rewrite Hw in A. inversion A; subst. cbn. rewrite <- Hi in B. eauto.
  - cbn. intros q0 cnt0 wc0 w0 E. inversion E; subst. exact Hp.
  - intros q0 wp. exact (l_push _ _ _ I t q0 wp).
  - exact (l_acct _ _ _ I t).
  - exact (l_stat _ _ _ I t).
  - exact (l_node _ _ _ I t).
  - exact (l_slot _ _ _ I t).
  - exact (l_maint _ _ _ I t).
Qed.

Lemma cinv_wake_same V g c t q cnt wc w w' :
  CInv V g c -> v_wake (V t) = Some (q, cnt, wc, w) ->
  (q = COND -> match w, w' with VP _, VP _ => True | VDone, VDone => True | VP _, VDone => wc = cnt | VDone, VP _ => False end) ->
  CInv (upd V t (set_vwake (V t) (Some (q, cnt, wc, w')))) g c.
Proof.
  intros I Hw Hc. apply cinv_view; auto.
  - cbn. intros H. destruct (cn_hold _ _ _ I t H) as [A B]. split; auto.
    unfold vout in *. cbn. rewrite Hw in B. exact B.
  - cbn. intros A B. congruence.
  - cbn. intros cnt0 wc0 w0 E. inversion E; subst.
    destruct (cn_wc _ _ _ I t _ _ _ Hw) as (A & B & C & D). repeat split; auto.
    specialize (Hc eq_refl). destruct w, w0; auto; try lia; try contradiction.
  - cbn. tauto.
Qed.
