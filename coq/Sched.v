(* Model of src/fiber_scheduler_wsd.c as driven by rt/h_sched.c (C10; scheduler
   half of C02).  One step per access to a scheduler's schedule_from / store_to
   field or to a fiber's state; a deque operation is atomic and takes place in
   the grant of the field read that precedes it (deque internals are not
   registered; justified by the deque theorems of C02).
   locs: 10+2t = scheduler t's schedule_from, 11+2t = store_to, 200+f = fiber f's state.
   Fiber states: 0 none, 1 RUNNING, 2 READY, 3 WAITING, 5 SAVING_STATE_TO_WAIT.
   inwq f (harness array inwq[], not a registered location): fiber f is parked
   in a wait queue outside the scheduler: it blocked, its kernel thread has
   switched away from it, and no waker has consumed that yet.  It is set in the
   grant of the last access of the blocking yield (the RUNNING write of the
   successor, or the read that makes next() return NULL); wake / park-saving
   test-and-clear it in the grant of their read of the state (the real wakers
   find a waiter by popping it from its wait queue).
   park-saving f = a waker that finds f before f finished switching away: the
   state is SAVING when f is scheduled; flip f = the maintenance of f's
   successor (SAVING -> WAITING).  next() re-queues a popped SAVING fiber on
   store_to and returns it only after the flip.  Fiber ids outside 1..NF are
   refused by spawn / wake / park-saving / flip (ret -1, no access).
   Deque ids: 2t+1 = queue_one of t, 2t+2 = queue_two.  A deque is a list with
   the bottom at the head: push_bottom = cons, pop_bottom = head, steal = last. *)
From Coq Require Import List ZArith Lia Bool Arith.
From LF Require Import Conc.
Import ListNotations.

Inductive op := OSpawn (f : nat) | OYield | OBlock | OIdle | OWake (f : nat) | OBalance
              | OPark (f : nat) | OFlip (f : nat).

Inductive pcT :=
| PSpawnR (f : nat)                    (* f->state != 0 ? (the harness refuses to create a fiber twice) *)
| PSpawnW (f : nat)                    (* f->state = READY *)
| PSched (f : nat) (k : kont)          (* fiber_scheduler_schedule: read the target field, push f *)
| PBlockW                              (* current->state = WAITING *)
| PYRead                               (* st = current->state *)
| PN1 (k : kont) | PN2 (k : kont) | PN3 (k : kont) (tmp : nat) | PN4 (k : kont) (tmp sv : nat)
| PN5 (k : kont) (tmp : nat) | PN6 (k : kont) | PN7 (k : kont) | PN8 (k : kont) (x : nat) | PN9 (k : kont) (x : nat)
| PY2 (nf : nat)                       (* current->state == RUNNING ? *)
| PY3 (nf : nat)                       (* current->state = READY *)
| PY4 (nf : nat) (ts : nat)            (* nf->state = RUNNING *)
| PL1 (k : kont)                       (* load_balance: local_count = size(schedule_from) *)
| PL2 (k : kont) (i : nat) (lc rc ms : nat) (stolen : nat)  (* push stolen on schedule_from *)
| PI1 (nf : nat)                       (* idle: nf->state = RUNNING *)
| PW1 (f : nat) | PW2 (f : nat)
| PP1 (f : nat) | PP2 (f : nat)        (* park-saving: f->state == WAITING ? ; f->state = SAVING *)
| PF1 (f : nat) | PF2 (f : nat)        (* flip: f->state == SAVING ? ; f->state = WAITING *)
| Fin
with kont :=                           (* who called next() / schedule() / load_balance() *)
| KYield (st : Z)                      (* next() called from yield, st = state read before *)
| KIdle                                (* next() called from the scheduler loop *)
| KIdleLB                              (* load_balance called from the scheduler loop *)
| KBalLB                               (* load_balance called from a running fiber *)
| KSpawn (f : nat)                     (* schedule() called from spawn: ret f *)
| KRequeue (nf : nat)                  (* schedule() called by the successor's maintenance *)
| KWake (f : nat).

Record tst := { pc : pcT; cur : nat; prog : list op; opi : nat }.

Record st := { dq : nat -> list nat; sfrom : nat -> nat; sto : nat -> nat;
               fstt : nat -> Z; inwq : nat -> bool; thr : nat -> tst; nthr : nat;
               to_store : bool (* true: schedule() pushes on store_to (repaired code); false: schedule_from (pinned code) *) }.

Local Open Scope Z_scope.
Definition Zn (n : nat) : Z := Z.of_nat n.
Definition ev (t : nat) (loc kind v : Z) : list Z := [Zn t; loc; kind; v].
Definition l_from (t : nat) : Z := 10 + 2 * Zn t.
Definition l_to (t : nat) : Z := 11 + 2 * Zn t.
Definition l_fs (f : nat) : Z := 200 + Zn f.
Definition retev (t k : nat) (v : Z) : list Z := [Zn t; Zn k; 909; v].
Local Close Scope Z_scope.

Definition set_thr (s : st) (t : nat) (x : tst) : st :=
  {| dq := dq s; sfrom := sfrom s; sto := sto s; fstt := fstt s; inwq := inwq s; thr := upd (thr s) t x; nthr := nthr s; to_store := to_store s |}.
Definition set_dq (s : st) (d : nat) (l : list nat) : st :=
  {| dq := upd (dq s) d l; sfrom := sfrom s; sto := sto s; fstt := fstt s; inwq := inwq s; thr := thr s; nthr := nthr s; to_store := to_store s |}.
Definition set_fs (s : st) (f : nat) (v : Z) : st :=
  {| dq := dq s; sfrom := sfrom s; sto := sto s; fstt := upd (fstt s) f v; inwq := inwq s; thr := thr s; nthr := nthr s; to_store := to_store s |}.
Definition set_wq (s : st) (f : nat) (b : bool) : st :=
  {| dq := dq s; sfrom := sfrom s; sto := sto s; fstt := fstt s; inwq := upd (inwq s) f b; thr := thr s; nthr := nthr s; to_store := to_store s |}.
Definition set_from (s : st) (t : nat) (d : nat) : st :=
  {| dq := dq s; sfrom := upd (sfrom s) t d; sto := sto s; fstt := fstt s; inwq := inwq s; thr := thr s; nthr := nthr s; to_store := to_store s |}.
Definition set_to (s : st) (t : nat) (d : nat) : st :=
  {| dq := dq s; sfrom := sfrom s; sto := upd (sto s) t d; fstt := fstt s; inwq := inwq s; thr := thr s; nthr := nthr s; to_store := to_store s |}.

Definition with_pc (T : tst) (p : pcT) : tst := {| pc := p; cur := cur T; prog := prog T; opi := opi T |}.
Definition with_cur (T : tst) (c : nat) : tst := {| pc := pc T; cur := c; prog := prog T; opi := opi T |}.

Definition NF : nat := 32.                       (* size of the harness's fiber array *)
Definition bad_id (f : nat) : bool := Nat.eqb f 0 || Nat.ltb NF f.

(* begin the next calls of the program; calls that the harness refuses (yield
   without a current fiber, idle with one, a fiber id outside 1..NF) only emit
   ret -1.  Returns events + new thread state *)
Fixpoint start (t : nat) (c : nat) (p : list op) (k : nat) : list Z * tst :=
  match p with
  | [] => ([], {| pc := Fin; cur := c; prog := []; opi := k |})
  | o :: r =>
    let go pc0 := ([], {| pc := pc0; cur := c; prog := r; opi := k |}) in
    match o with
    | OSpawn f => if bad_id f then let '(e, T) := start t c r (S k) in (retev t k (-1) ++ e, T) else go (PSpawnR f)
    | OYield => if Nat.eqb c 0 then let '(e, T) := start t c r (S k) in (retev t k (-1) ++ e, T) else go PYRead
    | OBlock => if Nat.eqb c 0 then let '(e, T) := start t c r (S k) in (retev t k (-1) ++ e, T) else go PBlockW
    | OIdle => if Nat.eqb c 0 then go (PL1 KIdleLB) else let '(e, T) := start t c r (S k) in (retev t k (-1) ++ e, T)
    | OWake f => if bad_id f then let '(e, T) := start t c r (S k) in (retev t k (-1) ++ e, T) else go (PW1 f)
    | OBalance => go (PL1 KBalLB)
    | OPark f => if bad_id f then let '(e, T) := start t c r (S k) in (retev t k (-1) ++ e, T) else go (PP1 f)
    | OFlip f => if bad_id f then let '(e, T) := start t c r (S k) in (retev t k (-1) ++ e, T) else go (PF1 f)
    end
  end.

(* the current call finished with value v *)
Definition finish (t : nat) (T : tst) (c : nat) (v : Z) : list Z * tst :=
  let '(e, T') := start t c (prog T) (S (opi T)) in (retev t (opi T) v ++ e, T').

Definition qid (index : nat) : nat := S index.      (* fiber_scheduler_thread_queues[index] *)

(* load_balance after its first read / after a push: the silent part up to the
   next successful steal.  i ranges over [i, iend); returns the new deques and
   either the next pc or "done" *)
Fixpoint lb_scan (fuel : nat) (dqs : nat -> list nat) (n : nat) (i iend lc ms : nat) (rc : option nat)
  : (nat -> list nat) * option (nat * nat * nat * nat * nat) (* i, lc, rc, ms, stolen *) :=
  match fuel with
  | O => (dqs, None)
  | S fu =>
    if Nat.leb iend i then (dqs, None)
    else
      let d := qid (i mod (2 * n)) in
      let rcv := match rc with Some r => r | None => length (dqs d) end in
      if Nat.ltb lc rcv && Nat.ltb 0 ms
      then match rev (dqs d) with
           | [] => lb_scan fu dqs n (S i) iend lc ms None          (* steal failed: EMPTY -> break *)
           | x :: rest => (upd dqs d (rev rest), Some (i, lc, rcv, ms, x))
           end
      else lb_scan fu dqs n (S i) iend lc ms None
  end.

Definition lb_iend (t n : nat) : nat := 2 * (t + 1) + 2 * (n - 1).

(* what happens when next() returns nf to continuation k *)
Definition next_ret (s : st) (t : nat) (T : tst) (k : kont) (nf : nat) : st * list Z :=
  match k with
  | KYield stv =>
      match nf with
      | O => let c := if Z.eqb stv 3 then O else cur T in
             let s0 := if Z.eqb stv 3 then set_wq s (cur T) true else s in   (* parked *)
             let '(e, T') := finish t T c (Zn c) in (set_thr s0 t T', e)
      | S _ => (set_thr s t (with_pc T (PY2 nf)), [])
      end
  | KIdle =>
      match nf with
      | O => let '(e, T') := finish t T (cur T) (Zn (cur T)) in (set_thr s t T', e)
      | S _ => (set_thr s t (with_pc T (PI1 nf)), [])
      end
  | _ => (s, [])
  end.

(* what happens when load_balance returns *)
Definition lb_ret (s : st) (t : nat) (T : tst) (k : kont) : st * list Z :=
  match k with
  | KIdleLB => (set_thr s t (with_pc T (PN1 KIdle)), [])
  | _ => let '(e, T') := finish t T (cur T) 0%Z in (set_thr s t T', e)
  end.

Definition lb_continue (s : st) (t : nat) (T : tst) (k : kont) (i lc ms : nat) (rc : option nat) : st * list Z :=
  let n := nthr s in
  let '(dqs, r) := lb_scan (2 * n + 60) (dq s) n i (lb_iend t n) lc ms rc in
  let s1 := {| dq := dqs; sfrom := sfrom s; sto := sto s; fstt := fstt s; inwq := inwq s; thr := thr s; nthr := nthr s; to_store := to_store s |} in
  match r with
  | Some (i', lc', rc', ms', x) => (set_thr s1 t (with_pc T (PL2 k i' lc' rc' ms' x)), [])
  | None => lb_ret s1 t T k
  end.

Definition step (s : st) (t : nat) : st * list Z :=
  let T := thr s t in
  match pc T with
  | Fin => (s, [])
  | PSpawnR f =>
      let e := ev t (l_fs f) 9 (fstt s f) in
      if Z.eqb (fstt s f) 0 then (set_thr s t (with_pc T (PSpawnW f)), e)
      else let '(e1, T') := finish t T (cur T) (-1)%Z in (set_thr s t T', e ++ e1)
  | PSpawnW f => (set_thr (set_fs s f 2) t (with_pc T (PSched f (KSpawn f))), ev t (l_fs f) 19 2)
  | PSched f k =>
      let d := if to_store s then sto s t else sfrom s t in
      let e := ev t (if to_store s then l_to t else l_from t) 9 (Zn d) in
      let s1 := set_dq s d (f :: dq s d) in
      match k with
      | KSpawn g => let '(e1, T') := finish t T (cur T) (Zn g) in (set_thr s1 t T', e ++ e1)
      | KRequeue nf => let '(e1, T') := finish t T nf (Zn nf) in (set_thr s1 t T', e ++ e1)
      | KWake g => let '(e1, T') := finish t T (cur T) (Zn g) in (set_thr s1 t T', e ++ e1)
      | _ => (s1, e)
      end
  | PBlockW => (set_thr (set_fs s (cur T) 3) t (with_pc T PYRead), ev t (l_fs (cur T)) 19 3)
  | PYRead => (set_thr s t (with_pc T (PN1 (KYield (fstt s (cur T))))), ev t (l_fs (cur T)) 9 (fstt s (cur T)))
  (* ---- fiber_scheduler_next ---- *)
  | PN1 k =>
      let d := sfrom s t in
      let e := ev t (l_from t) 9 (Zn d) in
      match dq s d with
      | [] => (set_thr s t (with_pc T (PN2 k)), e)
      | _ => (set_thr s t (with_pc T (PN6 k)), e)
      end
  | PN2 k => (set_thr s t (with_pc T (PN3 k (sfrom s t))), ev t (l_from t) 9 (Zn (sfrom s t)))
  | PN3 k tmp => (set_thr s t (with_pc T (PN4 k tmp (sto s t))), ev t (l_to t) 9 (Zn (sto s t)))
  | PN4 k tmp sv => (set_thr (set_from s t sv) t (with_pc T (PN5 k tmp)), ev t (l_from t) 19 (Zn sv))
  | PN5 k tmp => (set_thr (set_to s t tmp) t (with_pc T (PN6 k)), ev t (l_to t) 19 (Zn tmp))
  | PN6 k =>
      let d := sfrom s t in
      let e := ev t (l_from t) 9 (Zn d) in
      match dq s d with
      | [] => let '(s1, e1) := next_ret s t T k O in (s1, e ++ e1)
      | _ => (set_thr s t (with_pc T (PN7 k)), e)
      end
  | PN7 k =>
      let d := sfrom s t in
      let e := ev t (l_from t) 9 (Zn d) in
      match dq s d with
      | [] => (set_thr s t (with_pc T (PN6 k)), e)            (* WSD_EMPTY: a thief took it *)
      | x :: rest => (set_thr (set_dq s d rest) t (with_pc T (PN8 k x)), e)
      end
  | PN8 k x =>
      let e := ev t (l_fs x) 9 (fstt s x) in
      if Z.eqb (fstt s x) 5 then (set_thr s t (with_pc T (PN9 k x)), e)
      else let '(s1, e1) := next_ret s t T k x in (s1, e ++ e1)
  | PN9 k x =>
      let d := sto s t in
      (set_thr (set_dq s d (x :: dq s d)) t (with_pc T (PN6 k)), ev t (l_to t) 9 (Zn d))
  (* ---- yield after next() found nf ---- *)
  | PY2 nf =>
      let e := ev t (l_fs (cur T)) 9 (fstt s (cur T)) in
      if Z.eqb (fstt s (cur T)) 1 then (set_thr s t (with_pc T (PY3 nf)), e)
      else (set_thr s t (with_pc T (PY4 nf 0)), e)
  | PY3 nf => (set_thr (set_fs s (cur T) 2) t (with_pc T (PY4 nf (cur T))), ev t (l_fs (cur T)) 19 2)
  | PY4 nf ts =>
      let s1 := set_fs s nf 1 in
      let e := ev t (l_fs nf) 19 1 in
      match ts with
      | O => let '(e1, T') := finish t T nf (Zn nf) in (set_thr (set_wq s1 (cur T) true) t T', e ++ e1)   (* old fiber parked *)
      | S _ => (set_thr s1 t (with_pc T (PSched ts (KRequeue nf))), e)
      end
  (* ---- load_balance ---- *)
  | PL1 k =>
      let d := sfrom s t in
      let e := ev t (l_from t) 9 (Zn d) in
      let '(s1, e1) := lb_continue s t T k (2 * (t + 1)) (length (dq s d)) 50 None in (s1, e ++ e1)
  | PL2 k i lc rc ms x =>
      let d := sfrom s t in
      let e := ev t (l_from t) 9 (Zn d) in
      let s0 := set_dq s d (x :: dq s d) in
      let '(s1, e1) := lb_continue s0 t T k i (S lc) (ms - 1) (Some (rc - 1)) in (s1, e ++ e1)
  | PI1 nf =>
      let '(e1, T') := finish t T nf (Zn nf) in (set_thr (set_fs s nf 1) t T', ev t (l_fs nf) 19 1 ++ e1)
  | PW1 f =>
      let e := ev t (l_fs f) 9 (fstt s f) in
      if Z.eqb (fstt s f) 3 && inwq s f then (set_thr (set_wq s f false) t (with_pc T (PW2 f)), e)
      else let '(e1, T') := finish t T (cur T) 0%Z in (set_thr s t T', e ++ e1)
  | PW2 f => (set_thr (set_fs s f 2) t (with_pc T (PSched f (KWake f))), ev t (l_fs f) 19 2)
  | PP1 f =>
      let e := ev t (l_fs f) 9 (fstt s f) in
      if Z.eqb (fstt s f) 3 && inwq s f then (set_thr (set_wq s f false) t (with_pc T (PP2 f)), e)
      else let '(e1, T') := finish t T (cur T) 0%Z in (set_thr s t T', e ++ e1)
  | PP2 f => (set_thr (set_fs s f 5) t (with_pc T (PSched f (KWake f))), ev t (l_fs f) 19 5)
  | PF1 f =>
      let e := ev t (l_fs f) 9 (fstt s f) in
      if Z.eqb (fstt s f) 5 then (set_thr s t (with_pc T (PF2 f)), e)
      else let '(e1, T') := finish t T (cur T) 0%Z in (set_thr s t T', e ++ e1)
  | PF2 f =>
      let '(e1, T') := finish t T (cur T) (Zn f) in (set_thr (set_fs s f 3) t T', ev t (l_fs f) 19 3 ++ e1)
  end.

Definition status_of (s : st) (t : nat) : status :=
  if (t <? nthr s)%nat then match pc (thr s t) with Fin => SDone | _ => SReady end else SDone.

Definition init (fixed : bool) (progs : list (list op)) : st * list Z :=
  let ths := map (fun tp => start (fst tp) 0 (snd tp) 1) (combine (seq 0 (length progs)) progs) in
  ({| dq := fun _ => []; sfrom := fun t => 2 * t + 1; sto := fun t => 2 * t + 2;
      fstt := fun _ => 0%Z; inwq := fun _ => false;
      thr := fun t => snd (nth t ths ([], {| pc := Fin; cur := 0; prog := []; opi := 0 |}));
      nthr := length progs; to_store := fixed |},
   flat_map fst ths).

Definition M : machine :=
  {| mstate := st; mstep := step; mstatus := status_of; mthreads := nthr |}.

Definition dec_op (p : Z * Z) : op :=
  match fst p with
  | 1%Z => OSpawn (Z.to_nat (snd p)) | 2%Z => OYield | 4%Z => OBlock | 3%Z => OIdle
  | 5%Z => OWake (Z.to_nat (snd p)) | 7%Z => OPark (Z.to_nat (snd p)) | 8%Z => OFlip (Z.to_nat (snd p))
  | _ => OBalance
  end.

(* params: drain bound, schedule target (1 = store_to, 0 = schedule_from) *)
Definition run_case (l : list Z) : list Z :=
  match decode_case l with
  | Some c =>
      let '(s0, e0) := init (Z.eqb (nthZ (c_params c) 1) 1) (map (map dec_op) (c_progs c)) in
      run_all M s0 e0 (c_sched c) (Z.to_nat (nthZ (c_params c) 0))
  | None => [(-1)%Z]
  end.
