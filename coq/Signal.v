(* C11 model "signal": include/fiber_signal.h (fiber_signal_wait / _raise) on
   the T1 machine = the ChanK client restricted to wait / raise programs.
   Harness: rt/h_signal.c.  case: params = dmax; ops (1,_) wait, (2,_) raise. *)
From Coq Require Import List ZArith Lia Bool Arith.
From LF Require Import Conc T1K ChanK.
Import ListNotations.
Local Open Scope Z_scope.

Definition dec_op (p : Z * Z) : cop :=
  match fst p with 1 => OWait | _ => ORaise end.

Definition init (progs : list (list cop)) : st := ChanK.init 2 progs.
Definition M : machine := ChanK.M.

Definition run_case (l : list Z) : list Z :=
  match decode_case l with
  | Some c => run_all M (init (map (map dec_op) (c_progs c))) [] (c_sched c)
                      (Z.to_nat (nthZ (c_params c) 0))
  | None => [(-1)%Z]
  end.
