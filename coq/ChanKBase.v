(* C11: base invariant of the ChanK machine (Signal / UChan / BChan models):
   every thread's stack has one of a fixed list of shapes, for arbitrary
   programs, thread counts and schedules.  All further proofs case on this
   list ([destruct (shape_of ...)]) and compute the step of each shape.

   The list is closed under every branch of T1K.kstep without knowing the
   values in memory (e.g. a yield entered in state WAITING could, as far as this
   invariant knows, read any state): which branches are really taken is proved
   on top of it (ChanKProofs.v). *)
From Coq Require Import List ZArith Lia Bool Arith.
From LF Require Import Conc T1K ChanK.
Import ListNotations.
Local Open Scope Z_scope.

Arguments fname : simpl never.
Arguments Zn : simpl never.
Arguments tid_of_name : simpl never.
Arguments c_scr : simpl never.
Arguments c_buf : simpl never.
Arguments c_dat : simpl never.
Arguments c_nxt : simpl never.
Arguments bidx : simpl never.
Arguments Z.add : simpl nomatch.
Arguments Z.sub : simpl nomatch.
Arguments Z.ltb : simpl nomatch.
Arguments Z.eqb : simpl nomatch.

(* the frames of a fiber_manager_yield in progress (above the client continuation) *)
Inductive yfr :=
| YfRead | YfNext (st : Z) | YfSwRead | YfSwReady | YfSwDone | YfMRead | YfMFlip
| YfMSet (c : nat) (v : Z) | YfAsleep | YfResume.

Definition ystack (y : yfr) : stack cc :=
  match y with
  | YfRead => [YRead]
  | YfNext st => [YNext st]
  | YfSwRead => [SwRead; YLoop]
  | YfSwReady => [SwReady; YLoop]
  | YfSwDone => [SwDone; YLoop]
  | YfMRead => [MRead; YLoop]
  | YfMFlip => [MFlip; YLoop]
  | YfMSet c v => [MSetWait c v; YLoop]
  | YfAsleep => [Asleep; YLoop]
  | YfResume => [Resume; YLoop]
  end.

(* continuations on top of which a yield runs *)
Definition ycont (c : cc) : Prop :=
  match c with KWSlept _ _ _ => True | KBYield _ _ _ => True | _ => False end.

Inductive shaped (size : Z) (t : nat) : stack cc -> Prop :=
| sh_done : shaped size t []
| sh_start p k : shaped size t [Start; FC (KNext p k)]
(* wait *)
| sh_wclr a p k : shaped size t [CWrite (c_scr t) 0; FC (KWClr a p k)]
| sh_wcas a p k : shaped size t [CCasC c_waiter NO_WAITER (fname t) 3; FC (KWCas a p k)]
| sh_wsw a p k : shaped size t [SWState (c_scr t) READY_TO_WAKE; FC (KWSlept a p k)]
| sh_wclr2 a p k : shaped size t [CWrite (c_scr t) 0; FC (KWClr2 a p k)]
| sh_wst a p k : shaped size t [CStoreC c_waiter NO_WAITER 5; FC (KWEnd a p k)]
(* raise *)
| sh_rx p k : shaped size t [CXchgC c_waiter RAISED 3; FC (KRX p k)]
| sh_rst f p k : shaped size t [CStoreC c_waiter NO_WAITER 5; FC (KRSt f p k)]
| sh_rspin f p k : shaped size t [CRead (c_scr f); FC (KRSpin f p k)]
| sh_rrdy f p k : shaped size t [FStWrite f ST_READY; FC (KRRdy f p k)]
(* unbounded send *)
| sh_udata n v p k : shaped size t [CWrite (c_dat n) v; FC (KUData n p k)]
| sh_unull n p k : shaped size t [CWrite (c_nxt n) 0; FC (KUNull n p k)]
| sh_uxchg n p k : shaped size t [CXchgC c_tail (Zn n) 3; FC (KUXchg n p k)]
| sh_ulink pv n p k : shaped size t [CWrite (c_nxt pv) (Zn n); FC (KULink p k)]
(* unbounded receive *)
| sh_uhead blk p k : shaped size t [CRead c_head; FC (KUHead blk p k)]
| sh_unxt blk hd p k : shaped size t [CRead (c_nxt hd); FC (KUNxt blk hd p k)]
| sh_usethead hd v p k : shaped size t [CWrite c_head v; FC (KUSetHead hd (Z.to_nat v) p k)]
| sh_uread hd hn p k : shaped size t [CRead (c_dat hn); FC (KURead hd p k)]
| sh_uwrite hd v p k : shaped size t [CWrite (c_dat hd) v; FC (KUWrite hd p k)]
| sh_uuse hd p k : shaped size t [CRead (c_dat hd); FC (KUUse p k)]
(* bounded send *)
| sh_blow x p k : shaped size t [CLoadC c_low 2; FC (KBLow x p k)]
| sh_bhigh x lo p k : shaped size t [CLoadC c_high 2; FC (KBHigh x lo p k)]
| sh_bslot x lo hi p k : shaped size t [CRead (c_buf (bidx size hi)); FC (KBSlot x lo hi p k)]
| sh_bcas x hi p k : shaped size t [CCasC c_high hi (hi + 1) 3; FC (KBCas x hi p k)]
| sh_bwrite x hi p k : shaped size t [CWrite (c_buf (bidx size hi)) x; FC (KBWrite p k)]
(* bounded receive *)
| sh_qhigh blk p k : shaped size t [CLoadC c_high 2; FC (KQHigh blk p k)]
| sh_qlow blk hi p k : shaped size t [CLoadC c_low 2; FC (KQLow blk hi p k)]
| sh_qslot blk hi lo p k : shaped size t [CRead (c_buf (bidx size lo)); FC (KQSlot blk hi lo p k)]
| sh_qclear m lo p k : shaped size t [CWrite (c_buf (bidx size lo)) 0; FC (KQClear m lo p k)]
| sh_qstore m lo p k : shaped size t [CStoreC c_low (lo + 1) 3; FC (KQStore m p k)]
(* a yield in progress: in fiber_signal_wait or in the bounded send's retry loop *)
| sh_yield y c : ycont c -> shaped size t (ystack y ++ [FC c]).

Record BInv (s : st) : Prop := {
  b_shape : forall t, shaped (csize s) t (stk s t);
  b_nomutex : forall t, slot_mutex (mem s) t = None
}.

Lemma shaped_start size t p k : shaped size t (start t p k).
Proof.
  destruct p as [|[| |n v| | |v| |] r]; cbn; try constructor.
Qed.

Lemma init_binv size progs : BInv (init size progs).
Proof.
  constructor; cbn; intros; [constructor | reflexivity].
Qed.

(* memory effects that never touch the mutex slot *)
Lemma wake_nomutex m f t : slot_mutex (wake m f) t = slot_mutex m t.
Proof. unfold wake. destruct (blocked m f); reflexivity. Qed.

Ltac shape_done :=
  repeat match goal with
         | |- context [if ?b then _ else _] => destruct b eqn:?
         end;
  cbn; first [ apply shaped_start | constructor
             | apply (sh_yield _ _ YfRead); exact I ].

(* [sleep] and [run_slots] from a yield's maintenance, continuation c *)
Lemma sleep_shape size m t c :
  ycont c ->
  let '(m1, e1, s1) := sleep cc m t [YLoop; FC c] in
  shaped size t s1 /\ (forall u, slot_mutex m1 u = slot_mutex m u).
Proof.
  intros Hc. unfold sleep. destruct (pend m t); cbn; split; auto.
  - apply (sh_yield _ _ YfAsleep); exact Hc.
  - apply (sh_yield _ _ YfResume); exact Hc.
Qed.

Lemma run_slots_shape size m t c :
  ycont c -> (forall u, slot_mutex m u = None) ->
  let '(m1, e1, s1) := run_slots cc m t [YLoop; FC c] in
  shaped size t s1 /\ (forall u, slot_mutex m1 u = None).
Proof.
  intros Hc Hm. unfold run_slots.
  destruct (slot_sched m t) eqn:Es.
  - set (m1 := wake (set_slot_sched m t false) t).
    assert (Hm1 : forall u, slot_mutex m1 u = None).
    { intros u. unfold m1. rewrite wake_nomutex. cbn. apply Hm. }
    destruct (slot_mpmc m1 t) eqn:Ep.
    + cbn [slot_mutex set_mq set_slot_mpmc]. rewrite Hm1.
      cbn [slot_wait set_mq set_slot_mpmc].
      destruct (slot_wait m1 t) as [[c0 v0]|] eqn:Ew.
      * split; [apply (sh_yield _ _ (YfMSet c0 v0)); exact Hc | intros u; cbn; apply Hm1].
      * match goal with |- context [sleep cc ?mm t ?r] =>
          pose proof (sleep_shape size mm t c Hc) as S; destruct (sleep cc mm t r) as [[m2 e2] s2] end.
        destruct S as [S1 S2]. split; auto. intros u. rewrite S2. cbn. apply Hm1.
    + rewrite Hm1. destruct (slot_wait m1 t) as [[c0 v0]|] eqn:Ew.
      * split; [apply (sh_yield _ _ (YfMSet c0 v0)); exact Hc | intros u; cbn; apply Hm1].
      * pose proof (sleep_shape size m1 t c Hc) as S. destruct (sleep cc m1 t [YLoop; FC c]) as [[m2 e2] s2].
        destruct S as [S1 S2]. split; auto. intros u. rewrite S2. apply Hm1.
  - destruct (slot_mpmc m t) eqn:Ep.
    + cbn [slot_mutex set_mq set_slot_mpmc]. rewrite Hm.
      cbn [slot_wait set_mq set_slot_mpmc].
      destruct (slot_wait m t) as [[c0 v0]|] eqn:Ew.
      * split; [apply (sh_yield _ _ (YfMSet c0 v0)); exact Hc | intros u; cbn; apply Hm].
      * match goal with |- context [sleep cc ?mm t ?r] =>
          pose proof (sleep_shape size mm t c Hc) as S; destruct (sleep cc mm t r) as [[m2 e2] s2] end.
        destruct S as [S1 S2]. split; auto. intros u. rewrite S2. cbn. apply Hm.
    + rewrite Hm. destruct (slot_wait m t) as [[c0 v0]|] eqn:Ew.
      * split; [apply (sh_yield _ _ (YfMSet c0 v0)); exact Hc | intros u; cbn; apply Hm].
      * pose proof (sleep_shape size m t c Hc) as S. destruct (sleep cc m t [YLoop; FC c]) as [[m2 e2] s2].
        destruct S as [S1 S2]. split; auto. intros u. rewrite S2. apply Hm.
Qed.

(* the continuation of a yield, when the yield returns *)
Lemma ycont_ret_shape size m t c v :
  ycont c ->
  let '(m1, e1, s1) := cret size m t c v in shaped size t s1 /\ m1 = m.
Proof.
  destruct c; cbn; try contradiction; intros _; split; auto; constructor.
Qed.

Lemma binv_of_kstep s t :
  BInv s ->
  (let '(m1, e1, s1) := kstep cc (cret (csize s)) (mem s) t (stk s t) in
   shaped (csize s) t s1 /\ (forall u, slot_mutex m1 u = None)) ->
  BInv (fst (step s t)).
Proof.
  intros B H. unfold step.
  destruct (kstep cc (cret (csize s)) (mem s) t (stk s t)) as [[m1 e1] s1].
  destruct H as [H1 H2]. constructor; cbn.
  - intros u. destruct (Nat.eq_dec u t) as [->|Hne].
    + rewrite upd_same. exact H1.
    + rewrite upd_other by assumption. apply (b_shape s B).
  - exact H2.
Qed.

Lemma binv_step s t : BInv s -> BInv (fst (step s t)).
Proof.
  intros B. apply binv_of_kstep; [exact B|].
  pose proof (b_shape s B t) as Sh. pose proof (b_nomutex s B) as Nm.
  remember (stk s t) as S eqn:ES. remember (csize s) as size eqn:Esz. clear ES.
  destruct Sh; cbn.
  all: try (try match goal with a : wk |- _ => destruct a end;
            repeat match goal with
                   | |- context [if ?b then _ else _] => destruct b eqn:?
                   end; cbn;
            (split; [rewrite ?app_nil_r; shape_done | intros u; cbn; try rewrite wake_nomutex; apply Nm])).
  - (* a yield in progress *)
    destruct y; cbn.
    + (* YRead *) split; [apply (sh_yield _ _ (YfNext _)); assumption | exact Nm].
    + (* YNext *)
      destruct ((st =? ST_WAITING) || (st =? ST_DONE) || (st =? ST_SAVING)).
      * split; [apply (sh_yield _ _ YfSwRead); assumption | exact Nm].
      * pose proof (ycont_ret_shape size (mem s) t c 0 H) as R.
        destruct (cret size (mem s) t c 0) as [[m1 e1] s1]. destruct R as [R1 ->].
        rewrite app_nil_r. split; assumption.
    + (* SwRead *)
      destruct (fstate (mem s) t =? ST_RUNNING); (split; [|exact Nm]).
      * apply (sh_yield _ _ YfSwReady); assumption.
      * apply (sh_yield _ _ YfSwDone); assumption.
    + split; [apply (sh_yield _ _ YfSwDone); assumption | intros u; cbn; apply Nm].
    + split; [apply (sh_yield _ _ YfMRead); assumption | exact Nm].
    + (* MRead *)
      destruct (fstate (mem s) t =? ST_SAVING).
      * split; [apply (sh_yield _ _ YfMFlip); assumption | exact Nm].
      * pose proof (run_slots_shape size (mem s) t c H Nm) as R.
        destruct (run_slots cc (mem s) t [YLoop; FC c]) as [[m1 e1] s1]. exact R.
    + (* MFlip *)
      pose proof (run_slots_shape size (set_fstate (mem s) t ST_WAITING) t c H Nm) as R.
      destruct (run_slots cc (set_fstate (mem s) t ST_WAITING) t [YLoop; FC c]) as [[m1 e1] s1]. exact R.
    + (* MSetWait *)
      pose proof (sleep_shape size (set_cell (mem s) c0 v) t c H) as R.
      destruct (sleep cc (set_cell (mem s) c0 v) t [YLoop; FC c]) as [[m1 e1] s1].
      destruct R as [R1 R2]. split; [exact R1 | intros u; rewrite R2; apply Nm].
    + (* Asleep *) split; [apply (sh_yield _ _ YfResume); assumption | exact Nm].
    + (* Resume: YLoop restarts the yield loop *)
      split; [apply (sh_yield _ _ YfRead); assumption | intros u; cbn; apply Nm].
Qed.

Lemma reachable_binv size progs s : reachable M (init size progs) s -> BInv s.
Proof.
  apply (invariant_ind M). - apply init_binv. - intros s0 t B _. apply binv_step. exact B.
Qed.
