(* KernelInv: the inductive invariant of the protocol machine coq/Kernel.v and
   the proof automation shared by the per-label preservation lemmas
   (KernelStepA/B/C.v, KernelProofs.v).  Property C01 / runtime half of C02. *)
From Coq Require Import List Arith Lia Bool.
From LF Require Import Conc Kernel.
Import ListNotations.

(* ---- boolean guards to propositions ---- *)
Lemma fst_eqb_true a b : fst_eqb a b = true -> a = b.
Proof. destruct a, b; simpl; congruence. Qed.
Lemma fst_eqb_false a b : fst_eqb a b = false -> a <> b.
Proof. destruct a, b; simpl; congruence. Qed.
Lemma fst_eqb_refl a : fst_eqb a a = true.
Proof. destruct a; reflexivity. Qed.
Lemma oeqb_true a b : oeqb a b = true -> a = Some b.
Proof. destruct a; simpl; [|discriminate]. intros H. apply Nat.eqb_eq in H. now subst. Qed.
Lemma oeqb_false a b : oeqb a b = false -> a <> Some b.
Proof. destruct a; simpl; [|discriminate]. intros H E. inversion E. subst. now rewrite Nat.eqb_refl in H. Qed.
Lemma isnone_true {A} (a : option A) : isnone a = true -> a = None.
Proof. destruct a; simpl; congruence. Qed.
Lemma isnone_false {A} (a : option A) : isnone a = false -> a <> None.
Proof. destruct a; simpl; congruence. Qed.

(* ---- the exclusive references to a fiber ---- *)
Inductive kind :=
| KQ | KHand (t : nat) | KAvail | KHolder | KTosched (t : nat) | KDonef (t : nat)
| KPubpend (t : nat) | KBorn | KMaint (t : nat).

Definition ref (s : ks) (f : nat) (k : kind) : Prop :=
  match k with
  | KQ => q s f = true
  | KHand t => hand s t = Some f
  | KAvail => avail s f <> None
  | KHolder => holder s f <> None
  | KTosched t => tosched s t = Some f
  | KDonef t => donef s t = Some f
  | KPubpend t => pubpend s t = Some f
  | KBorn => born s f <> None
  | KMaint t => maintf s t = Some f
  end.

(* a deferred-action slot of manager t names f: either f is still t's current
   fiber and has not switched away yet, or f has been saved and the
   maintenance that will consume the slot is running *)
Definition slot (s : ks) (t f : nat) : Prop :=
  (cur s t = f /\ inmaint s t = false) \/ (cx s f = CSaved /\ inmaint s t = true).

Record KInv (n : nat) (s : ks) : Prop := {
  k1 : forall t, t < n -> cx s (cur s t) = CLive t;
  k2 : forall f t, cx s f = CLive t -> t < n /\ cur s t = f;
  k0 : forall f, fs s f = FNone -> cx s f = CNone;
  kout : forall t, n <= t ->
         hand s t = None /\ tosched s t = None /\ donef s t = None /\ pubpend s t = None /\
         maintf s t = None /\ oldf s t = None /\ inmaint s t = false;
  ku : forall f a b, ref s f a -> ref s f b -> a = b;
  krt : forall f a, ref s f a -> fs s f <> FNone /\ cx s f <> CFreed;
  kq : forall f, q s f = true -> cx s f = CSaved \/ cx s f = CFresh \/ fs s f = FSaving;
  khand : forall t f, hand s t = Some f -> (cx s f = CSaved \/ cx s f = CFresh) /\ fs s f <> FSaving;
  kav1 : forall f, avail s f = Some AP1 -> fs s f = FSaving \/ (fs s f = FWait /\ cx s f = CSaved);
  kav2 : forall f, avail s f = Some ASlot -> fs s f = FWait /\ cx s f = CSaved;
  khold : forall f t, holder s f = Some t -> fs s f = FReady /\ cx s f = CSaved;
  ktos : forall t f, tosched s t = Some f -> fs s f = FReady /\ slot s t f;
  kdone : forall t f, donef s t = Some f -> fs s f = FDone /\ slot s t f;
  kpub : forall t f, pubpend s t = Some f -> fs s f = FWait /\ slot s t f;
  kborn : forall f t, born s f = Some t -> cx s f = CFresh;
  kmaint : forall t m, maintf s t = Some m -> cur s t = m \/ cx s m = CSaved;
  kcur : forall t, inmaint s t = true -> fs s (cur s t) = FRun;
  kold_a : forall t f, oldf s t = Some f -> cx s f = CSaved;
  kold_b : forall t f, oldf s t = Some f -> fs s f = FSaving \/ maintf s t = Some f;
  kold_c : forall t u f, oldf s t = Some f -> oldf s u = Some f -> t = u;
  kold_d : forall t u f, oldf s t = Some f -> maintf s u = Some f -> u = t
}.

(* ---- derived facts used by the saturation tactic ---- *)
Section Derived.
Variables (n : nat) (s : ks).
Hypothesis I : KInv n s.

Lemma lt_hand t f : hand s t = Some f -> t < n.
Proof. intros H. destruct (le_lt_dec n t) as [L|L]; [|exact L]. destruct (kout _ _ I t L) as (E&_). congruence. Qed.
Lemma lt_tosched t f : tosched s t = Some f -> t < n.
Proof. intros H. destruct (le_lt_dec n t) as [L|L]; [|exact L]. destruct (kout _ _ I t L) as (_&E&_). congruence. Qed.
Lemma lt_donef t f : donef s t = Some f -> t < n.
Proof. intros H. destruct (le_lt_dec n t) as [L|L]; [|exact L]. destruct (kout _ _ I t L) as (_&_&E&_). congruence. Qed.
Lemma lt_pubpend t f : pubpend s t = Some f -> t < n.
Proof. intros H. destruct (le_lt_dec n t) as [L|L]; [|exact L]. destruct (kout _ _ I t L) as (_&_&_&E&_). congruence. Qed.
Lemma lt_maintf t f : maintf s t = Some f -> t < n.
Proof. intros H. destruct (le_lt_dec n t) as [L|L]; [|exact L]. destruct (kout _ _ I t L) as (_&_&_&_&E&_). congruence. Qed.
Lemma lt_oldf t f : oldf s t = Some f -> t < n.
Proof. intros H. destruct (le_lt_dec n t) as [L|L]; [|exact L]. destruct (kout _ _ I t L) as (_&_&_&_&_&E&_). congruence. Qed.
Lemma lt_inmaint t : inmaint s t = true -> t < n.
Proof. intros H. destruct (le_lt_dec n t) as [L|L]; [|exact L]. destruct (kout _ _ I t L) as (_&_&_&_&_&_&E). congruence. Qed.

Lemma ref_q f : q s f = true -> ref s f KQ. Proof. exact (fun H => H). Qed.
Lemma ref_hand t f : hand s t = Some f -> ref s f (KHand t). Proof. exact (fun H => H). Qed.
Lemma ref_tosched t f : tosched s t = Some f -> ref s f (KTosched t). Proof. exact (fun H => H). Qed.
Lemma ref_donef t f : donef s t = Some f -> ref s f (KDonef t). Proof. exact (fun H => H). Qed.
Lemma ref_pubpend t f : pubpend s t = Some f -> ref s f (KPubpend t). Proof. exact (fun H => H). Qed.
Lemma ref_maintf t f : maintf s t = Some f -> ref s f (KMaint t). Proof. exact (fun H => H). Qed.
Lemma ref_avail f a : avail s f = Some a -> ref s f KAvail.
Proof. simpl. congruence. Qed.
Lemma ref_holder f t : holder s f = Some t -> ref s f KHolder.
Proof. simpl. congruence. Qed.
Lemma ref_born f t : born s f = Some t -> ref s f KBorn.
Proof. simpl. congruence. Qed.

(* two threads whose current fiber is the same are the same thread *)
Lemma cur_inj t u : t < n -> u < n -> cur s t = cur s u -> t = u.
Proof. intros Ht Hu E. pose proof (k1 _ _ I t Ht) as A. pose proof (k1 _ _ I u Hu) as B. rewrite E in A. congruence. Qed.
End Derived.

(* ---- automation ---- *)
Definition did (P : Prop) : Prop := True.
Ltac note p :=
  let T := type of p in
  lazymatch goal with
  | _ : did T |- _ => fail
  | _ : T |- _ => fail
  | _ => assert (did T) by exact Logic.I; let H := fresh "N" in pose proof p as H
  end.

Ltac bnorm :=
  repeat match goal with
  | H : andb _ _ = true |- _ => apply andb_prop in H; destruct H
  | H : orb _ _ = false |- _ => apply orb_false_elim in H; destruct H
  | H : orb _ _ = true |- _ => apply orb_prop in H; destruct H
  | H : negb _ = true |- _ => apply negb_true_iff in H
  | H : negb _ = false |- _ => apply negb_false_iff in H
  | H : Nat.eqb _ _ = true |- _ => apply Nat.eqb_eq in H
  | H : Nat.eqb _ _ = false |- _ => apply Nat.eqb_neq in H
  | H : fst_eqb _ _ = true |- _ => apply fst_eqb_true in H
  | H : fst_eqb _ _ = false |- _ => apply fst_eqb_false in H
  | H : oeqb _ _ = true |- _ => apply oeqb_true in H
  | H : oeqb _ _ = false |- _ => apply oeqb_false in H
  | H : isnone _ = true |- _ => apply isnone_true in H
  | H : isnone _ = false |- _ => apply isnone_false in H
  | H : andb _ _ = false |- _ => clear H
  end.

(* split the guards of an unfolded kstep *)
Ltac guards :=
  repeat match goal with
  | H : (if ?b then _ else _) = Some _ |- _ => let E := fresh "G" in destruct b eqn:E; [|try discriminate H]
  | H : match ?x with _ => _ end = Some _ |- _ => let E := fresh "G" in destruct x eqn:E; try discriminate H
  | H : None = Some _ |- _ => discriminate H
  end.

Ltac simp_state :=
  cbn [fs cx cur q hand avail holder tosched donef pubpend maintf oldf inmaint born
       set_fs set_cx set_cur set_q set_hand set_avail set_holder set_tosched set_donef
       set_pubpend set_maintf set_oldf set_inmaint set_born] in *.

Ltac upd_tac :=
  repeat match goal with
  | H : context [upd ?g ?k ?x ?k] |- _ => rewrite (upd_same g k x) in H
  | |- context [upd ?g ?k ?x ?k] => rewrite (upd_same g k x)
  | H : context [upd ?g ?k ?x ?j] |- _ => rewrite (upd_other g k x j) in H by congruence
  | |- context [upd ?g ?k ?x ?j] => rewrite (upd_other g k x j) by congruence
  | H : context [upd ?g ?k ?x ?j] |- _ =>
      let e := fresh "e" in destruct (Nat.eq_dec j k) as [e|e]; [first [subst j | subst k | rewrite e in *]|]
  | |- context [upd ?g ?k ?x ?j] =>
      let e := fresh "e" in destruct (Nat.eq_dec j k) as [e|e]; [first [subst j | subst k | rewrite e in *]|]
  end.

(* forward saturation with the clauses of I : KInv n s *)
Ltac sat1 n s I :=
  match goal with
  | H : ?t < n |- _ => note (k1 n s I t H)
  | H : n <= ?t |- _ => note (kout n s I t H)
  | H : cx s ?f = CLive ?t |- _ => note (k2 n s I f t H)
  | H : fs s ?f = FNone |- _ => note (k0 n s I f H)
  | H : q s ?f = true |- _ => first [note (kq n s I f H) | note (ref_q s f H)]
  | H : hand s ?t = Some ?f |- _ =>
      first [note (khand n s I t f H) | note (ref_hand s t f H) | note (lt_hand n s I t f H)]
  | H : avail s ?f = Some AP1 |- _ => note (kav1 n s I f H)
  | H : avail s ?f = Some ASlot |- _ => note (kav2 n s I f H)
  | H : avail s ?f = Some ?a |- _ => first [is_var a; destruct a | note (ref_avail s f a H)]
  | H : holder s ?f = Some ?t |- _ => first [note (khold n s I f t H) | note (ref_holder s f t H)]
  | H : tosched s ?t = Some ?f |- _ =>
      first [note (ktos n s I t f H) | note (ref_tosched s t f H) | note (lt_tosched n s I t f H)]
  | H : donef s ?t = Some ?f |- _ =>
      first [note (kdone n s I t f H) | note (ref_donef s t f H) | note (lt_donef n s I t f H)]
  | H : pubpend s ?t = Some ?f |- _ =>
      first [note (kpub n s I t f H) | note (ref_pubpend s t f H) | note (lt_pubpend n s I t f H)]
  | H : born s ?f = Some ?t |- _ => first [note (kborn n s I f t H) | note (ref_born s f t H)]
  | H : maintf s ?t = Some ?f |- _ =>
      first [note (kmaint n s I t f H) | note (ref_maintf s t f H) | note (lt_maintf n s I t f H)]
  | H : inmaint s ?t = true |- _ => first [note (kcur n s I t H) | note (lt_inmaint n s I t H)]
  | H : oldf s ?t = Some ?f |- _ =>
      first [note (kold_a n s I t f H) | note (kold_b n s I t f H) | note (lt_oldf n s I t f H)]
  | H : oldf s ?t = Some ?f, H' : oldf s ?u = Some ?f |- _ =>
      lazymatch t with u => fail | _ => note (kold_c n s I t u f H H') end
  | H : oldf s ?t = Some ?f, H' : maintf s ?u = Some ?f |- _ =>
      lazymatch t with u => fail | _ => note (kold_d n s I t u f H H') end
  | H : cur s ?t = cur s ?u, Ht : ?t < n, Hu : ?u < n |- _ => note (cur_inj n s I t u Ht Hu H)
  | H : ref s ?f ?a |- _ => note (krt n s I f a H)
  | H : ref s ?f ?a, H' : ref s ?f ?b |- _ =>
      lazymatch a with b => fail | _ => note (ku n s I f a b H H') end
  | H : _ /\ _ |- _ => destruct H
  end.
Ltac sat n s I := repeat sat1 n s I.

Ltac fin :=
  unfold slot in *;
  first [ congruence | lia
        | solve [intuition (subst; first [congruence | lia])] ].

(* one clause of the invariant of the successor state *)
Ltac optnorm :=
  repeat match goal with
  | H : ?x <> None |- _ => let E := fresh "E" in destruct x eqn:E; [clear H | congruence]
  | H : None <> None |- _ => congruence
  end.
(* when the flat saturation is not enough: split a disjunction, saturate again *)
Ltac deep d n s I :=
  first [ fin
        | lazymatch d with
          | S ?d' =>
              match goal with
              | |- context [inmaint s ?t] =>
                  lazymatch goal with
                  | _ : inmaint s t = _ |- _ => fail
                  | _ => let E := fresh "E" in solve [destruct (inmaint s t) eqn:E; sat n s I; deep d' n s I]
                  end
              | H : _ \/ _ |- _ => solve [destruct H; sat n s I; deep d' n s I]
              end
          end ].
Ltac eqnorm :=
  repeat match goal with
  | H : Some _ = Some _ |- _ => injection H as H; try subst
  | H : Some _ = None |- _ => discriminate H
  | H : None = Some _ |- _ => discriminate H
  | H : true = false |- _ => discriminate H
  | H : false = true |- _ => discriminate H
  | H : ?a = ?a |- _ => clear H
  end.
Ltac clause n s I := intros; unfold slot; simp_state; upd_tac; optnorm; eqnorm; sat n s I; deep 2 n s I.
(* the two clauses that quantify over reference kinds *)
Ltac uclause n s I := let a := fresh "ka" in let b := fresh "kb" in intros ? a b; destruct a, b; cbn [ref]; clause n s I.
Ltac rclause n s I := let a := fresh "ka" in intros ? a; destruct a; cbn [ref]; clause n s I.
Ltac kinv n s I :=
  constructor; [clause n s I | clause n s I | clause n s I | clause n s I | uclause n s I | rclause n s I
               | clause n s I ..].
(* debugging variant: leaves the unsolved sub-cases, saturated *)
Ltac clause_dbg n s I := intros; unfold slot; simp_state; upd_tac; optnorm; eqnorm; sat n s I; try solve [deep 2 n s I].
Ltac kinv_dbg n s I :=
  constructor; [clause_dbg n s I | clause_dbg n s I | clause_dbg n s I | clause_dbg n s I
               | let a := fresh "ka" in let b := fresh "kb" in intros ? a b; destruct a, b; cbn [ref]; clause_dbg n s I
               | let a := fresh "ka" in intros ? a; destruct a; cbn [ref]; clause_dbg n s I
               | clause_dbg n s I ..].

(* unfold one label of kstep, split its guards *)
Ltac start H s' :=
  cbn [kstep] in H; guards;
  repeat match type of H with
         | Some (if ?b then _ else _) = Some _ => let E := fresh "G" in destruct b eqn:E
         end;
  injection H as H; subst s'; unfold switch_target in *; bnorm.
